(* Proofs about the model of helper/bst.go (Data/Bst.v): under a decidable total order the
   tree refines a multiset under every history of Insert/Remove/Contains/Min/Max; the search
   by sign of a wrapped int8 subtraction (bst.go before the fix) does not. *)
From Coq Require Import List Bool ZArith Lia Permutation.
Import ListNotations.
From Verif Require Import Data.Bst.

(* Go's <=, <, == on T form a decidable total order; == is Leibniz equality on the model. *)
Definition total_order (T : Type) (leb ltb eqb : T -> T -> bool) : Prop :=
  (forall x y, eqb x y = true <-> x = y) /\
  (forall x y, ltb x y = leb x y && negb (eqb x y)) /\
  (forall x y, leb x y = true \/ leb y x = true) /\
  (forall x y z, leb x y = true -> leb y z = true -> leb x z = true) /\
  (forall x y, leb x y = true -> leb y x = true -> x = y).

(* ------------------------------------------------------------------------------------ *)
(* Facts that need no ordering hypothesis.                                                *)

Lemma insert_elements :
  forall (T : Type) (leb : T -> T -> bool) (x : T) (t : tree T),
    Permutation (elements T (insert T leb x t)) (x :: elements T t).
Proof.
  intros T leb x t. induction t as [|l IHl v r IHr]; simpl.
  - apply Permutation_refl.
  - destruct (leb x v); simpl.
    + change (x :: elements T l ++ v :: elements T r)
        with ((x :: elements T l) ++ v :: elements T r).
      apply Permutation_app_tail. exact IHl.
    + apply Permutation_trans with (elements T l ++ x :: v :: elements T r).
      * apply Permutation_app_head.
        apply Permutation_trans with (v :: x :: elements T r).
        -- apply perm_skip. exact IHr.
        -- apply perm_swap.
      * apply Permutation_sym. apply Permutation_middle.
Qed.

Section BstProofs.
  Variable T : Type.
  Variable zero : T.
  Variable leb ltb eqb : T -> T -> bool.
  Hypothesis TO : total_order T leb ltb eqb.

  Notation elements := (elements T).
  Notation insert := (insert T leb).
  Notation contains := (contains T ltb eqb).
  Notation remove := (remove T ltb eqb).
  Notation pop_min := (pop_min T).
  Notation remove_root := (remove_root T).
  Notation remove_one := (remove_one T eqb).
  Notation tmin := (tmin T zero).
  Notation tmax := (tmax T zero).
  Notation list_min := (list_min T zero leb).
  Notation list_max := (list_max T zero leb).

  Lemma eqb_eq : forall x y, eqb x y = true <-> x = y.
  Proof. exact (proj1 TO). Qed.
  Lemma ltb_def : forall x y, ltb x y = leb x y && negb (eqb x y).
  Proof. exact (proj1 (proj2 TO)). Qed.
  Lemma leb_total : forall x y, leb x y = true \/ leb y x = true.
  Proof. exact (proj1 (proj2 (proj2 TO))). Qed.
  Lemma leb_trans : forall x y z, leb x y = true -> leb y z = true -> leb x z = true.
  Proof. exact (proj1 (proj2 (proj2 (proj2 TO)))). Qed.
  Lemma leb_antisym : forall x y, leb x y = true -> leb y x = true -> x = y.
  Proof. exact (proj2 (proj2 (proj2 (proj2 TO)))). Qed.
  Lemma leb_refl : forall x, leb x x = true.
  Proof. intros x. destruct (leb_total x x) as [H|H]; exact H. Qed.

  (* Ordering invariant, non-strict on both sides (duplicates may end up on either side
     after a successor-replacement removal). *)
  Fixpoint bst_ok (t : tree T) : Prop :=
    match t with
    | Leaf => True
    | Node l v r =>
        bst_ok l /\ bst_ok r /\
        (forall y, In y (elements l) -> leb y v = true) /\
        (forall y, In y (elements r) -> leb v y = true)
    end.

  (* ---------------------------------------------------------------------------------- *)
  (* Insert *)

  Lemma insert_ok : forall (x : T) (t : tree T), bst_ok t -> bst_ok (insert x t).
  Proof.
    intros x t. induction t as [|l IHl v r IHr]; intros Hok; simpl.
    - repeat split; intros y [].
    - destruct Hok as (Hl & Hr & Hlv & Hvr).
      destruct (leb x v) eqn:Exv; simpl.
      + repeat split; try assumption; [apply IHl; exact Hl|].
        intros y Hy.
        apply (Permutation_in y (insert_elements T leb x l)) in Hy.
        destruct Hy as [Hy|Hy]; [subst y; exact Exv | apply Hlv; exact Hy].
      + repeat split; try assumption; [apply IHr; exact Hr|].
        intros y Hy.
        apply (Permutation_in y (insert_elements T leb x r)) in Hy.
        destruct Hy as [Hy|Hy]; [subst y | apply Hvr; exact Hy].
        destruct (leb_total x v) as [H|H]; [congruence | exact H].
  Qed.

  (* ---------------------------------------------------------------------------------- *)
  (* Contains *)

  Lemma existsb_eqb_In : forall (x : T) (m : list T), existsb (eqb x) m = true <-> In x m.
  Proof.
    intros x m. rewrite existsb_exists. split.
    - intros (y & Hy & He). apply eqb_eq in He. subst y. exact Hy.
    - intros Hx. exists x. split; [exact Hx | apply eqb_eq; reflexivity].
  Qed.

  Lemma contains_In : forall (x : T) (t : tree T),
      bst_ok t -> (contains x t = true <-> In x (elements t)).
  Proof.
    intros x t. induction t as [|l IHl v r IHr]; intros Hok; simpl.
    - split; [discriminate | intros []].
    - destruct Hok as (Hl & Hr & Hlv & Hvr).
      rewrite in_app_iff. simpl.
      destruct (eqb x v) eqn:Eeq.
      + apply eqb_eq in Eeq. subst v. split; [intros _; right; left; reflexivity | reflexivity].
      + assert (Hne : x <> v).
        { intros Hxv. apply eqb_eq in Hxv. congruence. }
        pose proof (ltb_def x v) as Hlt. rewrite Eeq in Hlt. simpl in Hlt.
        rewrite andb_true_r in Hlt. rewrite Hlt.
        destruct (leb x v) eqn:Exv.
        * rewrite (IHl Hl). split; [intros H; left; exact H|].
          intros [H|[H|H]]; [exact H | congruence |].
          exfalso. apply Hne. apply leb_antisym; [exact Exv | apply Hvr; exact H].
        * rewrite (IHr Hr). split; [intros H; right; right; exact H|].
          intros [H|[H|H]]; [| congruence | exact H].
          apply Hlv in H. congruence.
  Qed.

  (* ---------------------------------------------------------------------------------- *)
  (* pop_min / remove_root / remove *)

  Lemma pop_min_elements : forall (l : tree T) (v : T) (r : tree T),
      elements (Node l v r) = fst (pop_min l v r) :: elements (snd (pop_min l v r)).
  Proof.
    induction l as [|ll IHll lv lr IHlr]; intros v r.
    - reflexivity.
    - specialize (IHll lv lr).
      change (elements (Node (Node ll lv lr) v r))
        with (elements (Node ll lv lr) ++ v :: elements r).
      rewrite IHll. simpl.
      destruct (pop_min ll lv lr) as [m l']. reflexivity.
  Qed.

  Lemma pop_min_leftmost : forall (l : tree T) (v : T) (r : tree T),
      fst (pop_min l v r) = leftmost T v l.
  Proof.
    induction l as [|ll IHll lv lr IHlr]; intros v r; simpl.
    - reflexivity.
    - specialize (IHll lv lr). destruct (pop_min ll lv lr) as [m l']. exact IHll.
  Qed.

  Lemma pop_min_ok : forall (l : tree T) (v : T) (r : tree T),
      bst_ok (Node l v r) ->
      bst_ok (snd (pop_min l v r)) /\
      (forall y, In y (elements (snd (pop_min l v r))) -> leb (fst (pop_min l v r)) y = true).
  Proof.
    induction l as [|ll IHll lv lr IHlr]; intros v r (Hl & Hr & Hlv & Hvr).
    - simpl. split; assumption.
    - pose proof (pop_min_elements ll lv lr) as Hel.
      specialize (IHll lv lr Hl).
      simpl. destruct (pop_min ll lv lr) as [m l']. simpl in *.
      destruct IHll as [Hok' Hmin].
      assert (Hsub : forall y, In y (elements l') -> In y (elements ll ++ lv :: elements lr)).
      { intros y Hy. rewrite Hel. right. exact Hy. }
      assert (Hmv : leb m v = true).
      { apply Hlv. rewrite Hel. left. reflexivity. }
      split.
      + repeat split; try assumption. intros y Hy. apply Hlv. apply Hsub. exact Hy.
      + intros y Hy. apply in_app_iff in Hy. destruct Hy as [Hy|[Hy|Hy]].
        * apply Hmin. exact Hy.
        * subst y. exact Hmv.
        * apply leb_trans with v; [exact Hmv | apply Hvr; exact Hy].
  Qed.

  Lemma remove_root_elements : forall l r : tree T,
      elements (remove_root l r) = elements l ++ elements r.
  Proof.
    intros l r. destruct l as [|ll lv lr]; [reflexivity|].
    destruct r as [|rl rv rr]; [simpl; now rewrite app_nil_r|].
    pose proof (pop_min_elements rl rv rr) as Hel.
    unfold remove_root. destruct (pop_min rl rv rr) as [m r']. simpl in Hel.
    change (elements (Node (Node ll lv lr) m r'))
      with (elements (Node ll lv lr) ++ m :: elements r').
    rewrite <- Hel. reflexivity.
  Qed.

  Lemma remove_root_ok : forall (l : tree T) (v : T) (r : tree T),
      bst_ok (Node l v r) -> bst_ok (remove_root l r).
  Proof.
    intros l v r (Hl & Hr & Hlv & Hvr).
    destruct l as [|ll lv lr]; [exact Hr|].
    destruct r as [|rl rv rr]; [exact Hl|].
    pose proof (pop_min_elements rl rv rr) as Hel.
    pose proof (pop_min_ok rl rv rr Hr) as [Hok' Hmin].
    unfold remove_root. destruct (pop_min rl rv rr) as [m r']. simpl fst in *. simpl snd in *.
    assert (Hvm : leb v m = true).
    { apply Hvr. rewrite Hel. left. reflexivity. }
    split; [exact Hl|]. split; [exact Hok'|]. split.
    - intros y Hy. apply leb_trans with v; [apply Hlv; exact Hy | exact Hvm].
    - exact Hmin.
  Qed.

  Lemma remove_flag : forall (x : T) (t : tree T), snd (remove x t) = contains x t.
  Proof.
    intros x t. induction t as [|l IHl v r IHr]; simpl; [reflexivity|].
    destruct (eqb x v); [reflexivity|].
    destruct (ltb x v).
    - destruct (remove x l) as [l' b]. exact IHl.
    - destruct (remove x r) as [r' b]. exact IHr.
  Qed.

  Lemma remove_false : forall (x : T) (t : tree T),
      snd (remove x t) = false -> fst (remove x t) = t.
  Proof.
    intros x t. induction t as [|l IHl v r IHr]; simpl; [reflexivity|].
    destruct (eqb x v); [discriminate|].
    destruct (ltb x v).
    - destruct (remove x l) as [l' b]. simpl in *. intros Hb. now rewrite IHl.
    - destruct (remove x r) as [r' b]. simpl in *. intros Hb. now rewrite IHr.
  Qed.

  Lemma remove_true : forall (x : T) (t : tree T),
      snd (remove x t) = true -> Permutation (elements t) (x :: elements (fst (remove x t))).
  Proof.
    intros x t. induction t as [|l IHl v r IHr]; simpl; [discriminate|].
    destruct (eqb x v) eqn:Eeq.
    - intros _. apply eqb_eq in Eeq. subst v. simpl.
      rewrite remove_root_elements. apply Permutation_sym. apply Permutation_middle.
    - destruct (ltb x v).
      + destruct (remove x l) as [l' b]. simpl in *. intros Hb.
        change (x :: elements l' ++ v :: elements r) with ((x :: elements l') ++ v :: elements r).
        apply Permutation_app_tail. apply IHl. exact Hb.
      + destruct (remove x r) as [r' b]. simpl in *. intros Hb.
        apply Permutation_trans with (elements l ++ x :: v :: elements r').
        * apply Permutation_app_head.
          apply Permutation_trans with (v :: x :: elements r').
          -- apply perm_skip. apply IHr. exact Hb.
          -- apply perm_swap.
        * apply Permutation_sym. apply Permutation_middle.
  Qed.

  Lemma remove_subset : forall (x y : T) (t : tree T),
      In y (elements (fst (remove x t))) -> In y (elements t).
  Proof.
    intros x y t Hy. destruct (snd (remove x t)) eqn:Eb.
    - apply (Permutation_in y (Permutation_sym (remove_true x t Eb))). right. exact Hy.
    - rewrite (remove_false x t Eb) in Hy. exact Hy.
  Qed.

  Lemma remove_ok : forall (x : T) (t : tree T), bst_ok t -> bst_ok (fst (remove x t)).
  Proof.
    intros x t. induction t as [|l IHl v r IHr]; intros Hok; simpl; [exact I|].
    destruct (eqb x v).
    - simpl. apply remove_root_ok with v. exact Hok.
    - destruct Hok as (Hl & Hr & Hlv & Hvr).
      destruct (ltb x v).
      + pose proof (remove_subset x) as Hsub. specialize (IHl Hl).
        destruct (remove x l) as [l' b] eqn:Er. simpl in *.
        repeat split; try assumption.
        intros y Hy. apply Hlv. specialize (Hsub y l). rewrite Er in Hsub. apply Hsub. exact Hy.
      + pose proof (remove_subset x) as Hsub. specialize (IHr Hr).
        destruct (remove x r) as [r' b] eqn:Er. simpl in *.
        repeat split; try assumption.
        intros y Hy. apply Hvr. specialize (Hsub y r). rewrite Er in Hsub. apply Hsub. exact Hy.
  Qed.

  (* the multiset side *)
  Lemma remove_one_flag : forall (x : T) (m : list T),
      snd (remove_one x m) = existsb (eqb x) m.
  Proof.
    intros x m. induction m as [|y m IH]; simpl; [reflexivity|].
    destruct (eqb x y); [reflexivity|].
    destruct (remove_one x m) as [m' b]. exact IH.
  Qed.

  Lemma remove_one_false : forall (x : T) (m : list T),
      snd (remove_one x m) = false -> fst (remove_one x m) = m.
  Proof.
    intros x m. induction m as [|y m IH]; simpl; [reflexivity|].
    destruct (eqb x y); [discriminate|].
    destruct (remove_one x m) as [m' b]. simpl in *. intros Hb. now rewrite IH.
  Qed.

  Lemma remove_one_true : forall (x : T) (m : list T),
      snd (remove_one x m) = true -> Permutation m (x :: fst (remove_one x m)).
  Proof.
    intros x m. induction m as [|y m IH]; simpl; [discriminate|].
    destruct (eqb x y) eqn:Eeq.
    - intros _. apply eqb_eq in Eeq. subst y. apply Permutation_refl.
    - destruct (remove_one x m) as [m' b]. simpl in *. intros Hb.
      apply Permutation_trans with (y :: x :: m').
      + apply perm_skip. apply IH. exact Hb.
      + apply perm_swap.
  Qed.

  (* ---------------------------------------------------------------------------------- *)
  (* Min / Max *)

  Lemma tmin_spec : forall (l : tree T) (v : T) (r : tree T),
      bst_ok (Node l v r) ->
      In (leftmost T v l) (elements (Node l v r)) /\
      (forall y, In y (elements (Node l v r)) -> leb (leftmost T v l) y = true).
  Proof.
    intros l v r Hok.
    pose proof (pop_min_elements l v r) as Hel.
    pose proof (pop_min_ok l v r Hok) as [_ Hmin].
    rewrite (pop_min_leftmost l v r) in *.
    rewrite Hel. split; [left; reflexivity|].
    intros y [Hy|Hy]; [subst y; apply leb_refl | apply Hmin; exact Hy].
  Qed.

  Lemma tmax_spec : forall (r l : tree T) (v : T),
      bst_ok (Node l v r) ->
      In (rightmost T v r) (elements (Node l v r)) /\
      (forall y, In y (elements (Node l v r)) -> leb y (rightmost T v r) = true).
  Proof.
    induction r as [|rl IHrl rv rr IHrr]; intros l v (Hl & Hr & Hlv & Hvr).
    - simpl. split; [apply in_app_iff; right; left; reflexivity|].
      intros y Hy. apply in_app_iff in Hy. destruct Hy as [Hy|[Hy|[]]].
      + apply Hlv. exact Hy.
      + subst y. apply leb_refl.
    - specialize (IHrr rl rv Hr). destruct IHrr as [Hin Hmax].
      change (rightmost T v (Node rl rv rr)) with (rightmost T rv rr).
      change (elements (Node l v (Node rl rv rr)))
        with (elements l ++ v :: elements (Node rl rv rr)).
      assert (Hvm : leb v (rightmost T rv rr) = true) by (apply Hvr; exact Hin).
      split; [apply in_app_iff; right; right; exact Hin|].
      intros y Hy. apply in_app_iff in Hy. destruct Hy as [Hy|[Hy|Hy]].
      + apply leb_trans with v; [apply Hlv; exact Hy | exact Hvm].
      + subst y. exact Hvm.
      + apply Hmax. exact Hy.
  Qed.

  Lemma fold_min_spec : forall (m : list T) (a : T),
      let r := fold_left (fun a b => if leb b a then b else a) m a in
      (r = a \/ In r m) /\ leb r a = true /\ (forall y, In y m -> leb r y = true).
  Proof.
    induction m as [|b m IH]; intros a; simpl.
    - split; [left; reflexivity|]. split; [apply leb_refl | intros y []].
    - specialize (IH (if leb b a then b else a)). simpl in IH.
      destruct IH as (Hin & Hle & Hall).
      destruct (leb b a) eqn:Eba.
      + split; [destruct Hin as [Hin|Hin]; right; [left; symmetry; exact Hin | right; exact Hin]|].
        split; [apply leb_trans with b; assumption|].
        intros y [Hy|Hy]; [subst y; exact Hle | apply Hall; exact Hy].
      + assert (Hab : leb a b = true).
        { destruct (leb_total a b) as [H|H]; [exact H | congruence]. }
        split; [destruct Hin as [Hin|Hin]; [left; exact Hin | right; right; exact Hin]|].
        split; [exact Hle|].
        intros y [Hy|Hy]; [subst y; apply leb_trans with a; assumption | apply Hall; exact Hy].
  Qed.

  Lemma fold_max_spec : forall (m : list T) (a : T),
      let r := fold_left (fun a b => if leb a b then b else a) m a in
      (r = a \/ In r m) /\ leb a r = true /\ (forall y, In y m -> leb y r = true).
  Proof.
    induction m as [|b m IH]; intros a; simpl.
    - split; [left; reflexivity|]. split; [apply leb_refl | intros y []].
    - specialize (IH (if leb a b then b else a)). simpl in IH.
      destruct IH as (Hin & Hle & Hall).
      destruct (leb a b) eqn:Eab.
      + split; [destruct Hin as [Hin|Hin]; right; [left; symmetry; exact Hin | right; exact Hin]|].
        split; [apply leb_trans with b; assumption|].
        intros y [Hy|Hy]; [subst y; exact Hle | apply Hall; exact Hy].
      + assert (Hba : leb b a = true).
        { destruct (leb_total a b) as [H|H]; [congruence | exact H]. }
        split; [destruct Hin as [Hin|Hin]; [left; exact Hin | right; right; exact Hin]|].
        split; [exact Hle|].
        intros y [Hy|Hy]; [subst y; apply leb_trans with a; assumption | apply Hall; exact Hy].
  Qed.

  Lemma list_min_spec : forall (y : T) (m : list T),
      In (list_min (y :: m)) (y :: m) /\
      (forall z, In z (y :: m) -> leb (list_min (y :: m)) z = true).
  Proof.
    intros y m. unfold Bst.list_min.
    destruct (fold_min_spec m y) as (Hin & Hle & Hall).
    split; [destruct Hin as [Hin|Hin]; [left; symmetry; exact Hin | right; exact Hin]|].
    intros z [Hz|Hz]; [subst z; exact Hle | apply Hall; exact Hz].
  Qed.

  Lemma list_max_spec : forall (y : T) (m : list T),
      In (list_max (y :: m)) (y :: m) /\
      (forall z, In z (y :: m) -> leb z (list_max (y :: m)) = true).
  Proof.
    intros y m. unfold Bst.list_max.
    destruct (fold_max_spec m y) as (Hin & Hle & Hall).
    split; [destruct Hin as [Hin|Hin]; [left; symmetry; exact Hin | right; exact Hin]|].
    intros z [Hz|Hz]; [subst z; exact Hle | apply Hall; exact Hz].
  Qed.

  Lemma tmin_list_min : forall (t : tree T) (m : list T),
      bst_ok t -> Permutation (elements t) m -> tmin t = list_min m.
  Proof.
    intros t m Hok Hp. destruct t as [|l v r].
    - simpl in Hp. apply Permutation_nil in Hp. subst m. reflexivity.
    - destruct m as [|y m].
      + apply Permutation_sym, Permutation_nil in Hp.
        simpl in Hp. destruct (elements l); discriminate.
      + destruct (tmin_spec l v r Hok) as [Hin Hmin].
        destruct (list_min_spec y m) as [Hin' Hmin'].
        unfold Bst.tmin. apply leb_antisym.
        * apply Hmin. apply (Permutation_in _ (Permutation_sym Hp)). exact Hin'.
        * apply Hmin'. apply (Permutation_in _ Hp). exact Hin.
  Qed.

  Lemma tmax_list_max : forall (t : tree T) (m : list T),
      bst_ok t -> Permutation (elements t) m -> tmax t = list_max m.
  Proof.
    intros t m Hok Hp. destruct t as [|l v r].
    - simpl in Hp. apply Permutation_nil in Hp. subst m. reflexivity.
    - destruct m as [|y m].
      + apply Permutation_sym, Permutation_nil in Hp.
        simpl in Hp. destruct (elements l); discriminate.
      + destruct (tmax_spec r l v Hok) as [Hin Hmax].
        destruct (list_max_spec y m) as [Hin' Hmax'].
        unfold Bst.tmax. apply leb_antisym.
        * apply Hmax'. apply (Permutation_in _ Hp). exact Hin.
        * apply Hmax. apply (Permutation_in _ (Permutation_sym Hp)). exact Hin'.
  Qed.

  (* ---------------------------------------------------------------------------------- *)
  (* Simulation *)

  Definition bsim (t : tree T) (m : list T) : Prop := bst_ok t /\ Permutation (elements t) m.

  Lemma bsim_step : forall (t : tree T) (m : list T) (o : bop T),
      bsim t m ->
      snd (bstep T zero leb ltb eqb t o) = snd (mstep T zero leb eqb m o) /\
      bsim (fst (bstep T zero leb ltb eqb t o)) (fst (mstep T zero leb eqb m o)).
  Proof.
    intros t m o [Hok Hp].
    assert (Hmem : forall x, contains x t = existsb (eqb x) m).
    { intros x. apply Bool.eq_iff_eq_true.
      rewrite (contains_In x t Hok), existsb_eqb_In.
      split; apply Permutation_in; [exact Hp | apply Permutation_sym; exact Hp]. }
    destruct o as [x|x|x| |]; unfold bstep, mstep.
    - simpl. split; [reflexivity|]. split; [apply insert_ok; exact Hok|].
      apply Permutation_trans with (x :: elements t);
        [apply insert_elements | apply perm_skip; exact Hp].
    - pose proof (remove_flag x t) as Hf. pose proof (remove_one_flag x m) as Hf'.
      pose proof (remove_ok x t Hok) as Hok'.
      pose proof (remove_true x t) as Ht. pose proof (remove_false x t) as Hfa.
      pose proof (remove_one_true x m) as Ht'. pose proof (remove_one_false x m) as Hfa'.
      rewrite Hmem, <- Hf' in Hf.
      destruct (remove x t) as [t' b]. destruct (remove_one x m) as [m' b']. simpl in *.
      subst b'. split; [reflexivity|]. split; [exact Hok'|].
      destruct b.
      + apply Permutation_cons_inv with x.
        apply Permutation_trans with (elements t); [apply Permutation_sym; apply Ht; reflexivity|].
        apply Permutation_trans with m; [exact Hp | apply Ht'; reflexivity].
      + rewrite (Hfa eq_refl), (Hfa' eq_refl). exact Hp.
    - simpl. split; [now rewrite Hmem | split; assumption].
    - simpl. split; [now rewrite (tmin_list_min t m Hok Hp) | split; assumption].
    - simpl. split; [now rewrite (tmax_list_max t m Hok Hp) | split; assumption].
  Qed.

  Lemma bsim_run : forall (ops : list (bop T)) (t : tree T) (m : list T),
      bsim t m -> brun T zero leb ltb eqb t ops = mrun T zero leb eqb m ops.
  Proof.
    induction ops as [|o ops IH]; intros t m Hsim; simpl; [reflexivity|].
    destruct (bsim_step t m o Hsim) as [Hout Hs].
    destruct (bstep T zero leb ltb eqb t o) as [t' out].
    destruct (mstep T zero leb eqb m o) as [m' out'].
    simpl in *. subst out'. f_equal. apply IH. exact Hs.
  Qed.

End BstProofs.

Lemma bst_refines_multiset :
  forall (T : Type) (zero : T) (leb ltb eqb : T -> T -> bool),
    total_order T leb ltb eqb ->
    forall ops : list (bop T),
      brun T zero leb ltb eqb Leaf ops = mrun T zero leb eqb [] ops.
Proof.
  intros T zero leb ltb eqb TO ops. apply bsim_run; [exact TO|].
  split; [exact I | apply perm_nil].
Qed.

Lemma total_order_Z : total_order Z Z.leb Z.ltb Z.eqb.
Proof.
  unfold total_order. repeat split.
  - apply Z.eqb_eq.
  - apply Z.eqb_eq.
  - intros x y. destruct (Z.ltb_spec x y), (Z.leb_spec x y), (Z.eqb_spec x y);
      simpl; try reflexivity; lia.
  - intros x y. rewrite !Z.leb_le. lia.
  - intros x y z. rewrite !Z.leb_le. lia.
  - intros x y. rewrite !Z.leb_le. lia.
Qed.

Lemma bst_refines_multiset_Z :
  forall ops : list (bop Z),
    brun Z 0%Z Z.leb Z.ltb Z.eqb Leaf ops = mrun Z 0%Z Z.leb Z.eqb [] ops.
Proof. exact (bst_refines_multiset Z 0%Z Z.leb Z.ltb Z.eqb total_order_Z). Qed.

(* ------------------------------------------------------------------------------------ *)
(* bst.go before "fix: compare keys in Bst.searchNode": the search decides by the sign of
   [diff := value - node.value], computed in T; for int8 the difference wraps.             *)

Definition wrap8 (z : Z) : Z := ((z + 128) mod 256 - 128)%Z.

Fixpoint contains_sub8 (x : Z) (t : tree Z) : bool :=
  match t with
  | Leaf => false
  | Node l v r =>
      let diff := wrap8 (x - v) in
      if Z.eqb diff 0 then true
      else if Z.ltb diff 0 then contains_sub8 x l else contains_sub8 x r
  end.

Fixpoint remove_sub8 (x : Z) (t : tree Z) : tree Z * bool :=
  match t with
  | Leaf => (Leaf, false)
  | Node l v r =>
      let diff := wrap8 (x - v) in
      if Z.eqb diff 0 then (remove_root Z l r, true)
      else if Z.ltb diff 0 then let (l', b) := remove_sub8 x l in (Node l' v r, b)
      else let (r', b) := remove_sub8 x r in (Node l v r', b)
  end.

Definition bstep_sub8 (t : tree Z) (o : bop Z) : tree Z * bout Z :=
  match o with
  | BInsert x => (insert Z Z.leb x t, BUnit)
  | BRemove x => let (t', b) := remove_sub8 x t in (t', BBool b)
  | BContains x => (t, BBool (contains_sub8 x t))
  | BMin => (t, BVal (tmin Z 0%Z t))
  | BMax => (t, BVal (tmax Z 0%Z t))
  end.

Fixpoint brun_sub8_from (t : tree Z) (ops : list (bop Z)) : list (bout Z) :=
  match ops with
  | [] => []
  | o :: ops' => let (t', out) := bstep_sub8 t o in out :: brun_sub8_from t' ops'
  end.

Definition brun_sub8 (ops : list (bop Z)) : list (bout Z) := brun_sub8_from Leaf ops.

Lemma bst_sub8_refuted :
  exists ops : list (bop Z),
    Forall (fun o => match o with
                     | BInsert x | BRemove x | BContains x => (-128 <= x < 128)%Z
                     | _ => True end) ops /\
    brun_sub8 ops <> mrun Z 0%Z Z.leb Z.eqb [] ops.
Proof.
  exists [BInsert (-100)%Z; BInsert 100%Z; BContains 100%Z].
  split.
  - repeat constructor; lia.
  - vm_compute. discriminate.
Qed.
