(* Proofs about the model of helper/ring.go (Data/Ring.v): the ring refines a bounded FIFO
   under every operation history, and Put returns the zero value until the ring is full. *)
From Coq Require Import List Arith Bool Lia.
Import ListNotations.
From Verif Require Import Data.Ring.

Section RingProofs.
  Variable A : Type.
  Variable d : A.

  (* ---------------------------------------------------------------------------------- *)
  (* Lists: upd / nth / tl / hd                                                           *)

  Lemma length_upd : forall (l : list A) (i : nat) (x : A), length (upd A i x l) = length l.
  Proof.
    induction l as [|h t IH]; intros i x; destruct i as [|j]; simpl; try reflexivity.
    now rewrite IH.
  Qed.

  Lemma nth_upd_eq : forall (l : list A) (i : nat) (x : A),
      i < length l -> nth i (upd A i x l) d = x.
  Proof.
    induction l as [|h t IH]; intros i x Hi; destruct i as [|j]; simpl in *; try lia.
    - reflexivity.
    - apply IH. lia.
  Qed.

  Lemma nth_upd_neq : forall (l : list A) (i j : nat) (x : A),
      i <> j -> nth j (upd A i x l) d = nth j l d.
  Proof.
    induction l as [|h t IH]; intros i j x Hij; destruct i as [|i']; destruct j as [|j'];
      simpl; try reflexivity; try lia.
    apply IH. lia.
  Qed.

  Lemma nth_tl : forall (l : list A) (i : nat), nth i (tl l) d = nth (S i) l d.
  Proof. intros l i. destruct l as [|h t]; simpl; [destruct i; reflexivity | reflexivity]. Qed.

  Lemma hd_nth0 : forall (l : list A), hd d l = nth 0 l d.
  Proof. intros l. destruct l; reflexivity. Qed.

  Lemma upd_app_mid : forall (xs rest : list A) (z y : A),
      upd A (length xs) y (xs ++ z :: rest) = xs ++ y :: rest.
  Proof.
    induction xs as [|h t IH]; intros rest z y; simpl; [reflexivity|]. now rewrite IH.
  Qed.

  (* ---------------------------------------------------------------------------------- *)
  (* Modular arithmetic: one wrap at most.                                                *)

  Lemma mod_lt2 : forall a n : nat,
      0 < n -> a < n + n -> a mod n = if a <? n then a else a - n.
  Proof.
    intros a n Hn Ha. destruct (Nat.ltb_spec a n) as [Hlt|Hge].
    - apply Nat.mod_small. exact Hlt.
    - symmetry. apply Nat.mod_unique with (q := 1); lia.
  Qed.

  Ltac modstep Hn :=
    match goal with
    | |- context [?a mod ?n] => rewrite (mod_lt2 a n Hn) by lia
    | H : context [?a mod ?n] |- _ => rewrite (mod_lt2 a n Hn) in H by lia
    | |- context [?a <? ?b] => destruct (Nat.ltb_spec a b)
    | H : context [?a <? ?b] |- _ => destruct (Nat.ltb_spec a b)
    | |- context [?a =? ?b] => destruct (Nat.eqb_spec a b)
    | H : context [?a =? ?b] |- _ => destruct (Nat.eqb_spec a b)
    end.
  Ltac modsolve Hn := repeat (modstep Hn); simpl in *; try reflexivity; try lia; try discriminate.

  (* ---------------------------------------------------------------------------------- *)
  (* The abstraction function.                                                            *)

  Lemma length_contents : forall r : ring A, length (contents A d r) = rcount A r.
  Proof. intros r. unfold contents. now rewrite map_length, seq_length. Qed.

  Lemma nth_contents : forall (r : ring A) (i : nat),
      i < rcount A r ->
      nth i (contents A d r) d = nth ((rbegin A r + i) mod length (rbuf A r)) (rbuf A r) d.
  Proof.
    intros r i Hi. unfold contents.
    set (f := fun k : nat => nth ((rbegin A r + k) mod length (rbuf A r)) (rbuf A r) d).
    rewrite (nth_indep (map f (seq 0 (rcount A r))) d (f 0))
      by (now rewrite map_length, seq_length).
    rewrite map_nth. rewrite seq_nth by exact Hi. reflexivity.
  Qed.

  Lemma rcount_le : forall r : ring A, rinv A r -> rcount A r <= length (rbuf A r).
  Proof.
    intros [buf b e em] (Hn & Hb & He & Hem). unfold rcount. simpl in *.
    destruct em; [lia|]. destruct (Nat.ltb_spec b e); lia.
  Qed.

  Lemma full_iff : forall r : ring A,
      rinv A r -> is_full A r = Nat.eqb (rcount A r) (length (rbuf A r)).
  Proof.
    intros [buf b e em] (Hn & Hb & He & Hem). unfold is_full, rcount. simpl in *.
    destruct em; simpl.
    - destruct (length buf); [lia | reflexivity].
    - modsolve Hn.
  Qed.

  Lemma empty_iff : forall r : ring A,
      rinv A r -> rempty A r = Nat.eqb (rcount A r) 0.
  Proof.
    intros [buf b e em] (Hn & Hb & He & Hem). unfold rcount. simpl in *.
    destruct em; simpl; [reflexivity|]. modsolve Hn.
  Qed.

  (* Put on a ring that is not full appends. *)
  Lemma put_notfull : forall (r : ring A) (x : A),
      rinv A r -> is_full A r = false ->
      rinv A (fst (put A d r x)) /\
      length (rbuf A (fst (put A d r x))) = length (rbuf A r) /\
      contents A d (fst (put A d r x)) = contents A d r ++ [x].
  Proof.
    intros [buf b e em] x (Hn & Hb & He & Hem) Hfull.
    unfold put. rewrite Hfull. unfold is_full, next_index in *. simpl in *.
    remember (length buf) as n eqn:En.
    split; [|split].
    - unfold rinv. simpl. rewrite length_upd, <- En.
      repeat split; try lia; try discriminate.
      modsolve Hn.
    - rewrite length_upd. symmetry. exact En.
    - apply (nth_ext _ _ d d).
      + rewrite app_length, !length_contents. unfold rcount. simpl.
        rewrite length_upd, <- En.
        destruct em; simpl in *; [specialize (Hem eq_refl)|]; modsolve Hn.
      + intros i Hi. rewrite length_contents in Hi.
        rewrite nth_contents by exact Hi.
        unfold rcount in Hi. simpl in *. rewrite length_upd, <- En in *.
        assert (Hc : i < rcount A (mkRing buf b e em) \/ i = rcount A (mkRing buf b e em)).
        { unfold rcount. simpl. rewrite <- En.
          destruct em; simpl in *; [specialize (Hem eq_refl)|]; modsolve Hn. }
        destruct Hc as [Hc|Hc].
        * rewrite app_nth1 by (now rewrite length_contents).
          rewrite nth_contents by exact Hc. simpl. rewrite <- En.
          rewrite nth_upd_neq; [reflexivity|].
          unfold rcount in Hc. simpl in Hc. rewrite <- En in Hc.
          destruct em; simpl in *; [lia|]. modsolve Hn.
        * rewrite app_nth2 by (rewrite length_contents; lia).
          rewrite length_contents, Hc, Nat.sub_diag. simpl.
          replace ((b + rcount A (mkRing buf b e em)) mod n) with e.
          { apply nth_upd_eq. lia. }
          unfold rcount. simpl. rewrite <- En.
          destruct em; simpl in *; [specialize (Hem eq_refl)|]; modsolve Hn.
  Qed.

  (* Put on a full ring drops the oldest element, returns it, and appends. *)
  Lemma put_full : forall (r : ring A) (x : A),
      rinv A r -> is_full A r = true ->
      rinv A (fst (put A d r x)) /\
      length (rbuf A (fst (put A d r x))) = length (rbuf A r) /\
      contents A d (fst (put A d r x)) = tl (contents A d r) ++ [x] /\
      snd (put A d r x) = hd d (contents A d r).
  Proof.
    intros [buf b e em] x (Hn & Hb & He & Hem) Hfull.
    unfold put. rewrite Hfull. unfold is_full, next_index in *. simpl in *.
    apply andb_true_iff in Hfull. destruct Hfull as [Hne Heb].
    apply negb_true_iff in Hne. apply Nat.eqb_eq in Heb. subst em e. clear Hem.
    remember (length buf) as n eqn:En.
    assert (Hcnt : rcount A (mkRing buf b b false) = n).
    { unfold rcount. simpl. rewrite <- En. modsolve Hn. }
    split; [|split; [|split]].
    - unfold rinv. simpl. rewrite length_upd, <- En.
      repeat split; try lia; try discriminate; modsolve Hn.
    - rewrite length_upd. symmetry. exact En.
    - assert (Hcnt' : rcount A (mkRing (upd A b x buf) ((b + 1) mod n) ((b + 1) mod n) false) = n).
      { unfold rcount. simpl. rewrite length_upd, <- En. modsolve Hn. }
      assert (Hlt : length (tl (contents A d (mkRing buf b b false))) = n - 1).
      { pose proof (length_contents (mkRing buf b b false)) as Hl. rewrite Hcnt in Hl.
        destruct (contents A d (mkRing buf b b false)); simpl in *; lia. }
      apply (nth_ext _ _ d d).
      + rewrite app_length, Hlt, length_contents, Hcnt'. simpl. lia.
      + intros i Hi. rewrite length_contents, Hcnt' in Hi.
        rewrite nth_contents by (rewrite Hcnt'; exact Hi).
        simpl. rewrite length_upd, <- En.
        destruct (Nat.eq_dec i (n - 1)) as [Hlast|Hnl].
        * rewrite app_nth2 by lia. rewrite Hlt, Hlast, Nat.sub_diag. simpl.
          replace (((b + 1) mod n + (n - 1)) mod n) with b by modsolve Hn.
          apply nth_upd_eq. lia.
        * rewrite app_nth1 by lia. rewrite nth_tl.
          rewrite nth_contents by (rewrite Hcnt; lia). simpl. rewrite <- En.
          rewrite nth_upd_neq by modsolve Hn.
          f_equal. modsolve Hn.
    - rewrite hd_nth0. rewrite nth_contents by (rewrite Hcnt; lia). simpl. rewrite <- En.
      f_equal. modsolve Hn.
  Qed.

  Lemma contents_empty : forall r : ring A, rempty A r = true -> contents A d r = [].
  Proof. intros r He. unfold contents, rcount. rewrite He. reflexivity. Qed.

  (* Get on a non-empty ring removes and returns the oldest element. *)
  Lemma get_nonempty : forall r : ring A,
      rinv A r -> rempty A r = false ->
      rinv A (fst (get A d r)) /\
      length (rbuf A (fst (get A d r))) = length (rbuf A r) /\
      exists (h : A) (t : list A),
        contents A d r = h :: t /\ contents A d (fst (get A d r)) = t /\
        snd (get A d r) = Some h.
  Proof.
    intros [buf b e em] (Hn & Hb & He & Hem) Hne. simpl in *. subst em. clear Hem.
    unfold get, next_index. simpl.
    remember (length buf) as n eqn:En.
    set (r := mkRing buf b e false).
    set (r' := mkRing buf ((b + 1) mod n) e ((b + 1) mod n =? e)).
    assert (Hinv : rinv A r).
    { unfold rinv, r. simpl. rewrite <- En. repeat split; try lia; discriminate. }
    assert (Hpos : 0 < rcount A r).
    { unfold rcount, r. simpl. rewrite <- En. modsolve Hn. }
    assert (Hcnt : rcount A r' = rcount A r - 1).
    { unfold rcount, r, r'. simpl. rewrite <- En. modsolve Hn. }
    assert (Htl : contents A d r' = tl (contents A d r)).
    { pose proof (length_contents r) as Hl.
      apply (nth_ext _ _ d d).
      - rewrite length_contents, Hcnt.
        destruct (contents A d r); simpl in *; lia.
      - intros i Hi. rewrite length_contents in Hi.
        rewrite nth_tl. rewrite !nth_contents by lia.
        unfold r, r'. simpl. rewrite <- En. f_equal.
        assert (Hi' : i < n).
        { pose proof (rcount_le r Hinv) as Hle. unfold r in Hle at 2. simpl in Hle.
          rewrite <- En in Hle. lia. }
        modsolve Hn. }
    split; [|split].
    - unfold rinv. simpl. rewrite <- En. repeat split; try lia.
      + modsolve Hn.
      + intros Heq. apply Nat.eqb_eq in Heq. exact Heq.
    - reflexivity.
    - exists (nth b buf d), (tl (contents A d r)).
      split; [|split].
      + pose proof (length_contents r) as Hl.
        pose proof (nth_contents r 0 Hpos) as H0.
        destruct (contents A d r) as [|h t] eqn:Ec; simpl in *; [lia|].
        rewrite H0. unfold r. simpl. rewrite <- En. f_equal. f_equal. modsolve Hn.
      + exact Htl.
      + reflexivity.
  Qed.

  (* ---------------------------------------------------------------------------------- *)
  (* Simulation.                                                                          *)

  Definition sim (r : ring A) (q : fifo A) : Prop :=
    rinv A r /\ length (rbuf A r) = fcap A q /\ contents A d r = fitems A q.

  Lemma sim_init : forall cap : nat, 0 < cap -> sim (new_ring A d cap) (fifo_new A cap).
  Proof.
    intros cap Hcap. unfold sim, rinv, new_ring, fifo_new. simpl.
    rewrite repeat_length. repeat split; try lia.
  Qed.

  Lemma sim_step : forall (r : ring A) (q : fifo A) (o : rop A),
      sim r q ->
      sim (fst (rstep A d r o)) (fst (fstep A d q o)) /\
      agrees A (snd (rstep A d r o)) (snd (fstep A d q o)).
  Proof.
    intros r q o (Hinv & Hcap & Hcont).
    assert (Hfull : fifo_full A q = is_full A r).
    { unfold fifo_full. rewrite <- Hcont, <- Hcap, length_contents. symmetry.
      apply full_iff. exact Hinv. }
    destruct o as [x| |i| |]; unfold rstep, fstep.
    - (* Put *)
      rewrite Hfull.
      destruct (put A d r x) as [r' v] eqn:Ep.
      destruct (is_full A r) eqn:Ef.
      + destruct (put_full r x Hinv Ef) as (Hi' & Hl' & Hc' & Hv).
        rewrite Ep in Hi', Hl', Hc', Hv. simpl in *.
        split; [|now rewrite Hv, Hcont].
        unfold sim. simpl. rewrite <- Hcont. split; [exact Hi'|split; [congruence|assumption]].
      + destruct (put_notfull r x Hinv Ef) as (Hi' & Hl' & Hc').
        rewrite Ep in Hi', Hl', Hc'. simpl in *.
        split; [|exact I].
        unfold sim. simpl. rewrite <- Hcont. split; [exact Hi'|split; [congruence|assumption]].
    - (* Get *)
      destruct (rempty A r) eqn:Ee.
      + pose proof (contents_empty r Ee) as Hnil. rewrite Hcont in Hnil.
        unfold get. rewrite Ee, Hnil. simpl.
        split; [|reflexivity]. unfold sim. split; [exact Hinv|split; [exact Hcap|congruence]].
      + destruct (get_nonempty r Hinv Ee) as (Hi' & Hl' & h & t & Hc & Hc' & Hv).
        destruct (get A d r) as [r' v] eqn:Eg. simpl in *.
        rewrite <- Hcont, Hc. simpl. subst v.
        split; [|reflexivity]. unfold sim. simpl. split; [exact Hi'|split; [congruence|exact Hc']].
    - (* At *)
      split; [unfold sim; split; [exact Hinv|split; assumption]|].
      rewrite <- Hcont, length_contents.
      destruct (Nat.ltb_spec i (rcount A r)) as [Hlt|Hge]; simpl; [|exact I].
      rewrite nth_contents by exact Hlt. reflexivity.
    - (* IsFull *)
      split; [unfold sim; split; [exact Hinv|split; assumption]|]. now rewrite Hfull.
    - (* IsEmpty *)
      split; [unfold sim; split; [exact Hinv|split; assumption]|].
      unfold is_empty. rewrite (empty_iff r Hinv), <- length_contents, Hcont.
      destruct (fitems A q); reflexivity.
  Qed.

  Lemma sim_run : forall (ops : list (rop A)) (r : ring A) (q : fifo A),
      sim r q -> Forall2 (agrees A) (rrun A d r ops) (frun A d q ops).
  Proof.
    induction ops as [|o ops IH]; intros r q Hsim; simpl; [constructor|].
    destruct (sim_step r q o Hsim) as [Hs Ha].
    destruct (rstep A d r o) as [r' out]. destruct (fstep A d q o) as [q' out'].
    simpl in *. constructor; [exact Ha | apply IH; exact Hs].
  Qed.

  (* ---------------------------------------------------------------------------------- *)
  (* Put returns the zero value until the ring is full.                                   *)

  Lemma puts_state : forall (cap : nat) (xs : list A),
      length xs < cap ->
      fold_left (fun r y => fst (put A d r y)) xs (new_ring A d cap) =
      mkRing (xs ++ repeat d (cap - length xs)) 0 (length xs) (Nat.eqb (length xs) 0).
  Proof.
    intros cap xs. induction xs as [|y xs IH] using rev_ind; intros Hlen.
    - simpl. rewrite Nat.sub_0_r. reflexivity.
    - rewrite app_length in Hlen. simpl in Hlen.
      rewrite fold_left_app. cbn [fold_left]. rewrite IH by lia.
      unfold put, is_full, next_index. simpl.
      assert (Hnf : negb (length xs =? 0) && (length xs =? 0) = false)
        by (destruct (length xs =? 0); reflexivity).
      rewrite Hnf.
      rewrite !app_length, repeat_length. simpl.
      replace (cap - length xs) with (S (cap - (length xs + 1))) by lia. simpl.
      rewrite upd_app_mid.
      replace (length xs + S (cap - (length xs + 1))) with cap by lia.
      rewrite Nat.mod_small by lia.
      rewrite <- app_assoc. simpl.
      f_equal. symmetry. apply Nat.eqb_neq. lia.
  Qed.

End RingProofs.

Lemma ring_refines_fifo :
  forall (A : Type) (d : A) (cap : nat) (ops : list (rop A)),
    0 < cap ->
    Forall2 (agrees A) (rrun A d (new_ring A d cap) ops) (frun A d (fifo_new A cap) ops).
Proof.
  intros A d cap ops Hcap. apply sim_run. apply sim_init. exact Hcap.
Qed.

Lemma ring_put_returns_zero_until_full :
  forall (A : Type) (d : A) (cap : nat) (xs : list A) (x : A),
    length xs < cap ->
    snd (put A d (fold_left (fun r y => fst (put A d r y)) xs (new_ring A d cap)) x) = d.
Proof.
  intros A d cap xs x Hlen. rewrite puts_state by exact Hlen.
  unfold put. simpl.
  rewrite app_nth2 by lia. rewrite Nat.sub_diag.
  destruct (cap - length xs); reflexivity.
Qed.
