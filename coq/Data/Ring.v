(* Model of helper/ring.go: Ring[T].  Definitions only (kept free of proofs so that the
   model still runs when a proof breaks).  Mirrors the Go code field by field. *)
From Coq Require Import List Arith Bool.
Import ListNotations.

Section Ring.
  Variable A : Type.
  Variable d : A.                       (* Go zero value of T *)

  Record ring := mkRing { rbuf : list A; rbegin : nat; rend : nat; rempty : bool }.

  (* NewRing(size): buffer of size zero values. *)
  Definition new_ring (size : nat) : ring := mkRing (repeat d size) 0 0 true.

  Fixpoint upd (i : nat) (x : A) (l : list A) : list A :=
    match l, i with
    | [], _ => []
    | _ :: t, O => x :: t
    | h :: t, S j => h :: upd j x t
    end.

  Definition next_index (r : ring) (i : nat) : nat := (i + 1) mod length (rbuf r).
  Definition is_empty (r : ring) : bool := rempty r.
  Definition is_full (r : ring) : bool := negb (rempty r) && Nat.eqb (rend r) (rbegin r).

  (* Put(t) T *)
  Definition put (r : ring) (t : A) : ring * A :=
    let b := if is_full r then next_index r (rbegin r) else rbegin r in
    let o := nth (rend r) (rbuf r) d in
    (mkRing (upd (rend r) t (rbuf r)) b (next_index r (rend r)) false, o).

  (* Get() (T, bool) *)
  Definition get (r : ring) : ring * option A :=
    if rempty r then (r, None)
    else
      let t := nth (rbegin r) (rbuf r) d in
      let b := next_index r (rbegin r) in
      (mkRing (rbuf r) b (rend r) (Nat.eqb b (rend r)), Some t).

  (* At(index) *)
  Definition at_ (r : ring) (i : nat) : A := nth ((rbegin r + i) mod length (rbuf r)) (rbuf r) d.

  (* ---------------------------------------------------------------------------------- *)
  (* Operation histories, as issued by the correspondence harness.                        *)
  Inductive rop := RPut (x : A) | RGet | RAt (i : nat) | RIsFull | RIsEmpty.
  Inductive rout := OVal (x : A) | ONone | OBool (b : bool).

  Definition rstep (r : ring) (o : rop) : ring * rout :=
    match o with
    | RPut x => let (r', v) := put r x in (r', OVal v)
    | RGet => let (r', v) := get r in (r', match v with Some x => OVal x | None => ONone end)
    | RAt i => (r, OVal (at_ r i))
    | RIsFull => (r, OBool (is_full r))
    | RIsEmpty => (r, OBool (is_empty r))
    end.

  Fixpoint rrun (r : ring) (ops : list rop) : list rout :=
    match ops with
    | [] => []
    | o :: ops' => let (r', out) := rstep r o in out :: rrun r' ops'
    end.

  (* ---------------------------------------------------------------------------------- *)
  (* Abstract specification: a bounded FIFO queue, oldest element first.                  *)
  Record fifo := mkFifo { fcap : nat; fitems : list A }.

  Definition fifo_new (cap : nat) : fifo := mkFifo cap [].
  Definition fifo_full (q : fifo) : bool := Nat.eqb (length (fitems q)) (fcap q).

  (* What the specification says about each operation.  [None] = "unspecified by the
     property" (Put on a non-full ring returns a stale slot; At beyond the stored count). *)
  Definition fstep (q : fifo) (o : rop) : fifo * option rout :=
    match o with
    | RPut x =>
        if fifo_full q
        then (mkFifo (fcap q) (tl (fitems q) ++ [x]), Some (OVal (hd d (fitems q))))
        else (mkFifo (fcap q) (fitems q ++ [x]), None)
    | RGet =>
        match fitems q with
        | [] => (q, Some ONone)
        | x :: t => (mkFifo (fcap q) t, Some (OVal x))
        end
    | RAt i => (q, if Nat.ltb i (length (fitems q)) then Some (OVal (nth i (fitems q) d)) else None)
    | RIsFull => (q, Some (OBool (fifo_full q)))
    | RIsEmpty => (q, Some (OBool (match fitems q with [] => true | _ => false end)))
    end.

  Fixpoint frun (q : fifo) (ops : list rop) : list (option rout) :=
    match ops with
    | [] => []
    | o :: ops' => let (q', out) := fstep q o in out :: frun q' ops'
    end.

  (* An implementation output agrees with a specification output when the latter is
     unspecified or they are equal. *)
  Definition agrees (impl : rout) (spec : option rout) : Prop :=
    match spec with None => True | Some s => impl = s end.

  (* Abstraction function: the stored elements, oldest first. *)
  Definition rcount (r : ring) : nat :=
    if rempty r then 0
    else if Nat.ltb (rbegin r) (rend r) then rend r - rbegin r
         else length (rbuf r) - rbegin r + rend r.

  Definition contents (r : ring) : list A :=
    map (fun k => nth ((rbegin r + k) mod length (rbuf r)) (rbuf r) d) (seq 0 (rcount r)).

  (* Representation invariant. *)
  Definition rinv (r : ring) : Prop :=
    0 < length (rbuf r) /\ rbegin r < length (rbuf r) /\ rend r < length (rbuf r) /\
    (rempty r = true -> rbegin r = rend r).

End Ring.

Arguments mkRing {A}.
Arguments RPut {A}.
Arguments RGet {A}.
Arguments RAt {A}.
Arguments RIsFull {A}.
Arguments RIsEmpty {A}.
Arguments OVal {A}.
Arguments ONone {A}.
Arguments OBool {A}.
