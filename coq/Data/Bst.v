(* Model of helper/bst.go: Bst[T].  Definitions only.
   The tree is a functional mirror of the pointer structure; [insert] puts equal keys to
   the left (node.value <= cur.value), [search] compares keys (==, <) as bst.go does after
   the "fix: compare keys in Bst.searchNode" commit, [remove] is the topmost match on the
   search path with in-order-successor replacement when the node has two children. *)
From Coq Require Import List Bool.
Import ListNotations.

Section Bst.
  Variable T : Type.
  Variable zero : T.                         (* T(0), returned by Min/Max on an empty tree *)
  Variable leb ltb eqb : T -> T -> bool.     (* Go's <=, <, == on T *)

  Inductive tree := Leaf | Node (l : tree) (v : T) (r : tree).

  (* Insert *)
  Fixpoint insert (x : T) (t : tree) : tree :=
    match t with
    | Leaf => Node Leaf x Leaf
    | Node l v r => if leb x v then Node (insert x l) v r else Node l v (insert x r)
    end.

  (* searchNode / Contains *)
  Fixpoint contains (x : T) (t : tree) : bool :=
    match t with
    | Leaf => false
    | Node l v r => if eqb x v then true else if ltb x v then contains x l else contains x r
    end.

  (* getMinNode on a non-empty tree, together with the tree without that node
     (the min node has no left child, so it is replaced by its right child). *)
  Fixpoint pop_min (l : tree) (v : T) (r : tree) : T * tree :=
    match l with
    | Leaf => (v, r)
    | Node ll lv lr => let (m, l') := pop_min ll lv lr in (m, Node l' v r)
    end.

  (* removeNode applied to the root of [Node l v r] *)
  Definition remove_root (l : tree) (r : tree) : tree :=
    match l, r with
    | Leaf, _ => r
    | _, Leaf => l
    | _, Node rl rv rr => let (m, r') := pop_min rl rv rr in Node l m r'
    end.

  (* Remove: (tree after, whether the value existed) *)
  Fixpoint remove (x : T) (t : tree) : tree * bool :=
    match t with
    | Leaf => (Leaf, false)
    | Node l v r =>
        if eqb x v then (remove_root l r, true)
        else if ltb x v then let (l', b) := remove x l in (Node l' v r, b)
        else let (r', b) := remove x r in (Node l v r', b)
    end.

  Fixpoint leftmost (v : T) (l : tree) : T :=
    match l with Leaf => v | Node ll lv _ => leftmost lv ll end.
  Fixpoint rightmost (v : T) (r : tree) : T :=
    match r with Leaf => v | Node _ rv rr => rightmost rv rr end.

  Definition tmin (t : tree) : T := match t with Leaf => zero | Node l v _ => leftmost v l end.
  Definition tmax (t : tree) : T := match t with Leaf => zero | Node _ v r => rightmost v r end.

  Fixpoint elements (t : tree) : list T :=
    match t with Leaf => [] | Node l v r => elements l ++ v :: elements r end.

  (* ---------------------------------------------------------------------------------- *)
  (* Operation histories *)
  Inductive bop := BInsert (x : T) | BRemove (x : T) | BContains (x : T) | BMin | BMax.
  Inductive bout := BUnit | BBool (b : bool) | BVal (x : T).

  Definition bstep (t : tree) (o : bop) : tree * bout :=
    match o with
    | BInsert x => (insert x t, BUnit)
    | BRemove x => let (t', b) := remove x t in (t', BBool b)
    | BContains x => (t, BBool (contains x t))
    | BMin => (t, BVal (tmin t))
    | BMax => (t, BVal (tmax t))
    end.

  Fixpoint brun (t : tree) (ops : list bop) : list bout :=
    match ops with
    | [] => []
    | o :: ops' => let (t', out) := bstep t o in out :: brun t' ops'
    end.

  (* ---------------------------------------------------------------------------------- *)
  (* Abstract specification: a multiset, represented as an unordered list. *)
  Fixpoint remove_one (x : T) (m : list T) : list T * bool :=
    match m with
    | [] => ([], false)
    | y :: m' => if eqb x y then (m', true) else let (m'', b) := remove_one x m' in (y :: m'', b)
    end.

  Definition list_min (m : list T) : T :=
    match m with [] => zero | y :: m' => fold_left (fun a b => if leb b a then b else a) m' y end.
  Definition list_max (m : list T) : T :=
    match m with [] => zero | y :: m' => fold_left (fun a b => if leb a b then b else a) m' y end.

  Definition mstep (m : list T) (o : bop) : list T * bout :=
    match o with
    | BInsert x => (x :: m, BUnit)
    | BRemove x => let (m', b) := remove_one x m in (m', BBool b)
    | BContains x => (m, BBool (existsb (eqb x) m))
    | BMin => (m, BVal (list_min m))
    | BMax => (m, BVal (list_max m))
    end.

  Fixpoint mrun (m : list T) (ops : list bop) : list bout :=
    match ops with
    | [] => []
    | o :: ops' => let (m', out) := mstep m o in out :: mrun m' ops'
    end.

End Bst.

Arguments Leaf {T}.
Arguments Node {T}.
Arguments BInsert {T}.
Arguments BRemove {T}.
Arguments BContains {T}.
Arguments BMin {T}.
Arguments BMax {T}.
Arguments BUnit {T}.
Arguments BBool {T}.
Arguments BVal {T}.
