(* C19: the glue around encoding/csv as a total function from the parser's event stream (records and the first error) to the rows
   delivered and the way the stream ends.  All-string row structs (cells never fail to decode); typed cells are covered by
   Codec/Csv.v (decode failure stops delivery). *)
From Coq Require Import List ZArith Bool Lia String.
Import ListNotations.
From Verif Require Import Codec.Csv.

Inductive ev := ERec (r : list string) | EErr.      (* results of csv.Reader.Read in order; EErr = a parse / field-count error *)
Inductive ending := Closed | Panicked.

Section Glue.
Variable bounds_check : bool.     (* true: the code checks ColumnIndex against the record length (fix commit); false: it indexes blindly *)

Fixpoint pick (cols : list (option nat)) (r : list string) : option (list string) :=
  match cols with
  | [] => Some []
  | None :: cols' => option_map (cons EmptyString) (pick cols' r)
  | Some c :: cols' => match nth_error r c with
                       | Some cell => option_map (cons cell) (pick cols' r)
                       | None => None
                       end
  end.

Fixpoint deliver (cols : list (option nat)) (evs : list ev) : list (list string) * ending :=
  match evs with
  | [] => ([], Closed)                       (* io.EOF *)
  | EErr :: _ => ([], Closed)                (* "Unable to read row": logged, loop left, channel closed *)
  | ERec r :: evs' =>
      match pick cols r with
      | Some row => let (rows, e) := deliver cols evs' in (row :: rows, e)
      | None => ([], if bounds_check then Closed else Panicked)   (* record[ColumnIndex] out of range *)
      end
  end.

Definition csv_glue (has_header : bool) (headers : list string) (evs : list ev) : list (list string) * ending :=
  if has_header then
    match evs with
    | ERec fh :: evs' => deliver (map (column_of fh) headers) evs'
    | _ => ([], Closed)                      (* "Unable to update the column indexes" *)
    end
  else deliver (map Some (seq 0 (List.length headers))) evs.
End Glue.

(* with the bounds check the reader never panics, whatever the parser delivers *)
Theorem glue_never_panics (has_header : bool) (headers : list string) (evs : list ev) :
  snd (csv_glue true has_header headers evs) = Closed.
Proof.
  assert (H : forall cols evs, snd (deliver true cols evs) = Closed).
  { intros cols. induction evs0 as [|[r|] evs0 IH]; cbn [deliver]; try reflexivity.
    destruct (pick cols r); [|reflexivity]. destruct (deliver true cols evs0) as [rows e]. exact IH. }
  unfold csv_glue. destruct has_header; [|apply H]. destruct evs as [|[fh|] evs]; try reflexivity. apply H.
Qed.

(* encoding/csv delivers records that all have the length of the first one (FieldsPerRecord = 0): with a header row every mapped column is
   in range, so even the unchecked code cannot panic *)
Lemma column_of_lt (fh : list string) (h : string) (c : nat) : column_of fh h = Some c -> c < List.length fh.
Proof.
  unfold column_of.
  assert (H : forall hs pos acc, (forall a, acc = Some a -> a < pos) -> forall c, last_index h hs pos acc = Some c -> c < pos + List.length hs).
  { induction hs as [|x hs IH]; intros pos acc Hacc c0 Hc; cbn [last_index List.length] in *.
    - rewrite Nat.add_0_r. apply Hacc. exact Hc.
    - replace (pos + S (List.length hs)) with (S pos + List.length hs) by lia. eapply IH; [|exact Hc].
      intros a Ha. destruct (String.eqb x h); [injection Ha as <-; lia | specialize (Hacc a Ha); lia]. }
  intros Hc. apply (H fh 0 None); [discriminate | exact Hc].
Qed.

Theorem glue_with_header_never_panics_unchecked (headers fh : list string) (evs : list ev) :
  Forall (fun e => match e with ERec r => List.length r = List.length fh | EErr => True end) evs ->
  snd (csv_glue false true headers (ERec fh :: evs)) = Closed.
Proof.
  intros Hlen. cbn [csv_glue].
  assert (Hpick : forall r, List.length r = List.length fh -> forall hs, pick (map (column_of fh) hs) r <> None).
  { intros r Hr hs. induction hs as [|h hs IH]; cbn [map pick]; [discriminate|].
    destruct (column_of fh h) as [c|] eqn:E.
    - apply column_of_lt in E. destruct (nth_error r c) eqn:En; [|apply nth_error_None in En; lia].
      destruct (pick (map (column_of fh) hs) r); [discriminate | contradiction].
    - destruct (pick (map (column_of fh) hs) r); [discriminate | contradiction]. }
  induction Hlen as [|[r|] evs Hr _ IH]; cbn [deliver]; try reflexivity.
  destruct (pick (map (column_of fh) headers) r) eqn:E; [|exfalso; eapply Hpick; eassumption].
  destruct (deliver false (map (column_of fh) headers) evs). exact IH.
Qed.

(* without a header a first record shorter than the struct makes the unchecked code index out of range *)
Theorem glue_no_header_short_record_panics_unchecked :
  snd (csv_glue false false ["A"; "B"; "C"]%string [ERec ["x"]%string]) = Panicked.
Proof. reflexivity. Qed.

(* the rows delivered are exactly the records before the first error (or short record), in order *)
Theorem glue_delivers_wellformed_prefix (b : bool) (cols : list (option nat)) (good : list (list string)) (rest : list ev) :
  Forall (fun r => pick cols r <> None) good ->
  (match rest with [] => True | EErr :: _ => True | ERec r :: _ => pick cols r = None end) ->
  fst (deliver b cols (map ERec good ++ rest)) = map (fun r => match pick cols r with Some row => row | None => [] end) good.
Proof.
  intros Hgood Hrest. induction Hgood as [|r good Hr _ IH]; cbn [map app].
  - destruct rest as [|[r|] rest]; cbn [deliver]; try reflexivity. rewrite Hrest. reflexivity.
  - cbn [deliver]. destruct (pick cols r) as [row|]; [|contradiction].
    destruct (deliver b cols (map ERec good ++ rest)) as [rows e]. cbn [fst] in *. f_equal. exact IH.
Qed.
