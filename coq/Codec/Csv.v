(* C11: the CSV codec at the level of records (lists of cells), the file operations at the level of bytes, and the JSON
   array framing.  The byte-level CSV grammar (quoting) and the text form of each scalar are Go's encoding/csv and strconv:
   they enter as round-trip hypotheses on an abstract field codec. *)
From Coq Require Import List ZArith Bool Lia String Ascii.
Import ListNotations.

Section RecordLevel.
(* a row struct with k fields: field i has header (hdr i), values are encoded to / decoded from cells *)
Context {V : Type} (enc : nat -> V -> string) (dec : nat -> string -> option V).
Hypothesis dec_enc : forall i v, dec i (enc i v) = Some v.

Definition row := list V.                       (* one value per field, in field order *)
Definition record := list string.

Definition encode_row (r : row) : record := map (fun iv => enc (fst iv) (snd iv)) (combine (seq 0 (List.length r)) r).
Definition write_records (headers : list string) (rows : list row) : list record := headers :: map encode_row rows.

(* updateColumnIndexes: the column of field i is the LAST position of its header in the header record (a Go map built left to right), or none *)
Fixpoint last_index (h : string) (hs : list string) (pos : nat) (acc : option nat) : option nat :=
  match hs with
  | [] => acc
  | x :: hs' => last_index h hs' (S pos) (if String.eqb x h then Some pos else acc)
  end.
Definition column_of (file_headers : list string) (h : string) : option nat := last_index h file_headers 0 None.

(* decoding one record for the given field headers: fields whose header is missing keep the zero value (dflt) *)
Fixpoint decode_fields (i : nat) (cols : list (option nat)) (dflt : V) (rec : record) : option row :=
  match cols with
  | [] => Some []
  | None :: cols' => option_map (cons dflt) (decode_fields (S i) cols' dflt rec)
  | Some c :: cols' =>
      match nth_error rec c with
      | None => None                      (* encoding/csv guarantees equal field counts; a short record would panic in Go *)
      | Some cell => match dec i cell with
                     | Some v => option_map (cons v) (decode_fields (S i) cols' dflt rec)
                     | None => None
                     end
      end
  end.

(* rows are delivered until the first record that fails to decode *)
Fixpoint decode_records (cols : list (option nat)) (dflt : V) (recs : list record) : list row :=
  match recs with
  | [] => []
  | r :: recs' => match decode_fields 0 cols dflt r with
                  | Some row => row :: decode_records cols dflt recs'
                  | None => []
                  end
  end.

Definition read_records (headers : list string) (dflt : V) (file : list record) : list row :=
  match file with
  | [] => []
  | fh :: recs => decode_records (map (column_of fh) headers) dflt recs
  end.

(* ---- theorems ---- *)
Lemma last_index_app h hs1 hs2 pos acc :
  last_index h (hs1 ++ hs2) pos acc = last_index h hs2 (pos + List.length hs1) (last_index h hs1 pos acc).
Proof.
  revert pos acc. induction hs1 as [|x hs1 IH]; intros pos acc; cbn [app last_index length].
  - rewrite Nat.add_0_r. reflexivity.
  - rewrite IH. replace (pos + List.length (x :: hs1)) with (S pos + List.length hs1) by (cbn [List.length]; lia). reflexivity.
Qed.

Lemma last_index_notin h hs pos acc : ~ In h hs -> last_index h hs pos acc = acc.
Proof.
  revert pos acc. induction hs as [|x hs IH]; intros pos acc Hn; cbn [last_index]; [reflexivity|].
  destruct (String.eqb_spec x h) as [->|Hne]; [exfalso; apply Hn; left; reflexivity|].
  apply IH. intros Hin. apply Hn. right. exact Hin.
Qed.

Lemma column_of_nodup (hs : list string) (i : nat) (h : string) :
  NoDup hs -> nth_error hs i = Some h -> column_of hs h = Some i.
Proof.
  intros Hnd Hi. unfold column_of.
  destruct (nth_error_split hs i Hi) as [l1 [l2 [-> Hlen]]].
  apply NoDup_remove_2 in Hnd.
  rewrite last_index_app. cbn [last_index]. rewrite String.eqb_refl.
  rewrite last_index_notin by (intros H; apply Hnd; apply in_or_app; right; exact H).
  f_equal. lia.
Qed.

Lemma columns_identity (hs : list string) : NoDup hs -> map (column_of hs) hs = map Some (seq 0 (List.length hs)).
Proof.
  intros Hnd. apply nth_ext with (d := None) (d' := None); [rewrite !map_length, seq_length; reflexivity|].
  intros n Hn. rewrite map_length in Hn.
  destruct (nth_error hs n) as [h|] eqn:E; [|apply nth_error_None in E; lia].
  rewrite (nth_indep _ None (column_of hs EmptyString)) by (rewrite map_length; exact Hn).
  rewrite map_nth. rewrite (nth_error_nth _ _ _ E). rewrite (column_of_nodup hs n h Hnd E).
  rewrite (nth_indep _ None (Some 0)) by (rewrite map_length, seq_length; exact Hn).
  rewrite map_nth, seq_nth by exact Hn. reflexivity.
Qed.

Fixpoint encode_from (i : nat) (r : row) : record :=
  match r with [] => [] | v :: r' => enc i v :: encode_from (S i) r' end.

Lemma encode_row_from (r : row) : encode_row r = encode_from 0 r.
Proof.
  unfold encode_row. generalize 0 as b. induction r as [|v r IH]; intros b; cbn [List.length seq combine map encode_from]; [reflexivity|].
  cbn [fst snd]. f_equal. apply IH.
Qed.

Lemma decode_fields_encoded (r : row) (dflt : V) (pre : record) :
  decode_fields (List.length pre) (map Some (seq (List.length pre) (List.length r))) dflt (pre ++ encode_from (List.length pre) r) = Some r.
Proof.
  revert pre. induction r as [|v r IH]; intros pre; cbn [List.length seq map decode_fields encode_from]; [reflexivity|].
  rewrite nth_error_app2 by lia. rewrite Nat.sub_diag. cbn [nth_error]. rewrite dec_enc.
  specialize (IH (pre ++ [enc (List.length pre) v])). rewrite app_length in IH. cbn [List.length] in IH.
  replace (List.length pre + 1) with (S (List.length pre)) in IH by lia.
  rewrite <- app_assoc in IH. cbn [app] in IH. rewrite IH. reflexivity.
Qed.

(* C11: rows written and read back are identical, whatever the values (the cell codec round-trips), when the headers are distinct
   and every row has one value per field *)
Theorem read_write_id (headers : list string) (dflt : V) (rows : list row) :
  NoDup headers -> Forall (fun r => List.length r = List.length headers) rows ->
  read_records headers dflt (write_records headers rows) = rows.
Proof.
  intros Hnd Hrows. unfold read_records, write_records. rewrite columns_identity by exact Hnd.
  induction Hrows as [|r rows Hr _ IH]; cbn [map decode_records]; [reflexivity|].
  rewrite encode_row_from.
  pose proof (decode_fields_encoded r dflt []) as H. cbn [List.length app] in H. rewrite Hr in H. rewrite H. f_equal. exact IH.
Qed.

(* reading maps columns by header name: it depends only on the cells found under the fields' headers, so it is indifferent to column
   order and to extra columns *)
Definition same_cell (r1 r2 : record) (c1 c2 : option nat) : Prop :=
  match c1, c2 with
  | Some a, Some b => nth_error r1 a = nth_error r2 b
  | None, None => True
  | _, _ => False
  end.

Lemma decode_fields_ext (i : nat) (cols1 cols2 : list (option nat)) (dflt : V) (r1 r2 : record) :
  Forall2 (same_cell r1 r2) cols1 cols2 -> decode_fields i cols1 dflt r1 = decode_fields i cols2 dflt r2.
Proof.
  intros H. revert i. induction H as [|c1 c2 l1 l2 Hc _ IH]; intros i; cbn [decode_fields]; [reflexivity|].
  destruct c1 as [a|], c2 as [b|]; cbn [same_cell] in Hc; try contradiction.
  - rewrite Hc. destruct (nth_error r2 b) as [cell|]; [|reflexivity]. destruct (dec i cell); [rewrite IH; reflexivity | reflexivity].
  - rewrite IH. reflexivity.
Qed.

Theorem read_any_column_order (headers : list string) (dflt : V) (fh1 fh2 : list string) (recs1 recs2 : list record) :
  Forall2 (fun r1 r2 => Forall2 (same_cell r1 r2) (map (column_of fh1) headers) (map (column_of fh2) headers)) recs1 recs2 ->
  read_records headers dflt (fh1 :: recs1) = read_records headers dflt (fh2 :: recs2).
Proof.
  unfold read_records. induction 1 as [|r1 r2 l1 l2 Hr _ IH]; cbn [decode_records]; [reflexivity|].
  rewrite (decode_fields_ext 0 _ _ dflt r1 r2 Hr). destruct (decode_fields 0 _ dflt r2); [rewrite IH; reflexivity | reflexivity].
Qed.

(* a field whose header is absent from the file keeps the zero value in every row *)
Theorem missing_column_keeps_default (dflt : V) (rec : record) (cols : list (option nat)) (i : nat) (r : row) (j : nat) :
  decode_fields i cols dflt rec = Some r -> nth_error cols j = Some None -> nth_error r j = Some dflt.
Proof.
  revert i r j. induction cols as [|c cols IH]; intros i r j Hd Hj; [destruct j; discriminate|].
  cbn [decode_fields] in Hd. destruct c as [c|].
  - destruct (nth_error rec c) as [cell|]; [|discriminate]. destruct (dec i cell) as [v|]; [|discriminate].
    destruct (decode_fields (S i) cols dflt rec) as [r'|] eqn:E; [|discriminate]. cbn in Hd. injection Hd as <-.
    destruct j as [|j]; [discriminate|]. cbn [nth_error] in *. eapply IH; eassumption.
  - destruct (decode_fields (S i) cols dflt rec) as [r'|] eqn:E; [|discriminate]. cbn in Hd. injection Hd as <-.
    destruct j as [|j]; [reflexivity|]. cbn [nth_error] in *. eapply IH; eassumption.
Qed.
End RecordLevel.

(* ---- file operations on bytes ---- *)
Section Files.
Context {B : Type}.
(* WriteToFile opens with O_CREATE|O_WRONLY|O_TRUNC: the new content replaces the old *)
Definition write_file (old new : list B) : list B := new.
(* without O_TRUNC (the defect repaired by the fix commit) the tail of a longer old file survived *)
Definition write_file_notrunc (old new : list B) : list B := new ++ skipn (List.length new) old.
Definition append_file (old new : list B) : list B := old ++ new.

Theorem write_replaces (old new : list B) : write_file old new = new.
Proof. reflexivity. Qed.
Theorem append_keeps_and_adds (old new : list B) : firstn (List.length old) (append_file old new) = old /\ skipn (List.length old) (append_file old new) = new.
Proof. unfold append_file. split; [rewrite firstn_app, Nat.sub_diag, firstn_all; cbn; apply app_nil_r | rewrite skipn_app, Nat.sub_diag, skipn_all; reflexivity]. Qed.
Theorem write_notrunc_refuted (x y z : B) : write_file_notrunc [x; y; z] [x] <> [x].
Proof. cbn. discriminate. Qed.
End Files.

(* ---- JSON array framing ---- *)
Section Json.
Context {E : Type} {Tok : Type}.
(* tokens: the array delimiters, the separator, and one token per encoded element *)
Inductive jtok := JOpen | JClose | JComma | JElem (e : E).
Definition to_json (l : list E) : list jtok :=
  JOpen :: match l with
           | [] => []
           | x :: l' => JElem x :: flat_map (fun y => [JComma; JElem y]) l'
           end ++ [JClose].
(* JSONToChan: expects '[', then elements separated by commas while More(), then ']' *)
Fixpoint from_json_elems (ts : list jtok) : list E :=
  match ts with
  | JElem e :: JComma :: ts' => e :: from_json_elems ts'
  | JElem e :: _ => [e]
  | _ => []
  end.
Definition from_json (ts : list jtok) : list E := match ts with JOpen :: ts' => from_json_elems ts' | _ => [] end.

Theorem json_roundtrip (l : list E) : from_json (to_json l) = l.
Proof.
  unfold to_json, from_json. destruct l as [|x l]; [reflexivity|].
  revert x. induction l as [|y l IH]; intros x; cbn [flat_map app from_json_elems]; [reflexivity|].
  f_equal. apply IH.
Qed.
End Json.
