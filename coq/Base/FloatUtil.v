(* Helpers for executing models over Coq primitive binary64 floats (the correspondence side).
   No theorem depends on this file. *)
From Coq Require Import Floats ZArith Bool List.
Import ListNotations.

(* Bit-level equality, with all NaNs identified. *)
Definition sf_eqb (a b : spec_float) : bool :=
  match a, b with
  | S754_zero s1, S754_zero s2 => Bool.eqb s1 s2
  | S754_infinity s1, S754_infinity s2 => Bool.eqb s1 s2
  | S754_nan, S754_nan => true
  | S754_finite s1 m1 e1, S754_finite s2 m2 e2 => Bool.eqb s1 s2 && Pos.eqb m1 m2 && Z.eqb e1 e2
  | _, _ => false
  end.

Definition fbits_eq (a b : float) : bool := sf_eqb (Prim2SF a) (Prim2SF b).

Definition fis_finite (a : float) : bool :=
  match Prim2SF a with S754_zero _ | S754_finite _ _ _ => true | _ => false end.

(* Agreement up to a relative/absolute tolerance (used only where the model is not expected to
   be bit-exact); non-finite values must agree in kind. *)
Definition fclose (rel abs_ : float) (a b : float) : bool :=
  if fbits_eq a b then true
  else if fis_finite a && fis_finite b then
    let d := PrimFloat.abs (a - b)%float in
    let m := (PrimFloat.abs a + PrimFloat.abs b)%float in
    PrimFloat.leb d (abs_ + rel * m)%float
  else false.

Fixpoint list_eqb {A} (eq : A -> A -> bool) (l1 l2 : list A) : bool :=
  match l1, l2 with
  | [], [] => true
  | a :: l1', b :: l2' => eq a b && list_eqb eq l1' l2'
  | _, _ => false
  end.

(* indices i (from k) of the elements on which [bad] holds *)
Fixpoint bad_indices {A} (bad : A -> nat) (k : nat) (l : list A) : list (nat * nat) :=
  match l with
  | [] => []
  | c :: l' => match bad c with O => bad_indices bad (S k) l' | S m => (k, S m) :: bad_indices bad (S k) l' end
  end.
