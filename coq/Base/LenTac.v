(* Proof automation for the length / warm-up obligations over the generated model. *)
From Coq Require Import ZArith List Bool Lia ZifyBool.
Import ListNotations.
From Verif Require Import Base.Num Base.Stream Base.StreamProofs Base.GenPrelude.

Lemma seeded_len_spec a b :
  (a = 0%nat /\ seeded_len a b = 0%nat) \/ ((0 < a)%nat /\ seeded_len a b = S b).
Proof. destruct a; cbn; [left|right]; split; auto; lia. Qed.

Lemma min_add_self a b : Nat.min a (b + a) = a.
Proof. lia. Qed.
Lemma min_min_l a b : Nat.min (Nat.min a b) a = Nat.min a b.
Proof. lia. Qed.
Lemma min_idem a : Nat.min a a = a.
Proof. lia. Qed.

(* abstract every [seeded_len a b], innermost first, by a fresh variable with its case analysis *)
Ltac abstract_seeded :=
  repeat match goal with
  | |- context [seeded_len ?a ?b] =>
      lazymatch a with context [seeded_len _ _] => fail | _ => idtac end;
      lazymatch b with context [seeded_len _ _] => fail | _ => idtac end;
      let H := fresh "Hs" in let v := fresh "v" in
      pose proof (seeded_len_spec a b) as H;
      set (v := seeded_len a b) in *; clearbody v
  end.

(* abstract maximal non-arithmetic subterms [elen e ns] of opaque expressions by variables *)
Ltac abstract_elen :=
  repeat match goal with
  | |- context [@elen ?I ?A ?e ?ns] =>
      let v := fresh "len" in set (v := @elen I A e ns) in *; clearbody v
  end.

Ltac subst_lens :=
  repeat match goal with
  | H : @elen _ _ ?e ?ns = ?m |- _ => rewrite ?H in *; clear H
  end.

Ltac bool_hyps :=
  repeat match goal with
  | H : _ && _ = true |- _ => apply andb_prop in H; destruct H
  | H : true = true |- _ => clear H
  | H : (_ <=? _)%Z = true |- _ => apply Z.leb_le in H
  | H : (_ =? _)%Z = true |- _ => apply Z.eqb_eq in H
  | H : (_ <? _)%Z = true |- _ => apply Z.ltb_lt in H
  | H : (_ =? _)%nat = true |- _ => apply Nat.eqb_eq in H
  | H : (_ =? _)%nat = false |- _ => apply Nat.eqb_neq in H
  | H : (_ =? _)%Z = false |- _ => apply Z.eqb_neq in H
  | H : (_ <=? _)%Z = false |- _ => apply Z.leb_gt in H
  | H : (_ <? _)%Z = false |- _ => apply Z.ltb_ge in H
  end.

Ltac subst_eqs :=
  repeat match goal with
  | H : ?a = ?b |- _ => is_var a; subst a
  | H : ?a = ?b |- _ => is_var b; subst b
  end.

(* m - a - b  ~>  m - (a + b);  min (m - a) (m - b)  ~>  m - max a b *)
Ltac norm_len :=
  repeat first
    [ rewrite <- !Nat.sub_add_distr
    | rewrite !Nat.sub_min_distr_l
    | rewrite !Nat.min_id
    | rewrite !Nat.max_id
    | rewrite !Nat.sub_0_r ].

Ltac Zify.zify_post_hook ::= Z.to_euclidean_division_equations.
Ltac len_lia := timeout 120 lia.

Ltac len_arith :=
  bool_hyps; subst_eqs; subst_lens;
  rewrite ?min_add_self, ?min_idem, ?min_min_l in *;
  abstract_seeded; abstract_elen;
  repeat match goal with H : _ /\ _ |- _ => destruct H end;
  repeat split;
  repeat match goal with
         | H : ?b = true |- context [if ?b then _ else _] => rewrite H; cbv beta iota
         | H : ?b = false |- context [if ?b then _ else _] => rewrite H; cbv beta iota
         | |- context [if ?b then _ else _] => destruct b eqn:?; cbv beta iota
         end;
  bool_hyps;
  norm_len;
  first [ reflexivity
        | (match goal with |- (?m - ?a)%nat = (?m - ?b)%nat => f_equal end); len_lia
        | len_lia ].

(* side conditions of the block rewrite rules: admissibility of a sub-configuration *)
Ltac len_cbv_arith :=
  cbv -[elen seeded_len Z.to_nat Z.sub Z.add Z.leb Z.ltb Z.eqb Z.geb Z.gtb andb orb negb Nat.sub Nat.min Nat.max Nat.add
        Z.quot Z.rem Z.mul Z.max Z.min Z.sqrt Z.opp Z.of_nat Z.le Z.lt Z.ge Z.gt] in *.
Ltac len_side := solve [ assumption | len_cbv_arith; lia ].

Create HintDb lendb.

Ltac len_ma_hyps :=
  repeat match goal with
  | H : _ /\ (forall e ns, elen (_ e) ns = _) |- _ =>
      let H0 := fresh "Hma0" in let Hf := fresh "Hmaf" in destruct H as [H0 Hf]
  end.

Ltac len_rewrite_ma :=
  repeat match goal with
  | Hf : forall e ns, elen (?f e) ns = _ |- _ => progress (rewrite !Hf in * )
  end.

Ltac not_num x := lazymatch type of x with Num _ => fail | _ => idtac end.
Ltac destruct_cfg :=
  repeat match goal with
  | |- context [match ?x with _ => _ end] => is_var x; not_num x; destruct x
  | H : context [match ?x with _ => _ end] |- _ => is_var x; not_num x; destruct x
  end.

Ltac split_forall :=
  repeat match goal with |- Forall _ (_ :: _) => constructor | |- Forall _ [] => constructor end.

Ltac destruct_ifs unf :=
  repeat (match goal with
          | |- context [if ?b then _ else _] => destruct b eqn:?
          end; unf tt).

Ltac len_unfold_with unf :=
  len_ma_hyps;
  unf tt; split_forall; cbv beta; destruct_cfg; unf tt; destruct_ifs unf;
  cbn [elen nth] in *;
  repeat (progress (autorewrite with lendb; len_rewrite_ma); unf tt; cbn [elen nth] in * ).

Ltac len_finish := len_arith.

(* 0 <= k for a warm-up expression k, from the admissibility hypotheses *)
Ltac len_nonneg :=
  repeat match goal with
         | |- context [if ?b then _ else _] => destruct b eqn:?; cbv beta iota in *
         | H : context [if ?b then _ else _] |- _ => destruct b eqn:?; cbv beta iota in *
         end;
  bool_hyps; len_lia.
