(* Hand-written slice models of the helpers that the translator also regenerates from source (definitions only;
   independent of Gen/All.v, so that the correspondence runner still compiles when a regenerated definition changes). *)
From Coq Require Import List ZArith Bool.
Import ListNotations.
From Verif Require Import Base.Num Base.Stream.

Section Slice.
Context {I T : Type} {N : Num T}.
Definition s_change (k : Z) (l : list T) : list T := s_op2 nsub (s_skip k l) l.
Definition s_change_ratio (k : Z) (l : list T) : list T := s_op2 ndiv (s_change k l) l.
Definition s_change_percent (k : Z) (l : list T) : list T := map (fun x => nmul x (nofZ 100)) (s_change_ratio k l).
Definition s_sign (l : list T) : list T :=
  map (fun n => if nltb (nofZ 0) n then nofZ 1 else if nltb n (nofZ 0) then nofZ (-1) else nofZ 0) l.
Definition s_keep_positives (l : list T) : list T := map (fun n => if nltb (nofZ 0) n then n else nofZ 0) l.
Definition s_keep_negatives (l : list T) : list T := map (fun n => if nltb n (nofZ 0) then n else nofZ 0) l.
Definition s_round_digits (d : Z) (l : list T) : list T :=
  map (fun n => let m := npow (nofZ 10) (nofZ d) in ndiv (nround (nmul n m)) m) l.

(* Since with the comparison of the number type: count of immediately preceding equal values *)
Fixpoint since_run (x : T) (rev_prefix : list T) (acc : T) : T :=
  match rev_prefix with
  | y :: r => if neqb y x then since_run x r (nadd acc (nofZ 1)) else acc
  | [] => acc
  end.

End Slice.
