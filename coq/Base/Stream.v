(* Denotational (list) models of the stream helpers of helper/*.go, the dataflow expression
   language the translator targets, and its list semantics.  Definitions only. *)
From Coq Require Import List ZArith Bool Lia.
Import ListNotations.
From Verif Require Import Base.Num.

Set Implicit Arguments.

(* ------------------------------------------------------------------------------------------ *)
(* Slice counterparts of the helpers *)

Definition s_skip {A} (k : Z) (l : list A) : list A := skipn (Z.to_nat k) l.
Definition s_shift {A} (k : Z) (fill : A) (l : list A) : list A := repeat fill (Z.to_nat k) ++ l.
Definition s_head {A} (k : Z) (l : list A) : list A := firstn (Z.to_nat k) l.
Definition s_first {A} (k : Z) (l : list A) : list A := firstn (Z.to_nat k) l.
Definition s_last {A} (k : Z) (l : list A) : list A := skipn (length l - Z.to_nat k) l.
Definition s_buffered {A} (k : Z) (l : list A) : list A := l.
Definition s_pipe {A} (l : list A) : list A := l.
Definition s_filter {A} (p : A -> bool) (l : list A) : list A := filter p l.

Fixpoint s_op2 {A B C} (f : A -> B -> C) (a : list A) (b : list B) : list C :=
  match a, b with
  | x :: a', y :: b' => f x y :: s_op2 f a' b'
  | _, _ => []
  end.

Fixpoint s_op3 {A B C D} (f : A -> B -> C -> D) (a : list A) (b : list B) (c : list C) : list D :=
  match a, b, c with
  | x :: a', y :: b', z :: c' => f x y z :: s_op3 f a' b' c'
  | _, _, _ => []
  end.

(* Map / Operate / Operate3 with a closure that updates captured variables: the captured
   variables are the state S, threaded in stream order. *)
Fixpoint s_mapst {A B S} (f : S -> A -> S * B) (s : S) (l : list A) : list B :=
  match l with
  | [] => []
  | x :: l' => let (s', y) := f s x in y :: s_mapst f s' l'
  end.

Fixpoint s_op2st {A B C S} (f : S -> A -> B -> S * C) (s : S) (a : list A) (b : list B) : list C :=
  match a, b with
  | x :: a', y :: b' => let (s', z) := f s x y in z :: s_op2st f s' a' b'
  | _, _ => []
  end.

Fixpoint s_op3st {A B C D S} (f : S -> A -> B -> C -> S * D) (s : S)
         (a : list A) (b : list B) (c : list C) : list D :=
  match a, b, c with
  | x :: a', y :: b', z :: c' => let (s', w) := f s x y z in w :: s_op3st f s' a' b' c'
  | _, _, _ => []
  end.

(* MapWithPrevious(c, f, previous) *)
Definition s_scan {A B} (f : B -> A -> B) (prev : B) (l : list A) : list B :=
  s_mapst (fun p x => let p' := f p x in (p', p')) prev l.

(* Count(from, other) *)
Fixpoint s_count {T} `{Num T} {O} (from : T) (l : list O) : list T :=
  match l with
  | [] => []
  | _ :: l' => from :: s_count (nadd from (nofZ 1)) l'
  end.

(* Since(c): run-length counter *)
Definition since_step {A T} `{Num T} (eqb : A -> A -> bool) (st : option (A * T)) (n : A) : option (A * T) * T :=
  match st with
  | Some (last, count) =>
      if eqb last n then let c := nadd count (nofZ 1) in (Some (last, c), c)
      else (Some (n, nofZ 0), nofZ 0)
  | None => (Some (n, nofZ 0), nofZ 0)
  end.
Definition s_since {A T} `{Num T} (eqb : A -> A -> bool) (l : list A) : list T :=
  s_mapst (since_step eqb) None l.

(* Echo(input, last, count): the input, then [count] times the last [last] elements (zero values
   beyond what was received when the input is shorter than [last]) *)
Definition s_echo {A} (d : A) (last count : Z) (l : list A) : list A :=
  l ++ concat (repeat (firstn (Z.to_nat last) (s_last last l ++ repeat d (Z.to_nat last))) (Z.to_nat count)).

(* Seq(from, to, increment) with fuel = number of iterations the caller expects at most *)
Fixpoint s_seq_fuel {T} `{Num T} (fuel : nat) (from to inc : T) : list T :=
  match fuel with
  | O => []
  | S f => if nltb from to then from :: s_seq_fuel f (nadd from inc) to inc else []
  end.

(* ------------------------------------------------------------------------------------------ *)
(* Hand-modelled goroutine bodies (the `go func(){...}` loops that are not helper calls) *)

(* trend/ema.go, rma.go, smma.go: the first value is the head of [seed] (the SMA of Head(c, p));
   the remaining input after the first p elements drives the recurrence.  When the seed stream is
   empty (fewer than p inputs) nothing is emitted ("fix: return when the seed channel is closed"). *)
Definition s_seeded_scan {T} (seed : list T) (p : Z) (step : T -> T -> T) (l : list T) : list T :=
  match seed with
  | [] => []
  | b :: _ => b :: s_scan step b (s_skip p l)
  end.

(* Behaviour of the same loops before that fix: a closed seed channel yields the zero value. *)
Definition s_seeded_scan_prefix_bug {T} `{Num T} (seed : list T) (p : Z) (step : T -> T -> T) (l : list T) : list T :=
  let b := hd nzero seed in b :: s_scan step b (s_skip p l).

(* trend/kama.go tail loop: prevKama := first closing; for each further closing, sc := <-scs
   (zero value once scs is closed); prev = prev + sc*(closing-prev). *)
Fixpoint kama_loop {T} `{Num T} (prev : T) (cl scs : list T) : list T :=
  match cl with
  | [] => []
  | c :: cl' =>
      let sc := hd nzero scs in
      let k := nadd prev (nmul sc (nsub c prev)) in
      k :: kama_loop k cl' (tl scs)
  end.
Definition s_kama_tail {T} `{Num T} (cl scs : list T) : list T :=
  match cl with [] => [] | c0 :: cl' => kama_loop c0 cl' scs end.

(* volatility/moving_std.go: ring of the last p values (oldest first once full), running sum,
   variance recomputed over the window *)
Fixpoint std_loop {T} `{Num T} (p : nat) (win : list T) (sum : T) (l : list T) : list T :=
  match l with
  | [] => []
  | n :: l' =>
      let full := Nat.eqb (length win) p in
      let out := if full then hd nzero win else nzero in           (* ring.Put returns the displaced value *)
      let win' := (if full then tl win else win) ++ [n] in
      let sum' := nadd (nsub sum out) n in
      if Nat.eqb (length win') p then
        let sma := ndiv sum' (nofZ (Z.of_nat p)) in
        let sum2 := fold_left (fun acc x => nadd acc (npow (nsub x sma) (nofZ 2))) win' nzero in
        nsqrt (ndiv sum2 (nofZ (Z.of_nat p))) :: std_loop p win' sum' l'
      else std_loop p win' sum' l'
  end.
Definition s_moving_std {T} `{Num T} (p : Z) (l : list T) : list T := std_loop (Z.to_nat p) [] nzero l.

(* strategy/buy_and_hold_strategy.go *)
Definition s_buy_and_hold {A} (buy hold : A) {B} (l : list B) : list A :=
  match l with [] => [] | _ :: l' => buy :: map (fun _ => hold) l' end.

(* ------------------------------------------------------------------------------------------ *)
(* The dataflow expression language.  [I] is the element type of the inputs. *)

Inductive expr (I : Type) : Type -> Type :=
| EIn (k : nat) : expr I I
| EMap {A B} (f : A -> B) (e : expr I A) : expr I B
| EMapSt {A B S} (s0 : S) (f : S -> A -> S * B) (e : expr I A) : expr I B
| ESkip {A} (k : Z) (e : expr I A) : expr I A
| EShift {A} (k : Z) (fill : A) (e : expr I A) : expr I A
| EHead {A} (k : Z) (e : expr I A) : expr I A
| EFirst {A} (k : Z) (e : expr I A) : expr I A
| EBuf {A} (k : Z) (e : expr I A) : expr I A
| EOp2 {A B C} (f : A -> B -> C) (a : expr I A) (b : expr I B) : expr I C
| EOp2St {A B C S} (s0 : S) (f : S -> A -> B -> S * C) (a : expr I A) (b : expr I B) : expr I C
| EOp3 {A B C D} (f : A -> B -> C -> D) (a : expr I A) (b : expr I B) (c : expr I C) : expr I D
| EOp3St {A B C D S} (s0 : S) (f : S -> A -> B -> C -> S * D)
         (a : expr I A) (b : expr I B) (c : expr I C) : expr I D
| ECount {T O} (N : Num T) (from : T) (e : expr I O) : expr I T
| ESeeded {T} (seed : expr I T) (p : Z) (step : T -> T -> T) (e : expr I T) : expr I T
| EKamaTail {T} (N : Num T) (cl scs : expr I T) : expr I T
| EMovingStd {T} (N : Num T) (p : Z) (e : expr I T) : expr I T
| EBuyHold {A B} (buy hold : A) (e : expr I B) : expr I A.

Arguments EIn {I} k.

Fixpoint sem {I A} (e : expr I A) (env : list (list I)) : list A :=
  match e in expr _ A return list A with
  | EIn k => nth k env []
  | EMap f e => map f (sem e env)
  | EMapSt s0 f e => s_mapst f s0 (sem e env)
  | ESkip k e => s_skip k (sem e env)
  | EShift k fill e => s_shift k fill (sem e env)
  | EHead k e => s_head k (sem e env)
  | EFirst k e => s_first k (sem e env)
  | EBuf k e => s_buffered k (sem e env)
  | EOp2 f a b => s_op2 f (sem a env) (sem b env)
  | EOp2St s0 f a b => s_op2st f s0 (sem a env) (sem b env)
  | EOp3 f a b c => s_op3 f (sem a env) (sem b env) (sem c env)
  | EOp3St s0 f a b c => s_op3st f s0 (sem a env) (sem b env) (sem c env)
  | ECount N from e => s_count from (sem e env)
  | ESeeded seed p step e => s_seeded_scan (sem seed env) p step (sem e env)
  | EKamaTail N cl scs => s_kama_tail (sem cl env) (sem scs env)
  | EMovingStd N p e => s_moving_std p (sem e env)
  | EBuyHold buy hold e => s_buy_and_hold buy hold (sem e env)
  end.

(* The warm-up a strategy declares: the amount of the Shift it applies last to its actions (0 when its
   result is not a Shift). *)
Definition eshift_of {I A} (e : expr I A) : Z := match e with EShift k _ _ => k | _ => 0%Z end.
Definition eshift_body {I A} (e : expr I A) : expr I A :=
  match e in expr _ A return expr I A with EShift _ _ e' => e' | e0 => e0 end.
Definition warm_of {I A} (F : expr I I -> expr I A) : Z := eshift_of (F (EIn 0)).

(* length of a seeded recurrence: nothing without a seed, else the seed plus one value per further input *)
Definition seeded_len (a b : nat) : nat := match a with O => O | S _ => S b end.

(* Output length as a function of the input lengths only. *)
Fixpoint elen {I A} (e : expr I A) (ns : list nat) : nat :=
  match e with
  | EIn k => nth k ns 0
  | EMap _ e | EMapSt _ _ e | EBuf _ e | ECount _ _ e => elen e ns
  | ESkip k e => elen e ns - Z.to_nat k
  | EShift k _ e => Z.to_nat k + elen e ns
  | EHead k e | EFirst k e => Nat.min (Z.to_nat k) (elen e ns)
  | EOp2 _ a b | EOp2St _ _ a b => Nat.min (elen a ns) (elen b ns)
  | EOp3 _ a b c | EOp3St _ _ a b c => Nat.min (elen a ns) (Nat.min (elen b ns) (elen c ns))
  | ESeeded seed p _ e => seeded_len (elen seed ns) (elen e ns - Z.to_nat p)
  | EKamaTail _ cl _ => elen cl ns - 1
  | EMovingStd _ p e => if Nat.eqb (Z.to_nat p) 0 then 0 else elen e ns - (Z.to_nat p - 1)
  | EBuyHold _ _ e => elen e ns
  end.

(* Domain conditions: the Go code panics (negative Shift/Buffered size, zero-size ring) or reads
   a zero value from a closed channel (Kama's smoothing constants) outside of them. *)
Fixpoint ewf {I A} (e : expr I A) (ns : list nat) : Prop :=
  match e with
  | EIn _ => True
  | EMap _ e | EMapSt _ _ e | ECount _ _ e | ESkip _ e | EHead _ e | EFirst _ e | EBuyHold _ _ e => ewf e ns
  | EShift k _ e | EBuf k e => (0 <= k)%Z /\ ewf e ns
  | EOp2 _ a b | EOp2St _ _ a b => ewf a ns /\ ewf b ns
  | EOp3 _ a b c | EOp3St _ _ a b c => ewf a ns /\ ewf b ns /\ ewf c ns
  | ESeeded seed p _ e => ewf seed ns /\ ewf e ns
  | EKamaTail _ cl scs => ewf cl ns /\ ewf scs ns /\ elen cl ns - 1 <= elen scs ns
  | EMovingStd _ p e => (1 <= p)%Z /\ ewf e ns
  end.

(* The one domain condition prefix-monotonicity depends on: the KAMA tail loop must never run out of smoothing
   constants (it would read the zero value of a closed channel).  Everything else is monotone unconditionally. *)
Fixpoint ekw {I A} (e : expr I A) (ns : list nat) : Prop :=
  match e with
  | EIn _ => True
  | EMap _ e | EMapSt _ _ e | ECount _ _ e | ESkip _ e | EHead _ e | EFirst _ e | EBuyHold _ _ e
  | EShift _ _ e | EBuf _ e | EMovingStd _ _ e => ekw e ns
  | EOp2 _ a b | EOp2St _ _ a b => ekw a ns /\ ekw b ns
  | EOp3 _ a b c | EOp3St _ _ a b c => ekw a ns /\ ekw b ns /\ ekw c ns
  | ESeeded seed p _ e => ekw seed ns /\ ekw e ns
  | EKamaTail _ cl scs => ekw cl ns /\ ekw scs ns /\ elen cl ns - 1 <= elen scs ns
  end.
