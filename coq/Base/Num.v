(* One operations record for the numeric element type T of the library (Go: T helper.Number,
   instantiated at float64).  Two instances:
     - [NumR]  : Coq reals; the instance theorems about values are proved for;
     - [NumF]  : Coq primitive binary64 floats; the instance that is executed by vm_compute in the
                 correspondence (mirrors Go's operation order, so results are bit-comparable).
   Structural theorems (lengths, prefix-monotonicity, causality) are proved for every T. *)
From Coq Require Import ZArith Reals Floats Bool List Lra.
Import ListNotations.

Class Num (T : Type) := {
  nzero : T;
  nadd : T -> T -> T;
  nsub : T -> T -> T;
  nmul : T -> T -> T;
  ndiv : T -> T -> T;
  nabs : T -> T;
  nsqrt : T -> T;
  npow : T -> T -> T;          (* math.Pow(x, y); the library only uses y = 2 and y = -1 *)
  nmax : T -> T -> T;          (* math.Max *)
  nround : T -> T;             (* math.Round: nearest integer, halves away from zero *)
  nltb : T -> T -> bool;
  nleb : T -> T -> bool;
  neqb : T -> T -> bool;
  nofZ : Z -> T;               (* T(n) for an int n *)
  nconst : Z -> Z -> T;        (* the decimal constant num/den (den a power of ten) *)
}.

Declare Scope num_scope.
Delimit Scope num_scope with num.
Infix "+" := nadd : num_scope.
Infix "-" := nsub : num_scope.
Infix "*" := nmul : num_scope.
Infix "/" := ndiv : num_scope.
Infix "<?" := nltb : num_scope.
Infix "<=?" := nleb : num_scope.
Infix "=?" := neqb : num_scope.

Definition ngtb {T} `{Num T} (a b : T) : bool := nltb b a.
Definition ngeb {T} `{Num T} (a b : T) : bool := nleb b a.
Definition nneb {T} `{Num T} (a b : T) : bool := negb (neqb a b).
Definition nopp {T} `{Num T} (a : T) : T := nsub nzero a.
Infix ">?" := ngtb (at level 70) : num_scope.
Infix ">=?" := ngeb (at level 70) : num_scope.

(* ---------------------------------------------------------------------------------------- *)
(* Reals *)

Definition Rltb (a b : R) : bool := if Rlt_dec a b then true else false.
Definition Rleb (a b : R) : bool := if Rle_dec a b then true else false.
Definition Reqb (a b : R) : bool := if Req_EM_T a b then true else false.

Lemma Rltb_true a b : Rltb a b = true <-> (a < b)%R.
Proof. unfold Rltb; destruct (Rlt_dec a b); split; intros; try easy. Qed.
Lemma Rleb_true a b : Rleb a b = true <-> (a <= b)%R.
Proof. unfold Rleb; destruct (Rle_dec a b); split; intros; try easy. Qed.
Lemma Reqb_true a b : Reqb a b = true <-> a = b.
Proof. unfold Reqb; destruct (Req_EM_T a b); split; intros; try easy. Qed.
Lemma Rltb_false a b : Rltb a b = false <-> (b <= a)%R.
Proof. unfold Rltb; destruct (Rlt_dec a b); split; intros; try easy; lra. Qed.
Lemma Rleb_false a b : Rleb a b = false <-> (b < a)%R.
Proof. unfold Rleb; destruct (Rle_dec a b); split; intros; try easy; lra. Qed.

(* math.Round on reals: floor(x + 1/2) for x >= 0, -floor(-x + 1/2) otherwise *)
Definition Rround (x : R) : R :=
  if Rle_dec 0 x then IZR (Int_part (x + /2)) else (- IZR (Int_part (- x + /2)))%R.

Definition Rpow_model (x y : R) : R :=
  if Req_EM_T y 2 then (x * x)%R
  else if Req_EM_T y (-1) then (/ x)%R
  else if Req_EM_T y 1 then x
  else if Req_EM_T y 0 then 1%R
  else Rpower x y.

#[export] Instance NumR : Num R := {|
  nzero := 0%R; nadd := Rplus; nsub := Rminus; nmul := Rmult; ndiv := Rdiv;
  nabs := Rabs; nsqrt := R_sqrt.sqrt; npow := Rpow_model; nmax := Rmax; nround := Rround;
  nltb := Rltb; nleb := Rleb; neqb := Reqb;
  nofZ := IZR; nconst := fun n d => (IZR n / IZR d)%R |}.

(* ---------------------------------------------------------------------------------------- *)
(* binary64 *)

Definition float_of_Z (z : Z) : float :=
  match z with
  | Z0 => 0%float
  | Zpos _ => PrimFloat.of_uint63 (Uint63.of_Z z)
  | Zneg p => PrimFloat.opp (PrimFloat.of_uint63 (Uint63.of_Z (Zpos p)))
  end.

(* Go's math.Pow special-cases y = 2 / -1 only through its general algorithm, which for these two
   exponents performs exactly one correctly rounded multiplication resp. division (frexp/ldexp
   scaling is exact away from the subnormal range). *)
Fixpoint fpow_nat (x : float) (n : nat) : float :=
  match n with O => 1%float | S O => x | S n' => (fpow_nat x n' * x)%float end.

(* the exponent when y is one of the small integers 3..24 (RoundDigits uses math.Pow(10, d); 10^d is exactly
   representable for d <= 22, so any evaluation order with exact intermediate products gives Go's result) *)
Fixpoint small_int_exp (y : float) (k : nat) (fuel : nat) : option nat :=
  match fuel with
  | O => None
  | S f => if PrimFloat.eqb y (float_of_Z (Z.of_nat k)) then Some k else small_int_exp y (S k) f
  end.

Definition fpow_model (x y : float) : float :=
  if PrimFloat.eqb y 2%float then (x * x)%float
  else if PrimFloat.eqb y (-1)%float then (1 / x)%float
  else if PrimFloat.eqb y 1%float then x
  else if PrimFloat.eqb y 0%float then 1%float
  else if PrimFloat.eqb y 0.5%float then PrimFloat.sqrt x
  else match small_int_exp y 3 22 with Some n => fpow_nat x n | None => nan end.

(* math.Max *)
Definition fmax_model (x y : float) : float :=
  if PrimFloat.is_infinity x && PrimFloat.ltb 0 x then x
  else if PrimFloat.is_infinity y && PrimFloat.ltb 0 y then y
  else if PrimFloat.is_nan x || PrimFloat.is_nan y then nan
  else if PrimFloat.eqb x 0 && PrimFloat.eqb y 0 then
         (if PrimFloat.get_sign x then y else x)
  else if PrimFloat.ltb y x then x else y.

(* math.Round for |x| < 2^52 through the integer part; larger magnitudes are already integers *)
Definition ftrunc_pos (x : float) : float :=      (* x >= 0, x < 2^62 *)
  PrimFloat.of_uint63 (PrimFloat.normfr_mantissa (fst (PrimFloat.frshiftexp x))) .

Definition ffloor_pos (x : float) : float :=      (* floor for 0 <= x < 2^52 *)
  let big := 0x1p+52%float in
  let y := ((x + big) - big)%float in                (* round to nearest integer *)
  if PrimFloat.ltb x y then (y - 1)%float else y.

Definition fround_model (x : float) : float :=
  if PrimFloat.is_nan x || PrimFloat.is_infinity x then x
  else
    let a := PrimFloat.abs x in
    if PrimFloat.leb 0x1p+52%float a then x
    else
      let f := ffloor_pos a in
      let r := if PrimFloat.leb 0.5%float (a - f)%float then (f + 1)%float else f in
      if PrimFloat.get_sign x then PrimFloat.opp r else r.

#[export] Instance NumF : Num float := {|
  nzero := 0%float; nadd := PrimFloat.add; nsub := PrimFloat.sub; nmul := PrimFloat.mul; ndiv := PrimFloat.div;
  nabs := PrimFloat.abs; nsqrt := PrimFloat.sqrt; npow := fpow_model; nmax := fmax_model; nround := fround_model;
  nltb := PrimFloat.ltb; nleb := PrimFloat.leb; neqb := PrimFloat.eqb;
  nofZ := float_of_Z; nconst := fun n d => (float_of_Z n / float_of_Z d)%float |}.
