(* C16: what the slice models of the stream helpers compute, as laws over arbitrary lists (all lengths, including
   empty inputs and inputs shorter than the parameter) and all parameters in each helper's domain. *)
From Coq Require Import List ZArith Bool Lia.
Import ListNotations.
From Verif Require Import Base.Num Base.Stream Base.StreamProofs Base.GenPrelude Base.HelperModels Gen.All.



Section Laws.
Context {A : Type}.

(* Skip(k): drops the first k values *)
Lemma skip_nth (k : Z) (l : list A) (i : nat) d : nth i (s_skip k l) d = nth (i + Z.to_nat k) l d.
Proof.
  unfold s_skip. generalize (Z.to_nat k) as m. intros m. revert l. induction m as [|m IH]; intros l.
  - rewrite Nat.add_0_r. reflexivity.
  - destruct l as [|x l]; cbn [skipn]; [assert (Hn : forall j, nth j (@nil A) d = d) by (intros []; reflexivity); rewrite !Hn; reflexivity|].
    rewrite IH. replace (i + S m)%nat with (S (i + m)) by lia. reflexivity.
Qed.

(* Head(k) / First(k): the first k values (all of them when the input is shorter) *)
Lemma head_is_firstn (k : Z) (l : list A) : s_head k l = firstn (Z.to_nat k) l /\ s_first k l = firstn (Z.to_nat k) l.
Proof. split; reflexivity. Qed.

(* Last(k), k >= 1: the last k values, in order *)
Lemma last_is_suffix (k : Z) (l : list A) :
  length (s_last k l) = Nat.min (Z.to_nat k) (length l) /\ firstn (length l - Z.to_nat k) l ++ s_last k l = l.
Proof.
  unfold s_last. split; [rewrite skipn_length; lia | apply firstn_skipn].
Qed.

(* Shift(k, fill): k copies of the fill value, then the input *)
Lemma shift_is_prepend (k : Z) (fill : A) (l : list A) :
  s_shift k fill l = repeat fill (Z.to_nat k) ++ l /\ length (s_shift k fill l) = (Z.to_nat k + length l)%nat.
Proof. split; [reflexivity | apply s_shift_length]. Qed.

(* Buffered / Pipe / Waitable: the identity on values *)
Lemma buffered_is_id (k : Z) (l : list A) : s_buffered k l = l /\ s_pipe l = l.
Proof. split; reflexivity. Qed.

(* Echo(last, count): the input, then count times its last [last] values *)
Lemma echo_full (d : A) (last count : Z) (l : list A) :
  (Z.to_nat last <= length l)%nat ->
  s_echo d last count l = l ++ concat (repeat (s_last last l) (Z.to_nat count)).
Proof.
  intros H. unfold s_echo. f_equal. f_equal.
  rewrite firstn_app.
  assert (Hl : length (s_last last l) = Z.to_nat last) by (unfold s_last; rewrite skipn_length; lia).
  rewrite firstn_all2 by lia. rewrite Hl, Nat.sub_diag, firstn_O, app_nil_r. reflexivity.
Qed.
End Laws.

(* zips: the length of the shortest input, element by element *)
Lemma operate_law {A B C} (f : A -> B -> C) (a : list A) (b : list B) :
  length (s_op2 f a b) = Nat.min (length a) (length b) /\
  forall i da db dc, (i < length a)%nat -> (i < length b)%nat -> nth i (s_op2 f a b) dc = f (nth i a da) (nth i b db).
Proof.
  split; [apply s_op2_length|].
  revert b. induction a as [|x a IH]; intros [|y b] i da db dc Ha Hb; cbn [length] in *; try lia.
  destruct i as [|i]; cbn [s_op2 nth]; [reflexivity | apply IH; lia].
Qed.

Lemma operate3_law {A B C D} (f : A -> B -> C -> D) (a : list A) (b : list B) (c : list C) :
  length (s_op3 f a b c) = Nat.min (length a) (Nat.min (length b) (length c)) /\
  forall i da db dc dd, (i < length a)%nat -> (i < length b)%nat -> (i < length c)%nat ->
    nth i (s_op3 f a b c) dd = f (nth i a da) (nth i b db) (nth i c dc).
Proof.
  split; [apply s_op3_length|].
  revert b c. induction a as [|x a IH]; intros [|y b] [|z c] i da db dc dd Ha Hb Hc; cbn [length] in *; try lia.
  destruct i as [|i]; cbn [s_op3 nth]; [reflexivity | apply IH; lia].
Qed.

(* MapWithPrevious(f, p): running fold *)
Lemma scan_law {A B} (f : B -> A -> B) (prev : B) (l : list A) (i : nat) d :
  (i < length l)%nat -> nth i (s_scan f prev l) d = fold_left f (firstn (S i) l) prev.
Proof.
  unfold s_scan. revert prev i. induction l as [|x l IH]; intros prev i Hi; cbn [length] in Hi; [lia|].
  cbn [s_mapst]. destruct i as [|i]; [reflexivity|].
  cbn [nth]. rewrite IH by lia. reflexivity.
Qed.

Section NumLaws.
Context {I T : Type} {N : Num T}.

(* Count(from): from, from+1, from+2, ... one per element of the other stream *)
Fixpoint iter_add1 (from : T) (i : nat) : T := match i with O => from | S i' => iter_add1 (nadd from (nofZ 1)) i' end.

Lemma count_law {O} (from : T) (l : list O) (i : nat) d :
  (i < length l)%nat -> nth i (s_count from l) d = iter_add1 from i.
Proof.
  revert from i. induction l as [|x l IH]; intros from i Hi; cbn [length] in Hi; [lia|].
  destruct i as [|i]; cbn [s_count nth iter_add1]; [reflexivity | apply IH; lia].
Qed.

(* Change(k): value k positions later minus the value now; n - k results *)
Lemma change_law (e : expr I T) (k : Z) (env : list (list I)) :
  (0 <= k)%Z ->
  let l := sem e env in
  length (sem (helper_Change e k) env) = (length l - Z.to_nat k)%nat /\
  forall i d, (i + Z.to_nat k < length l)%nat ->
    nth i (sem (helper_Change e k) env) d = nsub (nth (i + Z.to_nat k) l d) (nth i l d).
Proof.
  intros Hk l. unfold helper_Change, helper_Subtract. cbv zeta. cbn [sem]. fold l. unfold s_buffered.
  split.
  - rewrite s_op2_length, s_skip_length. lia.
  - intros i d Hi. destruct (operate_law (fun a b => nsub a b) (s_skip k l) l) as [_ Hn].
    rewrite (Hn i d d d); [| rewrite s_skip_length; lia | lia]. rewrite skip_nth. reflexivity.
Qed.

(* ChangeRatio(k): (later - now) / now;  ChangePercent: times 100 *)
Lemma change_ratio_law (e : expr I T) (k : Z) (env : list (list I)) :
  (0 <= k)%Z ->
  let l := sem e env in
  length (sem (helper_ChangeRatio e k) env) = (length l - Z.to_nat k)%nat /\
  forall i d, (i + Z.to_nat k < length l)%nat ->
    nth i (sem (helper_ChangeRatio e k) env) d = ndiv (nsub (nth (i + Z.to_nat k) l d) (nth i l d)) (nth i l d).
Proof.
  intros Hk l. destruct (change_law e k env Hk) as [Hlen Hnth]. fold l in Hlen, Hnth.
  unfold helper_ChangeRatio, helper_Divide. cbv zeta. cbn [sem]. unfold s_buffered. fold l.
  split.
  - rewrite s_op2_length, Hlen. lia.
  - intros i d Hi. destruct (operate_law (fun a b => ndiv a b) (sem (helper_Change e k) env) l) as [_ Hn].
    rewrite (Hn i d d d); [| rewrite Hlen; lia | lia]. rewrite Hnth by exact Hi. reflexivity.
Qed.

Lemma change_percent_law (e : expr I T) (k : Z) (env : list (list I)) :
  sem (helper_ChangePercent e k) env = map (fun x => nmul x (nofZ 100)) (sem (helper_ChangeRatio e k) env).
Proof. reflexivity. Qed.

(* SyncPeriod(common, period): skip the difference when it is positive *)
Lemma sync_period_law {A} (common period : Z) (e : expr I A) env :
  sem (helper_SyncPeriod common period e) env = skipn (Z.to_nat (common - period)) (sem e env).
Proof.
  unfold helper_SyncPeriod. cbv zeta. destruct (Z.gtb_spec (common - period) 0).
  - reflexivity.
  - replace (Z.to_nat (common - period)) with 0%nat by lia. reflexivity.
Qed.
End NumLaws.

(* Since over a type with decidable equality reflected by the comparison: the length of the current run, minus one *)
Section Since.
Context {I T : Type} {N : Num T}.
Hypothesis neqb_spec : forall a b : T, neqb a b = true <-> a = b.
Hypothesis T_dec : forall a b : T, {a = b} + {a <> b}.

(* the number of immediately preceding elements equal to x, scanning a reversed prefix *)
Fixpoint run_before (x : T) (rev_prefix : list T) : nat :=
  match rev_prefix with
  | y :: r => if T_dec y x then S (run_before x r) else 0
  | [] => 0
  end.

Fixpoint nat_to_T (n : nat) : T := match n with O => nofZ 0 | S n' => nadd (nat_to_T n') (nofZ 1) end.

Lemma since_law_from (l : list T) (rev_prefix : list T) (first : bool) (last count : T) :
  (first = true -> rev_prefix = []) ->
  (first = false -> exists r, rev_prefix = last :: r /\ count = nat_to_T (run_before last r)) ->
  s_mapst (fun '(first, last, count) n =>
             if orb first (nneb last n) then ((false, n, nofZ 0), nofZ 0)
             else ((first, last, nadd count (nofZ 1)), nadd count (nofZ 1))) (first, last, count) l
  = (fix go (rp : list T) (l : list T) : list T :=
       match l with [] => [] | x :: l' => nat_to_T (run_before x rp) :: go (x :: rp) l' end) rev_prefix l.
Proof.
  revert rev_prefix first last count. induction l as [|x l IH]; intros rp first last count Hf Hnf; [reflexivity|].
  cbn [s_mapst]. destruct first.
  - cbn [orb]. rewrite (Hf eq_refl). cbn [run_before nat_to_T]. f_equal.
    apply IH; [discriminate | intros _; exists []; split; reflexivity].
  - destruct (Hnf eq_refl) as [r [Hrp Hc]]. subst rp. cbn [orb]. unfold nneb.
    destruct (neqb last x) eqn:E; cbn [negb].
    + apply neqb_spec in E. subst x. cbn [run_before]. destruct (T_dec last last) as [_|Hn]; [|contradiction].
      cbn [nat_to_T]. rewrite <- Hc. f_equal.
      apply IH; [discriminate | intros _; exists (last :: r); split; [reflexivity|]].
      cbn [run_before]. destruct (T_dec last last) as [_|Hn]; [|contradiction]. cbn [nat_to_T]. rewrite <- Hc. reflexivity.
    + assert (Hne : last <> x) by (intros ->; assert (neqb x x = true) by (apply neqb_spec; reflexivity); congruence).
      cbn [run_before]. destruct (T_dec last x) as [He|_]; [contradiction|]. cbn [nat_to_T]. f_equal.
      apply IH; [discriminate | intros _; exists (last :: r); split; [reflexivity|]].
      cbn [run_before]. destruct (T_dec last x) as [He|_]; [contradiction|]. reflexivity.
Qed.

Theorem since_law (e : expr I T) env :
  sem (helper_Since e) env =
  (fix go (rp : list T) (l : list T) : list T :=
     match l with [] => [] | x :: l' => nat_to_T (run_before x rp) :: go (x :: rp) l' end) [] (sem e env).
Proof.
  unfold helper_Since. cbv zeta. cbn [sem].
  apply (since_law_from (sem e env) [] true nzero nzero); [reflexivity | discriminate].
Qed.
End Since.


(* the regenerated definitions denote exactly the hand-written slice models (a change of a Go helper that alters its
   meaning breaks the equation) *)
Section Slice.
Context {I T : Type} {N : Num T}.
Theorem generated_helpers_are_the_slice_models (e e' : expr I T) (k : Z) (x : T) env :
  sem (helper_Change e k) env = s_change k (sem e env) /\
  sem (helper_ChangeRatio e k) env = s_change_ratio k (sem e env) /\
  sem (helper_ChangePercent e k) env = s_change_percent k (sem e env) /\
  sem (helper_Abs e) env = map nabs (sem e env) /\
  sem (helper_Add e e') env = s_op2 nadd (sem e env) (sem e' env) /\
  sem (helper_Subtract e e') env = s_op2 nsub (sem e env) (sem e' env) /\
  sem (helper_Multiply e e') env = s_op2 nmul (sem e env) (sem e' env) /\
  sem (helper_Divide e e') env = s_op2 ndiv (sem e env) (sem e' env) /\
  sem (helper_MultiplyBy e x) env = map (fun n => nmul n x) (sem e env) /\
  sem (helper_DivideBy e x) env = map (fun n => ndiv n x) (sem e env) /\
  sem (helper_IncrementBy e x) env = map (fun n => nadd n x) (sem e env) /\
  sem (helper_DecrementBy e x) env = map (fun n => nsub n x) (sem e env) /\
  sem (helper_Pow e x) env = map (fun n => npow n x) (sem e env) /\
  sem (helper_Sqrt e) env = map nsqrt (sem e env) /\
  sem (helper_Sign e) env = s_sign (sem e env) /\
  sem (helper_KeepPositives e) env = s_keep_positives (sem e env) /\
  sem (helper_KeepNegatives e) env = s_keep_negatives (sem e env) /\
  sem (helper_RoundDigits e k) env = s_round_digits k (sem e env).
Proof. repeat split; reflexivity. Qed.

Lemma since_generated_from (l : list T) (first : bool) (last count : T) (st : option (T * T)) :
  (first = true /\ st = None) \/ (first = false /\ st = Some (last, count)) ->
  s_mapst (fun '(first, last, count) n =>
             if orb first (nneb last n) then ((false, n, nofZ 0), nofZ 0)
             else ((first, last, nadd count (nofZ 1)), nadd count (nofZ 1))) (first, last, count) l
  = s_mapst (since_step neqb) st l.
Proof.
  revert first last count st. induction l as [|x l IH]; intros first last count st Hrel; [reflexivity|].
  cbn [s_mapst]. destruct Hrel as [[-> ->] | [-> ->]]; cbn [orb since_step].
  - f_equal. apply IH. right. split; reflexivity.
  - unfold nneb. destruct (neqb last x); cbn [negb]; f_equal; apply IH; right; split; reflexivity.
Qed.

Theorem since_generated_is_slice_model (e : expr I T) env :
  sem (helper_Since e) env = s_since neqb (sem e env).
Proof.
  unfold helper_Since, s_since. cbv zeta. cbn [sem]. apply since_generated_from. left. split; reflexivity.
Qed.
End Slice.
