(* Hand-written vocabulary the generated file coq/Gen/All.v refers to: dates, report records,
   functional operations on the captured helper.Bst of MovingMin/MovingMax. Definitions only. *)
From Coq Require Import ZArith List Bool String.
Import ListNotations.
From Verif Require Import Base.Num Base.Stream Data.Bst.

Set Implicit Arguments.

Definition date := Z.
Definition zneb (a b : Z) : bool := negb (Z.eqb a b).

Section BstOps.
  Context {T : Type} {N : Num T}.
  Definition bst := tree T.
  Definition bst_empty : bst := Leaf.
  Definition bst_insert (x : T) (t : bst) : bst := insert T nleb x t.
  Definition bst_remove (x : T) (t : bst) : bst := fst (remove T nltb neqb x t).
  Definition bst_contains (x : T) (t : bst) : bool := contains T nltb neqb x t.
  Definition bst_min (t : bst) : T := tmin T nzero t.
  Definition bst_max (t : bst) : T := tmax T nzero t.
End BstOps.
Arguments bst T : clear implicits.

(* helper.Report: a date axis and columns that are pulled once per date by the template *)
Inductive column (I T : Type) :=
| ColNum (label : string) (e : expr I T)
| ColAnn (e : expr I string).

Record report (I T : Type) := mk_report_ { rp_dates : expr I date; rp_cols : list (column I T) }.

Definition mk_report {I T} (dates : expr I date) : report I T := mk_report_ dates [].
Definition report_add_num {I T} (r : report I T) (label : string) (e : expr I T) : report I T :=
  mk_report_ (rp_dates r) (rp_cols r ++ [ColNum label e]).
Definition report_add_ann {I T} (r : report I T) (e : expr I string) : report I T :=
  mk_report_ (rp_dates r) (rp_cols r ++ [ColAnn T e]).

(* trend/wma.go: the closure over a helper.Ring of size p (window oldest first) *)
Section Wma.
  Context {T : Type} {N : Num T}.
  Fixpoint wma_sum (p : Z) (i : Z) (win : list T) (sum : T) : T :=
    match win with
    | [] => sum
    | x :: win' => wma_sum p (i + 1)%Z win' (nadd sum (ndiv (nmul x (nofZ (i + 1)%Z)) (nofZ p)))
    end.
  Definition ring_push (p : Z) (win : list T) (x : T) : list T :=
    (if Nat.eqb (List.length win) (Z.to_nat p) then tl win else win) ++ [x].
  Definition ring_full (p : Z) (win : list T) : bool := Nat.eqb (List.length win) (Z.to_nat p).
  Definition wma_step (p : Z) (win : list T) (value : T) : list T * T :=
    let win' := ring_push p win value in
    if ring_full p win' then (win', ndiv (wma_sum p 0%Z win' nzero) (nofZ 2%Z)) else (win', nzero).
End Wma.

(* strategy/action.go CountActions folded over the sources: (buy, hold, sell) per position *)
Definition tally0 (a : Z) : Z * Z * Z :=
  if Z.eqb a (-1) then (0, 0, 1)%Z else if Z.eqb a 1 then (1, 0, 0)%Z else (0, 1, 0)%Z.
Definition tally_add (c : Z * Z * Z) (a : Z) : Z * Z * Z :=
  let '(b, h, s) := c in
  if Z.eqb a (-1) then (b, h, s + 1)%Z else if Z.eqb a 1 then (b + 1, h, s)%Z else (b, h + 1, s)%Z.
Definition count_actions {I} (dflt : expr I (Z * Z * Z)) (sources : list (expr I Z)) : expr I (Z * Z * Z) :=
  match sources with
  | [] => dflt
  | s0 :: rest => fold_left (fun acc s => EOp2 tally_add acc s) rest (EMap tally0 s0)
  end.

(* int(math.Round(math.Sqrt(float64(p)))) and int(math.Round(float64(p) / 2)) for p >= 0 *)
Definition round_sqrt (p : Z) : Z := let r := Z.sqrt p in if Z.ltb (r * r + r) p then (r + 1)%Z else r.
Definition round_half (p : Z) : Z := Z.quot (p + 1) 2.
