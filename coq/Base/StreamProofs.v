(* Structural theorems about the list models of Base/Stream.v: output lengths, prefix
   monotonicity of every helper, and for the dataflow expression language: [sem_length],
   [sem_prefix], [sem_causal], [sem_suffix_irrelevant].  Valid for every element type. *)
From Coq Require Import List ZArith Bool Lia Arith.
Import ListNotations.
From Verif Require Import Base.Num Base.Stream.

(* ------------------------------------------------------------------------------------------ *)
(* Prefix order on lists *)

Definition prefix {A} (l1 l2 : list A) : Prop := exists t, l2 = l1 ++ t.

Lemma prefix_refl {A} (l : list A) : prefix l l.
Proof. exists []. rewrite app_nil_r. reflexivity. Qed.

Lemma prefix_nil {A} (l : list A) : prefix [] l.
Proof. exists l. reflexivity. Qed.

Lemma prefix_app_r {A} (l t : list A) : prefix l (l ++ t).
Proof. exists t. reflexivity. Qed.

Lemma prefix_trans {A} (l1 l2 l3 : list A) : prefix l1 l2 -> prefix l2 l3 -> prefix l1 l3.
Proof.
  intros [t1 H1] [t2 H2]. exists (t1 ++ t2). rewrite H2, H1, app_assoc. reflexivity.
Qed.

Lemma prefix_cons {A} (x : A) (l1 l2 : list A) : prefix l1 l2 -> prefix (x :: l1) (x :: l2).
Proof. intros [t H]. exists t. rewrite H. reflexivity. Qed.

Lemma prefix_cons_l {A} (x : A) (l1 l2 : list A) :
  prefix (x :: l1) l2 -> exists l2', l2 = x :: l2' /\ prefix l1 l2'.
Proof. intros [t H]. exists (l1 ++ t). split; [exact H | apply prefix_app_r]. Qed.

Lemma prefix_cons_inv {A} (x y : A) (l1 l2 : list A) :
  prefix (x :: l1) (y :: l2) -> x = y /\ prefix l1 l2.
Proof.
  intros [t H]. simpl in H. injection H as Hy Hl. split; [symmetry; exact Hy |].
  exists t. exact Hl.
Qed.

Lemma prefix_nil_inv {A} (l : list A) : prefix l [] -> l = [].
Proof.
  intros [t H]. symmetry in H. apply app_eq_nil in H. destruct H as [H _]. exact H.
Qed.

Lemma prefix_length_le {A} (l1 l2 : list A) : prefix l1 l2 -> length l1 <= length l2.
Proof. intros [t H]. rewrite H, app_length. lia. Qed.

Lemma prefix_firstn {A} (l1 l2 : list A) : prefix l1 l2 -> l1 = firstn (length l1) l2.
Proof.
  intros [t H]. rewrite H. rewrite firstn_app, Nat.sub_diag, firstn_all. simpl.
  rewrite app_nil_r. reflexivity.
Qed.

Lemma firstn_prefix {A} (n : nat) (l : list A) : prefix (firstn n l) l.
Proof. exists (skipn n l). symmetry. apply firstn_skipn. Qed.

Lemma prefix_length_eq {A} (l1 l2 : list A) : prefix l1 l2 -> length l1 = length l2 -> l1 = l2.
Proof.
  intros Hp Hl. rewrite (prefix_firstn l1 l2 Hp) at 1. rewrite Hl. apply firstn_all.
Qed.

Lemma prefix_antisym {A} (l1 l2 : list A) : prefix l1 l2 -> prefix l2 l1 -> l1 = l2.
Proof.
  intros H12 H21. apply prefix_length_eq; [exact H12 |].
  apply prefix_length_le in H12. apply prefix_length_le in H21. lia.
Qed.

Lemma prefix_map {A B} (f : A -> B) (l1 l2 : list A) : prefix l1 l2 -> prefix (map f l1) (map f l2).
Proof. intros [t H]. exists (map f t). rewrite H. apply map_app. Qed.

Lemma prefix_skipn {A} (n : nat) (l1 l2 : list A) : prefix l1 l2 -> prefix (skipn n l1) (skipn n l2).
Proof. intros [t H]. exists (skipn (n - length l1) t). rewrite H. apply skipn_app. Qed.

Lemma prefix_firstn_mono {A} (n : nat) (l1 l2 : list A) :
  prefix l1 l2 -> prefix (firstn n l1) (firstn n l2).
Proof. intros [t H]. exists (firstn (n - length l1) t). rewrite H. apply firstn_app. Qed.

Lemma prefix_app {A} (l l1 l2 : list A) : prefix l1 l2 -> prefix (l ++ l1) (l ++ l2).
Proof. intros [t H]. exists t. rewrite H. apply app_assoc. Qed.

Lemma prefix_app_l {A} (l1 l2 t : list A) : prefix l1 l2 -> prefix l1 (l2 ++ t).
Proof. intros H. apply (prefix_trans l1 l2 (l2 ++ t) H). apply prefix_app_r. Qed.

Lemma prefix_firstn_le {A} (n m : nat) (l : list A) : n <= m -> prefix (firstn n l) (firstn m l).
Proof.
  intros Hnm. replace (firstn n l) with (firstn n (firstn m l)).
  - apply firstn_prefix.
  - rewrite firstn_firstn. f_equal. lia.
Qed.

Lemma Forall2_prefix_refl {A} (env : list (list A)) : Forall2 prefix env env.
Proof. induction env as [|l env IH]; constructor; [apply prefix_refl | exact IH]. Qed.

Lemma Forall2_prefix_firstn {A} (m : nat) (env : list (list A)) :
  Forall2 prefix (map (firstn m) env) env.
Proof.
  induction env as [|l env IH]; simpl; constructor; [apply firstn_prefix | exact IH].
Qed.

Lemma Forall2_prefix_nth {A} (env1 env2 : list (list A)) (k : nat) :
  Forall2 prefix env1 env2 -> prefix (nth k env1 []) (nth k env2 []).
Proof.
  intros H. revert k. induction H as [|l1 l2 e1 e2 Hl _ IH]; intros k.
  - destruct k; apply prefix_nil.
  - destruct k as [|k]; simpl; [exact Hl | apply IH].
Qed.

(* ------------------------------------------------------------------------------------------ *)
(* Lengths of the helpers *)

Lemma s_skip_length {A} (k : Z) (l : list A) : length (s_skip k l) = length l - Z.to_nat k.
Proof. unfold s_skip. apply skipn_length. Qed.

Lemma s_shift_length {A} (k : Z) (fill : A) (l : list A) :
  length (s_shift k fill l) = Z.to_nat k + length l.
Proof. unfold s_shift. rewrite app_length, repeat_length. reflexivity. Qed.

Lemma s_head_length {A} (k : Z) (l : list A) : length (s_head k l) = Nat.min (Z.to_nat k) (length l).
Proof. unfold s_head. apply firstn_length. Qed.

Lemma s_first_length {A} (k : Z) (l : list A) : length (s_first k l) = Nat.min (Z.to_nat k) (length l).
Proof. unfold s_first. apply firstn_length. Qed.

Lemma s_buffered_length {A} (k : Z) (l : list A) : length (s_buffered k l) = length l.
Proof. reflexivity. Qed.

Lemma s_op2_length {A B C} (f : A -> B -> C) (a : list A) (b : list B) :
  length (s_op2 f a b) = Nat.min (length a) (length b).
Proof.
  revert b. induction a as [|x a IH]; intros b; [reflexivity |].
  destruct b as [|y b]; [reflexivity |]. simpl. rewrite IH. reflexivity.
Qed.

Lemma s_op3_length {A B C D} (f : A -> B -> C -> D) (a : list A) (b : list B) (c : list C) :
  length (s_op3 f a b c) = Nat.min (length a) (Nat.min (length b) (length c)).
Proof.
  revert b c. induction a as [|x a IH]; intros b c; [reflexivity |].
  destruct b as [|y b]; [reflexivity |].
  destruct c as [|z c]; [simpl; lia |]. simpl. rewrite IH. reflexivity.
Qed.

Lemma s_mapst_length {A B S} (f : S -> A -> S * B) (s : S) (l : list A) :
  length (s_mapst f s l) = length l.
Proof.
  revert s. induction l as [|x l IH]; intros s; [reflexivity |].
  simpl. destruct (f s x) as [s' y]. simpl. rewrite IH. reflexivity.
Qed.

Lemma s_op2st_length {A B C S} (f : S -> A -> B -> S * C) (s : S) (a : list A) (b : list B) :
  length (s_op2st f s a b) = Nat.min (length a) (length b).
Proof.
  revert s b. induction a as [|x a IH]; intros s b; [reflexivity |].
  destruct b as [|y b]; [reflexivity |]. simpl. destruct (f s x y) as [s' z]. simpl.
  rewrite IH. reflexivity.
Qed.

Lemma s_op3st_length {A B C D S} (f : S -> A -> B -> C -> S * D) (s : S)
      (a : list A) (b : list B) (c : list C) :
  length (s_op3st f s a b c) = Nat.min (length a) (Nat.min (length b) (length c)).
Proof.
  revert s b c. induction a as [|x a IH]; intros s b c; [reflexivity |].
  destruct b as [|y b]; [reflexivity |].
  destruct c as [|z c]; [simpl; lia |]. simpl. destruct (f s x y z) as [s' w]. simpl.
  rewrite IH. reflexivity.
Qed.

Lemma s_scan_length {A B} (f : B -> A -> B) (prev : B) (l : list A) :
  length (s_scan f prev l) = length l.
Proof. unfold s_scan. apply s_mapst_length. Qed.

Lemma s_count_length {T} {N : Num T} {O} (from : T) (l : list O) :
  length (s_count from l) = length l.
Proof.
  revert from. induction l as [|x l IH]; intros from; [reflexivity |].
  simpl. rewrite IH. reflexivity.
Qed.

Lemma s_since_length {A T} {N : Num T} (eqb : A -> A -> bool) (l : list A) :
  length (s_since (T := T) eqb l) = length l.
Proof. unfold s_since. apply s_mapst_length. Qed.

Lemma s_seeded_scan_length {T} (seed : list T) (p : Z) (step : T -> T -> T) (l : list T) :
  length (s_seeded_scan seed p step l) =
  match length seed with O => O | S _ => S (length l - Z.to_nat p) end.
Proof.
  unfold s_seeded_scan. destruct seed as [|b seed]; [reflexivity |].
  simpl. rewrite s_scan_length, s_skip_length. reflexivity.
Qed.

Lemma kama_loop_length {T} {N : Num T} (prev : T) (cl scs : list T) :
  length (kama_loop prev cl scs) = length cl.
Proof.
  revert prev scs. induction cl as [|c cl IH]; intros prev scs; [reflexivity |].
  simpl. rewrite IH. reflexivity.
Qed.

Lemma s_kama_tail_length {T} {N : Num T} (cl scs : list T) :
  length (s_kama_tail cl scs) = length cl - 1.
Proof.
  unfold s_kama_tail. destruct cl as [|c0 cl]; [reflexivity |].
  rewrite kama_loop_length. simpl. lia.
Qed.

(* One step of the moving-std loop, kept folded. *)
Lemma std_loop_cons {T} {N : Num T} (p : nat) (win : list T) (sum : T) (n : T) (l : list T) :
  std_loop p win sum (n :: l) =
  let full := Nat.eqb (length win) p in
  let out := if full then hd nzero win else nzero in
  let win' := (if full then tl win else win) ++ [n] in
  let sum' := nadd (nsub sum out) n in
  if Nat.eqb (length win') p then
    let sma := ndiv sum' (nofZ (Z.of_nat p)) in
    let sum2 := fold_left (fun acc x => nadd acc (npow (nsub x sma) (nofZ 2))) win' nzero in
    nsqrt (ndiv sum2 (nofZ (Z.of_nat p))) :: std_loop p win' sum' l
  else std_loop p win' sum' l.
Proof. reflexivity. Qed.

Lemma std_loop_zero {T} {N : Num T} (win : list T) (sum : T) (l : list T) :
  std_loop 0 win sum l = [].
Proof.
  revert win sum. induction l as [|n l IH]; intros win sum; [reflexivity |].
  rewrite std_loop_cons. cbv zeta.
  destruct (Nat.eqb_spec (length ((if Nat.eqb (length win) 0 then tl win else win) ++ [n])) 0)
    as [E|E].
  - rewrite app_length in E. simpl in E. lia.
  - apply IH.
Qed.

Lemma std_loop_length {T} {N : Num T} (p : nat) (win : list T) (sum : T) (l : list T) :
  1 <= p -> length win <= p ->
  length (std_loop p win sum l) = length l - (p - 1 - length win).
Proof.
  intros Hp. revert win sum. induction l as [|n l IH]; intros win sum Hw; [reflexivity |].
  rewrite std_loop_cons. cbv zeta.
  destruct (Nat.eqb_spec (length win) p) as [Efull|Efull].
  - assert (Hlen : length (tl win ++ [n]) = p).
    { rewrite app_length. destruct win as [|w win]; simpl in *; lia. }
    rewrite Hlen, Nat.eqb_refl. simpl length. rewrite IH by lia. rewrite Hlen. lia.
  - assert (Hlen : length (win ++ [n]) = S (length win)).
    { rewrite app_length. simpl. lia. }
    destruct (Nat.eqb_spec (length (win ++ [n])) p) as [E|E].
    + simpl length. rewrite IH by lia. rewrite Hlen in *. lia.
    + rewrite IH by lia. rewrite Hlen in *. simpl length. lia.
Qed.

Lemma s_moving_std_length {T} {N : Num T} (p : Z) (l : list T) :
  length (s_moving_std p l) =
  if Nat.eqb (Z.to_nat p) 0 then 0 else length l - (Z.to_nat p - 1).
Proof.
  unfold s_moving_std. destruct (Nat.eqb_spec (Z.to_nat p) 0) as [E|E].
  - rewrite E, std_loop_zero. reflexivity.
  - rewrite std_loop_length by (simpl; lia). simpl. lia.
Qed.

Lemma s_buy_and_hold_length {A B} (buy hold : A) (l : list B) :
  length (s_buy_and_hold buy hold l) = length l.
Proof.
  unfold s_buy_and_hold. destruct l as [|x l]; [reflexivity |].
  simpl. rewrite map_length. reflexivity.
Qed.

(* ------------------------------------------------------------------------------------------ *)
(* Prefix monotonicity of the helpers *)

Lemma s_skip_prefix {A} (k : Z) (l1 l2 : list A) :
  prefix l1 l2 -> prefix (s_skip k l1) (s_skip k l2).
Proof. unfold s_skip. apply prefix_skipn. Qed.

Lemma s_shift_prefix {A} (k : Z) (fill : A) (l1 l2 : list A) :
  prefix l1 l2 -> prefix (s_shift k fill l1) (s_shift k fill l2).
Proof. unfold s_shift. apply prefix_app. Qed.

Lemma s_head_prefix {A} (k : Z) (l1 l2 : list A) :
  prefix l1 l2 -> prefix (s_head k l1) (s_head k l2).
Proof. unfold s_head. apply prefix_firstn_mono. Qed.

Lemma s_first_prefix {A} (k : Z) (l1 l2 : list A) :
  prefix l1 l2 -> prefix (s_first k l1) (s_first k l2).
Proof. unfold s_first. apply prefix_firstn_mono. Qed.

Lemma s_buffered_prefix {A} (k : Z) (l1 l2 : list A) :
  prefix l1 l2 -> prefix (s_buffered k l1) (s_buffered k l2).
Proof. intros H. exact H. Qed.

Lemma s_pipe_prefix {A} (l1 l2 : list A) : prefix l1 l2 -> prefix (s_pipe l1) (s_pipe l2).
Proof. intros H. exact H. Qed.

Lemma s_op2_prefix {A B C} (f : A -> B -> C) (a1 a2 : list A) (b1 b2 : list B) :
  prefix a1 a2 -> prefix b1 b2 -> prefix (s_op2 f a1 b1) (s_op2 f a2 b2).
Proof.
  revert a2 b1 b2. induction a1 as [|x a1 IH]; intros a2 b1 b2 Ha Hb; [apply prefix_nil |].
  destruct b1 as [|y b1]; [apply prefix_nil |].
  apply prefix_cons_l in Ha. destruct Ha as [a2' [Ea Ha]].
  apply prefix_cons_l in Hb. destruct Hb as [b2' [Eb Hb]]. subst a2 b2.
  simpl. apply prefix_cons. apply IH; assumption.
Qed.

Lemma s_op3_prefix {A B C D} (f : A -> B -> C -> D)
      (a1 a2 : list A) (b1 b2 : list B) (c1 c2 : list C) :
  prefix a1 a2 -> prefix b1 b2 -> prefix c1 c2 ->
  prefix (s_op3 f a1 b1 c1) (s_op3 f a2 b2 c2).
Proof.
  revert a2 b1 b2 c1 c2.
  induction a1 as [|x a1 IH]; intros a2 b1 b2 c1 c2 Ha Hb Hc; [apply prefix_nil |].
  destruct b1 as [|y b1]; [apply prefix_nil |].
  destruct c1 as [|z c1]; [apply prefix_nil |].
  apply prefix_cons_l in Ha. destruct Ha as [a2' [Ea Ha]].
  apply prefix_cons_l in Hb. destruct Hb as [b2' [Eb Hb]].
  apply prefix_cons_l in Hc. destruct Hc as [c2' [Ec Hc]]. subst a2 b2 c2.
  simpl. apply prefix_cons. apply IH; assumption.
Qed.

Lemma s_mapst_prefix {A B S} (f : S -> A -> S * B) (s : S) (l1 l2 : list A) :
  prefix l1 l2 -> prefix (s_mapst f s l1) (s_mapst f s l2).
Proof.
  revert s l2. induction l1 as [|x l1 IH]; intros s l2 Hl; [apply prefix_nil |].
  apply prefix_cons_l in Hl. destruct Hl as [l2' [El Hl]]. subst l2.
  simpl. destruct (f s x) as [s' y]. apply prefix_cons. apply IH. exact Hl.
Qed.

Lemma s_op2st_prefix {A B C S} (f : S -> A -> B -> S * C) (s : S)
      (a1 a2 : list A) (b1 b2 : list B) :
  prefix a1 a2 -> prefix b1 b2 -> prefix (s_op2st f s a1 b1) (s_op2st f s a2 b2).
Proof.
  revert s a2 b1 b2. induction a1 as [|x a1 IH]; intros s a2 b1 b2 Ha Hb; [apply prefix_nil |].
  destruct b1 as [|y b1]; [apply prefix_nil |].
  apply prefix_cons_l in Ha. destruct Ha as [a2' [Ea Ha]].
  apply prefix_cons_l in Hb. destruct Hb as [b2' [Eb Hb]]. subst a2 b2.
  simpl. destruct (f s x y) as [s' z]. apply prefix_cons. apply IH; assumption.
Qed.

Lemma s_op3st_prefix {A B C D S} (f : S -> A -> B -> C -> S * D) (s : S)
      (a1 a2 : list A) (b1 b2 : list B) (c1 c2 : list C) :
  prefix a1 a2 -> prefix b1 b2 -> prefix c1 c2 ->
  prefix (s_op3st f s a1 b1 c1) (s_op3st f s a2 b2 c2).
Proof.
  revert s a2 b1 b2 c1 c2.
  induction a1 as [|x a1 IH]; intros s a2 b1 b2 c1 c2 Ha Hb Hc; [apply prefix_nil |].
  destruct b1 as [|y b1]; [apply prefix_nil |].
  destruct c1 as [|z c1]; [apply prefix_nil |].
  apply prefix_cons_l in Ha. destruct Ha as [a2' [Ea Ha]].
  apply prefix_cons_l in Hb. destruct Hb as [b2' [Eb Hb]].
  apply prefix_cons_l in Hc. destruct Hc as [c2' [Ec Hc]]. subst a2 b2 c2.
  simpl. destruct (f s x y z) as [s' w]. apply prefix_cons. apply IH; assumption.
Qed.

Lemma s_scan_prefix {A B} (f : B -> A -> B) (prev : B) (l1 l2 : list A) :
  prefix l1 l2 -> prefix (s_scan f prev l1) (s_scan f prev l2).
Proof. unfold s_scan. apply s_mapst_prefix. Qed.

Lemma s_count_prefix {T} {N : Num T} {O} (from : T) (l1 l2 : list O) :
  prefix l1 l2 -> prefix (s_count from l1) (s_count from l2).
Proof.
  revert from l2. induction l1 as [|x l1 IH]; intros from l2 Hl; [apply prefix_nil |].
  apply prefix_cons_l in Hl. destruct Hl as [l2' [El Hl]]. subst l2.
  simpl. apply prefix_cons. apply IH. exact Hl.
Qed.

Lemma s_since_prefix {A T} {N : Num T} (eqb : A -> A -> bool) (l1 l2 : list A) :
  prefix l1 l2 -> prefix (s_since (T := T) eqb l1) (s_since (T := T) eqb l2).
Proof. unfold s_since. apply s_mapst_prefix. Qed.

Lemma s_seeded_scan_prefix {T} (seed1 seed2 : list T) (p : Z) (step : T -> T -> T)
      (l1 l2 : list T) :
  prefix seed1 seed2 -> prefix l1 l2 ->
  prefix (s_seeded_scan seed1 p step l1) (s_seeded_scan seed2 p step l2).
Proof.
  intros Hs Hl. unfold s_seeded_scan. destruct seed1 as [|b seed1]; [apply prefix_nil |].
  apply prefix_cons_l in Hs. destruct Hs as [seed2' [Es _]]. subst seed2.
  apply prefix_cons. apply s_scan_prefix. apply s_skip_prefix. exact Hl.
Qed.

Lemma kama_loop_prefix {T} {N : Num T} (prev : T) (cl1 cl2 scs1 scs2 : list T) :
  prefix cl1 cl2 -> prefix scs1 scs2 -> length cl1 <= length scs1 ->
  prefix (kama_loop prev cl1 scs1) (kama_loop prev cl2 scs2).
Proof.
  revert prev cl2 scs1 scs2.
  induction cl1 as [|c cl1 IH]; intros prev cl2 scs1 scs2 Hc Hs Hlen; [apply prefix_nil |].
  apply prefix_cons_l in Hc. destruct Hc as [cl2' [Ec Hc]]. subst cl2.
  destruct scs1 as [|sc scs1]; [simpl in Hlen; lia |].
  apply prefix_cons_l in Hs. destruct Hs as [scs2' [Es Hs]]. subst scs2.
  simpl. apply prefix_cons. apply IH; [exact Hc | exact Hs | simpl in Hlen; lia].
Qed.

Lemma s_kama_tail_prefix {T} {N : Num T} (cl1 cl2 scs1 scs2 : list T) :
  prefix cl1 cl2 -> prefix scs1 scs2 -> length cl1 - 1 <= length scs1 ->
  prefix (s_kama_tail cl1 scs1) (s_kama_tail cl2 scs2).
Proof.
  intros Hc Hs Hlen. unfold s_kama_tail. destruct cl1 as [|c0 cl1]; [apply prefix_nil |].
  apply prefix_cons_l in Hc. destruct Hc as [cl2' [Ec Hc]]. subst cl2.
  apply kama_loop_prefix; [exact Hc | exact Hs | simpl in Hlen; lia].
Qed.

Lemma std_loop_prefix {T} {N : Num T} (p : nat) (win : list T) (sum : T) (l1 l2 : list T) :
  prefix l1 l2 -> prefix (std_loop p win sum l1) (std_loop p win sum l2).
Proof.
  revert win sum l2. induction l1 as [|n l1 IH]; intros win sum l2 Hl; [apply prefix_nil |].
  apply prefix_cons_l in Hl. destruct Hl as [l2' [El Hl]]. subst l2.
  rewrite !std_loop_cons. cbv zeta.
  destruct (Nat.eqb (length ((if Nat.eqb (length win) p then tl win else win) ++ [n])) p).
  - apply prefix_cons. apply IH. exact Hl.
  - apply IH. exact Hl.
Qed.

Lemma s_moving_std_prefix {T} {N : Num T} (p : Z) (l1 l2 : list T) :
  prefix l1 l2 -> prefix (s_moving_std p l1) (s_moving_std p l2).
Proof. unfold s_moving_std. apply std_loop_prefix. Qed.

Lemma s_buy_and_hold_prefix {A B} (buy hold : A) (l1 l2 : list B) :
  prefix l1 l2 -> prefix (s_buy_and_hold buy hold l1) (s_buy_and_hold buy hold l2).
Proof.
  intros Hl. unfold s_buy_and_hold. destruct l1 as [|x l1]; [apply prefix_nil |].
  apply prefix_cons_l in Hl. destruct Hl as [l2' [El Hl]]. subst l2.
  apply prefix_cons. apply prefix_map. exact Hl.
Qed.

(* ------------------------------------------------------------------------------------------ *)
(* The expression language *)

(* No domain hypothesis is needed: the output length is a function of the input lengths for
   every expression (outside [ewf] the values may be junk, the length is not). *)
Theorem sem_length : forall I A (e : expr I A) (env : list (list I)),
  length (sem e env) = elen e (map (@length _) env).
Proof.
  intros I A0 e.
  induction e as
    [ k
    | X Y f e IH
    | X Y S s0 f e IH
    | X k e IH
    | X k fill e IH
    | X k e IH
    | X k e IH
    | X k e IH
    | X Y Z f a IHa b IHb
    | X Y Z S s0 f a IHa b IHb
    | X Y Z W f a IHa b IHb c IHc
    | X Y Z W S s0 f a IHa b IHb c IHc
    | T O N from e IH
    | T seed IHseed p step e IH
    | T N cl IHcl scs IHscs
    | T N p e IH
    | X Y buy hold e IH ]; intros env; cbn [sem elen].
  - exact (eq_sym (map_nth (@length I) env [] k)).
  - rewrite map_length. apply IH.
  - rewrite s_mapst_length. apply IH.
  - rewrite s_skip_length, IH. reflexivity.
  - rewrite s_shift_length, IH. reflexivity.
  - rewrite s_head_length, IH. reflexivity.
  - rewrite s_first_length, IH. reflexivity.
  - rewrite s_buffered_length. apply IH.
  - rewrite s_op2_length, IHa, IHb. reflexivity.
  - rewrite s_op2st_length, IHa, IHb. reflexivity.
  - rewrite s_op3_length, IHa, IHb, IHc. reflexivity.
  - rewrite s_op3st_length, IHa, IHb, IHc. reflexivity.
  - rewrite s_count_length. apply IH.
  - rewrite s_seeded_scan_length, IHseed, IH. reflexivity.
  - rewrite s_kama_tail_length, IHcl. reflexivity.
  - rewrite s_moving_std_length, IH. reflexivity.
  - rewrite s_buy_and_hold_length. apply IH.
Qed.

Theorem sem_prefix : forall I A (e : expr I A) (env1 env2 : list (list I)),
  Forall2 prefix env1 env2 ->
  ewf e (map (@length _) env1) -> ewf e (map (@length _) env2) ->
  prefix (sem e env1) (sem e env2).
Proof.
  intros I A0 e env1 env2 Henv.
  induction e as
    [ k
    | X Y f e IH
    | X Y S s0 f e IH
    | X k e IH
    | X k fill e IH
    | X k e IH
    | X k e IH
    | X k e IH
    | X Y Z f a IHa b IHb
    | X Y Z S s0 f a IHa b IHb
    | X Y Z W f a IHa b IHb c IHc
    | X Y Z W S s0 f a IHa b IHb c IHc
    | T O N from e IH
    | T seed IHseed p step e IH
    | T N cl IHcl scs IHscs
    | T N p e IH
    | X Y buy hold e IH ]; cbn [sem ewf]; intros Hw1 Hw2.
  - apply Forall2_prefix_nth. exact Henv.
  - apply prefix_map. apply IH; assumption.
  - apply s_mapst_prefix. apply IH; assumption.
  - apply s_skip_prefix. apply IH; assumption.
  - destruct Hw1 as [_ Hw1]. destruct Hw2 as [_ Hw2].
    apply s_shift_prefix. apply IH; assumption.
  - apply s_head_prefix. apply IH; assumption.
  - apply s_first_prefix. apply IH; assumption.
  - destruct Hw1 as [_ Hw1]. destruct Hw2 as [_ Hw2].
    apply s_buffered_prefix. apply IH; assumption.
  - destruct Hw1 as [Ha1 Hb1]. destruct Hw2 as [Ha2 Hb2].
    apply s_op2_prefix; [apply IHa | apply IHb]; assumption.
  - destruct Hw1 as [Ha1 Hb1]. destruct Hw2 as [Ha2 Hb2].
    apply s_op2st_prefix; [apply IHa | apply IHb]; assumption.
  - destruct Hw1 as [Ha1 [Hb1 Hc1]]. destruct Hw2 as [Ha2 [Hb2 Hc2]].
    apply s_op3_prefix; [apply IHa | apply IHb | apply IHc]; assumption.
  - destruct Hw1 as [Ha1 [Hb1 Hc1]]. destruct Hw2 as [Ha2 [Hb2 Hc2]].
    apply s_op3st_prefix; [apply IHa | apply IHb | apply IHc]; assumption.
  - apply s_count_prefix. apply IH; assumption.
  - destruct Hw1 as [Hs1 He1]. destruct Hw2 as [Hs2 He2].
    apply s_seeded_scan_prefix; [apply IHseed | apply IH]; assumption.
  - destruct Hw1 as [Hc1 [Hs1 Hlen1]]. destruct Hw2 as [Hc2 [Hs2 _]].
    apply s_kama_tail_prefix; [apply IHcl; assumption | apply IHscs; assumption |].
    rewrite !sem_length. exact Hlen1.
  - destruct Hw1 as [_ Hw1]. destruct Hw2 as [_ Hw2].
    apply s_moving_std_prefix. apply IH; assumption.
  - apply s_buy_and_hold_prefix. apply IH; assumption.
Qed.

Theorem sem_prefix_kw : forall I A (e : expr I A) (env1 env2 : list (list I)),
  Forall2 prefix env1 env2 ->
  ekw e (map (@length _) env1) ->
  prefix (sem e env1) (sem e env2).
Proof.
  intros I A0 e env1 env2 Henv.
  induction e as
    [ k
    | X Y f e IH
    | X Y S s0 f e IH
    | X k e IH
    | X k fill e IH
    | X k e IH
    | X k e IH
    | X k e IH
    | X Y Z f a IHa b IHb
    | X Y Z S s0 f a IHa b IHb
    | X Y Z W f a IHa b IHb c IHc
    | X Y Z W S s0 f a IHa b IHb c IHc
    | T O N from e IH
    | T seed IHseed p step e IH
    | T N cl IHcl scs IHscs
    | T N p e IH
    | X Y buy hold e IH ]; cbn [sem ekw]; intros Hw1.
  - apply Forall2_prefix_nth. exact Henv.
  - apply prefix_map. apply IH; assumption.
  - apply s_mapst_prefix. apply IH; assumption.
  - apply s_skip_prefix. apply IH; assumption.
  - apply s_shift_prefix. apply IH; assumption.
  - apply s_head_prefix. apply IH; assumption.
  - apply s_first_prefix. apply IH; assumption.
  - apply s_buffered_prefix. apply IH; assumption.
  - destruct Hw1 as [Ha1 Hb1].
    apply s_op2_prefix; [apply IHa | apply IHb]; assumption.
  - destruct Hw1 as [Ha1 Hb1].
    apply s_op2st_prefix; [apply IHa | apply IHb]; assumption.
  - destruct Hw1 as [Ha1 [Hb1 Hc1]].
    apply s_op3_prefix; [apply IHa | apply IHb | apply IHc]; assumption.
  - destruct Hw1 as [Ha1 [Hb1 Hc1]].
    apply s_op3st_prefix; [apply IHa | apply IHb | apply IHc]; assumption.
  - apply s_count_prefix. apply IH; assumption.
  - destruct Hw1 as [Hs1 He1].
    apply s_seeded_scan_prefix; [apply IHseed | apply IH]; assumption.
  - destruct Hw1 as [Hc1 [Hs1 Hlen1]].
    apply s_kama_tail_prefix; [apply IHcl; assumption | apply IHscs; assumption |].
    rewrite !sem_length. exact Hlen1.
  - apply s_moving_std_prefix. apply IH; assumption.
  - apply s_buy_and_hold_prefix. apply IH; assumption.
Qed.


Lemma map_length_firstn {A} (m : nat) (env : list (list A)) :
  map (@length A) (map (firstn m) env) = map (fun l => Nat.min m (length l)) env.
Proof.
  rewrite map_map. apply map_ext. intros l. apply firstn_length.
Qed.

Corollary sem_causal : forall I A (e : expr I A) (env : list (list I)) (m : nat),
  ewf e (map (@length _) (map (firstn m) env)) -> ewf e (map (@length _) env) ->
  sem e (map (firstn m) env) =
  firstn (elen e (map (fun l => Nat.min m (length l)) env)) (sem e env).
Proof.
  intros I A0 e env m Hw1 Hw2.
  rewrite <- map_length_firstn, <- sem_length.
  apply prefix_firstn. apply sem_prefix; [apply Forall2_prefix_firstn | exact Hw1 | exact Hw2].
Qed.

Corollary sem_suffix_irrelevant : forall I A (e : expr I A) (env env' : list (list I)) (m : nat),
  map (firstn m) env = map (firstn m) env' ->
  ewf e (map (@length _) (map (firstn m) env)) -> ewf e (map (@length _) env) ->
  ewf e (map (@length _) (map (firstn m) env')) -> ewf e (map (@length _) env') ->
  firstn (elen e (map (fun l => Nat.min m (length l)) env)) (sem e env) =
  firstn (elen e (map (fun l => Nat.min m (length l)) env')) (sem e env').
Proof.
  intros I A0 e env env' m Heq Hw1 Hw2 Hw1' Hw2'.
  rewrite <- (sem_causal I A0 e env m Hw1 Hw2), <- (sem_causal I A0 e env' m Hw1' Hw2'), Heq.
  reflexivity.
Qed.

Print Assumptions sem_length.
Print Assumptions sem_prefix.
Print Assumptions sem_prefix_kw.
Print Assumptions sem_causal.
Print Assumptions sem_suffix_irrelevant.
