(* C04 vocabulary: exact-prefix (no look-ahead) statements derived from prefix-monotonicity of the
   expression semantics (sem_prefix_kw) and the length laws. *)
From Coq Require Import List ZArith Bool Lia.
Import ListNotations.
From Verif Require Import Base.Num Base.Stream Base.StreamProofs.

Lemma causal_of_len_kw {I A} (o : expr I A) (env : list (list I)) (m k : nat) :
  ekw o (map (@length _) (map (firstn m) env)) ->
  elen o (map (@length _) (map (firstn m) env)) = k ->
  sem o (map (firstn m) env) = firstn k (sem o env).
Proof.
  intros Hkw Hlen. rewrite <- Hlen, <- sem_length.
  apply prefix_firstn. apply sem_prefix_kw; [apply Forall2_prefix_firstn | exact Hkw].
Qed.

(* changing inputs after position m leaves the first outputs unchanged *)
Lemma suffix_irrelevant_of_len_kw {I A} (o : expr I A) (env env' : list (list I)) (m k : nat) :
  map (firstn m) env = map (firstn m) env' ->
  ekw o (map (@length _) (map (firstn m) env)) ->
  elen o (map (@length _) (map (firstn m) env)) = k ->
  firstn k (sem o env) = firstn k (sem o env').
Proof.
  intros Heq Hkw Hlen.
  rewrite <- (causal_of_len_kw o env m k Hkw Hlen).
  rewrite Heq in Hkw, Hlen. rewrite <- (causal_of_len_kw o env' m k Hkw Hlen). rewrite Heq. reflexivity.
Qed.

(* strategies: a function of the snapshot stream alone *)
Definition mono0 {S A} (F : expr S S -> expr S A) : Prop :=
  forall l1 l2 : list S, prefix l1 l2 -> prefix (sem (F (EIn 0)) [l1]) (sem (F (EIn 0)) [l2]).

Lemma mono0_of_kw {S A} (F : expr S S -> expr S A) :
  (forall ns, ekw (F (EIn 0)) ns) -> mono0 F.
Proof.
  intros H l1 l2 Hp. apply sem_prefix_kw; [constructor; [exact Hp | constructor] | apply H].
Qed.

Lemma mono0_exact {S A} (F : expr S S -> expr S A) (snaps : list S) (m : nat) :
  mono0 F -> length (sem (F (EIn 0)) [firstn m snaps]) = m ->
  sem (F (EIn 0)) [firstn m snaps] = firstn m (sem (F (EIn 0)) [snaps]).
Proof.
  intros Hm Hl. rewrite <- Hl at 2. apply prefix_firstn. apply Hm. apply firstn_prefix.
Qed.

Lemma in_len {A} (env : list (list A)) (m n i k : nat) :
  length env = k -> Forall (fun l => length l = n) env -> m <= n -> i < k ->
  nth i (map (@length A) (map (firstn m) env)) 0 = m.
Proof.
  intros Hk Hall Hmn. revert i k Hk. induction Hall as [|l env Hl _ IH]; intros i k Hk Hi; cbn [length] in Hk.
  - lia.
  - destruct i as [|i]; cbn [map nth].
    + rewrite firstn_length. lia.
    + apply (IH i (length env)); [reflexivity | lia].
Qed.

Lemma c04_combine {I A} (outs : list (expr I A)) (env : list (list I)) (m k : nat) :
  Forall (fun o => ekw o (map (@length _) (map (firstn m) env))) outs ->
  Forall (fun o => elen o (map (@length _) (map (firstn m) env)) = k) outs ->
  Forall (fun o => sem o (map (firstn m) env) = firstn k (sem o env)) outs.
Proof.
  induction outs as [|o outs IH]; intros Hk Hl; constructor.
  - apply causal_of_len_kw; [exact (Forall_inv Hk) | exact (Forall_inv Hl)].
  - apply IH; [exact (Forall_inv_tail Hk) | exact (Forall_inv_tail Hl)].
Qed.
