(* C10: the repositories as a map from asset name to the ordered list of snapshots appended so far.
   [spec_*]   the abstract specification (an association list from name to snapshots);
   [fs_*]     the file-system repository: a directory of files that are missing, zero-byte, or a header followed by rows,
              mirroring FileSystemRepository + helper.AppendOrWriteToCsvFile / ReadFromCsvFile;
   the in-memory repository is the specification itself (a Go map from name to slice, same code shape);
   the SQL repository over a conforming driver is a table of (name, snapshot) rows in insertion order.
   Names are natural-number identifiers; a snapshot is any type with a date. *)
From Coq Require Import List ZArith Bool Lia.
Import ListNotations.

Section Repo.
Context {S : Type} (date : S -> Z).

Inductive op := OAppend (name : nat) (l : list S) | OGet (name : nat) | OGetSince (name : nat) (d : Z) | OLastDate (name : nat) | OAssets.
Inductive obs := RUnit | RVals (l : list S) | RDate (d : Z) | RNames (l : list nat) | RErr.

(* association lists keyed by name, first binding wins; insertion keeps one binding per name *)
Fixpoint lookup {V} (k : nat) (m : list (nat * V)) : option V :=
  match m with [] => None | (k', v) :: m' => if Nat.eqb k k' then Some v else lookup k m' end.
Fixpoint update {V} (k : nat) (v : V) (m : list (nat * V)) : list (nat * V) :=
  match m with
  | [] => [(k, v)]
  | (k', v') :: m' => if Nat.eqb k k' then (k, v) :: m' else (k', v') :: update k v m'
  end.
Definition keys {V} (m : list (nat * V)) : list nat := map fst m.

Fixpoint insert_sorted (k : nat) (l : list nat) : list nat :=
  match l with [] => [k] | x :: l' => if Nat.leb k x then k :: l else x :: insert_sorted k l' end.
Definition sort_names (l : list nat) : list nat := fold_right insert_sorted [] l.

Definition since (d : Z) (l : list S) : list S := filter (fun s => Z.leb d (date s)) l.
Definition last_date (l : list S) : obs := match rev l with [] => RErr | s :: _ => RDate (date s) end.

(* ---- the specification ---- *)
Definition spec := list (nat * list S).
Definition spec_step (m : spec) (o : op) : spec * obs :=
  match o with
  | OAppend k l => (update k (match lookup k m with Some old => old ++ l | None => l end) m, RUnit)
  | OGet k => (m, match lookup k m with Some l => RVals l | None => RErr end)
  | OGetSince k d => (m, match lookup k m with Some l => RVals (since d l) | None => RErr end)
  | OLastDate k => (m, match lookup k m with Some l => last_date l | None => RErr end)
  | OAssets => (m, RNames (sort_names (keys m)))
  end.

(* a store that cannot represent an asset without snapshots (a table of rows): appending nothing leaves no trace *)
Definition rows_step (m : spec) (o : op) : spec * obs :=
  match o with
  | OAppend k [] => (m, RUnit)
  | _ => spec_step m o
  end.

Fixpoint run {St} (step : St -> op -> St * obs) (s : St) (h : list op) : list obs :=
  match h with [] => [] | o :: h' => let (s', r) := step s o in r :: run step s' h' end.
Fixpoint final {St} (step : St -> op -> St * obs) (s : St) (h : list op) : St :=
  match h with [] => s | o :: h' => final step (fst (step s o)) h' end.

(* ---- the file-system repository ---- *)
Inductive file := FZero | FRows (rows : list S).      (* zero-byte file | header line followed by rows *)
Definition fs := list (nat * file).
Definition rows_of (f : file) : list S := match f with FZero => [] | FRows r => r end.

Definition fs_step (m : fs) (o : op) : fs * obs :=
  match o with
  | OAppend k l =>
      (* AppendOrWriteToCsvFile: stat; missing or size 0 -> header + rows; otherwise append the rows *)
      (update k (match lookup k m with
                 | Some (FRows old) => FRows (old ++ l)
                 | Some FZero | None => FRows l
                 end) m, RUnit)
  | OGet k => (m, match lookup k m with Some f => RVals (rows_of f) | None => RErr end)
  | OGetSince k d => (m, match lookup k m with Some f => RVals (since d (rows_of f)) | None => RErr end)
  | OLastDate k => (m, match lookup k m with Some f => last_date (rows_of f) | None => RErr end)
  | OAssets => (m, RNames (sort_names (keys m)))
  end.

Definition abs_fs (m : fs) : spec := map (fun kf => (fst kf, rows_of (snd kf))) m.

Lemma lookup_abs k (m : fs) : lookup k (abs_fs m) = option_map rows_of (lookup k m).
Proof.
  unfold abs_fs. induction m as [|[k' f] m IH]; cbn [lookup map fst snd option_map]; [reflexivity|].
  destruct (Nat.eqb k k'); [reflexivity | exact IH].
Qed.

Lemma update_abs k f (m : fs) : abs_fs (update k f m) = update k (rows_of f) (abs_fs m).
Proof.
  unfold abs_fs. induction m as [|[k' f'] m IH]; cbn [update map fst snd]; [reflexivity|].
  destruct (Nat.eqb k k'); cbn [map fst snd]; [reflexivity | rewrite IH; reflexivity].
Qed.

Lemma keys_abs (m : fs) : keys (abs_fs m) = keys m.
Proof. unfold keys, abs_fs. rewrite map_map. reflexivity. Qed.

Lemma fs_step_refines (m : fs) (o : op) :
  snd (fs_step m o) = snd (spec_step (abs_fs m) o) /\ abs_fs (fst (fs_step m o)) = fst (spec_step (abs_fs m) o).
Proof.
  destruct o as [k l|k|k d|k|]; cbn [fs_step spec_step fst snd]; rewrite ?lookup_abs, ?keys_abs.
  - split; [reflexivity|]. rewrite update_abs. f_equal.
    destruct (lookup k m) as [[|old]|]; reflexivity.
  - split; [destruct (lookup k m); reflexivity | reflexivity].
  - split; [destruct (lookup k m); reflexivity | reflexivity].
  - split; [destruct (lookup k m); reflexivity | reflexivity].
  - split; reflexivity.
Qed.

(* C10: for every operation history the file-system repository is observationally equivalent to the map *)
Theorem fs_refines_spec (h : list op) (m : fs) : run fs_step m h = run spec_step (abs_fs m) h.
Proof.
  revert m. induction h as [|o h IH]; intros m; cbn [run]; [reflexivity|].
  destruct (fs_step_refines m o) as [Hobs Habs].
  destruct (fs_step m o) as [m' r] eqn:E1. destruct (spec_step (abs_fs m) o) as [s' r'] eqn:E2.
  cbn [fst snd] in *. subst. f_equal. apply IH.
Qed.

(* ---- what the specification says, as laws ---- *)
Lemma lookup_update_same {V} k (v : V) m : lookup k (update k v m) = Some v.
Proof. induction m as [|[k' v'] m IH]; cbn; [rewrite Nat.eqb_refl; reflexivity|]. destruct (Nat.eqb k k') eqn:E; cbn; rewrite ?Nat.eqb_refl, ?E; auto. Qed.
Lemma lookup_update_other {V} k k' (v : V) m : k <> k' -> lookup k' (update k v m) = lookup k' m.
Proof.
  intros Hne. induction m as [|[k'' v''] m IH]; cbn.
  - destruct (Nat.eqb_spec k' k); [congruence | reflexivity].
  - destruct (Nat.eqb_spec k k''); cbn.
    + subst. destruct (Nat.eqb_spec k' k''); [congruence | reflexivity].
    + destruct (Nat.eqb k' k''); [reflexivity | exact IH].
Qed.

(* an Append that has returned is visible to every later read: Get returns everything appended so far, in order *)
Theorem append_then_get (m : spec) k l :
  snd (spec_step (fst (spec_step m (OAppend k l))) (OGet k)) =
  RVals (match lookup k m with Some old => old ++ l | None => l end).
Proof. cbn. rewrite lookup_update_same. reflexivity. Qed.

Theorem append_other_untouched (m : spec) k k' l : k <> k' ->
  snd (spec_step (fst (spec_step m (OAppend k l))) (OGet k')) = snd (spec_step m (OGet k')).
Proof. intros H. cbn. rewrite lookup_update_other by exact H. reflexivity. Qed.

Theorem get_since_is_filter (m : spec) k d l : lookup k m = Some l ->
  snd (spec_step m (OGetSince k d)) = RVals (filter (fun s => Z.leb d (date s)) l).
Proof. intros H. cbn. rewrite H. reflexivity. Qed.

Theorem last_date_is_last (m : spec) k l s : lookup k m = Some (l ++ [s]) -> snd (spec_step m (OLastDate k)) = RDate (date s).
Proof. intros H. cbn. rewrite H. unfold last_date. rewrite rev_app_distr. reflexivity. Qed.

Theorem unknown_asset_errors (m : spec) k d : lookup k m = None ->
  snd (spec_step m (OGet k)) = RErr /\ snd (spec_step m (OGetSince k d)) = RErr /\ snd (spec_step m (OLastDate k)) = RErr.
Proof. intros H. cbn. rewrite H. auto. Qed.

Theorem empty_asset_last_date_errors (m : spec) k : lookup k m = Some [] -> snd (spec_step m (OLastDate k)) = RErr.
Proof. intros H. cbn. rewrite H. reflexivity. Qed.

Lemma In_keys_update {V} k k' (v : V) m : In k' (keys (update k v m)) <-> k' = k \/ In k' (keys m).
Proof.
  induction m as [|[k'' v''] m IH]; cbn; [intuition|].
  destruct (Nat.eqb_spec k k''); cbn; [subst; intuition | rewrite IH; intuition].
Qed.

(* Assets lists exactly the names that were appended *)
Theorem assets_are_appended_names (h : list op) (k : nat) :
  In k (keys (final spec_step [] h)) <-> exists l, In (OAppend k l) h.
Proof.
  assert (H : forall m, In k (keys (final spec_step m h)) <-> In k (keys m) \/ exists l, In (OAppend k l) h).
  { induction h as [|o h IH]; intros m; cbn [final].
    - split; [auto | intros [H|[l []]]; exact H].
    - rewrite IH. destruct o as [k' l'|k'|k' d|k'|]; cbn [spec_step fst].
      + rewrite In_keys_update. split.
        * intros [[->|H]|[l H]]; [right; exists l'; left; reflexivity | left; exact H | right; exists l; right; exact H].
        * intros [H|[l [H|H]]]; [left; right; exact H | left; left; congruence | right; exists l; exact H].
      + split; [intros [H|[l H]]; [auto | right; exists l; right; exact H] | intros [H|[l [H|H]]]; [auto | discriminate | right; exists l; exact H]].
      + split; [intros [H|[l H]]; [auto | right; exists l; right; exact H] | intros [H|[l [H|H]]]; [auto | discriminate | right; exists l; exact H]].
      + split; [intros [H|[l H]]; [auto | right; exists l; right; exact H] | intros [H|[l [H|H]]]; [auto | discriminate | right; exists l; exact H]].
      + split; [intros [H|[l H]]; [auto | right; exists l; right; exact H] | intros [H|[l [H|H]]]; [auto | discriminate | right; exists l; exact H]]. }
  rewrite H. cbn. intuition.
Qed.
End Repo.
