(* C01, documented formulas of the composite TREND indicators (real-number instance).

   For every indicator X below:   sem (X_Compute cfg inputs) = tab (idle period) (input length) (X_doc cfg inputs)
   i.e. the generated definition reports, for every absolute input position i from the idle period on, exactly the value
   of the documented formula at position i.

   Vocabulary: that of Spec/Window.v (at_, wsum, wmean, tab, seeded_rec, ema_doc), plus its position-function
   counterparts defined in section "Series given as functions of the absolute position" (fsum, fmean, fseeded, fema):
   an indicator applied to the OUTPUT of another indicator sees a series that only exists from some position w on;
   [fema w p s f] is the documented EMA of the series f(w), f(w+1), ... reported at absolute positions. *)
From Coq Require Import List ZArith Bool Lia Reals Lra.
Import ListNotations.
From Verif Require Import Base.Num Base.Stream Base.StreamProofs Base.GenPrelude Gen.All Spec.Window.
From Verif Require Prim.MovingSumProofs Prim.SeededProofs.
Local Open Scope R_scope.

(* ------------------------------------------------------------------------------------------ *)
(* 1. The alignment calculus on [tab] *)

Lemma tab_length (w n : nat) (f : nat -> R) : length (tab w n f) = (n - w)%nat.
Proof. unfold tab. rewrite map_length, seq_length. reflexivity. Qed.

Lemma tab_ext (w n : nat) (f g : nat -> R) :
  (forall i, (w <= i < n)%nat -> f i = g i) -> tab w n f = tab w n g.
Proof.
  intros H. unfold tab. apply map_ext_in. intros i Hi. apply in_seq in Hi. apply H. lia.
Qed.

Lemma tab_empty (w n : nat) (f : nat -> R) : (n <= w)%nat -> tab w n f = [].
Proof. intros H. unfold tab. replace (n - w)%nat with 0%nat by lia. reflexivity. Qed.

Lemma skipn_seq (k : nat) : forall s len, skipn k (seq s len) = seq (s + k) (len - k).
Proof.
  induction k as [|k IH]; intros s len.
  - rewrite Nat.add_0_r, Nat.sub_0_r. reflexivity.
  - destruct len as [|len]; [reflexivity|]. cbn [seq skipn]. rewrite IH. f_equal; lia.
Qed.

Lemma tab_skipn (k w n : nat) (f : nat -> R) : skipn k (tab w n f) = tab (w + k) n f.
Proof.
  unfold tab. rewrite skipn_map, skipn_seq. do 2 f_equal. lia.
Qed.

Lemma tab_skip (k : Z) (w n : nat) (f : nat -> R) : s_skip k (tab w n f) = tab (w + Z.to_nat k) n f.
Proof. unfold s_skip. apply tab_skipn. Qed.

Lemma tab_map (g : R -> R) (w n : nat) (f : nat -> R) : map g (tab w n f) = tab w n (fun i => g (f i)).
Proof. unfold tab. rewrite map_map. reflexivity. Qed.

(* a list is the table of its own positions *)
Lemma list_tab (xs : list R) : xs = tab 0 (length xs) (at_ xs).
Proof.
  unfold tab. rewrite Nat.sub_0_r.
  apply (nth_ext _ _ 0 (at_ xs 0%nat)).
  - rewrite map_length, seq_length. reflexivity.
  - intros i Hi. rewrite (map_nth (at_ xs)), seq_nth by exact Hi. reflexivity.
Qed.

Lemma at_tab (w n : nat) (f : nat -> R) (j : nat) : (w + j < n)%nat -> at_ (tab w n f) j = f (w + j)%nat.
Proof.
  intros H. unfold at_, tab.
  rewrite (nth_indep _ 0 (f 0%nat)) by (rewrite map_length, seq_length; lia).
  rewrite (map_nth f), seq_nth by lia. reflexivity.
Qed.

(* pairing two tables by index: the streams are consumed in lockstep, so value number j of the one meets value number j
   of the other whatever positions they stand for *)
Lemma s_op2_map_seq (g : R -> R -> R) (f1 f2 : nat -> R) : forall (k1 a b k2 : nat),
  s_op2 g (map f1 (seq a k1)) (map f2 (seq b k2))
  = map (fun j => g (f1 (a + j)%nat) (f2 (b + j)%nat)) (seq 0 (Nat.min k1 k2)).
Proof.
  induction k1 as [|k1 IH]; intros a b k2; [reflexivity|].
  destruct k2 as [|k2]; [reflexivity|].
  cbn [seq map s_op2 Nat.min]. rewrite !Nat.add_0_r. f_equal.
  rewrite IH, <- seq_shift, map_map. apply map_ext. intros j. f_equal; f_equal; lia.
Qed.

Lemma map_seq_shift (h : nat -> R) (c m : nat) : map (fun j => h (c + j)%nat) (seq 0 m) = map h (seq c m).
Proof.
  revert c. induction m as [|m IH]; intros c; [reflexivity|].
  cbn [seq map]. rewrite Nat.add_0_r. f_equal.
  rewrite <- seq_shift, map_map. rewrite <- (IH (S c)). apply map_ext. intros j. f_equal. lia.
Qed.

(* general form: the result starts at the later of the two offsets; each side is read d positions earlier than
   the position its partner stands for, d the difference of the offsets *)
Lemma tab_op2_gen (g : R -> R -> R) (w1 w2 n : nat) (f1 f2 : nat -> R) :
  s_op2 g (tab w1 n f1) (tab w2 n f2)
  = tab (Nat.max w1 w2) n
        (fun i => g (f1 (i - (Nat.max w1 w2 - w1))%nat) (f2 (i - (Nat.max w1 w2 - w2))%nat)).
Proof.
  unfold tab. rewrite s_op2_map_seq.
  replace (Nat.min (n - w1) (n - w2)) with (n - Nat.max w1 w2)%nat by lia.
  rewrite <- (map_seq_shift _ (Nat.max w1 w2)).
  apply map_ext. intros j. f_equal; f_equal; lia.
Qed.

(* equal offsets: positionwise *)
Lemma tab_op2 (g : R -> R -> R) (w n : nat) (f1 f2 : nat -> R) :
  s_op2 g (tab w n f1) (tab w n f2) = tab w n (fun i => g (f1 i) (f2 i)).
Proof.
  rewrite tab_op2_gen, Nat.max_id. apply tab_ext. intros i Hi.
  rewrite Nat.sub_diag, Nat.sub_0_r. reflexivity.
Qed.

(* the second operand starts d positions later *)
Lemma tab_op2_late_r (g : R -> R -> R) (w d n : nat) (f1 f2 : nat -> R) :
  s_op2 g (tab w n f1) (tab (w + d) n f2) = tab (w + d) n (fun i => g (f1 (i - d)%nat) (f2 i)).
Proof.
  rewrite tab_op2_gen. replace (Nat.max w (w + d)) with (w + d)%nat by lia.
  apply tab_ext. intros i Hi. f_equal; f_equal; lia.
Qed.

(* the first operand starts d positions later *)
Lemma tab_op2_late_l (g : R -> R -> R) (w d n : nat) (f1 f2 : nat -> R) :
  s_op2 g (tab (w + d) n f1) (tab w n f2) = tab (w + d) n (fun i => g (f1 i) (f2 (i - d)%nat)).
Proof.
  rewrite tab_op2_gen. replace (Nat.max (w + d) w) with (w + d)%nat by lia.
  apply tab_ext. intros i Hi. f_equal; f_equal; lia.
Qed.

Lemma s_op3_map_seq (g : R -> R -> R -> R) (f1 f2 f3 : nat -> R) : forall (k a : nat),
  s_op3 g (map f1 (seq a k)) (map f2 (seq a k)) (map f3 (seq a k))
  = map (fun i => g (f1 i) (f2 i) (f3 i)) (seq a k).
Proof.
  induction k as [|k IH]; intros a; [reflexivity|].
  cbn [seq map s_op3]. f_equal. apply IH.
Qed.

Lemma tab_op3 (g : R -> R -> R -> R) (w n : nat) (f1 f2 f3 : nat -> R) :
  s_op3 g (tab w n f1) (tab w n f2) (tab w n f3) = tab w n (fun i => g (f1 i) (f2 i) (f3 i)).
Proof. unfold tab. apply s_op3_map_seq. Qed.

(* a table of relative positions is a table of absolute positions *)
Lemma tab_reindex (w a n : nat) (g : nat -> R) :
  tab a (n - w) g = tab (w + a) n (fun i => g (i - w)%nat).
Proof.
  unfold tab. replace (n - (w + a))%nat with (n - w - a)%nat by lia.
  rewrite <- (map_seq_shift g a), <- (map_seq_shift (fun i => g (i - w)%nat) (w + a)).
  apply map_ext. intros j. f_equal. lia.
Qed.

(* ------------------------------------------------------------------------------------------ *)
(* 2. Series given as functions of the absolute position *)

(* sum / mean of the p values f(i+1-p) .. f(i) *)
Definition fsum (p : nat) (f : nat -> R) (i : nat) : R := Rsum (map f (seq (i + 1 - p) p)).
Definition fmean (p : nat) (f : nat -> R) (i : nat) : R := fsum p f i / INR p.

(* the seeded recurrence over a series that starts at position w: the first value, at position w+p-1, is the mean of
   f(w) .. f(w+p-1);   r i = step (r (i-1)) (f i)  for i >= w+p *)
Fixpoint fseeded (w p : nat) (step : R -> R -> R) (f : nat -> R) (i : nat) : R :=
  match i with
  | O => fmean p f (w + p - 1)
  | S i' => if Nat.leb (w + p) i then step (fseeded w p step f i') (f i) else fmean p f (w + p - 1)
  end.

(* the documented EMA of the series f(w), f(w+1), ... *)
Definition fema (w p : nat) (smoothing : R) (f : nat -> R) (i : nat) : R :=
  fseeded w p (ema_step (smoothing / (INR p + 1))) f i.

(* on a whole input list these are the notions of Spec/Window.v *)
Lemma fsum_at (p : nat) (xs : list R) (i : nat) : fsum p (at_ xs) i = wsum p xs i.
Proof. reflexivity. Qed.
Lemma fmean_at (p : nat) (xs : list R) (i : nat) : fmean p (at_ xs) i = wmean p xs i.
Proof. reflexivity. Qed.
Lemma fseeded_at (p : nat) (step : R -> R -> R) (xs : list R) (i : nat) :
  fseeded 0 p step (at_ xs) i = seeded_rec p step xs i.
Proof.
  induction i as [|i IH]; [reflexivity|].
  cbn [fseeded seeded_rec Nat.add]. rewrite IH. reflexivity.
Qed.
Lemma fema_at (p : nat) (s : R) (xs : list R) (i : nat) : fema 0 p s (at_ xs) i = ema_doc p s xs i.
Proof. apply fseeded_at. Qed.

Lemma fsum_ext (p : nat) (f g : nat -> R) (i : nat) :
  (forall k, (i + 1 - p <= k < i + 1 - p + p)%nat -> f k = g k) -> fsum p f i = fsum p g i.
Proof.
  intros H. unfold fsum. f_equal. apply map_ext_in. intros k Hk. apply in_seq in Hk. apply H. lia.
Qed.

Lemma fseeded_seed (w p : nat) (step : R -> R -> R) (f : nat -> R) :
  fseeded w p step f (w + p - 1) = fmean p f (w + p - 1).
Proof.
  destruct (w + p - 1)%nat as [|i] eqn:E; [cbn [fseeded]; rewrite E; reflexivity|].
  cbn [fseeded]. destruct (Nat.leb_spec (w + p) (S i)); [lia|rewrite E; reflexivity].
Qed.

Lemma fseeded_step (w p : nat) (step : R -> R -> R) (f : nat -> R) (i : nat) :
  (w + p <= S i)%nat -> fseeded w p step f (S i) = step (fseeded w p step f i) (f (S i)).
Proof.
  intros H. cbn [fseeded]. destruct (Nat.leb_spec (w + p) (S i)); [reflexivity|lia].
Qed.

(* the window of a table *)
Lemma map_seq_add (w c p : nat) : map (fun k => (w + k)%nat) (seq c p) = seq (w + c) p.
Proof.
  revert c. induction p as [|p IH]; intros c; [reflexivity|].
  cbn [seq map]. f_equal. rewrite IH. f_equal. lia.
Qed.

Lemma window_tab (p w n : nat) (f : nat -> R) (j : nat) :
  (p <= j + 1)%nat -> (w + j < n)%nat ->
  window p (tab w n f) j = map f (seq (w + j + 1 - p) p).
Proof.
  intros Hp Hj. unfold window.
  replace (w + j + 1 - p)%nat with (w + (j + 1 - p))%nat by lia.
  rewrite <- map_seq_add, map_map.
  apply map_ext_in. intros k Hk. apply in_seq in Hk. apply at_tab. lia.
Qed.

Lemma wsum_tab (p w n : nat) (f : nat -> R) (j : nat) :
  (p <= j + 1)%nat -> (w + j < n)%nat -> wsum p (tab w n f) j = fsum p f (w + j).
Proof. intros Hp Hj. unfold wsum, fsum. rewrite window_tab by assumption. reflexivity. Qed.

Lemma wmean_tab (p w n : nat) (f : nat -> R) (j : nat) :
  (p <= j + 1)%nat -> (w + j < n)%nat -> wmean p (tab w n f) j = fmean p f (w + j).
Proof. intros Hp Hj. unfold wmean, fmean. rewrite wsum_tab by assumption. reflexivity. Qed.

Lemma seeded_rec_tab (p w n : nat) (step : R -> R -> R) (f : nat -> R) : forall d : nat,
  (1 <= p)%nat -> (w + (p - 1 + d) < n)%nat ->
  seeded_rec p step (tab w n f) (p - 1 + d) = fseeded w p step f (w + (p - 1 + d)).
Proof.
  induction d as [|d IH]; intros Hp Hn.
  - rewrite Nat.add_0_r. rewrite SeededProofs.seeded_rec_seed.
    replace (w + (p - 1))%nat with (w + p - 1)%nat by lia.
    rewrite fseeded_seed. rewrite wmean_tab by lia. f_equal. lia.
  - replace (p - 1 + S d)%nat with (S (p - 1 + d)) by lia.
    rewrite SeededProofs.seeded_rec_step by lia.
    replace (w + S (p - 1 + d))%nat with (S (w + (p - 1 + d))) by lia.
    rewrite fseeded_step by lia.
    rewrite IH by lia. f_equal. rewrite at_tab by lia. f_equal. lia.
Qed.

(* ------------------------------------------------------------------------------------------ *)
(* 3. The primitives applied to a table (the output of another indicator) *)

Lemma sum_on_tab {I} (p : Z) (e : expr I R) (env : list (list I)) (w n : nat) (f : nat -> R) :
  (1 <= p)%Z -> sem e env = tab w n f ->
  sem (trend_MovingSum_Compute (T:=R) (mk_trend_MovingSum p) e) env
  = tab (w + (Z.to_nat p - 1)) n (fsum (Z.to_nat p) f).
Proof.
  intros Hp He. rewrite MovingSumProofs.moving_sum_is_window_sum_expr by exact Hp.
  rewrite He, tab_length, tab_reindex. apply tab_ext. intros i Hi.
  replace i with (w + (i - w))%nat at 2 by lia. apply wsum_tab; lia.
Qed.

Lemma sma_on_tab {I} (p : Z) (e : expr I R) (env : list (list I)) (w n : nat) (f : nat -> R) :
  (1 <= p)%Z -> sem e env = tab w n f ->
  sem (trend_Sma_Compute (T:=R) (mk_trend_Sma p) e) env
  = tab (w + (Z.to_nat p - 1)) n (fmean (Z.to_nat p) f).
Proof.
  intros Hp He. rewrite MovingSumProofs.sma_is_window_mean_expr by exact Hp.
  rewrite He, tab_length, tab_reindex. apply tab_ext. intros i Hi.
  replace i with (w + (i - w))%nat at 2 by lia. apply wmean_tab; lia.
Qed.

Lemma ema_on_tab {I} (p : Z) (s : R) (e : expr I R) (env : list (list I)) (w n : nat) (f : nat -> R) :
  (1 <= p)%Z -> sem e env = tab w n f ->
  sem (trend_Ema_Compute (T:=R) (mk_trend_Ema p s) e) env
  = tab (w + (Z.to_nat p - 1)) n (fema w (Z.to_nat p) s f).
Proof.
  intros Hp He. rewrite SeededProofs.ema_is_documented_gen by exact Hp.
  rewrite He, tab_length, tab_reindex. apply tab_ext. intros i Hi.
  unfold ema_doc, fema.
  replace (i - w)%nat with (Z.to_nat p - 1 + (i - w - (Z.to_nat p - 1)))%nat by lia.
  rewrite seeded_rec_tab by lia. f_equal. lia.
Qed.

(* an input list as a table *)
Lemma sem_in_tab (k : nat) (env : list (list R)) : sem (EIn k) env = tab 0 (length (nth k env [])) (at_ (nth k env [])).
Proof. cbn [sem]. apply list_tab. Qed.

(* ------------------------------------------------------------------------------------------ *)
(* 4. Positionwise indicators *)

(* trend/typical_price.go:   Typical Price = (High + Low + Closing) / 3 *)
Definition TypicalPrice_doc (hs ls cs : list R) (i : nat) : R := (at_ hs i + at_ ls i + at_ cs i) / 3.

Lemma typical_on_tab {I} (cfg : trend_TypicalPrice) (eh el ec : expr I R) (env : list (list I)) (w n : nat) (fh fl fc : nat -> R) :
  sem eh env = tab w n fh -> sem el env = tab w n fl -> sem ec env = tab w n fc ->
  sem (trend_TypicalPrice_Compute (T:=R) cfg eh el ec) env = tab w n (fun i => (fh i + fl i + fc i) / 3).
Proof.
  intros Hh Hl Hc.
  change (sem (trend_TypicalPrice_Compute (T:=R) cfg eh el ec) env)
    with (map (fun x => x / 3) (s_op2 Rplus (s_op2 Rplus (sem eh env) (sem el env)) (sem ec env))).
  rewrite Hh, Hl, Hc, !tab_op2, tab_map. reflexivity.
Qed.

(* TypicalPrice has no IdlePeriod method; the formula is positionwise, so the warm-up is 0 *)
Theorem TypicalPrice_documented (cfg : trend_TypicalPrice) (hs ls cs : list R) :
  length ls = length hs -> length cs = length hs ->
  sem (trend_TypicalPrice_Compute (T:=R) cfg (EIn 0) (EIn 1) (EIn 2)) [hs; ls; cs]
  = tab 0 (length hs) (TypicalPrice_doc hs ls cs).
Proof.
  intros Hl Hc.
  apply (typical_on_tab cfg (EIn 0) (EIn 1) (EIn 2) [hs; ls; cs] 0 (length hs) (at_ hs) (at_ ls) (at_ cs)).
  - apply list_tab.
  - cbn [sem nth]. rewrite <- Hl. apply list_tab.
  - cbn [sem nth]. rewrite <- Hc. apply list_tab.
Qed.

(* trend/weighted_close.go:   Weighted Close = (High + Low + (Close * 2)) / 4 *)
Definition WeightedClose_doc (hs ls cs : list R) (i : nat) : R := (at_ hs i + at_ ls i + at_ cs i * 2) / 4.

Theorem WeightedClose_documented (cfg : trend_WeightedClose) (hs ls cs : list R) :
  length ls = length hs -> length cs = length hs ->
  sem (trend_WeightedClose_Compute (T:=R) cfg (EIn 0) (EIn 1) (EIn 2)) [hs; ls; cs]
  = tab (Z.to_nat (trend_WeightedClose_IdlePeriod cfg)) (length hs) (WeightedClose_doc hs ls cs).
Proof.
  intros Hl Hc.
  change (sem (trend_WeightedClose_Compute (T:=R) cfg (EIn 0) (EIn 1) (EIn 2)) [hs; ls; cs])
    with (s_op3 (fun h l c => (h + l + c * 2) / 4) hs ls cs).
  change (Z.to_nat (trend_WeightedClose_IdlePeriod cfg)) with 0%nat.
  rewrite (list_tab hs) at 1. rewrite (list_tab ls) at 1. rewrite (list_tab cs) at 1.
  rewrite Hl, Hc, tab_op3. reflexivity.
Qed.

(* trend/bop.go:   Formula: BOP = (Closing - Opening) / (High - Low) *)
Definition Bop_doc (os hs ls cs : list R) (i : nat) : R := (at_ cs i - at_ os i) / (at_ hs i - at_ ls i).

(* Bop has no IdlePeriod method; the formula is positionwise, so the warm-up is 0 *)
Theorem Bop_documented (cfg : trend_Bop) (os hs ls cs : list R) :
  length hs = length os -> length ls = length os -> length cs = length os ->
  sem (trend_Bop_Compute (T:=R) cfg (EIn 0) (EIn 1) (EIn 2) (EIn 3)) [os; hs; ls; cs]
  = tab 0 (length os) (Bop_doc os hs ls cs).
Proof.
  intros Hh Hl Hc.
  change (sem (trend_Bop_Compute (T:=R) cfg (EIn 0) (EIn 1) (EIn 2) (EIn 3)) [os; hs; ls; cs])
    with (s_op2 Rdiv (s_op2 Rminus cs os) (s_op2 Rminus hs ls)).
  rewrite (list_tab os) at 1. rewrite (list_tab hs) at 1. rewrite (list_tab ls) at 1. rewrite (list_tab cs) at 1.
  rewrite Hh, Hl, Hc, !tab_op2. reflexivity.
Qed.

(* ------------------------------------------------------------------------------------------ *)
(* 5. EMA with a configuration record *)

Definition eP (c : trend_Ema (T:=R)) : nat := Z.to_nat (trend_Ema_Period c).
Definition eS (c : trend_Ema (T:=R)) : R := trend_Ema_Smoothing c.

Lemma ema_top {I} (c : trend_Ema (T:=R)) (e : expr I R) (env : list (list I)) :
  (1 <= trend_Ema_Period c)%Z ->
  sem (trend_Ema_Compute c e) env = tab (eP c - 1) (length (sem e env)) (ema_doc (eP c) (eS c) (sem e env)).
Proof. destruct c as [p s]. intros Hp. exact (SeededProofs.ema_is_documented_gen p s I e env Hp). Qed.

Lemma ema_nested {I} (c : trend_Ema (T:=R)) (e : expr I R) (env : list (list I)) (w n : nat) (f : nat -> R) :
  (1 <= trend_Ema_Period c)%Z -> sem e env = tab w n f ->
  sem (trend_Ema_Compute c e) env = tab (w + (eP c - 1)) n (fema w (eP c) (eS c) f).
Proof. destruct c as [p s]. intros Hp He. exact (ema_on_tab p s e env w n f Hp He). Qed.

(* ------------------------------------------------------------------------------------------ *)
(* 6. MACD *)

(* trend/macd.go:
     MACD = 12-Period EMA - 26-Period EMA.
     Signal = 9-Period EMA of MACD.
   (12, 26, 9 are the default periods of Ema1, Ema2, Ema3.)  The MACD line exists from position period2-1 on; the signal
   is the EMA of that series, so it exists from position period2-1 + period3-1 on, the idle period; the MACD output is
   reported from the same position on. *)
Definition Macd_line_doc (m : trend_Macd (T:=R)) (xs : list R) (i : nat) : R :=
  ema_doc (eP (trend_Macd_Ema1 m)) (eS (trend_Macd_Ema1 m)) xs i
  - ema_doc (eP (trend_Macd_Ema2 m)) (eS (trend_Macd_Ema2 m)) xs i.
Definition Macd_signal_doc (m : trend_Macd (T:=R)) (xs : list R) (i : nat) : R :=
  fema (eP (trend_Macd_Ema2 m) - 1) (eP (trend_Macd_Ema3 m)) (eS (trend_Macd_Ema3 m)) (Macd_line_doc m xs) i.

Definition Macd_admissible (m : trend_Macd (T:=R)) : Prop :=
  (1 <= trend_Ema_Period (trend_Macd_Ema1 m))%Z
  /\ (trend_Ema_Period (trend_Macd_Ema1 m) <= trend_Ema_Period (trend_Macd_Ema2 m))%Z     (* fast <= slow *)
  /\ (1 <= trend_Ema_Period (trend_Macd_Ema3 m))%Z.

(* the MACD line before the final Skip *)
Lemma macd_line_tab {I} (m : trend_Macd (T:=R)) (e : expr I R) (env : list (list I)) :
  Macd_admissible m ->
  s_op2 Rminus
    (s_skip (trend_Ema_Period (trend_Macd_Ema2 m) - trend_Ema_Period (trend_Macd_Ema1 m))
            (sem (trend_Ema_Compute (trend_Macd_Ema1 m) e) env))
    (sem (trend_Ema_Compute (trend_Macd_Ema2 m) e) env)
  = tab (eP (trend_Macd_Ema2 m) - 1) (length (sem e env)) (Macd_line_doc m (sem e env)).
Proof.
  intros (H1 & H12 & H3).
  rewrite !ema_top by lia. rewrite tab_skip.
  replace (eP (trend_Macd_Ema1 m) - 1
           + Z.to_nat (trend_Ema_Period (trend_Macd_Ema2 m) - trend_Ema_Period (trend_Macd_Ema1 m)))%nat
    with (eP (trend_Macd_Ema2 m) - 1)%nat by (unfold eP; lia).
  rewrite tab_op2. reflexivity.
Qed.

Lemma macd_idle (m : trend_Macd (T:=R)) : Macd_admissible m ->
  Z.to_nat (trend_Macd_IdlePeriod m) = (eP (trend_Macd_Ema2 m) - 1 + (eP (trend_Macd_Ema3 m) - 1))%nat.
Proof. intros (H1 & H12 & H3). unfold trend_Macd_IdlePeriod, eP. lia. Qed.

Theorem Macd_macd_documented_gen {I} (m : trend_Macd (T:=R)) (e : expr I R) (env : list (list I)) :
  Macd_admissible m ->
  sem (fst (trend_Macd_Compute m e)) env
  = tab (Z.to_nat (trend_Macd_IdlePeriod m)) (length (sem e env)) (Macd_line_doc m (sem e env)).
Proof.
  intros Hm.
  change (sem (fst (trend_Macd_Compute m e)) env)
    with (s_skip (trend_Ema_Period (trend_Macd_Ema3 m) - 1)
            (s_op2 Rminus
               (s_skip (trend_Ema_Period (trend_Macd_Ema2 m) - trend_Ema_Period (trend_Macd_Ema1 m))
                       (sem (trend_Ema_Compute (trend_Macd_Ema1 m) e) env))
               (sem (trend_Ema_Compute (trend_Macd_Ema2 m) e) env))).
  rewrite macd_line_tab by exact Hm. rewrite tab_skip, macd_idle by exact Hm.
  destruct Hm as (H1 & H12 & H3). f_equal. unfold eP. lia.
Qed.

Theorem Macd_signal_documented_gen {I} (m : trend_Macd (T:=R)) (e : expr I R) (env : list (list I)) :
  Macd_admissible m ->
  sem (snd (trend_Macd_Compute m e)) env
  = tab (Z.to_nat (trend_Macd_IdlePeriod m)) (length (sem e env)) (Macd_signal_doc m (sem e env)).
Proof.
  intros Hm.
  change (snd (trend_Macd_Compute m e))
    with (trend_Ema_Compute (trend_Macd_Ema3 m)
            (helper_Subtract
               (ESkip (trend_Ema_Period (trend_Macd_Ema2 m) - trend_Ema_Period (trend_Macd_Ema1 m))
                      (trend_Ema_Compute (trend_Macd_Ema1 m) e))
               (trend_Ema_Compute (trend_Macd_Ema2 m) e))).
  rewrite macd_idle by exact Hm.
  apply ema_nested; [destruct Hm as (_ & _ & H3); exact H3|].
  exact (macd_line_tab m e env Hm).
Qed.

Theorem Macd_macd_documented (m : trend_Macd (T:=R)) (xs : list R) :
  Macd_admissible m ->
  sem (fst (trend_Macd_Compute m (EIn 0))) [xs] = tab (Z.to_nat (trend_Macd_IdlePeriod m)) (length xs) (Macd_line_doc m xs).
Proof. exact (Macd_macd_documented_gen m (EIn 0) [xs]). Qed.

Theorem Macd_signal_documented (m : trend_Macd (T:=R)) (xs : list R) :
  Macd_admissible m ->
  sem (snd (trend_Macd_Compute m (EIn 0))) [xs] = tab (Z.to_nat (trend_Macd_IdlePeriod m)) (length xs) (Macd_signal_doc m xs).
Proof. exact (Macd_signal_documented_gen m (EIn 0) [xs]). Qed.

(* ------------------------------------------------------------------------------------------ *)
(* 7. TRIMA *)

(* trend/trima.go:
     If period is even:   TRIMA = SMA(period / 2, SMA((period / 2) + 1, values))
     If period is odd:    TRIMA = SMA((period + 1) / 2, SMA((period + 1) / 2, values))
   The inner SMA exists from position q2-1 on; the outer SMA is the mean of its last q1 values. *)
Definition Trima_periods_doc (period : Z) : Z * Z :=
  if Z.even period then (period / 2, period / 2 + 1)%Z else ((period + 1) / 2, (period + 1) / 2)%Z.
Definition Trima_doc (t : trend_Trima) (xs : list R) (i : nat) : R :=
  let '(q1, q2) := Trima_periods_doc (trend_Trima_Period t) in
  fmean (Z.to_nat q1) (wmean (Z.to_nat q2) xs) i.

Lemma trima_periods (t : trend_Trima) : (1 <= trend_Trima_Period t)%Z ->
  trend_Trima_calculatePeriods t = Trima_periods_doc (trend_Trima_Period t).
Proof.
  intros HP. unfold trend_Trima_calculatePeriods, Trima_periods_doc. cbv zeta.
  rewrite Z.rem_mod_nonneg, !Z.quot_div_nonneg by lia.
  replace (trend_Trima_Period t mod 2 =? 0)%Z with (Z.even (trend_Trima_Period t)); [reflexivity|].
  rewrite Zeven_mod. unfold Zeq_bool.
  destruct (Z.eqb_spec (trend_Trima_Period t mod 2) 0) as [->|Hne]; [reflexivity|].
  destruct (trend_Trima_Period t mod 2 ?= 0)%Z eqn:E; try reflexivity.
  apply Z.compare_eq in E. contradiction.
Qed.

Lemma trima_periods_pos (P : Z) : (1 <= P)%Z ->
  (1 <= fst (Trima_periods_doc P) /\ 1 <= snd (Trima_periods_doc P))%Z.
Proof.
  intros HP. unfold Trima_periods_doc.
  destruct (Z.even P) eqn:E; cbn [fst snd].
  - rewrite Zeven_mod in E. apply Zeq_bool_eq in E. Z.div_mod_to_equations. lia.
  - Z.div_mod_to_equations. lia.
Qed.

Lemma sma_sma {I} (p1 p2 : Z) (e : expr I R) (env : list (list I)) :
  (1 <= p1)%Z -> (1 <= p2)%Z ->
  sem (trend_Sma_Compute (T:=R) (mk_trend_Sma p1) (trend_Sma_Compute (T:=R) (mk_trend_Sma p2) e)) env
  = tab (Z.to_nat (p1 + p2 - 2)) (length (sem e env)) (fmean (Z.to_nat p1) (wmean (Z.to_nat p2) (sem e env))).
Proof.
  intros H1 H2.
  rewrite (sma_on_tab p1 _ env (Z.to_nat p2 - 1) (length (sem e env)) (wmean (Z.to_nat p2) (sem e env)) H1).
  - f_equal. lia.
  - apply MovingSumProofs.sma_is_window_mean_expr. exact H2.
Qed.

Theorem Trima_documented_gen {I} (t : trend_Trima) (e : expr I R) (env : list (list I)) :
  (1 <= trend_Trima_Period t)%Z ->
  sem (trend_Trima_Compute (T:=R) t e) env
  = tab (Z.to_nat (trend_Trima_IdlePeriod t)) (length (sem e env)) (Trima_doc t (sem e env)).
Proof.
  intros HP.
  unfold trend_Trima_Compute, trend_Trima_IdlePeriod, Trima_doc.
  rewrite trima_periods by exact HP.
  pose proof (trima_periods_pos (trend_Trima_Period t) HP) as [Hq1 Hq2].
  destruct (Trima_periods_doc (trend_Trima_Period t)) as [q1 q2]. cbn [fst snd] in Hq1, Hq2.
  exact (sma_sma q1 q2 e env Hq1 Hq2).
Qed.

Theorem Trima_documented (t : trend_Trima) (xs : list R) :
  (1 <= trend_Trima_Period t)%Z ->
  sem (trend_Trima_Compute (T:=R) t (EIn 0)) [xs] = tab (Z.to_nat (trend_Trima_IdlePeriod t)) (length xs) (Trima_doc t xs).
Proof. exact (Trima_documented_gen t (EIn 0) [xs]). Qed.

(* ------------------------------------------------------------------------------------------ *)
(* 8. VWMA *)

(* trend/vwma.go:   VWMA = Sum(Price * Volume) / Sum(Volume)      (sums over the last Period positions) *)
Definition Vwma_doc (v : trend_Vwma) (cs vs : list R) (i : nat) : R :=
  fsum (Z.to_nat (trend_Vwma_Period v)) (fun j => at_ cs j * at_ vs j) i / wsum (Z.to_nat (trend_Vwma_Period v)) vs i.

Theorem Vwma_documented (v : trend_Vwma) (cs vs : list R) :
  (1 <= trend_Vwma_Period v)%Z -> length vs = length cs ->
  sem (trend_Vwma_Compute (T:=R) v (EIn 0) (EIn 1)) [cs; vs]
  = tab (Z.to_nat (trend_Vwma_IdlePeriod v)) (length cs) (Vwma_doc v cs vs).
Proof.
  intros Hp Hlen. set (p := trend_Vwma_Period v) in *.
  change (sem (trend_Vwma_Compute (T:=R) v (EIn 0) (EIn 1)) [cs; vs])
    with (s_op2 Rdiv
            (sem (trend_MovingSum_Compute (T:=R) (mk_trend_MovingSum p) (helper_Multiply (EIn 0) (EIn 1))) [cs; vs])
            (sem (trend_MovingSum_Compute (T:=R) (mk_trend_MovingSum p) (EIn 1)) [cs; vs])).
  rewrite (sum_on_tab p (helper_Multiply (EIn 0) (EIn 1)) [cs; vs] 0 (length cs) (fun j => at_ cs j * at_ vs j) Hp).
  2:{ change (sem (helper_Multiply (T:=R) (EIn 0) (EIn 1)) [cs; vs]) with (s_op2 Rmult cs vs).
      rewrite (list_tab cs) at 1. rewrite (list_tab vs) at 1. rewrite Hlen, tab_op2. reflexivity. }
  rewrite (sum_on_tab p (EIn 1) [cs; vs] 0 (length cs) (at_ vs) Hp).
  2:{ cbn [sem nth]. rewrite <- Hlen. apply list_tab. }
  rewrite tab_op2. unfold trend_Vwma_IdlePeriod. fold p.
  replace (Z.to_nat (p - 1)) with (0 + (Z.to_nat p - 1))%nat by lia. reflexivity.
Qed.

(* ------------------------------------------------------------------------------------------ *)
(* 9. TEMA *)

(* trend/tema.go:
     TEMA = (3 * EMA1) - (3 * EMA2) + EMA3
     EMA1 = EMA(values)
     EMA2 = EMA(EMA1)
     EMA3 = EMA(EMA2)
   EMA1 exists from position p1-1 on, EMA2 (the EMA of that series) from p1-1 + p2-1 on, EMA3 from p1-1 + p2-1 + p3-1 on. *)
Definition ema3_1 (c1 : trend_Ema (T:=R)) (xs : list R) : nat -> R := ema_doc (eP c1) (eS c1) xs.
Definition ema3_2 (c1 c2 : trend_Ema (T:=R)) (xs : list R) : nat -> R :=
  fema (eP c1 - 1) (eP c2) (eS c2) (ema3_1 c1 xs).
Definition ema3_3 (c1 c2 c3 : trend_Ema (T:=R)) (xs : list R) : nat -> R :=
  fema (eP c1 - 1 + (eP c2 - 1)) (eP c3) (eS c3) (ema3_2 c1 c2 xs).

Definition Tema_doc (t : trend_Tema (T:=R)) (xs : list R) (i : nat) : R :=
  3 * ema3_1 (trend_Tema_Ema1 t) xs i
  - 3 * ema3_2 (trend_Tema_Ema1 t) (trend_Tema_Ema2 t) xs i
  + ema3_3 (trend_Tema_Ema1 t) (trend_Tema_Ema2 t) (trend_Tema_Ema3 t) xs i.

(* the three nested EMAs as tables *)
Lemma ema3_tabs {I} (c1 c2 c3 : trend_Ema (T:=R)) (e : expr I R) (env : list (list I)) :
  (1 <= trend_Ema_Period c1)%Z -> (1 <= trend_Ema_Period c2)%Z -> (1 <= trend_Ema_Period c3)%Z ->
  sem (trend_Ema_Compute c1 e) env = tab (eP c1 - 1) (length (sem e env)) (ema3_1 c1 (sem e env))
  /\ sem (trend_Ema_Compute c2 (trend_Ema_Compute c1 e)) env
     = tab (eP c1 - 1 + (eP c2 - 1)) (length (sem e env)) (ema3_2 c1 c2 (sem e env))
  /\ sem (trend_Ema_Compute c3 (trend_Ema_Compute c2 (trend_Ema_Compute c1 e))) env
     = tab (eP c1 - 1 + (eP c2 - 1) + (eP c3 - 1)) (length (sem e env)) (ema3_3 c1 c2 c3 (sem e env)).
Proof.
  intros H1 H2 H3.
  assert (A1 := ema_top c1 e env H1).
  assert (A2 := ema_nested c2 (trend_Ema_Compute c1 e) env _ _ _ H2 A1).
  assert (A3 := ema_nested c3 (trend_Ema_Compute c2 (trend_Ema_Compute c1 e)) env _ _ _ H3 A2).
  split; [exact A1|]. split; [exact A2|exact A3].
Qed.

Definition Tema_admissible (t : trend_Tema (T:=R)) : Prop :=
  (1 <= trend_Ema_Period (trend_Tema_Ema1 t))%Z /\ (1 <= trend_Ema_Period (trend_Tema_Ema2 t))%Z
  /\ (1 <= trend_Ema_Period (trend_Tema_Ema3 t))%Z.

Theorem Tema_documented_gen {I} (t : trend_Tema (T:=R)) (e : expr I R) (env : list (list I)) :
  Tema_admissible t ->
  sem (trend_Tema_Compute t e) env
  = tab (Z.to_nat (trend_Tema_IdlePeriod t)) (length (sem e env)) (Tema_doc t (sem e env)).
Proof.
  intros (H1 & H2 & H3).
  set (c1 := trend_Tema_Ema1 t) in *. set (c2 := trend_Tema_Ema2 t) in *. set (c3 := trend_Tema_Ema3 t) in *.
  destruct (ema3_tabs c1 c2 c3 e env H1 H2 H3) as (A1 & A2 & A3).
  change (sem (trend_Tema_Compute t e) env)
    with (s_op2 Rplus
            (s_op2 Rminus
               (map (fun x => x * 3)
                    (s_skip (trend_Ema_Period c3 - 1) (s_skip (trend_Ema_Period c2 - 1) (sem (trend_Ema_Compute c1 e) env))))
               (map (fun x => x * 3)
                    (s_skip (trend_Ema_Period c3 - 1) (sem (trend_Ema_Compute c2 (trend_Ema_Compute c1 e)) env))))
            (sem (trend_Ema_Compute c3 (trend_Ema_Compute c2 (trend_Ema_Compute c1 e))) env)).
  rewrite A1, A2, A3, !tab_skip, !tab_map.
  replace (Z.to_nat (trend_Ema_Period c2 - 1)) with (eP c2 - 1)%nat by (unfold eP; lia).
  replace (Z.to_nat (trend_Ema_Period c3 - 1)) with (eP c3 - 1)%nat by (unfold eP; lia).
  rewrite !tab_op2.
  replace (Z.to_nat (trend_Tema_IdlePeriod t)) with (eP c1 - 1 + (eP c2 - 1) + (eP c3 - 1))%nat
    by (unfold trend_Tema_IdlePeriod, eP; fold c1 c2 c3; lia).
  apply tab_ext. intros i _. unfold Tema_doc. fold c1 c2 c3. lra.
Qed.

Theorem Tema_documented (t : trend_Tema (T:=R)) (xs : list R) :
  Tema_admissible t ->
  sem (trend_Tema_Compute t (EIn 0)) [xs] = tab (Z.to_nat (trend_Tema_IdlePeriod t)) (length xs) (Tema_doc t xs).
Proof. exact (Tema_documented_gen t (EIn 0) [xs]). Qed.

(* ------------------------------------------------------------------------------------------ *)
(* 10. TRIX *)

(* trend/trix.go:
     EMA1 = EMA(period, values)
     EMA2 = EMA(period, EMA1)
     EMA3 = EMA(period, EMA2)
     TRIX = (EMA3 - Previous EMA3) / Previous EMA3
   The three EMAs use the default smoothing 2 (trend.NewEmaWithPeriod).  EMA3 exists from position 3*(period-1) on, so its
   first "previous" value is available one position later: the idle period 3*period - 3 + 1. *)
Definition Trix_ema (t : trend_Trix) : trend_Ema (T:=R) := mk_trend_Ema (trend_Trix_Period t) 2.
Definition Trix_doc (t : trend_Trix) (xs : list R) (i : nat) : R :=
  let ema3 := ema3_3 (Trix_ema t) (Trix_ema t) (Trix_ema t) xs in
  (ema3 i - ema3 (i - 1)%nat) / ema3 (i - 1)%nat.

Theorem Trix_documented_gen {I} (t : trend_Trix) (e : expr I R) (env : list (list I)) :
  (1 <= trend_Trix_Period t)%Z ->
  sem (trend_Trix_Compute (T:=R) t e) env
  = tab (Z.to_nat (trend_Trix_IdlePeriod t)) (length (sem e env)) (Trix_doc t (sem e env)).
Proof.
  intros Hp. set (c := Trix_ema t).
  assert (Hc : (1 <= trend_Ema_Period c)%Z) by exact Hp.
  destruct (ema3_tabs c c c e env Hc Hc Hc) as (_ & _ & A3).
  set (A := sem (trend_Ema_Compute c (trend_Ema_Compute c (trend_Ema_Compute c e))) env) in *.
  change (sem (trend_Trix_Compute (T:=R) t e) env) with (s_op2 Rdiv (s_op2 Rminus (s_skip 1 A) A) A).
  rewrite A3, tab_skip. change (Z.to_nat 1) with 1%nat.
  rewrite tab_op2_late_l, tab_op2_late_l.
  replace (Z.to_nat (trend_Trix_IdlePeriod t)) with (eP c - 1 + (eP c - 1) + (eP c - 1) + 1)%nat
    by (unfold trend_Trix_IdlePeriod, eP, c, Trix_ema; cbn [trend_Ema_Period]; lia).
  reflexivity.
Qed.

Theorem Trix_documented (t : trend_Trix) (xs : list R) :
  (1 <= trend_Trix_Period t)%Z ->
  sem (trend_Trix_Compute (T:=R) t (EIn 0)) [xs] = tab (Z.to_nat (trend_Trix_IdlePeriod t)) (length xs) (Trix_doc t xs).
Proof. exact (Trix_documented_gen t (EIn 0) [xs]). Qed.

(* ------------------------------------------------------------------------------------------ *)
(* 11. Mass Index *)

(* trend/mass_index.go:
     Single EMA = EMA(9, Highs - Lows)
     Double EMA = EMA(9, Single EMA)
     Ratio = Single EMA / Double Ema1
     Mass Index = SUM(Ratio, 25)
   (9, 9, 25 are the default periods of Ema1, Ema2, MovingSum.) *)
Definition MassIndex_single (m : trend_MassIndex (T:=R)) (hs ls : list R) : nat -> R :=
  fema 0 (eP (trend_MassIndex_Ema1 m)) (eS (trend_MassIndex_Ema1 m)) (fun i => at_ hs i - at_ ls i).
Definition MassIndex_double (m : trend_MassIndex (T:=R)) (hs ls : list R) : nat -> R :=
  fema (eP (trend_MassIndex_Ema1 m) - 1) (eP (trend_MassIndex_Ema2 m)) (eS (trend_MassIndex_Ema2 m)) (MassIndex_single m hs ls).
Definition MassIndex_ratio (m : trend_MassIndex (T:=R)) (hs ls : list R) (i : nat) : R :=
  MassIndex_single m hs ls i / MassIndex_double m hs ls i.
Definition MassIndex_doc (m : trend_MassIndex (T:=R)) (hs ls : list R) (i : nat) : R :=
  fsum (Z.to_nat (trend_MovingSum_Period (trend_MassIndex_MovingSum m))) (MassIndex_ratio m hs ls) i.

Definition MassIndex_admissible (m : trend_MassIndex (T:=R)) : Prop :=
  (1 <= trend_Ema_Period (trend_MassIndex_Ema1 m))%Z /\ (1 <= trend_Ema_Period (trend_MassIndex_Ema2 m))%Z
  /\ (1 <= trend_MovingSum_Period (trend_MassIndex_MovingSum m))%Z.

Theorem MassIndex_documented (m : trend_MassIndex (T:=R)) (hs ls : list R) :
  MassIndex_admissible m -> length ls = length hs ->
  sem (trend_MassIndex_Compute m (EIn 0) (EIn 1)) [hs; ls]
  = tab (Z.to_nat (trend_MassIndex_IdlePeriod m)) (length hs) (MassIndex_doc m hs ls).
Proof.
  intros (H1 & H2 & H3) Hlen.
  set (c1 := trend_MassIndex_Ema1 m) in *. set (c2 := trend_MassIndex_Ema2 m) in *.
  destruct (trend_MassIndex_MovingSum m) as [p3] eqn:Ems. cbn [trend_MovingSum_Period] in H3.
  set (env := [hs; ls]). set (d := helper_Subtract (T:=R) (I:=R) (EIn 0) (EIn 1)).
  assert (D : sem d env = tab 0 (length hs) (fun i => at_ hs i - at_ ls i)).
  { change (sem d env) with (s_op2 Rminus hs ls).
    rewrite (list_tab hs) at 1. rewrite (list_tab ls) at 1. rewrite Hlen, tab_op2. reflexivity. }
  assert (A1 := ema_nested c1 d env _ _ _ H1 D).
  assert (A2 := ema_nested c2 (trend_Ema_Compute c1 d) env _ _ _ H2 A1).
  set (ratio := helper_Divide (ESkip (trend_Ema_Period c2 - 1) (trend_Ema_Compute c1 d))
                              (trend_Ema_Compute c2 (trend_Ema_Compute c1 d))).
  assert (Rt : sem ratio env = tab (0 + (eP c1 - 1) + (eP c2 - 1)) (length hs) (MassIndex_ratio m hs ls)).
  { change (sem ratio env)
      with (s_op2 Rdiv (s_skip (trend_Ema_Period c2 - 1) (sem (trend_Ema_Compute c1 d) env))
                       (sem (trend_Ema_Compute c2 (trend_Ema_Compute c1 d)) env)).
    rewrite A1, A2, tab_skip.
    replace (Z.to_nat (trend_Ema_Period c2 - 1)) with (eP c2 - 1)%nat by (unfold eP; lia).
    rewrite tab_op2. reflexivity. }
  change (sem (trend_MassIndex_Compute m (EIn 0) (EIn 1)) env)
    with (sem (trend_MovingSum_Compute (trend_MassIndex_MovingSum m) ratio) env).
  rewrite Ems. rewrite (sum_on_tab p3 ratio env _ _ _ H3 Rt).
  unfold MassIndex_doc. rewrite Ems. cbn [trend_MovingSum_Period].
  f_equal. unfold trend_MassIndex_IdlePeriod. rewrite Ems. fold c1 c2. cbn [trend_MovingSum_Period]. unfold eP. lia.
Qed.

(* ------------------------------------------------------------------------------------------ *)
(* 12. CCI *)

(* trend/cci.go:
     Moving Average = Sma(Period, Typical Price)
     Mean Deviation = Sma(Period, Abs(Typical Price - Moving Average))
     CCI = (Typical Price - Moving Average) / (0.015 * Mean Deviation)
   The Go constant 0.015 is a float64 constant; the generated model carries it as the exact rational value of the binary64
   number nearest to 0.015 (nconst 1080863910568919 / 2^56), [cci_multiplier] below, which differs from 0.015 by less than
   10^-18 ([cci_multiplier_close]).  The documented formula is transcribed with that constant. *)
Definition cci_multiplier : R := 1080863910568919 / 72057594037927936.

Lemma cci_multiplier_close : Rabs (cci_multiplier - 0.015) < 1 / 1000000000000000000.
Proof. unfold cci_multiplier. apply Rabs_def1; lra. Qed.

Definition Cci_ma (c : trend_Cci) (hs ls cs : list R) : nat -> R :=
  fmean (Z.to_nat (trend_Cci_Period c)) (TypicalPrice_doc hs ls cs).
Definition Cci_md (c : trend_Cci) (hs ls cs : list R) : nat -> R :=
  fmean (Z.to_nat (trend_Cci_Period c)) (fun i => Rabs (TypicalPrice_doc hs ls cs i - Cci_ma c hs ls cs i)).
Definition Cci_doc (c : trend_Cci) (hs ls cs : list R) (i : nat) : R :=
  (TypicalPrice_doc hs ls cs i - Cci_ma c hs ls cs i) / (cci_multiplier * Cci_md c hs ls cs i).

Theorem Cci_documented (c : trend_Cci) (hs ls cs : list R) :
  (1 <= trend_Cci_Period c)%Z -> length ls = length hs -> length cs = length hs ->
  sem (trend_Cci_Compute (T:=R) c (EIn 0) (EIn 1) (EIn 2)) [hs; ls; cs]
  = tab (Z.to_nat (trend_Cci_IdlePeriod c)) (length hs) (Cci_doc c hs ls cs).
Proof.
  intros Hp Hl Hc. set (p := trend_Cci_Period c) in *. set (P := Z.to_nat p).
  set (env := [hs; ls; cs]).
  set (tps := trend_TypicalPrice_Compute (T:=R) (I:=R) trend_NewTypicalPrice (EIn 0) (EIn 1) (EIn 2)).
  assert (Tp : sem tps env = tab 0 (length hs) (TypicalPrice_doc hs ls cs)).
  { exact (TypicalPrice_documented trend_NewTypicalPrice hs ls cs Hl Hc). }
  assert (Ma : sem (trend_Sma_Compute (mk_trend_Sma p) tps) env = tab (0 + (P - 1)) (length hs) (Cci_ma c hs ls cs)).
  { exact (sma_on_tab p tps env _ _ _ Hp Tp). }
  set (dev := helper_Abs (helper_Subtract (ESkip (p - 1) tps) (trend_Sma_Compute (mk_trend_Sma p) tps))).
  assert (Dv : sem dev env
               = tab (0 + (P - 1)) (length hs) (fun i => Rabs (TypicalPrice_doc hs ls cs i - Cci_ma c hs ls cs i))).
  { change (sem dev env)
      with (map Rabs (s_op2 Rminus (s_skip (p - 1) (sem tps env)) (sem (trend_Sma_Compute (mk_trend_Sma p) tps) env))).
    rewrite Tp, Ma, tab_skip.
    replace (Z.to_nat (p - 1)) with (P - 1)%nat by (unfold P; lia).
    rewrite tab_op2, tab_map. reflexivity. }
  assert (Md : sem (trend_Sma_Compute (mk_trend_Sma p) dev) env = tab (0 + (P - 1) + (P - 1)) (length hs) (Cci_md c hs ls cs)).
  { exact (sma_on_tab p dev env _ _ _ Hp Dv). }
  change (sem (trend_Cci_Compute (T:=R) c (EIn 0) (EIn 1) (EIn 2)) env)
    with (s_op2 Rdiv
            (s_op2 Rminus (s_skip (p - 1) (s_skip (p - 1) (sem tps env)))
                          (s_skip (p - 1) (sem (trend_Sma_Compute (mk_trend_Sma p) tps) env)))
            (map (fun x => x * cci_multiplier) (sem (trend_Sma_Compute (mk_trend_Sma p) dev) env))).
  rewrite Tp, Ma, Md, !tab_skip, tab_map.
  replace (Z.to_nat (p - 1)) with (P - 1)%nat by (unfold P; lia).
  rewrite !tab_op2.
  replace (Z.to_nat (trend_Cci_IdlePeriod c)) with (0 + (P - 1) + (P - 1))%nat
    by (unfold trend_Cci_IdlePeriod, P; fold p; lia).
  apply tab_ext. intros i _. unfold Cci_doc. rewrite (Rmult_comm cci_multiplier). reflexivity.
Qed.

(* ------------------------------------------------------------------------------------------ *)
(* 13. DEMA: the code deviates from its documentation *)

(* trend/dema.go:   DEMA = (2 * EMA1(values)) - EMA2(EMA1(values))
   The code subtracts the stream EMA2(EMA1) from the stream 2*EMA1 without first skipping the Ema2.Period-1 values of
   EMA1 that precede the first value of EMA2 (it only buffers them): value number j of the one is paired with value number
   j of the other, so at position i the EMA1 term is the one of position i - (Ema2.Period - 1). *)
Definition Dema_doc (d : trend_Dema (T:=R)) (xs : list R) (i : nat) : R :=
  2 * ema3_1 (trend_Dema_Ema1 d) xs i - ema3_2 (trend_Dema_Ema1 d) (trend_Dema_Ema2 d) xs i.
Definition Dema_actual_formula (d : trend_Dema (T:=R)) (xs : list R) (i : nat) : R :=
  2 * ema3_1 (trend_Dema_Ema1 d) xs (i - (eP (trend_Dema_Ema2 d) - 1))%nat
  - ema3_2 (trend_Dema_Ema1 d) (trend_Dema_Ema2 d) xs i.

Definition Dema_admissible (d : trend_Dema (T:=R)) : Prop :=
  (1 <= trend_Ema_Period (trend_Dema_Ema1 d))%Z /\ (1 <= trend_Ema_Period (trend_Dema_Ema2 d))%Z.

Theorem Dema_actual_gen {I} (d : trend_Dema (T:=R)) (e : expr I R) (env : list (list I)) :
  Dema_admissible d ->
  sem (trend_Dema_Compute d e) env
  = tab (Z.to_nat (trend_Dema_IdlePeriod d)) (length (sem e env)) (Dema_actual_formula d (sem e env)).
Proof.
  intros (H1 & H2). set (c1 := trend_Dema_Ema1 d) in *. set (c2 := trend_Dema_Ema2 d) in *.
  destruct (ema3_tabs c1 c2 c2 e env H1 H2 H2) as (A1 & A2 & _).
  change (sem (trend_Dema_Compute d e) env)
    with (s_op2 Rminus (map (fun x => x * 2) (sem (trend_Ema_Compute c1 e) env))
                       (sem (trend_Ema_Compute c2 (trend_Ema_Compute c1 e)) env)).
  rewrite A1, A2, tab_map, tab_op2_late_r.
  replace (Z.to_nat (trend_Dema_IdlePeriod d)) with (eP c1 - 1 + (eP c2 - 1))%nat
    by (unfold trend_Dema_IdlePeriod, eP; fold c1 c2; lia).
  apply tab_ext. intros i _. unfold Dema_actual_formula. fold c1 c2. lra.
Qed.

Theorem Dema_actual (d : trend_Dema (T:=R)) (xs : list R) :
  Dema_admissible d ->
  sem (trend_Dema_Compute d (EIn 0)) [xs] = tab (Z.to_nat (trend_Dema_IdlePeriod d)) (length xs) (Dema_actual_formula d xs).
Proof. exact (Dema_actual_gen d (EIn 0) [xs]). Qed.

Lemma nth_tab (w n : nat) (f : nat -> R) (i : nat) : (w <= i < n)%nat -> nth (i - w) (tab w n f) 0 = f i.
Proof.
  intros H. change (nth (i - w) (tab w n f) 0) with (at_ (tab w n f) (i - w)).
  rewrite at_tab by lia. f_equal. lia.
Qed.

(* Ema1 = (period 1, smoothing 2) is the identity, Ema2 = (period 2, smoothing 3); on [0; 2] the only value (position 1)
   is 2*0 - 1 = -1 whereas the documented formula gives 2*2 - 1 = 3 *)
Definition Dema_witness : trend_Dema (T:=R) := mk_trend_Dema (mk_trend_Ema 1 2) (mk_trend_Ema 2 3).

Theorem Dema_refuted : exists (d : trend_Dema (T:=R)) (xs : list R) (i : nat),
  Dema_admissible d /\ (Z.to_nat (trend_Dema_IdlePeriod d) <= i < length xs)%nat
  /\ nth (i - Z.to_nat (trend_Dema_IdlePeriod d)) (sem (trend_Dema_Compute d (EIn 0)) [xs]) 0 <> Dema_doc d xs i.
Proof.
  exists Dema_witness, [0; 2], 1%nat.
  assert (Ha : Dema_admissible Dema_witness) by (unfold Dema_admissible, Dema_witness; cbn; lia).
  split; [exact Ha|]. split; [cbn; lia|].
  rewrite Dema_actual by exact Ha.
  rewrite nth_tab by (cbn; lia).
  unfold Dema_actual_formula, Dema_doc, ema3_2, ema3_1, fema, ema_doc, Dema_witness, eP, eS.
  cbn [trend_Dema_Ema1 trend_Dema_Ema2 trend_Ema_Period trend_Ema_Smoothing].
  change (Z.to_nat 1) with 1%nat. change (Z.to_nat 2) with 2%nat.
  cbn [Nat.sub Nat.add fseeded seeded_rec Nat.leb].
  unfold fmean, fsum, wmean, wsum, window, at_, ema_step, Rsum.
  cbn [Nat.sub Nat.add seq map nth fold_right seeded_rec Nat.leb INR].
  lra.
Qed.

(* ------------------------------------------------------------------------------------------ *)
(* 14. APO: the code deviates from its documentation *)

(* trend/apo.go:
     Fast = Ema(values, fastPeriod)
     Slow = Ema(values, slowPeriod)
     APO = Fast - Slow
   Apo has no IdlePeriod method; Slow exists from position SlowPeriod-1 on, which is the warm-up the formula implies
   (fast <= slow).  The code subtracts the two EMA streams without skipping the SlowPeriod-FastPeriod values of Fast that
   precede the first value of Slow: at position i the Fast term is the one of position i - (SlowPeriod - FastPeriod).
   Moreover the code builds both EMAs with trend.NewEma, i.e. with the default smoothing 2: the fields FastSmoothing and
   SlowSmoothing are never read ([Apo_smoothing_ignored]); the documented formula is transcribed with the configured
   smoothings, the actual one with 2. *)
Definition Apo_doc (a : trend_Apo (T:=R)) (xs : list R) (i : nat) : R :=
  ema_doc (Z.to_nat (trend_Apo_FastPeriod a)) (trend_Apo_FastSmoothing a) xs i
  - ema_doc (Z.to_nat (trend_Apo_SlowPeriod a)) (trend_Apo_SlowSmoothing a) xs i.
Definition Apo_actual_formula (a : trend_Apo (T:=R)) (xs : list R) (i : nat) : R :=
  ema_doc (Z.to_nat (trend_Apo_FastPeriod a)) 2 xs (i - (Z.to_nat (trend_Apo_SlowPeriod a) - Z.to_nat (trend_Apo_FastPeriod a)))%nat
  - ema_doc (Z.to_nat (trend_Apo_SlowPeriod a)) 2 xs i.

Definition Apo_admissible (a : trend_Apo (T:=R)) : Prop :=
  (1 <= trend_Apo_FastPeriod a)%Z /\ (trend_Apo_FastPeriod a <= trend_Apo_SlowPeriod a)%Z.

Theorem Apo_actual_gen {I} (a : trend_Apo (T:=R)) (e : expr I R) (env : list (list I)) :
  Apo_admissible a ->
  sem (trend_Apo_Compute a e) env
  = tab (Z.to_nat (trend_Apo_SlowPeriod a) - 1) (length (sem e env)) (Apo_actual_formula a (sem e env)).
Proof.
  intros (H1 & H12). set (pf := trend_Apo_FastPeriod a) in *. set (ps := trend_Apo_SlowPeriod a) in *.
  change (sem (trend_Apo_Compute a e) env)
    with (s_op2 Rminus (sem (trend_Ema_Compute (mk_trend_Ema pf 2) e) env)
                       (sem (trend_Ema_Compute (mk_trend_Ema ps 2) e) env)).
  rewrite !SeededProofs.ema_is_documented_gen by lia.
  replace (Z.to_nat ps - 1)%nat with (Z.to_nat pf - 1 + (Z.to_nat ps - Z.to_nat pf))%nat by lia.
  rewrite tab_op2_late_r. reflexivity.
Qed.

Theorem Apo_actual (a : trend_Apo (T:=R)) (xs : list R) :
  Apo_admissible a ->
  sem (trend_Apo_Compute a (EIn 0)) [xs] = tab (Z.to_nat (trend_Apo_SlowPeriod a) - 1) (length xs) (Apo_actual_formula a xs).
Proof. exact (Apo_actual_gen a (EIn 0) [xs]). Qed.

Theorem Apo_smoothing_ignored {I} (a : trend_Apo (T:=R)) (s1 s2 : R) (e : expr I R) :
  trend_Apo_Compute (mk_trend_Apo (trend_Apo_FastPeriod a) s1 (trend_Apo_SlowPeriod a) s2) e = trend_Apo_Compute a e.
Proof. reflexivity. Qed.

(* fast period 1 (the identity with smoothing 2), slow period 2, both smoothings 2 as the code assumes; on [0; 2] the only
   value (position 1) is 0 - 1 = -1 whereas the documented formula gives 2 - 1 = 1 *)
Definition Apo_witness : trend_Apo (T:=R) := mk_trend_Apo 1 2 2 2.

Theorem Apo_refuted : exists (a : trend_Apo (T:=R)) (xs : list R) (i : nat),
  Apo_admissible a /\ (Z.to_nat (trend_Apo_SlowPeriod a) - 1 <= i < length xs)%nat
  /\ nth (i - (Z.to_nat (trend_Apo_SlowPeriod a) - 1)) (sem (trend_Apo_Compute a (EIn 0)) [xs]) 0 <> Apo_doc a xs i.
Proof.
  exists Apo_witness, [0; 2], 1%nat.
  assert (Ha : Apo_admissible Apo_witness) by (unfold Apo_admissible, Apo_witness; cbn; lia).
  split; [exact Ha|]. split; [cbn; lia|].
  rewrite Apo_actual by exact Ha.
  rewrite nth_tab by (cbn; lia).
  unfold Apo_actual_formula, Apo_doc, ema_doc, Apo_witness.
  cbn [trend_Apo_FastPeriod trend_Apo_SlowPeriod trend_Apo_FastSmoothing trend_Apo_SlowSmoothing].
  change (Z.to_nat 1) with 1%nat. change (Z.to_nat 2) with 2%nat.
  cbn [Nat.sub Nat.add seeded_rec Nat.leb].
  unfold wmean, wsum, window, at_, ema_step, Rsum.
  cbn [Nat.sub Nat.add seq map nth fold_right seeded_rec Nat.leb INR].
  lra.
Qed.

(* ------------------------------------------------------------------------------------------ *)
(* 15. The position-function notions are causal: they read the series only inside the stated range *)

Lemma fmean_ext (p : nat) (f g : nat -> R) (i : nat) :
  (forall k, (i + 1 - p <= k < i + 1 - p + p)%nat -> f k = g k) -> fmean p f i = fmean p g i.
Proof. intros H. unfold fmean. rewrite (fsum_ext p f g i H). reflexivity. Qed.

Lemma fseeded_ext (w p : nat) (step : R -> R -> R) (f g : nat -> R) (i : nat) :
  (1 <= p)%nat -> (forall k, (w <= k <= Nat.max i (w + p - 1))%nat -> f k = g k) ->
  fseeded w p step f i = fseeded w p step g i.
Proof.
  intros Hp. induction i as [|i IH]; intros H.
  - cbn [fseeded]. apply fmean_ext. intros k Hk. apply H. lia.
  - cbn [fseeded]. destruct (Nat.leb_spec (w + p) (S i)).
    + rewrite IH by (intros k Hk; apply H; lia). rewrite (H (S i)) by lia. reflexivity.
    + apply fmean_ext. intros k Hk. apply H. lia.
Qed.

Print Assumptions TypicalPrice_documented.
Print Assumptions WeightedClose_documented.
Print Assumptions Bop_documented.
Print Assumptions Macd_macd_documented.
Print Assumptions Macd_signal_documented.
Print Assumptions Trima_documented.
Print Assumptions Vwma_documented.
Print Assumptions Tema_documented.
Print Assumptions Trix_documented.
Print Assumptions MassIndex_documented.
Print Assumptions Cci_documented.
Print Assumptions Dema_actual.
Print Assumptions Dema_refuted.
Print Assumptions Apo_actual.
Print Assumptions Apo_refuted.
