(* Property C01, part 3 - documented formulas of the MOMENTUM / VOLUME / VOLATILITY indicators (real-number instance).
   For every indicator X: [X_doc] transcribes the formula of the doc comment above the Go type, at absolute input
   positions, in the vocabulary of Spec/Window.v; the theorem [X_documented] states

     sem (X_Compute cfg (EIn 0) (EIn 1) ...) [xs; ys; ...] = tab (Z.to_nat (X_IdlePeriod cfg)) n (X_doc cfg xs ys ...)

   for all inputs of one common length n.  A series derived from the inputs (e.g. "Closings - Openings") is written
   [ser n f] = the list [f 0; ...; f (n-1)]. *)
From Coq Require Import List ZArith Bool Lia Reals Lra.
Import ListNotations.
From Verif Require Import Base.Num Base.Stream Base.StreamProofs Base.GenPrelude Gen.All Spec.Window
  Prim.MovingSumProofs Prim.SeededProofs Prim.MovingMaxProofs.
Local Open Scope R_scope.

(* ------------------------------------------------------------------------------------------ *)
(* 0. Alignment calculus *)

(* the series [f 0; f 1; ...; f (n-1)] *)
Definition ser (n : nat) (f : nat -> R) : list R := tab 0 n f.

Lemma skipn_seq' : forall n s len, skipn n (seq s len) = seq (s + n) (len - n).
Proof.
  induction n as [|n IH]; intros s len.
  - rewrite Nat.add_0_r, Nat.sub_0_r. reflexivity.
  - destruct len as [|len]; [reflexivity|]. cbn [seq skipn]. rewrite IH. f_equal; lia.
Qed.

Lemma tab_length (w n : nat) (f : nat -> R) : length (tab w n f) = (n - w)%nat.
Proof. unfold tab. rewrite map_length, seq_length. reflexivity. Qed.

Lemma tab_skip (k w n : nat) (f : nat -> R) : skipn k (tab w n f) = tab (w + k) n f.
Proof. unfold tab. rewrite skipn_map, skipn_seq'. do 2 f_equal. lia. Qed.

Lemma tab_s_skip (k : Z) (w n : nat) (f : nat -> R) : s_skip k (tab w n f) = tab (w + Z.to_nat k) n f.
Proof. unfold s_skip. apply tab_skip. Qed.

Lemma tab_map (g : R -> R) (w n : nat) (f : nat -> R) : map g (tab w n f) = tab w n (fun i => g (f i)).
Proof. unfold tab. rewrite map_map. reflexivity. Qed.

Lemma tab_ext (w n : nat) (f g : nat -> R) :
  (forall i, (w <= i < n)%nat -> f i = g i) -> tab w n f = tab w n g.
Proof.
  intros H. unfold tab. apply map_ext_in. intros i Hi. apply in_seq in Hi. apply H. lia.
Qed.

Lemma tab_empty (w n : nat) (f : nat -> R) : (n <= w)%nat -> tab w n f = [].
Proof. intros H. unfold tab. replace (n - w)%nat with 0%nat by lia. reflexivity. Qed.

Lemma s_op2_map {A B C D} (g : B -> C -> D) (f1 : A -> B) (f2 : A -> C) (l : list A) :
  s_op2 g (map f1 l) (map f2 l) = map (fun i => g (f1 i) (f2 i)) l.
Proof. induction l as [|x l IH]; [reflexivity|]. cbn [map s_op2]. rewrite IH. reflexivity. Qed.

Lemma s_op3_map {A B C D E} (g : B -> C -> D -> E) (f1 : A -> B) (f2 : A -> C) (f3 : A -> D) (l : list A) :
  s_op3 g (map f1 l) (map f2 l) (map f3 l) = map (fun i => g (f1 i) (f2 i) (f3 i)) l.
Proof. induction l as [|x l IH]; [reflexivity|]. cbn [map s_op3]. rewrite IH. reflexivity. Qed.

(* equal offsets *)
Lemma tab_op2 (g : R -> R -> R) (w n : nat) (f1 f2 : nat -> R) :
  s_op2 g (tab w n f1) (tab w n f2) = tab w n (fun i => g (f1 i) (f2 i)).
Proof. unfold tab. apply s_op2_map. Qed.

Lemma tab_op3 (g : R -> R -> R -> R) (w n : nat) (f1 f2 f3 : nat -> R) :
  s_op3 g (tab w n f1) (tab w n f2) (tab w n f3) = tab w n (fun i => g (f1 i) (f2 i) (f3 i)).
Proof. unfold tab. apply s_op3_map. Qed.

(* an input list is the table of its values *)
Lemma xs_as_tab (xs : list R) (n : nat) : length xs = n -> xs = tab 0 n (at_ xs).
Proof.
  intros H. unfold tab, at_. rewrite Nat.sub_0_r.
  rewrite <- (@firstn_map_nth R 0 xs n) by lia.
  rewrite firstn_all2 by lia. reflexivity.
Qed.

Lemma raw_s_skip (k : Z) (xs : list R) (n : nat) : length xs = n -> s_skip k xs = tab (Z.to_nat k) n (at_ xs).
Proof. intros H. rewrite (xs_as_tab xs n H) at 1. rewrite tab_s_skip. reflexivity. Qed.

Lemma raw_op2 (g : R -> R -> R) (a b : list R) (n : nat) : length a = n -> length b = n ->
  s_op2 g a b = tab 0 n (fun i => g (at_ a i) (at_ b i)).
Proof. intros Ha Hb. rewrite (xs_as_tab a n Ha) at 1. rewrite (xs_as_tab b n Hb) at 1. apply tab_op2. Qed.

Lemma tab_raw_op2 (g : R -> R -> R) (f : nat -> R) (b : list R) (n : nat) : length b = n ->
  s_op2 g (tab 0 n f) b = tab 0 n (fun i => g (f i) (at_ b i)).
Proof. intros Hb. rewrite (xs_as_tab b n Hb) at 1. apply tab_op2. Qed.

Lemma raw_tab_op2 (g : R -> R -> R) (f : nat -> R) (a : list R) (n : nat) : length a = n ->
  s_op2 g a (tab 0 n f) = tab 0 n (fun i => g (at_ a i) (f i)).
Proof. intros Ha. rewrite (xs_as_tab a n Ha) at 1. apply tab_op2. Qed.

(* values of a table *)
Lemma at_tab (w n : nat) (f : nat -> R) (j : nat) : (w + j < n)%nat -> at_ (tab w n f) j = f (w + j)%nat.
Proof.
  intros H. unfold at_, tab.
  rewrite (nth_indep _ 0 (f 0%nat)) by (rewrite map_length, seq_length; lia).
  rewrite map_nth, seq_nth by lia. reflexivity.
Qed.

Lemma at_ser (n : nat) (f : nat -> R) (j : nat) : (j < n)%nat -> at_ (ser n f) j = f j.
Proof. intros H. unfold ser. rewrite at_tab by lia. reflexivity. Qed.

(* a window formula over a derived series, written out pointwise *)
Lemma wsum_ser_pointwise (p n : nat) (f : nat -> R) (i : nat) : (p <= i + 1)%nat -> (i < n)%nat ->
  wsum p (ser n f) i = Rsum (map f (seq (i + 1 - p) p)).
Proof.
  intros Hp Hi. unfold wsum, window. f_equal. apply map_ext_in. intros k Hk. apply in_seq in Hk.
  apply at_ser. lia.
Qed.

Lemma wmean_ser_pointwise (p n : nat) (f : nat -> R) (i : nat) : (p <= i + 1)%nat -> (i < n)%nat ->
  wmean p (ser n f) i = Rsum (map f (seq (i + 1 - p) p)) / INR p.
Proof. intros Hp Hi. unfold wmean. rewrite wsum_ser_pointwise by assumption. reflexivity. Qed.

(* re-indexing: the table of a formula over a series that starts at position w *)
Lemma tab_reindex (w a m : nat) (g : nat -> R) :
  tab a m g = tab (w + a) (w + m) (fun i => g (i - w)%nat).
Proof.
  unfold tab. replace (w + m - (w + a))%nat with (m - a)%nat by lia.
  rewrite <- (map_map (fun i => (i - w)%nat) g). f_equal.
  generalize (m - a)%nat as len. intros len. revert a.
  induction len as [|len IH]; intros a; [reflexivity|].
  cbn [seq map]. f_equal; [lia|]. rewrite (IH (S a)). f_equal. f_equal. lia.
Qed.

Lemma tab_reindex' (w a n : nat) (g : nat -> R) :
  tab a (n - w) g = tab (w + a) n (fun i => g (i - w)%nat).
Proof.
  destruct (Nat.le_gt_cases w n) as [H|H].
  - rewrite (tab_reindex w). f_equal. lia.
  - rewrite !tab_empty by lia. reflexivity.
Qed.

(* windows over a series that is the suffix from position w of a longer one *)
Lemma map_seq_add {A} (f : nat -> A) (w : nat) : forall p s,
  map f (seq (w + s) p) = map (fun k => f (w + k)%nat) (seq s p).
Proof.
  induction p as [|p IH]; intros s; [reflexivity|].
  cbn [seq map]. f_equal. replace (S (w + s)) with (w + S s)%nat by lia. apply IH.
Qed.

Lemma window_tab (p w n : nat) (f : nat -> R) (j : nat) :
  (p <= j + 1)%nat -> (w + j < n)%nat ->
  window p (tab w n f) j = window p (ser n f) (w + j).
Proof.
  intros Hp Hj. unfold window.
  replace (w + j + 1 - p)%nat with (w + (j + 1 - p))%nat by lia.
  rewrite map_seq_add. apply map_ext_in. intros k Hk. apply in_seq in Hk.
  rewrite at_tab by lia. rewrite at_ser by lia. reflexivity.
Qed.

Lemma wmean_tab (p w n : nat) (f : nat -> R) (j : nat) :
  (p <= j + 1)%nat -> (w + j < n)%nat ->
  wmean p (tab w n f) j = wmean p (ser n f) (w + j).
Proof. intros Hp Hj. unfold wmean, wsum. rewrite window_tab by assumption. reflexivity. Qed.

Lemma wsum_tab (p w n : nat) (f : nat -> R) (j : nat) :
  (p <= j + 1)%nat -> (w + j < n)%nat ->
  wsum p (tab w n f) j = wsum p (ser n f) (w + j).
Proof. intros Hp Hj. unfold wsum. rewrite window_tab by assumption. reflexivity. Qed.

(* the table of a window mean over a series that starts at position w, at absolute positions *)
Lemma tab_wmean_tab (p w n : nat) (f : nat -> R) : (1 <= p)%nat ->
  tab (p - 1) (length (tab w n f)) (wmean p (tab w n f)) = tab (w + (p - 1)) n (wmean p (ser n f)).
Proof.
  intros Hp. rewrite tab_length, (tab_reindex' w).
  apply tab_ext. intros i Hi. rewrite wmean_tab by lia. f_equal. lia.
Qed.

Lemma tab_wsum_tab (p w n : nat) (f : nat -> R) : (1 <= p)%nat ->
  tab (p - 1) (length (tab w n f)) (wsum p (tab w n f)) = tab (w + (p - 1)) n (wsum p (ser n f)).
Proof.
  intros Hp. rewrite tab_length, (tab_reindex' w).
  apply tab_ext. intros i Hi. rewrite wsum_tab by lia. f_equal. lia.
Qed.

(* window functions only depend on the values inside the window *)
Lemma window_ext (p : nat) (xs ys : list R) (i : nat) :
  (forall k, (i + 1 - p <= k < i + 1 - p + p)%nat -> at_ xs k = at_ ys k) -> window p xs i = window p ys i.
Proof. intros H. unfold window. apply map_ext_in. intros k Hk. apply in_seq in Hk. apply H. lia. Qed.

(* ------------------------------------------------------------------------------------------ *)
(* 1. momentum.Qstick
      "Qstick is a momentum indicator used to identify an asset's trend by looking at the SMA of the difference
       between its closing and opening.   QS = SMA(Closings - Openings)" *)

Definition Qstick_doc (cfg : momentum_Qstick) (os cs : list R) : nat -> R :=
  let p := Z.to_nat (trend_Sma_Period (momentum_Qstick_Sma cfg)) in
  wmean p (ser (length cs) (fun j => at_ cs j - at_ os j)).

Theorem Qstick_documented (cfg : momentum_Qstick) (os cs : list R) (n : nat) :
  (1 <= trend_Sma_Period (momentum_Qstick_Sma cfg))%Z ->
  length os = n -> length cs = n ->
  sem (momentum_Qstick_Compute (T:=R) cfg (EIn 0) (EIn 1)) [os; cs]
  = tab (Z.to_nat (momentum_Qstick_IdlePeriod cfg)) n (Qstick_doc cfg os cs).
Proof.
  destruct cfg as [[p]]. cbn [momentum_Qstick_Sma trend_Sma_Period]. intros Hp Ho Hc.
  unfold momentum_Qstick_Compute, momentum_Qstick_IdlePeriod, trend_Sma_IdlePeriod, Qstick_doc, helper_Subtract.
  cbn [momentum_Qstick_Sma trend_Sma_Period].
  rewrite sma_is_window_mean_expr by exact Hp.
  cbn [sem nth]. rewrite (raw_op2 _ cs os n Hc Ho).
  rewrite tab_length, Nat.sub_0_r, Hc.
  replace (Z.to_nat (p - 1)) with (Z.to_nat p - 1)%nat by lia.
  reflexivity.
Qed.

(* ------------------------------------------------------------------------------------------ *)
(* 2. momentum.AwesomeOscillator
      "Median Price = ((Low + High) / 2).   AO = 5-Period SMA - 34-Period SMA."
      (5 and 34 are the defaults of the short and the long period) *)

Definition AwesomeOscillator_doc (cfg : momentum_AwesomeOscillator) (hs ls : list R) : nat -> R :=
  let s := Z.to_nat (trend_Sma_Period (momentum_AwesomeOscillator_ShortSma cfg)) in
  let l := Z.to_nat (trend_Sma_Period (momentum_AwesomeOscillator_LongSma cfg)) in
  let median := ser (length hs) (fun j => (at_ ls j + at_ hs j) / 2) in
  fun i => wmean s median i - wmean l median i.

Theorem AwesomeOscillator_documented (cfg : momentum_AwesomeOscillator) (hs ls : list R) (n : nat) :
  (1 <= trend_Sma_Period (momentum_AwesomeOscillator_ShortSma cfg))%Z ->
  (trend_Sma_Period (momentum_AwesomeOscillator_ShortSma cfg)
   <= trend_Sma_Period (momentum_AwesomeOscillator_LongSma cfg))%Z ->
  length hs = n -> length ls = n ->
  sem (momentum_AwesomeOscillator_Compute (T:=R) cfg (EIn 0) (EIn 1)) [hs; ls]
  = tab (Z.to_nat (momentum_AwesomeOscillator_IdlePeriod cfg)) n (AwesomeOscillator_doc cfg hs ls).
Proof.
  destruct cfg as [[s] [l]].
  cbn [momentum_AwesomeOscillator_ShortSma momentum_AwesomeOscillator_LongSma trend_Sma_Period].
  intros Hs Hsl Hh Hl.
  unfold momentum_AwesomeOscillator_Compute, momentum_AwesomeOscillator_IdlePeriod, trend_Sma_IdlePeriod,
    AwesomeOscillator_doc, helper_Subtract, helper_DivideBy, helper_Add.
  cbn [momentum_AwesomeOscillator_ShortSma momentum_AwesomeOscillator_LongSma trend_Sma_Period].
  cbn [sem]. rewrite !sma_is_window_mean_expr by lia.
  cbn [sem nth]. rewrite (raw_op2 _ hs ls n Hh Hl), tab_map.
  rewrite tab_length, Nat.sub_0_r, tab_s_skip.
  replace (Z.to_nat s - 1 + Z.to_nat (l - 1 - (s - 1)))%nat with (Z.to_nat (l - 1)) by lia.
  replace (Z.to_nat l - 1)%nat with (Z.to_nat (l - 1)) by lia.
  rewrite tab_op2, Hh.
  apply tab_ext. intros i Hi. cbn [nadd ndiv nsub nofZ NumR].
  assert (E : tab 0 n (fun i0 => (at_ hs i0 + at_ ls i0) / 2) = ser n (fun j => (at_ ls j + at_ hs j) / 2)).
  { unfold ser. apply tab_ext. intros j _. rewrite Rplus_comm. reflexivity. }
  rewrite E. reflexivity.
Qed.

(* ------------------------------------------------------------------------------------------ *)
(* 3. volume.Mfm    "MFM = ((Closing - Low) - (High - Closing)) / (High - Low)" *)

Definition Mfm_doc (hs ls cs : list R) (i : nat) : R :=
  ((at_ cs i - at_ ls i) - (at_ hs i - at_ cs i)) / (at_ hs i - at_ ls i).

Lemma sem_Mfm_gen (cfg : volume_Mfm) {I} (eh el ec : expr I R) env (n : nat) :
  length (sem eh env) = n -> length (sem el env) = n -> length (sem ec env) = n ->
  sem (volume_Mfm_Compute (T:=R) cfg eh el ec) env
  = tab 0 n (Mfm_doc (sem eh env) (sem el env) (sem ec env)).
Proof.
  intros Hh Hl Hc.
  unfold volume_Mfm_Compute, helper_Divide, helper_Subtract. cbn [sem].
  rewrite (raw_op2 _ (sem ec env) (sem el env) n Hc Hl), (raw_op2 _ (sem eh env) (sem ec env) n Hh Hc),
    (raw_op2 _ (sem eh env) (sem el env) n Hh Hl), !tab_op2.
  reflexivity.
Qed.

Theorem Mfm_documented (cfg : volume_Mfm) (hs ls cs : list R) (n : nat) :
  length hs = n -> length ls = n -> length cs = n ->
  sem (volume_Mfm_Compute (T:=R) cfg (EIn 0) (EIn 1) (EIn 2)) [hs; ls; cs]
  = tab (Z.to_nat (volume_Mfm_IdlePeriod cfg)) n (Mfm_doc hs ls cs).
Proof. intros Hh Hl Hc. exact (sem_Mfm_gen cfg (EIn 0) (EIn 1) (EIn 2) [hs; ls; cs] n Hh Hl Hc). Qed.

(* ------------------------------------------------------------------------------------------ *)
(* 4. volume.Mfv    "MFV = MFM * Volume" *)

Definition Mfv_doc (hs ls cs vs : list R) (i : nat) : R := Mfm_doc hs ls cs i * at_ vs i.

Lemma sem_Mfv_gen (cfg : volume_Mfv) {I} (eh el ec ev : expr I R) env (n : nat) :
  length (sem eh env) = n -> length (sem el env) = n -> length (sem ec env) = n -> length (sem ev env) = n ->
  sem (volume_Mfv_Compute (T:=R) cfg eh el ec ev) env
  = tab 0 n (Mfv_doc (sem eh env) (sem el env) (sem ec env) (sem ev env)).
Proof.
  intros Hh Hl Hc Hv. unfold volume_Mfv_Compute, helper_Multiply.
  change (sem (EOp2 ?f ?a ?b) env) with (s_op2 f (sem a env) (sem b env)).
  rewrite (sem_Mfm_gen _ eh el ec env n Hh Hl Hc).
  rewrite (tab_raw_op2 _ _ (sem ev env) n Hv). reflexivity.
Qed.

Theorem Mfv_documented (cfg : volume_Mfv) (hs ls cs vs : list R) (n : nat) :
  length hs = n -> length ls = n -> length cs = n -> length vs = n ->
  sem (volume_Mfv_Compute (T:=R) cfg (EIn 0) (EIn 1) (EIn 2) (EIn 3)) [hs; ls; cs; vs]
  = tab (Z.to_nat (volume_Mfv_IdlePeriod cfg)) n (Mfv_doc hs ls cs vs).
Proof.
  intros Hh Hl Hc Hv. exact (sem_Mfv_gen cfg (EIn 0) (EIn 1) (EIn 2) (EIn 3) [hs; ls; cs; vs] n Hh Hl Hc Hv).
Qed.

(* ------------------------------------------------------------------------------------------ *)
(* 5. volume.Vwap   "VWAP = Sum(Closing * Volume) / Sum(Volume)"   (moving sums over the period) *)

Definition Vwap_doc (cfg : volume_Vwap) (cs vs : list R) : nat -> R :=
  let p := Z.to_nat (trend_MovingSum_Period (volume_Vwap_Sum cfg)) in
  fun i => wsum p (ser (length cs) (fun j => at_ cs j * at_ vs j)) i / wsum p vs i.

Theorem Vwap_documented (cfg : volume_Vwap) (cs vs : list R) (n : nat) :
  (1 <= trend_MovingSum_Period (volume_Vwap_Sum cfg))%Z ->
  length cs = n -> length vs = n ->
  sem (volume_Vwap_Compute (T:=R) cfg (EIn 0) (EIn 1)) [cs; vs]
  = tab (Z.to_nat (volume_Vwap_IdlePeriod cfg)) n (Vwap_doc cfg cs vs).
Proof.
  destruct cfg as [[p]]. cbn [volume_Vwap_Sum trend_MovingSum_Period]. intros Hp Hc Hv.
  unfold volume_Vwap_Compute, volume_Vwap_IdlePeriod, trend_MovingSum_IdlePeriod, Vwap_doc,
    helper_Divide, helper_Multiply.
  cbn [volume_Vwap_Sum trend_MovingSum_Period].
  cbn [sem]. rewrite !moving_sum_is_window_sum_expr by exact Hp.
  cbn [sem nth]. rewrite (raw_op2 _ cs vs n Hc Hv), tab_length, Nat.sub_0_r, Hv, Hc, tab_op2.
  replace (Z.to_nat (p - 1)) with (Z.to_nat p - 1)%nat by lia.
  reflexivity.
Qed.

(* ------------------------------------------------------------------------------------------ *)
(* MovingMax / MovingMin over an arbitrary input expression (Prim/MovingMaxProofs.v states them for EIn 0) *)

Definition nonzero_first (p : nat) (xs : list R) : Prop := Forall (fun x => x <> 0) (firstn p xs).

Lemma moving_max_gen {I} (p : Z) (e : expr I R) (env : list (list I)) :
  (1 <= p)%Z -> nonzero_first (Z.to_nat p) (sem e env) ->
  sem (trend_MovingMax_Compute (T:=R) (mk_trend_MovingMax p) e) env
  = tab (Z.to_nat p - 1) (length (sem e env)) (wmax (Z.to_nat p) (sem e env)).
Proof. intros Hp _. exact (moving_max_is_window_max_expr_all p e env Hp). Qed.

Lemma moving_min_gen {I} (p : Z) (e : expr I R) (env : list (list I)) :
  (1 <= p)%Z -> nonzero_first (Z.to_nat p) (sem e env) ->
  sem (trend_MovingMin_Compute (T:=R) (mk_trend_MovingMin p) e) env
  = tab (Z.to_nat p - 1) (length (sem e env)) (wmin (Z.to_nat p) (sem e env)).
Proof. intros Hp _. exact (moving_min_is_window_min_expr_all p e env Hp). Qed.

(* ------------------------------------------------------------------------------------------ *)
(* 6. volatility.DonchianChannel
      "Upper Channel = Mmax(period, closings)
       Lower Channel = Mmin(period, closings)
       Middle Channel = (Upper Channel + Lower Channel) / 2"
   The configuration pairs a MovingMax and a MovingMin of one period p.  MovingMax/MovingMin equal the window
   maximum/minimum when the first p inputs are non-zero (see Prim/MovingMaxProofs.v). *)

Definition Donchian_upper_doc (p : nat) (cs : list R) : nat -> R := wmax p cs.
Definition Donchian_lower_doc (p : nat) (cs : list R) : nat -> R := wmin p cs.
Definition Donchian_middle_doc (p : nat) (cs : list R) : nat -> R :=
  fun i => (Donchian_upper_doc p cs i + Donchian_lower_doc p cs i) / 2.

Section Donchian.
  Variable cfg : volatility_DonchianChannel.
  Variable cs : list R.
  Let p := trend_MovingMax_Period (volatility_DonchianChannel_Max cfg).
  Hypothesis Hp : (1 <= p)%Z.
  Hypothesis Hpair : trend_MovingMin_Period (volatility_DonchianChannel_Min cfg) = p.
  Hypothesis Hnz : nonzero_first (Z.to_nat p) cs.
  Let out := volatility_DonchianChannel_Compute (T:=R) cfg (EIn 0).
  Let w := Z.to_nat (volatility_DonchianChannel_IdlePeriod cfg).

  Lemma Donchian_all :
    sem (fst (fst out)) [cs] = tab w (length cs) (Donchian_upper_doc (Z.to_nat p) cs) /\
    sem (snd (fst out)) [cs] = tab w (length cs) (Donchian_middle_doc (Z.to_nat p) cs) /\
    sem (snd out) [cs] = tab w (length cs) (Donchian_lower_doc (Z.to_nat p) cs).
  Proof.
    subst out w. revert Hnz Hpair Hp. subst p. destruct cfg as [[p] [q]].
    cbn [volatility_DonchianChannel_Max volatility_DonchianChannel_Min trend_MovingMax_Period trend_MovingMin_Period].
    intros Hnz -> Hp.
    unfold volatility_DonchianChannel_Compute, volatility_DonchianChannel_IdlePeriod, trend_MovingMax_IdlePeriod,
      helper_DivideBy, helper_Add.
    cbn [volatility_DonchianChannel_Max volatility_DonchianChannel_Min trend_MovingMax_Period fst snd].
    replace (Z.to_nat (p - 1)) with (Z.to_nat p - 1)%nat by lia.
    assert (Emax := moving_max_gen p (EIn 0) [cs] Hp Hnz).
    assert (Emin := moving_min_gen p (EIn 0) [cs] Hp Hnz).
    change (sem (EIn 0) [cs]) with cs in Emax, Emin.
    split; [exact Emax|]. split; [|exact Emin].
    cbn [sem]. cbn [sem] in Emax, Emin. rewrite Emax, Emin, tab_op2, tab_map. reflexivity.
  Qed.

  Theorem DonchianChannel_upper_documented :
    sem (fst (fst out)) [cs] = tab w (length cs) (Donchian_upper_doc (Z.to_nat p) cs).
  Proof. exact (proj1 Donchian_all). Qed.
  Theorem DonchianChannel_middle_documented :
    sem (snd (fst out)) [cs] = tab w (length cs) (Donchian_middle_doc (Z.to_nat p) cs).
  Proof. exact (proj1 (proj2 Donchian_all)). Qed.
  Theorem DonchianChannel_lower_documented :
    sem (snd out) [cs] = tab w (length cs) (Donchian_lower_doc (Z.to_nat p) cs).
  Proof. exact (proj2 (proj2 Donchian_all)). Qed.
End Donchian.

(* ------------------------------------------------------------------------------------------ *)
(* 7. momentum.WilliamsR
      "WR = (Highest High - Closing) / (Highest High - Lowest Low) * -100."
   Highest high / lowest low of the past N days: window maximum of the highs / window minimum of the lows. *)

Definition WilliamsR_doc (cfg : momentum_WilliamsR) (hs ls cs : list R) : nat -> R :=
  let p := Z.to_nat (trend_MovingMax_Period (momentum_WilliamsR_Max cfg)) in
  fun i => (wmax p hs i - at_ cs i) / (wmax p hs i - wmin p ls i) * -100.

Theorem WilliamsR_documented (cfg : momentum_WilliamsR) (hs ls cs : list R) (n : nat) :
  let p := trend_MovingMax_Period (momentum_WilliamsR_Max cfg) in
  (1 <= p)%Z -> trend_MovingMin_Period (momentum_WilliamsR_Min cfg) = p ->
  nonzero_first (Z.to_nat p) hs -> nonzero_first (Z.to_nat p) ls ->
  length hs = n -> length ls = n -> length cs = n ->
  sem (momentum_WilliamsR_Compute (T:=R) cfg (EIn 0) (EIn 1) (EIn 2)) [hs; ls; cs]
  = tab (Z.to_nat (momentum_WilliamsR_IdlePeriod cfg)) n (WilliamsR_doc cfg hs ls cs).
Proof.
  destruct cfg as [[p] [q]].
  cbn [momentum_WilliamsR_Max momentum_WilliamsR_Min trend_MovingMax_Period trend_MovingMin_Period].
  intros Hp -> Hnh Hnl Hh Hl Hc.
  unfold momentum_WilliamsR_Compute, momentum_WilliamsR_IdlePeriod, trend_MovingMax_IdlePeriod, WilliamsR_doc,
    helper_MultiplyBy, helper_Divide, helper_Subtract.
  cbn [momentum_WilliamsR_Max momentum_WilliamsR_Min trend_MovingMax_Period].
  assert (Emax := moving_max_gen p (EIn 0) [hs; ls; cs] Hp Hnh).
  assert (Emin := moving_min_gen p (EIn 1) [hs; ls; cs] Hp Hnl).
  change (sem (EIn 0) [hs; ls; cs]) with hs in Emax. change (sem (EIn 1) [hs; ls; cs]) with ls in Emin.
  rewrite Hh in Emax. rewrite Hl in Emin.
  cbn [sem]. cbn [sem] in Emax, Emin. rewrite Emax, Emin. cbn [nth].
  rewrite (raw_s_skip _ cs n Hc).
  replace (Z.to_nat (p - 1)) with (Z.to_nat p - 1)%nat by lia.
  rewrite !tab_op2, tab_map. reflexivity.
Qed.

(* ------------------------------------------------------------------------------------------ *)
(* 8. momentum.StochasticOscillator
      "K = (Closing - Lowest Low) / (Highest High - Lowest Low) * 100
       D = 3-Period SMA of K"        (3 is the default of the SMA period)
   K is reported from the position where D is available. *)

Definition Stochastic_K_doc (cfg : momentum_StochasticOscillator) (hs ls cs : list R) : nat -> R :=
  let p := Z.to_nat (trend_MovingMax_Period (momentum_StochasticOscillator_Max cfg)) in
  fun i => (at_ cs i - wmin p ls i) / (wmax p hs i - wmin p ls i) * 100.

Definition Stochastic_D_doc (cfg : momentum_StochasticOscillator) (hs ls cs : list R) : nat -> R :=
  let q := Z.to_nat (trend_Sma_Period (momentum_StochasticOscillator_Sma cfg)) in
  wmean q (ser (length cs) (Stochastic_K_doc cfg hs ls cs)).

Lemma Stochastic_all (cfg : momentum_StochasticOscillator) (hs ls cs : list R) (n : nat) :
  let p := trend_MovingMax_Period (momentum_StochasticOscillator_Max cfg) in
  let out := momentum_StochasticOscillator_Compute (T:=R) cfg (EIn 0) (EIn 1) (EIn 2) in
  let w := Z.to_nat (momentum_StochasticOscillator_IdlePeriod cfg) in
  (1 <= p)%Z -> trend_MovingMin_Period (momentum_StochasticOscillator_Min cfg) = p ->
  (1 <= trend_Sma_Period (momentum_StochasticOscillator_Sma cfg))%Z ->
  nonzero_first (Z.to_nat p) hs -> nonzero_first (Z.to_nat p) ls ->
  length hs = n -> length ls = n -> length cs = n ->
  sem (fst out) [hs; ls; cs] = tab w n (Stochastic_K_doc cfg hs ls cs) /\
  sem (snd out) [hs; ls; cs] = tab w n (Stochastic_D_doc cfg hs ls cs).
Proof.
  destruct cfg as [[p] [p'] [q]].
  cbn [momentum_StochasticOscillator_Max momentum_StochasticOscillator_Min momentum_StochasticOscillator_Sma
       trend_MovingMax_Period trend_MovingMin_Period trend_Sma_Period].
  intros Hp -> Hq Hnh Hnl Hh Hl Hc.
  unfold momentum_StochasticOscillator_Compute, momentum_StochasticOscillator_IdlePeriod, trend_MovingMax_IdlePeriod,
    trend_MovingMin_IdlePeriod, trend_Sma_IdlePeriod, Stochastic_D_doc, Stochastic_K_doc,
    helper_MultiplyBy, helper_Divide, helper_Subtract.
  cbn [momentum_StochasticOscillator_Max momentum_StochasticOscillator_Min momentum_StochasticOscillator_Sma
       trend_MovingMax_Period trend_MovingMin_Period trend_Sma_Period fst snd].
  assert (Emax := moving_max_gen p (EIn 0) [hs; ls; cs] Hp Hnh).
  assert (Emin := moving_min_gen p (EIn 1) [hs; ls; cs] Hp Hnl).
  change (sem (EIn 0) [hs; ls; cs]) with hs in Emax. change (sem (EIn 1) [hs; ls; cs]) with ls in Emin.
  rewrite Hh in Emax. rewrite Hl in Emin.
  set (K := fun i => (at_ cs i - wmin (Z.to_nat p) ls i) / (wmax (Z.to_nat p) hs i - wmin (Z.to_nat p) ls i) * 100).
  assert (EK : sem (EMap (fun n0 : R => nmul n0 (nofZ 100))
                 (EOp2 (fun a b : R => ndiv a b)
                    (EOp2 (fun a b : R => nsub a b) (ESkip (p - 1) (EIn 2))
                       (trend_MovingMin_Compute (mk_trend_MovingMin p) (EIn 1)))
                    (EOp2 (fun a b : R => nsub a b) (trend_MovingMax_Compute (mk_trend_MovingMax p) (EIn 0))
                       (trend_MovingMin_Compute (mk_trend_MovingMin p) (EIn 1))))) [hs; ls; cs]
               = tab (Z.to_nat p - 1) n K).
  { cbn [sem]. cbn [sem] in Emax, Emin. rewrite Emax, Emin. cbn [nth].
    rewrite (raw_s_skip _ cs n Hc).
    replace (Z.to_nat (p - 1)) with (Z.to_nat p - 1)%nat by lia.
    rewrite !tab_op2, tab_map. reflexivity. }
  replace (Z.to_nat (p - 1 + (q - 1))) with (Z.to_nat p - 1 + (Z.to_nat q - 1))%nat by lia.
  split.
  - change (sem (ESkip ?k ?e) ?env) with (s_skip k (sem e env)).
    rewrite EK, tab_s_skip. f_equal. lia.
  - rewrite sma_is_window_mean_expr by exact Hq.
    rewrite EK. rewrite tab_wmean_tab by lia. rewrite Hc. reflexivity.
Qed.

Theorem StochasticOscillator_K_documented (cfg : momentum_StochasticOscillator) (hs ls cs : list R) (n : nat) :
  let p := trend_MovingMax_Period (momentum_StochasticOscillator_Max cfg) in
  (1 <= p)%Z -> trend_MovingMin_Period (momentum_StochasticOscillator_Min cfg) = p ->
  (1 <= trend_Sma_Period (momentum_StochasticOscillator_Sma cfg))%Z ->
  nonzero_first (Z.to_nat p) hs -> nonzero_first (Z.to_nat p) ls ->
  length hs = n -> length ls = n -> length cs = n ->
  sem (fst (momentum_StochasticOscillator_Compute (T:=R) cfg (EIn 0) (EIn 1) (EIn 2))) [hs; ls; cs]
  = tab (Z.to_nat (momentum_StochasticOscillator_IdlePeriod cfg)) n (Stochastic_K_doc cfg hs ls cs).
Proof. intros p H1 H2 H3 H4 H5 H6 H7 H8. exact (proj1 (Stochastic_all cfg hs ls cs n H1 H2 H3 H4 H5 H6 H7 H8)). Qed.

Theorem StochasticOscillator_D_documented (cfg : momentum_StochasticOscillator) (hs ls cs : list R) (n : nat) :
  let p := trend_MovingMax_Period (momentum_StochasticOscillator_Max cfg) in
  (1 <= p)%Z -> trend_MovingMin_Period (momentum_StochasticOscillator_Min cfg) = p ->
  (1 <= trend_Sma_Period (momentum_StochasticOscillator_Sma cfg))%Z ->
  nonzero_first (Z.to_nat p) hs -> nonzero_first (Z.to_nat p) ls ->
  length hs = n -> length ls = n -> length cs = n ->
  sem (snd (momentum_StochasticOscillator_Compute (T:=R) cfg (EIn 0) (EIn 1) (EIn 2))) [hs; ls; cs]
  = tab (Z.to_nat (momentum_StochasticOscillator_IdlePeriod cfg)) n (Stochastic_D_doc cfg hs ls cs).
Proof. intros p H1 H2 H3 H4 H5 H6 H7 H8. exact (proj2 (Stochastic_all cfg hs ls cs n H1 H2 H3 H4 H5 H6 H7 H8)). Qed.

(* ------------------------------------------------------------------------------------------ *)
(* Cumulative indicators: "X = Previous X + term".
   [accum f w k] is the value after k updates with the terms f w, f (w+1), ..., f (w+k-1), starting from 0:
     accum f w 0 = 0        accum f w (k+1) = accum f w k + f (w + k)                                        *)

Fixpoint accum (f : nat -> R) (w : nat) (k : nat) : R :=
  match k with
  | O => 0
  | S k' => accum f w k' + f (w + k')%nat
  end.

(* closed form in the window vocabulary: the sum of the k terms ending at position w+k-1 *)
Lemma accum_Rsum (f : nat -> R) (w k : nat) : accum f w k = Rsum (map f (seq w k)).
Proof.
  induction k as [|k IH]; [reflexivity|].
  cbn [accum]. rewrite IH, seq_S, map_app, Rsum_app. cbn [map]. rewrite Rsum_cons, Rsum_nil. lra.
Qed.

Lemma accum_is_wsum (f : nat -> R) (n w k : nat) : (w + k <= n)%nat ->
  accum f w k = wsum k (ser n f) (w + k - 1).
Proof.
  intros H. rewrite accum_Rsum. unfold wsum, window. f_equal.
  destruct k as [|k]; [reflexivity|].
  replace (w + S k - 1 + 1 - S k)%nat with w by lia.
  apply map_ext_in. intros i Hi. apply in_seq in Hi. rewrite at_ser by lia. reflexivity.
Qed.

Lemma accum_ext (f g : nat -> R) (w k : nat) : (forall i, f i = g i) -> accum f w k = accum g w k.
Proof. intros H. induction k as [|k IH]; [reflexivity|]. cbn [accum]. rewrite IH, H. reflexivity. Qed.

Lemma s_mapst_accum (step : R -> R -> R * R) (f : nat -> R) (w : nat)
      (Hstep : forall s x, step s x = (s + x, s + x)) :
  forall len k,
    s_mapst step (accum f w k) (map f (seq (w + k) len))
    = map (fun i => accum f w (S i - w)) (seq (w + k) len).
Proof.
  induction len as [|len IH]; intros k; [reflexivity|].
  cbn [seq map s_mapst]. rewrite Hstep.
  replace (S (w + k) - w)%nat with (S k) by lia. cbn [accum]. f_equal.
  replace (S (w + k)) with (w + S k)%nat by lia.
  rewrite <- IH. reflexivity.
Qed.

Lemma tab_accum (step : R -> R -> R * R) (f : nat -> R) (w n : nat)
      (Hstep : forall s x, step s x = (s + x, s + x)) :
  s_mapst step 0 (tab w n f) = tab w n (fun i => accum f w (S i - w)).
Proof.
  unfold tab. pose proof (s_mapst_accum step f w Hstep (n - w) 0) as H.
  rewrite Nat.add_0_r in H. exact H.
Qed.

(* ------------------------------------------------------------------------------------------ *)
(* 9. volume.Ad
      "MFM = ((Closing - Low) - (High - Closing)) / (High - Low)
       MFV = MFM * Period Volume
       AD = Previous AD + CMFV"
   AD at position i is the value after the i+1 updates with MFV 0 .. MFV i. *)

Definition Ad_doc (hs ls cs vs : list R) (i : nat) : R := accum (Mfv_doc hs ls cs vs) 0 (S i).

Lemma sem_Ad_gen (cfg : volume_Ad) {I} (eh el ec ev : expr I R) env (n : nat) :
  length (sem eh env) = n -> length (sem el env) = n -> length (sem ec env) = n -> length (sem ev env) = n ->
  sem (volume_Ad_Compute (T:=R) cfg eh el ec ev) env
  = tab 0 n (Ad_doc (sem eh env) (sem el env) (sem ec env) (sem ev env)).
Proof.
  intros Hh Hl Hc Hv. unfold volume_Ad_Compute.
  change (sem (EMapSt ?s ?f ?e) env) with (s_mapst f s (sem e env)).
  rewrite (sem_Mfv_gen _ eh el ec ev env n Hh Hl Hc Hv).
  rewrite tab_accum by (intros; reflexivity).
  apply tab_ext. intros i _. unfold Ad_doc. rewrite Nat.sub_0_r. reflexivity.
Qed.

Theorem Ad_documented (cfg : volume_Ad) (hs ls cs vs : list R) (n : nat) :
  length hs = n -> length ls = n -> length cs = n -> length vs = n ->
  sem (volume_Ad_Compute (T:=R) cfg (EIn 0) (EIn 1) (EIn 2) (EIn 3)) [hs; ls; cs; vs]
  = tab (Z.to_nat (volume_Ad_IdlePeriod cfg)) n (Ad_doc hs ls cs vs).
Proof.
  intros Hh Hl Hc Hv. exact (sem_Ad_gen cfg (EIn 0) (EIn 1) (EIn 2) (EIn 3) [hs; ls; cs; vs] n Hh Hl Hc Hv).
Qed.

(* the recurrence and the closed form *)
Lemma Ad_doc_first hs ls cs vs : Ad_doc hs ls cs vs 0 = 0 + Mfv_doc hs ls cs vs 0.
Proof. reflexivity. Qed.
Lemma Ad_doc_step hs ls cs vs i : Ad_doc hs ls cs vs (S i) = Ad_doc hs ls cs vs i + Mfv_doc hs ls cs vs (S i).
Proof. reflexivity. Qed.
Lemma Ad_doc_closed hs ls cs vs n i : (i < n)%nat ->
  Ad_doc hs ls cs vs i = wsum (S i) (ser n (Mfv_doc hs ls cs vs)) i.
Proof.
  intros H. unfold Ad_doc. rewrite (accum_is_wsum _ n) by lia. f_equal. lia.
Qed.

(* ------------------------------------------------------------------------------------------ *)
(* 10. volume.Vpt
       "VPT = Previous VPT + (Volume * (Current Closing - Previous Closing) / Previous Closing)"
   VPT at position i >= 1 is the value after the i updates for the positions 1 .. i. *)

Definition Vpt_term (cs vs : list R) (i : nat) : R := at_ vs i * (at_ cs i - at_ cs (i - 1)) / at_ cs (i - 1).
Definition Vpt_doc (cs vs : list R) (i : nat) : R := accum (Vpt_term cs vs) 1 i.

Lemma s_op2_firstn {A B C} (g : A -> B -> C) : forall (a : list A) (b : list B),
  s_op2 g a b = s_op2 g a (firstn (length a) b).
Proof.
  induction a as [|x a IH]; intros b; [reflexivity|].
  destruct b as [|y b]; [reflexivity|]. cbn [length firstn s_op2]. rewrite <- IH. reflexivity.
Qed.

(* the second operand is read from its beginning: position i of the first meets position i-k of the second *)
Lemma tab_op2_lag (g : R -> R -> R) (k n : nat) (f : nat -> R) (b : list R) : length b = n ->
  s_op2 g (tab k n f) b = tab k n (fun i => g (f i) (at_ b (i - k))).
Proof.
  intros Hb. rewrite s_op2_firstn, tab_length.
  assert (E : firstn (n - k) b = tab k n (fun i => at_ b (i - k)%nat)).
  { rewrite (@firstn_map_nth R 0 b (n - k)) by lia.
    transitivity (tab 0 (n - k) (at_ b)); [unfold tab; rewrite Nat.sub_0_r; reflexivity|].
    rewrite (tab_reindex' k), Nat.add_0_r. reflexivity. }
  rewrite E. apply tab_op2.
Qed.

Lemma sem_Vpt_gen (cfg : volume_Vpt) {I} (ec ev : expr I R) env (n : nat) :
  length (sem ec env) = n -> length (sem ev env) = n ->
  sem (volume_Vpt_Compute (T:=R) cfg ec ev) env = tab 1 n (Vpt_doc (sem ec env) (sem ev env)).
Proof.
  intros Hc Hv. set (cs := sem ec env) in *. set (vs := sem ev env) in *.
  unfold volume_Vpt_Compute, helper_Multiply, helper_ChangeRatio, helper_Change, helper_Divide, helper_Subtract.
  cbn [sem]. fold cs vs. unfold s_buffered.
  rewrite (raw_s_skip 1 cs n Hc), (raw_s_skip 1 vs n Hv). change (Z.to_nat 1) with 1%nat.
  rewrite !(tab_op2_lag _ 1 n _ cs Hc), tab_op2.
  rewrite tab_accum by (intros; reflexivity).
  apply tab_ext. intros i Hi. unfold Vpt_doc. replace (S i - 1)%nat with i by lia.
  apply accum_ext. intros j. unfold Vpt_term. cbn [nmul ndiv nsub NumR]. unfold Rdiv. ring.
Qed.

Theorem Vpt_documented (cfg : volume_Vpt) (cs vs : list R) (n : nat) :
  length cs = n -> length vs = n ->
  sem (volume_Vpt_Compute (T:=R) cfg (EIn 0) (EIn 1)) [cs; vs]
  = tab (Z.to_nat (volume_Vpt_IdlePeriod cfg)) n (Vpt_doc cs vs).
Proof. intros Hc Hv. exact (sem_Vpt_gen cfg (EIn 0) (EIn 1) [cs; vs] n Hc Hv). Qed.

Lemma Vpt_doc_first cs vs : Vpt_doc cs vs 0 = 0.
Proof. reflexivity. Qed.
Lemma Vpt_doc_step cs vs i :
  Vpt_doc cs vs (S i) = Vpt_doc cs vs i + at_ vs (S i) * (at_ cs (S i) - at_ cs i) / at_ cs i.
Proof. unfold Vpt_doc. cbn [accum]. unfold Vpt_term. cbn [Nat.add].
  replace (S i - 1)%nat with i by lia. reflexivity. Qed.

(* ------------------------------------------------------------------------------------------ *)
(* 11. momentum.Ppo
       "PPO = ((EMA(shortPeriod, prices) - EMA(longPeriod, prices)) / EMA(longPeriod, prices)) * 100
        Signal = EMA(9, PPO)
        Histogram = PPO - Signal"          (9 is the default of the signal period)
   The PPO series starts at position longPeriod-1; the signal is the EMA of that series (seeded with the mean of its
   first signalPeriod values), so its value at absolute position i is the EMA value at index i - (longPeriod-1). *)

Definition Ppo_doc (cfg : momentum_Ppo (T:=R)) (cs : list R) (i : nat) : R :=
  let emaS := ema_doc (Z.to_nat (trend_Ema_Period (momentum_Ppo_ShortEma cfg)))
                      (trend_Ema_Smoothing (momentum_Ppo_ShortEma cfg)) cs in
  let emaL := ema_doc (Z.to_nat (trend_Ema_Period (momentum_Ppo_LongEma cfg)))
                      (trend_Ema_Smoothing (momentum_Ppo_LongEma cfg)) cs in
  ((emaS i - emaL i) / emaL i) * 100.
Definition Ppo_signal_doc (cfg : momentum_Ppo (T:=R)) (cs : list R) (i : nat) : R :=
  let L := Z.to_nat (trend_Ema_Period (momentum_Ppo_LongEma cfg)) in
  ema_doc (Z.to_nat (trend_Ema_Period (momentum_Ppo_SignalEma cfg)))
          (trend_Ema_Smoothing (momentum_Ppo_SignalEma cfg))
          (tab (L - 1) (length cs) (Ppo_doc cfg cs)) (i - (L - 1)).
Definition Ppo_histogram_doc (cfg : momentum_Ppo (T:=R)) (cs : list R) (i : nat) : R :=
  Ppo_doc cfg cs i - Ppo_signal_doc cfg cs i.

Lemma Ppo_all (cfg : momentum_Ppo (T:=R)) (cs : list R) :
  let out := momentum_Ppo_Compute (T:=R) cfg (EIn 0) in
  let w := Z.to_nat (momentum_Ppo_IdlePeriod cfg) in
  (1 <= trend_Ema_Period (momentum_Ppo_ShortEma cfg))%Z ->
  (trend_Ema_Period (momentum_Ppo_ShortEma cfg) <= trend_Ema_Period (momentum_Ppo_LongEma cfg))%Z ->
  (1 <= trend_Ema_Period (momentum_Ppo_SignalEma cfg))%Z ->
  sem (fst (fst out)) [cs] = tab w (length cs) (Ppo_doc cfg cs) /\
  sem (snd (fst out)) [cs] = tab w (length cs) (Ppo_signal_doc cfg cs) /\
  sem (snd out) [cs] = tab w (length cs) (Ppo_histogram_doc cfg cs).
Proof.
  destruct cfg as [[s ks] [l kl] [g kg]].
  cbn [momentum_Ppo_ShortEma momentum_Ppo_LongEma momentum_Ppo_SignalEma trend_Ema_Period].
  intros Hs Hsl Hg. set (n := length cs).
  unfold momentum_Ppo_Compute, momentum_Ppo_IdlePeriod, trend_Ema_IdlePeriod, Ppo_histogram_doc, Ppo_signal_doc,
    helper_MultiplyBy, helper_Divide, helper_Subtract.
  cbn [momentum_Ppo_ShortEma momentum_Ppo_LongEma momentum_Ppo_SignalEma trend_Ema_Period trend_Ema_Smoothing fst snd].
  set (PPO := Ppo_doc (mk_momentum_Ppo (mk_trend_Ema s ks) (mk_trend_Ema l kl) (mk_trend_Ema g kg)) cs).
  set (ppo0 := EMap (fun n0 : R => nmul n0 (nofZ 100))
                 (EOp2 (fun a b : R => ndiv a b)
                    (EOp2 (fun a b : R => nsub a b)
                       (ESkip (l - 1 - (s - 1)) (trend_Ema_Compute (mk_trend_Ema s ks) (EIn 0)))
                       (trend_Ema_Compute (mk_trend_Ema l kl) (EIn 0)))
                    (trend_Ema_Compute (mk_trend_Ema l kl) (EIn 0)))).
  assert (E0 : sem ppo0 [cs] = tab (Z.to_nat l - 1) n PPO).
  { unfold ppo0. cbn [sem]. rewrite !ema_is_documented_gen by lia. cbn [sem nth]. fold n.
    rewrite tab_s_skip.
    replace (Z.to_nat s - 1 + Z.to_nat (l - 1 - (s - 1)))%nat with (Z.to_nat l - 1)%nat by lia.
    rewrite !tab_op2, tab_map. reflexivity. }
  assert (Esig : sem (trend_Ema_Compute (mk_trend_Ema g kg) ppo0) [cs]
                 = tab (Z.to_nat (l - 1 + (g - 1))) n
                     (fun i => ema_doc (Z.to_nat g) kg (tab (Z.to_nat l - 1) n PPO) (i - (Z.to_nat l - 1)))).
  { rewrite ema_is_documented_gen by lia. rewrite E0, tab_length, (tab_reindex' (Z.to_nat l - 1)).
    f_equal. lia. }
  assert (Eppo : sem (ESkip (g - 1) ppo0) [cs] = tab (Z.to_nat (l - 1 + (g - 1))) n PPO).
  { change (sem (ESkip ?k ?e) ?env) with (s_skip k (sem e env)). rewrite E0, tab_s_skip. f_equal. lia. }
  split; [exact Eppo|]. split; [exact Esig|].
  change (sem (EOp2 ?f ?a ?b) ?env) with (s_op2 f (sem a env) (sem b env)).
  rewrite Eppo, Esig, tab_op2. reflexivity.
Qed.

Theorem Ppo_documented (cfg : momentum_Ppo (T:=R)) (cs : list R) :
  (1 <= trend_Ema_Period (momentum_Ppo_ShortEma cfg))%Z ->
  (trend_Ema_Period (momentum_Ppo_ShortEma cfg) <= trend_Ema_Period (momentum_Ppo_LongEma cfg))%Z ->
  (1 <= trend_Ema_Period (momentum_Ppo_SignalEma cfg))%Z ->
  sem (fst (fst (momentum_Ppo_Compute (T:=R) cfg (EIn 0)))) [cs]
  = tab (Z.to_nat (momentum_Ppo_IdlePeriod cfg)) (length cs) (Ppo_doc cfg cs).
Proof. intros H1 H2 H3. exact (proj1 (Ppo_all cfg cs H1 H2 H3)). Qed.

Theorem Ppo_signal_documented (cfg : momentum_Ppo (T:=R)) (cs : list R) :
  (1 <= trend_Ema_Period (momentum_Ppo_ShortEma cfg))%Z ->
  (trend_Ema_Period (momentum_Ppo_ShortEma cfg) <= trend_Ema_Period (momentum_Ppo_LongEma cfg))%Z ->
  (1 <= trend_Ema_Period (momentum_Ppo_SignalEma cfg))%Z ->
  sem (snd (fst (momentum_Ppo_Compute (T:=R) cfg (EIn 0)))) [cs]
  = tab (Z.to_nat (momentum_Ppo_IdlePeriod cfg)) (length cs) (Ppo_signal_doc cfg cs).
Proof. intros H1 H2 H3. exact (proj1 (proj2 (Ppo_all cfg cs H1 H2 H3))). Qed.

Theorem Ppo_histogram_documented (cfg : momentum_Ppo (T:=R)) (cs : list R) :
  (1 <= trend_Ema_Period (momentum_Ppo_ShortEma cfg))%Z ->
  (trend_Ema_Period (momentum_Ppo_ShortEma cfg) <= trend_Ema_Period (momentum_Ppo_LongEma cfg))%Z ->
  (1 <= trend_Ema_Period (momentum_Ppo_SignalEma cfg))%Z ->
  sem (snd (momentum_Ppo_Compute (T:=R) cfg (EIn 0))) [cs]
  = tab (Z.to_nat (momentum_Ppo_IdlePeriod cfg)) (length cs) (Ppo_histogram_doc cfg cs).
Proof. intros H1 H2 H3. exact (proj2 (proj2 (Ppo_all cfg cs H1 H2 H3))). Qed.

(* ------------------------------------------------------------------------------------------ *)
(* 12. momentum.ChaikinOscillator
       "It takes the difference between fast and slow periods EMA of the A/D.
        CO = Ema(fastPeriod, AD) - Ema(slowPeriod, AD)"
   Second output: the A/D line itself, from the same position. *)

Definition Chaikin_doc (cfg : momentum_ChaikinOscillator (T:=R)) (hs ls cs vs : list R) : nat -> R :=
  let s := Z.to_nat (trend_Ema_Period (momentum_ChaikinOscillator_ShortEma cfg)) in
  let l := Z.to_nat (trend_Ema_Period (momentum_ChaikinOscillator_LongEma cfg)) in
  let ad := ser (length cs) (Ad_doc hs ls cs vs) in
  fun i => ema_doc s (trend_Ema_Smoothing (momentum_ChaikinOscillator_ShortEma cfg)) ad i
           - ema_doc l (trend_Ema_Smoothing (momentum_ChaikinOscillator_LongEma cfg)) ad i.

Lemma Chaikin_all (cfg : momentum_ChaikinOscillator (T:=R)) (hs ls cs vs : list R) (n : nat) :
  let out := momentum_ChaikinOscillator_Compute (T:=R) cfg (EIn 0) (EIn 1) (EIn 2) (EIn 3) in
  let w := Z.to_nat (momentum_ChaikinOscillator_IdlePeriod cfg) in
  (1 <= trend_Ema_Period (momentum_ChaikinOscillator_ShortEma cfg))%Z ->
  (trend_Ema_Period (momentum_ChaikinOscillator_ShortEma cfg)
   <= trend_Ema_Period (momentum_ChaikinOscillator_LongEma cfg))%Z ->
  length hs = n -> length ls = n -> length cs = n -> length vs = n ->
  sem (fst out) [hs; ls; cs; vs] = tab w n (Chaikin_doc cfg hs ls cs vs) /\
  sem (snd out) [hs; ls; cs; vs] = tab w n (Ad_doc hs ls cs vs).
Proof.
  destruct cfg as [ad [s ks] [l kl]].
  cbn [momentum_ChaikinOscillator_ShortEma momentum_ChaikinOscillator_LongEma trend_Ema_Period].
  intros Hs Hsl Hh Hl Hc Hv.
  unfold momentum_ChaikinOscillator_Compute, momentum_ChaikinOscillator_IdlePeriod, trend_Ema_IdlePeriod, Chaikin_doc,
    helper_Subtract.
  cbn [momentum_ChaikinOscillator_ShortEma momentum_ChaikinOscillator_LongEma momentum_ChaikinOscillator_Ad
       trend_Ema_Period trend_Ema_Smoothing fst snd].
  assert (Ead := sem_Ad_gen ad (EIn 0) (EIn 1) (EIn 2) (EIn 3) [hs; ls; cs; vs] n Hh Hl Hc Hv).
  change (sem (EIn 0) [hs; ls; cs; vs]) with hs in Ead. change (sem (EIn 1) [hs; ls; cs; vs]) with ls in Ead.
  change (sem (EIn 2) [hs; ls; cs; vs]) with cs in Ead. change (sem (EIn 3) [hs; ls; cs; vs]) with vs in Ead.
  split.
  - change (sem (EOp2 ?f ?a ?b) ?env) with (s_op2 f (sem a env) (sem b env)).
    change (sem (ESkip ?k ?e) ?env) with (s_skip k (sem e env)).
    rewrite !ema_is_documented_gen by lia. rewrite Ead, tab_length, Nat.sub_0_r, tab_s_skip.
    replace (Z.to_nat s - 1 + Z.to_nat (l - 1 - (s - 1)))%nat with (Z.to_nat (l - 1)) by lia.
    replace (Z.to_nat l - 1)%nat with (Z.to_nat (l - 1)) by lia.
    rewrite tab_op2, Hc. reflexivity.
  - change (sem (ESkip ?k ?e) ?env) with (s_skip k (sem e env)).
    rewrite Ead, tab_s_skip. reflexivity.
Qed.

Theorem ChaikinOscillator_documented (cfg : momentum_ChaikinOscillator (T:=R)) (hs ls cs vs : list R) (n : nat) :
  (1 <= trend_Ema_Period (momentum_ChaikinOscillator_ShortEma cfg))%Z ->
  (trend_Ema_Period (momentum_ChaikinOscillator_ShortEma cfg)
   <= trend_Ema_Period (momentum_ChaikinOscillator_LongEma cfg))%Z ->
  length hs = n -> length ls = n -> length cs = n -> length vs = n ->
  sem (fst (momentum_ChaikinOscillator_Compute (T:=R) cfg (EIn 0) (EIn 1) (EIn 2) (EIn 3))) [hs; ls; cs; vs]
  = tab (Z.to_nat (momentum_ChaikinOscillator_IdlePeriod cfg)) n (Chaikin_doc cfg hs ls cs vs).
Proof. intros H1 H2 H3 H4 H5 H6. exact (proj1 (Chaikin_all cfg hs ls cs vs n H1 H2 H3 H4 H5 H6)). Qed.

Theorem ChaikinOscillator_ad_documented (cfg : momentum_ChaikinOscillator (T:=R)) (hs ls cs vs : list R) (n : nat) :
  (1 <= trend_Ema_Period (momentum_ChaikinOscillator_ShortEma cfg))%Z ->
  (trend_Ema_Period (momentum_ChaikinOscillator_ShortEma cfg)
   <= trend_Ema_Period (momentum_ChaikinOscillator_LongEma cfg))%Z ->
  length hs = n -> length ls = n -> length cs = n -> length vs = n ->
  sem (snd (momentum_ChaikinOscillator_Compute (T:=R) cfg (EIn 0) (EIn 1) (EIn 2) (EIn 3))) [hs; ls; cs; vs]
  = tab (Z.to_nat (momentum_ChaikinOscillator_IdlePeriod cfg)) n (Ad_doc hs ls cs vs).
Proof. intros H1 H2 H3 H4 H5 H6. exact (proj2 (Chaikin_all cfg hs ls cs vs n H1 H2 H3 H4 H5 H6)). Qed.

(* ------------------------------------------------------------------------------------------ *)
(* 13. volatility.Atr
       "TR = Max((High - Low), (High - Previous Closing), (Previous Closing - Low))
        ATR = MA TR
        By default, SMA is used as the MA." *)

Definition TrueRange_doc (hs ls cs : list R) (i : nat) : R :=
  Rmax (at_ hs i - at_ ls i) (Rmax (at_ hs i - at_ cs (i - 1)) (at_ cs (i - 1) - at_ ls i)).

Definition Atr_sma_doc (p : nat) (hs ls cs : list R) : nat -> R :=
  wmean p (ser (length cs) (TrueRange_doc hs ls cs)).

Lemma s_op3_firstn {A B C D} (g : A -> B -> C -> D) : forall (a : list A) (b : list B) (c : list C),
  s_op3 g a b c = s_op3 g a b (firstn (length a) c).
Proof.
  induction a as [|x a IH]; intros b c; [reflexivity|].
  destruct b as [|y b]; [reflexivity|]. destruct c as [|z c]; [reflexivity|].
  cbn [length firstn s_op3]. rewrite <- IH. reflexivity.
Qed.

Lemma tab_op3_lag (g : R -> R -> R -> R) (k n : nat) (f1 f2 : nat -> R) (c : list R) : length c = n ->
  s_op3 g (tab k n f1) (tab k n f2) c = tab k n (fun i => g (f1 i) (f2 i) (at_ c (i - k))).
Proof.
  intros Hc. rewrite s_op3_firstn, tab_length.
  assert (E : firstn (n - k) c = tab k n (fun i => at_ c (i - k)%nat)).
  { rewrite (@firstn_map_nth R 0 c (n - k)) by lia.
    transitivity (tab 0 (n - k) (at_ c)); [unfold tab; rewrite Nat.sub_0_r; reflexivity|].
    rewrite (tab_reindex' k), Nat.add_0_r. reflexivity. }
  rewrite E. apply tab_op3.
Qed.

(* the true-range series the moving average is applied to: positions 1 .. n-1 *)
Lemma sem_true_range {I} (eh el ec : expr I R) env (n : nat) :
  length (sem eh env) = n -> length (sem el env) = n -> length (sem ec env) = n ->
  sem (EOp3 (fun high low closing : R => nmax (nsub high low) (nmax (nsub high closing) (nsub closing low)))
         (ESkip 1 eh) (ESkip 1 el) ec) env
  = tab 1 n (TrueRange_doc (sem eh env) (sem el env) (sem ec env)).
Proof.
  intros Hh Hl Hc. cbn [sem].
  rewrite (raw_s_skip 1 _ n Hh), (raw_s_skip 1 _ n Hl). change (Z.to_nat 1) with 1%nat.
  rewrite (tab_op3_lag _ 1 n _ _ _ Hc). reflexivity.
Qed.

(* any moving average: ATR is the moving average applied to the true-range series *)
Theorem Atr_is_ma_of_true_range (ma : trend_Ma (I:=R) (T:=R)) (hs ls cs : list R) (n : nat) :
  length hs = n -> length ls = n -> length cs = n ->
  exists tr : expr R R,
    sem tr [hs; ls; cs] = tab 1 n (TrueRange_doc hs ls cs) /\
    volatility_Atr_Compute (mk_volatility_Atr ma) (EIn 0) (EIn 1) (EIn 2) = trend_Ma_Compute ma tr.
Proof.
  intros Hh Hl Hc. eexists. split; [|reflexivity].
  exact (sem_true_range (EIn 0) (EIn 1) (EIn 2) [hs; ls; cs] n Hh Hl Hc).
Qed.

(* the default: SMA of the period *)
Theorem Atr_documented (p : Z) (hs ls cs : list R) (n : nat) :
  (1 <= p)%Z -> length hs = n -> length ls = n -> length cs = n ->
  let cfg := volatility_NewAtrWithPeriod (I:=R) (T:=R) p in
  sem (volatility_Atr_Compute cfg (EIn 0) (EIn 1) (EIn 2)) [hs; ls; cs]
  = tab (Z.to_nat (volatility_Atr_IdlePeriod cfg)) n (Atr_sma_doc (Z.to_nat p) hs ls cs).
Proof.
  intros Hp Hh Hl Hc cfg. subst cfg.
  unfold volatility_NewAtrWithPeriod, volatility_NewAtrWithMa, volatility_Atr_Compute, volatility_Atr_IdlePeriod,
    trend_Sma_as_trend_Ma, trend_NewSmaWithPeriod, trend_Sma_IdlePeriod, Atr_sma_doc.
  cbn [volatility_Atr_Ma trend_Ma_Compute trend_Ma_IdlePeriod trend_Sma_Period].
  rewrite sma_is_window_mean_expr by exact Hp.
  rewrite (sem_true_range (EIn 0) (EIn 1) (EIn 2) [hs; ls; cs] n Hh Hl Hc).
  cbn [sem nth]. rewrite tab_wmean_tab by lia. rewrite Hc. f_equal. lia.
Qed.

(* ========================================================================================== *)
(* KNOWN DEVIATIONS of the code from its documentation *)

(* ------------------------------------------------------------------------------------------ *)
(* D1. volume.Obv
       "Foreach Closing:
          If Closing[i] > Closing[i-1], OBV[i] = OBV[i-1] + Volume[i]
          If Closing[i] = Closing[i-1], OBV[i] = OBV[i-1]
          If Closing[i] < Closing[i-1], OBV[i] = OBV[i-1] - Volume[i]"
   The code compares the closing with the previous OBV VALUE (initially 0) instead of the previous closing. *)

Definition obv_step (prev c v : R) : R :=
  if Rltb prev c then prev + v else if Rltb c prev then prev - v else prev.

(* what the code computes *)
Fixpoint Obv_actual (cs vs : list R) (i : nat) : R :=
  match i with
  | O => obv_step 0 (at_ cs 0) (at_ vs 0)
  | S i' => obv_step (Obv_actual cs vs i') (at_ cs i) (at_ vs i)
  end.

(* the documented recurrence (the doc comment does not say what OBV[0] is: any function satisfying it) *)
Definition Obv_doc_rel (cs vs : list R) (f : nat -> R) : Prop :=
  forall i, (1 <= i)%nat ->
    f i = if Rltb (at_ cs (i - 1)) (at_ cs i) then f (i - 1)%nat + at_ vs i
          else if Rltb (at_ cs i) (at_ cs (i - 1)) then f (i - 1)%nat - at_ vs i
          else f (i - 1)%nat.

Definition Obv_prev (cs vs : list R) (k : nat) : R := match k with O => 0 | S k' => Obv_actual cs vs k' end.

Lemma Obv_actual_prev cs vs k : Obv_actual cs vs k = obv_step (Obv_prev cs vs k) (at_ cs k) (at_ vs k).
Proof. destruct k; reflexivity. Qed.

Lemma s_op2st_obv (st : R -> R -> R -> R * R) (cs vs : list R)
      (Hst : forall s c v, st s c v = (obv_step s c v, obv_step s c v)) :
  forall len k,
    s_op2st st (Obv_prev cs vs k) (map (at_ cs) (seq k len)) (map (at_ vs) (seq k len))
    = map (Obv_actual cs vs) (seq k len).
Proof.
  induction len as [|len IH]; intros k; [reflexivity|].
  cbn [seq map s_op2st]. rewrite Hst, <- Obv_actual_prev. f_equal.
  exact (IH (S k)).
Qed.

Theorem Obv_actual_computed (cfg : volume_Obv) (cs vs : list R) (n : nat) :
  length cs = n -> length vs = n ->
  sem (volume_Obv_Compute (T:=R) cfg (EIn 0) (EIn 1)) [cs; vs]
  = tab (Z.to_nat (volume_Obv_IdlePeriod cfg)) n (Obv_actual cs vs).
Proof.
  intros Hc Hv. unfold volume_Obv_Compute, volume_Obv_IdlePeriod. cbn [sem nth].
  rewrite (xs_as_tab cs n Hc) at 1. rewrite (xs_as_tab vs n Hv) at 1.
  change (Z.to_nat 0) with 0%nat. unfold tab.
  apply (s_op2st_obv _ cs vs) with (k := 0%nat).
  intros s c v. unfold obv_step, ngtb. cbn [nltb nadd nsub NumR].
  destruct (Rltb s c); [reflexivity|]. destruct (Rltb c s); reflexivity.
Qed.

(* closings [10; 10], volumes [5; 7]: the code yields [5; 12] (10 > 0, then 10 > 5); the documented recurrence requires
   OBV[1] = OBV[0] because the two closings are equal *)
Theorem Obv_refuted :
  exists (cs vs : list R), length cs = length vs /\
    forall cfg f, Obv_doc_rel cs vs f ->
      sem (volume_Obv_Compute (T:=R) cfg (EIn 0) (EIn 1)) [cs; vs] <> tab 0 (length cs) f.
Proof.
  exists [10; 10], [5; 7]. split; [reflexivity|]. intros cfg f Hf.
  rewrite (Obv_actual_computed cfg [10; 10] [5; 7] 2 eq_refl eq_refl).
  cbv [tab volume_Obv_IdlePeriod]. cbn [Z.to_nat length Nat.sub seq map].
  specialize (Hf 1%nat (le_n 1)). cbn [Nat.sub] in Hf. unfold at_ in Hf. cbn [nth] in Hf.
  assert (E1 : Rltb 10 10 = false) by (apply Rltb_false; lra).
  rewrite E1 in Hf.
  cbn [Obv_actual]. unfold at_. cbn [nth]. unfold obv_step.
  assert (E2 : Rltb 0 10 = true) by (apply Rltb_true; lra). rewrite E2.
  assert (E3 : Rltb (0 + 5) 10 = true) by (apply Rltb_true; lra). rewrite E3.
  intros H. injection H as H0 H1. lra.
Qed.

(* ------------------------------------------------------------------------------------------ *)
(* D2. volume.Emv
       "Distance Moved = ((High + Low) / 2) - ((Priod High + Prior Low) /2)
        Box Ratio = ((Volume / 100000000) / (High - Low))
        EMV(1) = Distance Moved / Box Ratio
        EMV(14) = SMA(14, EMV(1))"
   The code divides the distance moved at position k+1 by the box ratio at position k (the box-ratio stream is not
   advanced by one when the distance-moved stream loses its first position). *)

Definition Emv_distance (hs ls : list R) (i : nat) : R :=
  (at_ hs i + at_ ls i) / 2 - (at_ hs (i - 1) + at_ ls (i - 1)) / 2.
Definition Emv_box (hs ls vs : list R) (i : nat) : R := (at_ vs i / 100000000) / (at_ hs i - at_ ls i).

Definition Emv_doc (cfg : volume_Emv) (hs ls vs : list R) : nat -> R :=
  wmean (Z.to_nat (trend_Sma_Period (volume_Emv_Sma cfg)))
        (ser (length hs) (fun j => Emv_distance hs ls j / Emv_box hs ls vs j)).

Definition Emv_actual (cfg : volume_Emv) (hs ls vs : list R) : nat -> R :=
  wmean (Z.to_nat (trend_Sma_Period (volume_Emv_Sma cfg)))
        (ser (length hs) (fun j => Emv_distance hs ls j / Emv_box hs ls vs (j - 1))).

Lemma raw_map (g : R -> R) (xs : list R) (n : nat) : length xs = n -> map g xs = tab 0 n (fun i => g (at_ xs i)).
Proof. intros H. rewrite (xs_as_tab xs n H) at 1. apply tab_map. Qed.

Lemma tab_tab_op2_lag (g : R -> R -> R) (k n : nat) (f1 f2 : nat -> R) :
  s_op2 g (tab k n f1) (tab 0 n f2) = tab k n (fun i => g (f1 i) (f2 (i - k)%nat)).
Proof.
  rewrite (tab_op2_lag g k n f1 (tab 0 n f2)) by (rewrite tab_length; lia).
  apply tab_ext. intros i Hi. rewrite at_tab by lia. reflexivity.
Qed.

Theorem Emv_actual_computed (cfg : volume_Emv) (hs ls vs : list R) (n : nat) :
  (1 <= trend_Sma_Period (volume_Emv_Sma cfg))%Z ->
  length hs = n -> length ls = n -> length vs = n ->
  sem (volume_Emv_Compute (T:=R) cfg (EIn 0) (EIn 1) (EIn 2)) [hs; ls; vs]
  = tab (Z.to_nat (volume_Emv_IdlePeriod cfg)) n (Emv_actual cfg hs ls vs).
Proof.
  destruct cfg as [[p]]. cbn [volume_Emv_Sma trend_Sma_Period]. intros Hp Hh Hl Hv.
  unfold volume_Emv_Compute, volume_Emv_IdlePeriod, trend_Sma_IdlePeriod, Emv_actual,
    helper_Change, helper_Divide, helper_DivideBy, helper_Subtract, helper_Add.
  cbn [volume_Emv_Sma trend_Sma_Period].
  rewrite sma_is_window_mean_expr by exact Hp.
  set (E := sem _ _).
  assert (HE : E = tab 1 n (fun j => Emv_distance hs ls j / Emv_box hs ls vs (j - 1))).
  { subst E. cbn [sem nth]. unfold s_buffered.
    rewrite (raw_op2 _ hs ls n Hh Hl). rewrite (raw_op2 _ hs ls n Hh Hl). rewrite (raw_map _ vs n Hv).
    rewrite !tab_map, tab_op2, tab_s_skip. change (0 + Z.to_nat 1)%nat with 1%nat.
    rewrite (tab_tab_op2_lag _ 1 n), (tab_tab_op2_lag _ 1 n).
    apply tab_ext. intros i Hi. reflexivity. }
  rewrite HE, tab_wmean_tab by lia. rewrite Hh. f_equal. lia.
Qed.

(* period 1, highs [1; 3], lows [0; 2], volumes [1e8; 2e8]: distance moved at position 1 is 2, the box ratios are 1 and 2;
   the code yields 2 / 1, the documentation 2 / 2 *)
Theorem Emv_refuted :
  exists (cfg : volume_Emv) (hs ls vs : list R),
    (1 <= trend_Sma_Period (volume_Emv_Sma cfg))%Z /\ length hs = length ls /\ length hs = length vs /\
    sem (volume_Emv_Compute (T:=R) cfg (EIn 0) (EIn 1) (EIn 2)) [hs; ls; vs]
    <> tab (Z.to_nat (volume_Emv_IdlePeriod cfg)) (length hs) (Emv_doc cfg hs ls vs).
Proof.
  exists (mk_volume_Emv (mk_trend_Sma 1)), [1; 3], [0; 2], [100000000; 200000000].
  split; [cbn; lia|]. split; [reflexivity|]. split; [reflexivity|].
  rewrite (Emv_actual_computed _ [1; 3] [0; 2] [100000000; 200000000] 2); [|cbn; lia|reflexivity..].
  unfold volume_Emv_IdlePeriod, trend_Sma_IdlePeriod, Emv_actual, Emv_doc. cbn [volume_Emv_Sma trend_Sma_Period length].
  change (Z.to_nat (1 - 1 + 1)) with 1%nat. change (Z.to_nat 1) with 1%nat.
  unfold tab at 1 2. cbn [Nat.sub seq map].
  unfold wmean, wsum, window. cbn [Nat.add Nat.sub seq map]. rewrite !Rsum_cons, !Rsum_nil.
  rewrite !at_ser by lia.
  unfold Emv_distance, Emv_box, at_. cbn [Nat.sub nth INR].
  intros H. injection H as H.
  replace (100000000 / 100000000 / (1 - 0)) with 1 in H by (field; lra).
  replace (200000000 / 100000000 / (3 - 2)) with 2 in H by (field; lra).
  lra.
Qed.

(* ------------------------------------------------------------------------------------------ *)
(* D3. volatility.UlcerIndex
       "High Closings = Max(period, Closings)
        Percentage Drawdown = 100 * ((Closings - High Closings) / High Closings)
        Squared Average = Sma(period, Percent Drawdown * Percent Drawdown)
        Ulcer Index = Sqrt(Squared Average)"
   The code squares AFTER averaging: it computes Sqrt(Sma(period, Percent Drawdown)^2) = |Sma(period, Percent Drawdown)|. *)

Definition Ulcer_drawdown (p : nat) (cs : list R) (i : nat) : R :=
  100 * ((at_ cs i - wmax p cs i) / wmax p cs i).

Definition UlcerIndex_doc (cfg : volatility_UlcerIndex) (cs : list R) : nat -> R :=
  let p := Z.to_nat (volatility_UlcerIndex_Period cfg) in
  fun i => sqrt (wmean p (ser (length cs) (fun j => Ulcer_drawdown p cs j * Ulcer_drawdown p cs j)) i).

Definition UlcerIndex_actual (cfg : volatility_UlcerIndex) (cs : list R) : nat -> R :=
  let p := Z.to_nat (volatility_UlcerIndex_Period cfg) in
  fun i => Rabs (wmean p (ser (length cs) (Ulcer_drawdown p cs)) i).

Lemma Rpow_model_2 (x : R) : Rpow_model x 2 = x * x.
Proof. unfold Rpow_model. destruct (Req_EM_T 2 2) as [_|H]; [reflexivity|]. exfalso. apply H. reflexivity. Qed.

Theorem UlcerIndex_actual_computed (cfg : volatility_UlcerIndex) (cs : list R) :
  let p := volatility_UlcerIndex_Period cfg in
  (1 <= p)%Z -> nonzero_first (Z.to_nat p) cs ->
  sem (volatility_UlcerIndex_Compute (T:=R) cfg (EIn 0)) [cs]
  = tab (Z.to_nat (volatility_UlcerIndex_IdlePeriod cfg)) (length cs) (UlcerIndex_actual cfg cs).
Proof.
  destruct cfg as [p]. cbn [volatility_UlcerIndex_Period]. intros Hp Hnz. set (n := length cs).
  unfold volatility_UlcerIndex_Compute, volatility_UlcerIndex_IdlePeriod, UlcerIndex_actual,
    trend_NewMovingMaxWithPeriod, trend_NewSmaWithPeriod,
    helper_Sqrt, helper_Pow, helper_MultiplyBy, helper_Divide, helper_Subtract.
  cbn [volatility_UlcerIndex_Period trend_MovingMax_Period].
  assert (Emax := moving_max_gen p (EIn 0) [cs] Hp Hnz).
  change (sem (EIn 0) [cs]) with cs in Emax. fold n in Emax.
  change (sem (EMap ?f (EMap ?g ?e)) ?env) with (map f (map g (sem e env))).
  rewrite sma_is_window_mean_expr by exact Hp.
  set (E := sem _ _).
  assert (HE : E = tab (Z.to_nat p - 1) n (Ulcer_drawdown (Z.to_nat p) cs)).
  { subst E. cbn [sem]. cbn [sem] in Emax. rewrite Emax. cbn [nth].
    rewrite (raw_s_skip _ cs n eq_refl).
    replace (Z.to_nat (p - 1)) with (Z.to_nat p - 1)%nat by lia.
    rewrite !tab_op2, tab_map. apply tab_ext. intros i _. unfold Ulcer_drawdown.
    cbn [nmul ndiv nsub nofZ NumR]. ring. }
  rewrite HE, tab_wmean_tab by lia. rewrite !tab_map.
  replace (Z.to_nat ((p - 1) * 2)) with (Z.to_nat p - 1 + (Z.to_nat p - 1))%nat by lia.
  apply tab_ext. intros i _. cbn [nsqrt npow nofZ NumR].
  rewrite Rpow_model_2. apply sqrt_Rsqr_abs.
Qed.

(* period 2, closings [2; 1; 2]: the drawdowns at positions 1 and 2 are -50 and 0; the code yields |(-50 + 0) / 2| = 25, the
   documented formula Sqrt((2500 + 0) / 2) = Sqrt(1250) *)
Theorem UlcerIndex_refuted :
  exists (cfg : volatility_UlcerIndex) (cs : list R),
    (1 <= volatility_UlcerIndex_Period cfg)%Z /\
    nonzero_first (Z.to_nat (volatility_UlcerIndex_Period cfg)) cs /\
    sem (volatility_UlcerIndex_Compute (T:=R) cfg (EIn 0)) [cs]
    <> tab (Z.to_nat (volatility_UlcerIndex_IdlePeriod cfg)) (length cs) (UlcerIndex_doc cfg cs).
Proof.
  exists (mk_volatility_UlcerIndex 2), [2; 1; 2].
  assert (Hnz : nonzero_first (Z.to_nat 2) [2; 1; 2]).
  { unfold nonzero_first. change (Z.to_nat 2) with 2%nat. cbn [firstn]. repeat constructor; lra. }
  split; [cbn; lia|]. split; [exact Hnz|].
  rewrite (UlcerIndex_actual_computed (mk_volatility_UlcerIndex 2) [2; 1; 2]); [|cbn; lia|exact Hnz].
  unfold volatility_UlcerIndex_IdlePeriod, UlcerIndex_actual, UlcerIndex_doc.
  cbn [volatility_UlcerIndex_Period length].
  change (Z.to_nat ((2 - 1) * 2)) with 2%nat. change (Z.to_nat 2) with 2%nat.
  unfold tab at 1 2. cbn [Nat.sub seq map].
  unfold wmean, wsum, window. cbn [Nat.add Nat.sub seq map]. rewrite !Rsum_cons, !Rsum_nil.
  rewrite !at_ser by lia.
  assert (W1 : wmax 2 [2; 1; 2] 1 = 2).
  { unfold wmax, window. cbn [Nat.add Nat.sub seq map Rlist_max fold_left]. unfold at_. cbn [nth].
    apply Rmax_left. lra. }
  assert (W2 : wmax 2 [2; 1; 2] 2 = 2).
  { unfold wmax, window. cbn [Nat.add Nat.sub seq map Rlist_max fold_left]. unfold at_. cbn [nth].
    apply Rmax_right. lra. }
  assert (D1 : Ulcer_drawdown 2 [2; 1; 2] 1 = -50).
  { unfold Ulcer_drawdown. rewrite W1. unfold at_. cbn [nth]. lra. }
  assert (D2 : Ulcer_drawdown 2 [2; 1; 2] 2 = 0).
  { unfold Ulcer_drawdown. rewrite W2. unfold at_. cbn [nth]. lra. }
  rewrite D1, D2. cbn [INR].
  replace ((-50 + (0 + 0)) / (1 + 1)) with (-25) by lra.
  replace ((-50 * -50 + (0 * 0 + 0)) / (1 + 1)) with 1250 by lra.
  rewrite Rabs_left by lra.
  intros H. injection H as H.
  assert (H2 : sqrt 1250 * sqrt 1250 = 1250) by (apply sqrt_sqrt; lra).
  rewrite <- H in H2. lra.
Qed.

(* ========================================================================================== *)
Print Assumptions Qstick_documented.
Print Assumptions AwesomeOscillator_documented.
Print Assumptions Mfm_documented.
Print Assumptions Mfv_documented.
Print Assumptions Vwap_documented.
Print Assumptions DonchianChannel_upper_documented.
Print Assumptions DonchianChannel_middle_documented.
Print Assumptions DonchianChannel_lower_documented.
Print Assumptions WilliamsR_documented.
Print Assumptions StochasticOscillator_K_documented.
Print Assumptions StochasticOscillator_D_documented.
Print Assumptions Ad_documented.
Print Assumptions Vpt_documented.
Print Assumptions Ppo_documented.
Print Assumptions Ppo_signal_documented.
Print Assumptions Ppo_histogram_documented.
Print Assumptions ChaikinOscillator_documented.
Print Assumptions ChaikinOscillator_ad_documented.
Print Assumptions Atr_is_ma_of_true_range.
Print Assumptions Atr_documented.
Print Assumptions Obv_actual_computed.
Print Assumptions Obv_refuted.
Print Assumptions Emv_actual_computed.
Print Assumptions Emv_refuted.
Print Assumptions UlcerIndex_actual_computed.
Print Assumptions UlcerIndex_refuted.
