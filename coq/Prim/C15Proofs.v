(* Property C15 - range and ordering theorems over the reals, about the GENERATED definitions of coq/Gen/All.v
   instantiated at T := R.  Inputs are lists (highs, lows, closings, openings) bound to EIn 0, EIn 1, ... *)
From Coq Require Import List ZArith Bool Lia Reals Lra Permutation.
Import ListNotations.
From Verif Require Import Base.Num Base.Stream Base.StreamProofs Base.GenPrelude Data.Bst Data.BstProofs
  Spec.Window Gen.All Prim.MovingSumProofs Prim.MovingMaxProofs.
From Verif Require Prim.SeededProofs Base.HelperLaws.
Local Open Scope R_scope.

(* ------------------------------------------------------------------------------------------ *)
(* 0. List vocabulary *)

Lemma Forall2_nth_elim {A B} (Q : A -> B -> Prop) (da : A) (db : B) :
  forall (a : list A) (b : list B), Forall2 Q a b ->
  forall i, (i < length a)%nat -> Q (nth i a da) (nth i b db).
Proof.
  induction 1 as [|x y a b Hxy H IH]; intros i Hi; simpl in Hi; [lia|].
  destruct i as [|i]; simpl; [exact Hxy | apply IH; lia].
Qed.

Lemma Forall2_len {A B} {Q : A -> B -> Prop} {a : list A} {b : list B} : Forall2 Q a b -> length a = length b.
Proof. induction 1; simpl; congruence. Qed.

Lemma Forall2_nth_intro {A B} (Q : A -> B -> Prop) (da : A) (db : B) :
  forall (a : list A) (b : list B), length a = length b ->
  (forall i, (i < length a)%nat -> Q (nth i a da) (nth i b db)) -> Forall2 Q a b.
Proof.
  induction a as [|x a IH]; intros [|y b] Hlen H; simpl in Hlen; try discriminate; constructor.
  - apply (H 0%nat). simpl. lia.
  - apply IH; [lia|]. intros i Hi. apply (H (S i)). simpl. lia.
Qed.

Lemma Forall_nth_intro {A} (Q : A -> Prop) (d : A) (l : list A) :
  (forall i, (i < length l)%nat -> Q (nth i l d)) -> Forall Q l.
Proof.
  intros H. apply Forall_forall. intros x Hx. destruct (In_nth l x d Hx) as (i & Hi & E).
  rewrite <- E. apply H. exact Hi.
Qed.

Lemma Forall_nth_elim {A} (Q : A -> Prop) (d : A) (l : list A) :
  Forall Q l -> forall i, (i < length l)%nat -> Q (nth i l d).
Proof. intros H i Hi. rewrite Forall_forall in H. apply H. apply nth_In. exact Hi. Qed.

Lemma s_op2_nth {A B C} (f : A -> B -> C) (a : list A) (b : list B) i da db dc :
  (i < length a)%nat -> (i < length b)%nat -> nth i (s_op2 f a b) dc = f (nth i a da) (nth i b db).
Proof.
  revert b i. induction a as [|x a IH]; intros [|y b] i Ha Hb; cbn [length] in *; try lia.
  destruct i as [|i]; cbn [s_op2 nth]; [reflexivity | apply IH; lia].
Qed.

Lemma s_op3_nth {A B C D} (f : A -> B -> C -> D) (a : list A) (b : list B) (c : list C) i da db dc dd :
  (i < length a)%nat -> (i < length b)%nat -> (i < length c)%nat ->
  nth i (s_op3 f a b c) dd = f (nth i a da) (nth i b db) (nth i c dc).
Proof.
  revert b c i. induction a as [|x a IH]; intros [|y b] [|z c] i Ha Hb Hc; cbn [length] in *; try lia.
  destruct i as [|i]; cbn [s_op3 nth]; [reflexivity | apply IH; lia].
Qed.

Lemma s_skip_nth {A} (k : Z) (l : list A) i d : nth i (s_skip k l) d = nth (Z.to_nat k + i) l d.
Proof. unfold s_skip. apply Prim.SeededProofs.nth_skipn_plus. Qed.

Lemma map_nth_lt {A B} (f : A -> B) (l : list A) i da db :
  (i < length l)%nat -> nth i (map f l) db = f (nth i l da).
Proof.
  revert i. induction l as [|x l IH]; intros i Hi; simpl in Hi; [lia|].
  destruct i as [|i]; simpl; [reflexivity | apply IH; lia].
Qed.

Lemma tab_length w n f : length (tab w n f) = (n - w)%nat.
Proof. unfold tab. rewrite map_length, seq_length. reflexivity. Qed.

Lemma tab_nth w n f j d : (j < n - w)%nat -> nth j (tab w n f) d = f (w + j)%nat.
Proof.
  intros Hj. unfold tab. rewrite (map_nth_lt f _ j 0%nat d) by (rewrite seq_length; exact Hj).
  rewrite seq_nth by exact Hj. reflexivity.
Qed.

(* ------------------------------------------------------------------------------------------ *)
(* 1. volume.Mfm in [-1, 1];  trend.Bop in [-1, 1] *)

Lemma mfm_value_range (h l c : R) : l <= c -> c <= h -> l < h -> -1 <= ((c - l) - (h - c)) / (h - l) <= 1.
Proof.
  intros H1 H2 H3. assert (Hd : 0 < h - l) by lra.
  split.
  - apply Rmult_le_reg_r with (h - l); [exact Hd|].
    unfold Rdiv. rewrite Rmult_assoc, Rinv_l by lra. lra.
  - apply Rmult_le_reg_r with (h - l); [exact Hd|].
    unfold Rdiv. rewrite Rmult_assoc, Rinv_l by lra. lra.
Qed.

Lemma bop_value_range (o h l c : R) :
  l <= o -> o <= h -> l <= c -> c <= h -> l < h -> -1 <= (c - o) / (h - l) <= 1.
Proof.
  intros H1 H2 H3 H4 H5. assert (Hd : 0 < h - l) by lra.
  split.
  - apply Rmult_le_reg_r with (h - l); [exact Hd|].
    unfold Rdiv. rewrite Rmult_assoc, Rinv_l by lra. lra.
  - apply Rmult_le_reg_r with (h - l); [exact Hd|].
    unfold Rdiv. rewrite Rmult_assoc, Rinv_l by lra. lra.
Qed.

Definition mfm_out (hs ls cs : list R) : list R :=
  sem (volume_Mfm_Compute (T:=R) (I:=R) mk_volume_Mfm (EIn 0) (EIn 1) (EIn 2)) [hs; ls; cs].

Lemma mfm_out_eq hs ls cs :
  mfm_out hs ls cs = s_op2 Rdiv (s_op2 Rminus (s_op2 Rminus cs ls) (s_op2 Rminus hs cs)) (s_op2 Rminus hs ls).
Proof. reflexivity. Qed.

Theorem mfm_range_pos (hs ls cs : list R) :
  Forall2 Rle ls cs -> Forall2 Rle cs hs ->
  forall i, (i < length hs)%nat -> nth i ls 0 < nth i hs 0 ->
  -1 <= nth i (mfm_out hs ls cs) 0 <= 1.
Proof.
  intros Hlc Hch i Hi Hlt.
  pose proof (Forall2_len Hlc) as L1. pose proof (Forall2_len Hch) as L2.
  rewrite mfm_out_eq.
  rewrite (s_op2_nth Rdiv _ _ i 0 0 0) by (rewrite ?s_op2_length; lia).
  rewrite (s_op2_nth Rminus _ _ i 0 0 0) by (rewrite ?s_op2_length; lia).
  rewrite !(s_op2_nth Rminus _ _ i 0 0 0) by lia.
  apply mfm_value_range.
  - apply (Forall2_nth_elim Rle 0 0 _ _ Hlc). lia.
  - apply (Forall2_nth_elim Rle 0 0 _ _ Hch). lia.
  - exact Hlt.
Qed.

Theorem mfm_range_all (hs ls cs : list R) :
  Forall2 Rle ls cs -> Forall2 Rle cs hs -> Forall2 Rlt ls hs ->
  Forall (fun v => -1 <= v <= 1) (mfm_out hs ls cs).
Proof.
  intros Hlc Hch Hlh. apply (Forall_nth_intro _ 0). intros i Hi.
  pose proof (Forall2_len Hlc) as L1. pose proof (Forall2_len Hch) as L2.
  rewrite mfm_out_eq, !s_op2_length in Hi.
  apply mfm_range_pos; [assumption | assumption | lia |].
  apply (Forall2_nth_elim Rlt 0 0 _ _ Hlh). lia.
Qed.

Definition bop_out (os hs ls cs : list R) : list R :=
  sem (trend_Bop_Compute (T:=R) (I:=R) mk_trend_Bop (EIn 0) (EIn 1) (EIn 2) (EIn 3)) [os; hs; ls; cs].

Lemma bop_out_eq os hs ls cs :
  bop_out os hs ls cs = s_op2 Rdiv (s_op2 Rminus cs os) (s_op2 Rminus hs ls).
Proof. reflexivity. Qed.

Theorem bop_range_pos (os hs ls cs : list R) :
  Forall2 Rle ls os -> Forall2 Rle os hs -> Forall2 Rle ls cs -> Forall2 Rle cs hs ->
  forall i, (i < length hs)%nat -> nth i ls 0 < nth i hs 0 ->
  -1 <= nth i (bop_out os hs ls cs) 0 <= 1.
Proof.
  intros Hlo Hoh Hlc Hch i Hi Hlt.
  pose proof (Forall2_len Hlo) as L1. pose proof (Forall2_len Hoh) as L2.
  pose proof (Forall2_len Hlc) as L3. pose proof (Forall2_len Hch) as L4.
  rewrite bop_out_eq.
  rewrite (s_op2_nth Rdiv _ _ i 0 0 0) by (rewrite ?s_op2_length; lia).
  rewrite !(s_op2_nth Rminus _ _ i 0 0 0) by lia.
  apply bop_value_range.
  - apply (Forall2_nth_elim Rle 0 0 _ _ Hlo). lia.
  - apply (Forall2_nth_elim Rle 0 0 _ _ Hoh). lia.
  - apply (Forall2_nth_elim Rle 0 0 _ _ Hlc). lia.
  - apply (Forall2_nth_elim Rle 0 0 _ _ Hch). lia.
  - exact Hlt.
Qed.

Theorem bop_range_all (os hs ls cs : list R) :
  Forall2 Rle ls os -> Forall2 Rle os hs -> Forall2 Rle ls cs -> Forall2 Rle cs hs -> Forall2 Rlt ls hs ->
  Forall (fun v => -1 <= v <= 1) (bop_out os hs ls cs).
Proof.
  intros Hlo Hoh Hlc Hch Hlh. apply (Forall_nth_intro _ 0). intros i Hi.
  pose proof (Forall2_len Hlo) as L1. pose proof (Forall2_len Hoh) as L2.
  pose proof (Forall2_len Hlc) as L3. pose proof (Forall2_len Hch) as L4.
  rewrite bop_out_eq, !s_op2_length in Hi.
  apply bop_range_pos; try assumption; [lia|].
  apply (Forall2_nth_elim Rlt 0 0 _ _ Hlh). lia.
Qed.

(* ------------------------------------------------------------------------------------------ *)
(* 2. Window maximum / minimum: R-level facts, and MovingMin <= value <= MovingMax *)

Lemma fold_left_Rmax_ge_init (l : list R) : forall a, a <= fold_left Rmax l a.
Proof.
  induction l as [|x l IH]; intros a; simpl; [lra|].
  apply Rle_trans with (Rmax a x); [apply Rmax_l | apply IH].
Qed.

Lemma fold_left_Rmax_ge_elem (l : list R) : forall a x, In x l -> x <= fold_left Rmax l a.
Proof.
  induction l as [|y l IH]; intros a x Hin; simpl in *; [contradiction|].
  destruct Hin as [E|Hin].
  - subst y. apply Rle_trans with (Rmax a x); [apply Rmax_r | apply fold_left_Rmax_ge_init].
  - apply IH. exact Hin.
Qed.

Lemma fold_left_Rmin_le_init (l : list R) : forall a, fold_left Rmin l a <= a.
Proof.
  induction l as [|x l IH]; intros a; simpl; [lra|].
  apply Rle_trans with (Rmin a x); [apply IH | apply Rmin_l].
Qed.

Lemma fold_left_Rmin_le_elem (l : list R) : forall a x, In x l -> fold_left Rmin l a <= x.
Proof.
  induction l as [|y l IH]; intros a x Hin; simpl in *; [contradiction|].
  destruct Hin as [E|Hin].
  - subst y. apply Rle_trans with (Rmin a x); [apply fold_left_Rmin_le_init | apply Rmin_r].
  - apply IH. exact Hin.
Qed.

Lemma Rlist_max_ge (l : list R) (x : R) : In x l -> x <= Rlist_max l.
Proof.
  destruct l as [|y l]; simpl; [contradiction|]. intros [E|Hin].
  - subst. apply fold_left_Rmax_ge_init.
  - apply fold_left_Rmax_ge_elem. exact Hin.
Qed.

Lemma Rlist_min_le (l : list R) (x : R) : In x l -> Rlist_min l <= x.
Proof.
  destruct l as [|y l]; simpl; [contradiction|]. intros [E|Hin].
  - subst. apply fold_left_Rmin_le_init.
  - apply fold_left_Rmin_le_elem. exact Hin.
Qed.

(* the maximum / minimum is attained *)
Lemma fold_left_Rmax_in (l : list R) : forall a, fold_left Rmax l a = a \/ In (fold_left Rmax l a) l.
Proof.
  induction l as [|x l IH]; intros a; simpl; [left; reflexivity|].
  destruct (IH (Rmax a x)) as [E|Hin]; [|right; right; exact Hin].
  rewrite E. unfold Rmax. destruct (Rle_dec a x); [right; left; reflexivity | left; reflexivity].
Qed.

Lemma fold_left_Rmin_in (l : list R) : forall a, fold_left Rmin l a = a \/ In (fold_left Rmin l a) l.
Proof.
  induction l as [|x l IH]; intros a; simpl; [left; reflexivity|].
  destruct (IH (Rmin a x)) as [E|Hin]; [|right; right; exact Hin].
  rewrite E. unfold Rmin. destruct (Rle_dec a x); [left; reflexivity | right; left; reflexivity].
Qed.

Lemma Rlist_max_in (l : list R) : l <> [] -> In (Rlist_max l) l.
Proof.
  destruct l as [|y l]; [congruence|]. intros _. simpl.
  destruct (fold_left_Rmax_in l y) as [E|H]; [left; symmetry; exact E | right; exact H].
Qed.

Lemma Rlist_min_in (l : list R) : l <> [] -> In (Rlist_min l) l.
Proof.
  destruct l as [|y l]; [congruence|]. intros _. simpl.
  destruct (fold_left_Rmin_in l y) as [E|H]; [left; symmetry; exact E | right; exact H].
Qed.

Lemma Rlist_min_le_max (l : list R) : Rlist_min l <= Rlist_max l.
Proof.
  destruct l as [|y l]; [simpl; lra|].
  apply Rle_trans with y; [apply Rlist_min_le | apply Rlist_max_ge]; left; reflexivity.
Qed.

(* the current position belongs to its window *)
Lemma window_in (P : nat) (xs : list R) (i j : nat) :
  (i + 1 - P <= j)%nat -> (j <= i)%nat -> (P <= i + 1)%nat -> In (at_ xs j) (window P xs i).
Proof.
  intros H1 H2 H3. unfold window. apply in_map. apply in_seq. lia.
Qed.

Lemma window_elems (P : nat) (xs : list R) (i : nat) (x : R) :
  In x (window P xs i) -> exists j, (i + 1 - P <= j < i + 1 - P + P)%nat /\ x = at_ xs j.
Proof.
  unfold window. intros H. apply in_map_iff in H. destruct H as (j & E & Hj).
  apply in_seq in Hj. exists j. split; [lia | symmetry; exact E].
Qed.

Lemma wmax_ge (P : nat) (xs : list R) (i j : nat) :
  (i + 1 - P <= j)%nat -> (j <= i)%nat -> (P <= i + 1)%nat -> at_ xs j <= wmax P xs i.
Proof. intros. unfold wmax. apply Rlist_max_ge. apply window_in; assumption. Qed.

Lemma wmin_le (P : nat) (xs : list R) (i j : nat) :
  (i + 1 - P <= j)%nat -> (j <= i)%nat -> (P <= i + 1)%nat -> wmin P xs i <= at_ xs j.
Proof. intros. unfold wmin. apply Rlist_min_le. apply window_in; assumption. Qed.

Lemma wmin_le_wmax (P : nat) (xs : list R) (i : nat) : wmin P xs i <= wmax P xs i.
Proof. apply Rlist_min_le_max. Qed.

(* MovingMax / MovingMin over an arbitrary input expression (Prim/MovingMaxProofs.v states the EIn 0 instance) *)
Theorem moving_max_is_window_max_expr {I} (p : Z) (e : expr I R) (env : list (list I)) :
  (1 <= p)%Z -> Forall (fun x => x <> 0) (firstn (Z.to_nat p) (sem e env)) ->
  sem (trend_MovingMax_Compute (T:=R) (I:=I) (mk_trend_MovingMax p) e) env
  = tab (Z.to_nat p - 1) (length (sem e env)) (wmax (Z.to_nat p) (sem e env)).
Proof. intros Hp _. exact (moving_max_is_window_max_expr_all p e env Hp). Qed.

Theorem moving_min_is_window_min_expr {I} (p : Z) (e : expr I R) (env : list (list I)) :
  (1 <= p)%Z -> Forall (fun x => x <> 0) (firstn (Z.to_nat p) (sem e env)) ->
  sem (trend_MovingMin_Compute (T:=R) (I:=I) (mk_trend_MovingMin p) e) env
  = tab (Z.to_nat p - 1) (length (sem e env)) (wmin (Z.to_nat p) (sem e env)).
Proof. intros Hp _. exact (moving_min_is_window_min_expr_all p e env Hp). Qed.

Definition mmax_out (p : Z) (xs : list R) : list R :=
  sem (trend_MovingMax_Compute (T:=R) (I:=R) (mk_trend_MovingMax p) (EIn 0)) [xs].
Definition mmin_out (p : Z) (xs : list R) : list R :=
  sem (trend_MovingMin_Compute (T:=R) (I:=R) (mk_trend_MovingMin p) (EIn 0)) [xs].

Lemma In_firstn {A} (n : nat) (l : list A) (x : A) : In x (firstn n l) -> In x l.
Proof. intros H. rewrite <- (firstn_skipn n l). apply in_or_app. left. exact H. Qed.

(* positive prices are non-zero *)
Lemma pos_nonzero_firstn (P : nat) (xs : list R) :
  Forall (fun x => 0 < x) xs -> Forall (fun x => x <> 0) (firstn P xs).
Proof.
  intros H. apply Forall_forall. intros x Hx. rewrite Forall_forall in H.
  assert (0 < x) by (apply H; apply (In_firstn P); exact Hx). lra.
Qed.

(* reported position j corresponds to input position (p-1)+j *)
Theorem moving_min_le_value_le_moving_max (p : Z) (xs : list R) :
  (1 <= p)%Z -> Forall (fun x => x <> 0) (firstn (Z.to_nat p) xs) ->
  length (mmin_out p xs) = (length xs - (Z.to_nat p - 1))%nat /\
  length (mmax_out p xs) = (length xs - (Z.to_nat p - 1))%nat /\
  forall j, (j < length xs - (Z.to_nat p - 1))%nat ->
    nth j (mmin_out p xs) 0 <= nth (Z.to_nat p - 1 + j) xs 0 <= nth j (mmax_out p xs) 0.
Proof.
  intros Hp Hnz. unfold mmin_out, mmax_out.
  rewrite moving_max_is_window_max, moving_min_is_window_min by assumption.
  rewrite !tab_length. split; [reflexivity|]. split; [reflexivity|].
  intros j Hj. rewrite !tab_nth by exact Hj.
  split; [apply wmin_le | apply wmax_ge]; lia.
Qed.

Theorem moving_min_le_value_le_moving_max_Forall2 (p : Z) (xs : list R) :
  (1 <= p)%Z -> Forall (fun x => x <> 0) (firstn (Z.to_nat p) xs) ->
  Forall2 Rle (mmin_out p xs) (skipn (Z.to_nat p - 1) xs) /\
  Forall2 Rle (skipn (Z.to_nat p - 1) xs) (mmax_out p xs).
Proof.
  intros Hp Hnz.
  destruct (moving_min_le_value_le_moving_max p xs Hp Hnz) as (L1 & L2 & H).
  split; apply (Forall2_nth_intro Rle 0 0); rewrite ?skipn_length; try congruence.
  - intros i Hi. rewrite Prim.SeededProofs.nth_skipn_plus. apply H. lia.
  - intros i Hi. rewrite Prim.SeededProofs.nth_skipn_plus. apply H. lia.
Qed.

Theorem moving_min_le_moving_max (p : Z) (xs : list R) :
  (1 <= p)%Z -> Forall (fun x => x <> 0) (firstn (Z.to_nat p) xs) ->
  Forall2 Rle (mmin_out p xs) (mmax_out p xs).
Proof.
  intros Hp Hnz.
  destruct (moving_min_le_value_le_moving_max p xs Hp Hnz) as (L1 & L2 & H).
  apply (Forall2_nth_intro Rle 0 0); [congruence|].
  intros i Hi. rewrite L1 in Hi. specialize (H i Hi). lra.
Qed.

(* ------------------------------------------------------------------------------------------ *)
(* 2b. volatility.DonchianChannel: upper >= middle >= lower (paired windows of one size p) *)

Definition donchian (p : Z) : expr R R * expr R R * expr R R :=
  volatility_DonchianChannel_Compute (T:=R) (I:=R)
    (mk_volatility_DonchianChannel (mk_trend_MovingMax p) (mk_trend_MovingMin p)) (EIn 0).
Definition donchian_upper (p : Z) (xs : list R) : list R := sem (fst (fst (donchian p))) [xs].
Definition donchian_middle (p : Z) (xs : list R) : list R := sem (snd (fst (donchian p))) [xs].
Definition donchian_lower (p : Z) (xs : list R) : list R := sem (snd (donchian p)) [xs].

Lemma donchian_eqs p xs :
  donchian_upper p xs = mmax_out p xs /\ donchian_lower p xs = mmin_out p xs /\
  donchian_middle p xs = map (fun n => n / 2) (s_op2 Rplus (mmax_out p xs) (mmin_out p xs)).
Proof. repeat split; reflexivity. Qed.

Theorem donchian_ordered (p : Z) (xs : list R) :
  (1 <= p)%Z -> Forall (fun x => x <> 0) (firstn (Z.to_nat p) xs) ->
  Forall2 Rle (donchian_lower p xs) (donchian_middle p xs) /\
  Forall2 Rle (donchian_middle p xs) (donchian_upper p xs).
Proof.
  intros Hp Hnz. destruct (donchian_eqs p xs) as (EU & EL & EM). rewrite EU, EL, EM.
  destruct (moving_min_le_value_le_moving_max p xs Hp Hnz) as (L1 & L2 & H).
  assert (Hmid : forall i, (i < length xs - (Z.to_nat p - 1))%nat ->
            nth i (map (fun n => n / 2) (s_op2 Rplus (mmax_out p xs) (mmin_out p xs))) 0
            = (nth i (mmax_out p xs) 0 + nth i (mmin_out p xs) 0) / 2).
  { intros i Hi. rewrite (map_nth_lt (fun n => n / 2) _ i 0 0) by (rewrite s_op2_length; lia).
    rewrite (s_op2_nth Rplus _ _ i 0 0 0) by lia. reflexivity. }
  split; apply (Forall2_nth_intro Rle 0 0); rewrite ?map_length, ?s_op2_length; try lia.
  - intros i Hi. rewrite Hmid by lia. specialize (H i ltac:(lia)). lra.
  - intros i Hi. rewrite Hmid by lia. specialize (H i ltac:(lia)). lra.
Qed.

(* ------------------------------------------------------------------------------------------ *)
(* 3. momentum.WilliamsR in [-100, 0];  momentum.StochasticOscillator %K (and %D) in [0, 100] *)

Lemma ratio_01 (a d : R) : 0 <= a -> a <= d -> 0 < d -> 0 <= a / d <= 1.
Proof.
  intros H1 H2 H3. split.
  - apply Rmult_le_reg_r with d; [exact H3|]. unfold Rdiv. rewrite Rmult_assoc, Rinv_l by lra. lra.
  - apply Rmult_le_reg_r with d; [exact H3|]. unfold Rdiv. rewrite Rmult_assoc, Rinv_l by lra. lra.
Qed.

Lemma williams_value_range (H L c : R) : L <= c -> c <= H -> L < H -> -100 <= (H - c) / (H - L) * IZR (-100) <= 0.
Proof.
  intros H1 H2 H3. destruct (ratio_01 (H - c) (H - L)) as [A B]; try lra.
Qed.

Lemma stoch_value_range (H L c : R) : L <= c -> c <= H -> L < H -> 0 <= (c - L) / (H - L) * IZR 100 <= 100.
Proof.
  intros H1 H2 H3. destruct (ratio_01 (c - L) (H - L)) as [A B]; try lra.
Qed.

(* lowest low <= low <= close <= high <= highest high *)
Lemma hl_chain (P : nat) (hs ls cs : list R) (i : nat) :
  Forall2 Rle ls cs -> Forall2 Rle cs hs -> (P <= i + 1)%nat -> (1 <= P)%nat -> (i < length hs)%nat ->
  wmin P ls i <= at_ cs i /\ at_ cs i <= wmax P hs i.
Proof.
  intros Hlc Hch H1 H2 Hi.
  pose proof (Forall2_len Hlc) as L1. pose proof (Forall2_len Hch) as L2.
  split.
  - apply Rle_trans with (at_ ls i); [apply wmin_le; lia|].
    apply (Forall2_nth_elim Rle 0 0 _ _ Hlc). lia.
  - apply Rle_trans with (at_ hs i); [|apply wmax_ge; lia].
    apply (Forall2_nth_elim Rle 0 0 _ _ Hch). lia.
Qed.

Lemma hl_strict (P : nat) (hs ls : list R) (i : nat) :
  Forall2 Rlt ls hs -> (P <= i + 1)%nat -> (1 <= P)%nat -> (i < length hs)%nat ->
  wmin P ls i < wmax P hs i.
Proof.
  intros Hlh H1 H2 Hi. pose proof (Forall2_len Hlh) as L1.
  apply Rle_lt_trans with (at_ ls i); [apply wmin_le; lia|].
  apply Rlt_le_trans with (at_ hs i); [|apply wmax_ge; lia].
  apply (Forall2_nth_elim Rlt 0 0 _ _ Hlh). lia.
Qed.

Definition williams_out (p : Z) (hs ls cs : list R) : list R :=
  sem (momentum_WilliamsR_Compute (T:=R) (I:=R)
         (mk_momentum_WilliamsR (mk_trend_MovingMax p) (mk_trend_MovingMin p)) (EIn 0) (EIn 1) (EIn 2)) [hs; ls; cs].

Lemma williams_out_eq p hs ls cs :
  williams_out p hs ls cs =
  let H := sem (trend_MovingMax_Compute (T:=R) (I:=R) (mk_trend_MovingMax p) (EIn 0)) [hs; ls; cs] in
  let L := sem (trend_MovingMin_Compute (T:=R) (I:=R) (mk_trend_MovingMin p) (EIn 1)) [hs; ls; cs] in
  map (fun n => n * IZR (-100)) (s_op2 Rdiv (s_op2 Rminus H (s_skip (p - 1) cs)) (s_op2 Rminus H L)).
Proof. reflexivity. Qed.

Lemma hlc_lens (hs ls cs : list R) :
  Forall2 Rle ls cs -> Forall2 Rle cs hs -> length ls = length hs /\ length cs = length hs.
Proof. intros Hlc Hch. pose proof (Forall2_len Hlc). pose proof (Forall2_len Hch). lia. Qed.

Section HLC.
  Variables (p : Z) (hs ls cs : list R).
  Hypothesis Hp : (1 <= p)%Z.
  Hypothesis Hlc : Forall2 Rle ls cs.
  Hypothesis Hch : Forall2 Rle cs hs.
  Hypothesis Hnzh : Forall (fun x => x <> 0) (firstn (Z.to_nat p) hs).
  Hypothesis Hnzl : Forall (fun x => x <> 0) (firstn (Z.to_nat p) ls).
  Let P := Z.to_nat p.
  Let n := length hs.

  Lemma HLC_lens : length ls = n /\ length cs = n.
  Proof. exact (hlc_lens hs ls cs Hlc Hch). Qed.

  Lemma HLC_max : sem (trend_MovingMax_Compute (T:=R) (I:=R) (mk_trend_MovingMax p) (EIn 0)) [hs; ls; cs]
                  = tab (P - 1) n (wmax P hs).
  Proof. apply (moving_max_is_window_max_expr p (EIn 0) [hs; ls; cs] Hp). exact Hnzh. Qed.

  Lemma HLC_min : sem (trend_MovingMin_Compute (T:=R) (I:=R) (mk_trend_MovingMin p) (EIn 1)) [hs; ls; cs]
                  = tab (P - 1) n (wmin P ls).
  Proof.
    destruct HLC_lens as [L1 L2]. rewrite <- L1.
    apply (moving_min_is_window_min_expr p (EIn 1) [hs; ls; cs] Hp). exact Hnzl.
  Qed.

  Theorem williams_r_length : length (williams_out p hs ls cs) = (n - (P - 1))%nat.
  Proof.
    destruct HLC_lens as [L1 L2].
    rewrite williams_out_eq. cbv zeta. rewrite HLC_max, HLC_min.
    rewrite map_length, !s_op2_length, s_skip_length, !tab_length. fold P. lia.
  Qed.

  Theorem williams_r_range_pos : forall j, (j < n - (P - 1))%nat ->
    wmin P ls (P - 1 + j) < wmax P hs (P - 1 + j) ->
    -100 <= nth j (williams_out p hs ls cs) 0 <= 0.
  Proof.
    intros j Hj Hlt. destruct HLC_lens as [L1 L2].
    rewrite williams_out_eq. cbv zeta. rewrite HLC_max, HLC_min.
    assert (HPn : (1 <= P)%nat) by (unfold P; lia).
    rewrite (map_nth_lt (fun n => n * IZR (-100)) _ j 0 0)
      by (rewrite !s_op2_length, s_skip_length, !tab_length; fold P; lia).
    rewrite (s_op2_nth Rdiv _ _ j 0 0 0)
      by (rewrite !s_op2_length, ?s_skip_length, !tab_length; fold P; lia).
    rewrite !(s_op2_nth Rminus _ _ j 0 0 0)
      by (rewrite ?s_skip_length, ?tab_length; fold P; lia).
    rewrite !tab_nth by exact Hj. rewrite s_skip_nth.
    replace (Z.to_nat (p - 1)) with (P - 1)%nat by (unfold P; lia).
    destruct (hl_chain P hs ls cs (P - 1 + j) Hlc Hch) as [A B]; try (fold n; lia).
    apply williams_value_range; [exact A | exact B | exact Hlt].
  Qed.

  Theorem williams_r_range_all : Forall2 Rlt ls hs ->
    Forall (fun v => -100 <= v <= 0) (williams_out p hs ls cs).
  Proof.
    intros Hlh. apply (Forall_nth_intro _ 0). intros j Hj. rewrite williams_r_length in Hj.
    apply williams_r_range_pos; [exact Hj|].
    apply hl_strict; [exact Hlh | | | fold n]; unfold P; lia.
  Qed.
End HLC.

(* sums and means of bounded values *)
Lemma Rsum_bounds (a b : R) (l : list R) :
  Forall (fun x => a <= x <= b) l -> INR (length l) * a <= Rsum l <= INR (length l) * b.
Proof.
  induction 1 as [|x l Hx Hl IH].
  - simpl. rewrite Rsum_nil. lra.
  - rewrite Rsum_cons. change (length (x :: l)) with (S (length l)). rewrite S_INR. lra.
Qed.

Lemma window_length (P : nat) (xs : list R) (i : nat) : length (window P xs i) = P.
Proof. unfold window. rewrite map_length, seq_length. reflexivity. Qed.

Lemma wmean_bounds (a b : R) (P : nat) (xs : list R) (i : nat) :
  (1 <= P)%nat -> (forall j, (i + 1 - P <= j < i + 1 - P + P)%nat -> a <= at_ xs j <= b) ->
  a <= wmean P xs i <= b.
Proof.
  intros HP H.
  assert (HF : Forall (fun x => a <= x <= b) (window P xs i)).
  { apply Forall_forall. intros x Hx. destruct (window_elems P xs i x Hx) as (j & Hj & E). subst x. apply H. exact Hj. }
  pose proof (Rsum_bounds a b _ HF) as HB. rewrite window_length in HB.
  assert (HPpos : 0 < INR P) by (apply lt_0_INR; lia).
  unfold wmean, wsum. split.
  - apply Rmult_le_reg_r with (INR P); [exact HPpos|]. unfold Rdiv. rewrite Rmult_assoc, Rinv_l by lra. lra.
  - apply Rmult_le_reg_r with (INR P); [exact HPpos|]. unfold Rdiv. rewrite Rmult_assoc, Rinv_l by lra. lra.
Qed.

Definition stoch (p q : Z) : expr R R * expr R R :=
  momentum_StochasticOscillator_Compute (T:=R) (I:=R)
    (mk_momentum_StochasticOscillator (mk_trend_MovingMax p) (mk_trend_MovingMin p) (mk_trend_Sma q))
    (EIn 0) (EIn 1) (EIn 2).
Definition stoch_k (p q : Z) (hs ls cs : list R) : list R := sem (fst (stoch p q)) [hs; ls; cs].
Definition stoch_d (p q : Z) (hs ls cs : list R) : list R := sem (snd (stoch p q)) [hs; ls; cs].

(* the unsmoothed %K line, before the final Skip by the SMA's idle period *)
Definition stoch_k0_expr (p : Z) : expr R R :=
  helper_MultiplyBy
    (helper_Divide
       (helper_Subtract (ESkip (p - 1) (EIn 2)) (trend_MovingMin_Compute (T:=R) (I:=R) (mk_trend_MovingMin p) (EIn 1)))
       (helper_Subtract (trend_MovingMax_Compute (T:=R) (I:=R) (mk_trend_MovingMax p) (EIn 0))
                        (trend_MovingMin_Compute (T:=R) (I:=R) (mk_trend_MovingMin p) (EIn 1))))
    (IZR 100).

Lemma stoch_eqs p q hs ls cs :
  stoch_k p q hs ls cs = s_skip (q - 1) (sem (stoch_k0_expr p) [hs; ls; cs]) /\
  stoch_d p q hs ls cs = sem (trend_Sma_Compute (T:=R) (I:=R) (mk_trend_Sma q) (stoch_k0_expr p)) [hs; ls; cs].
Proof. split; reflexivity. Qed.

Lemma stoch_k0_eq p hs ls cs :
  sem (stoch_k0_expr p) [hs; ls; cs] =
  let H := sem (trend_MovingMax_Compute (T:=R) (I:=R) (mk_trend_MovingMax p) (EIn 0)) [hs; ls; cs] in
  let L := sem (trend_MovingMin_Compute (T:=R) (I:=R) (mk_trend_MovingMin p) (EIn 1)) [hs; ls; cs] in
  map (fun n => n * IZR 100) (s_op2 Rdiv (s_op2 Rminus (s_skip (p - 1) cs) L) (s_op2 Rminus H L)).
Proof. reflexivity. Qed.

Section Stoch.
  Variables (p q : Z) (hs ls cs : list R).
  Hypothesis Hp : (1 <= p)%Z.
  Hypothesis Hq : (1 <= q)%Z.
  Hypothesis Hlc : Forall2 Rle ls cs.
  Hypothesis Hch : Forall2 Rle cs hs.
  Hypothesis Hnzh : Forall (fun x => x <> 0) (firstn (Z.to_nat p) hs).
  Hypothesis Hnzl : Forall (fun x => x <> 0) (firstn (Z.to_nat p) ls).
  Let P := Z.to_nat p.
  Let Q := Z.to_nat q.
  Let n := length hs.
  Let K0 := sem (stoch_k0_expr p) [hs; ls; cs].

  Lemma stoch_k0_length : length K0 = (n - (P - 1))%nat.
  Proof.
    destruct (hlc_lens hs ls cs Hlc Hch) as [L1 L2]. fold n in L1, L2.
    unfold K0. rewrite stoch_k0_eq. cbv zeta.
    rewrite (HLC_max p hs ls cs Hp Hnzh), (HLC_min p hs ls cs Hp Hlc Hch Hnzl).
    rewrite map_length, !s_op2_length, s_skip_length, !tab_length. fold P n. lia.
  Qed.

  Lemma stoch_k0_range_pos : forall j, (j < n - (P - 1))%nat ->
    wmin P ls (P - 1 + j) < wmax P hs (P - 1 + j) -> 0 <= nth j K0 0 <= 100.
  Proof.
    intros j Hj Hlt. destruct (hlc_lens hs ls cs Hlc Hch) as [L1 L2]. fold n in L1, L2.
    unfold K0. rewrite stoch_k0_eq. cbv zeta.
    rewrite (HLC_max p hs ls cs Hp Hnzh), (HLC_min p hs ls cs Hp Hlc Hch Hnzl). fold P n.
    assert (HPn : (1 <= P)%nat) by (unfold P; lia).
    rewrite (map_nth_lt (fun n => n * IZR 100) _ j 0 0)
      by (rewrite !s_op2_length, s_skip_length, !tab_length; fold P; lia).
    rewrite (s_op2_nth Rdiv _ _ j 0 0 0)
      by (rewrite !s_op2_length, ?s_skip_length, !tab_length; fold P; lia).
    rewrite !(s_op2_nth Rminus _ _ j 0 0 0)
      by (rewrite ?s_skip_length, ?tab_length; fold P; lia).
    rewrite !tab_nth by exact Hj. rewrite s_skip_nth.
    replace (Z.to_nat (p - 1)) with (P - 1)%nat by (unfold P; lia).
    destruct (hl_chain P hs ls cs (P - 1 + j) Hlc Hch) as [A B]; try (fold n; lia).
    apply stoch_value_range; [exact A | exact B | exact Hlt].
  Qed.

  Theorem stoch_k_length : length (stoch_k p q hs ls cs) = (n - (P - 1) - (Q - 1))%nat.
  Proof.
    destruct (stoch_eqs p q hs ls cs) as [EK _]. rewrite EK. fold K0.
    rewrite s_skip_length, stoch_k0_length. unfold Q. lia.
  Qed.

  (* reported position j of %K is input position (p-1) + (q-1) + j *)
  Theorem stoch_k_range_pos : forall j, (j < n - (P - 1) - (Q - 1))%nat ->
    wmin P ls (P - 1 + (Q - 1) + j) < wmax P hs (P - 1 + (Q - 1) + j) ->
    0 <= nth j (stoch_k p q hs ls cs) 0 <= 100.
  Proof.
    intros j Hj Hlt. destruct (stoch_eqs p q hs ls cs) as [EK _]. rewrite EK. fold K0.
    rewrite s_skip_nth. replace (Z.to_nat (q - 1)) with (Q - 1)%nat by (unfold Q; lia).
    apply stoch_k0_range_pos; [lia|].
    replace (P - 1 + (Q - 1 + j))%nat with (P - 1 + (Q - 1) + j)%nat by lia. exact Hlt.
  Qed.

  Theorem stoch_k_range_all : Forall2 Rlt ls hs ->
    Forall (fun v => 0 <= v <= 100) (stoch_k p q hs ls cs).
  Proof.
    intros Hlh. apply (Forall_nth_intro _ 0). intros j Hj. rewrite stoch_k_length in Hj.
    apply stoch_k_range_pos; [exact Hj|].
    apply hl_strict; [exact Hlh | | | fold n]; unfold P; lia.
  Qed.

  Theorem stoch_d_length : length (stoch_d p q hs ls cs) = (n - (P - 1) - (Q - 1))%nat.
  Proof.
    destruct (stoch_eqs p q hs ls cs) as [_ ED]. rewrite ED.
    rewrite sma_is_window_mean_expr by exact Hq. fold K0. rewrite tab_length, stoch_k0_length. reflexivity.
  Qed.

  (* %D, the SMA of %K, stays in [0, 100] too *)
  Theorem stoch_d_range_all : Forall2 Rlt ls hs ->
    Forall (fun v => 0 <= v <= 100) (stoch_d p q hs ls cs).
  Proof.
    intros Hlh. apply (Forall_nth_intro _ 0). intros j Hj. rewrite stoch_d_length in Hj.
    destruct (stoch_eqs p q hs ls cs) as [_ ED]. rewrite ED.
    rewrite sma_is_window_mean_expr by exact Hq. fold K0. rewrite stoch_k0_length. fold Q.
    rewrite tab_nth by exact Hj.
    apply wmean_bounds; [unfold Q; lia|].
    intros k Hk. unfold at_. apply stoch_k0_range_pos; [lia|].
    apply hl_strict; [exact Hlh | | | fold n]; unfold P; lia.
  Qed.
End Stoch.

(* ------------------------------------------------------------------------------------------ *)
(* 4. volatility.MovingStd >= 0, BollingerBands ordered, BollingerBandWidth >= 0, trend.Envelope ordered *)

Lemma std_loop_nonneg (l : list R) : forall (p : nat) (win : list R) (sum : R),
  Forall (fun v => 0 <= v) (std_loop (H:=NumR) p win sum l).
Proof.
  induction l as [|x l IH]; intros p win sum; [constructor|].
  rewrite std_loop_cons. cbv zeta.
  destruct (Nat.eqb (length ((if Nat.eqb (length win) p then tl win else win) ++ [x])) p).
  - constructor; [apply sqrt_pos | apply IH].
  - apply IH.
Qed.

(* no hypothesis at all: every reported value is a square root *)
Theorem moving_std_nonneg {I} (p : Z) (e : expr I R) (env : list (list I)) :
  Forall (fun v => 0 <= v)
    (sem (volatility_MovingStd_Compute (T:=R) (I:=I) (mk_volatility_MovingStd p) e) env).
Proof.
  change (sem (volatility_MovingStd_Compute (T:=R) (I:=I) (mk_volatility_MovingStd p) e) env)
    with (std_loop (H:=NumR) (Z.to_nat p) [] 0 (sem e env)).
  apply std_loop_nonneg.
Qed.

Lemma Rsum_nonneg (l : list R) : Forall (fun x => 0 <= x) l -> 0 <= Rsum l.
Proof. induction 1; [rewrite Rsum_nil; lra | rewrite Rsum_cons; lra]. Qed.

Lemma Rsum_pos (l : list R) : Forall (fun x => 0 < x) l -> l <> [] -> 0 < Rsum l.
Proof.
  induction 1 as [|x l Hx Hl IH]; [congruence|]. intros _. rewrite Rsum_cons.
  destruct l as [|y l]; [rewrite Rsum_nil; lra|]. assert (0 < Rsum (y :: l)) by (apply IH; congruence). lra.
Qed.

Lemma at_nonneg (xs : list R) (j : nat) : Forall (fun x => 0 <= x) xs -> 0 <= at_ xs j.
Proof.
  intros H. unfold at_. destruct (Nat.lt_ge_cases j (length xs)) as [Hj|Hj].
  - apply (Forall_nth_elim _ 0 xs H). exact Hj.
  - rewrite nth_overflow by exact Hj. lra.
Qed.

Lemma at_nonpos (xs : list R) (j : nat) : Forall (fun x => x <= 0) xs -> at_ xs j <= 0.
Proof.
  intros H. unfold at_. destruct (Nat.lt_ge_cases j (length xs)) as [Hj|Hj].
  - apply (Forall_nth_elim _ 0 xs H). exact Hj.
  - rewrite nth_overflow by exact Hj. lra.
Qed.

Lemma wmean_nonneg (P : nat) (xs : list R) (i : nat) :
  Forall (fun x => 0 <= x) xs -> 0 <= wmean P xs i.
Proof.
  intros H. unfold wmean, wsum. unfold Rdiv. apply Rmult_le_pos.
  - apply Rsum_nonneg. apply Forall_forall. intros x Hx.
    destruct (window_elems P xs i x Hx) as (j & _ & E). subst x. apply at_nonneg. exact H.
  - destruct P as [|P]; [simpl; rewrite Rinv_0; lra|].
    left. apply Rinv_0_lt_compat. apply lt_0_INR. lia.
Qed.

Lemma wmean_nonpos (P : nat) (xs : list R) (i : nat) :
  Forall (fun x => x <= 0) xs -> wmean P xs i <= 0.
Proof.
  intros H.
  assert (HS : Rsum (window P xs i) <= 0).
  { assert (HF : Forall (fun x => x <= 0) (window P xs i)).
    { apply Forall_forall. intros x Hx.
      destruct (window_elems P xs i x Hx) as (j & _ & E). subst x. apply at_nonpos. exact H. }
    induction HF; [rewrite Rsum_nil; lra | rewrite Rsum_cons; lra]. }
  unfold wmean, wsum, Rdiv.
  assert (0 <= / INR P).
  { destruct P as [|P]; [simpl; rewrite Rinv_0; lra|]. left. apply Rinv_0_lt_compat. apply lt_0_INR. lia. }
  replace (Rsum (window P xs i) * / INR P) with (- ((- Rsum (window P xs i)) * / INR P)) by lra.
  assert (0 <= (- Rsum (window P xs i)) * / INR P) by (apply Rmult_le_pos; lra). lra.
Qed.

Lemma wmean_pos (P : nat) (xs : list R) (i : nat) :
  Forall (fun x => 0 < x) xs -> (1 <= P)%nat -> (P <= i + 1)%nat -> (i < length xs)%nat -> 0 < wmean P xs i.
Proof.
  intros H HP H1 H2. unfold wmean, wsum, Rdiv. apply Rmult_lt_0_compat.
  - apply Rsum_pos.
    + apply Forall_forall. intros x Hx.
      destruct (window_elems P xs i x Hx) as (j & Hj & E). subst x. unfold at_.
      apply (Forall_nth_elim _ 0 xs H). lia.
    + intros E. pose proof (window_length P xs i) as L. rewrite E in L. simpl in L. lia.
  - apply Rinv_0_lt_compat. apply lt_0_INR. lia.
Qed.

Theorem sma_nonneg {I} (p : Z) (e : expr I R) (env : list (list I)) :
  (1 <= p)%Z -> Forall (fun x => 0 <= x) (sem e env) ->
  Forall (fun v => 0 <= v) (sem (trend_Sma_Compute (T:=R) (I:=I) (mk_trend_Sma p) e) env).
Proof.
  intros Hp H. rewrite sma_is_window_mean_expr by exact Hp.
  apply (Forall_nth_intro _ 0). intros j Hj. rewrite tab_length in Hj. rewrite tab_nth by exact Hj.
  apply wmean_nonneg. exact H.
Qed.

Theorem sma_pos {I} (p : Z) (e : expr I R) (env : list (list I)) :
  (1 <= p)%Z -> Forall (fun x => 0 < x) (sem e env) ->
  Forall (fun v => 0 < v) (sem (trend_Sma_Compute (T:=R) (I:=I) (mk_trend_Sma p) e) env).
Proof.
  intros Hp H. rewrite sma_is_window_mean_expr by exact Hp.
  apply (Forall_nth_intro _ 0). intros j Hj. rewrite tab_length in Hj. rewrite tab_nth by exact Hj.
  apply wmean_pos; [exact H | lia | lia | lia].
Qed.

(* bands around a middle line *)
Lemma bands_ordered (m s : list R) :
  length m = length s -> Forall (fun v => 0 <= v) s ->
  Forall2 Rle (s_op2 Rminus m s) m /\ Forall2 Rle m (s_op2 Rplus m s).
Proof.
  intros L Hs.
  split; apply (Forall2_nth_intro Rle 0 0); rewrite ?s_op2_length; try lia.
  - intros i Hi. rewrite (s_op2_nth Rminus _ _ i 0 0 0) by lia.
    pose proof (Forall_nth_elim _ 0 s Hs i ltac:(lia)). simpl in *. lra.
  - intros i Hi. rewrite (s_op2_nth Rplus _ _ i 0 0 0) by lia.
    pose proof (Forall_nth_elim _ 0 s Hs i ltac:(lia)). simpl in *. lra.
Qed.

Definition bollinger (p : Z) : expr R R * expr R R * expr R R :=
  volatility_BollingerBands_Compute (T:=R) (I:=R) (mk_volatility_BollingerBands p) (EIn 0).
Definition bollinger_upper (p : Z) (xs : list R) : list R := sem (fst (fst (bollinger p))) [xs].
Definition bollinger_middle (p : Z) (xs : list R) : list R := sem (snd (fst (bollinger p))) [xs].
Definition bollinger_lower (p : Z) (xs : list R) : list R := sem (snd (bollinger p)) [xs].
Definition bollinger_std2 (p : Z) (xs : list R) : list R :=
  map (fun n => n * 2) (sem (volatility_MovingStd_Compute (T:=R) (I:=R) (mk_volatility_MovingStd p) (EIn 0)) [xs]).

Lemma bollinger_eqs p xs :
  bollinger_middle p xs = sem (trend_Sma_Compute (T:=R) (I:=R) (mk_trend_Sma p) (EIn 0)) [xs] /\
  bollinger_upper p xs = s_op2 Rplus (bollinger_middle p xs) (bollinger_std2 p xs) /\
  bollinger_lower p xs = s_op2 Rminus (bollinger_middle p xs) (bollinger_std2 p xs).
Proof. repeat split; reflexivity. Qed.

Lemma bollinger_std2_nonneg p xs : Forall (fun v => 0 <= v) (bollinger_std2 p xs).
Proof.
  unfold bollinger_std2. apply Forall_forall. intros x Hx. apply in_map_iff in Hx.
  destruct Hx as (y & E & Hy). subst x.
  pose proof (moving_std_nonneg p (EIn 0) [xs]) as H. rewrite Forall_forall in H. specialize (H y Hy). simpl in H. lra.
Qed.

Lemma bollinger_lengths p xs : (1 <= p)%Z ->
  length (bollinger_middle p xs) = (length xs - (Z.to_nat p - 1))%nat /\
  length (bollinger_std2 p xs) = (length xs - (Z.to_nat p - 1))%nat.
Proof.
  intros Hp. destruct (bollinger_eqs p xs) as (EM & _ & _). rewrite EM. split.
  - rewrite sma_is_window_mean_expr by exact Hp. rewrite tab_length. reflexivity.
  - unfold bollinger_std2. rewrite map_length.
    change (sem (volatility_MovingStd_Compute (T:=R) (I:=R) (mk_volatility_MovingStd p) (EIn 0)) [xs])
      with (s_moving_std (H:=NumR) p xs).
    rewrite s_moving_std_length. destruct (Nat.eqb_spec (Z.to_nat p) 0); [lia | reflexivity].
Qed.

Theorem bollinger_ordered (p : Z) (xs : list R) : (1 <= p)%Z ->
  Forall2 Rle (bollinger_lower p xs) (bollinger_middle p xs) /\
  Forall2 Rle (bollinger_middle p xs) (bollinger_upper p xs).
Proof.
  intros Hp. destruct (bollinger_eqs p xs) as (_ & EU & EL). rewrite EU, EL.
  destruct (bollinger_lengths p xs Hp) as [L1 L2].
  apply bands_ordered; [congruence | apply bollinger_std2_nonneg].
Qed.

Definition bbw_out (p : Z) (xs : list R) : list R :=
  sem (volatility_BollingerBandWidth_Compute (T:=R) (I:=R)
         (mk_volatility_BollingerBandWidth (mk_volatility_BollingerBands p)) (EIn 0)) [xs].

Lemma bbw_out_eq p xs :
  bbw_out p xs = s_op2 Rdiv (s_op2 Rminus (bollinger_upper p xs) (bollinger_lower p xs)) (bollinger_middle p xs).
Proof. reflexivity. Qed.

Theorem bbw_nonneg_pos (p : Z) (xs : list R) : (1 <= p)%Z ->
  forall j, (j < length xs - (Z.to_nat p - 1))%nat -> 0 < nth j (bollinger_middle p xs) 0 ->
  0 <= nth j (bbw_out p xs) 0.
Proof.
  intros Hp j Hj Hm. rewrite bbw_out_eq.
  destruct (bollinger_eqs p xs) as (_ & EU & EL). destruct (bollinger_lengths p xs Hp) as [L1 L2].
  assert (LU : length (bollinger_upper p xs) = (length xs - (Z.to_nat p - 1))%nat)
    by (rewrite EU, s_op2_length; lia).
  assert (LL : length (bollinger_lower p xs) = (length xs - (Z.to_nat p - 1))%nat)
    by (rewrite EL, s_op2_length; lia).
  rewrite (s_op2_nth Rdiv _ _ j 0 0 0) by (rewrite ?s_op2_length; lia).
  rewrite (s_op2_nth Rminus _ _ j 0 0 0) by lia.
  rewrite EU, EL.
  rewrite (s_op2_nth Rplus _ _ j 0 0 0), (s_op2_nth Rminus _ _ j 0 0 0) by lia.
  pose proof (Forall_nth_elim _ 0 _ (bollinger_std2_nonneg p xs) j ltac:(lia)) as Hs. simpl in Hs.
  unfold Rdiv. apply Rmult_le_pos; [lra|]. left. apply Rinv_0_lt_compat. exact Hm.
Qed.

Theorem bbw_nonneg_all (p : Z) (xs : list R) : (1 <= p)%Z -> Forall (fun x => 0 < x) xs ->
  Forall (fun v => 0 <= v) (bbw_out p xs).
Proof.
  intros Hp Hpos. apply (Forall_nth_intro _ 0). intros j Hj.
  destruct (bollinger_eqs p xs) as (EM & EU & EL). destruct (bollinger_lengths p xs Hp) as [L1 L2].
  rewrite bbw_out_eq, !s_op2_length, EU, EL, !s_op2_length in Hj.
  apply bbw_nonneg_pos; [exact Hp | lia |].
  rewrite EM. apply (Forall_nth_elim (fun v => 0 < v) 0).
  - apply (sma_pos p (EIn 0) [xs] Hp). exact Hpos.
  - rewrite <- EM. lia.
Qed.

(* trend.Envelope around an arbitrary moving average [ma] *)
Definition envelope {I} (ma : trend_Ma (I:=I) (T:=R)) (pct : R) (c : expr I R) : expr I R * expr I R * expr I R :=
  trend_Envelope_Compute (T:=R) (I:=I) (mk_trend_Envelope ma pct) c.

Theorem envelope_ordered {I} (ma : trend_Ma (I:=I) (T:=R)) (pct : R) (c : expr I R) (env : list (list I)) :
  0 <= pct -> Forall (fun v => 0 <= v) (sem (trend_Ma_Compute ma c) env) ->
  sem (snd (fst (envelope ma pct c))) env = sem (trend_Ma_Compute ma c) env /\
  Forall2 Rle (sem (snd (envelope ma pct c)) env) (sem (snd (fst (envelope ma pct c))) env) /\
  Forall2 Rle (sem (snd (fst (envelope ma pct c))) env) (sem (fst (fst (envelope ma pct c))) env).
Proof.
  intros Hpct Hm. set (M := sem (trend_Ma_Compute ma c) env) in *.
  change (sem (snd (fst (envelope ma pct c))) env) with M.
  change (sem (snd (envelope ma pct c)) env) with (map (fun n => n * (1 - pct / 100)) M).
  change (sem (fst (fst (envelope ma pct c))) env) with (map (fun n => n * (1 + pct / 100)) M).
  split; [reflexivity|].
  split; apply (Forall2_nth_intro Rle 0 0); rewrite ?map_length; try reflexivity.
  - intros i Hi. rewrite (map_nth_lt _ M i 0 0) by exact Hi.
    pose proof (Forall_nth_elim _ 0 M Hm i Hi) as H. simpl in H.
    assert (0 <= nth i M 0 * (pct / 100)) by (apply Rmult_le_pos; lra). lra.
  - intros i Hi. rewrite (map_nth_lt _ M i 0 0) by exact Hi.
    pose proof (Forall_nth_elim _ 0 M Hm i Hi) as H. simpl in H.
    assert (0 <= nth i M 0 * (pct / 100)) by (apply Rmult_le_pos; lra). lra.
Qed.

(* the default constructor's moving average: SMA over non-negative closings *)
Theorem envelope_sma_ordered (p : Z) (pct : R) (cs : list R) :
  (1 <= p)%Z -> 0 <= pct -> Forall (fun x => 0 <= x) cs ->
  let t := envelope (trend_Sma_as_trend_Ma (T:=R) (I:=R) (mk_trend_Sma p)) pct (EIn 0) in
  Forall2 Rle (sem (snd t) [cs]) (sem (snd (fst t)) [cs]) /\
  Forall2 Rle (sem (snd (fst t)) [cs]) (sem (fst (fst t)) [cs]).
Proof.
  intros Hp Hpct Hc t.
  apply (envelope_ordered (trend_Sma_as_trend_Ma (T:=R) (I:=R) (mk_trend_Sma p)) pct (EIn 0) [cs] Hpct).
  apply (sma_nonneg p (EIn 0) [cs] Hp). exact Hc.
Qed.

(* ------------------------------------------------------------------------------------------ *)
(* 5. Seeded recurrences preserve sign; momentum.Rsi in [0, 100] *)

Lemma seeded_rec_inv (Pb : R -> Prop) (P : nat) (step : R -> R -> R) (xs : list R) :
  Pb (wmean P xs (P - 1)) -> (forall b i, Pb b -> Pb (step b (at_ xs i))) ->
  forall i, Pb (seeded_rec P step xs i).
Proof.
  intros H0 Hs. induction i as [|i IH]; simpl; [exact H0|].
  destruct (Nat.leb P (S i)); [apply Hs; exact IH | exact H0].
Qed.

Definition rma_step (p : Z) (before n : R) : R := (before * (IZR p - 1) + n) / IZR p.

Lemma rma_step_nonneg (p : Z) (b n : R) : (1 <= p)%Z -> 0 <= b -> 0 <= n -> 0 <= rma_step p b n.
Proof.
  intros Hp Hb Hn. unfold rma_step, Rdiv.
  assert (1 <= IZR p) by (apply IZR_le; exact Hp).
  apply Rmult_le_pos.
  - assert (0 <= b * (IZR p - 1)) by (apply Rmult_le_pos; lra). lra.
  - left. apply Rinv_0_lt_compat. lra.
Qed.

Lemma rma_step_nonpos (p : Z) (b n : R) : (1 <= p)%Z -> b <= 0 -> n <= 0 -> rma_step p b n <= 0.
Proof.
  intros Hp Hb Hn.
  replace (rma_step p b n) with (- rma_step p (- b) (- n)) by (unfold rma_step; field; apply not_0_IZR; lia).
  pose proof (rma_step_nonneg p (- b) (- n) Hp ltac:(lra) ltac:(lra)). lra.
Qed.

Theorem rma_nonneg {I} (p : Z) (e : expr I R) (env : list (list I)) :
  (1 <= p)%Z -> Forall (fun x => 0 <= x) (sem e env) ->
  Forall (fun v => 0 <= v) (sem (trend_Rma_Compute (T:=R) (I:=I) (mk_trend_Rma p) e) env).
Proof.
  intros Hp H. rewrite Prim.SeededProofs.rma_is_documented_gen by exact Hp.
  apply (Forall_nth_intro _ 0). intros j Hj. rewrite tab_length in Hj. rewrite tab_nth by exact Hj.
  apply (seeded_rec_inv (fun v => 0 <= v)).
  - apply wmean_nonneg. exact H.
  - intros b i Hb. apply (rma_step_nonneg p b (at_ (sem e env) i) Hp Hb). apply at_nonneg. exact H.
Qed.

Theorem rma_nonpos {I} (p : Z) (e : expr I R) (env : list (list I)) :
  (1 <= p)%Z -> Forall (fun x => x <= 0) (sem e env) ->
  Forall (fun v => v <= 0) (sem (trend_Rma_Compute (T:=R) (I:=I) (mk_trend_Rma p) e) env).
Proof.
  intros Hp H. rewrite Prim.SeededProofs.rma_is_documented_gen by exact Hp.
  apply (Forall_nth_intro _ 0). intros j Hj. rewrite tab_length in Hj. rewrite tab_nth by exact Hj.
  apply (seeded_rec_inv (fun v => v <= 0)).
  - apply wmean_nonpos. exact H.
  - intros b i Hb. apply (rma_step_nonpos p b (at_ (sem e env) i) Hp Hb). apply at_nonpos. exact H.
Qed.

Theorem smma_nonneg {I} (p : Z) (e : expr I R) (env : list (list I)) :
  (1 <= p)%Z -> Forall (fun x => 0 <= x) (sem e env) ->
  Forall (fun v => 0 <= v) (sem (trend_Smma_Compute (T:=R) (I:=I) (mk_trend_Smma p) e) env).
Proof.
  intros Hp H. rewrite Prim.SeededProofs.smma_is_documented_gen by exact Hp.
  apply (Forall_nth_intro _ 0). intros j Hj. rewrite tab_length in Hj. rewrite tab_nth by exact Hj.
  apply (seeded_rec_inv (fun v => 0 <= v)).
  - apply wmean_nonneg. exact H.
  - intros b i Hb. apply (rma_step_nonneg p b (at_ (sem e env) i) Hp Hb). apply at_nonneg. exact H.
Qed.

(* EMA is a convex combination when 0 <= smoothing <= period + 1 (the default smoothing is 2) *)
Theorem ema_nonneg {I} (p : Z) (smoothing : R) (e : expr I R) (env : list (list I)) :
  (1 <= p)%Z -> 0 <= smoothing <= IZR p + 1 -> Forall (fun x => 0 <= x) (sem e env) ->
  Forall (fun v => 0 <= v) (sem (trend_Ema_Compute (T:=R) (I:=I) (mk_trend_Ema p smoothing) e) env).
Proof.
  intros Hp Hs H. rewrite Prim.SeededProofs.ema_is_documented_gen by exact Hp.
  apply (Forall_nth_intro _ 0). intros j Hj. rewrite tab_length in Hj. rewrite tab_nth by exact Hj.
  unfold ema_doc. apply (seeded_rec_inv (fun v => 0 <= v)).
  - apply wmean_nonneg. exact H.
  - intros b i Hb. pose proof (at_nonneg (sem e env) i H) as Hn.
    unfold ema_step. rewrite Prim.SeededProofs.IZR_to_nat by exact Hp.
    assert (Hpp : 0 < IZR p + 1) by (assert (1 <= IZR p) by (apply IZR_le; exact Hp); lra).
    set (k := smoothing / (IZR p + 1)).
    assert (Hk : 0 <= k <= 1).
    { unfold k. split.
      - unfold Rdiv. apply Rmult_le_pos; [lra|]. left. apply Rinv_0_lt_compat. exact Hpp.
      - apply Rmult_le_reg_r with (IZR p + 1); [exact Hpp|]. unfold Rdiv. rewrite Rmult_assoc, Rinv_l by lra. lra. }
    replace ((at_ (sem e env) i - b) * k + b) with (at_ (sem e env) i * k + b * (1 - k)) by lra.
    assert (0 <= at_ (sem e env) i * k) by (apply Rmult_le_pos; lra).
    assert (0 <= b * (1 - k)) by (apply Rmult_le_pos; lra). lra.
Qed.

Lemma Rpow_model_m1 (x : R) : Rpow_model x (IZR (-1)) = / x.
Proof.
  unfold Rpow_model.
  destruct (Req_EM_T (-1) 2) as [E|_]; [exfalso; lra|].
  destruct (Req_EM_T (-1) (-1)) as [_|E]; [reflexivity | exfalso; lra].
Qed.

Definition rsi_value (g l : R) : R := Rpow_model (g / l + 1) (IZR (-1)) * IZR 100 * IZR (-1) + IZR 100.

Lemma rsi_value_range_gen (g l : R) : 0 <= g -> 0 <= / l -> 0 <= rsi_value g l <= 100.
Proof.
  intros Hg Hl. unfold rsi_value. rewrite Rpow_model_m1.
  assert (Hrs : 0 <= g / l) by (unfold Rdiv; apply Rmult_le_pos; assumption).
  assert (H1 : 0 < / (g / l + 1)) by (apply Rinv_0_lt_compat; lra).
  assert (H2 : / (g / l + 1) <= 1).
  { rewrite <- Rinv_1. apply Rinv_le_contravar; lra. }
  lra.
Qed.

Lemma rsi_value_range (g l : R) : 0 <= g -> 0 < l -> 0 <= rsi_value g l <= 100.
Proof. intros Hg Hl. apply rsi_value_range_gen; [exact Hg | left; apply Rinv_0_lt_compat; exact Hl]. Qed.

Definition rsi_changes : expr R R := helper_Change (T:=R) (I:=R) (EIn 0) 1.
Definition rsi_avg_gain (p : Z) (cs : list R) : list R :=
  sem (trend_Rma_Compute (T:=R) (I:=R) (mk_trend_Rma p) (helper_KeepPositives rsi_changes)) [cs].
Definition rsi_avg_loss (p : Z) (cs : list R) : list R :=
  sem (helper_MultiplyBy (trend_Rma_Compute (T:=R) (I:=R) (mk_trend_Rma p) (helper_KeepNegatives rsi_changes)) (IZR (-1))) [cs].
Definition rsi_out (p : Z) (cs : list R) : list R :=
  sem (momentum_Rsi_Compute (T:=R) (I:=R) (mk_momentum_Rsi (mk_trend_Rma p)) (EIn 0)) [cs].

Lemma rsi_out_eq p cs :
  rsi_out p cs = map (fun rs => Rpow_model (rs + 1) (IZR (-1)) * IZR 100 * IZR (-1) + IZR 100)
                     (s_op2 Rdiv (rsi_avg_gain p cs) (rsi_avg_loss p cs)).
Proof.
  change (rsi_out p cs) with
    (map (fun n => n + IZR 100) (map (fun n => n * IZR (-1)) (map (fun n => n * IZR 100)
       (map (fun n => Rpow_model n (IZR (-1))) (map (fun n => n + IZR 1)
          (s_op2 Rdiv (rsi_avg_gain p cs) (rsi_avg_loss p cs))))))).
  rewrite !map_map. reflexivity.
Qed.

Lemma keep_positives_nonneg {I} (e : expr I R) env :
  Forall (fun x => 0 <= x) (sem (helper_KeepPositives (T:=R) e) env).
Proof.
  change (sem (helper_KeepPositives (T:=R) e) env)
    with (map (fun n => if Rltb 0 n then n else 0) (sem e env)).
  apply Forall_forall. intros x Hx. apply in_map_iff in Hx. destruct Hx as (y & E & _). subst x.
  destruct (Rltb 0 y) eqn:B; [apply Rltb_true in B; lra | lra].
Qed.

Lemma keep_negatives_nonpos {I} (e : expr I R) env :
  Forall (fun x => x <= 0) (sem (helper_KeepNegatives (T:=R) e) env).
Proof.
  change (sem (helper_KeepNegatives (T:=R) e) env)
    with (map (fun n => if Rltb n 0 then n else 0) (sem e env)).
  apply Forall_forall. intros x Hx. apply in_map_iff in Hx. destruct Hx as (y & E & _). subst x.
  destruct (Rltb y 0) eqn:B; [apply Rltb_true in B; lra | lra].
Qed.

Theorem rsi_avg_gain_nonneg (p : Z) (cs : list R) : (1 <= p)%Z -> Forall (fun v => 0 <= v) (rsi_avg_gain p cs).
Proof. intros Hp. apply rma_nonneg; [exact Hp | apply keep_positives_nonneg]. Qed.

Theorem rsi_avg_loss_nonneg (p : Z) (cs : list R) : (1 <= p)%Z -> Forall (fun v => 0 <= v) (rsi_avg_loss p cs).
Proof.
  intros Hp.
  change (rsi_avg_loss p cs) with
    (map (fun n => n * IZR (-1))
       (sem (trend_Rma_Compute (T:=R) (I:=R) (mk_trend_Rma p) (helper_KeepNegatives rsi_changes)) [cs])).
  apply Forall_forall. intros x Hx. apply in_map_iff in Hx. destruct Hx as (y & E & Hy). subst x.
  pose proof (rma_nonpos p (helper_KeepNegatives rsi_changes) [cs] Hp (keep_negatives_nonpos _ _)) as H.
  rewrite Forall_forall in H. specialize (H y Hy). simpl in H. lra.
Qed.

(* positions with a positive average loss: RSI = 100 - 100 / (1 + avgGain / avgLoss) in [0, 100] *)
Theorem rsi_range_pos (p : Z) (cs : list R) : (1 <= p)%Z ->
  forall j, (j < length (rsi_out p cs))%nat -> 0 < nth j (rsi_avg_loss p cs) 0 ->
  0 <= nth j (rsi_out p cs) 0 <= 100.
Proof.
  intros Hp j Hj Hl. rewrite rsi_out_eq in *. rewrite map_length, s_op2_length in Hj.
  rewrite (map_nth_lt _ _ j 0 0) by (rewrite s_op2_length; exact Hj).
  rewrite (s_op2_nth Rdiv _ _ j 0 0 0) by lia.
  apply (rsi_value_range (nth j (rsi_avg_gain p cs) 0) (nth j (rsi_avg_loss p cs) 0)); [|exact Hl].
  apply (Forall_nth_elim (fun v => 0 <= v) 0 _ (rsi_avg_gain_nonneg p cs Hp)). lia.
Qed.

(* In the real-number model division by zero is total (Coq: / 0 = 0), so the bound holds at every position of the
   model; at positions with average loss 0 this says nothing about the float64 code (which yields +Inf or NaN there). *)
Theorem rsi_range_model (p : Z) (cs : list R) : (1 <= p)%Z ->
  Forall (fun v => 0 <= v <= 100) (rsi_out p cs).
Proof.
  intros Hp. apply (Forall_nth_intro _ 0). intros j Hj.
  rewrite rsi_out_eq in *. rewrite map_length, s_op2_length in Hj.
  rewrite (map_nth_lt _ _ j 0 0) by (rewrite s_op2_length; exact Hj).
  rewrite (s_op2_nth Rdiv _ _ j 0 0 0) by lia.
  apply (rsi_value_range_gen (nth j (rsi_avg_gain p cs) 0) (nth j (rsi_avg_loss p cs) 0)).
  - apply (Forall_nth_elim (fun v => 0 <= v) 0 _ (rsi_avg_gain_nonneg p cs Hp)). lia.
  - pose proof (Forall_nth_elim (fun v => 0 <= v) 0 _ (rsi_avg_loss_nonneg p cs Hp) j ltac:(lia)) as H. simpl in H.
    destruct H as [H|H]; [left; apply Rinv_0_lt_compat; exact H | rewrite <- H, Rinv_0; lra].
Qed.

Theorem rsi_length (p : Z) (cs : list R) : (1 <= p)%Z ->
  length (rsi_out p cs) = (length cs - 1 - (Z.to_nat p - 1))%nat.
Proof.
  intros Hp. rewrite rsi_out_eq, map_length, s_op2_length.
  assert (LC : forall f : R -> R, length (map f (sem rsi_changes [cs])) = (length cs - 1)%nat).
  { intros f. rewrite map_length.
    change (sem rsi_changes [cs]) with (s_op2 Rminus (s_skip 1 cs) cs).
    rewrite s_op2_length, s_skip_length. change (Z.to_nat 1) with 1%nat. lia. }
  assert (LG : length (rsi_avg_gain p cs) = (length cs - 1 - (Z.to_nat p - 1))%nat).
  { unfold rsi_avg_gain. rewrite Prim.SeededProofs.rma_is_documented_gen by exact Hp. rewrite tab_length.
    change (sem (helper_KeepPositives rsi_changes) [cs])
      with (map (fun n => if Rltb 0 n then n else 0) (sem rsi_changes [cs])).
    rewrite LC. reflexivity. }
  assert (LL : length (rsi_avg_loss p cs) = (length cs - 1 - (Z.to_nat p - 1))%nat).
  { change (rsi_avg_loss p cs) with
      (map (fun n => n * IZR (-1))
         (sem (trend_Rma_Compute (T:=R) (I:=R) (mk_trend_Rma p) (helper_KeepNegatives rsi_changes)) [cs])).
    rewrite map_length, Prim.SeededProofs.rma_is_documented_gen by exact Hp. rewrite tab_length.
    change (sem (helper_KeepNegatives rsi_changes) [cs])
      with (map (fun n => if Rltb n 0 then n else 0) (sem rsi_changes [cs])).
    rewrite LC. reflexivity. }
  lia.
Qed.

(* ------------------------------------------------------------------------------------------ *)
(* 6. volatility.Atr >= 0 *)

(* the true-range stream the ATR averages: max(h - l, max(h - previous close, previous close - l)) *)
Definition atr_tr : expr R R :=
  EOp3 (fun high low closing => Rmax (high - low) (Rmax (high - closing) (closing - low)))
       (ESkip 1 (EIn 0)) (ESkip 1 (EIn 1)) (EIn 2).

Definition atr_out (ma : trend_Ma (I:=R) (T:=R)) (hs ls cs : list R) : list R :=
  sem (volatility_Atr_Compute (T:=R) (I:=R) (mk_volatility_Atr ma) (EIn 0) (EIn 1) (EIn 2)) [hs; ls; cs].

Lemma atr_out_eq ma hs ls cs : atr_out ma hs ls cs = sem (trend_Ma_Compute ma atr_tr) [hs; ls; cs].
Proof. reflexivity. Qed.

Theorem true_range_nonneg (hs ls cs : list R) :
  Forall2 Rle ls hs -> Forall (fun v => 0 <= v) (sem atr_tr [hs; ls; cs]).
Proof.
  intros Hlh. pose proof (Forall2_len Hlh) as L.
  change (sem atr_tr [hs; ls; cs])
    with (s_op3 (fun high low closing => Rmax (high - low) (Rmax (high - closing) (closing - low)))
            (s_skip 1 hs) (s_skip 1 ls) cs).
  apply (Forall_nth_intro _ 0). intros j Hj.
  rewrite s_op3_length, !s_skip_length in Hj. change (Z.to_nat 1) with 1%nat in Hj.
  rewrite (s_op3_nth _ _ _ _ j 0 0 0 0) by (rewrite ?s_skip_length; change (Z.to_nat 1) with 1%nat; lia).
  rewrite !s_skip_nth. change (Z.to_nat 1) with 1%nat.
  pose proof (Forall2_nth_elim Rle 0 0 _ _ Hlh (1 + j)%nat ltac:(lia)) as H.
  apply Rle_trans with (nth (1 + j) hs 0 - nth (1 + j) ls 0); [lra | apply Rmax_l].
Qed.

Definition ma_preserves_nonneg (ma : trend_Ma (I:=R) (T:=R)) : Prop :=
  forall (e : expr R R) (env : list (list R)),
    Forall (fun v => 0 <= v) (sem e env) -> Forall (fun v => 0 <= v) (sem (trend_Ma_Compute ma e) env).

Theorem atr_nonneg_ma (ma : trend_Ma (I:=R) (T:=R)) (hs ls cs : list R) :
  ma_preserves_nonneg ma -> Forall2 Rle ls hs -> Forall (fun v => 0 <= v) (atr_out ma hs ls cs).
Proof. intros Hma Hlh. rewrite atr_out_eq. apply Hma. apply true_range_nonneg. exact Hlh. Qed.

Lemma sma_preserves_nonneg (p : Z) : (1 <= p)%Z -> ma_preserves_nonneg (trend_Sma_as_trend_Ma (mk_trend_Sma p)).
Proof. intros Hp e env H. apply (sma_nonneg p e env Hp H). Qed.

Lemma smma_preserves_nonneg (p : Z) : (1 <= p)%Z -> ma_preserves_nonneg (trend_Smma_as_trend_Ma (mk_trend_Smma p)).
Proof. intros Hp e env H. apply (smma_nonneg p e env Hp H). Qed.

Lemma ema_preserves_nonneg (p : Z) (smoothing : R) : (1 <= p)%Z -> 0 <= smoothing <= IZR p + 1 ->
  ma_preserves_nonneg (trend_Ema_as_trend_Ma (mk_trend_Ema p smoothing)).
Proof. intros Hp Hs e env H. apply (ema_nonneg p smoothing e env Hp Hs H). Qed.

(* the library's constructor volatility.NewAtrWithPeriod uses an SMA *)
Theorem atr_nonneg (p : Z) (hs ls cs : list R) : (1 <= p)%Z -> Forall2 Rle ls hs ->
  Forall (fun v => 0 <= v)
    (sem (volatility_Atr_Compute (T:=R) (I:=R) (volatility_NewAtrWithPeriod p) (EIn 0) (EIn 1) (EIn 2)) [hs; ls; cs]).
Proof.
  intros Hp Hlh.
  apply (atr_nonneg_ma (trend_Sma_as_trend_Ma (mk_trend_Sma p)) hs ls cs (sma_preserves_nonneg p Hp) Hlh).
Qed.

(* ------------------------------------------------------------------------------------------ *)
(* 7. Documented failure: trend.Aroon is not confined to [0, 100] on flat runs (helper.Since keeps counting
      past the period).  Witness: period 2, five equal highs: the last Aroon-Up value is -50. *)

Lemma Rround_le_m1 (x : R) : x <= -1 -> Rround x <= -1.
Proof.
  intros Hx. unfold Rround. destruct (Rle_dec 0 x) as [H|_]; [exfalso; lra|].
  destruct (base_Int_part (- x + / 2)) as [_ H2].
  assert (H3 : IZR 0 < IZR (Int_part (- x + / 2))) by lra.
  apply lt_IZR in H3. assert (H4 : (1 <= Int_part (- x + / 2))%Z) by lia.
  apply IZR_le in H4. lra.
Qed.

Lemma Rpow_model_0 (x : R) : Rpow_model x (IZR 0) = 1.
Proof.
  unfold Rpow_model.
  destruct (Req_EM_T 0 2) as [E|_]; [exfalso; lra|].
  destruct (Req_EM_T 0 (-1)) as [E|_]; [exfalso; lra|].
  destruct (Req_EM_T 0 1) as [E|_]; [exfalso; lra|].
  destruct (Req_EM_T 0 0) as [_|E]; [reflexivity | exfalso; lra].
Qed.

Definition aroon_up (p : Z) (hs ls : list R) : list R :=
  sem (fst (trend_Aroon_Compute (T:=R) (I:=R) (mk_trend_Aroon p) (EIn 0) (EIn 1))) [hs; ls].

Theorem aroon_up_leaves_range :
  exists (p : Z) (hs ls : list R),
    (1 <= p)%Z /\ Forall (fun x => 0 < x) hs /\ Forall (fun x => 0 < x) ls /\ Forall2 Rle ls hs /\
    ~ Forall (fun v => 0 <= v <= 100) (aroon_up p hs ls).
Proof.
  exists 2%Z, [1; 1; 1; 1; 1], [1; 1; 1; 1; 1].
  split; [lia|]. split; [repeat constructor; lra|]. split; [repeat constructor; lra|].
  split; [repeat constructor; lra|].
  intros HF.
  set (env := [[1; 1; 1; 1; 1]; [1; 1; 1; 1; 1]]) in *.
  set (mm := trend_MovingMax_Compute (T:=R) (I:=R) (mk_trend_MovingMax 2) (EIn 0)).
  assert (EM : sem mm env = [1; 1; 1; 1]).
  { unfold mm. rewrite moving_max_is_window_max_expr; [| lia | repeat constructor; lra].
    change (Z.to_nat 2) with 2%nat.
    cbn [env sem nth length Nat.sub tab seq map wmax window Nat.add at_ Rlist_max fold_left].
    rewrite Rmax_left by lra. reflexivity. }
  assert (ES : sem (helper_Since mm) env = [0; 0 + 1; 0 + 1 + 1; 0 + 1 + 1 + 1]).
  { rewrite Verif.Base.HelperLaws.since_generated_is_slice_model, EM. unfold s_since.
    assert (E11 : Reqb 1 1 = true) by (apply Reqb_true; reflexivity).
    repeat (progress (cbn [s_mapst since_step neqb NumR nadd nofZ]; rewrite ?E11)). reflexivity. }
  change (aroon_up 2 [1; 1; 1; 1; 1] [1; 1; 1; 1; 1]) with
    (map (fun n => helper_RoundDigit (T:=R) n 0) (map (fun n => n * IZR 100) (map (fun n => n / IZR 2)
       (map (fun n => n + IZR 2) (map (fun n => n * IZR (-1)) (sem (helper_Since mm) env)))))) in HF.
  rewrite ES in HF.
  pose proof (Forall_nth_elim _ 0 _ HF 3%nat ltac:(simpl; lia)) as H. cbn [map nth] in H.
  unfold helper_RoundDigit in H. cbv zeta in H.
  change (npow (nofZ 10) (nofZ 0)) with (Rpow_model 10 (IZR 0)) in H. rewrite Rpow_model_0 in H.
  change (ndiv ?a 1) with (a / 1) in H.
  cbn [nround nmul NumR] in H.
  pose proof (Rround_le_m1 (((0 + 1 + 1 + 1) * -1 + 2) / 2 * 100 * 1) ltac:(lra)) as HR.
  lra.
Qed.

Definition aroon_down (p : Z) (hs ls : list R) : list R :=
  sem (snd (trend_Aroon_Compute (T:=R) (I:=R) (mk_trend_Aroon p) (EIn 0) (EIn 1))) [hs; ls].

Theorem aroon_down_leaves_range :
  exists (p : Z) (hs ls : list R),
    (1 <= p)%Z /\ Forall (fun x => 0 < x) hs /\ Forall (fun x => 0 < x) ls /\ Forall2 Rle ls hs /\
    ~ Forall (fun v => 0 <= v <= 100) (aroon_down p hs ls).
Proof.
  exists 2%Z, [1; 1; 1; 1; 1], [1; 1; 1; 1; 1].
  split; [lia|]. split; [repeat constructor; lra|]. split; [repeat constructor; lra|].
  split; [repeat constructor; lra|].
  intros HF.
  set (env := [[1; 1; 1; 1; 1]; [1; 1; 1; 1; 1]]) in *.
  set (mm := trend_MovingMin_Compute (T:=R) (I:=R) (mk_trend_MovingMin 2) (EIn 1)).
  assert (EM : sem mm env = [1; 1; 1; 1]).
  { unfold mm. rewrite moving_min_is_window_min_expr; [| lia | repeat constructor; lra].
    change (Z.to_nat 2) with 2%nat.
    cbn [env sem nth length Nat.sub tab seq map wmin window Nat.add at_ Rlist_min fold_left].
    rewrite Rmin_left by lra. reflexivity. }
  assert (ES : sem (helper_Since mm) env = [0; 0 + 1; 0 + 1 + 1; 0 + 1 + 1 + 1]).
  { rewrite Verif.Base.HelperLaws.since_generated_is_slice_model, EM. unfold s_since.
    assert (E11 : Reqb 1 1 = true) by (apply Reqb_true; reflexivity).
    repeat (progress (cbn [s_mapst since_step neqb NumR nadd nofZ]; rewrite ?E11)). reflexivity. }
  change (aroon_down 2 [1; 1; 1; 1; 1] [1; 1; 1; 1; 1]) with
    (map (fun n => helper_RoundDigit (T:=R) n 0) (map (fun n => n * IZR 100) (map (fun n => n / IZR 2)
       (map (fun n => n + IZR 2) (map (fun n => n * IZR (-1)) (sem (helper_Since mm) env)))))) in HF.
  rewrite ES in HF.
  pose proof (Forall_nth_elim _ 0 _ HF 3%nat ltac:(simpl; lia)) as H. cbn [map nth] in H.
  unfold helper_RoundDigit in H. cbv zeta in H.
  change (npow (nofZ 10) (nofZ 0)) with (Rpow_model 10 (IZR 0)) in H. rewrite Rpow_model_0 in H.
  change (ndiv ?a 1) with (a / 1) in H.
  cbn [nround nmul NumR] in H.
  pose proof (Rround_le_m1 (((0 + 1 + 1 + 1) * -1 + 2) / 2 * 100 * 1) ltac:(lra)) as HR.
  lra.
Qed.

(* ========================================================================================== *)
(* Property C15: the theorems, stated directly about the generated definitions (T := R).
   Conventions: inputs are bound in the order of the Go signature (highs = EIn 0, lows = EIn 1, closings = EIn 2;
   Bop: openings, highs, lows, closings); P = Z.to_nat p; reported position j is input position (P - 1) + j. *)

(* 1 *)
Theorem C15_Mfm : forall hs ls cs : list R,
  Forall2 Rle ls cs -> Forall2 Rle cs hs ->
  forall i, (i < length hs)%nat -> nth i ls 0 < nth i hs 0 ->
  -1 <= nth i (sem (volume_Mfm_Compute (T:=R) (I:=R) mk_volume_Mfm (EIn 0) (EIn 1) (EIn 2)) [hs; ls; cs]) 0 <= 1.
Proof. exact mfm_range_pos. Qed.
Theorem C15_Mfm_all : forall hs ls cs : list R,
  Forall2 Rle ls cs -> Forall2 Rle cs hs -> Forall2 Rlt ls hs ->
  Forall (fun v => -1 <= v <= 1)
    (sem (volume_Mfm_Compute (T:=R) (I:=R) mk_volume_Mfm (EIn 0) (EIn 1) (EIn 2)) [hs; ls; cs]).
Proof. exact mfm_range_all. Qed.
Theorem C15_Bop : forall os hs ls cs : list R,
  Forall2 Rle ls os -> Forall2 Rle os hs -> Forall2 Rle ls cs -> Forall2 Rle cs hs ->
  forall i, (i < length hs)%nat -> nth i ls 0 < nth i hs 0 ->
  -1 <= nth i (sem (trend_Bop_Compute (T:=R) (I:=R) mk_trend_Bop (EIn 0) (EIn 1) (EIn 2) (EIn 3)) [os; hs; ls; cs]) 0 <= 1.
Proof. exact bop_range_pos. Qed.
Theorem C15_Bop_all : forall os hs ls cs : list R,
  Forall2 Rle ls os -> Forall2 Rle os hs -> Forall2 Rle ls cs -> Forall2 Rle cs hs -> Forall2 Rlt ls hs ->
  Forall (fun v => -1 <= v <= 1)
    (sem (trend_Bop_Compute (T:=R) (I:=R) mk_trend_Bop (EIn 0) (EIn 1) (EIn 2) (EIn 3)) [os; hs; ls; cs]).
Proof. exact bop_range_all. Qed.

(* 2 *)
Theorem C15_MovingMin_le_value_le_MovingMax : forall (p : Z) (xs : list R),
  (1 <= p)%Z -> Forall (fun x => x <> 0) (firstn (Z.to_nat p) xs) ->
  Forall2 Rle (sem (trend_MovingMin_Compute (T:=R) (I:=R) (mk_trend_MovingMin p) (EIn 0)) [xs]) (skipn (Z.to_nat p - 1) xs) /\
  Forall2 Rle (skipn (Z.to_nat p - 1) xs) (sem (trend_MovingMax_Compute (T:=R) (I:=R) (mk_trend_MovingMax p) (EIn 0)) [xs]).
Proof. exact moving_min_le_value_le_moving_max_Forall2. Qed.
Theorem C15_MovingMin_le_MovingMax : forall (p : Z) (xs : list R),
  (1 <= p)%Z -> Forall (fun x => x <> 0) (firstn (Z.to_nat p) xs) ->
  Forall2 Rle (sem (trend_MovingMin_Compute (T:=R) (I:=R) (mk_trend_MovingMin p) (EIn 0)) [xs])
              (sem (trend_MovingMax_Compute (T:=R) (I:=R) (mk_trend_MovingMax p) (EIn 0)) [xs]).
Proof. exact moving_min_le_moving_max. Qed.
Theorem C15_DonchianChannel : forall (p : Z) (xs : list R),
  (1 <= p)%Z -> Forall (fun x => x <> 0) (firstn (Z.to_nat p) xs) ->
  let t := volatility_DonchianChannel_Compute (T:=R) (I:=R)
             (mk_volatility_DonchianChannel (mk_trend_MovingMax p) (mk_trend_MovingMin p)) (EIn 0) in
  let upper := sem (fst (fst t)) [xs] in let middle := sem (snd (fst t)) [xs] in let lower := sem (snd t) [xs] in
  Forall2 Rle lower middle /\ Forall2 Rle middle upper.
Proof. exact donchian_ordered. Qed.

(* 3 *)
Theorem C15_WilliamsR : forall (p : Z) (hs ls cs : list R),
  (1 <= p)%Z -> Forall2 Rle ls cs -> Forall2 Rle cs hs ->
  Forall (fun x => x <> 0) (firstn (Z.to_nat p) hs) -> Forall (fun x => x <> 0) (firstn (Z.to_nat p) ls) ->
  let out := sem (momentum_WilliamsR_Compute (T:=R) (I:=R)
                    (mk_momentum_WilliamsR (mk_trend_MovingMax p) (mk_trend_MovingMin p)) (EIn 0) (EIn 1) (EIn 2)) [hs; ls; cs] in
  length out = (length hs - (Z.to_nat p - 1))%nat /\
  forall j, (j < length hs - (Z.to_nat p - 1))%nat ->
    wmin (Z.to_nat p) ls (Z.to_nat p - 1 + j) < wmax (Z.to_nat p) hs (Z.to_nat p - 1 + j) ->
    -100 <= nth j out 0 <= 0.
Proof.
  intros p hs ls cs Hp Hlc Hch Hh Hl out. split.
  - exact (williams_r_length p hs ls cs Hp Hlc Hch Hh Hl).
  - exact (williams_r_range_pos p hs ls cs Hp Hlc Hch Hh Hl).
Qed.
Theorem C15_WilliamsR_all : forall (p : Z) (hs ls cs : list R),
  (1 <= p)%Z -> Forall2 Rle ls cs -> Forall2 Rle cs hs -> Forall2 Rlt ls hs ->
  Forall (fun x => 0 < x) ls ->
  Forall (fun v => -100 <= v <= 0)
    (sem (momentum_WilliamsR_Compute (T:=R) (I:=R)
            (mk_momentum_WilliamsR (mk_trend_MovingMax p) (mk_trend_MovingMin p)) (EIn 0) (EIn 1) (EIn 2)) [hs; ls; cs]).
Proof.
  intros p hs ls cs Hp Hlc Hch Hlh Hpos.
  assert (Hposh : Forall (fun x => 0 < x) hs).
  { apply (Forall_nth_intro _ 0). intros i Hi. pose proof (Forall2_len Hlh) as L.
    pose proof (Forall2_nth_elim Rlt 0 0 _ _ Hlh i ltac:(lia)) as H1.
    pose proof (Forall_nth_elim _ 0 _ Hpos i ltac:(lia)) as H2. simpl in H2. lra. }
  apply (williams_r_range_all p hs ls cs Hp Hlc Hch); try assumption; apply pos_nonzero_firstn; assumption.
Qed.
Theorem C15_StochasticOscillator_K : forall (p q : Z) (hs ls cs : list R),
  (1 <= p)%Z -> (1 <= q)%Z -> Forall2 Rle ls cs -> Forall2 Rle cs hs ->
  Forall (fun x => x <> 0) (firstn (Z.to_nat p) hs) -> Forall (fun x => x <> 0) (firstn (Z.to_nat p) ls) ->
  let k := sem (fst (momentum_StochasticOscillator_Compute (T:=R) (I:=R)
                  (mk_momentum_StochasticOscillator (mk_trend_MovingMax p) (mk_trend_MovingMin p) (mk_trend_Sma q))
                  (EIn 0) (EIn 1) (EIn 2))) [hs; ls; cs] in
  length k = (length hs - (Z.to_nat p - 1) - (Z.to_nat q - 1))%nat /\
  forall j, (j < length hs - (Z.to_nat p - 1) - (Z.to_nat q - 1))%nat ->
    wmin (Z.to_nat p) ls (Z.to_nat p - 1 + (Z.to_nat q - 1) + j) < wmax (Z.to_nat p) hs (Z.to_nat p - 1 + (Z.to_nat q - 1) + j) ->
    0 <= nth j k 0 <= 100.
Proof.
  intros p q hs ls cs Hp Hq Hlc Hch Hh Hl k. split.
  - exact (stoch_k_length p q hs ls cs Hp Hq Hlc Hch Hh Hl).
  - exact (stoch_k_range_pos p q hs ls cs Hp Hq Hlc Hch Hh Hl).
Qed.
Theorem C15_StochasticOscillator_all : forall (p q : Z) (hs ls cs : list R),
  (1 <= p)%Z -> (1 <= q)%Z -> Forall2 Rle ls cs -> Forall2 Rle cs hs -> Forall2 Rlt ls hs ->
  Forall (fun x => x <> 0) (firstn (Z.to_nat p) hs) -> Forall (fun x => x <> 0) (firstn (Z.to_nat p) ls) ->
  let t := momentum_StochasticOscillator_Compute (T:=R) (I:=R)
             (mk_momentum_StochasticOscillator (mk_trend_MovingMax p) (mk_trend_MovingMin p) (mk_trend_Sma q))
             (EIn 0) (EIn 1) (EIn 2) in
  Forall (fun v => 0 <= v <= 100) (sem (fst t) [hs; ls; cs]) /\ Forall (fun v => 0 <= v <= 100) (sem (snd t) [hs; ls; cs]).
Proof.
  intros p q hs ls cs Hp Hq Hlc Hch Hlh Hh Hl t. split.
  - exact (stoch_k_range_all p q hs ls cs Hp Hq Hlc Hch Hh Hl Hlh).
  - exact (stoch_d_range_all p q hs ls cs Hp Hq Hlc Hch Hh Hl Hlh).
Qed.

(* 4 *)
Theorem C15_MovingStd : forall I (p : Z) (e : expr I R) (env : list (list I)),
  Forall (fun v => 0 <= v) (sem (volatility_MovingStd_Compute (T:=R) (I:=I) (mk_volatility_MovingStd p) e) env).
Proof. exact @moving_std_nonneg. Qed.
Theorem C15_BollingerBands : forall (p : Z) (xs : list R), (1 <= p)%Z ->
  let t := volatility_BollingerBands_Compute (T:=R) (I:=R) (mk_volatility_BollingerBands p) (EIn 0) in
  let upper := sem (fst (fst t)) [xs] in let middle := sem (snd (fst t)) [xs] in let lower := sem (snd t) [xs] in
  Forall2 Rle lower middle /\ Forall2 Rle middle upper.
Proof. exact bollinger_ordered. Qed.
Theorem C15_BollingerBandWidth : forall (p : Z) (xs : list R), (1 <= p)%Z ->
  forall j, (j < length xs - (Z.to_nat p - 1))%nat ->
  0 < nth j (sem (trend_Sma_Compute (T:=R) (I:=R) (mk_trend_Sma p) (EIn 0)) [xs]) 0 ->
  0 <= nth j (sem (volatility_BollingerBandWidth_Compute (T:=R) (I:=R)
                     (mk_volatility_BollingerBandWidth (mk_volatility_BollingerBands p)) (EIn 0)) [xs]) 0.
Proof. exact bbw_nonneg_pos. Qed.
Theorem C15_BollingerBandWidth_all : forall (p : Z) (xs : list R), (1 <= p)%Z -> Forall (fun x => 0 < x) xs ->
  Forall (fun v => 0 <= v)
    (sem (volatility_BollingerBandWidth_Compute (T:=R) (I:=R)
            (mk_volatility_BollingerBandWidth (mk_volatility_BollingerBands p)) (EIn 0)) [xs]).
Proof. exact bbw_nonneg_all. Qed.
Theorem C15_Envelope : forall I (ma : trend_Ma (I:=I) (T:=R)) (pct : R) (c : expr I R) (env : list (list I)),
  0 <= pct -> Forall (fun v => 0 <= v) (sem (trend_Ma_Compute ma c) env) ->
  let t := trend_Envelope_Compute (T:=R) (I:=I) (mk_trend_Envelope ma pct) c in
  let upper := sem (fst (fst t)) env in let middle := sem (snd (fst t)) env in let lower := sem (snd t) env in
  middle = sem (trend_Ma_Compute ma c) env /\ Forall2 Rle lower middle /\ Forall2 Rle middle upper.
Proof. exact @envelope_ordered. Qed.
Theorem C15_Envelope_Sma : forall (p : Z) (pct : R) (cs : list R),
  (1 <= p)%Z -> 0 <= pct -> Forall (fun x => 0 <= x) cs ->
  let t := trend_Envelope_Compute (T:=R) (I:=R) (mk_trend_Envelope (trend_Sma_as_trend_Ma (mk_trend_Sma p)) pct) (EIn 0) in
  let upper := sem (fst (fst t)) [cs] in let middle := sem (snd (fst t)) [cs] in let lower := sem (snd t) [cs] in
  Forall2 Rle lower middle /\ Forall2 Rle middle upper.
Proof. exact envelope_sma_ordered. Qed.

(* 5 *)
Theorem C15_Sma_nonneg : forall I (p : Z) (e : expr I R) env, (1 <= p)%Z -> Forall (fun x => 0 <= x) (sem e env) ->
  Forall (fun v => 0 <= v) (sem (trend_Sma_Compute (T:=R) (I:=I) (mk_trend_Sma p) e) env).
Proof. exact @sma_nonneg. Qed.
Theorem C15_Rma_nonneg : forall I (p : Z) (e : expr I R) env, (1 <= p)%Z -> Forall (fun x => 0 <= x) (sem e env) ->
  Forall (fun v => 0 <= v) (sem (trend_Rma_Compute (T:=R) (I:=I) (mk_trend_Rma p) e) env).
Proof. exact @rma_nonneg. Qed.
Theorem C15_Smma_nonneg : forall I (p : Z) (e : expr I R) env, (1 <= p)%Z -> Forall (fun x => 0 <= x) (sem e env) ->
  Forall (fun v => 0 <= v) (sem (trend_Smma_Compute (T:=R) (I:=I) (mk_trend_Smma p) e) env).
Proof. exact @smma_nonneg. Qed.
Theorem C15_Ema_nonneg : forall I (p : Z) (smoothing : R) (e : expr I R) env,
  (1 <= p)%Z -> 0 <= smoothing <= IZR p + 1 -> Forall (fun x => 0 <= x) (sem e env) ->
  Forall (fun v => 0 <= v) (sem (trend_Ema_Compute (T:=R) (I:=I) (mk_trend_Ema p smoothing) e) env).
Proof. exact @ema_nonneg. Qed.
Theorem C15_Rsi : forall (p : Z) (cs : list R), (1 <= p)%Z ->
  let out := sem (momentum_Rsi_Compute (T:=R) (I:=R) (mk_momentum_Rsi (mk_trend_Rma p)) (EIn 0)) [cs] in
  let changes := helper_Change (T:=R) (I:=R) (EIn 0) 1 in
  let avg_gain := sem (trend_Rma_Compute (T:=R) (I:=R) (mk_trend_Rma p) (helper_KeepPositives changes)) [cs] in
  let avg_loss := sem (helper_MultiplyBy (trend_Rma_Compute (T:=R) (I:=R) (mk_trend_Rma p) (helper_KeepNegatives changes)) (IZR (-1))) [cs] in
  length out = (length cs - 1 - (Z.to_nat p - 1))%nat /\
  Forall (fun v => 0 <= v) avg_gain /\ Forall (fun v => 0 <= v) avg_loss /\
  forall j, (j < length out)%nat -> 0 < nth j avg_loss 0 -> 0 <= nth j out 0 <= 100.
Proof.
  intros p cs Hp out changes avg_gain avg_loss.
  split; [exact (rsi_length p cs Hp)|]. split; [exact (rsi_avg_gain_nonneg p cs Hp)|].
  split; [exact (rsi_avg_loss_nonneg p cs Hp)|]. exact (rsi_range_pos p cs Hp).
Qed.
(* model-level only: relies on the totalised real division (/ 0 = 0) at positions with average loss 0 *)
Theorem C15_Rsi_model : forall (p : Z) (cs : list R), (1 <= p)%Z ->
  Forall (fun v => 0 <= v <= 100) (sem (momentum_Rsi_Compute (T:=R) (I:=R) (mk_momentum_Rsi (mk_trend_Rma p)) (EIn 0)) [cs]).
Proof. exact rsi_range_model. Qed.

(* 6 *)
Theorem C15_Atr : forall (p : Z) (hs ls cs : list R), (1 <= p)%Z -> Forall2 Rle ls hs ->
  Forall (fun v => 0 <= v)
    (sem (volatility_Atr_Compute (T:=R) (I:=R) (volatility_NewAtrWithPeriod p) (EIn 0) (EIn 1) (EIn 2)) [hs; ls; cs]).
Proof. exact atr_nonneg. Qed.
Theorem C15_Atr_ma : forall (ma : trend_Ma (I:=R) (T:=R)) (hs ls cs : list R),
  (forall (e : expr R R) (env : list (list R)),
      Forall (fun v => 0 <= v) (sem e env) -> Forall (fun v => 0 <= v) (sem (trend_Ma_Compute ma e) env)) ->
  Forall2 Rle ls hs ->
  Forall (fun v => 0 <= v)
    (sem (volatility_Atr_Compute (T:=R) (I:=R) (mk_volatility_Atr ma) (EIn 0) (EIn 1) (EIn 2)) [hs; ls; cs]).
Proof. exact atr_nonneg_ma. Qed.

(* 7: documented failure *)
Theorem C15_Aroon_refuted :
  (exists (p : Z) (hs ls : list R),
    (1 <= p)%Z /\ Forall (fun x => 0 < x) hs /\ Forall (fun x => 0 < x) ls /\ Forall2 Rle ls hs /\
    ~ Forall (fun v => 0 <= v <= 100)
        (sem (fst (trend_Aroon_Compute (T:=R) (I:=R) (mk_trend_Aroon p) (EIn 0) (EIn 1))) [hs; ls])) /\
  (exists (p : Z) (hs ls : list R),
    (1 <= p)%Z /\ Forall (fun x => 0 < x) hs /\ Forall (fun x => 0 < x) ls /\ Forall2 Rle ls hs /\
    ~ Forall (fun v => 0 <= v <= 100)
        (sem (snd (trend_Aroon_Compute (T:=R) (I:=R) (mk_trend_Aroon p) (EIn 0) (EIn 1))) [hs; ls])).
Proof. split; [exact aroon_up_leaves_range | exact aroon_down_leaves_range]. Qed.

Print Assumptions C15_Mfm.
Print Assumptions C15_Bop.
Print Assumptions C15_MovingMin_le_value_le_MovingMax.
Print Assumptions C15_DonchianChannel.
Print Assumptions C15_WilliamsR.
Print Assumptions C15_StochasticOscillator_all.
Print Assumptions C15_MovingStd.
Print Assumptions C15_BollingerBands.
Print Assumptions C15_BollingerBandWidth_all.
Print Assumptions C15_Envelope.
Print Assumptions C15_Rsi.
Print Assumptions C15_Rsi_model.
Print Assumptions C15_Atr.
Print Assumptions C15_Aroon_refuted.
