(* EMA, RMA and SMMA (generated definitions, real instance) equal their documented seeded recurrences. *)
From Coq Require Import List ZArith Bool Lia Reals Lra.
Import ListNotations.
From Verif Require Import Base.Num Base.Stream Spec.Window Gen.All.
Local Open Scope R_scope.

(* ------------------------------------------------------------------------------------------ *)
(* list facts *)

Lemma nth_skipn_plus {A} (n : nat) : forall (l : list A) (j : nat) (d : A),
  nth j (skipn n l) d = nth (n + j) l d.
Proof.
  induction n as [|n IH]; intros l j d; [reflexivity|].
  destruct l as [|x l]; [destruct j; reflexivity|]. simpl. apply IH.
Qed.

Lemma nth_firstn_lt {A} (n : nat) : forall (l : list A) (j : nat) (d : A),
  (j < n)%nat -> nth j (firstn n l) d = nth j l d.
Proof.
  induction n as [|n IH]; intros l j d Hj; [lia|].
  destruct l as [|x l]; [reflexivity|]. destruct j as [|j]; [reflexivity|].
  simpl. apply IH. lia.
Qed.

Lemma s_scan_cons {A B} (f : B -> A -> B) (b : B) (x : A) (l : list A) :
  s_scan f b (x :: l) = f b x :: s_scan f (f b x) l.
Proof. reflexivity. Qed.

(* ------------------------------------------------------------------------------------------ *)
(* the seeded recurrence *)

Lemma seeded_rec_seed (P : nat) (step : R -> R -> R) (xs : list R) :
  seeded_rec P step xs (P - 1) = wmean P xs (P - 1).
Proof.
  destruct (P - 1)%nat as [|i] eqn:E; [simpl; rewrite E; reflexivity|].
  simpl. destruct (Nat.leb_spec P (S i)); [lia|rewrite E; reflexivity].
Qed.

Lemma seeded_rec_step (P : nat) (step : R -> R -> R) (xs : list R) (i : nat) :
  (P <= S i)%nat ->
  seeded_rec P step xs (S i) = step (seeded_rec P step xs i) (at_ xs (S i)).
Proof.
  intros H. simpl. destruct (Nat.leb_spec P (S i)); [reflexivity|lia].
Qed.

(* the iterates of [step'] along [l], started from the documented value at position i, are the
   documented values at the following positions, when l lists the inputs from position i+1 on *)
Lemma s_scan_seeded_rec (P : nat) (step step' : R -> R -> R) (xs : list R)
      (Hstep : forall a b, step' a b = step a b) :
  forall (l : list R) (i : nat) (b : R),
    (P <= S i)%nat ->
    b = seeded_rec P step xs i ->
    (forall j, (j < length l)%nat -> nth j l 0 = at_ xs (S i + j)) ->
    s_scan step' b l = map (seeded_rec P step xs) (seq (S i) (length l)).
Proof.
  induction l as [|x l IH]; intros i b HP Hb Hl; [reflexivity|].
  rewrite s_scan_cons. cbn [length seq map].
  assert (Hx : step' b x = seeded_rec P step xs (S i)).
  { rewrite seeded_rec_step by exact HP. rewrite Hstep, <- Hb. f_equal.
    specialize (Hl 0%nat). cbn [nth length] in Hl. rewrite Hl by lia. f_equal. lia. }
  rewrite Hx. f_equal.
  apply IH; [lia|reflexivity|].
  intros j Hj. specialize (Hl (S j)). cbn [nth length] in Hl. rewrite Hl by lia. f_equal. lia.
Qed.

Lemma wmean_firstn (P : nat) (xs : list R) :
  wmean P (firstn P xs) (P - 1) = wmean P xs (P - 1).
Proof.
  unfold wmean, wsum, window. f_equal. f_equal.
  apply map_ext_in. intros j Hj. apply in_seq in Hj. unfold at_.
  apply nth_firstn_lt. lia.
Qed.

(* the list-level statement: a one-element (or empty) seed, then the scan over the inputs after the first P *)
Lemma seeded_scan_documented (p : Z) (step step' : R -> R -> R) (xs : list R)
      (Hstep : forall a b, step' a b = step a b) :
  (1 <= p)%Z ->
  s_seeded_scan
    (tab (Z.to_nat p - 1) (length (s_head p xs)) (wmean (Z.to_nat p) (s_head p xs)))
    p step' xs
  = tab (Z.to_nat p - 1) (length xs) (seeded_rec (Z.to_nat p) step xs).
Proof.
  intros Hp. unfold s_head. set (P := Z.to_nat p).
  assert (HP : (1 <= P)%nat) by (unfold P; lia).
  rewrite firstn_length. unfold tab.
  destruct (Nat.le_gt_cases P (length xs)) as [Hlen|Hlen].
  - rewrite Nat.min_l by exact Hlen.
    replace (P - (P - 1))%nat with 1%nat by lia.
    cbn [seq map s_seeded_scan].
    rewrite wmean_firstn.
    replace (length xs - (P - 1))%nat with (S (length xs - P)) by lia.
    cbn [seq map]. rewrite seeded_rec_seed. f_equal.
    unfold s_skip. fold P.
    rewrite (@s_scan_seeded_rec P step step' xs Hstep (skipn P xs) (P - 1)%nat).
    + rewrite skipn_length. reflexivity.
    + lia.
    + symmetry. apply seeded_rec_seed.
    + intros j Hj. rewrite nth_skipn_plus. unfold at_. f_equal. lia.
  - rewrite Nat.min_r by lia.
    replace (length xs - (P - 1))%nat with 0%nat by lia. reflexivity.
Qed.

Lemma IZR_to_nat (p : Z) : (1 <= p)%Z -> INR (Z.to_nat p) = IZR p.
Proof. intros Hp. rewrite INR_IZR_INZ, Z2Nat.id by lia. reflexivity. Qed.

(* ------------------------------------------------------------------------------------------ *)
(* SMA = window mean (the fact the seed relies on), proved here rather than assumed *)

Lemma skipn_seq_ (n : nat) : forall s len, skipn n (seq s len) = seq (s + n) (len - n).
Proof.
  induction n as [|n IH]; intros s len.
  - rewrite Nat.add_0_r, Nat.sub_0_r. reflexivity.
  - destruct len as [|len]; [reflexivity|]. cbn [seq skipn]. rewrite IH.
    f_equal; lia.
Qed.

Lemma Rsum_app (a b : list R) : Rsum (a ++ b) = Rsum a + Rsum b.
Proof. unfold Rsum. induction a as [|x a IH]; simpl; [lra|]. rewrite IH. lra. Qed.

Lemma Rsum_repeat0 (n : nat) : Rsum (repeat 0 n) = 0.
Proof. unfold Rsum. induction n as [|n IH]; simpl; [reflexivity|]. rewrite IH. lra. Qed.

Lemma firstn_map_nth {A} (d : A) : forall (l : list A) (n : nat),
  (n <= length l)%nat -> firstn n l = map (fun i => nth i l d) (seq 0 n).
Proof.
  induction l as [|x l IH]; intros n Hn.
  - simpl in Hn. assert (n = 0)%nat by lia. subst. reflexivity.
  - destruct n as [|n]; [reflexivity|]. cbn [firstn seq map nth]. f_equal.
    rewrite <- seq_shift, map_map. apply IH. simpl in Hn. lia.
Qed.

(* a prefix sum splits into a shorter prefix sum and a window sum *)
Lemma Rsum_firstn_split (xs : list R) (a n : nat) : (a + n <= length xs)%nat ->
  Rsum (firstn (a + n) xs) = Rsum (firstn a xs) + Rsum (map (at_ xs) (seq a n)).
Proof.
  intros H. rewrite (@firstn_map_nth R 0 xs (a + n)%nat) by exact H.
  rewrite (@firstn_map_nth R 0 xs a) by lia.
  rewrite seq_app, map_app, Rsum_app. reflexivity.
Qed.

Definition msum_step (sum c b : R) : R * R := let sum := sum + c - b in (sum, sum).

Lemma s_op2st_msum : forall (a b : list R) (s : R),
  s_op2st msum_step s a b
  = map (fun i => s + Rsum (firstn (S i) a) - Rsum (firstn (S i) b)) (seq 0 (Nat.min (length a) (length b))).
Proof.
  induction a as [|x a IH]; intros b s; [reflexivity|].
  destruct b as [|y b]; [reflexivity|].
  cbn [s_op2st msum_step length Nat.min seq map]. f_equal.
  - simpl. lra.
  - rewrite IH, <- seq_shift, map_map. apply map_ext. intros i.
    cbn [firstn]. simpl Rsum. unfold Rsum. lra.
Qed.

Theorem sma_is_window_mean : forall (p : Z) (I : Type) (e : expr I R) env, (1 <= p)%Z ->
  sem (trend_Sma_Compute (T:=R) (mk_trend_Sma p) e) env
  = tab (Z.to_nat p - 1) (length (sem e env)) (wmean (Z.to_nat p) (sem e env)).
Proof.
  intros p I e env Hp. set (xs := sem e env).
  change (sem (trend_Sma_Compute (T:=R) (mk_trend_Sma p) e) env)
    with (map (fun s => s / IZR p) (s_skip (p - 1) (s_op2st msum_step 0 xs (s_shift p 0 xs)))).
  set (P := Z.to_nat p). assert (HP : (1 <= P)%nat) by (unfold P; lia).
  rewrite s_op2st_msum. unfold s_skip, s_shift, tab.
  replace (Z.to_nat (p - 1)) with (P - 1)%nat by (unfold P; lia). fold P.
  rewrite app_length, repeat_length, Nat.min_l by lia.
  rewrite skipn_map, skipn_seq_, map_map. cbn [Nat.add].
  apply map_ext_in. intros i Hi. apply in_seq in Hi.
  unfold wmean, wsum, window.
  replace (INR P) with (IZR p) by (unfold P; rewrite INR_IZR_INZ, Z2Nat.id by lia; reflexivity).
  f_equal.
  rewrite firstn_app, repeat_length, Rsum_app.
  rewrite firstn_all2 with (l := repeat 0 P) by (rewrite repeat_length; lia).
  rewrite Rsum_repeat0.
  replace (S i) with ((i + 1 - P) + P)%nat at 1 by lia.
  rewrite Rsum_firstn_split by lia.
  replace (S i - P)%nat with (i + 1 - P)%nat by lia. lra.
Qed.

(* ------------------------------------------------------------------------------------------ *)
(* EMA: first value at position p-1 is the mean of the first p inputs;
   then ema_i = (x_i - ema_{i-1}) * k + ema_{i-1}, k = smoothing/(p+1) *)
Theorem ema_is_documented_gen (p : Z) (smoothing : R) (I : Type) (e : expr I R) (env : list (list I)) :
  (1 <= p)%Z ->
  sem (trend_Ema_Compute (T:=R) (mk_trend_Ema p smoothing) e) env
  = tab (Z.to_nat p - 1) (length (sem e env)) (ema_doc (Z.to_nat p) smoothing (sem e env)).
Proof.
  intros Hp. unfold ema_doc.
  change (sem (trend_Ema_Compute (T:=R) (mk_trend_Ema p smoothing) e) env)
    with (s_seeded_scan (sem (trend_Sma_Compute (T:=R) (mk_trend_Sma p) (EHead p e)) env) p
            (fun before n => (n - before) * (smoothing / IZR (p + 1)) + before) (sem e env)).
  rewrite sma_is_window_mean by exact Hp.
  change (sem (EHead p e) env) with (s_head p (sem e env)).
  apply seeded_scan_documented; [|exact Hp].
  intros a b. unfold ema_step. rewrite plus_IZR, IZR_to_nat by exact Hp. reflexivity.
Qed.

(* RMA: r_i = (r_{i-1} * (p-1) + x_i) / p, same seed *)
Theorem rma_is_documented_gen (p : Z) (I : Type) (e : expr I R) (env : list (list I)) :
  (1 <= p)%Z ->
  sem (trend_Rma_Compute (T:=R) (mk_trend_Rma p) e) env
  = tab (Z.to_nat p - 1) (length (sem e env))
        (seeded_rec (Z.to_nat p) (fun before n => (before * (IZR p - 1) + n) / IZR p) (sem e env)).
Proof.
  intros Hp.
  change (sem (trend_Rma_Compute (T:=R) (mk_trend_Rma p) e) env)
    with (s_seeded_scan (sem (trend_Sma_Compute (T:=R) (mk_trend_Sma p) (EHead p e)) env) p
            (fun before n => (before * IZR (p - 1) + n) / IZR p) (sem e env)).
  rewrite sma_is_window_mean by exact Hp.
  change (sem (EHead p e) env) with (s_head p (sem e env)).
  apply seeded_scan_documented; [|exact Hp].
  intros a b. rewrite minus_IZR. reflexivity.
Qed.

(* SMMA: the same recurrence and seed as RMA *)
Theorem smma_is_documented_gen (p : Z) (I : Type) (e : expr I R) (env : list (list I)) :
  (1 <= p)%Z ->
  sem (trend_Smma_Compute (T:=R) (mk_trend_Smma p) e) env
  = tab (Z.to_nat p - 1) (length (sem e env))
        (seeded_rec (Z.to_nat p) (fun before n => (before * (IZR p - 1) + n) / IZR p) (sem e env)).
Proof.
  intros Hp.
  change (sem (trend_Smma_Compute (T:=R) (mk_trend_Smma p) e) env)
    with (s_seeded_scan (sem (trend_Sma_Compute (T:=R) (mk_trend_Sma p) (EHead p e)) env) p
            (fun before n => (before * (IZR p - 1) + n) / IZR p) (sem e env)).
  rewrite sma_is_window_mean by exact Hp.
  change (sem (EHead p e) env) with (s_head p (sem e env)).
  apply seeded_scan_documented; [|exact Hp].
  intros a b. reflexivity.
Qed.

(* the single-input instances *)
Theorem ema_is_documented (p : Z) (smoothing : R) (xs : list R) :
  (1 <= p)%Z ->
  sem (trend_Ema_Compute (T:=R) (I:=R) (mk_trend_Ema p smoothing) (EIn 0)) [xs]
  = tab (Z.to_nat p - 1) (length xs) (ema_doc (Z.to_nat p) smoothing xs).
Proof. intros Hp. exact (@ema_is_documented_gen p smoothing R (EIn 0) [xs] Hp). Qed.

Theorem rma_is_documented (p : Z) (xs : list R) : (1 <= p)%Z ->
  sem (trend_Rma_Compute (T:=R) (I:=R) (mk_trend_Rma p) (EIn 0)) [xs]
  = tab (Z.to_nat p - 1) (length xs)
        (seeded_rec (Z.to_nat p) (fun before n => (before * (IZR p - 1) + n) / IZR p) xs).
Proof. intros Hp. exact (@rma_is_documented_gen p R (EIn 0) [xs] Hp). Qed.

Theorem smma_is_documented (p : Z) (xs : list R) : (1 <= p)%Z ->
  sem (trend_Smma_Compute (T:=R) (I:=R) (mk_trend_Smma p) (EIn 0)) [xs]
  = tab (Z.to_nat p - 1) (length xs)
        (seeded_rec (Z.to_nat p) (fun before n => (before * (IZR p - 1) + n) / IZR p) xs).
Proof. intros Hp. exact (@smma_is_documented_gen p R (EIn 0) [xs] Hp). Qed.

Print Assumptions ema_is_documented.
Print Assumptions rma_is_documented.
Print Assumptions smma_is_documented.
