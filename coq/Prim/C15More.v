(* Property C15, second part - range and ordering theorems over the reals for the six indicators Prim/C15Proofs.v
   does not cover: volume.Mfi, volume.Cmf, momentum.StochasticRsi, volatility.KeltnerChannel,
   volatility.AccelerationBands, volatility.UlcerIndex.  All statements are about the GENERATED definitions of
   Gen/All.v instantiated at T := R; inputs are lists bound to EIn 0, EIn 1, ... in the order of the Go signature
   (highs, lows, closings, volumes).  P = Z.to_nat p; reported position j is input position (warm-up) + j. *)
From Coq Require Import List ZArith Bool Lia Reals Lra Psatz Permutation.
Import ListNotations.
From Verif Require Import Base.Num Base.Stream Base.StreamProofs Base.GenPrelude Data.Bst Data.BstProofs
  Spec.Window Gen.All Prim.MovingSumProofs Prim.MovingMaxProofs Prim.C15Proofs.
From Verif Require Prim.SeededProofs.
Local Open Scope R_scope.

(* ------------------------------------------------------------------------------------------ *)
(* 0. Window sums: monotonicity, sign, absolute bounds *)

Lemma Rsum_map_le (f g : nat -> R) (idx : list nat) :
  (forall k, In k idx -> f k <= g k) -> Rsum (map f idx) <= Rsum (map g idx).
Proof.
  induction idx as [|k idx IH]; intros H; cbn [map].
  - rewrite Rsum_nil. lra.
  - rewrite !Rsum_cons.
    assert (f k <= g k) by (apply H; left; reflexivity).
    assert (Rsum (map f idx) <= Rsum (map g idx)) by (apply IH; intros; apply H; right; assumption).
    lra.
Qed.

Lemma Rsum_map_abs_le (f g : nat -> R) (idx : list nat) :
  (forall k, In k idx -> - g k <= f k <= g k) ->
  - Rsum (map g idx) <= Rsum (map f idx) <= Rsum (map g idx).
Proof.
  induction idx as [|k idx IH]; intros H; cbn [map].
  - rewrite Rsum_nil. lra.
  - rewrite !Rsum_cons.
    assert (- g k <= f k <= g k) by (apply H; left; reflexivity).
    assert (- Rsum (map g idx) <= Rsum (map f idx) <= Rsum (map g idx))
      by (apply IH; intros; apply H; right; assumption).
    lra.
Qed.

Lemma wsum_le (P : nat) (xs ys : list R) (i : nat) :
  (forall k, (i + 1 - P <= k < i + 1 - P + P)%nat -> at_ xs k <= at_ ys k) -> wsum P xs i <= wsum P ys i.
Proof.
  intros H. unfold wsum, window. apply Rsum_map_le. intros k Hk. apply in_seq in Hk. apply H. lia.
Qed.

Lemma wsum_abs_le (P : nat) (a v : list R) (i : nat) :
  (forall k, (i + 1 - P <= k < i + 1 - P + P)%nat -> - at_ v k <= at_ a k <= at_ v k) ->
  - wsum P v i <= wsum P a i <= wsum P v i.
Proof.
  intros H. unfold wsum, window. apply Rsum_map_abs_le. intros k Hk. apply in_seq in Hk. apply H. lia.
Qed.

Lemma wsum_nonneg (P : nat) (xs : list R) (i : nat) : Forall (fun x => 0 <= x) xs -> 0 <= wsum P xs i.
Proof.
  intros H. unfold wsum. apply Rsum_nonneg. apply Forall_forall. intros x Hx.
  destruct (window_elems P xs i x Hx) as (j & _ & E). subst x. apply at_nonneg. exact H.
Qed.

Lemma at_le (xs ys : list R) (k : nat) : Forall2 Rle xs ys -> at_ xs k <= at_ ys k.
Proof.
  intros H. pose proof (Forall2_len H) as L. unfold at_.
  destruct (Nat.lt_ge_cases k (length xs)) as [Hk|Hk].
  - apply (Forall2_nth_elim Rle 0 0 _ _ H). exact Hk.
  - rewrite !nth_overflow by lia. lra.
Qed.

Lemma wmean_le (P : nat) (xs ys : list R) (i : nat) :
  (forall k, (i + 1 - P <= k < i + 1 - P + P)%nat -> at_ xs k <= at_ ys k) -> wmean P xs i <= wmean P ys i.
Proof.
  intros H. unfold wmean, Rdiv. apply Rmult_le_compat_r; [|apply wsum_le; exact H].
  destruct P as [|P]; [simpl; rewrite Rinv_0; lra|]. left. apply Rinv_0_lt_compat. apply lt_0_INR. lia.
Qed.

(* the moving sum of non-negative values is non-negative *)
Theorem moving_sum_nonneg {I} (p : Z) (e : expr I R) (env : list (list I)) :
  (1 <= p)%Z -> Forall (fun x => 0 <= x) (sem e env) ->
  Forall (fun v => 0 <= v) (sem (trend_MovingSum_Compute (T:=R) (I:=I) (mk_trend_MovingSum p) e) env).
Proof.
  intros Hp H. rewrite moving_sum_is_window_sum_expr by exact Hp.
  apply (Forall_nth_intro _ 0). intros j Hj. rewrite tab_length in Hj. rewrite tab_nth by exact Hj.
  apply wsum_nonneg. exact H.
Qed.

(* the SMA is monotone: pointwise smaller inputs give pointwise smaller averages *)
Theorem sma_monotone {I} (p : Z) (a b : expr I R) (env : list (list I)) :
  (1 <= p)%Z -> Forall2 Rle (sem a env) (sem b env) ->
  Forall2 Rle (sem (trend_Sma_Compute (T:=R) (I:=I) (mk_trend_Sma p) a) env)
              (sem (trend_Sma_Compute (T:=R) (I:=I) (mk_trend_Sma p) b) env).
Proof.
  intros Hp H. rewrite !sma_is_window_mean_expr by exact Hp.
  pose proof (Forall2_len H) as L. rewrite <- L.
  apply (Forall2_nth_intro Rle 0 0); rewrite !tab_length; [reflexivity|].
  intros i Hi. rewrite !tab_nth by exact Hi. apply wmean_le. intros k _. apply at_le. exact H.
Qed.

Lemma ratio_m11 (a d : R) : - d <= a <= d -> 0 < d -> -1 <= a / d <= 1.
Proof.
  intros [H1 H2] H3. split.
  - apply Rmult_le_reg_r with d; [exact H3|]. unfold Rdiv. rewrite Rmult_assoc, Rinv_l by lra. lra.
  - apply Rmult_le_reg_r with d; [exact H3|]. unfold Rdiv. rewrite Rmult_assoc, Rinv_l by lra. lra.
Qed.

Lemma Forall_map_intro {A B} (Q : B -> Prop) (f : A -> B) (l : list A) :
  (forall x, In x l -> Q (f x)) -> Forall Q (map f l).
Proof.
  intros H. apply Forall_forall. intros y Hy. apply in_map_iff in Hy. destruct Hy as (x & E & Hx).
  subst y. apply H. exact Hx.
Qed.

(* ------------------------------------------------------------------------------------------ *)
(* 6. volatility.UlcerIndex >= 0: every reported value is a square root (no hypothesis at all) *)

Lemma sqrt_expr_nonneg {I} (e : expr I R) (env : list (list I)) :
  Forall (fun v => 0 <= v) (sem (helper_Sqrt (T:=R) e) env).
Proof.
  change (sem (helper_Sqrt (T:=R) e) env) with (map sqrt (sem e env)).
  apply Forall_map_intro. intros x _. apply sqrt_pos.
Qed.

Theorem ulcer_nonneg {I} (p : Z) (e : expr I R) (env : list (list I)) :
  Forall (fun v => 0 <= v)
    (sem (volatility_UlcerIndex_Compute (T:=R) (I:=I) (mk_volatility_UlcerIndex p) e) env).
Proof. unfold volatility_UlcerIndex_Compute. cbv zeta. apply sqrt_expr_nonneg. Qed.

(* on positive closings the index reports length - 2 * (period - 1) values (two stacked windows) *)
Theorem ulcer_length (p : Z) (cs : list R) : (1 <= p)%Z -> Forall (fun x => 0 < x) cs ->
  length (sem (volatility_UlcerIndex_Compute (T:=R) (I:=R) (mk_volatility_UlcerIndex p) (EIn 0)) [cs])
  = (length cs - (Z.to_nat p - 1) - (Z.to_nat p - 1))%nat.
Proof.
  intros Hp Hpos.
  set (mm := sem (trend_MovingMax_Compute (T:=R) (I:=R) (mk_trend_MovingMax p) (EIn 0)) [cs]).
  set (pd := helper_MultiplyBy
               (helper_Divide (helper_Subtract (ESkip (p - 1) (EIn 0))
                                 (trend_MovingMax_Compute (T:=R) (I:=R) (mk_trend_MovingMax p) (EIn 0)))
                              (trend_MovingMax_Compute (T:=R) (I:=R) (mk_trend_MovingMax p) (EIn 0))) (IZR 100)).
  change (sem (volatility_UlcerIndex_Compute (T:=R) (I:=R) (mk_volatility_UlcerIndex p) (EIn 0)) [cs])
    with (map sqrt (map (fun n => Rpow_model n (IZR 2)) (sem (trend_Sma_Compute (T:=R) (I:=R) (mk_trend_Sma p) pd) [cs]))).
  rewrite !map_length, sma_is_window_mean_expr by exact Hp. rewrite tab_length.
  change (sem pd [cs]) with (map (fun n => n * IZR 100) (s_op2 Rdiv (s_op2 Rminus (s_skip (p - 1) cs) mm) mm)).
  assert (LM : length mm = (length cs - (Z.to_nat p - 1))%nat).
  { unfold mm. rewrite moving_max_is_window_max_expr; [|exact Hp|apply pos_nonzero_firstn; exact Hpos].
    rewrite tab_length. reflexivity. }
  rewrite map_length, !s_op2_length, s_skip_length, LM. lia.
Qed.

(* ------------------------------------------------------------------------------------------ *)
(* 2. volume.Cmf in [-1, 1]:  MovingSum(mfm * volume) / MovingSum(volume) *)

Definition cmf_expr (p : Z) : expr R R :=
  volume_Cmf_Compute (T:=R) (I:=R) (mk_volume_Cmf (mk_volume_Mfv mk_volume_Mfm) (mk_trend_MovingSum p))
    (EIn 0) (EIn 1) (EIn 2) (EIn 3).
Definition cmf_mfv_expr : expr R R :=
  volume_Mfv_Compute (T:=R) (I:=R) (mk_volume_Mfv mk_volume_Mfm) (EIn 0) (EIn 1) (EIn 2) (EIn 3).
Definition cmf_out (p : Z) (hs ls cs vs : list R) : list R := sem (cmf_expr p) [hs; ls; cs; vs].
Definition cmf_vsum (p : Z) (hs ls cs vs : list R) : list R :=
  sem (trend_MovingSum_Compute (T:=R) (I:=R) (mk_trend_MovingSum p) (EIn 3)) [hs; ls; cs; vs].

Lemma cmf_out_eq p hs ls cs vs :
  cmf_out p hs ls cs vs =
  s_op2 Rdiv (sem (trend_MovingSum_Compute (T:=R) (I:=R) (mk_trend_MovingSum p) cmf_mfv_expr) [hs; ls; cs; vs])
             (cmf_vsum p hs ls cs vs).
Proof. reflexivity. Qed.

Lemma cmf_mfv_eq hs ls cs vs : sem cmf_mfv_expr [hs; ls; cs; vs] = s_op2 Rmult (mfm_out hs ls cs) vs.
Proof. reflexivity. Qed.

(* in the real-number model x / 0 = 0, so the multiplier stays in [-1, 1] on flat bars too *)
Lemma mfm_value_range_model (h l c : R) : l <= c -> c <= h -> -1 <= ((c - l) - (h - c)) / (h - l) <= 1.
Proof.
  intros H1 H2. destruct (Rle_lt_or_eq_dec l h ltac:(lra)) as [Hlt|E].
  - apply mfm_value_range; assumption.
  - subst h. replace (l - l) with 0 by lra. unfold Rdiv. rewrite Rinv_0. lra.
Qed.

Lemma scaled_abs_le (m v : R) : -1 <= m <= 1 -> 0 <= v -> - v <= m * v <= v.
Proof.
  intros [H1 H2] Hv.
  assert (0 <= (1 - m) * v) by (apply Rmult_le_pos; lra).
  assert (0 <= (1 + m) * v) by (apply Rmult_le_pos; lra). lra.
Qed.

Section Cmf.
  Variables (p : Z) (hs ls cs vs : list R).
  Hypothesis Hp : (1 <= p)%Z.
  Hypothesis Hlc : Forall2 Rle ls cs.
  Hypothesis Hch : Forall2 Rle cs hs.
  Hypothesis Hlv : length vs = length hs.
  Hypothesis Hv : Forall (fun v => 0 <= v) vs.
  Let P := Z.to_nat p.
  Let n := length hs.
  Let mfv := s_op2 Rmult (mfm_out hs ls cs) vs.

  Lemma cmf_mfv_length : length mfv = n.
  Proof.
    destruct (hlc_lens hs ls cs Hlc Hch) as [L1 L2]. unfold mfv.
    rewrite s_op2_length, mfm_out_eq, !s_op2_length. fold n in L1, L2 |- *. lia.
  Qed.

  Lemma cmf_nth j : (j < n - (P - 1))%nat ->
    nth j (cmf_out p hs ls cs vs) 0 = wsum P mfv (P - 1 + j) / wsum P vs (P - 1 + j) /\
    nth j (cmf_vsum p hs ls cs vs) 0 = wsum P vs (P - 1 + j).
  Proof.
    intros Hj. rewrite cmf_out_eq. unfold cmf_vsum.
    rewrite !moving_sum_is_window_sum_expr by exact Hp. rewrite cmf_mfv_eq. fold mfv P.
    change (sem (EIn 3) [hs; ls; cs; vs]) with vs. rewrite cmf_mfv_length, Hlv. fold n.
    rewrite (s_op2_nth Rdiv _ _ j 0 0 0) by (rewrite tab_length; exact Hj).
    rewrite !tab_nth by exact Hj. split; reflexivity.
  Qed.

  Theorem cmf_length : length (cmf_out p hs ls cs vs) = (n - (P - 1))%nat.
  Proof.
    rewrite cmf_out_eq. unfold cmf_vsum.
    rewrite !moving_sum_is_window_sum_expr by exact Hp. rewrite cmf_mfv_eq. fold mfv P.
    change (sem (EIn 3) [hs; ls; cs; vs]) with vs. rewrite cmf_mfv_length, Hlv. fold n.
    rewrite s_op2_length, !tab_length. lia.
  Qed.

  (* |sum of m_k v_k| <= sum of v_k over the window ending at input position P-1+j, given -1 <= m_k <= 1 there *)
  Lemma cmf_sums_bound j : (j < n - (P - 1))%nat ->
    (forall k, (j <= k <= j + (P - 1))%nat -> -1 <= nth k (mfm_out hs ls cs) 0 <= 1) ->
    - wsum P vs (P - 1 + j) <= wsum P mfv (P - 1 + j) <= wsum P vs (P - 1 + j).
  Proof.
    intros Hj Hm. assert (HP : (1 <= P)%nat) by (unfold P; lia).
    destruct (hlc_lens hs ls cs Hlc Hch) as [L1 L2]. fold n in L1, L2.
    apply wsum_abs_le. intros k Hk. unfold at_, mfv.
    rewrite (s_op2_nth Rmult _ _ k 0 0 0)
      by (rewrite ?mfm_out_eq, ?s_op2_length; fold n; lia).
    apply scaled_abs_le; [apply Hm; lia | exact (at_nonneg vs k Hv)].
  Qed.

  (* reported position j is input position (P-1)+j; its window is the input positions j .. j+P-1.
     Exempt: windows containing a flat bar (high = low: the multiplier's denominator) and windows of zero volume. *)
  Theorem cmf_range_pos : forall j, (j < n - (P - 1))%nat ->
    (forall k, (j <= k <= j + (P - 1))%nat -> nth k hs 0 - nth k ls 0 <> 0) ->
    nth j (cmf_vsum p hs ls cs vs) 0 <> 0 ->
    -1 <= nth j (cmf_out p hs ls cs vs) 0 <= 1.
  Proof.
    intros j Hj Hflat Hnz. destruct (cmf_nth j Hj) as [E1 E2]. rewrite E1. rewrite E2 in Hnz.
    destruct (hlc_lens hs ls cs Hlc Hch) as [L1 L2]. fold n in L1, L2.
    pose proof (wsum_nonneg P vs (P - 1 + j) Hv) as Hs.
    apply ratio_m11; [|lra].
    apply cmf_sums_bound; [exact Hj|]. intros k Hk.
    apply mfm_range_pos; [exact Hlc | exact Hch | fold n; lia |].
    pose proof (Forall2_nth_elim Rle 0 0 _ _ Hlc k ltac:(lia)) as A.
    pose proof (Forall2_nth_elim Rle 0 0 _ _ Hch k ltac:(lia)) as B.
    specialize (Hflat k Hk). lra.
  Qed.

  Theorem cmf_range_all : Forall2 Rlt ls hs -> Forall (fun v => 0 < v) vs ->
    Forall (fun v => -1 <= v <= 1) (cmf_out p hs ls cs vs).
  Proof.
    intros Hlh Hvpos. apply (Forall_nth_intro _ 0). intros j Hj. rewrite cmf_length in Hj.
    assert (HP : (1 <= P)%nat) by (unfold P; lia).
    destruct (hlc_lens hs ls cs Hlc Hch) as [L1 L2]. fold n in L1, L2.
    apply cmf_range_pos; [exact Hj | |].
    - intros k Hk. pose proof (Forall2_nth_elim Rlt 0 0 _ _ Hlh k ltac:(lia)) as A. lra.
    - destruct (cmf_nth j Hj) as [_ E2]. rewrite E2.
      assert (0 < wsum P vs (P - 1 + j)); [|lra].
      unfold wsum. apply Rsum_pos.
      + apply Forall_forall. intros x Hx.
        destruct (window_elems P vs (P - 1 + j) x Hx) as (k & Hk & E). subst x. unfold at_.
        apply (Forall_nth_elim _ 0 vs Hvpos). lia.
      + intros E. pose proof (window_length P vs (P - 1 + j)) as L. rewrite E in L. simpl in L. lia.
  Qed.

  (* model-level only: relies on the totalised real division (x / 0 = 0) on flat bars and zero-volume windows *)
  Theorem cmf_range_model : Forall (fun v => -1 <= v <= 1) (cmf_out p hs ls cs vs).
  Proof.
    apply (Forall_nth_intro _ 0). intros j Hj. rewrite cmf_length in Hj.
    destruct (cmf_nth j Hj) as [E1 _]. rewrite E1.
    destruct (hlc_lens hs ls cs Hlc Hch) as [L1 L2]. fold n in L1, L2.
    pose proof (wsum_nonneg P vs (P - 1 + j) Hv) as Hs.
    destruct Hs as [Hs|Hs]; [|rewrite <- Hs; unfold Rdiv; rewrite Rinv_0; lra].
    apply ratio_m11; [|exact Hs].
    apply cmf_sums_bound; [exact Hj|]. intros k Hk.
    rewrite mfm_out_eq.
    rewrite (s_op2_nth Rdiv _ _ k 0 0 0) by (rewrite ?s_op2_length; lia).
    rewrite (s_op2_nth Rminus _ _ k 0 0 0) by (rewrite ?s_op2_length; lia).
    rewrite !(s_op2_nth Rminus _ _ k 0 0 0) by lia.
    apply mfm_value_range_model.
    - apply (Forall2_nth_elim Rle 0 0 _ _ Hlc). lia.
    - apply (Forall2_nth_elim Rle 0 0 _ _ Hch). lia.
  Qed.
End Cmf.

(* ------------------------------------------------------------------------------------------ *)
(* 5. volatility.AccelerationBands: upper >= middle >= lower.
      upper = SMA(high * (1 + 4k)), middle = SMA(close), lower = SMA(low * (1 - 4k)), k = (high - low)/(high + low) *)

Definition accb (p : Z) : expr R R * expr R R * expr R R :=
  volatility_AccelerationBands_Compute (T:=R) (I:=R) (mk_volatility_AccelerationBands p) (EIn 0) (EIn 1) (EIn 2).
Definition accb_ks : expr R R :=
  helper_Divide (helper_Subtract (EIn 0) (EIn 1)) (helper_Add (T:=R) (I:=R) (EIn 0) (EIn 1)).
Definition accb_upper_in : expr R R :=
  helper_Multiply (EIn 0) (helper_IncrementBy (helper_MultiplyBy accb_ks (IZR 4)) (IZR 1)).
Definition accb_lower_in : expr R R :=
  helper_Multiply (EIn 1) (helper_IncrementBy (helper_MultiplyBy accb_ks (IZR (-4))) (IZR 1)).

Lemma accb_eqs p :
  fst (fst (accb p)) = trend_Sma_Compute (T:=R) (I:=R) (mk_trend_Sma p) accb_upper_in /\
  snd (fst (accb p)) = trend_Sma_Compute (T:=R) (I:=R) (mk_trend_Sma p) (EIn 2) /\
  snd (accb p) = trend_Sma_Compute (T:=R) (I:=R) (mk_trend_Sma p) accb_lower_in.
Proof. repeat split; reflexivity. Qed.

Lemma accb_ks_eq hs ls cs :
  sem accb_ks [hs; ls; cs] = s_op2 Rdiv (s_op2 Rminus hs ls) (s_op2 Rplus hs ls).
Proof. reflexivity. Qed.
Lemma accb_upper_in_eq hs ls cs :
  sem accb_upper_in [hs; ls; cs] =
  s_op2 Rmult hs (map (fun n => n + IZR 1) (map (fun n => n * IZR 4) (sem accb_ks [hs; ls; cs]))).
Proof. reflexivity. Qed.
Lemma accb_lower_in_eq hs ls cs :
  sem accb_lower_in [hs; ls; cs] =
  s_op2 Rmult ls (map (fun n => n + IZR 1) (map (fun n => n * IZR (-4)) (sem accb_ks [hs; ls; cs]))).
Proof. reflexivity. Qed.

Lemma accb_value_bounds (h l c : R) : 0 < l -> l <= c -> c <= h ->
  l * ((h - l) / (h + l) * IZR (-4) + IZR 1) <= c /\ c <= h * ((h - l) / (h + l) * IZR 4 + IZR 1).
Proof.
  intros Hl Hlc Hch. set (k := (h - l) / (h + l)).
  assert (Hk : 0 <= k).
  { unfold k, Rdiv. apply Rmult_le_pos; [lra|]. left. apply Rinv_0_lt_compat. lra. }
  assert (0 <= l * k) by (apply Rmult_le_pos; lra).
  assert (0 <= h * k) by (apply Rmult_le_pos; lra).
  split; lra.
Qed.

Section Accb.
  Variables (p : Z) (hs ls cs : list R).
  Hypothesis Hp : (1 <= p)%Z.
  Hypothesis Hpos : Forall (fun x => 0 < x) ls.
  Hypothesis Hlc : Forall2 Rle ls cs.
  Hypothesis Hch : Forall2 Rle cs hs.
  Let n := length hs.

  Lemma accb_inputs_ordered :
    Forall2 Rle (sem accb_lower_in [hs; ls; cs]) cs /\ Forall2 Rle cs (sem accb_upper_in [hs; ls; cs]).
  Proof.
    destruct (hlc_lens hs ls cs Hlc Hch) as [L1 L2]. fold n in L1, L2.
    assert (LK : length (sem accb_ks [hs; ls; cs]) = n) by (rewrite accb_ks_eq, !s_op2_length; fold n; lia).
    assert (HK : forall i, (i < n)%nat ->
              nth i (sem accb_ks [hs; ls; cs]) 0 = (nth i hs 0 - nth i ls 0) / (nth i hs 0 + nth i ls 0)).
    { intros i Hi. rewrite accb_ks_eq.
      rewrite (s_op2_nth Rdiv _ _ i 0 0 0) by (rewrite s_op2_length; fold n; lia).
      rewrite (s_op2_nth Rminus _ _ i 0 0 0), (s_op2_nth Rplus _ _ i 0 0 0) by (fold n; lia). reflexivity. }
    assert (HB : forall i, (i < n)%nat ->
              nth i ls 0 * ((nth i hs 0 - nth i ls 0) / (nth i hs 0 + nth i ls 0) * IZR (-4) + IZR 1) <= nth i cs 0 /\
              nth i cs 0 <= nth i hs 0 * ((nth i hs 0 - nth i ls 0) / (nth i hs 0 + nth i ls 0) * IZR 4 + IZR 1)).
    { intros i Hi. apply accb_value_bounds.
      - apply (Forall_nth_elim _ 0 ls Hpos). lia.
      - apply (Forall2_nth_elim Rle 0 0 _ _ Hlc). lia.
      - apply (Forall2_nth_elim Rle 0 0 _ _ Hch). lia. }
    split; apply (Forall2_nth_intro Rle 0 0).
    - rewrite accb_lower_in_eq, s_op2_length, !map_length, LK. lia.
    - intros i Hi. rewrite accb_lower_in_eq, s_op2_length, !map_length, LK in Hi.
      rewrite accb_lower_in_eq.
      rewrite (s_op2_nth Rmult _ _ i 0 0 0) by (rewrite ?map_length, ?LK; lia).
      rewrite (map_nth_lt (fun n => n + IZR 1) _ i 0 0) by (rewrite ?map_length, ?LK; lia).
      rewrite (map_nth_lt (fun n => n * IZR (-4)) _ i 0 0) by (rewrite ?LK; lia).
      rewrite HK by lia. apply HB. lia.
    - rewrite accb_upper_in_eq, s_op2_length, !map_length, LK. fold n. lia.
    - intros i Hi. rewrite L2 in Hi.
      rewrite accb_upper_in_eq.
      rewrite (s_op2_nth Rmult _ _ i 0 0 0) by (rewrite ?map_length, ?LK; fold n; lia).
      rewrite (map_nth_lt (fun n => n + IZR 1) _ i 0 0) by (rewrite ?map_length, ?LK; lia).
      rewrite (map_nth_lt (fun n => n * IZR 4) _ i 0 0) by (rewrite ?LK; lia).
      rewrite HK by lia. apply HB. lia.
  Qed.

  Theorem accb_ordered :
    Forall2 Rle (sem (snd (accb p)) [hs; ls; cs]) (sem (snd (fst (accb p))) [hs; ls; cs]) /\
    Forall2 Rle (sem (snd (fst (accb p))) [hs; ls; cs]) (sem (fst (fst (accb p))) [hs; ls; cs]).
  Proof.
    destruct (accb_eqs p) as (EU & EM & EL). rewrite EU, EM, EL.
    destruct accb_inputs_ordered as [A B].
    split; apply sma_monotone; try exact Hp; [exact A | exact B].
  Qed.

  Theorem accb_lengths :
    length (sem (fst (fst (accb p))) [hs; ls; cs]) = (n - (Z.to_nat p - 1))%nat /\
    length (sem (snd (fst (accb p))) [hs; ls; cs]) = (n - (Z.to_nat p - 1))%nat /\
    length (sem (snd (accb p)) [hs; ls; cs]) = (n - (Z.to_nat p - 1))%nat.
  Proof.
    destruct (accb_eqs p) as (EU & EM & EL). rewrite EU, EM, EL.
    destruct accb_inputs_ordered as [A B]. pose proof (Forall2_len A) as LA. pose proof (Forall2_len B) as LB.
    destruct (hlc_lens hs ls cs Hlc Hch) as [L1 L2]. fold n in L1, L2.
    rewrite !sma_is_window_mean_expr by exact Hp. rewrite !tab_length.
    change (sem (EIn 2) [hs; ls; cs]) with cs. lia.
  Qed.
End Accb.

(* ------------------------------------------------------------------------------------------ *)
(* 4. volatility.KeltnerChannel: upper >= middle >= lower.
      middle = EMA_q(closings) skipped to the ATR's warm-up, upper/lower = middle +/- 2 * ATR_p.
      Holds for every pair of periods p, q >= 1 and every smoothing constant: when q > p + 1 the generated Skip amount
      is negative (no skip, the lines are then misaligned in time, as in the Go code) but the middle line is then the
      shorter stream, Operate truncates to it, and the pointwise order still holds because 2 * ATR >= 0 everywhere. *)

Lemma bands_ordered_le (m s : list R) :
  (length m <= length s)%nat -> Forall (fun v => 0 <= v) s ->
  Forall2 Rle (s_op2 Rminus m s) m /\ Forall2 Rle m (s_op2 Rplus m s).
Proof.
  intros L Hs.
  split; apply (Forall2_nth_intro Rle 0 0); rewrite ?s_op2_length; try lia.
  - intros i Hi. rewrite (s_op2_nth Rminus _ _ i 0 0 0) by lia.
    pose proof (Forall_nth_elim _ 0 s Hs i ltac:(lia)). simpl in *. lra.
  - intros i Hi. rewrite (s_op2_nth Rplus _ _ i 0 0 0) by lia.
    pose proof (Forall_nth_elim _ 0 s Hs i ltac:(lia)). simpl in *. lra.
Qed.

Definition keltner (p q : Z) (smoothing : R) : expr R R * expr R R * expr R R :=
  volatility_KeltnerChannel_Compute (T:=R) (I:=R)
    (mk_volatility_KeltnerChannel (volatility_NewAtrWithPeriod p) (mk_trend_Ema q smoothing)) (EIn 0) (EIn 1) (EIn 2).
Definition keltner_atr2 (p : Z) (hs ls cs : list R) : list R :=
  map (fun n => n * IZR 2)
    (sem (volatility_Atr_Compute (T:=R) (I:=R) (volatility_NewAtrWithPeriod p) (EIn 0) (EIn 1) (EIn 2)) [hs; ls; cs]).
Definition keltner_mid (p q : Z) (smoothing : R) (hs ls cs : list R) : list R :=
  s_skip (p - 1 + 1 - (q - 1)) (sem (trend_Ema_Compute (T:=R) (I:=R) (mk_trend_Ema q smoothing) (EIn 2)) [hs; ls; cs]).

Lemma keltner_eqs p q s hs ls cs :
  sem (snd (fst (keltner p q s))) [hs; ls; cs] = keltner_mid p q s hs ls cs /\
  sem (fst (fst (keltner p q s))) [hs; ls; cs] = s_op2 Rplus (keltner_mid p q s hs ls cs) (keltner_atr2 p hs ls cs) /\
  sem (snd (keltner p q s)) [hs; ls; cs] = s_op2 Rminus (keltner_mid p q s hs ls cs) (keltner_atr2 p hs ls cs).
Proof. repeat split; reflexivity. Qed.

Section Keltner.
  Variables (p q : Z) (smoothing : R) (hs ls cs : list R).
  Hypothesis Hp : (1 <= p)%Z.
  Hypothesis Hq : (1 <= q)%Z.
  Hypothesis Hlc : Forall2 Rle ls cs.
  Hypothesis Hch : Forall2 Rle cs hs.
  Let n := length hs.

  Lemma keltner_lh : Forall2 Rle ls hs.
  Proof.
    destruct (hlc_lens hs ls cs Hlc Hch) as [L1 L2].
    apply (Forall2_nth_intro Rle 0 0); [exact L1|]. intros i Hi.
    pose proof (Forall2_nth_elim Rle 0 0 _ _ Hlc i Hi) as A.
    pose proof (Forall2_nth_elim Rle 0 0 _ _ Hch i ltac:(lia)) as B. lra.
  Qed.

  Lemma keltner_atr2_nonneg : Forall (fun v => 0 <= v) (keltner_atr2 p hs ls cs).
  Proof.
    unfold keltner_atr2. apply Forall_map_intro. intros x Hx.
    pose proof (atr_nonneg p hs ls cs Hp keltner_lh) as H. rewrite Forall_forall in H.
    specialize (H x Hx). simpl in H. lra.
  Qed.

  Lemma keltner_atr2_length : length (keltner_atr2 p hs ls cs) = (n - 1 - (Z.to_nat p - 1))%nat.
  Proof.
    destruct (hlc_lens hs ls cs Hlc Hch) as [L1 L2]. fold n in L1, L2.
    unfold keltner_atr2. rewrite map_length.
    change (sem (volatility_Atr_Compute (T:=R) (I:=R) (volatility_NewAtrWithPeriod p) (EIn 0) (EIn 1) (EIn 2)) [hs; ls; cs])
      with (sem (trend_Sma_Compute (T:=R) (I:=R) (mk_trend_Sma p) atr_tr) [hs; ls; cs]).
    rewrite sma_is_window_mean_expr by exact Hp. rewrite tab_length.
    change (sem atr_tr [hs; ls; cs])
      with (s_op3 (fun high low closing => Rmax (high - low) (Rmax (high - closing) (closing - low)))
              (s_skip 1 hs) (s_skip 1 ls) cs).
    rewrite s_op3_length, !s_skip_length. change (Z.to_nat 1) with 1%nat. fold n. lia.
  Qed.

  Lemma keltner_mid_length :
    length (keltner_mid p q smoothing hs ls cs) = (n - (Z.to_nat q - 1) - Z.to_nat (p - 1 + 1 - (q - 1)))%nat.
  Proof.
    destruct (hlc_lens hs ls cs Hlc Hch) as [L1 L2]. fold n in L1, L2.
    unfold keltner_mid. rewrite s_skip_length.
    rewrite Prim.SeededProofs.ema_is_documented_gen by exact Hq. rewrite tab_length.
    change (sem (EIn 2) [hs; ls; cs]) with cs. rewrite L2. reflexivity.
  Qed.

  Theorem keltner_ordered :
    Forall2 Rle (sem (snd (keltner p q smoothing)) [hs; ls; cs]) (sem (snd (fst (keltner p q smoothing))) [hs; ls; cs]) /\
    Forall2 Rle (sem (snd (fst (keltner p q smoothing))) [hs; ls; cs]) (sem (fst (fst (keltner p q smoothing))) [hs; ls; cs]).
  Proof.
    destruct (keltner_eqs p q smoothing hs ls cs) as (EM & EU & EL). rewrite EM, EU, EL.
    apply bands_ordered_le; [|exact keltner_atr2_nonneg].
    rewrite keltner_atr2_length, keltner_mid_length. lia.
  Qed.

  (* equal periods (the library's constructor): all three lines report n - p values *)
  Theorem keltner_lengths : q = p ->
    length (sem (fst (fst (keltner p q smoothing))) [hs; ls; cs]) = (n - Z.to_nat p)%nat /\
    length (sem (snd (fst (keltner p q smoothing))) [hs; ls; cs]) = (n - Z.to_nat p)%nat /\
    length (sem (snd (keltner p q smoothing)) [hs; ls; cs]) = (n - Z.to_nat p)%nat.
  Proof.
    intros E. destruct (keltner_eqs p q smoothing hs ls cs) as (EM & EU & EL). rewrite EM, EU, EL.
    rewrite !s_op2_length, keltner_atr2_length, keltner_mid_length. subst q. lia.
  Qed.
End Keltner.

(* ------------------------------------------------------------------------------------------ *)
(* 1. volume.Mfi in [0, 100]:  100 - 100 / (1 + positive flow sum / negative flow sum).
      No validity hypothesis on the OHLCV series is needed: both sums are sums of non-negative values. *)

Definition mfi_expr (p : Z) : expr R R :=
  volume_Mfi_Compute (T:=R) (I:=R) (mk_volume_Mfi mk_trend_TypicalPrice (mk_trend_MovingSum p))
    (EIn 0) (EIn 1) (EIn 2) (EIn 3).
(* raw money flow = typical price * volume *)
Definition mfi_raw : expr R R :=
  helper_Multiply (trend_TypicalPrice_Compute (T:=R) (I:=R) mk_trend_TypicalPrice (EIn 0) (EIn 1) (EIn 2)) (EIn 3).
(* signed money flow = sign(change of raw flow) * raw flow *)
Definition mfi_flow : expr R R := helper_Multiply (helper_Sign (helper_Change mfi_raw 1)) (ESkip 1 mfi_raw).
Definition mfi_pos_expr (p : Z) : expr R R :=
  trend_MovingSum_Compute (T:=R) (I:=R) (mk_trend_MovingSum p) (helper_KeepPositives mfi_flow).
Definition mfi_neg_expr (p : Z) : expr R R :=
  trend_MovingSum_Compute (T:=R) (I:=R) (mk_trend_MovingSum p)
    (helper_MultiplyBy (helper_KeepNegatives mfi_flow) (IZR (-1))).

Definition mfi_value (r : R) : R := Rpow_model (r + IZR 1) (IZR (-1)) * IZR (-100) + IZR 100.

Lemma mfi_out_eq p env :
  sem (mfi_expr p) env = map mfi_value (s_op2 Rdiv (sem (mfi_pos_expr p) env) (sem (mfi_neg_expr p) env)).
Proof.
  change (sem (mfi_expr p) env) with
    (map (fun n => n + IZR 100) (map (fun n => n * IZR (-100)) (map (fun n => Rpow_model n (IZR (-1)))
       (map (fun n => n + IZR 1) (s_op2 Rdiv (sem (mfi_pos_expr p) env) (sem (mfi_neg_expr p) env)))))).
  rewrite !map_map. reflexivity.
Qed.

Lemma mfi_value_range_gen (a b : R) : 0 <= a -> 0 <= / b -> 0 <= mfi_value (a / b) <= 100.
Proof.
  intros Ha Hb. unfold mfi_value. rewrite Rpow_model_m1.
  assert (Hr : 0 <= a / b) by (unfold Rdiv; apply Rmult_le_pos; assumption).
  assert (H1 : 0 < / (a / b + 1)) by (apply Rinv_0_lt_compat; lra).
  assert (H2 : / (a / b + 1) <= 1) by (rewrite <- Rinv_1; apply Rinv_le_contravar; lra).
  lra.
Qed.

Lemma mfi_pos_nonneg p env : (1 <= p)%Z -> Forall (fun v => 0 <= v) (sem (mfi_pos_expr p) env).
Proof. intros Hp. apply moving_sum_nonneg; [exact Hp | apply keep_positives_nonneg]. Qed.

Lemma mfi_neg_nonneg p env : (1 <= p)%Z -> Forall (fun v => 0 <= v) (sem (mfi_neg_expr p) env).
Proof.
  intros Hp. apply moving_sum_nonneg; [exact Hp|].
  change (sem (helper_MultiplyBy (helper_KeepNegatives mfi_flow) (IZR (-1))) env)
    with (map (fun n => n * IZR (-1)) (sem (helper_KeepNegatives mfi_flow) env)).
  apply Forall_map_intro. intros x Hx.
  pose proof (keep_negatives_nonpos mfi_flow env) as H. rewrite Forall_forall in H.
  specialize (H x Hx). simpl in H. lra.
Qed.

(* positions with a non-zero negative-flow sum (the money ratio's denominator) *)
Theorem mfi_range_pos (p : Z) (env : list (list R)) : (1 <= p)%Z ->
  forall j, (j < length (sem (mfi_expr p) env))%nat -> nth j (sem (mfi_neg_expr p) env) 0 <> 0 ->
  0 <= nth j (sem (mfi_expr p) env) 0 <= 100.
Proof.
  intros Hp j Hj Hnz. rewrite mfi_out_eq in *. rewrite map_length, s_op2_length in Hj.
  rewrite (map_nth_lt mfi_value _ j 0 0) by (rewrite s_op2_length; exact Hj).
  rewrite (s_op2_nth Rdiv _ _ j 0 0 0) by lia.
  pose proof (Forall_nth_elim _ 0 _ (mfi_neg_nonneg p env Hp) j ltac:(lia)) as Hn. cbv beta in Hn.
  apply mfi_value_range_gen.
  - apply (Forall_nth_elim (fun v => 0 <= v) 0 _ (mfi_pos_nonneg p env Hp)). lia.
  - left. apply Rinv_0_lt_compat. lra.
Qed.

(* model-level only: relies on the totalised real division (x / 0 = 0) where the negative-flow sum is 0 *)
Theorem mfi_range_model (p : Z) (env : list (list R)) : (1 <= p)%Z ->
  Forall (fun v => 0 <= v <= 100) (sem (mfi_expr p) env).
Proof.
  intros Hp. apply (Forall_nth_intro _ 0). intros j Hj.
  rewrite mfi_out_eq in *. rewrite map_length, s_op2_length in Hj.
  rewrite (map_nth_lt mfi_value _ j 0 0) by (rewrite s_op2_length; exact Hj).
  rewrite (s_op2_nth Rdiv _ _ j 0 0 0) by lia.
  pose proof (Forall_nth_elim _ 0 _ (mfi_neg_nonneg p env Hp) j ltac:(lia)) as Hn. cbv beta in Hn.
  apply mfi_value_range_gen.
  - apply (Forall_nth_elim (fun v => 0 <= v) 0 _ (mfi_pos_nonneg p env Hp)). lia.
  - destruct Hn as [Hn|Hn]; [left; apply Rinv_0_lt_compat; exact Hn | rewrite <- Hn, Rinv_0; lra].
Qed.

Lemma mfi_flow_length hs ls cs vs : length ls = length hs -> length cs = length hs -> length vs = length hs ->
  length (sem mfi_flow [hs; ls; cs; vs]) = (length hs - 1)%nat.
Proof.
  intros L1 L2 L3.
  assert (LR : length (sem mfi_raw [hs; ls; cs; vs]) = length hs).
  { change (sem mfi_raw [hs; ls; cs; vs])
      with (s_op2 Rmult (map (fun n => n / IZR 3) (s_op2 Rplus (s_op2 Rplus hs ls) cs)) vs).
    rewrite s_op2_length, map_length, !s_op2_length. lia. }
  change (sem mfi_flow [hs; ls; cs; vs]) with
    (s_op2 Rmult
       (map (fun n => if Rltb 0 n then IZR 1 else if Rltb n 0 then IZR (-1) else IZR 0)
            (s_op2 Rminus (s_skip 1 (sem mfi_raw [hs; ls; cs; vs])) (sem mfi_raw [hs; ls; cs; vs])))
       (s_skip 1 (sem mfi_raw [hs; ls; cs; vs]))).
  rewrite s_op2_length, map_length, s_op2_length, !s_skip_length, LR. change (Z.to_nat 1) with 1%nat. lia.
Qed.

Theorem mfi_length (p : Z) (hs ls cs vs : list R) : (1 <= p)%Z ->
  length ls = length hs -> length cs = length hs -> length vs = length hs ->
  length (sem (mfi_expr p) [hs; ls; cs; vs]) = (length hs - 1 - (Z.to_nat p - 1))%nat.
Proof.
  intros Hp L1 L2 L3. rewrite mfi_out_eq, map_length, s_op2_length.
  unfold mfi_pos_expr, mfi_neg_expr. rewrite !moving_sum_is_window_sum_expr by exact Hp. rewrite !tab_length.
  change (sem (helper_KeepPositives mfi_flow) [hs; ls; cs; vs])
    with (map (fun n => if Rltb 0 n then n else 0) (sem mfi_flow [hs; ls; cs; vs])).
  change (sem (helper_MultiplyBy (helper_KeepNegatives mfi_flow) (IZR (-1))) [hs; ls; cs; vs])
    with (map (fun n => n * IZR (-1)) (map (fun n => if Rltb n 0 then n else 0) (sem mfi_flow [hs; ls; cs; vs]))).
  rewrite !map_length, mfi_flow_length by assumption. lia.
Qed.

(* ------------------------------------------------------------------------------------------ *)
(* 3. momentum.StochasticRsi in [0, 1]:  (rsi - min rsi) / (max rsi - min rsi) over paired windows of size q *)

Definition rsi_expr (p : Z) : expr R R :=
  momentum_Rsi_Compute (T:=R) (I:=R) (mk_momentum_Rsi (mk_trend_Rma p)) (EIn 0).
Definition stochrsi_expr (p q : Z) : expr R R :=
  momentum_StochasticRsi_Compute (T:=R) (I:=R)
    (mk_momentum_StochasticRsi (mk_momentum_Rsi (mk_trend_Rma p)) (mk_trend_MovingMin q) (mk_trend_MovingMax q)) (EIn 0).
Definition stochrsi_min (p q : Z) (cs : list R) : list R :=
  sem (trend_MovingMin_Compute (T:=R) (I:=R) (mk_trend_MovingMin q) (rsi_expr p)) [cs].
Definition stochrsi_max (p q : Z) (cs : list R) : list R :=
  sem (trend_MovingMax_Compute (T:=R) (I:=R) (mk_trend_MovingMax q) (rsi_expr p)) [cs].

Lemma stochrsi_eq p q cs :
  sem (stochrsi_expr p q) [cs] =
  s_op2 Rdiv (s_op2 Rminus (s_skip (q - 1) (rsi_out p cs)) (stochrsi_min p q cs))
             (s_op2 Rminus (stochrsi_max p q cs) (stochrsi_min p q cs)).
Proof. reflexivity. Qed.

Section StochRsi.
  Variables (p q : Z) (cs : list R).
  Hypothesis Hq : (1 <= q)%Z.
  (* the window-extremum characterisation of MovingMin / MovingMax needs the first q inputs - here RSI values -
     to be non-zero with the earlier code (the ring buffer's zero fill was confused with genuine zeros); the hypothesis
     is no longer needed (section 3b) and is kept for the users of these statements.  For RSI values it is a real
     restriction: the RSI is exactly 0 while no gain has occurred. *)
  Hypothesis Hnz : Forall (fun x => x <> 0) (firstn (Z.to_nat q) (rsi_out p cs)).
  Let Q := Z.to_nat q.
  Let rs := rsi_out p cs.
  Let m := length rs.

  Lemma stochrsi_min_eq : stochrsi_min p q cs = tab (Q - 1) m (wmin Q rs).
  Proof. apply (moving_min_is_window_min_expr q (rsi_expr p) [cs] Hq). exact Hnz. Qed.
  Lemma stochrsi_max_eq : stochrsi_max p q cs = tab (Q - 1) m (wmax Q rs).
  Proof. apply (moving_max_is_window_max_expr q (rsi_expr p) [cs] Hq). exact Hnz. Qed.

  Theorem stochrsi_length : length (sem (stochrsi_expr p q) [cs]) = (m - (Q - 1))%nat.
  Proof.
    rewrite stochrsi_eq, stochrsi_min_eq, stochrsi_max_eq.
    rewrite !s_op2_length, s_skip_length, !tab_length. fold rs m. unfold Q. lia.
  Qed.

  (* reported position j is RSI position (Q-1)+j; exempt: windows on which the RSI is constant (max = min) *)
  Theorem stochrsi_range_pos : forall j, (j < m - (Q - 1))%nat ->
    nth j (stochrsi_max p q cs) 0 - nth j (stochrsi_min p q cs) 0 <> 0 ->
    0 <= nth j (sem (stochrsi_expr p q) [cs]) 0 <= 1.
  Proof.
    intros j Hj Hd. assert (HQ : (1 <= Q)%nat) by (unfold Q; lia).
    rewrite stochrsi_eq. rewrite stochrsi_min_eq, stochrsi_max_eq in *.
    rewrite !tab_nth in Hd by exact Hj.
    rewrite (s_op2_nth Rdiv _ _ j 0 0 0)
      by (rewrite !s_op2_length, ?s_skip_length, !tab_length; fold rs m; unfold Q; lia).
    rewrite !(s_op2_nth Rminus _ _ j 0 0 0)
      by (rewrite ?s_skip_length, ?tab_length; fold rs m; unfold Q; lia).
    rewrite !tab_nth by exact Hj. rewrite s_skip_nth.
    replace (Z.to_nat (q - 1)) with (Q - 1)%nat by (unfold Q; lia). fold rs.
    pose proof (wmin_le Q rs (Q - 1 + j) (Q - 1 + j) ltac:(lia) ltac:(lia) ltac:(lia)) as A.
    pose proof (wmax_ge Q rs (Q - 1 + j) (Q - 1 + j) ltac:(lia) ltac:(lia) ltac:(lia)) as B.
    unfold at_ in A, B.
    apply ratio_01; lra.
  Qed.
End StochRsi.

(* ------------------------------------------------------------------------------------------ *)
(* 3b. StochasticRsi without the non-zero hypothesis.
       MovingMin / MovingMax are the window minimum / maximum for all inputs (Prim/MovingMaxProofs.v, the [_all]
       theorems), so they bracket the current value for every input stream.  (With the earlier code, which removed the
       Shift's zero fill from the tree during warm-up, this needed the shape 0 ... 0 y1 y2 ... of the RSI stream shown
       below: RSI_j = 0 iff the average gain or (in the totalised model) the average loss is 0, and for period >= 2
       positive averages stay positive; for period 1 the RSI model value is 0 throughout.  The shape theorem is kept.) *)

(* MovingMin <= value <= MovingMax, for every input stream *)
Theorem moving_min_le_value_le_moving_max_all {I} (q : Z) (e : expr I R) (env : list (list I)) :
  (1 <= q)%Z ->
  let mn := sem (trend_MovingMin_Compute (T:=R) (I:=I) (mk_trend_MovingMin q) e) env in
  let mx := sem (trend_MovingMax_Compute (T:=R) (I:=I) (mk_trend_MovingMax q) e) env in
  length mn = (length (sem e env) - (Z.to_nat q - 1))%nat /\
  length mx = (length (sem e env) - (Z.to_nat q - 1))%nat /\
  forall j, (j < length (sem e env) - (Z.to_nat q - 1))%nat ->
    nth j mn 0 <= nth (Z.to_nat q - 1 + j) (sem e env) 0 <= nth j mx 0.
Proof.
  intros Hq mn mx. unfold mn, mx.
  rewrite moving_max_is_window_max_expr_all, moving_min_is_window_min_expr_all by exact Hq.
  rewrite !tab_length. split; [reflexivity|]. split; [reflexivity|].
  intros j Hj. rewrite !tab_nth by exact Hj.
  split; [apply wmin_le | apply wmax_ge]; lia.
Qed.

(* the earlier statement for an input stream of the shape 0 ... 0 y1 y2 ... with the first q of the y's non-zero *)
Theorem moving_min_le_value_le_moving_max_zero_prefix {I} (q : Z) (e : expr I R) (env : list (list I))
    (k : nat) (ys : list R) :
  (1 <= q)%Z -> sem e env = repeat 0 k ++ ys -> Forall (fun x => x <> 0) (firstn (Z.to_nat q) ys) ->
  let mn := sem (trend_MovingMin_Compute (T:=R) (I:=I) (mk_trend_MovingMin q) e) env in
  let mx := sem (trend_MovingMax_Compute (T:=R) (I:=I) (mk_trend_MovingMax q) e) env in
  length mn = (length (sem e env) - (Z.to_nat q - 1))%nat /\
  length mx = (length (sem e env) - (Z.to_nat q - 1))%nat /\
  forall j, (j < length (sem e env) - (Z.to_nat q - 1))%nat ->
    nth j mn 0 <= nth (Z.to_nat q - 1 + j) (sem e env) 0 <= nth j mx 0.
Proof. intros Hq _ _. exact (moving_min_le_value_le_moving_max_all q e env Hq). Qed.

Lemma zero_prefix_shape (l : list R) :
  (forall j, (S j < length l)%nat -> nth j l 0 <> 0 -> nth (S j) l 0 <> 0) ->
  exists (k : nat) (ys : list R), l = repeat 0 k ++ ys /\ Forall (fun x => x <> 0) ys.
Proof.
  induction l as [|x l IH]; intros H.
  - exists 0%nat, []. split; [reflexivity | constructor].
  - destruct (Req_dec x 0) as [E|E].
    + destruct IH as (k & ys & E1 & E2).
      { intros j Hj Hn. apply (H (S j)); [simpl; lia | exact Hn]. }
      exists (S k), ys. subst. split; [reflexivity | exact E2].
    + exists 0%nat, (x :: l). split; [reflexivity|].
      apply (Forall_nth_intro _ 0). intros i Hi.
      induction i as [|i IHi]; [exact E|]. apply H; [exact Hi | apply IHi; lia].
Qed.

Lemma rsi_value_zero_l (g l : R) : g = 0 -> rsi_value g l = 0.
Proof. intros E. subst g. unfold rsi_value. rewrite Rpow_model_m1. unfold Rdiv. rewrite Rmult_0_l, Rplus_0_l, Rinv_1. lra. Qed.
Lemma rsi_value_zero_r (g l : R) : l = 0 -> rsi_value g l = 0.
Proof. intros E. subst l. unfold rsi_value. rewrite Rpow_model_m1. unfold Rdiv. rewrite Rinv_0, Rmult_0_r, Rplus_0_l, Rinv_1. lra. Qed.
Lemma rsi_value_pos (g l : R) : 0 < g -> 0 < l -> rsi_value g l <> 0.
Proof.
  intros Hg Hl. unfold rsi_value. rewrite Rpow_model_m1.
  assert (Hr : 0 < g / l) by (unfold Rdiv; apply Rmult_lt_0_compat; [exact Hg | apply Rinv_0_lt_compat; exact Hl]).
  assert (H1 : / (g / l + 1) < 1) by (rewrite <- Rinv_1 at 2; apply Rinv_lt_contravar; lra).
  lra.
Qed.

Definition rsi_gains (cs : list R) : list R := sem (helper_KeepPositives rsi_changes) [cs].
Definition rsi_losses (cs : list R) : list R := sem (helper_KeepNegatives rsi_changes) [cs].

Lemma rsi_changes_length cs : length (sem rsi_changes [cs]) = (length cs - 1)%nat.
Proof.
  change (sem rsi_changes [cs]) with (s_op2 Rminus (s_skip 1 cs) cs).
  rewrite s_op2_length, s_skip_length. change (Z.to_nat 1) with 1%nat. lia.
Qed.
Lemma rsi_gains_eq cs : rsi_gains cs = map (fun n => if Rltb 0 n then n else 0) (sem rsi_changes [cs]).
Proof. reflexivity. Qed.
Lemma rsi_losses_eq cs : rsi_losses cs = map (fun n => if Rltb n 0 then n else 0) (sem rsi_changes [cs]).
Proof. reflexivity. Qed.
Lemma rsi_gains_nonneg cs : Forall (fun x => 0 <= x) (rsi_gains cs).
Proof. apply keep_positives_nonneg. Qed.
Lemma rsi_losses_nonpos cs : Forall (fun x => x <= 0) (rsi_losses cs).
Proof. apply keep_negatives_nonpos. Qed.

(* at every position either the gain or the loss is 0 *)
Lemma rsi_gain_or_loss_zero cs i : at_ (rsi_gains cs) i = 0 \/ at_ (rsi_losses cs) i = 0.
Proof.
  unfold at_. destruct (Nat.lt_ge_cases i (length (sem rsi_changes [cs]))) as [Hi|Hi].
  - rewrite rsi_gains_eq, rsi_losses_eq.
    rewrite (map_nth_lt (fun n => if Rltb 0 n then n else 0) _ i 0 0) by exact Hi.
    rewrite (map_nth_lt (fun n => if Rltb n 0 then n else 0) _ i 0 0) by exact Hi.
    set (d := nth i (sem rsi_changes [cs]) 0).
    destruct (Rltb 0 d) eqn:B1; [|left; reflexivity].
    destruct (Rltb d 0) eqn:B2; [|right; reflexivity].
    apply Rltb_true in B1. apply Rltb_true in B2. lra.
  - left. apply nth_overflow. rewrite rsi_gains_eq, map_length. exact Hi.
Qed.

Section RsiShape.
  Variables (p : Z) (cs : list R).
  Hypothesis Hp : (1 <= p)%Z.
  Let P := Z.to_nat p.
  Let stp := fun before n : R => (before * (IZR p - 1) + n) / IZR p.
  Let G := seeded_rec P stp (rsi_gains cs).
  Let L := seeded_rec P stp (rsi_losses cs).

  Lemma rsi_nth j : (j < length (rsi_out p cs))%nat ->
    nth j (rsi_out p cs) 0 = rsi_value (G (P - 1 + j)%nat) (L (P - 1 + j)%nat * IZR (-1)).
  Proof.
    intros Hj. rewrite rsi_length in Hj by exact Hp. fold P in Hj.
    assert (EG : rsi_avg_gain p cs = tab (P - 1) (length cs - 1) G).
    { unfold rsi_avg_gain. rewrite Prim.SeededProofs.rma_is_documented_gen by exact Hp.
      fold (rsi_gains cs). rewrite rsi_gains_eq, map_length, rsi_changes_length. reflexivity. }
    assert (EL : rsi_avg_loss p cs = map (fun n => n * IZR (-1)) (tab (P - 1) (length cs - 1) L)).
    { change (rsi_avg_loss p cs) with
        (map (fun n => n * IZR (-1))
           (sem (trend_Rma_Compute (T:=R) (I:=R) (mk_trend_Rma p) (helper_KeepNegatives rsi_changes)) [cs])).
      rewrite Prim.SeededProofs.rma_is_documented_gen by exact Hp.
      fold (rsi_losses cs). rewrite rsi_losses_eq, map_length, rsi_changes_length. reflexivity. }
    rewrite rsi_out_eq, EG, EL.
    rewrite (map_nth_lt _ _ j 0 0) by (rewrite s_op2_length, map_length, !tab_length; lia).
    rewrite (s_op2_nth Rdiv _ _ j 0 0 0) by (rewrite ?map_length, tab_length; lia).
    rewrite (map_nth_lt (fun n => n * IZR (-1)) _ j 0 0) by (rewrite tab_length; lia).
    rewrite !tab_nth by lia. reflexivity.
  Qed.

  Lemma G_nonneg i : 0 <= G i.
  Proof.
    unfold G. apply (seeded_rec_inv (fun v => 0 <= v)).
    - apply wmean_nonneg. apply rsi_gains_nonneg.
    - intros b k Hb. apply (rma_step_nonneg p b _ Hp Hb). apply at_nonneg. apply rsi_gains_nonneg.
  Qed.
  Lemma L_nonpos i : L i <= 0.
  Proof.
    unfold L. apply (seeded_rec_inv (fun v => v <= 0)).
    - apply wmean_nonpos. apply rsi_losses_nonpos.
    - intros b k Hb. apply (rma_step_nonpos p b _ Hp Hb). apply at_nonpos. apply rsi_losses_nonpos.
  Qed.

  (* period 1: the averages are the gain and the loss themselves, one of which is 0 *)
  Lemma seeded_rec_period1 (xs : list R) i : p = 1%Z -> seeded_rec P stp xs i = at_ xs i.
  Proof.
    intros E. assert (EP : P = 1%nat) by (unfold P; subst p; reflexivity). rewrite EP.
    destruct i as [|i].
    - cbn [seeded_rec Nat.sub]. unfold wmean, wsum, window. cbn [Nat.add Nat.sub seq map].
      unfold Rsum. cbn [fold_right]. simpl INR. field.
    - rewrite Prim.SeededProofs.seeded_rec_step by lia. unfold stp. subst p. field.
  Qed.

  Lemma step_pos (b n : R) : (2 <= p)%Z -> 0 < b -> 0 <= n -> 0 < stp b n.
  Proof.
    intros H2 Hb Hn. unfold stp, Rdiv.
    assert (2 <= IZR p) by (apply IZR_le; exact H2).
    apply Rmult_lt_0_compat.
    - assert (0 < b * (IZR p - 1)) by (apply Rmult_lt_0_compat; lra). lra.
    - apply Rinv_0_lt_compat. lra.
  Qed.
  Lemma step_neg (b n : R) : (2 <= p)%Z -> b < 0 -> n <= 0 -> stp b n < 0.
  Proof.
    intros H2 Hb Hn.
    replace (stp b n) with (- stp (- b) (- n)) by (unfold stp; field; apply not_0_IZR; lia).
    pose proof (step_pos (- b) (- n) H2 ltac:(lra) ltac:(lra)). lra.
  Qed.

  (* a non-zero RSI value is followed by non-zero RSI values: the zeros of the RSI stream form a prefix *)
  Theorem rsi_nonzero_persists j : (S j < length (rsi_out p cs))%nat ->
    nth j (rsi_out p cs) 0 <> 0 -> nth (S j) (rsi_out p cs) 0 <> 0.
  Proof.
    intros Hj Hn. rewrite rsi_nth in Hn by lia. rewrite rsi_nth by lia.
    pose proof (G_nonneg (P - 1 + j)) as HG. pose proof (L_nonpos (P - 1 + j)) as HL.
    assert (HG1 : 0 < G (P - 1 + j)%nat).
    { destruct HG as [HG|HG]; [exact HG|]. exfalso. apply Hn. apply rsi_value_zero_l. symmetry. exact HG. }
    assert (HL1 : L (P - 1 + j)%nat < 0).
    { destruct HL as [HL|HL]; [exact HL|]. exfalso. apply Hn. apply rsi_value_zero_r. rewrite HL. lra. }
    destruct (Z.eq_dec p 1) as [E1|E1].
    - exfalso. unfold G, L in HG1, HL1. rewrite seeded_rec_period1 in HG1, HL1 by exact E1.
      destruct (rsi_gain_or_loss_zero cs (P - 1 + j)) as [E|E]; lra.
    - assert (H2 : (2 <= p)%Z) by lia.
      replace (P - 1 + S j)%nat with (S (P - 1 + j)) by lia.
      unfold G, L. rewrite !Prim.SeededProofs.seeded_rec_step by lia. fold G L.
      apply rsi_value_pos.
      + apply step_pos; [exact H2 | exact HG1 | apply at_nonneg; apply rsi_gains_nonneg].
      + assert (stp (L (P - 1 + j)%nat) (at_ (rsi_losses cs) (S (P - 1 + j))) < 0); [|lra].
        apply step_neg; [exact H2 | exact HL1 | apply at_nonpos; apply rsi_losses_nonpos].
  Qed.

  Theorem rsi_zero_prefix_shape :
    exists (k : nat) (ys : list R), rsi_out p cs = repeat 0 k ++ ys /\ Forall (fun x => x <> 0) ys.
  Proof. apply zero_prefix_shape. exact rsi_nonzero_persists. Qed.
End RsiShape.

Lemma Forall_firstn_of {A} (Q : A -> Prop) (n : nat) (l : list A) : Forall Q l -> Forall Q (firstn n l).
Proof.
  intros H. apply Forall_forall. intros x Hx. rewrite Forall_forall in H. apply H. apply (In_firstn n). exact Hx.
Qed.

(* every period p, q >= 1 and every closing series: MovingMin <= RSI <= MovingMax at every reported position, hence
   the Stochastic RSI lies in [0, 1] wherever its denominator max - min is non-zero *)
Theorem stochrsi_bracket (p q : Z) (cs : list R) : (1 <= p)%Z -> (1 <= q)%Z ->
  length (stochrsi_min p q cs) = (length (rsi_out p cs) - (Z.to_nat q - 1))%nat /\
  length (stochrsi_max p q cs) = (length (rsi_out p cs) - (Z.to_nat q - 1))%nat /\
  forall j, (j < length (rsi_out p cs) - (Z.to_nat q - 1))%nat ->
    nth j (stochrsi_min p q cs) 0 <= nth (Z.to_nat q - 1 + j) (rsi_out p cs) 0 <= nth j (stochrsi_max p q cs) 0.
Proof.
  intros _ Hq. exact (moving_min_le_value_le_moving_max_all q (rsi_expr p) [cs] Hq).
Qed.

Theorem stochrsi_length_all (p q : Z) (cs : list R) : (1 <= p)%Z -> (1 <= q)%Z ->
  length (sem (stochrsi_expr p q) [cs]) = (length (rsi_out p cs) - (Z.to_nat q - 1))%nat.
Proof.
  intros Hp Hq. destruct (stochrsi_bracket p q cs Hp Hq) as (L1 & L2 & _).
  rewrite stochrsi_eq, !s_op2_length, s_skip_length, L1, L2. lia.
Qed.

Theorem stochrsi_range_all_inputs (p q : Z) (cs : list R) : (1 <= p)%Z -> (1 <= q)%Z ->
  forall j, (j < length (rsi_out p cs) - (Z.to_nat q - 1))%nat ->
    nth j (stochrsi_max p q cs) 0 - nth j (stochrsi_min p q cs) 0 <> 0 ->
    0 <= nth j (sem (stochrsi_expr p q) [cs]) 0 <= 1.
Proof.
  intros Hp Hq j Hj Hd. destruct (stochrsi_bracket p q cs Hp Hq) as (L1 & L2 & H).
  specialize (H j Hj). rewrite stochrsi_eq.
  rewrite (s_op2_nth Rdiv _ _ j 0 0 0) by (rewrite !s_op2_length, ?s_skip_length, ?L1, ?L2; lia).
  rewrite !(s_op2_nth Rminus _ _ j 0 0 0) by (rewrite ?s_skip_length, ?L1, ?L2; lia).
  rewrite s_skip_nth. replace (Z.to_nat (q - 1)) with (Z.to_nat q - 1)%nat by lia.
  apply ratio_01; lra.
Qed.

(* ------------------------------------------------------------------------------------------ *)
(* 7. Non-vacuity: the hypotheses of the theorems below are satisfiable on small concrete series *)

Lemma Rltb_yes a b : a < b -> Rltb a b = true.
Proof. intros H. apply Rltb_true. exact H. Qed.
Lemma Rltb_no a b : b <= a -> Rltb a b = false.
Proof. intros H. apply Rltb_false. exact H. Qed.
Ltac rltb_eval :=
  repeat match goal with
         | |- context [Rltb ?a ?b] => first [rewrite (Rltb_yes a b) by lra | rewrite (Rltb_no a b) by lra]
         end.

(* Mfi: period 2, three falling bars of volume 1: the negative-flow sum at reported position 0 is 2 + 1 *)
Example mfi_hypotheses_satisfiable :
  let p := 2%Z in let env := [[3; 2; 1]; [3; 2; 1]; [3; 2; 1]; [1; 1; 1]] in
  (1 <= p)%Z /\ (0 < length (sem (mfi_expr p) env))%nat /\ nth 0 (sem (mfi_neg_expr p) env) 0 <> 0.
Proof.
  cbv zeta. split; [lia|].
  split; [rewrite mfi_length by (try lia; reflexivity); simpl; lia|].
  unfold mfi_neg_expr. rewrite moving_sum_is_window_sum_expr by lia.
  set (env := [[3; 2; 1]; [3; 2; 1]; [3; 2; 1]; [1; 1; 1]]).
  assert (ER : sem mfi_raw env = [(3 + 3 + 3) / 3 * 1; (2 + 2 + 2) / 3 * 1; (1 + 1 + 1) / 3 * 1]) by reflexivity.
  assert (EF : sem mfi_flow env = [-1 * ((2 + 2 + 2) / 3 * 1); -1 * ((1 + 1 + 1) / 3 * 1)]).
  { change (sem mfi_flow env) with
      (s_op2 Rmult
         (map (fun n => if Rltb 0 n then IZR 1 else if Rltb n 0 then IZR (-1) else IZR 0)
              (s_op2 Rminus (s_skip 1 (sem mfi_raw env)) (sem mfi_raw env)))
         (s_skip 1 (sem mfi_raw env))).
    rewrite ER. unfold s_skip. change (Z.to_nat 1) with 1%nat. cbn [skipn s_op2 map].
    rltb_eval. reflexivity. }
  change (sem (helper_MultiplyBy (helper_KeepNegatives mfi_flow) (IZR (-1))) env)
    with (map (fun n => n * IZR (-1)) (map (fun n => if Rltb n 0 then n else 0) (sem mfi_flow env))).
  rewrite EF. cbn [map]. rltb_eval.
  change (Z.to_nat 2) with 2%nat. cbn [length Nat.sub tab seq map nth].
  unfold wsum, window, at_. cbn [Nat.add Nat.sub seq map nth]. unfold Rsum. cbn [fold_right]. lra.
Qed.

(* Cmf: period 2, two bars *)
Example cmf_hypotheses_satisfiable :
  let p := 2%Z in let hs := [2; 3] in let ls := [1; 1] in let cs := [2; 2] in let vs := [3; 1] in
  (1 <= p)%Z /\ Forall2 Rle ls cs /\ Forall2 Rle cs hs /\ length vs = length hs /\ Forall (fun v => 0 <= v) vs /\
  (0 < length hs - (Z.to_nat p - 1))%nat /\
  (forall k, (0 <= k <= 0 + (Z.to_nat p - 1))%nat -> nth k hs 0 - nth k ls 0 <> 0) /\
  nth 0 (cmf_vsum p hs ls cs vs) 0 <> 0.
Proof.
  cbv zeta. change (Z.to_nat 2) with 2%nat.
  split; [lia|]. split; [repeat constructor; lra|]. split; [repeat constructor; lra|].
  split; [reflexivity|]. split; [repeat constructor; lra|]. split; [simpl; lia|].
  split.
  - intros k Hk. assert (E : (k = 0 \/ k = 1)%nat) by lia. destruct E as [E|E]; subst k; simpl; lra.
  - unfold cmf_vsum. rewrite moving_sum_is_window_sum_expr by lia.
    change (Z.to_nat 2) with 2%nat. cbn [sem nth length Nat.sub tab seq map].
    unfold wsum, window, at_. cbn [Nat.add Nat.sub seq map nth]. unfold Rsum. cbn [fold_right]. lra.
Qed.

(* StochasticRsi: RSI period 2, windows of 2, closings 4 6 5 8: the RSI values are 200/3 and 800/9 *)
Lemma rsi_example : rsi_out 2 [4; 6; 5; 8] = [200 / 3; 800 / 9].
Proof.
  set (cs := [4; 6; 5; 8]).
  assert (EC : sem rsi_changes [cs] = [6 - 4; 5 - 6; 8 - 5]) by reflexivity.
  assert (EG : rsi_avg_gain 2 cs = [1; 2]).
  { unfold rsi_avg_gain. rewrite Prim.SeededProofs.rma_is_documented_gen by lia.
    change (sem (helper_KeepPositives rsi_changes) [cs])
      with (map (fun n => if Rltb 0 n then n else 0) (sem rsi_changes [cs])).
    rewrite EC. cbn [map]. rltb_eval.
    change (Z.to_nat 2) with 2%nat. cbn [length Nat.sub tab seq map].
    cbn [seeded_rec Nat.leb Nat.sub]. unfold wmean, wsum, window, at_.
    cbn [Nat.add Nat.sub seq map nth]. unfold Rsum. cbn [fold_right]. simpl INR.
    f_equal; [field | f_equal; field]. }
  assert (EL : rsi_avg_loss 2 cs = [1 / 2; 1 / 4]).
  { change (rsi_avg_loss 2 cs) with
      (map (fun n => n * IZR (-1))
         (sem (trend_Rma_Compute (T:=R) (I:=R) (mk_trend_Rma 2) (helper_KeepNegatives rsi_changes)) [cs])).
    rewrite Prim.SeededProofs.rma_is_documented_gen by lia.
    change (sem (helper_KeepNegatives rsi_changes) [cs])
      with (map (fun n => if Rltb n 0 then n else 0) (sem rsi_changes [cs])).
    rewrite EC. cbn [map]. rltb_eval.
    change (Z.to_nat 2) with 2%nat. cbn [length Nat.sub tab seq map].
    cbn [seeded_rec Nat.leb Nat.sub]. unfold wmean, wsum, window, at_.
    cbn [Nat.add Nat.sub seq map nth]. unfold Rsum. cbn [fold_right]. simpl INR.
    f_equal; [field | f_equal; field]. }
  rewrite rsi_out_eq, EG, EL. cbn [s_op2 map]. rewrite !Rpow_model_m1.
  f_equal; [field | f_equal; field].
Qed.

Example stochrsi_hypotheses_satisfiable :
  let p := 2%Z in let q := 2%Z in let cs := [4; 6; 5; 8] in
  (1 <= p)%Z /\ (1 <= q)%Z /\ Forall (fun x => x <> 0) (firstn (Z.to_nat q) (rsi_out p cs)) /\
  (0 < length (rsi_out p cs) - (Z.to_nat q - 1))%nat /\
  nth 0 (stochrsi_max p q cs) 0 - nth 0 (stochrsi_min p q cs) 0 <> 0.
Proof.
  cbv zeta.
  assert (Hnz : Forall (fun x => x <> 0) (firstn (Z.to_nat 2) (rsi_out 2 [4; 6; 5; 8]))).
  { rewrite rsi_example. change (Z.to_nat 2) with 2%nat. cbn [firstn]. repeat constructor; lra. }
  split; [lia|]. split; [lia|]. split; [exact Hnz|].
  split; [rewrite rsi_example; simpl; lia|].
  rewrite (stochrsi_max_eq 2 2 [4; 6; 5; 8] ltac:(lia) Hnz), (stochrsi_min_eq 2 2 [4; 6; 5; 8] ltac:(lia) Hnz).
  rewrite rsi_example. change (Z.to_nat 2) with 2%nat. cbn [length Nat.sub tab seq map nth].
  unfold wmax, wmin, window, at_. cbn [Nat.add Nat.sub seq map nth Rlist_max Rlist_min fold_left].
  rewrite Rmax_right, Rmin_left by lra. lra.
Qed.

(* Keltner / Acceleration bands / Ulcer index: a valid three-bar series; the reported lines are non-empty *)
Example bands_hypotheses_satisfiable :
  let p := 2%Z in let hs := [3; 4; 5] in let ls := [1; 2; 3] in let cs := [2; 3; 4] in
  (1 <= p)%Z /\ Forall (fun x => 0 < x) ls /\ Forall (fun x => 0 < x) cs /\ Forall2 Rle ls cs /\ Forall2 Rle cs hs /\
  (0 < length hs - Z.to_nat p)%nat /\ (0 < length hs - (Z.to_nat p - 1))%nat /\
  (0 < length cs - (Z.to_nat p - 1) - (Z.to_nat p - 1))%nat.
Proof.
  cbv zeta. change (Z.to_nat 2) with 2%nat.
  split; [lia|]. split; [repeat constructor; lra|]. split; [repeat constructor; lra|].
  split; [repeat constructor; lra|]. split; [repeat constructor; lra|]. simpl. lia.
Qed.

(* ========================================================================================== *)
(* Property C15, second part: the theorems, stated directly about the generated definitions (T := R).
   Conventions as in Prim/C15Proofs.v: inputs are bound in the order of the Go signature (highs = EIn 0, lows = EIn 1,
   closings = EIn 2, volumes = EIn 3); P = Z.to_nat p; exempt positions (zero defining denominator) appear as
   hypotheses "... <> 0" on the generated denominator stream at the reported position j. *)

(* 1. Money Flow Index in [0, 100].  Holds for every four input series (no validity hypothesis is needed); the
      exempt positions are those where the negative money-flow sum - the money ratio's denominator - is 0. *)
Theorem C15_Mfi : forall (p : Z) (hs ls cs vs : list R), (1 <= p)%Z ->
  let env := [hs; ls; cs; vs] in
  let out := sem (volume_Mfi_Compute (T:=R) (I:=R) (mk_volume_Mfi mk_trend_TypicalPrice (mk_trend_MovingSum p))
                    (EIn 0) (EIn 1) (EIn 2) (EIn 3)) env in
  let raw := helper_Multiply (trend_TypicalPrice_Compute (T:=R) (I:=R) mk_trend_TypicalPrice (EIn 0) (EIn 1) (EIn 2)) (EIn 3) in
  let flow := helper_Multiply (helper_Sign (helper_Change raw 1)) (ESkip 1 raw) in
  let pos_sum := sem (trend_MovingSum_Compute (T:=R) (I:=R) (mk_trend_MovingSum p) (helper_KeepPositives flow)) env in
  let neg_sum := sem (trend_MovingSum_Compute (T:=R) (I:=R) (mk_trend_MovingSum p)
                        (helper_MultiplyBy (helper_KeepNegatives flow) (IZR (-1)))) env in
  out = map (fun r => Rpow_model (r + IZR 1) (IZR (-1)) * IZR (-100) + IZR 100) (s_op2 Rdiv pos_sum neg_sum) /\
  Forall (fun v => 0 <= v) pos_sum /\ Forall (fun v => 0 <= v) neg_sum /\
  (length ls = length hs -> length cs = length hs -> length vs = length hs ->
   length out = (length hs - 1 - (Z.to_nat p - 1))%nat) /\
  forall j, (j < length out)%nat -> nth j neg_sum 0 <> 0 -> 0 <= nth j out 0 <= 100.
Proof.
  intros p hs ls cs vs Hp env out raw flow pos_sum neg_sum.
  split; [exact (mfi_out_eq p env)|].
  split; [exact (mfi_pos_nonneg p env Hp)|].
  split; [exact (mfi_neg_nonneg p env Hp)|].
  split; [exact (mfi_length p hs ls cs vs Hp)|].
  exact (mfi_range_pos p env Hp).
Qed.
(* model-level only: relies on the totalised real division (x / 0 = 0) where the negative-flow sum is 0 *)
Theorem C15_Mfi_model : forall (p : Z) (hs ls cs vs : list R), (1 <= p)%Z ->
  Forall (fun v => 0 <= v <= 100)
    (sem (volume_Mfi_Compute (T:=R) (I:=R) (mk_volume_Mfi mk_trend_TypicalPrice (mk_trend_MovingSum p))
            (EIn 0) (EIn 1) (EIn 2) (EIn 3)) [hs; ls; cs; vs]).
Proof. intros p hs ls cs vs Hp. exact (mfi_range_model p [hs; ls; cs; vs] Hp). Qed.

(* 2. Chaikin Money Flow in [-1, 1].  Reported position j is input position (P-1)+j, its window the input positions
      j .. j+P-1.  Exempt: windows containing a flat bar (high - low = 0, the multiplier's denominator) and windows of
      zero total volume (the quotient's denominator). *)
Theorem C15_Cmf : forall (p : Z) (hs ls cs vs : list R), (1 <= p)%Z ->
  Forall2 Rle ls cs -> Forall2 Rle cs hs -> length vs = length hs -> Forall (fun v => 0 <= v) vs ->
  let env := [hs; ls; cs; vs] in
  let out := sem (volume_Cmf_Compute (T:=R) (I:=R) (mk_volume_Cmf (mk_volume_Mfv mk_volume_Mfm) (mk_trend_MovingSum p))
                    (EIn 0) (EIn 1) (EIn 2) (EIn 3)) env in
  let volume_sum := sem (trend_MovingSum_Compute (T:=R) (I:=R) (mk_trend_MovingSum p) (EIn 3)) env in
  length out = (length hs - (Z.to_nat p - 1))%nat /\
  forall j, (j < length hs - (Z.to_nat p - 1))%nat ->
    (forall k, (j <= k <= j + (Z.to_nat p - 1))%nat -> nth k hs 0 - nth k ls 0 <> 0) ->
    nth j volume_sum 0 <> 0 ->
    -1 <= nth j out 0 <= 1.
Proof.
  intros p hs ls cs vs Hp Hlc Hch Hlv Hv env out volume_sum. split.
  - exact (cmf_length p hs ls cs vs Hp Hlc Hch Hlv).
  - exact (cmf_range_pos p hs ls cs vs Hp Hlc Hch Hlv Hv).
Qed.
Theorem C15_Cmf_all : forall (p : Z) (hs ls cs vs : list R), (1 <= p)%Z ->
  Forall2 Rle ls cs -> Forall2 Rle cs hs -> Forall2 Rlt ls hs -> length vs = length hs -> Forall (fun v => 0 < v) vs ->
  Forall (fun v => -1 <= v <= 1)
    (sem (volume_Cmf_Compute (T:=R) (I:=R) (mk_volume_Cmf (mk_volume_Mfv mk_volume_Mfm) (mk_trend_MovingSum p))
            (EIn 0) (EIn 1) (EIn 2) (EIn 3)) [hs; ls; cs; vs]).
Proof.
  intros p hs ls cs vs Hp Hlc Hch Hlh Hlv Hvpos.
  assert (Hv : Forall (fun v => 0 <= v) vs).
  { apply Forall_forall. intros x Hx. rewrite Forall_forall in Hvpos. specialize (Hvpos x Hx). simpl in Hvpos. lra. }
  exact (cmf_range_all p hs ls cs vs Hp Hlc Hch Hlv Hv Hlh Hvpos).
Qed.
(* model-level only: relies on x / 0 = 0 on flat bars and on zero-volume windows *)
Theorem C15_Cmf_model : forall (p : Z) (hs ls cs vs : list R), (1 <= p)%Z ->
  Forall2 Rle ls cs -> Forall2 Rle cs hs -> length vs = length hs -> Forall (fun v => 0 <= v) vs ->
  Forall (fun v => -1 <= v <= 1)
    (sem (volume_Cmf_Compute (T:=R) (I:=R) (mk_volume_Cmf (mk_volume_Mfv mk_volume_Mfm) (mk_trend_MovingSum p))
            (EIn 0) (EIn 1) (EIn 2) (EIn 3)) [hs; ls; cs; vs]).
Proof. intros p hs ls cs vs Hp Hlc Hch Hlv Hv. exact (cmf_range_model p hs ls cs vs Hp Hlc Hch Hlv Hv). Qed.

(* 3. Stochastic RSI in [0, 1]; RSI period p, paired MovingMin / MovingMax windows of one size q.  Reported position j
      is RSI position (Q-1)+j; exempt: positions where max RSI - min RSI = 0.
      First form, in the style of C15_StochasticOscillator_K: under the hypothesis (needed by the window-extremum
      characterisation of the earlier MovingMin / MovingMax code; no longer needed, statement kept) that the first q
      RSI values are non-zero - a real restriction, the RSI is exactly 0 while no gain has occurred. *)
Theorem C15_StochasticRsi : forall (p q : Z) (cs : list R), (1 <= q)%Z ->
  let rsi := momentum_Rsi_Compute (T:=R) (I:=R) (mk_momentum_Rsi (mk_trend_Rma p)) (EIn 0) in
  let out := sem (momentum_StochasticRsi_Compute (T:=R) (I:=R)
                    (mk_momentum_StochasticRsi (mk_momentum_Rsi (mk_trend_Rma p)) (mk_trend_MovingMin q) (mk_trend_MovingMax q))
                    (EIn 0)) [cs] in
  let mins := sem (trend_MovingMin_Compute (T:=R) (I:=R) (mk_trend_MovingMin q) rsi) [cs] in
  let maxs := sem (trend_MovingMax_Compute (T:=R) (I:=R) (mk_trend_MovingMax q) rsi) [cs] in
  Forall (fun x => x <> 0) (firstn (Z.to_nat q) (sem rsi [cs])) ->
  length out = (length (sem rsi [cs]) - (Z.to_nat q - 1))%nat /\
  forall j, (j < length (sem rsi [cs]) - (Z.to_nat q - 1))%nat ->
    nth j maxs 0 - nth j mins 0 <> 0 -> 0 <= nth j out 0 <= 1.
Proof.
  intros p q cs Hq rsi out mins maxs Hnz. split.
  - exact (stochrsi_length p q cs Hq Hnz).
  - exact (stochrsi_range_pos p q cs Hq Hnz).
Qed.
(* Second form: no hypothesis on the RSI values at all (MovingMin / MovingMax are the window extrema for all inputs).
   Where the RSI's own denominator (the average loss) is 0 the RSI value is the totalised model's, as in C15_Rsi_model. *)
Theorem C15_StochasticRsi_all_inputs : forall (p q : Z) (cs : list R), (1 <= p)%Z -> (1 <= q)%Z ->
  let rsi := momentum_Rsi_Compute (T:=R) (I:=R) (mk_momentum_Rsi (mk_trend_Rma p)) (EIn 0) in
  let out := sem (momentum_StochasticRsi_Compute (T:=R) (I:=R)
                    (mk_momentum_StochasticRsi (mk_momentum_Rsi (mk_trend_Rma p)) (mk_trend_MovingMin q) (mk_trend_MovingMax q))
                    (EIn 0)) [cs] in
  let mins := sem (trend_MovingMin_Compute (T:=R) (I:=R) (mk_trend_MovingMin q) rsi) [cs] in
  let maxs := sem (trend_MovingMax_Compute (T:=R) (I:=R) (mk_trend_MovingMax q) rsi) [cs] in
  length out = (length cs - 1 - (Z.to_nat p - 1) - (Z.to_nat q - 1))%nat /\
  (forall j, (j < length out)%nat -> nth j mins 0 <= nth (Z.to_nat q - 1 + j) (sem rsi [cs]) 0 <= nth j maxs 0) /\
  forall j, (j < length out)%nat -> nth j maxs 0 - nth j mins 0 <> 0 -> 0 <= nth j out 0 <= 1.
Proof.
  intros p q cs Hp Hq rsi out mins maxs.
  pose proof (stochrsi_length_all p q cs Hp Hq) as L. pose proof (rsi_length p cs Hp) as LR.
  destruct (stochrsi_bracket p q cs Hp Hq) as (_ & _ & HB).
  split; [|split].
  - unfold out. change (length (sem (stochrsi_expr p q) [cs]) = (length cs - 1 - (Z.to_nat p - 1) - (Z.to_nat q - 1))%nat).
    rewrite L, LR. reflexivity.
  - intros j Hj. apply HB. change (j < length (sem (stochrsi_expr p q) [cs]))%nat in Hj. rewrite L in Hj. exact Hj.
  - intros j Hj. apply (stochrsi_range_all_inputs p q cs Hp Hq).
    change (j < length (sem (stochrsi_expr p q) [cs]))%nat in Hj. rewrite L in Hj. exact Hj.
Qed.

(* 4. Keltner channel: lower <= middle <= upper, pointwise as the generated term aligns the three lines.  ATR period p
      (SMA-smoothed, the library's NewAtrWithPeriod), EMA period q, any smoothing constant. *)
Theorem C15_KeltnerChannel : forall (p q : Z) (smoothing : R) (hs ls cs : list R),
  (1 <= p)%Z -> (1 <= q)%Z -> Forall2 Rle ls cs -> Forall2 Rle cs hs ->
  let t := volatility_KeltnerChannel_Compute (T:=R) (I:=R)
             (mk_volatility_KeltnerChannel (volatility_NewAtrWithPeriod p) (mk_trend_Ema q smoothing)) (EIn 0) (EIn 1) (EIn 2) in
  let upper := sem (fst (fst t)) [hs; ls; cs] in let middle := sem (snd (fst t)) [hs; ls; cs] in
  let lower := sem (snd t) [hs; ls; cs] in
  Forall2 Rle lower middle /\ Forall2 Rle middle upper.
Proof. intros p q s hs ls cs Hp Hq Hlc Hch t upper middle lower. exact (keltner_ordered p q s hs ls cs Hp Hq Hlc Hch). Qed.
(* the library's constructor: equal periods, smoothing 2; each line reports length - p values *)
Theorem C15_KeltnerChannel_default : forall (p : Z) (hs ls cs : list R),
  (1 <= p)%Z -> Forall2 Rle ls cs -> Forall2 Rle cs hs ->
  let t := volatility_KeltnerChannel_Compute (T:=R) (I:=R) (volatility_NewKeltnerChannelWithPeriod p) (EIn 0) (EIn 1) (EIn 2) in
  let upper := sem (fst (fst t)) [hs; ls; cs] in let middle := sem (snd (fst t)) [hs; ls; cs] in
  let lower := sem (snd t) [hs; ls; cs] in
  length upper = (length hs - Z.to_nat p)%nat /\ length middle = (length hs - Z.to_nat p)%nat /\
  length lower = (length hs - Z.to_nat p)%nat /\
  Forall2 Rle lower middle /\ Forall2 Rle middle upper.
Proof.
  intros p hs ls cs Hp Hlc Hch t upper middle lower.
  destruct (keltner_lengths p p (IZR 2) hs ls cs Hp Hp Hlc Hch eq_refl) as (L1 & L2 & L3).
  destruct (keltner_ordered p p (IZR 2) hs ls cs Hp Hp Hlc Hch) as (O1 & O2).
  split; [exact L1|]. split; [exact L2|]. split; [exact L3|]. split; [exact O1 | exact O2].
Qed.

(* 5. Acceleration bands: lower <= middle <= upper (positive lows, low <= close <= high) *)
Theorem C15_AccelerationBands : forall (p : Z) (hs ls cs : list R),
  (1 <= p)%Z -> Forall (fun x => 0 < x) ls -> Forall2 Rle ls cs -> Forall2 Rle cs hs ->
  let t := volatility_AccelerationBands_Compute (T:=R) (I:=R) (mk_volatility_AccelerationBands p) (EIn 0) (EIn 1) (EIn 2) in
  let upper := sem (fst (fst t)) [hs; ls; cs] in let middle := sem (snd (fst t)) [hs; ls; cs] in
  let lower := sem (snd t) [hs; ls; cs] in
  length upper = (length hs - (Z.to_nat p - 1))%nat /\ length middle = (length hs - (Z.to_nat p - 1))%nat /\
  length lower = (length hs - (Z.to_nat p - 1))%nat /\
  Forall2 Rle lower middle /\ Forall2 Rle middle upper.
Proof.
  intros p hs ls cs Hp Hpos Hlc Hch t upper middle lower.
  destruct (accb_lengths p hs ls cs Hp Hpos Hlc Hch) as (L1 & L2 & L3).
  destruct (accb_ordered p hs ls cs Hp Hpos Hlc Hch) as (O1 & O2).
  split; [exact L1|]. split; [exact L2|]. split; [exact L3|]. split; [exact O1 | exact O2].
Qed.
Theorem C15_Sma_monotone : forall I (p : Z) (a b : expr I R) env, (1 <= p)%Z ->
  Forall2 Rle (sem a env) (sem b env) ->
  Forall2 Rle (sem (trend_Sma_Compute (T:=R) (I:=I) (mk_trend_Sma p) a) env)
              (sem (trend_Sma_Compute (T:=R) (I:=I) (mk_trend_Sma p) b) env).
Proof. exact @sma_monotone. Qed.

(* 6. Ulcer index >= 0: no hypothesis at all (every reported value is a square root) *)
Theorem C15_UlcerIndex : forall I (p : Z) (e : expr I R) (env : list (list I)),
  Forall (fun v => 0 <= v) (sem (volatility_UlcerIndex_Compute (T:=R) (I:=I) (mk_volatility_UlcerIndex p) e) env).
Proof. exact @ulcer_nonneg. Qed.
Theorem C15_UlcerIndex_length : forall (p : Z) (cs : list R), (1 <= p)%Z -> Forall (fun x => 0 < x) cs ->
  length (sem (volatility_UlcerIndex_Compute (T:=R) (I:=R) (mk_volatility_UlcerIndex p) (EIn 0)) [cs])
  = (length cs - (Z.to_nat p - 1) - (Z.to_nat p - 1))%nat.
Proof. exact ulcer_length. Qed.

Print Assumptions C15_Mfi.
Print Assumptions C15_Mfi_model.
Print Assumptions C15_Cmf.
Print Assumptions C15_Cmf_all.
Print Assumptions C15_Cmf_model.
Print Assumptions C15_StochasticRsi.
Print Assumptions C15_StochasticRsi_all_inputs.
Print Assumptions C15_KeltnerChannel.
Print Assumptions C15_KeltnerChannel_default.
Print Assumptions C15_AccelerationBands.
Print Assumptions C15_UlcerIndex.
Print Assumptions C15_UlcerIndex_length.
