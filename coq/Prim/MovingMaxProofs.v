(* trend.MovingMax / trend.MovingMin (generated [trend_MovingMax_Compute], [trend_MovingMin_Compute]): the binary
   search tree used as a sliding-window multiset yields the window maximum / minimum, for all inputs.
   History: the code used to "remove" the Shift's fill value 0 during the first p steps, which deleted a genuine 0
   among the first p inputs; the theorems then needed "the first p inputs are non-zero".  The code now counts the
   first p steps and does not remove during them; the hypothesis-carrying statements are kept for their users. *)
From Coq Require Import List ZArith Bool Lia Reals Lra Permutation.
Import ListNotations.
From Verif Require Import Base.Num Base.Stream Base.GenPrelude Data.Bst Data.BstProofs Spec.Window Gen.All.

(* ------------------------------------------------------------------------------------------ *)
(* The real comparisons form a decidable total order *)

Lemma total_order_R : total_order R Rleb Rltb Reqb.
Proof.
  unfold total_order. split; [|split; [|split; [|split]]].
  - intros x y. apply Reqb_true.
  - intros x y. unfold Rltb, Rleb, Reqb.
    destruct (Rlt_dec x y), (Rle_dec x y), (Req_EM_T x y); simpl; try reflexivity; lra.
  - intros x y. rewrite !Rleb_true. lra.
  - intros x y z. rewrite !Rleb_true. lra.
  - intros x y. rewrite !Rleb_true. lra.
Qed.

(* list_max / list_min of Data/Bst.v at the real comparisons are Rlist_max / Rlist_min of Spec/Window.v *)

Lemma fold_left_ext_R (f h : R -> R -> R) :
  (forall a b, f a b = h a b) -> forall l a, fold_left f l a = fold_left h l a.
Proof.
  intros E l. induction l as [|b l IH]; intros a; simpl; [reflexivity|].
  rewrite E. apply IH.
Qed.

Lemma list_max_Rlist_max (l : list R) : list_max R 0%R Rleb l = Rlist_max l.
Proof.
  destruct l as [|x l]; [reflexivity|]. unfold list_max, Rlist_max.
  apply fold_left_ext_R. intros a b. unfold Rleb, Rmax. destruct (Rle_dec a b); reflexivity.
Qed.

Lemma list_min_Rlist_min (l : list R) : list_min R 0%R Rleb l = Rlist_min l.
Proof.
  destruct l as [|x l]; [reflexivity|]. unfold list_min, Rlist_min.
  apply fold_left_ext_R. intros a b. rewrite Rmin_comm. unfold Rleb, Rmin.
  destruct (Rle_dec b a); reflexivity.
Qed.

(* ------------------------------------------------------------------------------------------ *)
(* List helpers *)

Lemma skipn_cons_inv {A} (d : A) : forall k (l : list A) x r,
    x :: r = skipn k l -> k < length l /\ x = nth k l d /\ r = skipn (S k) l.
Proof.
  induction k as [|k IH]; intros l x r H.
  - destruct l as [|y l]; simpl in H; [discriminate|]. inversion H; subst.
    simpl. repeat split. lia.
  - destruct l as [|y l]; simpl in H; [discriminate|].
    destruct (IH l x r H) as (H1 & H2 & H3). simpl length. repeat split; [lia | exact H2 | exact H3].
Qed.

Lemma skipn_nth_cons {A} (d : A) : forall k (l : list A),
    k < length l -> skipn k l = nth k l d :: skipn (S k) l.
Proof.
  induction k as [|k IH]; intros l H.
  - destruct l as [|y l]; simpl in H; [lia|]. reflexivity.
  - destruct l as [|y l]; simpl in H; [lia|]. simpl. rewrite (IH l) by lia. reflexivity.
Qed.

Lemma skipn_seq_ : forall n s len, skipn n (seq s len) = seq (s + n) (len - n).
Proof.
  induction n as [|n IH]; intros s len.
  - rewrite Nat.add_0_r, Nat.sub_0_r. reflexivity.
  - destruct len as [|len]; [reflexivity|]. simpl. rewrite IH. f_equal. lia.
Qed.

Lemma nth_In_firstn : forall (P : nat) (l : list R) (j : nat),
    j < P -> j < length l -> In (nth j l 0%R) (firstn P l).
Proof.
  induction P as [|P IH]; intros l j H1 H2; [lia|].
  destruct l as [|y l]; simpl in H2; [lia|].
  destruct j as [|j]; simpl; [left; reflexivity|]. right. apply IH; lia.
Qed.

(* ------------------------------------------------------------------------------------------ *)
(* The fold: insert the new value; once p values have been inserted, remove the value that was new p steps before;
   report g of the tree.  The state is the tree and the number of warm-up steps done. *)

Section Moving.
  Variable xs : list R.
  Variable P : nat.
  Hypothesis HP : 1 <= P.
  Variable g : tree R -> R.
  Variable G : list R -> R.
  Hypothesis gG : forall t m, bst_ok R Rleb t -> Permutation (elements R t) m -> g t = G m.

  (* the last min(k,P) inputs before position k *)
  Definition W (k : nat) : list R := map (at_ xs) (seq (k - P) (Nat.min k P)).

  Definition stepf (st : tree R * Z) : R -> R -> (tree R * Z) * R :=
    let '(t, n) := st in fun c b =>
    let t1 := bst_insert (N:=NumR) c t in
    if Z.ltb n (Z.of_nat P)
    then let n := Z.add n 1%Z in ((t1, n), g t1)
    else let t2 := bst_remove (N:=NumR) b t1 in ((t2, n), g t2).

  Lemma W_small : forall k, k <= P -> W k = map (at_ xs) (seq 0 k).
  Proof.
    intros k H. unfold W. replace (k - P) with 0 by lia. replace (Nat.min k P) with k by lia. reflexivity.
  Qed.

  (* invariant: after k steps the tree holds exactly the last min(k,P) inputs and the counter is min(k,P) *)
  Lemma step_inv : forall k t,
      k < length xs -> bst_ok R Rleb t -> Permutation (elements R t) (W k) ->
      exists t2,
        stepf (t, Z.of_nat (Nat.min k P)) (at_ xs k) (nth k (repeat 0%R P ++ xs) 0%R)
        = ((t2, Z.of_nat (Nat.min (S k) P)), g t2)
        /\ bst_ok R Rleb t2 /\ Permutation (elements R t2) (W (S k)).
  Proof.
    intros k t Hk Hok Hp.
    set (b := nth k (repeat 0%R P ++ xs) 0%R).
    set (x := at_ xs k) in *.
    unfold stepf, bst_insert, bst_remove. cbn [nleb nltb neqb NumR].
    set (t1 := insert R Rleb x t) in *.
    assert (Hok1 : bst_ok R Rleb t1) by (apply (insert_ok R Rleb Rltb Reqb total_order_R); exact Hok).
    assert (Hp1 : Permutation (elements R t1) (x :: W k)).
    { apply Permutation_trans with (x :: elements R t); [apply insert_elements | apply perm_skip; exact Hp]. }
    destruct (Z.ltb_spec (Z.of_nat (Nat.min k P)) (Z.of_nat P)) as [HkP|HkP].
    - (* warm-up: nothing is removed *)
      assert (HkP' : k < P) by lia.
      exists t1. split; [|split].
      + replace (Z.of_nat (Nat.min (S k) P)) with (Z.of_nat (Nat.min k P) + 1)%Z by lia. reflexivity.
      + exact Hok1.
      + rewrite (W_small (S k)) by lia. rewrite seq_S, map_app. rewrite <- (W_small k) by lia.
        apply Permutation_trans with (x :: W k); [exact Hp1 | apply Permutation_cons_append].
    - (* full window: the oldest value is removed *)
      assert (HkP' : P <= k) by lia.
      exists (fst (remove R Rltb Reqb b t1)). split; [|split].
      + replace (Z.of_nat (Nat.min (S k) P)) with (Z.of_nat (Nat.min k P)) by lia. reflexivity.
      + apply (remove_ok R Rleb Rltb Reqb total_order_R); exact Hok1.
      + pose proof (remove_flag R Rltb Reqb b t1) as Hflag.
        pose proof (contains_In R Rleb Rltb Reqb total_order_R b t1 Hok1) as Hcont.
        assert (Hb : b = at_ xs (k - P)).
        { unfold b. rewrite app_nth2 by (rewrite repeat_length; lia). rewrite repeat_length. reflexivity. }
        set (W' := map (at_ xs) (seq (S (k - P)) (P - 1))).
        assert (HW0 : W k = b :: W').
        { unfold W. replace (Nat.min k P) with (S (P - 1)) by lia. rewrite Hb. reflexivity. }
        assert (HW1 : W (S k) = W' ++ [x]).
        { unfold W. replace (Nat.min (S k) P) with (S (P - 1)) by lia.
          replace (S k - P) with (S (k - P)) by lia.
          rewrite seq_S, map_app. unfold W', x. simpl. repeat f_equal. lia. }
        assert (Hin : In b (elements R t1)).
        { apply (Permutation_in _ (Permutation_sym Hp1)). right. rewrite HW0. left. reflexivity. }
        destruct (snd (remove R Rltb Reqb b t1)) eqn:E.
        * pose proof (remove_true R Rleb Rltb Reqb total_order_R b t1 E) as Ht.
          rewrite HW1. apply Permutation_trans with (x :: W'); [|apply Permutation_cons_append].
          apply Permutation_cons_inv with b.
          apply Permutation_trans with (elements R t1); [apply Permutation_sym; exact Ht|].
          apply Permutation_trans with (x :: W k); [exact Hp1|].
          rewrite HW0. apply perm_swap.
        * exfalso. apply Hcont in Hin. rewrite <- Hflag in Hin. congruence.
  Qed.

  Lemma stepf_cons : forall st x a y b,
      s_op2st stepf st (x :: a) (y :: b)
      = snd (stepf st x y) :: s_op2st stepf (fst (stepf st x y)) a b.
  Proof. intros. cbn [s_op2st]. destruct (stepf st x y). reflexivity. Qed.

  Lemma run_from : forall rest k t,
      rest = skipn k xs ->
      bst_ok R Rleb t -> Permutation (elements R t) (W k) ->
      s_op2st stepf (t, Z.of_nat (Nat.min k P)) rest (skipn k (repeat 0%R P ++ xs))
      = map (fun i => G (W (S i))) (seq k (length rest)).
  Proof.
    induction rest as [|x rest IH]; intros k t Hrest Hok Hp; [reflexivity|].
    destruct (skipn_cons_inv 0%R k xs x rest Hrest) as (Hk & Hx & Hrest').
    rewrite (skipn_nth_cons 0%R k (repeat 0%R P ++ xs))
      by (rewrite app_length, repeat_length; lia).
    destruct (step_inv k t Hk Hok Hp) as (t2 & Est & Hok2 & Hp2).
    rewrite stepf_cons. subst x. fold (at_ xs k). rewrite Est. cbn [fst snd].
    simpl length. rewrite <- cons_seq. rewrite map_cons. f_equal.
    - apply gG; [exact Hok2 | exact Hp2].
    - apply IH; [exact Hrest' | exact Hok2 | exact Hp2].
  Qed.

  Lemma run_full :
    s_op2st stepf (Leaf, 0%Z) xs (repeat 0%R P ++ xs)
    = map (fun i => G (W (S i))) (seq 0 (length xs)).
  Proof.
    pose proof (run_from xs 0 Leaf eq_refl I) as H. simpl skipn in H.
    apply H. unfold W; simpl; apply perm_nil.
  Qed.

  Lemma run_all :
    skipn (P - 1) (s_op2st stepf (Leaf, 0%Z) xs (repeat 0%R P ++ xs))
    = map (fun i => G (window P xs i)) (seq (P - 1) (length xs - (P - 1))).
  Proof.
    rewrite run_full.
    rewrite skipn_map, skipn_seq_. simpl.
    apply map_ext_in. intros i Hi. apply in_seq in Hi. f_equal.
    unfold W, window. replace (Nat.min (S i) P) with P by lia.
    replace (S i - P) with (i + 1 - P) by lia. reflexivity.
  Qed.
End Moving.

Lemma tmax_G : forall t m, bst_ok R Rleb t -> Permutation (elements R t) m -> tmax R 0%R t = Rlist_max m.
Proof.
  intros t m Hok Hperm. rewrite <- list_max_Rlist_max.
  apply (tmax_list_max R 0%R Rleb Rltb Reqb total_order_R); assumption.
Qed.

Lemma tmin_G : forall t m, bst_ok R Rleb t -> Permutation (elements R t) m -> tmin R 0%R t = Rlist_min m.
Proof.
  intros t m Hok Hperm. rewrite <- list_min_Rlist_min.
  apply (tmin_list_min R 0%R Rleb Rltb Reqb total_order_R); assumption.
Qed.

(* ------------------------------------------------------------------------------------------ *)
(* The generated code, over an arbitrary input expression and for all inputs *)

Lemma moving_max_sem {I} (p : Z) (e : expr I R) (env : list (list I)) :
  (1 <= p)%Z ->
  sem (trend_MovingMax_Compute (T:=R) (I:=I) (mk_trend_MovingMax p) e) env
  = skipn (Z.to_nat p - 1)
      (s_op2st (stepf (Z.to_nat p) (tmax R 0%R)) (Leaf, 0%Z) (sem e env) (repeat 0%R (Z.to_nat p) ++ sem e env)).
Proof.
  intros Hp.
  replace (Z.to_nat p - 1) with (Z.to_nat (p - 1)) by lia.
  unfold stepf. rewrite (Z2Nat.id p) by lia. reflexivity.
Qed.

Lemma moving_min_sem {I} (p : Z) (e : expr I R) (env : list (list I)) :
  (1 <= p)%Z ->
  sem (trend_MovingMin_Compute (T:=R) (I:=I) (mk_trend_MovingMin p) e) env
  = skipn (Z.to_nat p - 1)
      (s_op2st (stepf (Z.to_nat p) (tmin R 0%R)) (Leaf, 0%Z) (sem e env) (repeat 0%R (Z.to_nat p) ++ sem e env)).
Proof.
  intros Hp.
  replace (Z.to_nat p - 1) with (Z.to_nat (p - 1)) by lia.
  unfold stepf. rewrite (Z2Nat.id p) by lia. reflexivity.
Qed.

Theorem moving_max_is_window_max_expr_all {I} (p : Z) (e : expr I R) (env : list (list I)) :
  (1 <= p)%Z ->
  sem (trend_MovingMax_Compute (T:=R) (I:=I) (mk_trend_MovingMax p) e) env
  = tab (Z.to_nat p - 1) (length (sem e env)) (wmax (Z.to_nat p) (sem e env)).
Proof.
  intros Hp. rewrite moving_max_sem by exact Hp.
  rewrite (run_all (sem e env) (Z.to_nat p) ltac:(lia) (tmax R 0%R) Rlist_max tmax_G). reflexivity.
Qed.

Theorem moving_min_is_window_min_expr_all {I} (p : Z) (e : expr I R) (env : list (list I)) :
  (1 <= p)%Z ->
  sem (trend_MovingMin_Compute (T:=R) (I:=I) (mk_trend_MovingMin p) e) env
  = tab (Z.to_nat p - 1) (length (sem e env)) (wmin (Z.to_nat p) (sem e env)).
Proof.
  intros Hp. rewrite moving_min_sem by exact Hp.
  rewrite (run_all (sem e env) (Z.to_nat p) ltac:(lia) (tmin R 0%R) Rlist_min tmin_G). reflexivity.
Qed.

Theorem moving_max_is_window_max_all (p : Z) (xs : list R) :
  (1 <= p)%Z ->
  sem (trend_MovingMax_Compute (T:=R) (I:=R) (mk_trend_MovingMax p) (EIn 0)) [xs]
  = tab (Z.to_nat p - 1) (length xs) (wmax (Z.to_nat p) xs).
Proof. intros Hp. exact (moving_max_is_window_max_expr_all p (EIn 0) [xs] Hp). Qed.

Theorem moving_min_is_window_min_all (p : Z) (xs : list R) :
  (1 <= p)%Z ->
  sem (trend_MovingMin_Compute (T:=R) (I:=R) (mk_trend_MovingMin p) (EIn 0)) [xs]
  = tab (Z.to_nat p - 1) (length xs) (wmin (Z.to_nat p) xs).
Proof. intros Hp. exact (moving_min_is_window_min_expr_all p (EIn 0) [xs] Hp). Qed.

(* The earlier statements, with the non-zero hypothesis that the old code needed (kept for their users) *)

Theorem moving_max_is_window_max (p : Z) (xs : list R) :
  (1 <= p)%Z -> Forall (fun x => x <> 0%R) (firstn (Z.to_nat p) xs) ->
  sem (trend_MovingMax_Compute (T:=R) (I:=R) (mk_trend_MovingMax p) (EIn 0)) [xs]
  = tab (Z.to_nat p - 1) (length xs) (wmax (Z.to_nat p) xs).
Proof. intros Hp _. exact (moving_max_is_window_max_all p xs Hp). Qed.

Theorem moving_min_is_window_min (p : Z) (xs : list R) :
  (1 <= p)%Z -> Forall (fun x => x <> 0%R) (firstn (Z.to_nat p) xs) ->
  sem (trend_MovingMin_Compute (T:=R) (I:=R) (mk_trend_MovingMin p) (EIn 0)) [xs]
  = tab (Z.to_nat p - 1) (length xs) (wmin (Z.to_nat p) xs).
Proof. intros Hp _. exact (moving_min_is_window_min_all p xs Hp). Qed.
