(* trend.MovingMax / trend.MovingMin (generated [trend_MovingMax_Compute], [trend_MovingMin_Compute]): the binary
   search tree used as a sliding-window multiset yields the window maximum / minimum, provided the first p inputs
   are non-zero (the fill value 0 of the Shift is "removed" during the first p steps, which deletes a genuine 0). *)
From Coq Require Import List ZArith Bool Lia Reals Lra Permutation.
Import ListNotations.
From Verif Require Import Base.Num Base.Stream Base.GenPrelude Data.Bst Data.BstProofs Spec.Window Gen.All.

(* ------------------------------------------------------------------------------------------ *)
(* The real comparisons form a decidable total order *)

Lemma total_order_R : total_order R Rleb Rltb Reqb.
Proof.
  unfold total_order. split; [|split; [|split; [|split]]].
  - intros x y. apply Reqb_true.
  - intros x y. unfold Rltb, Rleb, Reqb.
    destruct (Rlt_dec x y), (Rle_dec x y), (Req_EM_T x y); simpl; try reflexivity; lra.
  - intros x y. rewrite !Rleb_true. lra.
  - intros x y z. rewrite !Rleb_true. lra.
  - intros x y. rewrite !Rleb_true. lra.
Qed.

(* list_max / list_min of Data/Bst.v at the real comparisons are Rlist_max / Rlist_min of Spec/Window.v *)

Lemma fold_left_ext_R (f h : R -> R -> R) :
  (forall a b, f a b = h a b) -> forall l a, fold_left f l a = fold_left h l a.
Proof.
  intros E l. induction l as [|b l IH]; intros a; simpl; [reflexivity|].
  rewrite E. apply IH.
Qed.

Lemma list_max_Rlist_max (l : list R) : list_max R 0%R Rleb l = Rlist_max l.
Proof.
  destruct l as [|x l]; [reflexivity|]. unfold list_max, Rlist_max.
  apply fold_left_ext_R. intros a b. unfold Rleb, Rmax. destruct (Rle_dec a b); reflexivity.
Qed.

Lemma list_min_Rlist_min (l : list R) : list_min R 0%R Rleb l = Rlist_min l.
Proof.
  destruct l as [|x l]; [reflexivity|]. unfold list_min, Rlist_min.
  apply fold_left_ext_R. intros a b. rewrite Rmin_comm. unfold Rleb, Rmin.
  destruct (Rle_dec b a); reflexivity.
Qed.

(* ------------------------------------------------------------------------------------------ *)
(* List helpers *)

Lemma skipn_cons_inv {A} (d : A) : forall k (l : list A) x r,
    x :: r = skipn k l -> k < length l /\ x = nth k l d /\ r = skipn (S k) l.
Proof.
  induction k as [|k IH]; intros l x r H.
  - destruct l as [|y l]; simpl in H; [discriminate|]. inversion H; subst.
    simpl. repeat split. lia.
  - destruct l as [|y l]; simpl in H; [discriminate|].
    destruct (IH l x r H) as (H1 & H2 & H3). simpl length. repeat split; [lia | exact H2 | exact H3].
Qed.

Lemma skipn_nth_cons {A} (d : A) : forall k (l : list A),
    k < length l -> skipn k l = nth k l d :: skipn (S k) l.
Proof.
  induction k as [|k IH]; intros l H.
  - destruct l as [|y l]; simpl in H; [lia|]. reflexivity.
  - destruct l as [|y l]; simpl in H; [lia|]. simpl. rewrite (IH l) by lia. reflexivity.
Qed.

Lemma skipn_seq_ : forall n s len, skipn n (seq s len) = seq (s + n) (len - n).
Proof.
  induction n as [|n IH]; intros s len.
  - rewrite Nat.add_0_r, Nat.sub_0_r. reflexivity.
  - destruct len as [|len]; [reflexivity|]. simpl. rewrite IH. f_equal. lia.
Qed.

Lemma nth_In_firstn : forall (P : nat) (l : list R) (j : nat),
    j < P -> j < length l -> In (nth j l 0%R) (firstn P l).
Proof.
  induction P as [|P IH]; intros l j H1 H2; [lia|].
  destruct l as [|y l]; simpl in H2; [lia|].
  destruct j as [|j]; simpl; [left; reflexivity|]. right. apply IH; lia.
Qed.

(* ------------------------------------------------------------------------------------------ *)
(* The fold: insert the new value, remove the value that was new p steps before, report g of the tree. *)

Section Moving.
  Variable xs : list R.
  Variable P : nat.
  Hypothesis HP : 1 <= P.
  Hypothesis Hnz : Forall (fun x => x <> 0%R) (firstn P xs).
  Variable g : tree R -> R.
  Variable G : list R -> R.
  Hypothesis gG : forall t m, bst_ok R Rleb t -> Permutation (elements R t) m -> g t = G m.

  (* the last min(k,P) inputs before position k *)
  Definition W (k : nat) : list R := map (at_ xs) (seq (k - P) (Nat.min k P)).

  Definition stepf (t : tree R) (c b : R) : tree R * R :=
    let t1 := bst_insert (N:=NumR) c t in
    let t2 := bst_remove (N:=NumR) b t1 in (t2, g t2).

  Lemma at_nonzero : forall j, j < P -> j < length xs -> at_ xs j <> 0%R.
  Proof.
    intros j H1 H2. rewrite Forall_forall in Hnz. apply Hnz. unfold at_. apply nth_In_firstn; assumption.
  Qed.

  Lemma W_small : forall k, k <= P -> W k = map (at_ xs) (seq 0 k).
  Proof.
    intros k H. unfold W. replace (k - P) with 0 by lia. replace (Nat.min k P) with k by lia. reflexivity.
  Qed.

  Lemma W_small_nonzero : forall k, k <= P -> k <= length xs -> ~ In 0%R (W k).
  Proof.
    intros k H1 H2 Hin. rewrite (W_small k H1) in Hin. apply in_map_iff in Hin.
    destruct Hin as (j & Hj & Hin). apply in_seq in Hin. apply (at_nonzero j); [lia | lia | exact Hj].
  Qed.

  Lemma step_inv : forall k t,
      k < length xs -> bst_ok R Rleb t -> Permutation (elements R t) (W k) ->
      let b := nth k (repeat 0%R P ++ xs) 0%R in
      let t2 := fst (remove R Rltb Reqb b (insert R Rleb (at_ xs k) t)) in
      bst_ok R Rleb t2 /\ Permutation (elements R t2) (W (S k)).
  Proof.
    intros k t Hk Hok Hp b t2.
    set (x := at_ xs k) in *.
    set (t1 := insert R Rleb x t) in *.
    assert (Hok1 : bst_ok R Rleb t1) by (apply (insert_ok R Rleb Rltb Reqb total_order_R); exact Hok).
    assert (Hp1 : Permutation (elements R t1) (x :: W k)).
    { apply Permutation_trans with (x :: elements R t); [apply insert_elements | apply perm_skip; exact Hp]. }
    split; [apply (remove_ok R Rleb Rltb Reqb total_order_R); exact Hok1|].
    pose proof (remove_flag R Rltb Reqb b t1) as Hflag.
    pose proof (contains_In R Rleb Rltb Reqb total_order_R b t1 Hok1) as Hcont.
    destruct (Nat.lt_ge_cases k P) as [HkP|HkP].
    - (* warm-up: the fill value 0 is removed, and it is not in the tree *)
      assert (Hb : b = 0%R).
      { unfold b. rewrite app_nth1 by (rewrite repeat_length; exact HkP). apply nth_repeat. }
      assert (HW : W (S k) = W k ++ [x]).
      { rewrite !W_small by lia. rewrite seq_S, map_app. reflexivity. }
      assert (Hnot : ~ In b (elements R t1)).
      { intros Hin. rewrite Hb in Hin. apply (Permutation_in _ Hp1) in Hin.
        apply (W_small_nonzero (S k)); [lia | lia |]. rewrite HW. apply in_or_app.
        destruct Hin as [Hin|Hin]; [right; left; exact Hin | left; exact Hin]. }
      destruct (snd (remove R Rltb Reqb b t1)) eqn:E.
      + exfalso. apply Hnot. apply Hcont. symmetry. exact Hflag.
      + unfold t2. rewrite (remove_false R Rltb Reqb b t1 E). rewrite HW.
        apply Permutation_trans with (x :: W k); [exact Hp1 | apply Permutation_cons_append].
    - (* full window: the oldest value is removed *)
      assert (Hb : b = at_ xs (k - P)).
      { unfold b. rewrite app_nth2 by (rewrite repeat_length; lia). rewrite repeat_length. reflexivity. }
      set (W' := map (at_ xs) (seq (S (k - P)) (P - 1))).
      assert (HW0 : W k = b :: W').
      { unfold W. replace (Nat.min k P) with (S (P - 1)) by lia. rewrite Hb. reflexivity. }
      assert (HW1 : W (S k) = W' ++ [x]).
      { unfold W. replace (Nat.min (S k) P) with (S (P - 1)) by lia.
        replace (S k - P) with (S (k - P)) by lia.
        rewrite seq_S, map_app. unfold W', x. simpl. repeat f_equal. lia. }
      assert (Hin : In b (elements R t1)).
      { apply (Permutation_in _ (Permutation_sym Hp1)). right. rewrite HW0. left. reflexivity. }
      destruct (snd (remove R Rltb Reqb b t1)) eqn:E.
      + pose proof (remove_true R Rleb Rltb Reqb total_order_R b t1 E) as Ht. fold t2 in Ht.
        rewrite HW1. apply Permutation_trans with (x :: W'); [|apply Permutation_cons_append].
        apply Permutation_cons_inv with b.
        apply Permutation_trans with (elements R t1); [apply Permutation_sym; exact Ht|].
        apply Permutation_trans with (x :: W k); [exact Hp1|].
        rewrite HW0. apply perm_swap.
      + exfalso. apply Hcont in Hin. rewrite <- Hflag in Hin. congruence.
  Qed.

  Lemma stepf_cons : forall t x a y b,
      s_op2st stepf t (x :: a) (y :: b)
      = g (fst (remove R Rltb Reqb y (insert R Rleb x t)))
          :: s_op2st stepf (fst (remove R Rltb Reqb y (insert R Rleb x t))) a b.
  Proof. reflexivity. Qed.

  Lemma run_from : forall rest k t,
      rest = skipn k xs ->
      bst_ok R Rleb t -> Permutation (elements R t) (W k) ->
      s_op2st stepf t rest (skipn k (repeat 0%R P ++ xs))
      = map (fun i => G (W (S i))) (seq k (length rest)).
  Proof.
    induction rest as [|x rest IH]; intros k t Hrest Hok Hp; [reflexivity|].
    destruct (skipn_cons_inv 0%R k xs x rest Hrest) as (Hk & Hx & Hrest').
    rewrite (skipn_nth_cons 0%R k (repeat 0%R P ++ xs))
      by (rewrite app_length, repeat_length; lia).
    destruct (step_inv k t Hk Hok Hp) as [Hok2 Hp2].
    rewrite stepf_cons. simpl length. rewrite <- cons_seq. rewrite map_cons. f_equal.
    - subst x. apply gG; [exact Hok2 | exact Hp2].
    - subst x. apply IH; [exact Hrest' | exact Hok2 | exact Hp2].
  Qed.

  Lemma run_all :
    skipn (P - 1) (s_op2st stepf Leaf xs (repeat 0%R P ++ xs))
    = map (fun i => G (window P xs i)) (seq (P - 1) (length xs - (P - 1))).
  Proof.
    pose proof (run_from xs 0 Leaf eq_refl I) as H. simpl skipn in H.
    rewrite H by (unfold W; simpl; apply perm_nil).
    rewrite skipn_map, skipn_seq_. simpl.
    apply map_ext_in. intros i Hi. apply in_seq in Hi. f_equal.
    unfold W, window. replace (Nat.min (S i) P) with P by lia.
    replace (S i - P) with (i + 1 - P) by lia. reflexivity.
  Qed.
End Moving.

(* ------------------------------------------------------------------------------------------ *)
(* The generated code *)

Theorem moving_max_is_window_max (p : Z) (xs : list R) :
  (1 <= p)%Z -> Forall (fun x => x <> 0%R) (firstn (Z.to_nat p) xs) ->
  sem (trend_MovingMax_Compute (T:=R) (I:=R) (mk_trend_MovingMax p) (EIn 0)) [xs]
  = tab (Z.to_nat p - 1) (length xs) (wmax (Z.to_nat p) xs).
Proof.
  intros Hp Hnz.
  change (sem (trend_MovingMax_Compute (T:=R) (I:=R) (mk_trend_MovingMax p) (EIn 0)) [xs])
    with (skipn (Z.to_nat (p - 1))
            (s_op2st (stepf (tmax R 0%R)) Leaf xs (repeat 0%R (Z.to_nat p) ++ xs))).
  replace (Z.to_nat (p - 1)) with (Z.to_nat p - 1) by lia.
  rewrite (run_all xs (Z.to_nat p) ltac:(lia) Hnz (tmax R 0%R) Rlist_max).
  - reflexivity.
  - intros t m Hok Hperm. rewrite <- list_max_Rlist_max.
    apply (tmax_list_max R 0%R Rleb Rltb Reqb total_order_R); assumption.
Qed.

Theorem moving_min_is_window_min (p : Z) (xs : list R) :
  (1 <= p)%Z -> Forall (fun x => x <> 0%R) (firstn (Z.to_nat p) xs) ->
  sem (trend_MovingMin_Compute (T:=R) (I:=R) (mk_trend_MovingMin p) (EIn 0)) [xs]
  = tab (Z.to_nat p - 1) (length xs) (wmin (Z.to_nat p) xs).
Proof.
  intros Hp Hnz.
  change (sem (trend_MovingMin_Compute (T:=R) (I:=R) (mk_trend_MovingMin p) (EIn 0)) [xs])
    with (skipn (Z.to_nat (p - 1))
            (s_op2st (stepf (tmin R 0%R)) Leaf xs (repeat 0%R (Z.to_nat p) ++ xs))).
  replace (Z.to_nat (p - 1)) with (Z.to_nat p - 1) by lia.
  rewrite (run_all xs (Z.to_nat p) ltac:(lia) Hnz (tmin R 0%R) Rlist_min).
  - reflexivity.
  - intros t m Hok Hperm. rewrite <- list_min_Rlist_min.
    apply (tmin_list_min R 0%R Rleb Rltb Reqb total_order_R); assumption.
Qed.

(* ------------------------------------------------------------------------------------------ *)
(* The non-zero hypothesis matters: p = 3, xs = [0; 5; 7; 8]: the code gives [5; 5], the window minimum is [0; 5]. *)

Ltac dec_step :=
  match goal with
  | |- context [Rle_dec ?a ?b] => destruct (Rle_dec a b); [try (exfalso; lra) | try (exfalso; lra)]
  | |- context [Rlt_dec ?a ?b] => destruct (Rlt_dec a b); [try (exfalso; lra) | try (exfalso; lra)]
  | |- context [Req_EM_T ?a ?b] => destruct (Req_EM_T a b); [try (exfalso; lra) | try (exfalso; lra)]
  end.

Theorem moving_min_zero_refuted :
  exists (p : Z) (xs : list R),
    (1 <= p)%Z /\
    sem (trend_MovingMin_Compute (T:=R) (I:=R) (mk_trend_MovingMin p) (EIn 0)) [xs]
    <> tab (Z.to_nat p - 1) (length xs) (wmin (Z.to_nat p) xs).
Proof.
  exists 3%Z, [0; 5; 7; 8]%R. split; [lia|].
  assert (E : sem (trend_MovingMin_Compute (T:=R) (I:=R) (mk_trend_MovingMin 3) (EIn 0)) [[0; 5; 7; 8]%R]
              = [5; 5]%R).
  { cbv [sem trend_MovingMin_Compute trend_MovingMin_Period nth s_skip s_shift].
    change (Z.to_nat (3 - 1)) with 2%nat. change (Z.to_nat 3) with 3%nat.
    cbn [repeat app skipn s_op2st].
    cbv [bst_insert bst_remove bst_min bst_empty nleb nltb neqb nzero nofZ NumR Rleb Rltb Reqb].
    cbn [insert remove fst snd remove_root tmin leftmost].
    repeat (dec_step; cbn [insert remove fst snd remove_root tmin leftmost pop_min]).
    reflexivity. }
  rewrite E. cbv [tab wmin window Rlist_min]. simpl.
  unfold at_; simpl. unfold Rmin. repeat dec_step; intros H; inversion H; lra.
Qed.
