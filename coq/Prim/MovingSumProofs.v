(* Moving sum and simple moving average equal the documented window formulas (real-number instance). *)
From Coq Require Import Reals Lra Lia List ZArith.
Import ListNotations.
From Verif Require Import Base.Num Base.Stream Base.StreamProofs Base.GenPrelude Gen.All Spec.Window.
Local Open Scope R_scope.

(* ------------------------------------------------------------------------------------------ *)
(* Sums *)

Lemma Rsum_cons (x : R) (a : list R) : Rsum (x :: a) = x + Rsum a.
Proof. reflexivity. Qed.

Lemma Rsum_nil : Rsum [] = 0.
Proof. reflexivity. Qed.

Arguments Rsum : simpl never.

Lemma Rsum_app (a b : list R) : Rsum (a ++ b) = Rsum a + Rsum b.
Proof.
  induction a as [|x a IHa]; simpl.
  - rewrite Rsum_nil. lra.
  - rewrite !Rsum_cons, IHa. lra.
Qed.

Lemma Rsum_repeat0 (n : nat) : Rsum (repeat 0 n) = 0.
Proof.
  induction n as [|n IHn]; simpl.
  - reflexivity.
  - rewrite Rsum_cons, IHn. lra.
Qed.

(* prefix sums through positions *)
Lemma Rsum_firstn_seq (xs : list R) : forall n : nat,
  Rsum (firstn n xs) = Rsum (map (at_ xs) (seq 0 n)).
Proof.
  induction xs as [|x xs IHxs]; intros n.
  - rewrite firstn_nil.
    assert (Hz : forall (l : list nat), Rsum (map (at_ []) l) = 0).
    { induction l as [|k l IHl]; simpl; [reflexivity|].
      rewrite Rsum_cons, IHl. unfold at_. destruct k; simpl; lra. }
    rewrite Hz. reflexivity.
  - destruct n as [|n].
    + reflexivity.
    + rewrite firstn_cons. rewrite Rsum_cons.
      change (seq 0 (S n)) with (0%nat :: seq 1 n).
      rewrite map_cons, Rsum_cons.
      rewrite <- seq_shift, map_map.
      rewrite IHxs.
      unfold at_ at 1. simpl nth.
      f_equal.
Qed.

Lemma Rsum_firstn_split (xs : list R) (n k : nat) :
  Rsum (firstn (n + k) xs) = Rsum (firstn n xs) + Rsum (map (at_ xs) (seq n k)).
Proof.
  rewrite !Rsum_firstn_seq.
  rewrite seq_app, map_app, Rsum_app. reflexivity.
Qed.

Lemma wsum_prefix_diff (p : nat) (xs : list R) (i : nat) :
  (p <= i + 1)%nat ->
  wsum p xs i = Rsum (firstn (S i) xs) - Rsum (firstn (S i - p) xs).
Proof.
  intros Hp. unfold wsum, window.
  replace (S i) with ((i + 1 - p) + p)%nat at 1 by lia.
  rewrite Rsum_firstn_split.
  replace (S i - p)%nat with (i + 1 - p)%nat by lia.
  lra.
Qed.

(* ------------------------------------------------------------------------------------------ *)
(* The running-sum loop *)

Definition msstep (s c b : R) : R * R := let s' := s + c - b in (s', s').

Lemma run_nth : forall (a b : list R) (s : R) (i : nat),
  (i < length a)%nat -> (i < length b)%nat ->
  nth i (s_op2st msstep s a b) 0 = s + Rsum (firstn (S i) a) - Rsum (firstn (S i) b).
Proof.
  induction a as [|x a IHa]; intros b s i Ha Hb.
  - simpl in Ha. lia.
  - destruct b as [|y b]; [simpl in Hb; lia|].
    simpl s_op2st. unfold msstep at 1. cbv zeta.
    destruct i as [|i].
    + simpl. rewrite !Rsum_cons, !Rsum_nil. lra.
    + simpl nth. rewrite IHa by (simpl in Ha, Hb; lia).
      rewrite (firstn_cons (S i) x a), (firstn_cons (S i) y b), !Rsum_cons. lra.
Qed.

Lemma nth_skipn_R (k i : nat) (l : list R) : nth i (skipn k l) 0 = nth (k + i) l 0.
Proof.
  revert l. induction k as [|k IHk]; intros l.
  - reflexivity.
  - destruct l as [|x l].
    + simpl. destruct i; reflexivity.
    + simpl. apply IHk.
Qed.

Lemma firstn_repeat_app (p n : nat) (xs : list R) :
  (p <= n)%nat ->
  Rsum (firstn n (repeat 0 p ++ xs)) = Rsum (firstn (n - p) xs).
Proof.
  intros Hp.
  rewrite firstn_app, repeat_length.
  rewrite firstn_all2 by (rewrite repeat_length; lia).
  rewrite Rsum_app, Rsum_repeat0. lra.
Qed.

(* the list-level statement *)
Lemma moving_sum_list (p : Z) (xs : list R) :
  (1 <= p)%Z ->
  s_skip (p - 1) (s_op2st msstep 0 xs (s_shift p 0 xs))
  = tab (Z.to_nat p - 1) (length xs) (wsum (Z.to_nat p) xs).
Proof.
  intros Hp.
  unfold s_skip, s_shift, tab.
  replace (Z.to_nat (p - 1)) with (Z.to_nat p - 1)%nat by lia.
  set (n := Z.to_nat p).
  assert (Hn : (1 <= n)%nat) by (unfold n; lia).
  assert (Hlen : length (s_op2st msstep 0 xs (repeat 0 n ++ xs)) = length xs).
  { rewrite s_op2st_length, app_length, repeat_length. lia. }
  apply (nth_ext _ _ 0 (wsum n xs 0%nat)).
  - rewrite skipn_length, Hlen, map_length, seq_length. reflexivity.
  - intros i Hi.
    rewrite skipn_length, Hlen in Hi.
    rewrite nth_skipn_R.
    rewrite run_nth by (try rewrite app_length, repeat_length; lia).
    rewrite (map_nth (wsum n xs)).
    rewrite seq_nth by lia.
    rewrite wsum_prefix_diff by lia.
    rewrite firstn_repeat_app by lia.
    lra.
Qed.

(* ------------------------------------------------------------------------------------------ *)
(* The generated definitions *)

Lemma sem_moving_sum {I} (p : Z) (e : expr I R) (env : list (list I)) :
  sem (trend_MovingSum_Compute (T:=R) (I:=I) (mk_trend_MovingSum p) e) env
  = s_skip (p - 1) (s_op2st msstep 0 (sem e env) (s_shift p 0 (sem e env))).
Proof. reflexivity. Qed.

Lemma sem_sma {I} (p : Z) (e : expr I R) (env : list (list I)) :
  sem (trend_Sma_Compute (T:=R) (I:=I) (mk_trend_Sma p) e) env
  = map (fun s => s / IZR p)
        (sem (trend_MovingSum_Compute (T:=R) (I:=I) (mk_trend_MovingSum p) e) env).
Proof. reflexivity. Qed.

(* 1'. arbitrary input expression *)
Theorem moving_sum_is_window_sum_expr {I} (p : Z) (e : expr I R) (env : list (list I)) :
  (1 <= p)%Z ->
  sem (trend_MovingSum_Compute (T:=R) (I:=I) (mk_trend_MovingSum p) e) env
  = tab (Z.to_nat p - 1) (length (sem e env)) (wsum (Z.to_nat p) (sem e env)).
Proof.
  intros Hp. rewrite sem_moving_sum. apply moving_sum_list. exact Hp.
Qed.

(* 2'. arbitrary input expression *)
Theorem sma_is_window_mean_expr {I} (p : Z) (e : expr I R) (env : list (list I)) :
  (1 <= p)%Z ->
  sem (trend_Sma_Compute (T:=R) (I:=I) (mk_trend_Sma p) e) env
  = tab (Z.to_nat p - 1) (length (sem e env)) (wmean (Z.to_nat p) (sem e env)).
Proof.
  intros Hp. rewrite sem_sma, moving_sum_is_window_sum_expr by exact Hp.
  unfold tab. rewrite map_map.
  apply map_ext. intros i. unfold wmean.
  rewrite INR_IZR_INZ, Z2Nat.id by lia. reflexivity.
Qed.

(* 1. the running-sum implementation equals the window sum *)
Theorem moving_sum_is_window_sum (p : Z) (xs : list R) :
  (1 <= p)%Z ->
  sem (trend_MovingSum_Compute (T:=R) (I:=R) (mk_trend_MovingSum p) (EIn 0)) [xs]
  = tab (Z.to_nat p - 1) (length xs) (wsum (Z.to_nat p) xs).
Proof.
  intros Hp. exact (moving_sum_is_window_sum_expr p (EIn 0) [xs] Hp).
Qed.

(* 2. SMA = window mean *)
Theorem sma_is_window_mean (p : Z) (xs : list R) :
  (1 <= p)%Z ->
  sem (trend_Sma_Compute (T:=R) (I:=R) (mk_trend_Sma p) (EIn 0)) [xs]
  = tab (Z.to_nat p - 1) (length xs) (wmean (Z.to_nat p) xs).
Proof.
  intros Hp. exact (sma_is_window_mean_expr p (EIn 0) [xs] Hp).
Qed.

Print Assumptions moving_sum_is_window_sum.
Print Assumptions sma_is_window_mean.
