(* Property C18 - unit independence, continued (Prim/C18Proofs.v holds the generic theorem [escal_sound] and the first
   36 instances).  Here:
   - Part 1: scaling facts about the captured data structures (helper.Bst, the Wma ring);
   - Part 2: further transport lemmas (moving max/min, Since, Sign, true range, Wma/Hma, least squares, SuperTrend's
     state machine, interface-typed moving averages [ma_hom]);
   - Part 3: the instances C18_<Indicator> for the remaining trend / momentum / volatility / volume indicators;
   - Part 4: the strategies (actions invariant), the decorators Inverse / NoLoss / StopLoss and the combinators
     And / Or / Majority / Split over invariant inner strategies ([strat_inv]). *)
From Coq Require Import List ZArith Bool Lia Reals Lra.
Import ListNotations.
From Verif Require Import Base.Num Base.Stream Base.GenPrelude Data.Bst Gen.All Prim.C18Proofs.

Set Implicit Arguments.
Local Open Scope R_scope.

(* ========================================================================================== *)
(* Part 1: scaling facts about the reals and about the captured data structures *)

Lemma Reqb_scale k a b : k <> 0 -> Reqb (k * a) (k * b) = Reqb a b.
Proof.
  intros Hk. destruct (Reqb a b) eqn:E.
  - apply Reqb_true in E. apply Reqb_true. now subst.
  - destruct (Reqb (k * a) (k * b)) eqn:E'; auto.
    apply Reqb_true in E'. apply Rmult_eq_reg_l in E'; auto. apply Reqb_true in E'. congruence.
Qed.
Lemma Reqb_scale_0r k a : k <> 0 -> Reqb (k * a) 0 = Reqb a 0.
Proof. intros Hk. rewrite <- (Reqb_scale a 0 Hk). now rewrite Rmult_0_r. Qed.
Lemma Reqb_scale_0l k a : k <> 0 -> Reqb 0 (k * a) = Reqb 0 a.
Proof. intros Hk. rewrite <- (Reqb_scale 0 a Hk). now rewrite Rmult_0_r. Qed.
Lemma Rleb_scale_0r k a : 0 < k -> Rleb (k * a) 0 = Rleb a 0.
Proof. intros Hk. rewrite <- (Rleb_scale a 0 Hk). now rewrite Rmult_0_r. Qed.
Lemma Rleb_scale_0l k a : 0 < k -> Rleb 0 (k * a) = Rleb 0 a.
Proof. intros Hk. rewrite <- (Rleb_scale 0 a Hk). now rewrite Rmult_0_r. Qed.

(* all comparisons between quantities of the same degree, and against 0, are invariant *)
Ltac cmp_norm Hk :=
  unfold ngtb, ngeb, nneb; simpl;
  rewrite <- ?Rmult_plus_distr_l, <- ?Rmult_minus_distr_l;
  rewrite ?(fun a b => Rltb_scale a b Hk), ?(fun a b => Rleb_scale a b Hk),
          ?(fun a => Rltb_scale_0r a Hk), ?(fun a => Rltb_scale_0l a Hk),
          ?(fun a => Rleb_scale_0r a Hk), ?(fun a => Rleb_scale_0l a Hk),
          ?(fun a b => @Reqb_scale _ a b (Rgt_not_eq _ _ Hk)),
          ?(fun a => @Reqb_scale_0r _ a (Rgt_not_eq _ _ Hk)), ?(fun a => @Reqb_scale_0l _ a (Rgt_not_eq _ _ Hk)).
Ltac cmp_tac Hk := intros; unfold sc in *; subst; cmp_norm Hk; auto.

(* ---- helper.Bst under a positive rescaling of its keys ---- *)
Fixpoint tmap (k : R) (t : tree R) : tree R :=
  match t with Leaf => Leaf | Node l v r => Node (tmap k l) (k * v) (tmap k r) end.
Definition tree_sc (k : R) (t1 t2 : bst R) : Prop := t2 = tmap k t1.

Lemma insert_scale k x t : 0 < k -> insert R Rleb (k * x) (tmap k t) = tmap k (insert R Rleb x t).
Proof.
  intros Hk. induction t; simpl; auto. rewrite Rleb_scale; auto.
  destruct (Rleb x v); simpl; congruence.
Qed.
Lemma pop_min_scale k : forall l v r,
  pop_min R (tmap k l) (k * v) (tmap k r) = (k * fst (pop_min R l v r), tmap k (snd (pop_min R l v r))).
Proof.
  induction l; intros v0 r0; simpl; auto.
  rewrite IHl1. destruct (pop_min R l1 v l2); reflexivity.
Qed.
Lemma remove_root_scale k l r : remove_root R (tmap k l) (tmap k r) = tmap k (remove_root R l r).
Proof.
  destruct l; destruct r; simpl; auto.
  rewrite pop_min_scale. destruct (pop_min R r1 v0 r2); reflexivity.
Qed.
Lemma remove_scale k x t : 0 < k ->
  fst (remove R Rltb Reqb (k * x) (tmap k t)) = tmap k (fst (remove R Rltb Reqb x t)).
Proof.
  intros Hk. induction t; simpl; auto.
  rewrite Reqb_scale, Rltb_scale; auto; try lra.
  destruct (Reqb x v); simpl. apply remove_root_scale.
  destruct (Rltb x v).
  - destruct (remove R Rltb Reqb (k * x) (tmap k t1)); destruct (remove R Rltb Reqb x t1); simpl in *; congruence.
  - destruct (remove R Rltb Reqb (k * x) (tmap k t2)); destruct (remove R Rltb Reqb x t2); simpl in *; congruence.
Qed.
Lemma leftmost_scale k : forall l v, leftmost R (k * v) (tmap k l) = k * leftmost R v l.
Proof. induction l; intros; simpl; auto. Qed.
Lemma rightmost_scale k : forall r v, rightmost R (k * v) (tmap k r) = k * rightmost R v r.
Proof. induction r; intros; simpl; auto. Qed.
Lemma tmin_scale k t : tmin R 0 (tmap k t) = k * tmin R 0 t.
Proof. destruct t; simpl. ring. apply leftmost_scale. Qed.
Lemma tmax_scale k t : tmax R 0 (tmap k t) = k * tmax R 0 t.
Proof. destruct t; simpl. ring. apply rightmost_scale. Qed.

(* ---- trend/wma.go: the ring and the weighted sum ---- *)
Lemma wma_sum_scale k p : forall win i s,
  wma_sum p i (map (Rmult k) win) (k * s) = k * wma_sum p i win s.
Proof.
  induction win; intros; simpl; auto.
  rewrite <- IHwin. f_equal. unfold Rdiv. ring.
Qed.
Lemma ring_push_scale k p win x :
  ring_push p (map (Rmult k) win) (k * x) = map (Rmult k) (ring_push p win x).
Proof.
  unfold ring_push. rewrite map_length, map_app. simpl.
  destruct (Nat.eqb (length win) (Z.to_nat p)); auto. destruct win; auto.
Qed.

(* ========================================================================================== *)
(* Part 2: transport lemmas *)

(* interface-typed components: what is asked of a moving average / of a strategy plugged into a composite *)
Definition ma_hom {I} (ma : @trend_Ma I R) : Prop :=
  forall (RI : nat -> I -> I -> Prop) k c, 0 < k -> escal RI (sc k) c -> escal RI (sc k) (trend_Ma_Compute ma c).

Section Instances.
Context {I : Type} (RI : nat -> I -> I -> Prop).
Notation escalI := (escal RI).

(* degree 0 closures *)
Lemma eq_mapst A B S (s0 : S) (f : S -> A -> S * B) (e : expr I A) : escalI eq e -> escalI eq (EMapSt s0 f e).
Proof. intros. eapply sc_mapst with (RS := eq); eauto. intros; subst; auto. Qed.
Lemma eq_op3 A B C D (f : A -> B -> C -> D) a b c : escalI eq a -> escalI eq b -> escalI eq c -> escalI eq (EOp3 f a b c).
Proof. intros. eapply sc_op3; eauto. intros; subst; auto. Qed.
Lemma eq_op2st A B C S (s0 : S) (f : S -> A -> B -> S * C) a b : escalI eq a -> escalI eq b -> escalI eq (EOp2St s0 f a b).
Proof. intros. eapply sc_op2st with (RS := eq); eauto. intros; subst; auto. Qed.
Lemma eq_Sma s (c : expr I R) : escalI eq c -> escalI eq (trend_Sma_Compute s c).
Proof. intros. apply sc1_eq. apply sc_Sma. apply eq_sc1; auto. Qed.
Lemma eq_Ema s (c : expr I R) : escalI eq c -> escalI eq (trend_Ema_Compute s c).
Proof. intros. apply sc1_eq. apply sc_Ema. apply eq_sc1; auto. Qed.
Lemma eq_MovingSum s (c : expr I R) : escalI eq c -> escalI eq (trend_MovingSum_Compute s c).
Proof. intros. apply sc1_eq. apply sc_MovingSum. apply eq_sc1; auto. Qed.
Lemma eq_Subtract (a b : expr I R) : escalI eq a -> escalI eq b -> escalI eq (helper_Subtract a b).
Proof. intros. unfold helper_Subtract. apply eq_op2; auto. Qed.

(* helpers *)
Lemma sc_Multiply_eq_r m (a b : expr I R) : escalI (sc m) a -> escalI eq b -> escalI (sc m) (helper_Multiply a b).
Proof. intros. unfold helper_Multiply. eapply sc_op2; eauto. intros; sc_arith. Qed.
Lemma sc_Divide_eq_r m (a b : expr I R) : escalI (sc m) a -> escalI eq b -> escalI (sc m) (helper_Divide a b).
Proof. intros. unfold helper_Divide. eapply sc_op2; eauto. intros; sc_arith. Qed.
(* numerator of degree 0, denominator of degree m: degree -1 *)
Lemma sc_Divide_inv m (a b : expr I R) : escalI eq a -> escalI (sc m) b -> escalI (sc (/ m)) (helper_Divide a b).
Proof.
  intros. unfold helper_Divide. eapply sc_op2; eauto. intros; sc_arith. unfold Rdiv. rewrite Rinv_mult. ring.
Qed.
Lemma sc_ChangeRatio k (c : expr I R) n : k <> 0 -> escalI (sc k) c -> escalI eq (helper_ChangeRatio c n).
Proof.
  intros. unfold helper_ChangeRatio. apply sc_Divide with (k := k); auto.
  apply sc_Change; auto. apply sc_buf; auto.
Qed.
Lemma sc_Sign k (c : expr I R) : 0 < k -> escalI (sc k) c -> escalI eq (helper_Sign c).
Proof. intros Hk H. unfold helper_Sign. eapply sc_map; eauto. cmp_tac Hk. Qed.
(* Since counts repetitions: it only tests its input for equality with the previous one *)
Lemma sc_Since k (c : expr I R) : 0 < k -> escalI (sc k) c -> escalI eq (helper_Since c).
Proof.
  intros Hk H. unfold helper_Since.
  eapply sc_mapst with (RS := fun s t : bool * R * R =>
     fst (fst t) = fst (fst s) /\ snd (fst t) = k * snd (fst s) /\ snd t = snd s); eauto.
  - simpl. repeat split; auto. ring.
  - intros [[f1 l1] c1] [[f2 l2] c2] a b (Hf & Hl & Hc) Hab; simpl in *. unfold sc in Hab. subst.
    cmp_norm Hk. destruct (f1 || negb (Reqb l1 a))%bool; simpl; auto.
Qed.

(* moving max / min: the tree of the scaled run is the scaled tree *)
Lemma sc_MovingMax k m (c : expr I R) : 0 < k -> escalI (sc k) c -> escalI (sc k) (trend_MovingMax_Compute m c).
Proof.
  intros Hk H. unfold trend_MovingMax_Compute. apply sc_skip.
  eapply sc_op2st with (RS := fun s t : bst R * Z => tree_sc k (fst s) (fst t) /\ snd t = snd s)
                       (RA := sc k) (RB := sc k); auto.
  - apply sc_shift; auto. sc_arith.
  - split; reflexivity.
  - intros [s n] [t n'] x x' y y' [Hs Hn] Hx Hy. unfold tree_sc, sc in *. simpl in Hs, Hn. subst.
    unfold bst_remove, bst_insert, bst_max. cbn [nleb nltb neqb nzero NumR].
    destruct (Z.ltb n _); cbn [fst snd];
      rewrite insert_scale, ?remove_scale, tmax_scale; auto.
Qed.
Lemma sc_MovingMin k m (c : expr I R) : 0 < k -> escalI (sc k) c -> escalI (sc k) (trend_MovingMin_Compute m c).
Proof.
  intros Hk H. unfold trend_MovingMin_Compute. apply sc_skip.
  eapply sc_op2st with (RS := fun s t : bst R * Z => tree_sc k (fst s) (fst t) /\ snd t = snd s)
                       (RA := sc k) (RB := sc k); auto.
  - apply sc_shift; auto. sc_arith.
  - split; reflexivity.
  - intros [s n] [t n'] x x' y y' [Hs Hn] Hx Hy. unfold tree_sc, sc in *. simpl in Hs, Hn. subst.
    unfold bst_remove, bst_insert, bst_min. cbn [nleb nltb neqb nzero NumR].
    destruct (Z.ltb n _); cbn [fst snd];
      rewrite insert_scale, ?remove_scale, tmin_scale; auto.
Qed.
Lemma eq_MovingMax m (c : expr I R) : escalI eq c -> escalI eq (trend_MovingMax_Compute m c).
Proof. intros. apply sc1_eq. apply sc_MovingMax. lra. apply eq_sc1; auto. Qed.
Lemma eq_MovingMin m (c : expr I R) : escalI eq c -> escalI eq (trend_MovingMin_Compute m c).
Proof. intros. apply sc1_eq. apply sc_MovingMin. lra. apply eq_sc1; auto. Qed.

(* weighted moving average *)
Lemma sc_Wma k w (c : expr I R) : escalI (sc k) c -> escalI (sc k) (trend_Wma_Compute w c).
Proof.
  intros H. unfold trend_Wma_Compute. apply sc_skip.
  eapply sc_mapst with (RS := fun w1 w2 : list R => w2 = map (Rmult k) w1); eauto.
  intros s t a b Hs Hab. unfold sc in *. subst. unfold wma_step.
  rewrite ring_push_scale. unfold ring_full. rewrite map_length.
  destruct (Nat.eqb (length (ring_push (trend_Wma_Period w) s a)) (Z.to_nat (trend_Wma_Period w))); simpl; split; auto.
  - replace 0 with (k * 0) at 1 by ring. rewrite wma_sum_scale. unfold Rdiv; ring.
  - ring.
Qed.
Lemma sc_Hma k h (c : expr I R) : escalI (sc k) c -> escalI (sc k) (trend_Hma_Compute h c).
Proof.
  intros. unfold trend_Hma_Compute. apply sc_Wma. apply sc_Subtract.
  - apply sc_MultiplyBy. apply sc_skip. apply sc_Wma; auto.
  - apply sc_Wma; auto.
Qed.
Lemma sc_Trima k t (c : expr I R) : escalI (sc k) c -> escalI (sc k) (trend_Trima_Compute t c).
Proof.
  intros. unfold trend_Trima_Compute. destruct (trend_Trima_calculatePeriods t). repeat apply sc_Sma; auto.
Qed.

End Instances.

(* the moving averages that can be plugged into Envelope / Tsi / Atr / ... *)
Lemma ma_hom_Sma I (s : trend_Sma) : ma_hom (trend_Sma_as_trend_Ma (I:=I) s).
Proof. intros RI k c Hk H. simpl. apply sc_Sma; auto. Qed.
Lemma ma_hom_Ema I (s : trend_Ema) : ma_hom (trend_Ema_as_trend_Ma (I:=I) s).
Proof. intros RI k c Hk H. simpl. apply sc_Ema; auto. Qed.
Lemma ma_hom_Smma I (s : trend_Smma) : ma_hom (trend_Smma_as_trend_Ma (I:=I) s).
Proof. intros RI k c Hk H. simpl. apply sc_Smma; auto. Qed.
Lemma ma_hom_Kama I (s : trend_Kama) : ma_hom (trend_Kama_as_trend_Ma (I:=I) s).
Proof. intros RI k c Hk H. simpl. apply sc_Kama; auto. Qed.
Lemma ma_hom_Wma I (s : trend_Wma) : ma_hom (trend_Wma_as_trend_Ma (I:=I) s).
Proof. intros RI k c Hk H. simpl. apply sc_Wma; auto. Qed.
Lemma ma_hom_Hma I (s : trend_Hma) : ma_hom (trend_Hma_as_trend_Ma (I:=I) s).
Proof. intros RI k c Hk H. simpl. apply sc_Hma; auto. Qed.

Section Helpers0.
Context {I : Type} (RI : nat -> I -> I -> Prop).
Notation escalI := (escal RI).
Lemma eq_MultiplyBy (a : expr I R) d : escalI eq a -> escalI eq (helper_MultiplyBy a d).
Proof. intros. unfold helper_MultiplyBy. apply eq_map; auto. Qed.
Lemma eq_DivideBy (a : expr I R) d : escalI eq a -> escalI eq (helper_DivideBy a d).
Proof. intros. unfold helper_DivideBy. apply eq_map; auto. Qed.
Lemma eq_IncrementBy (a : expr I R) d : escalI eq a -> escalI eq (helper_IncrementBy a d).
Proof. intros. unfold helper_IncrementBy. apply eq_map; auto. Qed.
Lemma eq_DecrementBy (a : expr I R) d : escalI eq a -> escalI eq (helper_DecrementBy a d).
Proof. intros. unfold helper_DecrementBy. apply eq_map; auto. Qed.
Lemma eq_Pow (a : expr I R) d : escalI eq a -> escalI eq (helper_Pow a d).
Proof. intros. unfold helper_Pow. apply eq_map; auto. Qed.
Lemma eq_Sqrt (a : expr I R) : escalI eq a -> escalI eq (helper_Sqrt a).
Proof. intros. unfold helper_Sqrt. apply eq_map; auto. Qed.
(* RoundDigits is not covariant; it is only ever applied to quantities of degree 0 *)
Lemma eq_RoundDigits (a : expr I R) d : escalI eq a -> escalI eq (helper_RoundDigits a d).
Proof. intros. unfold helper_RoundDigits. apply eq_map; auto. Qed.
Lemma eq_Add (a b : expr I R) : escalI eq a -> escalI eq b -> escalI eq (helper_Add a b).
Proof. intros. unfold helper_Add. apply eq_op2; auto. Qed.
Lemma eq_Divide (a b : expr I R) : escalI eq a -> escalI eq b -> escalI eq (helper_Divide a b).
Proof. intros. unfold helper_Divide. apply eq_op2; auto. Qed.
Lemma eq_Multiply (a b : expr I R) : escalI eq a -> escalI eq b -> escalI eq (helper_Multiply a b).
Proof. intros. unfold helper_Multiply. apply eq_op2; auto. Qed.
(* numerator of degree p, denominator of degree q: degree p / q, no side condition (/0 = 0) *)
Lemma sc_Divide_gen p q (a b : expr I R) : escalI (sc p) a -> escalI (sc q) b -> escalI (sc (p / q)) (helper_Divide a b).
Proof.
  intros. unfold helper_Divide. eapply sc_op2; eauto. intros; sc_arith. unfold Rdiv. rewrite Rinv_mult. ring.
Qed.
Lemma sc_shift0 k n (c : expr I R) : escalI (sc k) c -> escalI (sc k) (EShift n (nofZ 0%Z) c).
Proof. intros. apply sc_shift; auto. sc_arith. Qed.
End Helpers0.

(* goal-directed transport: [sc_auto] for results of the same degree as the inputs, [eq_auto] for degree 0 *)
Ltac sc_step :=
  match goal with |- escal _ (sc _) _ => idtac end;
  first [ assumption
        | apply sc_MovingSum | apply sc_MovingMax; [lra|] | apply sc_MovingMin; [lra|]
        | apply sc_Wma | apply sc_Hma | apply sc_Trima
        | apply sc_Sma | apply sc_Ema | apply sc_Rma | apply sc_Smma | apply sc_TypicalPrice
        | apply sc_MovingStd; [lra|]
        | apply sc_Change | apply sc_Subtract | apply sc_Add | apply sc_DivideBy | apply sc_MultiplyBy
        | apply sc_Abs; [lra|] | apply sc_KeepPositives; [lra|] | apply sc_KeepNegatives; [lra|]
        | match goal with H : ma_hom ?m |- escal _ (sc _) (trend_Ma_Compute ?m _) => apply H; [lra|] end
        | apply sc_shift0
        | apply sc_skip | apply sc_buf | apply sc_head ].
Ltac sc_auto := repeat sc_step.
Ltac eq_step :=
  match goal with |- escal _ eq _ => idtac end;
  first [ assumption
        | apply eq_MovingSum | apply eq_MovingMax | apply eq_MovingMin | apply eq_Sma | apply eq_Ema
        | apply eq_Subtract | apply eq_Add | apply eq_MultiplyBy | apply eq_DivideBy | apply eq_IncrementBy
        | apply eq_DecrementBy | apply eq_Pow | apply eq_Sqrt | apply eq_RoundDigits
        | apply sc_skip | apply sc_buf | apply sc_head ].
(* degree 0 obtained as a quotient of two quantities of degree k *)
Ltac eq_div kk := repeat eq_step; try (apply sc_Divide with (k := kk); [lra | sc_auto | sc_auto]).

Section Indicators.
Context {I : Type} (RI : nat -> I -> I -> Prop).
Notation escalI := (escal RI).

(* ---- trend ---- *)
Lemma sc_Trix k t (c : expr I R) : 0 < k -> escalI (sc k) c -> escalI eq (trend_Trix_Compute t c).
Proof. intros Hk H. unfold trend_Trix_Compute. apply sc_ChangeRatio with (k := k). lra. sc_auto. Qed.
Lemma sc_Tsi k t (c : expr I R) : 0 < k -> ma_hom (trend_Tsi_FirstSmoothing t) -> ma_hom (trend_Tsi_SecondSmoothing t) ->
  escalI (sc k) c -> escalI eq (trend_Tsi_Compute t c).
Proof. intros Hk H1 H2 H. unfold trend_Tsi_Compute; cbv zeta. eq_div k. Qed.
Lemma sc_MassIndex k m (h l : expr I R) : 0 < k -> escalI (sc k) h -> escalI (sc k) l ->
  escalI eq (trend_MassIndex_Compute m h l).
Proof. intros Hk Hh Hl. unfold trend_MassIndex_Compute; cbv zeta. eq_div k. Qed.
Lemma sc_Cci k cfg (h l c : expr I R) : 0 < k -> escalI (sc k) h -> escalI (sc k) l -> escalI (sc k) c ->
  escalI eq (trend_Cci_Compute cfg h l c).
Proof. intros Hk Hh Hl Hc. unfold trend_Cci_Compute; cbv zeta. eq_div k. Qed.
Lemma sc_Aroon_up k a (h l : expr I R) : 0 < k -> escalI (sc k) h -> escalI (sc k) l ->
  escalI eq (fst (trend_Aroon_Compute a h l)).
Proof.
  intros Hk Hh Hl. unfold trend_Aroon_Compute; simpl. repeat eq_step. apply sc_Since with (k := k); auto. sc_auto.
Qed.
Lemma sc_Aroon_down k a (h l : expr I R) : 0 < k -> escalI (sc k) h -> escalI (sc k) l ->
  escalI eq (snd (trend_Aroon_Compute a h l)).
Proof.
  intros Hk Hh Hl. unfold trend_Aroon_Compute; simpl. repeat eq_step. apply sc_Since with (k := k); auto. sc_auto.
Qed.
Lemma sc_Envelope_upper k e (c : expr I R) : 0 < k -> ma_hom (trend_Envelope_Ma e) -> escalI (sc k) c ->
  escalI (sc k) (fst (fst (trend_Envelope_Compute e c))).
Proof. intros Hk Hm H. unfold trend_Envelope_Compute; simpl. sc_auto. Qed.
Lemma sc_Envelope_middle k e (c : expr I R) : 0 < k -> ma_hom (trend_Envelope_Ma e) -> escalI (sc k) c ->
  escalI (sc k) (snd (fst (trend_Envelope_Compute e c))).
Proof. intros Hk Hm H. unfold trend_Envelope_Compute; simpl. sc_auto. Qed.
Lemma sc_Envelope_lower k e (c : expr I R) : 0 < k -> ma_hom (trend_Envelope_Ma e) -> escalI (sc k) c ->
  escalI (sc k) (snd (trend_Envelope_Compute e c)).
Proof. intros Hk Hm H. unfold trend_Envelope_Compute; simpl. sc_auto. Qed.
Lemma sc_Kdj_k k cfg (h l c : expr I R) : 0 < k -> escalI (sc k) h -> escalI (sc k) l -> escalI (sc k) c ->
  escalI eq (fst (fst (trend_Kdj_Compute cfg h l c))).
Proof. intros Hk Hh Hl Hc. unfold trend_Kdj_Compute; simpl. eq_div k. Qed.
Lemma sc_Kdj_d k cfg (h l c : expr I R) : 0 < k -> escalI (sc k) h -> escalI (sc k) l -> escalI (sc k) c ->
  escalI eq (snd (fst (trend_Kdj_Compute cfg h l c))).
Proof. intros Hk Hh Hl Hc. unfold trend_Kdj_Compute; simpl. eq_div k. Qed.
Lemma sc_Kdj_j k cfg (h l c : expr I R) : 0 < k -> escalI (sc k) h -> escalI (sc k) l -> escalI (sc k) c ->
  escalI eq (snd (trend_Kdj_Compute cfg h l c)).
Proof. intros Hk Hh Hl Hc. unfold trend_Kdj_Compute; simpl. eq_div k. Qed.

(* ---- momentum ---- *)
Lemma sc_Stochastic_k k cfg (h l c : expr I R) : 0 < k -> escalI (sc k) h -> escalI (sc k) l -> escalI (sc k) c ->
  escalI eq (fst (momentum_StochasticOscillator_Compute cfg h l c)).
Proof. intros Hk Hh Hl Hc. unfold momentum_StochasticOscillator_Compute; simpl. eq_div k. Qed.
Lemma sc_Stochastic_d k cfg (h l c : expr I R) : 0 < k -> escalI (sc k) h -> escalI (sc k) l -> escalI (sc k) c ->
  escalI eq (snd (momentum_StochasticOscillator_Compute cfg h l c)).
Proof. intros Hk Hh Hl Hc. unfold momentum_StochasticOscillator_Compute; simpl. eq_div k. Qed.
Lemma sc_StochasticRsi k cfg (c : expr I R) : 0 < k -> escalI (sc k) c ->
  escalI eq (momentum_StochasticRsi_Compute cfg c).
Proof.
  intros Hk Hc. pose proof (sc_Rsi (momentum_StochasticRsi_Rsi cfg) Hk Hc).
  unfold momentum_StochasticRsi_Compute; cbv zeta. apply eq_Divide; repeat eq_step.
Qed.
Lemma sc_WilliamsR k cfg (h l c : expr I R) : 0 < k -> escalI (sc k) h -> escalI (sc k) l -> escalI (sc k) c ->
  escalI eq (momentum_WilliamsR_Compute cfg h l c).
Proof. intros Hk Hh Hl Hc. unfold momentum_WilliamsR_Compute; cbv zeta. eq_div k. Qed.
Lemma sc_ChaikinOscillator_co l m cfg (h lo c v : expr I R) : l <> 0 ->
  escalI (sc l) h -> escalI (sc l) lo -> escalI (sc l) c -> escalI (sc m) v ->
  escalI (sc m) (fst (momentum_ChaikinOscillator_Compute cfg h lo c v)).
Proof.
  intros. assert (Had : escalI (sc m) (volume_Ad_Compute (momentum_ChaikinOscillator_Ad cfg) h lo c v))
    by (apply sc_Ad with (l := l); auto).
  unfold momentum_ChaikinOscillator_Compute; simpl. sc_auto.
Qed.
Lemma sc_ChaikinOscillator_ad l m cfg (h lo c v : expr I R) : l <> 0 ->
  escalI (sc l) h -> escalI (sc l) lo -> escalI (sc l) c -> escalI (sc m) v ->
  escalI (sc m) (snd (momentum_ChaikinOscillator_Compute cfg h lo c v)).
Proof.
  intros. assert (Had : escalI (sc m) (volume_Ad_Compute (momentum_ChaikinOscillator_Ad cfg) h lo c v))
    by (apply sc_Ad with (l := l); auto).
  unfold momentum_ChaikinOscillator_Compute; simpl. sc_auto.
Qed.
Lemma sc_Pvo_pvo k p (c : expr I R) : 0 < k -> escalI (sc k) c -> escalI eq (fst (fst (momentum_Pvo_Compute p c))).
Proof. intros Hk H. unfold momentum_Pvo_Compute; simpl. eq_div k. Qed.
Lemma sc_Pvo_signal k p (c : expr I R) : 0 < k -> escalI (sc k) c -> escalI eq (snd (fst (momentum_Pvo_Compute p c))).
Proof. intros Hk H. unfold momentum_Pvo_Compute; simpl. eq_div k. Qed.
Lemma sc_Pvo_histogram k p (c : expr I R) : 0 < k -> escalI (sc k) c -> escalI eq (snd (momentum_Pvo_Compute p c)).
Proof. intros Hk H. unfold momentum_Pvo_Compute; simpl. eq_div k. Qed.
Lemma sc_Ichimoku_conversion k cfg (h l c : expr I R) : 0 < k -> escalI (sc k) h -> escalI (sc k) l -> escalI (sc k) c ->
  escalI (sc k) (fst (fst (fst (fst (momentum_IchimokuCloud_Compute cfg h l c))))).
Proof. intros Hk Hh Hl Hc. unfold momentum_IchimokuCloud_Compute; simpl. sc_auto. Qed.
Lemma sc_Ichimoku_base k cfg (h l c : expr I R) : 0 < k -> escalI (sc k) h -> escalI (sc k) l -> escalI (sc k) c ->
  escalI (sc k) (snd (fst (fst (fst (momentum_IchimokuCloud_Compute cfg h l c))))).
Proof. intros Hk Hh Hl Hc. unfold momentum_IchimokuCloud_Compute; simpl. sc_auto. Qed.
Lemma sc_Ichimoku_spanA k cfg (h l c : expr I R) : 0 < k -> escalI (sc k) h -> escalI (sc k) l -> escalI (sc k) c ->
  escalI (sc k) (snd (fst (fst (momentum_IchimokuCloud_Compute cfg h l c)))).
Proof. intros Hk Hh Hl Hc. unfold momentum_IchimokuCloud_Compute; simpl. sc_auto. Qed.
Lemma sc_Ichimoku_spanB k cfg (h l c : expr I R) : 0 < k -> escalI (sc k) h -> escalI (sc k) l -> escalI (sc k) c ->
  escalI (sc k) (snd (fst (momentum_IchimokuCloud_Compute cfg h l c))).
Proof. intros Hk Hh Hl Hc. unfold momentum_IchimokuCloud_Compute; simpl. sc_auto. Qed.
Lemma sc_Ichimoku_lagging k cfg (h l c : expr I R) : 0 < k -> escalI (sc k) h -> escalI (sc k) l -> escalI (sc k) c ->
  escalI (sc k) (snd (momentum_IchimokuCloud_Compute cfg h l c)).
Proof. intros Hk Hh Hl Hc. unfold momentum_IchimokuCloud_Compute; simpl. sc_auto. Qed.

(* ---- volatility ---- *)
Lemma sc_Atr k a (h l c : expr I R) : 0 < k -> ma_hom (volatility_Atr_Ma a) ->
  escalI (sc k) h -> escalI (sc k) l -> escalI (sc k) c -> escalI (sc k) (volatility_Atr_Compute a h l c).
Proof.
  intros Hk Hma Hh Hl Hc. unfold volatility_Atr_Compute; cbv zeta. apply Hma; auto.
  eapply sc_op3 with (RA := sc k) (RB := sc k) (RC := sc k); try apply sc_skip; eauto.
  intros; sc_arith. rewrite <- !Rmult_minus_distr_l. rewrite !RmaxRmult by lra. reflexivity.
Qed.
Lemma sc_AccelerationBands_upper k a (h l c : expr I R) : 0 < k -> escalI (sc k) h -> escalI (sc k) l -> escalI (sc k) c ->
  escalI (sc k) (fst (fst (volatility_AccelerationBands_Compute a h l c))).
Proof.
  intros Hk Hh Hl Hc. unfold volatility_AccelerationBands_Compute; simpl.
  apply sc_Sma. apply sc_Multiply_eq_r; auto. eq_div k.
Qed.
Lemma sc_AccelerationBands_middle k a (h l c : expr I R) : 0 < k -> escalI (sc k) h -> escalI (sc k) l -> escalI (sc k) c ->
  escalI (sc k) (snd (fst (volatility_AccelerationBands_Compute a h l c))).
Proof. intros Hk Hh Hl Hc. unfold volatility_AccelerationBands_Compute; simpl. sc_auto. Qed.
Lemma sc_AccelerationBands_lower k a (h l c : expr I R) : 0 < k -> escalI (sc k) h -> escalI (sc k) l -> escalI (sc k) c ->
  escalI (sc k) (snd (volatility_AccelerationBands_Compute a h l c)).
Proof.
  intros Hk Hh Hl Hc. unfold volatility_AccelerationBands_Compute; simpl.
  apply sc_Sma. apply sc_Multiply_eq_r; auto. eq_div k.
Qed.
Lemma sc_Donchian_upper k d (c : expr I R) : 0 < k -> escalI (sc k) c ->
  escalI (sc k) (fst (fst (volatility_DonchianChannel_Compute d c))).
Proof. intros Hk Hc. unfold volatility_DonchianChannel_Compute; simpl. sc_auto. Qed.
Lemma sc_Donchian_middle k d (c : expr I R) : 0 < k -> escalI (sc k) c ->
  escalI (sc k) (snd (fst (volatility_DonchianChannel_Compute d c))).
Proof. intros Hk Hc. unfold volatility_DonchianChannel_Compute; simpl. sc_auto. Qed.
Lemma sc_Donchian_lower k d (c : expr I R) : 0 < k -> escalI (sc k) c ->
  escalI (sc k) (snd (volatility_DonchianChannel_Compute d c)).
Proof. intros Hk Hc. unfold volatility_DonchianChannel_Compute; simpl. sc_auto. Qed.
Lemma sc_Keltner_upper k cfg (h l c : expr I R) : 0 < k -> ma_hom (volatility_Atr_Ma (volatility_KeltnerChannel_Atr cfg)) ->
  escalI (sc k) h -> escalI (sc k) l -> escalI (sc k) c ->
  escalI (sc k) (fst (fst (volatility_KeltnerChannel_Compute cfg h l c))).
Proof.
  intros Hk Hm Hh Hl Hc. pose proof (sc_Atr (volatility_KeltnerChannel_Atr cfg) Hk Hm Hh Hl Hc).
  unfold volatility_KeltnerChannel_Compute; simpl. sc_auto.
Qed.
Lemma sc_Keltner_middle k cfg (h l c : expr I R) : 0 < k ->
  escalI (sc k) h -> escalI (sc k) l -> escalI (sc k) c ->
  escalI (sc k) (snd (fst (volatility_KeltnerChannel_Compute cfg h l c))).
Proof. intros Hk Hh Hl Hc. unfold volatility_KeltnerChannel_Compute; simpl. sc_auto. Qed.
Lemma sc_Keltner_lower k cfg (h l c : expr I R) : 0 < k -> ma_hom (volatility_Atr_Ma (volatility_KeltnerChannel_Atr cfg)) ->
  escalI (sc k) h -> escalI (sc k) l -> escalI (sc k) c ->
  escalI (sc k) (snd (volatility_KeltnerChannel_Compute cfg h l c)).
Proof.
  intros Hk Hm Hh Hl Hc. pose proof (sc_Atr (volatility_KeltnerChannel_Atr cfg) Hk Hm Hh Hl Hc).
  unfold volatility_KeltnerChannel_Compute; simpl. sc_auto.
Qed.
Lemma sc_BollingerBandWidth k b (c : expr I R) : 0 < k -> escalI (sc k) c ->
  escalI eq (volatility_BollingerBandWidth_Compute b c).
Proof.
  intros Hk Hc. unfold volatility_BollingerBandWidth_Compute, volatility_BollingerBands_Compute; simpl. eq_div k.
Qed.
Lemma sc_PercentB k p (c : expr I R) : 0 < k -> escalI (sc k) c -> escalI eq (volatility_PercentB_Compute p c).
Proof.
  intros Hk Hc. unfold volatility_PercentB_Compute, volatility_BollingerBands_Compute; simpl.
  eapply sc_op3 with (RA := sc k) (RB := sc k) (RC := sc k); [sc_auto | sc_auto | sc_auto |].
  intros; sc_arith. rewrite <- !Rmult_minus_distr_l. symmetry; apply Rdiv_scale; lra.
Qed.
Lemma sc_ChandelierExit_long k cfg (h l c : expr I R) : 0 < k -> escalI (sc k) h -> escalI (sc k) l -> escalI (sc k) c ->
  escalI (sc k) (fst (volatility_ChandelierExit_Compute cfg h l c)).
Proof.
  intros Hk Hh Hl Hc.
  pose proof (sc_Atr (volatility_NewAtrWithPeriod (volatility_ChandelierExit_Period cfg)) Hk (ma_hom_Sma _) Hh Hl Hc).
  unfold volatility_ChandelierExit_Compute; simpl. sc_auto.
Qed.
Lemma sc_ChandelierExit_short k cfg (h l c : expr I R) : 0 < k -> escalI (sc k) h -> escalI (sc k) l -> escalI (sc k) c ->
  escalI (sc k) (snd (volatility_ChandelierExit_Compute cfg h l c)).
Proof.
  intros Hk Hh Hl Hc.
  pose proof (sc_Atr (volatility_NewAtrWithPeriod (volatility_ChandelierExit_Period cfg)) Hk (ma_hom_Sma _) Hh Hl Hc).
  unfold volatility_ChandelierExit_Compute; simpl. sc_auto.
Qed.
Lemma sc_UlcerIndex k u (c : expr I R) : 0 < k -> escalI (sc k) c -> escalI eq (volatility_UlcerIndex_Compute u c).
Proof. intros Hk Hc. unfold volatility_UlcerIndex_Compute; cbv zeta. eq_div k. Qed.

End Indicators.

Section Indicators2.
Context {I : Type} (RI : nat -> I -> I -> Prop).
Notation escalI := (escal RI).

(* moving least squares with an abscissa of degree 0 (Po counts bars) and an ordinate of degree k:
   slope and intercept are of degree k *)
Lemma sc_Mls_m k cfg (x y : expr I R) : escalI eq x -> escalI (sc k) y -> escalI (sc k) (fst (trend_Mls_Compute cfg x y)).
Proof.
  intros Hx Hy. unfold trend_Mls_Compute; simpl.
  apply sc_Divide_eq_r.
  - apply sc_Subtract. apply sc_MultiplyBy. apply sc_MovingSum. apply (sc_Multiply_eq_l Hx Hy).
    apply sc_Multiply_eq_l; sc_auto. apply eq_MovingSum; auto.
  - repeat eq_step; apply eq_Multiply; repeat eq_step.
Qed.
Lemma sc_Mls_b k cfg (x y : expr I R) : escalI eq x -> escalI (sc k) y -> escalI (sc k) (snd (trend_Mls_Compute cfg x y)).
Proof.
  intros Hx Hy. pose proof (sc_Mls_m cfg Hx Hy) as Hm. unfold trend_Mls_Compute in *; simpl in *.
  apply sc_DivideBy. apply sc_Subtract. sc_auto. apply sc_Multiply_eq_r; auto. apply eq_MovingSum; auto.
Qed.
Lemma sc_Po k p (h l c : expr I R) : 0 < k -> escalI (sc k) h -> escalI (sc k) l -> escalI (sc k) c ->
  escalI eq (volatility_Po_Compute p h l c).
Proof.
  intros Hk Hh Hl Hc.
  assert (Hx : escalI eq (ECount NumR (nofZ 1%Z) c)).
  { eapply sc_count with (RT := eq); eauto. intros; subst; auto. }
  pose proof (sc_Mls_m (volatility_Po_mls p) Hx Hh) as H1. pose proof (sc_Mls_m (volatility_Po_mls p) Hx Hl) as H2.
  unfold volatility_Po_Compute; cbv zeta.
  destruct (trend_Mls_Compute (volatility_Po_mls p) (ECount NumR (nofZ 1%Z) c) h) as [plM plB].
  destruct (trend_Mls_Compute (volatility_Po_mls p) (ECount NumR (nofZ 1%Z) c) l) as [phM phB].
  simpl in H1, H2. eq_div k.
Qed.

(* SuperTrend's state machine: the two flags are preserved, the three remembered prices scale *)
Lemma sc_SuperTrend k s (h l c : expr I R) : 0 < k -> ma_hom (volatility_Atr_Ma (volatility_SuperTrend_Atr s)) ->
  escalI (sc k) h -> escalI (sc k) l -> escalI (sc k) c -> escalI (sc k) (volatility_SuperTrend_Compute s h l c).
Proof.
  intros Hk Hm Hh Hl Hc. pose proof (sc_Atr (volatility_SuperTrend_Atr s) Hk Hm Hh Hl Hc) as Hatr.
  unfold volatility_SuperTrend_Compute; cbv zeta.
  eapply sc_op3st with (RA := sc k) (RB := sc k) (RC := sc k)
    (RS := fun s t : bool * bool * R * R * R =>
       fst (fst (fst (fst t))) = fst (fst (fst (fst s))) /\ snd (fst (fst (fst t))) = snd (fst (fst (fst s))) /\
       snd (fst (fst t)) = k * snd (fst (fst s)) /\ snd (fst t) = k * snd (fst s) /\ snd t = k * snd s);
    [sc_auto | sc_auto | sc_auto | | ].
  - simpl. repeat split; auto; ring.
  - intros [[[[f1 u1] p1] a1] b1] [[[[f2 u2] p2] a2] b2] x x' y y' z z' (Hf & Hu & Hp & Ha & Hb) Hx Hy Hz.
    unfold sc in *; simpl in Hf, Hu, Hp, Ha, Hb. subst.
    cmp_norm Hk.
    destruct f1; [simpl; repeat split; auto; ring|].
    repeat match goal with |- context [if ?b then _ else _] => destruct b end; simpl; repeat split; auto; ring.
Qed.

(* ---- volume: prices of degree l, volumes of degree m ---- *)
Lemma sc_Cmf l m cfg (h lo c v : expr I R) : l <> 0 -> m <> 0 ->
  escalI (sc l) h -> escalI (sc l) lo -> escalI (sc l) c -> escalI (sc m) v ->
  escalI eq (volume_Cmf_Compute cfg h lo c v).
Proof.
  intros. unfold volume_Cmf_Compute; cbv zeta. apply sc_Divide with (k := m); auto; apply sc_MovingSum; auto.
  apply sc_Mfv with (l := l); auto.
Qed.
Lemma sc_Fi l m cfg (c v : expr I R) : escalI (sc l) c -> escalI (sc m) v -> escalI (sc (l * m)) (volume_Fi_Compute cfg c v).
Proof. intros. unfold volume_Fi_Compute. apply sc_Ema. apply sc_Multiply; auto. apply sc_Change; auto. Qed.
Lemma sc_Vpt l m cfg (c v : expr I R) : l <> 0 -> escalI (sc l) c -> escalI (sc m) v -> escalI (sc m) (volume_Vpt_Compute cfg c v).
Proof.
  intros. unfold volume_Vpt_Compute; cbv zeta. eapply sc_mapst with (RS := sc m).
  - apply sc_Multiply_eq_l. apply sc_ChangeRatio with (k := l); auto. apply sc_skip; eauto.
  - sc_arith.
  - intros; split; sc_arith.
Qed.
Lemma sc_Nvi l m cfg (c v : expr I R) : l <> 0 -> 0 < m -> escalI (sc l) c -> escalI (sc m) v ->
  escalI eq (volume_Nvi_Compute cfg c v).
Proof.
  intros Hl Hm Hc Hv. unfold volume_Nvi_Compute; cbv zeta.
  eapply sc_op2st with (RS := eq) (RA := eq) (RB := sc m); auto.
  - apply sc_ChangeRatio with (k := l); auto.
  - apply sc_Change; auto.
  - intros s t x x' y y' Hs Hx Hy. unfold sc in Hy. subst. cmp_norm Hm. auto.
Qed.
Lemma sc_Mfi l m cfg (h lo c v : expr I R) : 0 < l -> 0 < m ->
  escalI (sc l) h -> escalI (sc l) lo -> escalI (sc l) c -> escalI (sc m) v ->
  escalI eq (volume_Mfi_Compute cfg h lo c v).
Proof.
  intros Hl Hm Hh Hlo Hc Hv. pose proof (Rmult_lt_0_compat _ _ Hl Hm) as Hlm.
  assert (Hraw : escalI (sc (l * m)) (helper_Multiply (trend_TypicalPrice_Compute (volume_Mfi_TypicalPrice cfg) h lo c) v))
    by (apply sc_Multiply; auto; apply sc_TypicalPrice; auto).
  unfold volume_Mfi_Compute; cbv zeta.
  assert (Hflow : escalI (sc (l * m)) (helper_Multiply
       (helper_Sign (helper_Change (helper_Multiply (trend_TypicalPrice_Compute (volume_Mfi_TypicalPrice cfg) h lo c) v) 1%Z))
       (ESkip 1%Z (helper_Multiply (trend_TypicalPrice_Compute (volume_Mfi_TypicalPrice cfg) h lo c) v)))).
  { apply sc_Multiply_eq_l. apply sc_Sign with (k := l * m); auto. apply sc_Change; auto. apply sc_skip; auto. }
  eq_div (l * m).
Qed.
(* Ease of movement: degree 2 in the price unit and -1 in the volume unit (no side condition: /0 = 0 scales) *)
Lemma sc_Emv l m cfg (h lo v : expr I R) :
  escalI (sc l) h -> escalI (sc l) lo -> escalI (sc m) v -> escalI (sc (l / (m / l))) (volume_Emv_Compute cfg h lo v).
Proof.
  intros Hh Hlo Hv. unfold volume_Emv_Compute; cbv zeta.
  apply sc_Sma. apply sc_Divide_gen. sc_auto. apply sc_Divide_gen; sc_auto.
Qed.

End Indicators2.

(* ========================================================================================== *)
(* Part 3: the instances.  Same shape as in C18Proofs: all prices multiplied by lambda > 0 (and all volumes by
   mu > 0) multiply the output by lambda ^ dp * mu ^ dv.  Indicators parameterised by a moving-average interface
   value (trend.Ma) are homogeneous for every moving average that is ([ma_hom]); the library's own choices are
   ([ma_hom_Sma], [ma_hom_Ema], [ma_hom_Smma], [ma_hom_Kama], [ma_hom_Wma], [ma_hom_Hma]). *)

Ltac fin_tac := first [in_tac | assumption | lra].

(* ---- trend ---- *)
Theorem C18_Trima : forall cfg lambda xs, 0 < lambda ->
  sem (trend_Trima_Compute (T:=R) cfg (EIn 0)) [map (Rmult lambda) xs]
  = map (Rmult (lambda ^ 1)) (sem (trend_Trima_Compute (T:=R) cfg (EIn 0)) [xs]).
Proof. intros. rewrite pow_1. apply hom_single. apply sc_Trima; fin_tac. Qed.
Theorem C18_Wma : forall cfg lambda xs, 0 < lambda ->
  sem (trend_Wma_Compute (T:=R) cfg (EIn 0)) [map (Rmult lambda) xs]
  = map (Rmult (lambda ^ 1)) (sem (trend_Wma_Compute (T:=R) cfg (EIn 0)) [xs]).
Proof. intros. rewrite pow_1. apply hom_single. apply sc_Wma; fin_tac. Qed.
Theorem C18_Hma : forall cfg lambda xs, 0 < lambda ->
  sem (trend_Hma_Compute (T:=R) cfg (EIn 0)) [map (Rmult lambda) xs]
  = map (Rmult (lambda ^ 1)) (sem (trend_Hma_Compute (T:=R) cfg (EIn 0)) [xs]).
Proof. intros. rewrite pow_1. apply hom_single. apply sc_Hma; fin_tac. Qed.
Theorem C18_MovingMax : forall cfg lambda xs, 0 < lambda ->
  sem (trend_MovingMax_Compute (T:=R) cfg (EIn 0)) [map (Rmult lambda) xs]
  = map (Rmult (lambda ^ 1)) (sem (trend_MovingMax_Compute (T:=R) cfg (EIn 0)) [xs]).
Proof. intros. rewrite pow_1. apply hom_single. apply sc_MovingMax; fin_tac. Qed.
Theorem C18_MovingMin : forall cfg lambda xs, 0 < lambda ->
  sem (trend_MovingMin_Compute (T:=R) cfg (EIn 0)) [map (Rmult lambda) xs]
  = map (Rmult (lambda ^ 1)) (sem (trend_MovingMin_Compute (T:=R) cfg (EIn 0)) [xs]).
Proof. intros. rewrite pow_1. apply hom_single. apply sc_MovingMin; fin_tac. Qed.
Theorem C18_Trix : forall cfg lambda xs, 0 < lambda ->
  sem (trend_Trix_Compute (T:=R) cfg (EIn 0)) [map (Rmult lambda) xs]
  = sem (trend_Trix_Compute (T:=R) cfg (EIn 0)) [xs].
Proof. intros. apply inv_single. apply sc_Trix with (k := lambda); fin_tac. Qed.
Theorem C18_Tsi : forall cfg lambda xs, 0 < lambda -> ma_hom (trend_Tsi_FirstSmoothing cfg) -> ma_hom (trend_Tsi_SecondSmoothing cfg) ->
  sem (trend_Tsi_Compute (T:=R) cfg (EIn 0)) [map (Rmult lambda) xs]
  = sem (trend_Tsi_Compute (T:=R) cfg (EIn 0)) [xs].
Proof. intros. apply inv_single. apply sc_Tsi with (k := lambda); fin_tac. Qed.
Theorem C18_MassIndex : forall cfg lambda hs ls, 0 < lambda ->
  sem (trend_MassIndex_Compute (T:=R) cfg (EIn 0) (EIn 1)) [map (Rmult lambda) hs; map (Rmult lambda) ls]
  = sem (trend_MassIndex_Compute (T:=R) cfg (EIn 0) (EIn 1)) [hs; ls].
Proof.
  intros. apply (@inv_multi _ lambda) with (env := [hs; ls]).
  apply sc_MassIndex with (k := lambda); fin_tac.
Qed.
Theorem C18_Cci : forall cfg lambda hs ls cs, 0 < lambda ->
  sem (trend_Cci_Compute (T:=R) cfg (EIn 0) (EIn 1) (EIn 2)) [map (Rmult lambda) hs; map (Rmult lambda) ls; map (Rmult lambda) cs]
  = sem (trend_Cci_Compute (T:=R) cfg (EIn 0) (EIn 1) (EIn 2)) [hs; ls; cs].
Proof.
  intros. apply (@inv_multi _ lambda) with (env := [hs; ls; cs]).
  apply sc_Cci with (k := lambda); fin_tac.
Qed.
Theorem C18_Aroon_up : forall cfg lambda hs ls, 0 < lambda ->
  sem (fst (trend_Aroon_Compute (T:=R) cfg (EIn 0) (EIn 1))) [map (Rmult lambda) hs; map (Rmult lambda) ls]
  = sem (fst (trend_Aroon_Compute (T:=R) cfg (EIn 0) (EIn 1))) [hs; ls].
Proof.
  intros. apply (@inv_multi _ lambda) with (env := [hs; ls]).
  apply sc_Aroon_up with (k := lambda); fin_tac.
Qed.
Theorem C18_Aroon_down : forall cfg lambda hs ls, 0 < lambda ->
  sem (snd (trend_Aroon_Compute (T:=R) cfg (EIn 0) (EIn 1))) [map (Rmult lambda) hs; map (Rmult lambda) ls]
  = sem (snd (trend_Aroon_Compute (T:=R) cfg (EIn 0) (EIn 1))) [hs; ls].
Proof.
  intros. apply (@inv_multi _ lambda) with (env := [hs; ls]).
  apply sc_Aroon_down with (k := lambda); fin_tac.
Qed.
Theorem C18_Envelope_upper : forall cfg lambda xs, 0 < lambda -> ma_hom (trend_Envelope_Ma cfg) ->
  sem (fst (fst (trend_Envelope_Compute (T:=R) cfg (EIn 0)))) [map (Rmult lambda) xs]
  = map (Rmult (lambda ^ 1)) (sem (fst (fst (trend_Envelope_Compute (T:=R) cfg (EIn 0)))) [xs]).
Proof. intros. rewrite pow_1. apply hom_single. apply sc_Envelope_upper; fin_tac. Qed.
Theorem C18_Envelope_middle : forall cfg lambda xs, 0 < lambda -> ma_hom (trend_Envelope_Ma cfg) ->
  sem (snd (fst (trend_Envelope_Compute (T:=R) cfg (EIn 0)))) [map (Rmult lambda) xs]
  = map (Rmult (lambda ^ 1)) (sem (snd (fst (trend_Envelope_Compute (T:=R) cfg (EIn 0)))) [xs]).
Proof. intros. rewrite pow_1. apply hom_single. apply sc_Envelope_middle; fin_tac. Qed.
Theorem C18_Envelope_lower : forall cfg lambda xs, 0 < lambda -> ma_hom (trend_Envelope_Ma cfg) ->
  sem (snd (trend_Envelope_Compute (T:=R) cfg (EIn 0))) [map (Rmult lambda) xs]
  = map (Rmult (lambda ^ 1)) (sem (snd (trend_Envelope_Compute (T:=R) cfg (EIn 0))) [xs]).
Proof. intros. rewrite pow_1. apply hom_single. apply sc_Envelope_lower; fin_tac. Qed.
Theorem C18_Kdj_k : forall cfg lambda hs ls cs, 0 < lambda ->
  sem (fst (fst (trend_Kdj_Compute (T:=R) cfg (EIn 0) (EIn 1) (EIn 2)))) [map (Rmult lambda) hs; map (Rmult lambda) ls; map (Rmult lambda) cs]
  = sem (fst (fst (trend_Kdj_Compute (T:=R) cfg (EIn 0) (EIn 1) (EIn 2)))) [hs; ls; cs].
Proof.
  intros. apply (@inv_multi _ lambda) with (env := [hs; ls; cs]).
  apply sc_Kdj_k with (k := lambda); fin_tac.
Qed.
Theorem C18_Kdj_d : forall cfg lambda hs ls cs, 0 < lambda ->
  sem (snd (fst (trend_Kdj_Compute (T:=R) cfg (EIn 0) (EIn 1) (EIn 2)))) [map (Rmult lambda) hs; map (Rmult lambda) ls; map (Rmult lambda) cs]
  = sem (snd (fst (trend_Kdj_Compute (T:=R) cfg (EIn 0) (EIn 1) (EIn 2)))) [hs; ls; cs].
Proof.
  intros. apply (@inv_multi _ lambda) with (env := [hs; ls; cs]).
  apply sc_Kdj_d with (k := lambda); fin_tac.
Qed.
Theorem C18_Kdj_j : forall cfg lambda hs ls cs, 0 < lambda ->
  sem (snd (trend_Kdj_Compute (T:=R) cfg (EIn 0) (EIn 1) (EIn 2))) [map (Rmult lambda) hs; map (Rmult lambda) ls; map (Rmult lambda) cs]
  = sem (snd (trend_Kdj_Compute (T:=R) cfg (EIn 0) (EIn 1) (EIn 2))) [hs; ls; cs].
Proof.
  intros. apply (@inv_multi _ lambda) with (env := [hs; ls; cs]).
  apply sc_Kdj_j with (k := lambda); fin_tac.
Qed.
(* ---- momentum ---- *)
Theorem C18_StochasticOscillator_k : forall cfg lambda hs ls cs, 0 < lambda ->
  sem (fst (momentum_StochasticOscillator_Compute (T:=R) cfg (EIn 0) (EIn 1) (EIn 2))) [map (Rmult lambda) hs; map (Rmult lambda) ls; map (Rmult lambda) cs]
  = sem (fst (momentum_StochasticOscillator_Compute (T:=R) cfg (EIn 0) (EIn 1) (EIn 2))) [hs; ls; cs].
Proof.
  intros. apply (@inv_multi _ lambda) with (env := [hs; ls; cs]).
  apply sc_Stochastic_k with (k := lambda); fin_tac.
Qed.
Theorem C18_StochasticOscillator_d : forall cfg lambda hs ls cs, 0 < lambda ->
  sem (snd (momentum_StochasticOscillator_Compute (T:=R) cfg (EIn 0) (EIn 1) (EIn 2))) [map (Rmult lambda) hs; map (Rmult lambda) ls; map (Rmult lambda) cs]
  = sem (snd (momentum_StochasticOscillator_Compute (T:=R) cfg (EIn 0) (EIn 1) (EIn 2))) [hs; ls; cs].
Proof.
  intros. apply (@inv_multi _ lambda) with (env := [hs; ls; cs]).
  apply sc_Stochastic_d with (k := lambda); fin_tac.
Qed.
Theorem C18_StochasticRsi : forall cfg lambda xs, 0 < lambda ->
  sem (momentum_StochasticRsi_Compute (T:=R) cfg (EIn 0)) [map (Rmult lambda) xs]
  = sem (momentum_StochasticRsi_Compute (T:=R) cfg (EIn 0)) [xs].
Proof. intros. apply inv_single. apply sc_StochasticRsi with (k := lambda); fin_tac. Qed.
Theorem C18_WilliamsR : forall cfg lambda hs ls cs, 0 < lambda ->
  sem (momentum_WilliamsR_Compute (T:=R) cfg (EIn 0) (EIn 1) (EIn 2)) [map (Rmult lambda) hs; map (Rmult lambda) ls; map (Rmult lambda) cs]
  = sem (momentum_WilliamsR_Compute (T:=R) cfg (EIn 0) (EIn 1) (EIn 2)) [hs; ls; cs].
Proof.
  intros. apply (@inv_multi _ lambda) with (env := [hs; ls; cs]).
  apply sc_WilliamsR with (k := lambda); fin_tac.
Qed.
Theorem C18_ChaikinOscillator_co : forall cfg lambda mu hs ls cs vs, 0 < lambda -> 0 < mu ->
  sem (fst (momentum_ChaikinOscillator_Compute (T:=R) cfg (EIn 0) (EIn 1) (EIn 2) (EIn 3))) [map (Rmult lambda) hs; map (Rmult lambda) ls; map (Rmult lambda) cs; map (Rmult mu) vs]
  = map (Rmult (lambda ^ 0 * mu ^ 1)) (sem (fst (momentum_ChaikinOscillator_Compute (T:=R) cfg (EIn 0) (EIn 1) (EIn 2) (EIn 3))) [hs; ls; cs; vs]).
Proof.
  intros cfg l m hs ls cs vs Hl Hm. intros. replace (l ^ 0 * m ^ 1) with (m) by (simpl; ring). apply F2_sc_map.
  apply escal_sound with (RI := fun k => match k with 3%nat => sc m | _ => sc l end).
  - apply sc_ChaikinOscillator_co with (l := l); fin_tac.
  - env_tac.
Qed.
Theorem C18_ChaikinOscillator_ad : forall cfg lambda mu hs ls cs vs, 0 < lambda -> 0 < mu ->
  sem (snd (momentum_ChaikinOscillator_Compute (T:=R) cfg (EIn 0) (EIn 1) (EIn 2) (EIn 3))) [map (Rmult lambda) hs; map (Rmult lambda) ls; map (Rmult lambda) cs; map (Rmult mu) vs]
  = map (Rmult (lambda ^ 0 * mu ^ 1)) (sem (snd (momentum_ChaikinOscillator_Compute (T:=R) cfg (EIn 0) (EIn 1) (EIn 2) (EIn 3))) [hs; ls; cs; vs]).
Proof.
  intros cfg l m hs ls cs vs Hl Hm. intros. replace (l ^ 0 * m ^ 1) with (m) by (simpl; ring). apply F2_sc_map.
  apply escal_sound with (RI := fun k => match k with 3%nat => sc m | _ => sc l end).
  - apply sc_ChaikinOscillator_ad with (l := l); fin_tac.
  - env_tac.
Qed.
(* the percentage volume oscillator takes volumes only *)
Theorem C18_Pvo_pvo : forall cfg mu vs, 0 < mu ->
  sem (fst (fst (momentum_Pvo_Compute (T:=R) cfg (EIn 0)))) [map (Rmult mu) vs]
  = sem (fst (fst (momentum_Pvo_Compute (T:=R) cfg (EIn 0)))) [vs].
Proof. intros. apply inv_single. apply sc_Pvo_pvo with (k := mu); fin_tac. Qed.
Theorem C18_Pvo_signal : forall cfg mu vs, 0 < mu ->
  sem (snd (fst (momentum_Pvo_Compute (T:=R) cfg (EIn 0)))) [map (Rmult mu) vs]
  = sem (snd (fst (momentum_Pvo_Compute (T:=R) cfg (EIn 0)))) [vs].
Proof. intros. apply inv_single. apply sc_Pvo_signal with (k := mu); fin_tac. Qed.
Theorem C18_Pvo_histogram : forall cfg mu vs, 0 < mu ->
  sem (snd (momentum_Pvo_Compute (T:=R) cfg (EIn 0))) [map (Rmult mu) vs]
  = sem (snd (momentum_Pvo_Compute (T:=R) cfg (EIn 0))) [vs].
Proof. intros. apply inv_single. apply sc_Pvo_histogram with (k := mu); fin_tac. Qed.
Theorem C18_IchimokuCloud_conversion : forall cfg lambda hs ls cs, 0 < lambda ->
  sem (fst (fst (fst (fst (momentum_IchimokuCloud_Compute (T:=R) cfg (EIn 0) (EIn 1) (EIn 2)))))) [map (Rmult lambda) hs; map (Rmult lambda) ls; map (Rmult lambda) cs]
  = map (Rmult (lambda ^ 1)) (sem (fst (fst (fst (fst (momentum_IchimokuCloud_Compute (T:=R) cfg (EIn 0) (EIn 1) (EIn 2)))))) [hs; ls; cs]).
Proof.
  intros. rewrite pow_1. apply (@hom_multi _ lambda lambda) with (env := [hs; ls; cs]).
  apply sc_Ichimoku_conversion; fin_tac.
Qed.
Theorem C18_IchimokuCloud_base : forall cfg lambda hs ls cs, 0 < lambda ->
  sem (snd (fst (fst (fst (momentum_IchimokuCloud_Compute (T:=R) cfg (EIn 0) (EIn 1) (EIn 2)))))) [map (Rmult lambda) hs; map (Rmult lambda) ls; map (Rmult lambda) cs]
  = map (Rmult (lambda ^ 1)) (sem (snd (fst (fst (fst (momentum_IchimokuCloud_Compute (T:=R) cfg (EIn 0) (EIn 1) (EIn 2)))))) [hs; ls; cs]).
Proof.
  intros. rewrite pow_1. apply (@hom_multi _ lambda lambda) with (env := [hs; ls; cs]).
  apply sc_Ichimoku_base; fin_tac.
Qed.
Theorem C18_IchimokuCloud_spanA : forall cfg lambda hs ls cs, 0 < lambda ->
  sem (snd (fst (fst (momentum_IchimokuCloud_Compute (T:=R) cfg (EIn 0) (EIn 1) (EIn 2))))) [map (Rmult lambda) hs; map (Rmult lambda) ls; map (Rmult lambda) cs]
  = map (Rmult (lambda ^ 1)) (sem (snd (fst (fst (momentum_IchimokuCloud_Compute (T:=R) cfg (EIn 0) (EIn 1) (EIn 2))))) [hs; ls; cs]).
Proof.
  intros. rewrite pow_1. apply (@hom_multi _ lambda lambda) with (env := [hs; ls; cs]).
  apply sc_Ichimoku_spanA; fin_tac.
Qed.
Theorem C18_IchimokuCloud_spanB : forall cfg lambda hs ls cs, 0 < lambda ->
  sem (snd (fst (momentum_IchimokuCloud_Compute (T:=R) cfg (EIn 0) (EIn 1) (EIn 2)))) [map (Rmult lambda) hs; map (Rmult lambda) ls; map (Rmult lambda) cs]
  = map (Rmult (lambda ^ 1)) (sem (snd (fst (momentum_IchimokuCloud_Compute (T:=R) cfg (EIn 0) (EIn 1) (EIn 2)))) [hs; ls; cs]).
Proof.
  intros. rewrite pow_1. apply (@hom_multi _ lambda lambda) with (env := [hs; ls; cs]).
  apply sc_Ichimoku_spanB; fin_tac.
Qed.
Theorem C18_IchimokuCloud_lagging : forall cfg lambda hs ls cs, 0 < lambda ->
  sem (snd (momentum_IchimokuCloud_Compute (T:=R) cfg (EIn 0) (EIn 1) (EIn 2))) [map (Rmult lambda) hs; map (Rmult lambda) ls; map (Rmult lambda) cs]
  = map (Rmult (lambda ^ 1)) (sem (snd (momentum_IchimokuCloud_Compute (T:=R) cfg (EIn 0) (EIn 1) (EIn 2))) [hs; ls; cs]).
Proof.
  intros. rewrite pow_1. apply (@hom_multi _ lambda lambda) with (env := [hs; ls; cs]).
  apply sc_Ichimoku_lagging; fin_tac.
Qed.
(* ---- volatility ---- *)
Theorem C18_Atr : forall cfg lambda hs ls cs, 0 < lambda -> ma_hom (volatility_Atr_Ma cfg) ->
  sem (volatility_Atr_Compute (T:=R) cfg (EIn 0) (EIn 1) (EIn 2)) [map (Rmult lambda) hs; map (Rmult lambda) ls; map (Rmult lambda) cs]
  = map (Rmult (lambda ^ 1)) (sem (volatility_Atr_Compute (T:=R) cfg (EIn 0) (EIn 1) (EIn 2)) [hs; ls; cs]).
Proof.
  intros. rewrite pow_1. apply (@hom_multi _ lambda lambda) with (env := [hs; ls; cs]).
  apply sc_Atr; fin_tac.
Qed.
Theorem C18_AccelerationBands_upper : forall cfg lambda hs ls cs, 0 < lambda ->
  sem (fst (fst (volatility_AccelerationBands_Compute (T:=R) cfg (EIn 0) (EIn 1) (EIn 2)))) [map (Rmult lambda) hs; map (Rmult lambda) ls; map (Rmult lambda) cs]
  = map (Rmult (lambda ^ 1)) (sem (fst (fst (volatility_AccelerationBands_Compute (T:=R) cfg (EIn 0) (EIn 1) (EIn 2)))) [hs; ls; cs]).
Proof.
  intros. rewrite pow_1. apply (@hom_multi _ lambda lambda) with (env := [hs; ls; cs]).
  apply sc_AccelerationBands_upper; fin_tac.
Qed.
Theorem C18_AccelerationBands_middle : forall cfg lambda hs ls cs, 0 < lambda ->
  sem (snd (fst (volatility_AccelerationBands_Compute (T:=R) cfg (EIn 0) (EIn 1) (EIn 2)))) [map (Rmult lambda) hs; map (Rmult lambda) ls; map (Rmult lambda) cs]
  = map (Rmult (lambda ^ 1)) (sem (snd (fst (volatility_AccelerationBands_Compute (T:=R) cfg (EIn 0) (EIn 1) (EIn 2)))) [hs; ls; cs]).
Proof.
  intros. rewrite pow_1. apply (@hom_multi _ lambda lambda) with (env := [hs; ls; cs]).
  apply sc_AccelerationBands_middle; fin_tac.
Qed.
Theorem C18_AccelerationBands_lower : forall cfg lambda hs ls cs, 0 < lambda ->
  sem (snd (volatility_AccelerationBands_Compute (T:=R) cfg (EIn 0) (EIn 1) (EIn 2))) [map (Rmult lambda) hs; map (Rmult lambda) ls; map (Rmult lambda) cs]
  = map (Rmult (lambda ^ 1)) (sem (snd (volatility_AccelerationBands_Compute (T:=R) cfg (EIn 0) (EIn 1) (EIn 2))) [hs; ls; cs]).
Proof.
  intros. rewrite pow_1. apply (@hom_multi _ lambda lambda) with (env := [hs; ls; cs]).
  apply sc_AccelerationBands_lower; fin_tac.
Qed.
Theorem C18_DonchianChannel_upper : forall cfg lambda xs, 0 < lambda ->
  sem (fst (fst (volatility_DonchianChannel_Compute (T:=R) cfg (EIn 0)))) [map (Rmult lambda) xs]
  = map (Rmult (lambda ^ 1)) (sem (fst (fst (volatility_DonchianChannel_Compute (T:=R) cfg (EIn 0)))) [xs]).
Proof. intros. rewrite pow_1. apply hom_single. apply sc_Donchian_upper; fin_tac. Qed.
Theorem C18_DonchianChannel_middle : forall cfg lambda xs, 0 < lambda ->
  sem (snd (fst (volatility_DonchianChannel_Compute (T:=R) cfg (EIn 0)))) [map (Rmult lambda) xs]
  = map (Rmult (lambda ^ 1)) (sem (snd (fst (volatility_DonchianChannel_Compute (T:=R) cfg (EIn 0)))) [xs]).
Proof. intros. rewrite pow_1. apply hom_single. apply sc_Donchian_middle; fin_tac. Qed.
Theorem C18_DonchianChannel_lower : forall cfg lambda xs, 0 < lambda ->
  sem (snd (volatility_DonchianChannel_Compute (T:=R) cfg (EIn 0))) [map (Rmult lambda) xs]
  = map (Rmult (lambda ^ 1)) (sem (snd (volatility_DonchianChannel_Compute (T:=R) cfg (EIn 0))) [xs]).
Proof. intros. rewrite pow_1. apply hom_single. apply sc_Donchian_lower; fin_tac. Qed.
Theorem C18_KeltnerChannel_upper : forall cfg lambda hs ls cs, 0 < lambda -> ma_hom (volatility_Atr_Ma (volatility_KeltnerChannel_Atr cfg)) ->
  sem (fst (fst (volatility_KeltnerChannel_Compute (T:=R) cfg (EIn 0) (EIn 1) (EIn 2)))) [map (Rmult lambda) hs; map (Rmult lambda) ls; map (Rmult lambda) cs]
  = map (Rmult (lambda ^ 1)) (sem (fst (fst (volatility_KeltnerChannel_Compute (T:=R) cfg (EIn 0) (EIn 1) (EIn 2)))) [hs; ls; cs]).
Proof.
  intros. rewrite pow_1. apply (@hom_multi _ lambda lambda) with (env := [hs; ls; cs]).
  apply sc_Keltner_upper; fin_tac.
Qed.
Theorem C18_KeltnerChannel_middle : forall cfg lambda hs ls cs, 0 < lambda ->
  sem (snd (fst (volatility_KeltnerChannel_Compute (T:=R) cfg (EIn 0) (EIn 1) (EIn 2)))) [map (Rmult lambda) hs; map (Rmult lambda) ls; map (Rmult lambda) cs]
  = map (Rmult (lambda ^ 1)) (sem (snd (fst (volatility_KeltnerChannel_Compute (T:=R) cfg (EIn 0) (EIn 1) (EIn 2)))) [hs; ls; cs]).
Proof.
  intros. rewrite pow_1. apply (@hom_multi _ lambda lambda) with (env := [hs; ls; cs]).
  apply sc_Keltner_middle; fin_tac.
Qed.
Theorem C18_KeltnerChannel_lower : forall cfg lambda hs ls cs, 0 < lambda -> ma_hom (volatility_Atr_Ma (volatility_KeltnerChannel_Atr cfg)) ->
  sem (snd (volatility_KeltnerChannel_Compute (T:=R) cfg (EIn 0) (EIn 1) (EIn 2))) [map (Rmult lambda) hs; map (Rmult lambda) ls; map (Rmult lambda) cs]
  = map (Rmult (lambda ^ 1)) (sem (snd (volatility_KeltnerChannel_Compute (T:=R) cfg (EIn 0) (EIn 1) (EIn 2))) [hs; ls; cs]).
Proof.
  intros. rewrite pow_1. apply (@hom_multi _ lambda lambda) with (env := [hs; ls; cs]).
  apply sc_Keltner_lower; fin_tac.
Qed.
Theorem C18_BollingerBandWidth : forall cfg lambda xs, 0 < lambda ->
  sem (volatility_BollingerBandWidth_Compute (T:=R) cfg (EIn 0)) [map (Rmult lambda) xs]
  = sem (volatility_BollingerBandWidth_Compute (T:=R) cfg (EIn 0)) [xs].
Proof. intros. apply inv_single. apply sc_BollingerBandWidth with (k := lambda); fin_tac. Qed.
Theorem C18_PercentB : forall cfg lambda xs, 0 < lambda ->
  sem (volatility_PercentB_Compute (T:=R) cfg (EIn 0)) [map (Rmult lambda) xs]
  = sem (volatility_PercentB_Compute (T:=R) cfg (EIn 0)) [xs].
Proof. intros. apply inv_single. apply sc_PercentB with (k := lambda); fin_tac. Qed.
Theorem C18_Po : forall cfg lambda hs ls cs, 0 < lambda ->
  sem (volatility_Po_Compute (T:=R) cfg (EIn 0) (EIn 1) (EIn 2)) [map (Rmult lambda) hs; map (Rmult lambda) ls; map (Rmult lambda) cs]
  = sem (volatility_Po_Compute (T:=R) cfg (EIn 0) (EIn 1) (EIn 2)) [hs; ls; cs].
Proof.
  intros. apply (@inv_multi _ lambda) with (env := [hs; ls; cs]).
  apply sc_Po with (k := lambda); fin_tac.
Qed.
Theorem C18_ChandelierExit_long : forall cfg lambda hs ls cs, 0 < lambda ->
  sem (fst (volatility_ChandelierExit_Compute (T:=R) cfg (EIn 0) (EIn 1) (EIn 2))) [map (Rmult lambda) hs; map (Rmult lambda) ls; map (Rmult lambda) cs]
  = map (Rmult (lambda ^ 1)) (sem (fst (volatility_ChandelierExit_Compute (T:=R) cfg (EIn 0) (EIn 1) (EIn 2))) [hs; ls; cs]).
Proof.
  intros. rewrite pow_1. apply (@hom_multi _ lambda lambda) with (env := [hs; ls; cs]).
  apply sc_ChandelierExit_long; fin_tac.
Qed.
Theorem C18_ChandelierExit_short : forall cfg lambda hs ls cs, 0 < lambda ->
  sem (snd (volatility_ChandelierExit_Compute (T:=R) cfg (EIn 0) (EIn 1) (EIn 2))) [map (Rmult lambda) hs; map (Rmult lambda) ls; map (Rmult lambda) cs]
  = map (Rmult (lambda ^ 1)) (sem (snd (volatility_ChandelierExit_Compute (T:=R) cfg (EIn 0) (EIn 1) (EIn 2))) [hs; ls; cs]).
Proof.
  intros. rewrite pow_1. apply (@hom_multi _ lambda lambda) with (env := [hs; ls; cs]).
  apply sc_ChandelierExit_short; fin_tac.
Qed.
Theorem C18_SuperTrend : forall cfg lambda hs ls cs, 0 < lambda -> ma_hom (volatility_Atr_Ma (volatility_SuperTrend_Atr cfg)) ->
  sem (volatility_SuperTrend_Compute (T:=R) cfg (EIn 0) (EIn 1) (EIn 2)) [map (Rmult lambda) hs; map (Rmult lambda) ls; map (Rmult lambda) cs]
  = map (Rmult (lambda ^ 1)) (sem (volatility_SuperTrend_Compute (T:=R) cfg (EIn 0) (EIn 1) (EIn 2)) [hs; ls; cs]).
Proof.
  intros. rewrite pow_1. apply (@hom_multi _ lambda lambda) with (env := [hs; ls; cs]).
  apply sc_SuperTrend; fin_tac.
Qed.
Theorem C18_UlcerIndex : forall cfg lambda xs, 0 < lambda ->
  sem (volatility_UlcerIndex_Compute (T:=R) cfg (EIn 0)) [map (Rmult lambda) xs]
  = sem (volatility_UlcerIndex_Compute (T:=R) cfg (EIn 0)) [xs].
Proof. intros. apply inv_single. apply sc_UlcerIndex with (k := lambda); fin_tac. Qed.
(* ---- volume: prices scaled by lambda AND volumes scaled by mu ---- *)
Theorem C18_Cmf : forall cfg lambda mu hs ls cs vs, 0 < lambda -> 0 < mu ->
  sem (volume_Cmf_Compute (T:=R) cfg (EIn 0) (EIn 1) (EIn 2) (EIn 3)) [map (Rmult lambda) hs; map (Rmult lambda) ls; map (Rmult lambda) cs; map (Rmult mu) vs]
  = sem (volume_Cmf_Compute (T:=R) cfg (EIn 0) (EIn 1) (EIn 2) (EIn 3)) [hs; ls; cs; vs].
Proof.
  intros cfg l m hs ls cs vs Hl Hm. intros. apply F2_eq.
  apply escal_sound with (RI := fun k => match k with 3%nat => sc m | _ => sc l end).
  - apply sc_Cmf with (l := l) (m := m); fin_tac.
  - env_tac.
Qed.
Theorem C18_Mfi : forall cfg lambda mu hs ls cs vs, 0 < lambda -> 0 < mu ->
  sem (volume_Mfi_Compute (T:=R) cfg (EIn 0) (EIn 1) (EIn 2) (EIn 3)) [map (Rmult lambda) hs; map (Rmult lambda) ls; map (Rmult lambda) cs; map (Rmult mu) vs]
  = sem (volume_Mfi_Compute (T:=R) cfg (EIn 0) (EIn 1) (EIn 2) (EIn 3)) [hs; ls; cs; vs].
Proof.
  intros cfg l m hs ls cs vs Hl Hm. intros. apply F2_eq.
  apply escal_sound with (RI := fun k => match k with 3%nat => sc m | _ => sc l end).
  - apply sc_Mfi with (l := l) (m := m); fin_tac.
  - env_tac.
Qed.
Theorem C18_Fi : forall cfg lambda mu cs vs, 0 < lambda -> 0 < mu ->
  sem (volume_Fi_Compute (T:=R) cfg (EIn 0) (EIn 1)) [map (Rmult lambda) cs; map (Rmult mu) vs]
  = map (Rmult (lambda ^ 1 * mu ^ 1)) (sem (volume_Fi_Compute (T:=R) cfg (EIn 0) (EIn 1)) [cs; vs]).
Proof.
  intros cfg l m cs vs Hl Hm. intros. replace (l ^ 1 * m ^ 1) with (l * m) by (simpl; ring). apply F2_sc_map.
  apply escal_sound with (RI := fun k => match k with O => sc l | _ => sc m end).
  - apply sc_Fi; fin_tac.
  - env_tac.
Qed.
Theorem C18_Vpt : forall cfg lambda mu cs vs, 0 < lambda -> 0 < mu ->
  sem (volume_Vpt_Compute (T:=R) cfg (EIn 0) (EIn 1)) [map (Rmult lambda) cs; map (Rmult mu) vs]
  = map (Rmult (lambda ^ 0 * mu ^ 1)) (sem (volume_Vpt_Compute (T:=R) cfg (EIn 0) (EIn 1)) [cs; vs]).
Proof.
  intros cfg l m cs vs Hl Hm. intros. replace (l ^ 0 * m ^ 1) with (m) by (simpl; ring). apply F2_sc_map.
  apply escal_sound with (RI := fun k => match k with O => sc l | _ => sc m end).
  - apply sc_Vpt with (l := l); fin_tac.
  - env_tac.
Qed.
Theorem C18_Nvi : forall cfg lambda mu cs vs, 0 < lambda -> 0 < mu ->
  sem (volume_Nvi_Compute (T:=R) cfg (EIn 0) (EIn 1)) [map (Rmult lambda) cs; map (Rmult mu) vs]
  = sem (volume_Nvi_Compute (T:=R) cfg (EIn 0) (EIn 1)) [cs; vs].
Proof.
  intros cfg l m cs vs Hl Hm. intros. apply F2_eq.
  apply escal_sound with (RI := fun k => match k with O => sc l | _ => sc m end).
  - apply sc_Nvi with (l := l) (m := m); fin_tac.
  - env_tac.
Qed.

(* Ease of movement: degree 2 in the price unit, -1 in the volume unit *)
Theorem C18_Emv : forall cfg lambda mu hs ls vs, 0 < lambda -> 0 < mu ->
  sem (volume_Emv_Compute (T:=R) cfg (EIn 0) (EIn 1) (EIn 2)) [map (Rmult lambda) hs; map (Rmult lambda) ls; map (Rmult mu) vs]
  = map (Rmult (lambda ^ 2 * / mu ^ 1)) (sem (volume_Emv_Compute (T:=R) cfg (EIn 0) (EIn 1) (EIn 2)) [hs; ls; vs]).
Proof.
  intros cfg l m hs ls vs Hl Hm. replace (l ^ 2 * / m ^ 1) with (l / (m / l)) by (field; lra). apply F2_sc_map.
  apply escal_sound with (RI := fun k => match k with 2%nat => sc m | _ => sc l end).
  - apply sc_Emv; fin_tac.
  - env_tac.
Qed.

(* the moving averages the library's constructors plug in satisfy the hypotheses above *)
Lemma ma_ok_NewAtrWithPeriod I p : ma_hom (volatility_Atr_Ma (volatility_NewAtrWithPeriod (I:=I) p)).
Proof. apply ma_hom_Sma. Qed.
Lemma ma_ok_NewKeltnerChannelWithPeriod I p :
  ma_hom (volatility_Atr_Ma (volatility_KeltnerChannel_Atr (volatility_NewKeltnerChannelWithPeriod (I:=I) p))).
Proof. apply ma_hom_Sma. Qed.
Lemma ma_ok_NewSuperTrendWithPeriod I p mul :
  ma_hom (volatility_Atr_Ma (volatility_SuperTrend_Atr (volatility_NewSuperTrendWithPeriod (I:=I) p mul))).
Proof. apply ma_hom_Hma. Qed.
Lemma ma_ok_NewTsiWith I a b :
  ma_hom (trend_Tsi_FirstSmoothing (trend_NewTsiWith (I:=I) a b)) /\ ma_hom (trend_Tsi_SecondSmoothing (trend_NewTsiWith (I:=I) a b)).
Proof. split; apply ma_hom_Ema. Qed.
Lemma ma_ok_NewEnvelopeWithSma I : ma_hom (trend_Envelope_Ma (trend_NewEnvelopeWithSma (I:=I))).
Proof. apply ma_hom_Sma. Qed.
Lemma ma_ok_NewEnvelopeWithEma I : ma_hom (trend_Envelope_Ma (trend_NewEnvelopeWithEma (I:=I))).
Proof. apply ma_hom_Ema. Qed.
Corollary C18_SuperTrend_default : forall lambda hs ls cs, 0 < lambda ->
  sem (volatility_SuperTrend_Compute (T:=R) volatility_NewSuperTrend (EIn 0) (EIn 1) (EIn 2))
      [map (Rmult lambda) hs; map (Rmult lambda) ls; map (Rmult lambda) cs]
  = map (Rmult (lambda ^ 1)) (sem (volatility_SuperTrend_Compute (T:=R) volatility_NewSuperTrend (EIn 0) (EIn 1) (EIn 2)) [hs; ls; cs]).
Proof. intros. apply C18_SuperTrend; auto. apply ma_ok_NewSuperTrendWithPeriod. Qed.
Corollary C18_Tsi_default : forall lambda xs, 0 < lambda ->
  sem (trend_Tsi_Compute (T:=R) trend_NewTsi (EIn 0)) [map (Rmult lambda) xs] = sem (trend_Tsi_Compute (T:=R) trend_NewTsi (EIn 0)) [xs].
Proof. intros. apply C18_Tsi; auto; apply ma_ok_NewTsiWith. Qed.
Corollary C18_Atr_default : forall lambda hs ls cs, 0 < lambda ->
  sem (volatility_Atr_Compute (T:=R) volatility_NewAtr (EIn 0) (EIn 1) (EIn 2))
      [map (Rmult lambda) hs; map (Rmult lambda) ls; map (Rmult lambda) cs]
  = map (Rmult (lambda ^ 1)) (sem (volatility_Atr_Compute (T:=R) volatility_NewAtr (EIn 0) (EIn 1) (EIn 2)) [hs; ls; cs]).
Proof. intros. apply C18_Atr; auto. apply ma_ok_NewAtrWithPeriod. Qed.

(* ========================================================================================== *)
(* Part 4: strategies.  Snapshots with prices scaled by lambda and volumes by mu: the actions do not change.
   Every decision of the base strategies compares two quantities of the same degree, or a quantity of some degree
   with 0, or a quantity of degree 0 with a fixed level. *)

Definition strat_inv {I} (l m : R) (s : @strategy_Strategy I R) : Prop :=
  forall (RI : nat -> I -> I -> Prop) e, escal RI (snap_sc l m) e -> escal RI eq (strategy_Strategy_Compute s e).

Section Strategies.
Context {I : Type} (RI : nat -> I -> I -> Prop).
Variables (l m : R).
Hypothesis (Hl : 0 < l) (Hm : 0 < m).
Variable e : expr I (asset_Snapshot (T:=R)).
Hypothesis He : escal RI (snap_sc l m) e.
Notation escalI := (escal RI).

Lemma st_Closings : escalI (sc l) (asset_SnapshotsAsClosings e).
Proof. unfold asset_SnapshotsAsClosings. eapply sc_map; eauto. intros a b Hab. unfold snap_sc in Hab; subst. reflexivity. Qed.
Lemma st_Highs : escalI (sc l) (asset_SnapshotsAsHighs e).
Proof. unfold asset_SnapshotsAsHighs. eapply sc_map; eauto. intros a b Hab. unfold snap_sc in Hab; subst. reflexivity. Qed.
Lemma st_Lows : escalI (sc l) (asset_SnapshotsAsLows e).
Proof. unfold asset_SnapshotsAsLows. eapply sc_map; eauto. intros a b Hab. unfold snap_sc in Hab; subst. reflexivity. Qed.
Lemma st_Openings : escalI (sc l) (asset_SnapshotsAsOpenings e).
Proof. unfold asset_SnapshotsAsOpenings. eapply sc_map; eauto. intros a b Hab. unfold snap_sc in Hab; subst. reflexivity. Qed.
Lemma st_Volumes : escalI (sc m) (asset_SnapshotsAsVolumes e).
Proof. unfold asset_SnapshotsAsVolumes. eapply sc_map; eauto. intros a b Hab. unfold snap_sc in Hab; subst. reflexivity. Qed.
Let Hc := st_Closings. Let Hh := st_Highs. Let Hlo := st_Lows. Let Ho := st_Openings. Let Hv := st_Volumes.

Lemma sc_SyncPeriod A (RA : A -> A -> Prop) cp p (c : expr I A) : escalI RA c -> escalI RA (helper_SyncPeriod cp p c).
Proof. intros. unfold helper_SyncPeriod. destruct (Z.gtb (Z.sub cp p) 0); auto. apply sc_skip; auto. Qed.
Lemma eq_Denormalize (a : expr I Z) : escalI eq a -> escalI eq (strategy_DenormalizeActions a).
Proof. intros. unfold strategy_DenormalizeActions. apply eq_mapst; auto. Qed.

(* actions from two / three series of degree 1, or from one series of some degree compared with 0 *)
Ltac act_shift := try (apply sc_shift; [|reflexivity]).
Ltac act2 := eapply sc_op2 with (RA := sc l) (RB := sc l); [ | | cmp_tac Hl].
Ltac act3 := eapply sc_op3 with (RA := sc l) (RB := sc l) (RC := sc l); [ | | | cmp_tac Hl].
Ltac act1 := eapply sc_map with (RA := sc l); [ | cmp_tac Hl].

(* ---- strategy/momentum ---- *)
Lemma st_AwesomeOscillatorStrategy cfg : escalI eq (strategy_momentum_AwesomeOscillatorStrategy_Compute cfg e).
Proof.
  unfold strategy_momentum_AwesomeOscillatorStrategy_Compute; cbv zeta. act_shift. act1.
  apply sc_AwesomeOscillator; auto.
Qed.
Lemma st_RsiStrategy cfg : escalI eq (strategy_momentum_RsiStrategy_Compute cfg e).
Proof.
  unfold strategy_momentum_RsiStrategy_Compute; cbv zeta. act_shift. apply eq_map. apply sc_Rsi with (k := l); auto.
Qed.
Lemma st_StochasticRsiStrategy cfg : escalI eq (strategy_momentum_StochasticRsiStrategy_Compute cfg e).
Proof.
  unfold strategy_momentum_StochasticRsiStrategy_Compute; cbv zeta. act_shift. apply eq_map.
  apply sc_StochasticRsi with (k := l); auto.
Qed.
Lemma st_TripleRsiStrategy cfg : escalI eq (strategy_momentum_TripleRsiStrategy_Compute cfg e).
Proof.
  unfold strategy_momentum_TripleRsiStrategy_Compute; cbv zeta. act_shift.
  eapply sc_op3st with (RS := eq) (RA := eq) (RB := sc l) (RC := sc l); auto.
  - apply sc_skip. apply sc_Rsi with (k := l); auto.
  - sc_auto.
  - sc_auto.
  - intros s t x x' y y' z z' Hs Hx Hy Hz. unfold sc in *. subst.
    pose proof (Rleb_scale z y Hl) as E. change (nleb (l * z) (l * y) = nleb z y) in E.
    cbv beta. rewrite E. split; reflexivity.
Qed.

(* ---- strategy/trend ---- *)
Lemma st_MacdStrategy cfg : escalI eq (strategy_trend_MacdStrategy_Compute cfg e).
Proof.
  pose proof (sc_Macd_fst (strategy_trend_MacdStrategy_Macd cfg) Hc) as H1.
  pose proof (sc_Macd_snd (strategy_trend_MacdStrategy_Macd cfg) Hc) as H2.
  unfold strategy_trend_MacdStrategy_Compute.
  destruct (trend_Macd_Compute (strategy_trend_MacdStrategy_Macd cfg) (asset_SnapshotsAsClosings e)) as [macds signals].
  simpl in H1, H2. act_shift. act2; auto.
Qed.
Lemma st_AlligatorStrategy cfg : escalI eq (strategy_trend_AlligatorStrategy_Compute cfg e).
Proof.
  unfold strategy_trend_AlligatorStrategy_Compute; cbv zeta. act_shift. act3; apply sc_SyncPeriod; sc_auto.
Qed.
Lemma st_ApoStrategy cfg : escalI eq (strategy_trend_ApoStrategy_Compute cfg e).
Proof.
  pose proof (sc_Apo (strategy_trend_ApoStrategy_Apo cfg) Hc).
  unfold strategy_trend_ApoStrategy_Compute; cbv zeta. act_shift. act2; sc_auto.
Qed.
Lemma st_AroonStrategy cfg : escalI eq (strategy_trend_AroonStrategy_Compute cfg e).
Proof.
  pose proof (sc_Aroon_up (strategy_trend_AroonStrategy_Aroon cfg) Hl Hh Hlo) as H1.
  pose proof (sc_Aroon_down (strategy_trend_AroonStrategy_Aroon cfg) Hl Hh Hlo) as H2.
  unfold strategy_trend_AroonStrategy_Compute; cbv zeta.
  destruct (trend_Aroon_Compute (strategy_trend_AroonStrategy_Aroon cfg) (asset_SnapshotsAsHighs e) (asset_SnapshotsAsLows e)) as [ups downs].
  simpl in H1, H2. act_shift. apply eq_op2; auto.
Qed.
Lemma st_BopStrategy cfg : escalI eq (strategy_trend_BopStrategy_Compute cfg e).
Proof.
  unfold strategy_trend_BopStrategy_Compute; cbv zeta. apply eq_map. apply sc_Bop with (k := l); auto. lra.
Qed.
Lemma st_CciStrategy cfg : escalI eq (strategy_trend_CciStrategy_Compute cfg e).
Proof.
  unfold strategy_trend_CciStrategy_Compute; cbv zeta. act_shift. apply eq_map. apply sc_Cci with (k := l); auto.
Qed.
Lemma st_DemaStrategy cfg : escalI eq (strategy_trend_DemaStrategy_Compute cfg e).
Proof.
  pose proof (sc_Dema (strategy_trend_DemaStrategy_Dema1 cfg) Hc). pose proof (sc_Dema (strategy_trend_DemaStrategy_Dema2 cfg) Hc).
  unfold strategy_trend_DemaStrategy_Compute; cbv zeta. act_shift. apply sc_skip. act2; sc_auto.
Qed.
Lemma st_EnvelopeStrategy cfg : ma_hom (trend_Envelope_Ma (strategy_trend_EnvelopeStrategy_Envelope cfg)) ->
  escalI eq (strategy_trend_EnvelopeStrategy_Compute cfg e).
Proof.
  intros Hma. unfold strategy_trend_EnvelopeStrategy_Compute, trend_Envelope_Compute; simpl. act_shift. act3; sc_auto.
Qed.
Lemma st_GoldenCrossStrategy cfg : escalI eq (strategy_trend_GoldenCrossStrategy_Compute cfg e).
Proof.
  unfold strategy_trend_GoldenCrossStrategy_Compute, strategy_trend_GoldenCrossStrategy_calculateEmas; simpl.
  act_shift. act2; sc_auto.
Qed.
Lemma st_KamaStrategy cfg : escalI eq (strategy_trend_KamaStrategy_Compute cfg e).
Proof.
  pose proof (sc_Kama (strategy_trend_KamaStrategy_Kama cfg) Hl Hc).
  unfold strategy_trend_KamaStrategy_Compute; cbv zeta. act_shift. act2; sc_auto.
Qed.
Lemma st_KdjStrategy cfg : escalI eq (strategy_trend_KdjStrategy_Compute cfg e).
Proof.
  pose proof (sc_Kdj_k (strategy_trend_KdjStrategy_Kdj cfg) Hl Hh Hlo Hc) as H1.
  pose proof (sc_Kdj_d (strategy_trend_KdjStrategy_Kdj cfg) Hl Hh Hlo Hc) as H2.
  pose proof (sc_Kdj_j (strategy_trend_KdjStrategy_Kdj cfg) Hl Hh Hlo Hc) as H3.
  unfold strategy_trend_KdjStrategy_Compute; cbv zeta.
  destruct (trend_Kdj_Compute (strategy_trend_KdjStrategy_Kdj cfg) (asset_SnapshotsAsHighs e) (asset_SnapshotsAsLows e)
              (asset_SnapshotsAsClosings e)) as [[k d] j].
  simpl in H1, H2, H3. act_shift. apply eq_op2; apply eq_Subtract; auto.
Qed.
Lemma st_QstickStrategy cfg : escalI eq (strategy_trend_QstickStrategy_Compute cfg e).
Proof.
  pose proof (sc_Qstick (strategy_trend_QstickStrategy_Qstick cfg) Ho Hc).
  unfold strategy_trend_QstickStrategy_Compute; cbv zeta. act_shift. act2; sc_auto.
Qed.
Lemma st_SmmaStrategy cfg : escalI eq (strategy_trend_SmmaStrategy_Compute cfg e).
Proof.
  unfold strategy_trend_SmmaStrategy_Compute; cbv zeta. act_shift. act2; apply sc_SyncPeriod; sc_auto.
Qed.
Lemma st_TrimaStrategy cfg : escalI eq (strategy_trend_TrimaStrategy_Compute cfg e).
Proof. unfold strategy_trend_TrimaStrategy_Compute; cbv zeta. act_shift. act2; sc_auto. Qed.
Lemma st_TripleMovingAverageCrossoverStrategy cfg :
  escalI eq (strategy_trend_TripleMovingAverageCrossoverStrategy_Compute cfg e).
Proof.
  unfold strategy_trend_TripleMovingAverageCrossoverStrategy_Compute,
    strategy_trend_TripleMovingAverageCrossoverStrategy_calculateEmas; simpl.
  act_shift. act3; sc_auto.
Qed.
Lemma st_TrixStrategy cfg : escalI eq (strategy_trend_TrixStrategy_Compute cfg e).
Proof.
  unfold strategy_trend_TrixStrategy_Compute; cbv zeta. act_shift. apply eq_map. apply sc_Trix with (k := l); auto.
Qed.
Lemma st_TsiStrategy cfg :
  ma_hom (trend_Tsi_FirstSmoothing (strategy_trend_TsiStrategy_Tsi cfg)) ->
  ma_hom (trend_Tsi_SecondSmoothing (strategy_trend_TsiStrategy_Tsi cfg)) ->
  ma_hom (strategy_trend_TsiStrategy_Signal cfg) ->
  escalI eq (strategy_trend_TsiStrategy_Compute cfg e).
Proof.
  intros H1 H2 H3. pose proof (sc_Tsi (strategy_trend_TsiStrategy_Tsi cfg) Hl H1 H2 Hc) as Ht.
  unfold strategy_trend_TsiStrategy_Compute; cbv zeta. act_shift. apply eq_op2.
  - apply sc_skip; auto.
  - apply sc1_eq. apply H3. lra. apply eq_sc1; auto.
Qed.
Lemma st_VwmaStrategy cfg : escalI eq (strategy_trend_VwmaStrategy_Compute cfg e).
Proof.
  unfold strategy_trend_VwmaStrategy_Compute, strategy_trend_VwmaStrategy_calculateSmaAndVwma; simpl.
  act_shift. act2. sc_auto. apply sc_Vwma with (m := m); auto. lra.
Qed.
Lemma st_WeightedCloseStrategy cfg : ma_hom (strategy_trend_WeightedCloseStrategy_Ma cfg) ->
  escalI eq (strategy_trend_WeightedCloseStrategy_Compute cfg e).
Proof.
  intros Hma. pose proof (sc_WeightedClose (strategy_trend_WeightedCloseStrategy_WeightedClose cfg) Hh Hlo Hc).
  unfold strategy_trend_WeightedCloseStrategy_Compute; cbv zeta. act_shift. act2; sc_auto.
Qed.

(* ---- strategy/volatility ---- *)
Lemma st_BollingerBandsStrategy cfg : escalI eq (strategy_volatility_BollingerBandsStrategy_Compute cfg e).
Proof.
  unfold strategy_volatility_BollingerBandsStrategy_Compute, volatility_BollingerBands_Compute; simpl.
  act_shift. act3; sc_auto.
Qed.
Lemma st_SuperTrendStrategy cfg :
  ma_hom (volatility_Atr_Ma (volatility_SuperTrend_Atr (strategy_volatility_SuperTrendStrategy_SuperTrend cfg))) ->
  escalI eq (strategy_volatility_SuperTrendStrategy_Compute cfg e).
Proof.
  intros Hma. pose proof (sc_SuperTrend (strategy_volatility_SuperTrendStrategy_SuperTrend cfg) Hl Hma Hh Hlo Hc).
  unfold strategy_volatility_SuperTrendStrategy_Compute; cbv zeta. act_shift. act2; sc_auto.
Qed.

(* ---- strategy/volume ---- *)
Lemma st_ChaikinMoneyFlowStrategy cfg : escalI eq (strategy_volume_ChaikinMoneyFlowStrategy_Compute cfg e).
Proof.
  unfold strategy_volume_ChaikinMoneyFlowStrategy_Compute; cbv zeta. act_shift. apply eq_map.
  apply sc_Cmf with (l := l) (m := m); auto; lra.
Qed.
Lemma st_EaseOfMovementStrategy cfg : escalI eq (strategy_volume_EaseOfMovementStrategy_Compute cfg e).
Proof.
  assert (Hk : 0 < l / (m / l)) by (apply Rdiv_lt_0_compat; [|apply Rdiv_lt_0_compat]; lra).
  unfold strategy_volume_EaseOfMovementStrategy_Compute; cbv zeta. act_shift.
  eapply sc_map with (RA := sc (l / (m / l))); [apply sc_Emv; auto | cmp_tac Hk].
Qed.
Lemma st_ForceIndexStrategy cfg : escalI eq (strategy_volume_ForceIndexStrategy_Compute cfg e).
Proof.
  pose proof (Rmult_lt_0_compat _ _ Hl Hm) as Hlm.
  unfold strategy_volume_ForceIndexStrategy_Compute; cbv zeta. act_shift.
  eapply sc_map with (RA := sc (l * m)); [apply sc_Fi; auto | cmp_tac Hlm].
Qed.
Lemma st_MoneyFlowIndexStrategy cfg : escalI eq (strategy_volume_MoneyFlowIndexStrategy_Compute cfg e).
Proof.
  unfold strategy_volume_MoneyFlowIndexStrategy_Compute; cbv zeta. act_shift. apply eq_map.
  apply sc_Mfi with (l := l) (m := m); auto.
Qed.
Lemma st_NegativeVolumeIndexStrategy cfg : escalI eq (strategy_volume_NegativeVolumeIndexStrategy_Compute cfg e).
Proof.
  assert (Hn : escalI eq (volume_Nvi_Compute (strategy_volume_NegativeVolumeIndexStrategy_NegativeVolumeIndex cfg)
                 (asset_SnapshotsAsClosings e) (asset_SnapshotsAsVolumes e)))
    by (apply sc_Nvi with (l := l) (m := m); auto; lra).
  unfold strategy_volume_NegativeVolumeIndexStrategy_Compute; cbv zeta. act_shift. apply eq_op2; repeat eq_step.
Qed.
Lemma st_WeightedAveragePriceStrategy cfg : escalI eq (strategy_volume_WeightedAveragePriceStrategy_Compute cfg e).
Proof.
  unfold strategy_volume_WeightedAveragePriceStrategy_Compute; cbv zeta. act_shift. act2. sc_auto.
  apply sc_Vwap with (m := m); auto. lra.
Qed.

(* ---- strategy: buy and hold, compound ---- *)
Lemma st_BuyAndHoldStrategy cfg : escalI eq (strategy_BuyAndHoldStrategy_Compute cfg e).
Proof. unfold strategy_BuyAndHoldStrategy_Compute. eapply sc_buyhold; eauto. Qed.
Lemma st_MacdRsiStrategy cfg : escalI eq (strategy_compound_MacdRsiStrategy_Compute cfg e).
Proof.
  unfold strategy_compound_MacdRsiStrategy_Compute; cbv zeta.
  apply eq_op2; apply eq_Denormalize. apply st_MacdStrategy. apply st_RsiStrategy.
Qed.

(* ---- decorators over an invariant inner strategy ---- *)
Lemma st_InverseStrategy cfg : strat_inv l m (strategy_decorator_InverseStrategy_InnerStrategy cfg) ->
  escalI eq (strategy_decorator_InverseStrategy_Compute cfg e).
Proof. intros Hin. unfold strategy_decorator_InverseStrategy_Compute. apply eq_map. apply Hin; auto. Qed.
(* NoLoss remembers the closing at which it bought and sells only above it: both of degree 1 *)
Lemma st_NoLossStrategy cfg : strat_inv l m (strategy_decorator_NoLossStrategy_InnertStrategy cfg) ->
  escalI eq (strategy_decorator_NoLossStrategy_Compute cfg e).
Proof.
  intros Hin. unfold strategy_decorator_NoLossStrategy_Compute; cbv zeta.
  eapply sc_op2st with (RS := sc l) (RA := eq) (RB := sc l); [apply Hin; auto | auto | sc_arith | ].
  intros s t x x' y y' Hs Hx Hy. unfold sc in *. subst. cmp_norm Hl.
    repeat match goal with |- context [if ?b then _ else _] => destruct b end; simpl; split; auto; ring.
Qed.
(* StopLoss sells when closing <= closing_at_buy * (1 - percentage): both sides of degree 1 *)
Lemma st_StopLossStrategy cfg : strat_inv l m (strategy_decorator_StopLossStrategy_InnertStrategy cfg) ->
  escalI eq (strategy_decorator_StopLossStrategy_Compute cfg e).
Proof.
  intros Hin. unfold strategy_decorator_StopLossStrategy_Compute; cbv zeta.
  eapply sc_op2st with (RS := sc l) (RA := eq) (RB := sc l); [apply Hin; auto | auto | sc_arith | ].
  intros s t x x' y y' Hs Hx Hy. unfold sc in *. subst. cmp_norm Hl.
    repeat match goal with |- context [if ?b then _ else _] => destruct b end; simpl; split; auto; ring.
Qed.

(* ---- combinators over invariant strategies ---- *)
Lemma eq_count_actions (dflt : expr I (Z * Z * Z)) (sources : list (expr I Z)) :
  escalI eq dflt -> Forall (escalI eq) sources -> escalI eq (count_actions dflt sources).
Proof.
  intros Hd Hs. unfold count_actions. destruct Hs as [|s0 rest H0 Hrest]; auto.
  assert (Hacc : escalI eq (EMap tally0 s0)) by (apply eq_map; auto).
  revert Hacc. generalize (EMap tally0 s0). induction Hrest; intros acc Hacc; simpl; auto.
  apply IHHrest. apply eq_op2; auto.
Qed.
Lemma eq_ActionSources (ss : list (@strategy_Strategy I R)) :
  Forall (strat_inv l m) ss -> Forall (escalI eq) (strategy_ActionSources ss e).
Proof.
  intros H. unfold strategy_ActionSources. induction H; simpl; constructor; auto.
  apply eq_Denormalize. apply H; auto.
Qed.
Lemma eq_dflt : escalI eq (EMap (fun _ : asset_Snapshot (T:=R) => (0, 0, 0)%Z) (EHead 0%Z e)).
Proof. eapply sc_map. apply sc_head; eauto. reflexivity. Qed.
Lemma st_AndStrategy cfg : Forall (strat_inv l m) (strategy_AndStrategy_Strategies cfg) ->
  escalI eq (strategy_AndStrategy_Compute cfg e).
Proof.
  intros. unfold strategy_AndStrategy_Compute; cbv zeta. apply eq_map.
  apply eq_count_actions. apply eq_dflt. apply eq_ActionSources; auto.
Qed.
Lemma st_OrStrategy cfg : Forall (strat_inv l m) (strategy_OrStrategy_Strategies cfg) ->
  escalI eq (strategy_OrStrategy_Compute cfg e).
Proof.
  intros. unfold strategy_OrStrategy_Compute; cbv zeta. apply eq_map.
  apply eq_count_actions. apply eq_dflt. apply eq_ActionSources; auto.
Qed.
Lemma st_MajorityStrategy cfg : Forall (strat_inv l m) (strategy_MajorityStrategy_Strategies cfg) ->
  escalI eq (strategy_MajorityStrategy_Compute cfg e).
Proof.
  intros. unfold strategy_MajorityStrategy_Compute; cbv zeta. apply eq_map.
  apply eq_count_actions. apply eq_dflt. apply eq_ActionSources; auto.
Qed.
Lemma st_SplitStrategy cfg : strat_inv l m (strategy_SplitStrategy_BuyStrategy cfg) ->
  strat_inv l m (strategy_SplitStrategy_SellStrategy cfg) -> escalI eq (strategy_SplitStrategy_Compute cfg e).
Proof. intros H1 H2. unfold strategy_SplitStrategy_Compute; cbv zeta. apply eq_op2; [apply H1 | apply H2]; auto. Qed.

End Strategies.

(* ---- final statements for the strategies ---- *)
Theorem C18_AwesomeOscillatorStrategy : forall cfg lambda mu ss, 0 < lambda ->
  sem (strategy_momentum_AwesomeOscillatorStrategy_Compute (T:=R) cfg (EIn 0)) [map (scale_snap lambda mu) ss]
  = sem (strategy_momentum_AwesomeOscillatorStrategy_Compute (T:=R) cfg (EIn 0)) [ss].
Proof. intros. apply inv_strategy. apply st_AwesomeOscillatorStrategy with (l := lambda) (m := mu); fin_tac. Qed.
Theorem C18_StochasticRsiStrategy : forall cfg lambda mu ss, 0 < lambda ->
  sem (strategy_momentum_StochasticRsiStrategy_Compute (T:=R) cfg (EIn 0)) [map (scale_snap lambda mu) ss]
  = sem (strategy_momentum_StochasticRsiStrategy_Compute (T:=R) cfg (EIn 0)) [ss].
Proof. intros. apply inv_strategy. apply st_StochasticRsiStrategy with (l := lambda) (m := mu); fin_tac. Qed.
Theorem C18_TripleRsiStrategy : forall cfg lambda mu ss, 0 < lambda ->
  sem (strategy_momentum_TripleRsiStrategy_Compute (T:=R) cfg (EIn 0)) [map (scale_snap lambda mu) ss]
  = sem (strategy_momentum_TripleRsiStrategy_Compute (T:=R) cfg (EIn 0)) [ss].
Proof. intros. apply inv_strategy. apply st_TripleRsiStrategy with (l := lambda) (m := mu); fin_tac. Qed.
Theorem C18_AlligatorStrategy : forall cfg lambda mu ss, 0 < lambda ->
  sem (strategy_trend_AlligatorStrategy_Compute (T:=R) cfg (EIn 0)) [map (scale_snap lambda mu) ss]
  = sem (strategy_trend_AlligatorStrategy_Compute (T:=R) cfg (EIn 0)) [ss].
Proof. intros. apply inv_strategy. apply st_AlligatorStrategy with (l := lambda) (m := mu); fin_tac. Qed.
Theorem C18_ApoStrategy : forall cfg lambda mu ss, 0 < lambda ->
  sem (strategy_trend_ApoStrategy_Compute (T:=R) cfg (EIn 0)) [map (scale_snap lambda mu) ss]
  = sem (strategy_trend_ApoStrategy_Compute (T:=R) cfg (EIn 0)) [ss].
Proof. intros. apply inv_strategy. apply st_ApoStrategy with (l := lambda) (m := mu); fin_tac. Qed.
Theorem C18_AroonStrategy : forall cfg lambda mu ss, 0 < lambda ->
  sem (strategy_trend_AroonStrategy_Compute (T:=R) cfg (EIn 0)) [map (scale_snap lambda mu) ss]
  = sem (strategy_trend_AroonStrategy_Compute (T:=R) cfg (EIn 0)) [ss].
Proof. intros. apply inv_strategy. apply st_AroonStrategy with (l := lambda) (m := mu); fin_tac. Qed.
Theorem C18_BopStrategy : forall cfg lambda mu ss, 0 < lambda ->
  sem (strategy_trend_BopStrategy_Compute (T:=R) cfg (EIn 0)) [map (scale_snap lambda mu) ss]
  = sem (strategy_trend_BopStrategy_Compute (T:=R) cfg (EIn 0)) [ss].
Proof. intros. apply inv_strategy. apply st_BopStrategy with (l := lambda) (m := mu); fin_tac. Qed.
Theorem C18_CciStrategy : forall cfg lambda mu ss, 0 < lambda ->
  sem (strategy_trend_CciStrategy_Compute (T:=R) cfg (EIn 0)) [map (scale_snap lambda mu) ss]
  = sem (strategy_trend_CciStrategy_Compute (T:=R) cfg (EIn 0)) [ss].
Proof. intros. apply inv_strategy. apply st_CciStrategy with (l := lambda) (m := mu); fin_tac. Qed.
Theorem C18_DemaStrategy : forall cfg lambda mu ss, 0 < lambda ->
  sem (strategy_trend_DemaStrategy_Compute (T:=R) cfg (EIn 0)) [map (scale_snap lambda mu) ss]
  = sem (strategy_trend_DemaStrategy_Compute (T:=R) cfg (EIn 0)) [ss].
Proof. intros. apply inv_strategy. apply st_DemaStrategy with (l := lambda) (m := mu); fin_tac. Qed.
Theorem C18_EnvelopeStrategy : forall cfg lambda mu ss, 0 < lambda -> ma_hom (trend_Envelope_Ma (strategy_trend_EnvelopeStrategy_Envelope cfg)) ->
  sem (strategy_trend_EnvelopeStrategy_Compute (T:=R) cfg (EIn 0)) [map (scale_snap lambda mu) ss]
  = sem (strategy_trend_EnvelopeStrategy_Compute (T:=R) cfg (EIn 0)) [ss].
Proof. intros. apply inv_strategy. apply st_EnvelopeStrategy with (l := lambda) (m := mu); fin_tac. Qed.
Theorem C18_GoldenCrossStrategy : forall cfg lambda mu ss, 0 < lambda ->
  sem (strategy_trend_GoldenCrossStrategy_Compute (T:=R) cfg (EIn 0)) [map (scale_snap lambda mu) ss]
  = sem (strategy_trend_GoldenCrossStrategy_Compute (T:=R) cfg (EIn 0)) [ss].
Proof. intros. apply inv_strategy. apply st_GoldenCrossStrategy with (l := lambda) (m := mu); fin_tac. Qed.
Theorem C18_KamaStrategy : forall cfg lambda mu ss, 0 < lambda ->
  sem (strategy_trend_KamaStrategy_Compute (T:=R) cfg (EIn 0)) [map (scale_snap lambda mu) ss]
  = sem (strategy_trend_KamaStrategy_Compute (T:=R) cfg (EIn 0)) [ss].
Proof. intros. apply inv_strategy. apply st_KamaStrategy with (l := lambda) (m := mu); fin_tac. Qed.
Theorem C18_KdjStrategy : forall cfg lambda mu ss, 0 < lambda ->
  sem (strategy_trend_KdjStrategy_Compute (T:=R) cfg (EIn 0)) [map (scale_snap lambda mu) ss]
  = sem (strategy_trend_KdjStrategy_Compute (T:=R) cfg (EIn 0)) [ss].
Proof. intros. apply inv_strategy. apply st_KdjStrategy with (l := lambda) (m := mu); fin_tac. Qed.
Theorem C18_QstickStrategy : forall cfg lambda mu ss, 0 < lambda ->
  sem (strategy_trend_QstickStrategy_Compute (T:=R) cfg (EIn 0)) [map (scale_snap lambda mu) ss]
  = sem (strategy_trend_QstickStrategy_Compute (T:=R) cfg (EIn 0)) [ss].
Proof. intros. apply inv_strategy. apply st_QstickStrategy with (l := lambda) (m := mu); fin_tac. Qed.
Theorem C18_SmmaStrategy : forall cfg lambda mu ss, 0 < lambda ->
  sem (strategy_trend_SmmaStrategy_Compute (T:=R) cfg (EIn 0)) [map (scale_snap lambda mu) ss]
  = sem (strategy_trend_SmmaStrategy_Compute (T:=R) cfg (EIn 0)) [ss].
Proof. intros. apply inv_strategy. apply st_SmmaStrategy with (l := lambda) (m := mu); fin_tac. Qed.
Theorem C18_TrimaStrategy : forall cfg lambda mu ss, 0 < lambda ->
  sem (strategy_trend_TrimaStrategy_Compute (T:=R) cfg (EIn 0)) [map (scale_snap lambda mu) ss]
  = sem (strategy_trend_TrimaStrategy_Compute (T:=R) cfg (EIn 0)) [ss].
Proof. intros. apply inv_strategy. apply st_TrimaStrategy with (l := lambda) (m := mu); fin_tac. Qed.
Theorem C18_TripleMovingAverageCrossoverStrategy : forall cfg lambda mu ss, 0 < lambda ->
  sem (strategy_trend_TripleMovingAverageCrossoverStrategy_Compute (T:=R) cfg (EIn 0)) [map (scale_snap lambda mu) ss]
  = sem (strategy_trend_TripleMovingAverageCrossoverStrategy_Compute (T:=R) cfg (EIn 0)) [ss].
Proof. intros. apply inv_strategy. apply st_TripleMovingAverageCrossoverStrategy with (l := lambda) (m := mu); fin_tac. Qed.
Theorem C18_TrixStrategy : forall cfg lambda mu ss, 0 < lambda ->
  sem (strategy_trend_TrixStrategy_Compute (T:=R) cfg (EIn 0)) [map (scale_snap lambda mu) ss]
  = sem (strategy_trend_TrixStrategy_Compute (T:=R) cfg (EIn 0)) [ss].
Proof. intros. apply inv_strategy. apply st_TrixStrategy with (l := lambda) (m := mu); fin_tac. Qed.
Theorem C18_TsiStrategy : forall cfg lambda mu ss, 0 < lambda -> ma_hom (trend_Tsi_FirstSmoothing (strategy_trend_TsiStrategy_Tsi cfg)) -> ma_hom (trend_Tsi_SecondSmoothing (strategy_trend_TsiStrategy_Tsi cfg)) -> ma_hom (strategy_trend_TsiStrategy_Signal cfg) ->
  sem (strategy_trend_TsiStrategy_Compute (T:=R) cfg (EIn 0)) [map (scale_snap lambda mu) ss]
  = sem (strategy_trend_TsiStrategy_Compute (T:=R) cfg (EIn 0)) [ss].
Proof. intros. apply inv_strategy. apply st_TsiStrategy with (l := lambda) (m := mu); fin_tac. Qed.
Theorem C18_VwmaStrategy : forall cfg lambda mu ss, 0 < lambda -> 0 < mu ->
  sem (strategy_trend_VwmaStrategy_Compute (T:=R) cfg (EIn 0)) [map (scale_snap lambda mu) ss]
  = sem (strategy_trend_VwmaStrategy_Compute (T:=R) cfg (EIn 0)) [ss].
Proof. intros. apply inv_strategy. apply st_VwmaStrategy with (l := lambda) (m := mu); fin_tac. Qed.
Theorem C18_WeightedCloseStrategy : forall cfg lambda mu ss, 0 < lambda -> ma_hom (strategy_trend_WeightedCloseStrategy_Ma cfg) ->
  sem (strategy_trend_WeightedCloseStrategy_Compute (T:=R) cfg (EIn 0)) [map (scale_snap lambda mu) ss]
  = sem (strategy_trend_WeightedCloseStrategy_Compute (T:=R) cfg (EIn 0)) [ss].
Proof. intros. apply inv_strategy. apply st_WeightedCloseStrategy with (l := lambda) (m := mu); fin_tac. Qed.
Theorem C18_BollingerBandsStrategy : forall cfg lambda mu ss, 0 < lambda ->
  sem (strategy_volatility_BollingerBandsStrategy_Compute (T:=R) cfg (EIn 0)) [map (scale_snap lambda mu) ss]
  = sem (strategy_volatility_BollingerBandsStrategy_Compute (T:=R) cfg (EIn 0)) [ss].
Proof. intros. apply inv_strategy. apply st_BollingerBandsStrategy with (l := lambda) (m := mu); fin_tac. Qed.
Theorem C18_SuperTrendStrategy : forall cfg lambda mu ss, 0 < lambda -> ma_hom (volatility_Atr_Ma (volatility_SuperTrend_Atr (strategy_volatility_SuperTrendStrategy_SuperTrend cfg))) ->
  sem (strategy_volatility_SuperTrendStrategy_Compute (T:=R) cfg (EIn 0)) [map (scale_snap lambda mu) ss]
  = sem (strategy_volatility_SuperTrendStrategy_Compute (T:=R) cfg (EIn 0)) [ss].
Proof. intros. apply inv_strategy. apply st_SuperTrendStrategy with (l := lambda) (m := mu); fin_tac. Qed.
Theorem C18_ChaikinMoneyFlowStrategy : forall cfg lambda mu ss, 0 < lambda -> 0 < mu ->
  sem (strategy_volume_ChaikinMoneyFlowStrategy_Compute (T:=R) cfg (EIn 0)) [map (scale_snap lambda mu) ss]
  = sem (strategy_volume_ChaikinMoneyFlowStrategy_Compute (T:=R) cfg (EIn 0)) [ss].
Proof. intros. apply inv_strategy. apply st_ChaikinMoneyFlowStrategy with (l := lambda) (m := mu); fin_tac. Qed.
Theorem C18_EaseOfMovementStrategy : forall cfg lambda mu ss, 0 < lambda -> 0 < mu ->
  sem (strategy_volume_EaseOfMovementStrategy_Compute (T:=R) cfg (EIn 0)) [map (scale_snap lambda mu) ss]
  = sem (strategy_volume_EaseOfMovementStrategy_Compute (T:=R) cfg (EIn 0)) [ss].
Proof. intros. apply inv_strategy. apply st_EaseOfMovementStrategy with (l := lambda) (m := mu); fin_tac. Qed.
Theorem C18_ForceIndexStrategy : forall cfg lambda mu ss, 0 < lambda -> 0 < mu ->
  sem (strategy_volume_ForceIndexStrategy_Compute (T:=R) cfg (EIn 0)) [map (scale_snap lambda mu) ss]
  = sem (strategy_volume_ForceIndexStrategy_Compute (T:=R) cfg (EIn 0)) [ss].
Proof. intros. apply inv_strategy. apply st_ForceIndexStrategy with (l := lambda) (m := mu); fin_tac. Qed.
Theorem C18_MoneyFlowIndexStrategy : forall cfg lambda mu ss, 0 < lambda -> 0 < mu ->
  sem (strategy_volume_MoneyFlowIndexStrategy_Compute (T:=R) cfg (EIn 0)) [map (scale_snap lambda mu) ss]
  = sem (strategy_volume_MoneyFlowIndexStrategy_Compute (T:=R) cfg (EIn 0)) [ss].
Proof. intros. apply inv_strategy. apply st_MoneyFlowIndexStrategy with (l := lambda) (m := mu); fin_tac. Qed.
Theorem C18_NegativeVolumeIndexStrategy : forall cfg lambda mu ss, 0 < lambda -> 0 < mu ->
  sem (strategy_volume_NegativeVolumeIndexStrategy_Compute (T:=R) cfg (EIn 0)) [map (scale_snap lambda mu) ss]
  = sem (strategy_volume_NegativeVolumeIndexStrategy_Compute (T:=R) cfg (EIn 0)) [ss].
Proof. intros. apply inv_strategy. apply st_NegativeVolumeIndexStrategy with (l := lambda) (m := mu); fin_tac. Qed.
Theorem C18_WeightedAveragePriceStrategy : forall cfg lambda mu ss, 0 < lambda -> 0 < mu ->
  sem (strategy_volume_WeightedAveragePriceStrategy_Compute (T:=R) cfg (EIn 0)) [map (scale_snap lambda mu) ss]
  = sem (strategy_volume_WeightedAveragePriceStrategy_Compute (T:=R) cfg (EIn 0)) [ss].
Proof. intros. apply inv_strategy. apply st_WeightedAveragePriceStrategy with (l := lambda) (m := mu); fin_tac. Qed.
Theorem C18_BuyAndHoldStrategy : forall cfg lambda mu ss, 0 < lambda ->
  sem (strategy_BuyAndHoldStrategy_Compute (T:=R) cfg (EIn 0)) [map (scale_snap lambda mu) ss]
  = sem (strategy_BuyAndHoldStrategy_Compute (T:=R) cfg (EIn 0)) [ss].
Proof. intros. apply inv_strategy. apply st_BuyAndHoldStrategy with (l := lambda) (m := mu); fin_tac. Qed.
Theorem C18_MacdRsiStrategy : forall cfg lambda mu ss, 0 < lambda ->
  sem (strategy_compound_MacdRsiStrategy_Compute (T:=R) cfg (EIn 0)) [map (scale_snap lambda mu) ss]
  = sem (strategy_compound_MacdRsiStrategy_Compute (T:=R) cfg (EIn 0)) [ss].
Proof. intros. apply inv_strategy. apply st_MacdRsiStrategy with (l := lambda) (m := mu); fin_tac. Qed.
Theorem C18_InverseStrategy : forall cfg lambda mu ss, 0 < lambda -> strat_inv lambda mu (strategy_decorator_InverseStrategy_InnerStrategy cfg) ->
  sem (strategy_decorator_InverseStrategy_Compute (T:=R) cfg (EIn 0)) [map (scale_snap lambda mu) ss]
  = sem (strategy_decorator_InverseStrategy_Compute (T:=R) cfg (EIn 0)) [ss].
Proof. intros. apply inv_strategy. apply st_InverseStrategy with (l := lambda) (m := mu); fin_tac. Qed.
Theorem C18_NoLossStrategy : forall cfg lambda mu ss, 0 < lambda -> strat_inv lambda mu (strategy_decorator_NoLossStrategy_InnertStrategy cfg) ->
  sem (strategy_decorator_NoLossStrategy_Compute (T:=R) cfg (EIn 0)) [map (scale_snap lambda mu) ss]
  = sem (strategy_decorator_NoLossStrategy_Compute (T:=R) cfg (EIn 0)) [ss].
Proof. intros. apply inv_strategy. apply st_NoLossStrategy with (l := lambda) (m := mu); fin_tac. Qed.
Theorem C18_StopLossStrategy : forall cfg lambda mu ss, 0 < lambda -> strat_inv lambda mu (strategy_decorator_StopLossStrategy_InnertStrategy cfg) ->
  sem (strategy_decorator_StopLossStrategy_Compute (T:=R) cfg (EIn 0)) [map (scale_snap lambda mu) ss]
  = sem (strategy_decorator_StopLossStrategy_Compute (T:=R) cfg (EIn 0)) [ss].
Proof. intros. apply inv_strategy. apply st_StopLossStrategy with (l := lambda) (m := mu); fin_tac. Qed.
Theorem C18_AndStrategy : forall cfg lambda mu ss, 0 < lambda -> Forall (strat_inv lambda mu) (strategy_AndStrategy_Strategies cfg) ->
  sem (strategy_AndStrategy_Compute (T:=R) cfg (EIn 0)) [map (scale_snap lambda mu) ss]
  = sem (strategy_AndStrategy_Compute (T:=R) cfg (EIn 0)) [ss].
Proof. intros. apply inv_strategy. apply st_AndStrategy with (l := lambda) (m := mu); fin_tac. Qed.
Theorem C18_OrStrategy : forall cfg lambda mu ss, 0 < lambda -> Forall (strat_inv lambda mu) (strategy_OrStrategy_Strategies cfg) ->
  sem (strategy_OrStrategy_Compute (T:=R) cfg (EIn 0)) [map (scale_snap lambda mu) ss]
  = sem (strategy_OrStrategy_Compute (T:=R) cfg (EIn 0)) [ss].
Proof. intros. apply inv_strategy. apply st_OrStrategy with (l := lambda) (m := mu); fin_tac. Qed.
Theorem C18_MajorityStrategy : forall cfg lambda mu ss, 0 < lambda -> Forall (strat_inv lambda mu) (strategy_MajorityStrategy_Strategies cfg) ->
  sem (strategy_MajorityStrategy_Compute (T:=R) cfg (EIn 0)) [map (scale_snap lambda mu) ss]
  = sem (strategy_MajorityStrategy_Compute (T:=R) cfg (EIn 0)) [ss].
Proof. intros. apply inv_strategy. apply st_MajorityStrategy with (l := lambda) (m := mu); fin_tac. Qed.
Theorem C18_SplitStrategy : forall cfg lambda mu ss, 0 < lambda -> strat_inv lambda mu (strategy_SplitStrategy_BuyStrategy cfg) -> strat_inv lambda mu (strategy_SplitStrategy_SellStrategy cfg) ->
  sem (strategy_SplitStrategy_Compute (T:=R) cfg (EIn 0)) [map (scale_snap lambda mu) ss]
  = sem (strategy_SplitStrategy_Compute (T:=R) cfg (EIn 0)) [ss].
Proof. intros. apply inv_strategy. apply st_SplitStrategy with (l := lambda) (m := mu); fin_tac. Qed.

(* every strategy above, seen through the strategy.Strategy interface, can be plugged into the decorators and
   combinators *)
Lemma strat_inv_AwesomeOscillatorStrategy I l m cfg : 0 < l ->
  strat_inv l m (strategy_momentum_AwesomeOscillatorStrategy_as_strategy_Strategy (I:=I) (T:=R) cfg).
Proof. intros; intros RI e He. simpl. apply st_AwesomeOscillatorStrategy with (l := l) (m := m); auto. Qed.
Lemma strat_inv_StochasticRsiStrategy I l m cfg : 0 < l ->
  strat_inv l m (strategy_momentum_StochasticRsiStrategy_as_strategy_Strategy (I:=I) (T:=R) cfg).
Proof. intros; intros RI e He. simpl. apply st_StochasticRsiStrategy with (l := l) (m := m); auto. Qed.
Lemma strat_inv_TripleRsiStrategy I l m cfg : 0 < l ->
  strat_inv l m (strategy_momentum_TripleRsiStrategy_as_strategy_Strategy (I:=I) (T:=R) cfg).
Proof. intros; intros RI e He. simpl. apply st_TripleRsiStrategy with (l := l) (m := m); auto. Qed.
Lemma strat_inv_AlligatorStrategy I l m cfg : 0 < l ->
  strat_inv l m (strategy_trend_AlligatorStrategy_as_strategy_Strategy (I:=I) (T:=R) cfg).
Proof. intros; intros RI e He. simpl. apply st_AlligatorStrategy with (l := l) (m := m); auto. Qed.
Lemma strat_inv_ApoStrategy I l m cfg : 0 < l ->
  strat_inv l m (strategy_trend_ApoStrategy_as_strategy_Strategy (I:=I) (T:=R) cfg).
Proof. intros; intros RI e He. simpl. apply st_ApoStrategy with (l := l) (m := m); auto. Qed.
Lemma strat_inv_AroonStrategy I l m cfg : 0 < l ->
  strat_inv l m (strategy_trend_AroonStrategy_as_strategy_Strategy (I:=I) (T:=R) cfg).
Proof. intros; intros RI e He. simpl. apply st_AroonStrategy with (l := l) (m := m); auto. Qed.
Lemma strat_inv_BopStrategy I l m cfg : 0 < l ->
  strat_inv l m (strategy_trend_BopStrategy_as_strategy_Strategy (I:=I) (T:=R) cfg).
Proof. intros; intros RI e He. simpl. apply st_BopStrategy with (l := l) (m := m); auto. Qed.
Lemma strat_inv_CciStrategy I l m cfg : 0 < l ->
  strat_inv l m (strategy_trend_CciStrategy_as_strategy_Strategy (I:=I) (T:=R) cfg).
Proof. intros; intros RI e He. simpl. apply st_CciStrategy with (l := l) (m := m); auto. Qed.
Lemma strat_inv_DemaStrategy I l m cfg : 0 < l ->
  strat_inv l m (strategy_trend_DemaStrategy_as_strategy_Strategy (I:=I) (T:=R) cfg).
Proof. intros; intros RI e He. simpl. apply st_DemaStrategy with (l := l) (m := m); auto. Qed.
Lemma strat_inv_EnvelopeStrategy I l m cfg : 0 < l -> ma_hom (trend_Envelope_Ma (strategy_trend_EnvelopeStrategy_Envelope cfg)) ->
  strat_inv l m (strategy_trend_EnvelopeStrategy_as_strategy_Strategy (I:=I) (T:=R) cfg).
Proof. intros; intros RI e He. simpl. apply st_EnvelopeStrategy with (l := l) (m := m); auto. Qed.
Lemma strat_inv_GoldenCrossStrategy I l m cfg : 0 < l ->
  strat_inv l m (strategy_trend_GoldenCrossStrategy_as_strategy_Strategy (I:=I) (T:=R) cfg).
Proof. intros; intros RI e He. simpl. apply st_GoldenCrossStrategy with (l := l) (m := m); auto. Qed.
Lemma strat_inv_KamaStrategy I l m cfg : 0 < l ->
  strat_inv l m (strategy_trend_KamaStrategy_as_strategy_Strategy (I:=I) (T:=R) cfg).
Proof. intros; intros RI e He. simpl. apply st_KamaStrategy with (l := l) (m := m); auto. Qed.
Lemma strat_inv_KdjStrategy I l m cfg : 0 < l ->
  strat_inv l m (strategy_trend_KdjStrategy_as_strategy_Strategy (I:=I) (T:=R) cfg).
Proof. intros; intros RI e He. simpl. apply st_KdjStrategy with (l := l) (m := m); auto. Qed.
Lemma strat_inv_QstickStrategy I l m cfg : 0 < l ->
  strat_inv l m (strategy_trend_QstickStrategy_as_strategy_Strategy (I:=I) (T:=R) cfg).
Proof. intros; intros RI e He. simpl. apply st_QstickStrategy with (l := l) (m := m); auto. Qed.
Lemma strat_inv_SmmaStrategy I l m cfg : 0 < l ->
  strat_inv l m (strategy_trend_SmmaStrategy_as_strategy_Strategy (I:=I) (T:=R) cfg).
Proof. intros; intros RI e He. simpl. apply st_SmmaStrategy with (l := l) (m := m); auto. Qed.
Lemma strat_inv_TrimaStrategy I l m cfg : 0 < l ->
  strat_inv l m (strategy_trend_TrimaStrategy_as_strategy_Strategy (I:=I) (T:=R) cfg).
Proof. intros; intros RI e He. simpl. apply st_TrimaStrategy with (l := l) (m := m); auto. Qed.
Lemma strat_inv_TripleMovingAverageCrossoverStrategy I l m cfg : 0 < l ->
  strat_inv l m (strategy_trend_TripleMovingAverageCrossoverStrategy_as_strategy_Strategy (I:=I) (T:=R) cfg).
Proof. intros; intros RI e He. simpl. apply st_TripleMovingAverageCrossoverStrategy with (l := l) (m := m); auto. Qed.
Lemma strat_inv_TrixStrategy I l m cfg : 0 < l ->
  strat_inv l m (strategy_trend_TrixStrategy_as_strategy_Strategy (I:=I) (T:=R) cfg).
Proof. intros; intros RI e He. simpl. apply st_TrixStrategy with (l := l) (m := m); auto. Qed.
Lemma strat_inv_TsiStrategy I l m cfg : 0 < l -> ma_hom (trend_Tsi_FirstSmoothing (strategy_trend_TsiStrategy_Tsi cfg)) -> ma_hom (trend_Tsi_SecondSmoothing (strategy_trend_TsiStrategy_Tsi cfg)) -> ma_hom (strategy_trend_TsiStrategy_Signal cfg) ->
  strat_inv l m (strategy_trend_TsiStrategy_as_strategy_Strategy (I:=I) (T:=R) cfg).
Proof. intros; intros RI e He. simpl. apply st_TsiStrategy with (l := l) (m := m); auto. Qed.
Lemma strat_inv_VwmaStrategy I l m cfg : 0 < l -> 0 < m ->
  strat_inv l m (strategy_trend_VwmaStrategy_as_strategy_Strategy (I:=I) (T:=R) cfg).
Proof. intros; intros RI e He. simpl. apply st_VwmaStrategy with (l := l) (m := m); auto. Qed.
Lemma strat_inv_WeightedCloseStrategy I l m cfg : 0 < l -> ma_hom (strategy_trend_WeightedCloseStrategy_Ma cfg) ->
  strat_inv l m (strategy_trend_WeightedCloseStrategy_as_strategy_Strategy (I:=I) (T:=R) cfg).
Proof. intros; intros RI e He. simpl. apply st_WeightedCloseStrategy with (l := l) (m := m); auto. Qed.
Lemma strat_inv_BollingerBandsStrategy I l m cfg : 0 < l ->
  strat_inv l m (strategy_volatility_BollingerBandsStrategy_as_strategy_Strategy (I:=I) (T:=R) cfg).
Proof. intros; intros RI e He. simpl. apply st_BollingerBandsStrategy with (l := l) (m := m); auto. Qed.
Lemma strat_inv_SuperTrendStrategy I l m cfg : 0 < l -> ma_hom (volatility_Atr_Ma (volatility_SuperTrend_Atr (strategy_volatility_SuperTrendStrategy_SuperTrend cfg))) ->
  strat_inv l m (strategy_volatility_SuperTrendStrategy_as_strategy_Strategy (I:=I) (T:=R) cfg).
Proof. intros; intros RI e He. simpl. apply st_SuperTrendStrategy with (l := l) (m := m); auto. Qed.
Lemma strat_inv_ChaikinMoneyFlowStrategy I l m cfg : 0 < l -> 0 < m ->
  strat_inv l m (strategy_volume_ChaikinMoneyFlowStrategy_as_strategy_Strategy (I:=I) (T:=R) cfg).
Proof. intros; intros RI e He. simpl. apply st_ChaikinMoneyFlowStrategy with (l := l) (m := m); auto. Qed.
Lemma strat_inv_EaseOfMovementStrategy I l m cfg : 0 < l -> 0 < m ->
  strat_inv l m (strategy_volume_EaseOfMovementStrategy_as_strategy_Strategy (I:=I) (T:=R) cfg).
Proof. intros; intros RI e He. simpl. apply st_EaseOfMovementStrategy with (l := l) (m := m); auto. Qed.
Lemma strat_inv_ForceIndexStrategy I l m cfg : 0 < l -> 0 < m ->
  strat_inv l m (strategy_volume_ForceIndexStrategy_as_strategy_Strategy (I:=I) (T:=R) cfg).
Proof. intros; intros RI e He. simpl. apply st_ForceIndexStrategy with (l := l) (m := m); auto. Qed.
Lemma strat_inv_MoneyFlowIndexStrategy I l m cfg : 0 < l -> 0 < m ->
  strat_inv l m (strategy_volume_MoneyFlowIndexStrategy_as_strategy_Strategy (I:=I) (T:=R) cfg).
Proof. intros; intros RI e He. simpl. apply st_MoneyFlowIndexStrategy with (l := l) (m := m); auto. Qed.
Lemma strat_inv_NegativeVolumeIndexStrategy I l m cfg : 0 < l -> 0 < m ->
  strat_inv l m (strategy_volume_NegativeVolumeIndexStrategy_as_strategy_Strategy (I:=I) (T:=R) cfg).
Proof. intros; intros RI e He. simpl. apply st_NegativeVolumeIndexStrategy with (l := l) (m := m); auto. Qed.
Lemma strat_inv_WeightedAveragePriceStrategy I l m cfg : 0 < l -> 0 < m ->
  strat_inv l m (strategy_volume_WeightedAveragePriceStrategy_as_strategy_Strategy (I:=I) (T:=R) cfg).
Proof. intros; intros RI e He. simpl. apply st_WeightedAveragePriceStrategy with (l := l) (m := m); auto. Qed.
Lemma strat_inv_BuyAndHoldStrategy I l m cfg : 0 < l ->
  strat_inv l m (strategy_BuyAndHoldStrategy_as_strategy_Strategy (I:=I) (T:=R) cfg).
Proof. intros; intros RI e He. simpl. apply st_BuyAndHoldStrategy with (l := l) (m := m); auto. Qed.
Lemma strat_inv_MacdRsiStrategy I l m cfg : 0 < l ->
  strat_inv l m (strategy_compound_MacdRsiStrategy_as_strategy_Strategy (I:=I) (T:=R) cfg).
Proof. intros; intros RI e He. simpl. apply st_MacdRsiStrategy with (l := l) (m := m); auto. Qed.
Lemma strat_inv_InverseStrategy I l m cfg : 0 < l -> strat_inv l m (strategy_decorator_InverseStrategy_InnerStrategy cfg) ->
  strat_inv l m (strategy_decorator_InverseStrategy_as_strategy_Strategy (I:=I) (T:=R) cfg).
Proof. intros; intros RI e He. simpl. apply st_InverseStrategy with (l := l) (m := m); auto. Qed.
Lemma strat_inv_NoLossStrategy I l m cfg : 0 < l -> strat_inv l m (strategy_decorator_NoLossStrategy_InnertStrategy cfg) ->
  strat_inv l m (strategy_decorator_NoLossStrategy_as_strategy_Strategy (I:=I) (T:=R) cfg).
Proof. intros; intros RI e He. simpl. apply st_NoLossStrategy with (l := l) (m := m); auto. Qed.
Lemma strat_inv_StopLossStrategy I l m cfg : 0 < l -> strat_inv l m (strategy_decorator_StopLossStrategy_InnertStrategy cfg) ->
  strat_inv l m (strategy_decorator_StopLossStrategy_as_strategy_Strategy (I:=I) (T:=R) cfg).
Proof. intros; intros RI e He. simpl. apply st_StopLossStrategy with (l := l) (m := m); auto. Qed.
Lemma strat_inv_AndStrategy I l m cfg : 0 < l -> Forall (strat_inv l m) (strategy_AndStrategy_Strategies cfg) ->
  strat_inv l m (strategy_AndStrategy_as_strategy_Strategy (I:=I) (T:=R) cfg).
Proof. intros; intros RI e He. simpl. apply st_AndStrategy with (l := l) (m := m); auto. Qed.
Lemma strat_inv_OrStrategy I l m cfg : 0 < l -> Forall (strat_inv l m) (strategy_OrStrategy_Strategies cfg) ->
  strat_inv l m (strategy_OrStrategy_as_strategy_Strategy (I:=I) (T:=R) cfg).
Proof. intros; intros RI e He. simpl. apply st_OrStrategy with (l := l) (m := m); auto. Qed.
Lemma strat_inv_MajorityStrategy I l m cfg : 0 < l -> Forall (strat_inv l m) (strategy_MajorityStrategy_Strategies cfg) ->
  strat_inv l m (strategy_MajorityStrategy_as_strategy_Strategy (I:=I) (T:=R) cfg).
Proof. intros; intros RI e He. simpl. apply st_MajorityStrategy with (l := l) (m := m); auto. Qed.
Lemma strat_inv_SplitStrategy I l m cfg : 0 < l -> strat_inv l m (strategy_SplitStrategy_BuyStrategy cfg) -> strat_inv l m (strategy_SplitStrategy_SellStrategy cfg) ->
  strat_inv l m (strategy_SplitStrategy_as_strategy_Strategy (I:=I) (T:=R) cfg).
Proof. intros; intros RI e He. simpl. apply st_SplitStrategy with (l := l) (m := m); auto. Qed.
Lemma strat_inv_MacdStrategy I l m cfg : 0 < l ->
  strat_inv l m (strategy_trend_MacdStrategy_as_strategy_Strategy (I:=I) (T:=R) cfg).
Proof. intros; intros RI e He. simpl. apply st_MacdStrategy with (l := l) (m := m); auto. Qed.
Lemma strat_inv_RsiStrategy I l m cfg : 0 < l ->
  strat_inv l m (strategy_momentum_RsiStrategy_as_strategy_Strategy (I:=I) (T:=R) cfg).
Proof. intros; intros RI e He. simpl. apply st_RsiStrategy with (l := l) (m := m); auto. Qed.

(* decorators compose: e.g. a stop-loss around a no-loss around the inverse of the MACD strategy *)
Corollary C18_StopLoss_NoLoss_Inverse_Macd : forall macd pct lambda mu ss, 0 < lambda ->
  let s := mk_strategy_decorator_StopLossStrategy
             (strategy_decorator_NoLossStrategy_as_strategy_Strategy (mk_strategy_decorator_NoLossStrategy
                (strategy_decorator_InverseStrategy_as_strategy_Strategy (mk_strategy_decorator_InverseStrategy
                   (strategy_trend_MacdStrategy_as_strategy_Strategy macd))))) pct in
  sem (strategy_decorator_StopLossStrategy_Compute (T:=R) s (EIn 0)) [map (scale_snap lambda mu) ss]
  = sem (strategy_decorator_StopLossStrategy_Compute (T:=R) s (EIn 0)) [ss].
Proof.
  intros. apply C18_StopLossStrategy; auto. simpl.
  apply strat_inv_NoLossStrategy; auto. simpl. apply strat_inv_InverseStrategy; auto. simpl.
  apply strat_inv_MacdStrategy; auto.
Qed.


Print Assumptions C18_SuperTrend.
Print Assumptions C18_Aroon_up.
Print Assumptions C18_Mfi.
Print Assumptions C18_StopLossStrategy.
Print Assumptions C18_MajorityStrategy.
Print Assumptions C18_Emv.
Print Assumptions C18_EaseOfMovementStrategy.
