(* Property C01, part 4 - documented formulas of the remaining TREND / MOMENTUM / VOLATILITY / VOLUME indicators
   (real-number instance), in the style of Prim/C01Trend.v and Prim/C01Other.v:

     sem (X_Compute cfg (EIn 0) (EIn 1) ...) [xs; ys; ...] = tab (Z.to_nat (X_IdlePeriod cfg)) n (X_doc cfg xs ys ...)

   i.e. the output has n - idle values, and value number j is the documented formula at input position idle + j.
   [X_doc] transcribes the doc comment above the Go type in the vocabulary of Spec/Window.v (at_, wsum, wmean, wmax, wmin,
   seeded_rec, ema_doc) and its position-function counterparts of C01Trend (fsum, fmean, fseeded, fema).  Where the
   generated definition provably is not the documented formula: [X_actual] (what it computes) and [X_refuted] (a small
   witness on which the two differ). *)
From Coq Require Import List ZArith Bool Lia Reals Lra.
Import ListNotations.
From Verif Require Import Base.Num Base.Stream Base.StreamProofs Base.GenPrelude Gen.All Spec.Window
  Prim.MovingSumProofs Prim.SeededProofs Prim.MovingMaxProofs Props.C01Doc Prim.C01Trend Prim.C01Other.
Local Open Scope R_scope.

(* C01Trend and C01Other both define an alignment calculus on [tab]; the unqualified names below are those of C01Other
   (imported last): tab_s_skip (ESkip), tab_skip (skipn), tab_reindex' ; C01Trend's are written qualified. *)

(* ------------------------------------------------------------------------------------------ *)
(* 0. Shared lemmas *)

(* pointwise reading of a [tab] equation: the statement form "forall j < length out, nth j out d = formula (idle + j)" *)
Lemma tab_pointwise (out : list R) (w n : nat) (f : nat -> R) :
  out = tab w n f ->
  length out = (n - w)%nat /\ forall j d, (j < length out)%nat -> nth j out d = f (w + j)%nat.
Proof.
  intros ->. split; [apply tab_length|]. intros j d Hj. rewrite tab_length in Hj.
  rewrite (nth_indep _ d 0) by (rewrite tab_length; exact Hj).
  change (nth j (tab w n f) 0) with (at_ (tab w n f) j). apply at_tab. lia.
Qed.

Lemma xs_tab (xs : list R) : xs = tab 0 (length xs) (at_ xs).
Proof. apply xs_as_tab. reflexivity. Qed.

Lemma tab_fun_ext (w n : nat) (f g : nat -> R) : (forall i, f i = g i) -> tab w n f = tab w n g.
Proof. intros H. apply tab_ext. intros i _. apply H. Qed.

(* second operand starts d positions later / earlier (C01Trend's lemmas under unambiguous names) *)
Definition tab_op2_late_r := C01Trend.tab_op2_late_r.
Definition tab_op2_late_l := C01Trend.tab_op2_late_l.

(* ------------------------------------------------------------------------------------------ *)
(* 1. volatility.MovingStd
      "Std = Sqrt(1/Period * Sum(Pow(value - sma), 2))"
   over the window of the last Period values, sma the mean of that window. *)

Definition MovingStd_doc (p : nat) (xs : list R) (i : nat) : R :=
  sqrt (1 / INR p * Rsum (map (fun v => (v - wmean p xs i) ^ 2) (window p xs i))).

(* the ring of the loop after k inputs: the last min(k, P) of them, oldest first *)
Definition stdW (P : nat) (xs : list R) (k : nat) : list R := map (at_ xs) (seq (k - Nat.min k P) (Nat.min k P)).

Lemma stdW_length P xs k : length (stdW P xs k) = Nat.min k P.
Proof. unfold stdW. rewrite map_length, seq_length. reflexivity. Qed.

Lemma stdW_step (P : nat) (xs : list R) (k : nat) : (1 <= P)%nat ->
  (if Nat.eqb (length (stdW P xs k)) P then tl (stdW P xs k) else stdW P xs k) ++ [at_ xs k] = stdW P xs (S k)
  /\ Rsum (stdW P xs k) - (if Nat.eqb (length (stdW P xs k)) P then hd 0 (stdW P xs k) else 0) + at_ xs k
     = Rsum (stdW P xs (S k)).
Proof.
  intros HP. rewrite stdW_length.
  destruct (Nat.eqb_spec (Nat.min k P) P) as [E|E].
  - assert (Hk : (P <= k)%nat) by lia.
    unfold stdW. replace (Nat.min k P) with P by lia. replace (Nat.min (S k) P) with P by lia.
    destruct P as [|P']; [lia|].
    replace (S k - S P')%nat with (S (k - S P')) by lia.
    rewrite (seq_S P' (S (k - S P'))), map_app. cbn [seq map tl hd].
    replace (S (k - S P') + P')%nat with k by lia.
    split; [reflexivity|]. rewrite Rsum_cons, Rsum_app, Rsum_cons, Rsum_nil. lra.
  - assert (Hk : (k < P)%nat) by lia.
    unfold stdW. replace (Nat.min k P) with k by lia. replace (Nat.min (S k) P) with (S k) by lia.
    rewrite !Nat.sub_diag. rewrite (seq_S k), map_app. cbn [map Nat.add].
    split; [reflexivity|]. rewrite Rsum_app, Rsum_cons, Rsum_nil. lra.
Qed.

Lemma fold_left_sq (m : R) : forall (l : list R) (a : R),
  fold_left (fun acc x => acc + Rpow_model (x - m) 2) l a = a + Rsum (map (fun v => (v - m) ^ 2) l).
Proof.
  induction l as [|x l IH]; intros a; cbn [fold_left map].
  - rewrite Rsum_nil. lra.
  - rewrite IH, Rsum_cons, Rpow_model_2. simpl pow. lra.
Qed.

Lemma std_loop_spec (P : nat) (xs : list R) : (1 <= P)%nat -> forall (l : list R) (k : nat),
  skipn k xs = l -> (k <= length xs)%nat ->
  std_loop P (stdW P xs k) (Rsum (stdW P xs k)) l
  = map (MovingStd_doc P xs) (seq (Nat.max k (P - 1)) (length xs - Nat.max k (P - 1))).
Proof.
  intros HP. induction l as [|x l IH]; intros k Hsk Hk.
  - assert (length (skipn k xs) = 0%nat) by (rewrite Hsk; reflexivity).
    rewrite skipn_length in H. replace (length xs - Nat.max k (P - 1))%nat with 0%nat by lia. reflexivity.
  - symmetry in Hsk. destruct (skipn_cons_inv 0 k xs _ _ Hsk) as (Hlt & Hx & Hl).
    change (nth k xs 0) with (at_ xs k) in Hx. subst x.
    rewrite std_loop_cons. cbv zeta. cbn [nadd nsub nzero NumR].
    destruct (stdW_step P xs k HP) as [E1 E2]. rewrite E1, E2.
    rewrite stdW_length.
    destruct (Nat.eqb_spec (Nat.min (S k) P) P) as [E|E].
    + replace (Nat.max k (P - 1)) with k by lia.
      replace (length xs - k)%nat with (S (length xs - S k)) by lia. cbn [seq map].
      f_equal.
      * cbn [nsqrt ndiv npow nofZ NumR]. unfold MovingStd_doc. f_equal.
        rewrite fold_left_sq.
        assert (EW : stdW P xs (S k) = window P xs k).
        { unfold stdW, window. replace (Nat.min (S k) P) with P by lia. do 2 f_equal. lia. }
        rewrite EW. unfold wmean, wsum. rewrite <- INR_IZR_INZ. unfold Rdiv. ring.
      * rewrite (IH (S k)) by (auto; lia). replace (Nat.max (S k) (P - 1)) with (S k) by lia. reflexivity.
    + rewrite (IH (S k)) by (auto; lia). do 2 f_equal; lia.
Qed.

Theorem MovingStd_documented_gen {I} (cfg : volatility_MovingStd) (e : expr I R) (env : list (list I)) :
  (1 <= volatility_MovingStd_Period cfg)%Z ->
  sem (volatility_MovingStd_Compute (T:=R) cfg e) env
  = tab (Z.to_nat (volatility_MovingStd_IdlePeriod cfg)) (length (sem e env))
        (MovingStd_doc (Z.to_nat (volatility_MovingStd_Period cfg)) (sem e env)).
Proof.
  destruct cfg as [p]. cbn [volatility_MovingStd_Period]. intros Hp.
  unfold volatility_MovingStd_Compute, volatility_MovingStd_IdlePeriod. cbn [volatility_MovingStd_Period sem].
  unfold s_moving_std. set (xs := sem e env).
  change (@nil R) with (stdW (Z.to_nat p) xs 0) at 1.
  change (@nzero R NumR) with (Rsum (stdW (Z.to_nat p) xs 0)).
  rewrite (std_loop_spec (Z.to_nat p) xs ltac:(lia) xs 0%nat eq_refl ltac:(lia)).
  unfold tab. replace (Nat.max 0 (Z.to_nat p - 1)) with (Z.to_nat (p - 1)) by lia. reflexivity.
Qed.

Theorem MovingStd_documented (cfg : volatility_MovingStd) (xs : list R) :
  (1 <= volatility_MovingStd_Period cfg)%Z ->
  sem (volatility_MovingStd_Compute (T:=R) cfg (EIn 0)) [xs]
  = tab (Z.to_nat (volatility_MovingStd_IdlePeriod cfg)) (length xs)
        (MovingStd_doc (Z.to_nat (volatility_MovingStd_Period cfg)) xs).
Proof. exact (MovingStd_documented_gen cfg (EIn 0) [xs]). Qed.

(* ------------------------------------------------------------------------------------------ *)
(* 2. volatility.BollingerBands
      "Middle Band = 20-Period SMA.
       Upper Band = 20-Period SMA + 2 (20-Period Std)
       Lower Band = 20-Period SMA - 2 (20-Period Std)"          (20 is the default of Period) *)

Definition Bollinger_middle_doc (p : nat) (xs : list R) (i : nat) : R := wmean p xs i.
Definition Bollinger_upper_doc (p : nat) (xs : list R) (i : nat) : R := wmean p xs i + 2 * MovingStd_doc p xs i.
Definition Bollinger_lower_doc (p : nat) (xs : list R) (i : nat) : R := wmean p xs i - 2 * MovingStd_doc p xs i.

Lemma Bollinger_all_gen {I} (cfg : volatility_BollingerBands) (e : expr I R) (env : list (list I)) :
  let out := volatility_BollingerBands_Compute (T:=R) cfg e in
  let w := Z.to_nat (volatility_BollingerBands_IdlePeriod cfg) in
  let P := Z.to_nat (volatility_BollingerBands_Period cfg) in
  let xs := sem e env in
  (1 <= volatility_BollingerBands_Period cfg)%Z ->
  sem (fst (fst out)) env = tab w (length xs) (Bollinger_upper_doc P xs) /\
  sem (snd (fst out)) env = tab w (length xs) (Bollinger_middle_doc P xs) /\
  sem (snd out) env = tab w (length xs) (Bollinger_lower_doc P xs).
Proof.
  intros out w P xs Hp. subst out w P. destruct cfg as [p]. cbn [volatility_BollingerBands_Period] in *.
  unfold volatility_BollingerBands_Compute, volatility_BollingerBands_IdlePeriod, trend_NewSmaWithPeriod,
    volatility_NewMovingStdWithPeriod, helper_Add, helper_Subtract, helper_MultiplyBy.
  cbn [volatility_BollingerBands_Period fst snd].
  assert (Es := sma_is_window_mean_expr p e env Hp).
  assert (Ed := MovingStd_documented_gen (mk_volatility_MovingStd p) e env Hp).
  unfold volatility_MovingStd_IdlePeriod in Ed. cbn [volatility_MovingStd_Period] in Ed.
  fold xs in Es, Ed.
  replace (Z.to_nat p - 1)%nat with (Z.to_nat (p - 1)) in Es by lia.
  cbn [sem]. rewrite Es, Ed, tab_map, !tab_op2.
  split; [|split; [reflexivity|]]; apply tab_fun_ext; intros i;
    unfold Bollinger_upper_doc, Bollinger_lower_doc; cbn [nadd nsub nmul nofZ NumR]; ring.
Qed.

Section Bollinger.
  Variable cfg : volatility_BollingerBands.
  Variable xs : list R.
  Hypothesis Hp : (1 <= volatility_BollingerBands_Period cfg)%Z.
  Let out := volatility_BollingerBands_Compute (T:=R) cfg (EIn 0).
  Let w := Z.to_nat (volatility_BollingerBands_IdlePeriod cfg).
  Let P := Z.to_nat (volatility_BollingerBands_Period cfg).

  Theorem BollingerBands_upper_documented : sem (fst (fst out)) [xs] = tab w (length xs) (Bollinger_upper_doc P xs).
  Proof. exact (proj1 (Bollinger_all_gen cfg (EIn 0) [xs] Hp)). Qed.
  Theorem BollingerBands_middle_documented : sem (snd (fst out)) [xs] = tab w (length xs) (Bollinger_middle_doc P xs).
  Proof. exact (proj1 (proj2 (Bollinger_all_gen cfg (EIn 0) [xs] Hp))). Qed.
  Theorem BollingerBands_lower_documented : sem (snd out) [xs] = tab w (length xs) (Bollinger_lower_doc P xs).
  Proof. exact (proj2 (proj2 (Bollinger_all_gen cfg (EIn 0) [xs] Hp))). Qed.
End Bollinger.

(* ------------------------------------------------------------------------------------------ *)
(* 3. volatility.BollingerBandWidth
      "Band Width = (Upper Band - Lower Band) / Middle BollingerBandWidth" *)

Definition BollingerBandWidth_doc (p : nat) (xs : list R) (i : nat) : R :=
  (Bollinger_upper_doc p xs i - Bollinger_lower_doc p xs i) / Bollinger_middle_doc p xs i.

Theorem BollingerBandWidth_documented (cfg : volatility_BollingerBandWidth) (xs : list R) :
  let bb := volatility_BollingerBandWidth_BollingerBands cfg in
  (1 <= volatility_BollingerBands_Period bb)%Z ->
  sem (volatility_BollingerBandWidth_Compute (T:=R) cfg (EIn 0)) [xs]
  = tab (Z.to_nat (volatility_BollingerBandWidth_IdlePeriod cfg)) (length xs)
        (BollingerBandWidth_doc (Z.to_nat (volatility_BollingerBands_Period bb)) xs).
Proof.
  destruct cfg as [bb]. cbn [volatility_BollingerBandWidth_BollingerBands]. intros Hp.
  destruct (Bollinger_all_gen bb (EIn 0) [xs] Hp) as (Eu & Em & El).
  unfold volatility_BollingerBandWidth_Compute, volatility_BollingerBandWidth_IdlePeriod.
  cbn [volatility_BollingerBandWidth_BollingerBands].
  destruct (volatility_BollingerBands_Compute bb (EIn 0)) as [[u m] l]. cbn [fst snd] in Eu, Em, El.
  unfold helper_Divide, helper_Subtract. cbn [sem]. cbn [sem] in Eu, Em, El.
  rewrite Eu, Em, El, !tab_op2. reflexivity.
Qed.

(* ------------------------------------------------------------------------------------------ *)
(* 4. volatility.PercentB      "%B = (Close - Lower Band) / (Upper Band - Lower Band)" *)

Definition PercentB_doc (p : nat) (xs : list R) (i : nat) : R :=
  (at_ xs i - Bollinger_lower_doc p xs i) / (Bollinger_upper_doc p xs i - Bollinger_lower_doc p xs i).

Theorem PercentB_documented (cfg : volatility_PercentB) (xs : list R) :
  let bb := volatility_PercentB_BollingerBands cfg in
  (1 <= volatility_BollingerBands_Period bb)%Z ->
  sem (volatility_PercentB_Compute (T:=R) cfg (EIn 0)) [xs]
  = tab (Z.to_nat (volatility_PercentB_IdlePeriod cfg)) (length xs)
        (PercentB_doc (Z.to_nat (volatility_BollingerBands_Period bb)) xs).
Proof.
  destruct cfg as [bb]. cbn [volatility_PercentB_BollingerBands]. intros Hp.
  destruct (Bollinger_all_gen bb (EIn 0) [xs] Hp) as (Eu & Em & El).
  unfold volatility_PercentB_Compute, volatility_PercentB_IdlePeriod.
  cbn [volatility_PercentB_BollingerBands].
  destruct (volatility_BollingerBands_Compute bb (EIn 0)) as [[u m] l]. cbn [fst snd] in Eu, Em, El.
  cbn [sem]. cbn [sem] in Eu, El. rewrite Eu, El. cbn [nth].
  rewrite (raw_s_skip _ xs (length xs) eq_refl), tab_op3. reflexivity.
Qed.

(* ------------------------------------------------------------------------------------------ *)
(* 5. trend.Envelope
      The doc comment of the type gives no formula; trend/envelope.go, Compute:
        upper = ma * (1 + Percentage/100)     middle = ma     lower = ma * (1 - Percentage/100)
      for the configured moving average ma.  Stated for any moving average whose output is known as a table, then
      for the two constructors of the package (SMA, EMA). *)

Definition Envelope_upper_doc (pct : R) (ma : nat -> R) (i : nat) : R := ma i * (1 + pct / 100).
Definition Envelope_lower_doc (pct : R) (ma : nat -> R) (i : nat) : R := ma i * (1 - pct / 100).

Lemma Envelope_all_gen {I} (cfg : trend_Envelope (I:=I) (T:=R)) (e : expr I R) (env : list (list I))
      (w n : nat) (f : nat -> R) :
  let out := trend_Envelope_Compute cfg e in
  sem (trend_Ma_Compute (trend_Envelope_Ma cfg) e) env = tab w n f ->
  sem (fst (fst out)) env = tab w n (Envelope_upper_doc (trend_Envelope_Percentage cfg) f) /\
  sem (snd (fst out)) env = tab w n f /\
  sem (snd out) env = tab w n (Envelope_lower_doc (trend_Envelope_Percentage cfg) f).
Proof.
  intros out Hma. subst out. unfold trend_Envelope_Compute, helper_MultiplyBy. cbn [fst snd sem].
  rewrite Hma, !tab_map. repeat split.
Qed.

(* NewEnvelopeWithSma: ma = SMA(period) *)
Theorem Envelope_sma_documented (p : Z) (pct : R) (xs : list R) : (1 <= p)%Z ->
  let cfg := trend_NewEnvelope (trend_Sma_as_trend_Ma (I:=R) (trend_NewSmaWithPeriod p)) pct in
  let out := trend_Envelope_Compute cfg (EIn 0) in
  let w := Z.to_nat (trend_Envelope_IdlePeriod cfg) in
  sem (fst (fst out)) [xs] = tab w (length xs) (Envelope_upper_doc pct (wmean (Z.to_nat p) xs)) /\
  sem (snd (fst out)) [xs] = tab w (length xs) (wmean (Z.to_nat p) xs) /\
  sem (snd out) [xs] = tab w (length xs) (Envelope_lower_doc pct (wmean (Z.to_nat p) xs)).
Proof.
  intros Hp cfg out w.
  apply (Envelope_all_gen cfg (EIn 0) [xs] w (length xs) (wmean (Z.to_nat p) xs)).
  subst w cfg. unfold trend_Envelope_IdlePeriod, trend_NewEnvelope, trend_Sma_as_trend_Ma, trend_NewSmaWithPeriod,
    trend_Sma_IdlePeriod.
  cbn [trend_Envelope_Ma trend_Ma_Compute trend_Ma_IdlePeriod trend_Sma_Period].
  rewrite sma_is_window_mean_expr by exact Hp. cbn [sem nth]. f_equal. lia.
Qed.

(* NewEnvelopeWithEma: ma = EMA(period), default smoothing *)
Theorem Envelope_ema_documented (c : trend_Ema (T:=R)) (pct : R) (xs : list R) : (1 <= trend_Ema_Period c)%Z ->
  let cfg := trend_NewEnvelope (trend_Ema_as_trend_Ma (I:=R) c) pct in
  let out := trend_Envelope_Compute cfg (EIn 0) in
  let w := Z.to_nat (trend_Envelope_IdlePeriod cfg) in
  sem (fst (fst out)) [xs] = tab w (length xs) (Envelope_upper_doc pct (ema_doc (eP c) (eS c) xs)) /\
  sem (snd (fst out)) [xs] = tab w (length xs) (ema_doc (eP c) (eS c) xs) /\
  sem (snd out) [xs] = tab w (length xs) (Envelope_lower_doc pct (ema_doc (eP c) (eS c) xs)).
Proof.
  intros Hp cfg out w.
  apply (Envelope_all_gen cfg (EIn 0) [xs] w (length xs) (ema_doc (eP c) (eS c) xs)).
  subst w cfg. unfold trend_Envelope_IdlePeriod, trend_NewEnvelope, trend_Ema_as_trend_Ma, trend_Ema_IdlePeriod.
  cbn [trend_Envelope_Ma trend_Ma_Compute trend_Ma_IdlePeriod].
  rewrite ema_top by exact Hp. cbn [sem nth]. f_equal. unfold eP. lia.
Qed.

(* ------------------------------------------------------------------------------------------ *)
(* 6. volatility.KeltnerChannel
      "Middle Line = EMA(period, closings)
       Upper Band = EMA(period, closings) + 2 * ATR(period, highs, lows, closings)
       Lower Band = EMA(period, closings) - 2 * ATR(period, highs, lows, closings)"
   ATR with its default moving average (SMA of the true range, [Atr_sma_doc] of C01Other).  The configuration pairs an
   ATR of period pa with an EMA; admissible: EMA period <= pa + 1 (NewKeltnerChannelWithPeriod uses the same period). *)

Definition Keltner_middle_doc (c : trend_Ema (T:=R)) (cs : list R) (i : nat) : R := ema_doc (eP c) (eS c) cs i.
Definition Keltner_upper_doc (pa : nat) (c : trend_Ema (T:=R)) (hs ls cs : list R) (i : nat) : R :=
  ema_doc (eP c) (eS c) cs i + 2 * Atr_sma_doc pa hs ls cs i.
Definition Keltner_lower_doc (pa : nat) (c : trend_Ema (T:=R)) (hs ls cs : list R) (i : nat) : R :=
  ema_doc (eP c) (eS c) cs i - 2 * Atr_sma_doc pa hs ls cs i.

Lemma Keltner_all (pa : Z) (c : trend_Ema (T:=R)) (hs ls cs : list R) (n : nat) :
  let cfg := mk_volatility_KeltnerChannel (volatility_NewAtrWithPeriod (I:=R) pa) c in
  let out := volatility_KeltnerChannel_Compute cfg (EIn 0) (EIn 1) (EIn 2) in
  let w := Z.to_nat (volatility_KeltnerChannel_IdlePeriod cfg) in
  (1 <= pa)%Z -> (1 <= trend_Ema_Period c <= pa + 1)%Z ->
  length hs = n -> length ls = n -> length cs = n ->
  sem (fst (fst out)) [hs; ls; cs] = tab w n (Keltner_upper_doc (Z.to_nat pa) c hs ls cs) /\
  sem (snd (fst out)) [hs; ls; cs] = tab w n (Keltner_middle_doc c cs) /\
  sem (snd out) [hs; ls; cs] = tab w n (Keltner_lower_doc (Z.to_nat pa) c hs ls cs).
Proof.
  intros cfg out w Hpa Hpe Hh Hl Hc. subst out w cfg.
  pose proof (Atr_documented pa hs ls cs n Hpa Hh Hl Hc) as Ea. cbv zeta in Ea.
  assert (Ee : sem (trend_Ema_Compute c (EIn 2)) [hs; ls; cs] = tab (eP c - 1) n (ema_doc (eP c) (eS c) cs)).
  { rewrite ema_top by lia. cbn [sem nth]. rewrite Hc. reflexivity. }
  unfold volatility_KeltnerChannel_Compute, volatility_KeltnerChannel_IdlePeriod, helper_Add, helper_Subtract,
    helper_MultiplyBy.
  cbn [volatility_KeltnerChannel_Atr volatility_KeltnerChannel_Ema fst snd sem].
  rewrite Ea, Ee, tab_map, tab_s_skip.
  replace (eP c - 1 + Z.to_nat (volatility_Atr_IdlePeriod (volatility_NewAtrWithPeriod pa) - trend_Ema_IdlePeriod c))%nat
    with (Z.to_nat (volatility_Atr_IdlePeriod (volatility_NewAtrWithPeriod (I:=R) (T:=R) pa))).
  2:{ unfold volatility_Atr_IdlePeriod, volatility_NewAtrWithPeriod, volatility_NewAtrWithMa, trend_Sma_as_trend_Ma,
        trend_NewSmaWithPeriod, trend_Sma_IdlePeriod, trend_Ema_IdlePeriod, eP.
      cbn [volatility_Atr_Ma trend_Ma_IdlePeriod trend_Sma_Period]. lia. }
  rewrite !tab_op2.
  split; [|split; [reflexivity|]]; apply tab_fun_ext; intros i;
    unfold Keltner_upper_doc, Keltner_lower_doc; cbn [nadd nsub nmul nofZ NumR]; ring.
Qed.

(* ------------------------------------------------------------------------------------------ *)
(* 7. volatility.AccelerationBands
      "Upper Band = SMA(High * (1 + 4 * (High - Low) / (High + Low)))
       Middle Band = SMA(Closing)
       Lower Band = SMA(Low * (1 - 4 * (High - Low) / (High + Low)))" *)

Definition AccelerationBands_upper_doc (p : nat) (hs ls : list R) : nat -> R :=
  fmean p (fun j => at_ hs j * (1 + 4 * (at_ hs j - at_ ls j) / (at_ hs j + at_ ls j))).
Definition AccelerationBands_middle_doc (p : nat) (cs : list R) : nat -> R := wmean p cs.
Definition AccelerationBands_lower_doc (p : nat) (hs ls : list R) : nat -> R :=
  fmean p (fun j => at_ ls j * (1 - 4 * (at_ hs j - at_ ls j) / (at_ hs j + at_ ls j))).

Lemma AccelerationBands_all (cfg : volatility_AccelerationBands) (hs ls cs : list R) (n : nat) :
  let out := volatility_AccelerationBands_Compute (T:=R) cfg (EIn 0) (EIn 1) (EIn 2) in
  let w := Z.to_nat (volatility_AccelerationBands_IdlePeriod cfg) in
  let P := Z.to_nat (volatility_AccelerationBands_Period cfg) in
  (1 <= volatility_AccelerationBands_Period cfg)%Z ->
  length hs = n -> length ls = n -> length cs = n ->
  sem (fst (fst out)) [hs; ls; cs] = tab w n (AccelerationBands_upper_doc P hs ls) /\
  sem (snd (fst out)) [hs; ls; cs] = tab w n (AccelerationBands_middle_doc P cs) /\
  sem (snd out) [hs; ls; cs] = tab w n (AccelerationBands_lower_doc P hs ls).
Proof.
  intros out w P Hp Hh Hl Hc. subst out w P. destruct cfg as [p]. cbn [volatility_AccelerationBands_Period] in *.
  unfold volatility_AccelerationBands_Compute, volatility_AccelerationBands_IdlePeriod, trend_NewSmaWithPeriod.
  cbn [volatility_AccelerationBands_Period fst snd].
  replace (Z.to_nat (p - 1)) with (0 + (Z.to_nat p - 1))%nat by lia.
  split; [|split].
  - apply (sma_on_tab p _ [hs; ls; cs] 0 n _ Hp).
    unfold helper_Multiply, helper_IncrementBy, helper_MultiplyBy, helper_Divide, helper_Subtract, helper_Add.
    cbn [sem nth]. rewrite !(raw_op2 _ hs ls n Hh Hl), tab_op2, !tab_map, (raw_tab_op2 _ _ hs n Hh).
    apply tab_fun_ext. intros i. cbn [nadd nsub nmul ndiv nofZ NumR]. unfold Rdiv. ring.
  - rewrite sma_is_window_mean_expr by exact Hp. cbn [sem nth]. rewrite Hc. reflexivity.
  - apply (sma_on_tab p _ [hs; ls; cs] 0 n _ Hp).
    unfold helper_Multiply, helper_IncrementBy, helper_MultiplyBy, helper_Divide, helper_Subtract, helper_Add.
    cbn [sem nth]. rewrite !(raw_op2 _ hs ls n Hh Hl), tab_op2, !tab_map, (raw_tab_op2 _ _ ls n Hl).
    apply tab_fun_ext. intros i. cbn [nadd nsub nmul ndiv nofZ NumR]. unfold Rdiv. ring.
Qed.

(* ------------------------------------------------------------------------------------------ *)
(* 8. volume.Cmf
      "MFM = ((Closing - Low) - (High - Closing)) / (High - Low)
       MFV = MFM * Volume
       CMF = Sum(20, Money Flow Volume) / Sum(20, Volume)"          (20 is the default period of Sum) *)

Definition Cmf_doc (cfg : volume_Cmf) (hs ls cs vs : list R) (i : nat) : R :=
  let p := Z.to_nat (trend_MovingSum_Period (volume_Cmf_Sum cfg)) in
  fsum p (Mfv_doc hs ls cs vs) i / wsum p vs i.

Theorem Cmf_documented (cfg : volume_Cmf) (hs ls cs vs : list R) (n : nat) :
  (1 <= trend_MovingSum_Period (volume_Cmf_Sum cfg))%Z ->
  length hs = n -> length ls = n -> length cs = n -> length vs = n ->
  sem (volume_Cmf_Compute (T:=R) cfg (EIn 0) (EIn 1) (EIn 2) (EIn 3)) [hs; ls; cs; vs]
  = tab (Z.to_nat (volume_Cmf_IdlePeriod cfg)) n (Cmf_doc cfg hs ls cs vs).
Proof.
  destruct cfg as [mfv [p]]. cbn [volume_Cmf_Sum trend_MovingSum_Period]. intros Hp Hh Hl Hc Hv.
  unfold volume_Cmf_Compute, volume_Cmf_IdlePeriod, trend_MovingSum_IdlePeriod, Cmf_doc, helper_Divide.
  cbn [volume_Cmf_Sum volume_Cmf_Mfv trend_MovingSum_Period].
  change (sem (EOp2 ?f ?a ?b) ?env) with (s_op2 f (sem a env) (sem b env)).
  rewrite (sum_on_tab p _ [hs; ls; cs; vs] 0 n (Mfv_doc hs ls cs vs) Hp).
  2:{ exact (sem_Mfv_gen mfv (EIn 0) (EIn 1) (EIn 2) (EIn 3) [hs; ls; cs; vs] n Hh Hl Hc Hv). }
  rewrite moving_sum_is_window_sum_expr by exact Hp. cbn [sem nth]. rewrite Hv.
  replace (0 + (Z.to_nat p - 1))%nat with (Z.to_nat (p - 1)) by lia.
  replace (Z.to_nat p - 1)%nat with (Z.to_nat (p - 1)) by lia.
  rewrite tab_op2. reflexivity.
Qed.

(* ------------------------------------------------------------------------------------------ *)
(* 9. momentum.Pvo
      "PVO = ((EMA(shortPeriod, prices) - EMA(longPeriod, prices)) / EMA(longPeriod, prices)) * 100
       Signal = EMA(9, PVO)
       Histogram = PVO - Signal"
   The formulas (and the generated definition) are those of momentum.Ppo, applied to the volumes. *)

Definition Pvo_as_Ppo (cfg : momentum_Pvo (T:=R)) : momentum_Ppo (T:=R) :=
  mk_momentum_Ppo (momentum_Pvo_ShortEma cfg) (momentum_Pvo_LongEma cfg) (momentum_Pvo_SignalEma cfg).

Definition Pvo_doc (cfg : momentum_Pvo (T:=R)) (vs : list R) (i : nat) : R :=
  let emaS := ema_doc (Z.to_nat (trend_Ema_Period (momentum_Pvo_ShortEma cfg)))
                      (trend_Ema_Smoothing (momentum_Pvo_ShortEma cfg)) vs in
  let emaL := ema_doc (Z.to_nat (trend_Ema_Period (momentum_Pvo_LongEma cfg)))
                      (trend_Ema_Smoothing (momentum_Pvo_LongEma cfg)) vs in
  ((emaS i - emaL i) / emaL i) * 100.
Definition Pvo_signal_doc (cfg : momentum_Pvo (T:=R)) (vs : list R) (i : nat) : R :=
  let L := Z.to_nat (trend_Ema_Period (momentum_Pvo_LongEma cfg)) in
  ema_doc (Z.to_nat (trend_Ema_Period (momentum_Pvo_SignalEma cfg)))
          (trend_Ema_Smoothing (momentum_Pvo_SignalEma cfg))
          (tab (L - 1) (length vs) (Pvo_doc cfg vs)) (i - (L - 1)).
Definition Pvo_histogram_doc (cfg : momentum_Pvo (T:=R)) (vs : list R) (i : nat) : R :=
  Pvo_doc cfg vs i - Pvo_signal_doc cfg vs i.

Lemma Pvo_all (cfg : momentum_Pvo (T:=R)) (vs : list R) :
  let out := momentum_Pvo_Compute (T:=R) cfg (EIn 0) in
  let w := Z.to_nat (momentum_Pvo_IdlePeriod cfg) in
  (1 <= trend_Ema_Period (momentum_Pvo_ShortEma cfg))%Z ->
  (trend_Ema_Period (momentum_Pvo_ShortEma cfg) <= trend_Ema_Period (momentum_Pvo_LongEma cfg))%Z ->
  (1 <= trend_Ema_Period (momentum_Pvo_SignalEma cfg))%Z ->
  sem (fst (fst out)) [vs] = tab w (length vs) (Pvo_doc cfg vs) /\
  sem (snd (fst out)) [vs] = tab w (length vs) (Pvo_signal_doc cfg vs) /\
  sem (snd out) [vs] = tab w (length vs) (Pvo_histogram_doc cfg vs).
Proof.
  intros out w H1 H2 H3. exact (Ppo_all (Pvo_as_Ppo cfg) vs H1 H2 H3).
Qed.

Theorem Pvo_documented (cfg : momentum_Pvo (T:=R)) (vs : list R) :
  (1 <= trend_Ema_Period (momentum_Pvo_ShortEma cfg))%Z ->
  (trend_Ema_Period (momentum_Pvo_ShortEma cfg) <= trend_Ema_Period (momentum_Pvo_LongEma cfg))%Z ->
  (1 <= trend_Ema_Period (momentum_Pvo_SignalEma cfg))%Z ->
  sem (fst (fst (momentum_Pvo_Compute (T:=R) cfg (EIn 0)))) [vs]
  = tab (Z.to_nat (momentum_Pvo_IdlePeriod cfg)) (length vs) (Pvo_doc cfg vs).
Proof. intros H1 H2 H3. exact (proj1 (Pvo_all cfg vs H1 H2 H3)). Qed.
Theorem Pvo_signal_documented (cfg : momentum_Pvo (T:=R)) (vs : list R) :
  (1 <= trend_Ema_Period (momentum_Pvo_ShortEma cfg))%Z ->
  (trend_Ema_Period (momentum_Pvo_ShortEma cfg) <= trend_Ema_Period (momentum_Pvo_LongEma cfg))%Z ->
  (1 <= trend_Ema_Period (momentum_Pvo_SignalEma cfg))%Z ->
  sem (snd (fst (momentum_Pvo_Compute (T:=R) cfg (EIn 0)))) [vs]
  = tab (Z.to_nat (momentum_Pvo_IdlePeriod cfg)) (length vs) (Pvo_signal_doc cfg vs).
Proof. intros H1 H2 H3. exact (proj1 (proj2 (Pvo_all cfg vs H1 H2 H3))). Qed.
Theorem Pvo_histogram_documented (cfg : momentum_Pvo (T:=R)) (vs : list R) :
  (1 <= trend_Ema_Period (momentum_Pvo_ShortEma cfg))%Z ->
  (trend_Ema_Period (momentum_Pvo_ShortEma cfg) <= trend_Ema_Period (momentum_Pvo_LongEma cfg))%Z ->
  (1 <= trend_Ema_Period (momentum_Pvo_SignalEma cfg))%Z ->
  sem (snd (momentum_Pvo_Compute (T:=R) cfg (EIn 0))) [vs]
  = tab (Z.to_nat (momentum_Pvo_IdlePeriod cfg)) (length vs) (Pvo_histogram_doc cfg vs).
Proof. intros H1 H2 H3. exact (proj2 (proj2 (Pvo_all cfg vs H1 H2 H3))). Qed.

(* ------------------------------------------------------------------------------------------ *)
(* RMA over a series that starts at position w (counterpart of C01Trend.ema_on_tab) *)

Definition rma_step (p : Z) (before n : R) : R := (before * (IZR p - 1) + n) / IZR p.
Definition frma (w : nat) (p : Z) (f : nat -> R) (i : nat) : R := fseeded w (Z.to_nat p) (rma_step p) f i.

Lemma rma_on_tab {I} (p : Z) (e : expr I R) (env : list (list I)) (w n : nat) (f : nat -> R) :
  (1 <= p)%Z -> sem e env = tab w n f ->
  sem (trend_Rma_Compute (T:=R) (mk_trend_Rma p) e) env = tab (w + (Z.to_nat p - 1)) n (frma w p f).
Proof.
  intros Hp He. rewrite rma_is_documented_gen by exact Hp.
  rewrite He, tab_length, C01Trend.tab_reindex. apply tab_ext. intros i Hi.
  unfold frma.
  replace (i - w)%nat with (Z.to_nat p - 1 + (i - w - (Z.to_nat p - 1)))%nat by lia.
  rewrite seeded_rec_tab by lia. f_equal. lia.
Qed.

Lemma Rsum_map_opp {A} (g : A -> R) (l : list A) : Rsum (map (fun j => - g j) l) = - Rsum (map g l).
Proof. induction l as [|x l IH]; cbn [map]; [rewrite Rsum_nil; lra|]. rewrite !Rsum_cons, IH. lra. Qed.

Lemma fmean_opp (p : nat) (f : nat -> R) (i : nat) : fmean p (fun j => - f j) i = - fmean p f i.
Proof. unfold fmean, fsum. rewrite Rsum_map_opp. unfold Rdiv. ring. Qed.

Lemma fseeded_opp (w p : nat) (step : R -> R -> R) (f : nat -> R) :
  (forall a b, step (- a) (- b) = - step a b) ->
  forall i, fseeded w p step (fun j => - f j) i = - fseeded w p step f i.
Proof.
  intros Hs. induction i as [|i IH]; cbn [fseeded]; [apply fmean_opp|].
  destruct (Nat.leb (w + p) (S i)); [rewrite IH; apply Hs|apply fmean_opp].
Qed.

(* "Current - Prior" *)
Definition price_change (cs : list R) (i : nat) : R := at_ cs i - at_ cs (i - 1).

Lemma sem_change1 {I} (e : expr I R) (env : list (list I)) :
  sem (helper_Change (T:=R) e 1) env = tab 1 (length (sem e env)) (price_change (sem e env)).
Proof.
  unfold helper_Change, helper_Subtract. cbn [sem]. unfold s_buffered.
  rewrite (raw_s_skip 1 (sem e env) _ eq_refl). change (Z.to_nat 1) with 1%nat.
  rewrite (tab_op2_lag _ 1 _ _ (sem e env) eq_refl). reflexivity.
Qed.

(* ------------------------------------------------------------------------------------------ *)
(* 10. momentum.Rsi
       "RS = Average Gain / Average Loss
        RSI = 100 - (100 / (1 + RS))"
   Gain / loss of a position: the positive / negated negative part of the change of the closing; the averages are RMAs
   (the configured trend.Rma) of the gains / the losses. *)

Definition Rsi_gain (cs : list R) (i : nat) : R := if Rltb 0 (price_change cs i) then price_change cs i else 0.
Definition Rsi_loss (cs : list R) (i : nat) : R := if Rltb (price_change cs i) 0 then - price_change cs i else 0.
Definition Rsi_doc (p : Z) (cs : list R) (i : nat) : R :=
  let rs := frma 1 p (Rsi_gain cs) i / frma 1 p (Rsi_loss cs) i in
  100 - 100 / (1 + rs).

Lemma Rpow_model_m1 (x : R) : Rpow_model x (-1) = / x.
Proof.
  unfold Rpow_model. destruct (Req_EM_T (-1) 2) as [H|_]; [lra|].
  destruct (Req_EM_T (-1) (-1)) as [_|H]; [reflexivity|lra].
Qed.

Theorem Rsi_documented_gen {I} (cfg : momentum_Rsi) (e : expr I R) (env : list (list I)) :
  let p := trend_Rma_Period (momentum_Rsi_Rma cfg) in
  (1 <= p)%Z ->
  sem (momentum_Rsi_Compute (T:=R) cfg e) env
  = tab (Z.to_nat (momentum_Rsi_IdlePeriod cfg)) (length (sem e env)) (Rsi_doc p (sem e env)).
Proof.
  destruct cfg as [[p]]. cbn [momentum_Rsi_Rma trend_Rma_Period]. intros Hp.
  set (cs := sem e env). set (n := length cs).
  unfold momentum_Rsi_Compute, momentum_Rsi_IdlePeriod, trend_Rma_IdlePeriod. cbn [momentum_Rsi_Rma trend_Rma_Period].
  assert (Eg : sem (trend_Rma_Compute (mk_trend_Rma p) (helper_KeepPositives (helper_Change e 1))) env
               = tab (1 + (Z.to_nat p - 1)) n (frma 1 p (Rsi_gain cs))).
  { apply rma_on_tab; [exact Hp|]. unfold helper_KeepPositives.
    change (sem (EMap ?f ?a) ?v) with (map f (sem a v)). rewrite sem_change1, tab_map. reflexivity. }
  assert (El : sem (trend_Rma_Compute (mk_trend_Rma p) (helper_KeepNegatives (helper_Change e 1))) env
               = tab (1 + (Z.to_nat p - 1)) n
                     (frma 1 p (fun i => if Rltb (price_change cs i) 0 then price_change cs i else 0))).
  { apply rma_on_tab; [exact Hp|]. unfold helper_KeepNegatives.
    change (sem (EMap ?f ?a) ?v) with (map f (sem a v)). rewrite sem_change1, tab_map. reflexivity. }
  unfold helper_IncrementBy, helper_MultiplyBy, helper_Pow, helper_Divide.
  cbn [sem].
  rewrite Eg, El, tab_map, tab_op2, !tab_map.
  replace (Z.to_nat (p - 1 + 1)) with (1 + (Z.to_nat p - 1))%nat by lia.
  apply tab_fun_ext. intros i. unfold Rsi_doc. cbn [nadd nmul ndiv npow nofZ NumR]. rewrite Rpow_model_m1.
  assert (EL : frma 1 p (fun i0 => if Rltb (price_change cs i0) 0 then price_change cs i0 else 0) i * -1
               = frma 1 p (Rsi_loss cs) i).
  { transitivity (- frma 1 p (fun i0 => if Rltb (price_change cs i0) 0 then price_change cs i0 else 0) i); [ring|].
    unfold frma. rewrite <- fseeded_opp by (intros a b; unfold rma_step, Rdiv; ring).
    apply fseeded_ext; [lia|]. intros k _. unfold Rsi_loss.
    destruct (Rltb (price_change cs k) 0); ring. }
  rewrite EL.
  replace (frma 1 p (Rsi_gain cs) i / frma 1 p (Rsi_loss cs) i + 1)
    with (1 + frma 1 p (Rsi_gain cs) i / frma 1 p (Rsi_loss cs) i) by ring.
  unfold Rdiv. ring.
Qed.

Theorem Rsi_documented (cfg : momentum_Rsi) (cs : list R) :
  let p := trend_Rma_Period (momentum_Rsi_Rma cfg) in
  (1 <= p)%Z ->
  sem (momentum_Rsi_Compute (T:=R) cfg (EIn 0)) [cs]
  = tab (Z.to_nat (momentum_Rsi_IdlePeriod cfg)) (length cs) (Rsi_doc p cs).
Proof. exact (Rsi_documented_gen cfg (EIn 0) [cs]). Qed.

(* ------------------------------------------------------------------------------------------ *)
(* 11. trend.Tsi: the code deviates from its documentation
       "PCDS = Ema(13, Ema(25, (Current - Prior)))
        APCDS = Ema(13, Ema(25, Abs(Current - Prior)))
        TSI = (PCDS / APCDS) * 100"
   25 / 13 are the default periods of FirstSmoothing / SecondSmoothing (trend.NewTsiWith builds both as EMAs): the
   documentation applies the first smoothing to the changes and the second smoothing to the result.  The code computes
   FirstSmoothing.Compute(SecondSmoothing.Compute(changes)): the two smoothings are nested the other way round. *)

(* double smoothing: [outer] applied to [inner] applied to the series f that starts at position 1 *)
Definition double_ema (inner outer : trend_Ema (T:=R)) (f : nat -> R) : nat -> R :=
  fema (1 + (eP inner - 1)) (eP outer) (eS outer) (fema 1 (eP inner) (eS inner) f).
Definition Tsi_formula (inner outer : trend_Ema (T:=R)) (cs : list R) (i : nat) : R :=
  (double_ema inner outer (price_change cs) i / double_ema inner outer (fun j => Rabs (price_change cs j)) i) * 100.

Definition Tsi_doc (first second : trend_Ema (T:=R)) : list R -> nat -> R := Tsi_formula first second.
Definition Tsi_actual_formula (first second : trend_Ema (T:=R)) : list R -> nat -> R := Tsi_formula second first.

Definition Tsi_cfg {I} (first second : trend_Ema (T:=R)) : trend_Tsi (I:=I) (T:=R) :=
  mk_trend_Tsi (trend_Ema_as_trend_Ma first) (trend_Ema_as_trend_Ma second).

Lemma Tsi_cfg_NewTsiWith {I} (p1 p2 : Z) :
  trend_NewTsiWith (I:=I) (T:=R) p1 p2 = Tsi_cfg (mk_trend_Ema p1 2) (mk_trend_Ema p2 2).
Proof. reflexivity. Qed.

Theorem Tsi_actual_gen {I} (first second : trend_Ema (T:=R)) (e : expr I R) (env : list (list I)) :
  (1 <= trend_Ema_Period first)%Z -> (1 <= trend_Ema_Period second)%Z ->
  sem (trend_Tsi_Compute (Tsi_cfg first second) e) env
  = tab (Z.to_nat (trend_Tsi_IdlePeriod (Tsi_cfg (I:=I) first second))) (length (sem e env))
        (Tsi_actual_formula first second (sem e env)).
Proof.
  intros H1 H2. set (cs := sem e env). set (n := length cs).
  unfold trend_Tsi_Compute, trend_Tsi_IdlePeriod, Tsi_cfg, trend_Ema_as_trend_Ma, trend_Ema_IdlePeriod,
    helper_MultiplyBy, helper_Divide, helper_Abs.
  cbn [trend_Tsi_FirstSmoothing trend_Tsi_SecondSmoothing trend_Ma_Compute trend_Ma_IdlePeriod].
  assert (Ec := sem_change1 e env). fold cs n in Ec.
  assert (Ea : sem (EMap (fun x : R => nabs x) (helper_Change e 1)) env
               = tab 1 n (fun j => Rabs (price_change cs j))).
  { cbn [sem]. cbn [sem] in Ec. rewrite Ec, tab_map. reflexivity. }
  assert (P := ema_nested first _ env _ _ _ H1 (ema_nested second _ env _ _ _ H2 Ec)).
  assert (A := ema_nested first _ env _ _ _ H1 (ema_nested second _ env _ _ _ H2 Ea)).
  cbn [sem]. cbn [sem] in P, A. rewrite P, A, tab_op2, tab_map.
  f_equal. unfold eP. lia.
Qed.

Theorem Tsi_actual (first second : trend_Ema (T:=R)) (cs : list R) :
  (1 <= trend_Ema_Period first)%Z -> (1 <= trend_Ema_Period second)%Z ->
  sem (trend_Tsi_Compute (Tsi_cfg first second) (EIn 0)) [cs]
  = tab (Z.to_nat (trend_Tsi_IdlePeriod (Tsi_cfg (I:=R) first second))) (length cs)
        (Tsi_actual_formula first second cs).
Proof. exact (Tsi_actual_gen first second (EIn 0) [cs]). Qed.

(* equal smoothings: the code is the documented formula *)
Theorem Tsi_documented_when_equal (c : trend_Ema (T:=R)) (cs : list R) :
  (1 <= trend_Ema_Period c)%Z ->
  sem (trend_Tsi_Compute (Tsi_cfg c c) (EIn 0)) [cs]
  = tab (Z.to_nat (trend_Tsi_IdlePeriod (Tsi_cfg (I:=R) c c))) (length cs) (Tsi_doc c c cs).
Proof. intros H. exact (Tsi_actual c c cs H H). Qed.

(* NewTsiWith 2 3 (first smoothing EMA(2), second EMA(3), smoothing constants 2) on the closings [0; 1; 1; 1; 0]:
   the changes are 1, 0, 0, -1.  The code yields Ema(2, Ema(3, changes)) = 0 at position 4, hence TSI = 0;
   the documentation: Ema(3, Ema(2, changes)) = 1/54 and Ema(3, Ema(2, |changes|)) = 25/54, TSI = 4. *)
Theorem Tsi_refuted : exists (first second : trend_Ema (T:=R)) (cs : list R) (i : nat),
  (1 <= trend_Ema_Period first)%Z /\ (1 <= trend_Ema_Period second)%Z /\
  (Z.to_nat (trend_Tsi_IdlePeriod (Tsi_cfg (I:=R) first second)) <= i < length cs)%nat /\
  nth (i - Z.to_nat (trend_Tsi_IdlePeriod (Tsi_cfg (I:=R) first second)))
      (sem (trend_Tsi_Compute (Tsi_cfg first second) (EIn 0)) [cs]) 0
  <> Tsi_doc first second cs i.
Proof.
  exists (mk_trend_Ema 2 2), (mk_trend_Ema 3 2), [0; 1; 1; 1; 0], 4%nat.
  split; [cbn; lia|]. split; [cbn; lia|]. split; [cbn; lia|].
  rewrite Tsi_actual by (cbn; lia).
  rewrite nth_tab by (cbn; lia).
  set (cs := [0; 1; 1; 1; 0]).
  assert (X1 : price_change cs 1 = 1) by (unfold price_change, at_, cs; cbn [nth Nat.sub]; lra).
  assert (X2 : price_change cs 2 = 0) by (unfold price_change, at_, cs; cbn [nth Nat.sub]; lra).
  assert (X3 : price_change cs 3 = 0) by (unfold price_change, at_, cs; cbn [nth Nat.sub]; lra).
  assert (X4 : price_change cs 4 = -1) by (unfold price_change, at_, cs; cbn [nth Nat.sub]; lra).
  assert (R1 : Rabs 1 = 1) by apply Rabs_R1.
  assert (R0 : Rabs 0 = 0) by apply Rabs_R0.
  assert (Rm : Rabs (-1) = 1) by (rewrite Rabs_left by lra; lra).
  unfold Tsi_actual_formula, Tsi_doc, Tsi_formula, double_ema, fema, eP, eS.
  cbn [trend_Ema_Period trend_Ema_Smoothing].
  change (Z.to_nat 2) with 2%nat. change (Z.to_nat 3) with 3%nat.
  cbn [Nat.sub Nat.add fseeded Nat.leb].
  unfold fmean, fsum, ema_step. cbn [Nat.sub Nat.add seq map fseeded Nat.leb].
  rewrite !Rsum_cons, !Rsum_nil. cbn [Nat.sub Nat.add seq map fseeded Nat.leb].
  unfold fmean, fsum. cbn [Nat.sub Nat.add seq map].
  rewrite !Rsum_cons, !Rsum_nil, ?X1, ?X2, ?X3, ?X4, ?R1, ?R0, ?Rm. cbn [INR].
  intros H. field_simplify in H. lra.
Qed.

(* ------------------------------------------------------------------------------------------ *)
(* Moving maximum / minimum over a series that starts at position w *)

Definition fmax (p : nat) (f : nat -> R) (i : nat) : R := Rlist_max (map f (seq (i + 1 - p) p)).
Definition fmin (p : nat) (f : nat -> R) (i : nat) : R := Rlist_min (map f (seq (i + 1 - p) p)).

Lemma fmax_at (p : nat) (xs : list R) (i : nat) : fmax p (at_ xs) i = wmax p xs i.
Proof. reflexivity. Qed.
Lemma fmin_at (p : nat) (xs : list R) (i : nat) : fmin p (at_ xs) i = wmin p xs i.
Proof. reflexivity. Qed.

Lemma max_on_tab {I} (p : Z) (e : expr I R) (env : list (list I)) (w n : nat) (f : nat -> R) :
  (1 <= p)%Z -> sem e env = tab w n f -> nonzero_first (Z.to_nat p) (tab w n f) ->
  sem (trend_MovingMax_Compute (T:=R) (mk_trend_MovingMax p) e) env = tab (w + (Z.to_nat p - 1)) n (fmax (Z.to_nat p) f).
Proof.
  intros Hp He Hnz. rewrite moving_max_gen by (try rewrite He; assumption).
  rewrite He, tab_length, C01Trend.tab_reindex. apply tab_ext. intros i Hi.
  unfold wmax, fmax. rewrite C01Trend.window_tab by lia. do 3 f_equal. lia.
Qed.

Lemma min_on_tab {I} (p : Z) (e : expr I R) (env : list (list I)) (w n : nat) (f : nat -> R) :
  (1 <= p)%Z -> sem e env = tab w n f -> nonzero_first (Z.to_nat p) (tab w n f) ->
  sem (trend_MovingMin_Compute (T:=R) (mk_trend_MovingMin p) e) env = tab (w + (Z.to_nat p - 1)) n (fmin (Z.to_nat p) f).
Proof.
  intros Hp He Hnz. rewrite moving_min_gen by (try rewrite He; assumption).
  rewrite He, tab_length, C01Trend.tab_reindex. apply tab_ext. intros i Hi.
  unfold wmin, fmin. rewrite C01Trend.window_tab by lia. do 3 f_equal. lia.
Qed.

Lemma In_firstn_le {A} (x : A) : forall (p q : nat) (l : list A), (p <= q)%nat -> In x (firstn p l) -> In x (firstn q l).
Proof.
  induction p as [|p IH]; intros q l Hpq H; [destruct H|].
  destruct q as [|q]; [lia|]. destruct l as [|y l]; [destruct H|].
  cbn [firstn] in *. destruct H as [H|H]; [left; exact H|right; apply (IH q); [lia|exact H]].
Qed.

Lemma nonzero_first_le (p q : nat) (xs : list R) : (p <= q)%nat -> nonzero_first q xs -> nonzero_first p xs.
Proof.
  intros Hpq H. unfold nonzero_first in *. rewrite Forall_forall in *. intros x Hx. apply H.
  exact (In_firstn_le x p q xs Hpq Hx).
Qed.

(* ------------------------------------------------------------------------------------------ *)
(* 12. volatility.ChandelierExit: the code deviates from its documentation
       "Chandelier Exit Long = 22-Period SMA High - ATR(22) * 3
        Chandelier Exit Short = 22-Period SMA Low + ATR(22) * 3"          (22, 3: defaults of Period, Multiplier)
   The code takes the Period-HIGHEST high (MovingMax) and the Period-LOWEST low (MovingMin), not the SMAs. *)

Definition ChandelierExit_long_doc (c : volatility_ChandelierExit (T:=R)) (hs ls cs : list R) (i : nat) : R :=
  let p := Z.to_nat (volatility_ChandelierExit_Period c) in
  wmean p hs i - Atr_sma_doc p hs ls cs i * volatility_ChandelierExit_Multiplier c.
Definition ChandelierExit_short_doc (c : volatility_ChandelierExit (T:=R)) (hs ls cs : list R) (i : nat) : R :=
  let p := Z.to_nat (volatility_ChandelierExit_Period c) in
  wmean p ls i + Atr_sma_doc p hs ls cs i * volatility_ChandelierExit_Multiplier c.
Definition ChandelierExit_long_actual (c : volatility_ChandelierExit (T:=R)) (hs ls cs : list R) (i : nat) : R :=
  let p := Z.to_nat (volatility_ChandelierExit_Period c) in
  wmax p hs i - Atr_sma_doc p hs ls cs i * volatility_ChandelierExit_Multiplier c.
Definition ChandelierExit_short_actual (c : volatility_ChandelierExit (T:=R)) (hs ls cs : list R) (i : nat) : R :=
  let p := Z.to_nat (volatility_ChandelierExit_Period c) in
  wmin p ls i + Atr_sma_doc p hs ls cs i * volatility_ChandelierExit_Multiplier c.

Theorem ChandelierExit_actual (c : volatility_ChandelierExit (T:=R)) (hs ls cs : list R) (n : nat) :
  let p := volatility_ChandelierExit_Period c in
  let out := volatility_ChandelierExit_Compute (I:=R) c (EIn 0) (EIn 1) (EIn 2) in
  let w := Z.to_nat (volatility_ChandelierExit_IdlePeriod c) in
  (1 <= p)%Z -> nonzero_first (Z.to_nat p) hs -> nonzero_first (Z.to_nat p) ls ->
  length hs = n -> length ls = n -> length cs = n ->
  sem (fst out) [hs; ls; cs] = tab w n (ChandelierExit_long_actual c hs ls cs) /\
  sem (snd out) [hs; ls; cs] = tab w n (ChandelierExit_short_actual c hs ls cs).
Proof.
  intros p out w Hp Hnh Hnl Hh Hl Hc. subst p out w. destruct c as [p mult].
  cbn [volatility_ChandelierExit_Period] in *.
  pose proof (Atr_documented p hs ls cs n Hp Hh Hl Hc) as Ea. cbv zeta in Ea.
  assert (Emax := moving_max_gen p (EIn 0) [hs; ls; cs] Hp Hnh).
  assert (Emin := moving_min_gen p (EIn 1) [hs; ls; cs] Hp Hnl).
  cbn [sem nth] in Emax, Emin. rewrite Hh in Emax. rewrite Hl in Emin.
  assert (Ei : Z.to_nat (volatility_Atr_IdlePeriod (volatility_NewAtrWithPeriod (I:=R) (T:=R) p)) = Z.to_nat p).
  { unfold volatility_Atr_IdlePeriod, volatility_NewAtrWithPeriod, volatility_NewAtrWithMa, trend_Sma_as_trend_Ma,
      trend_NewSmaWithPeriod, trend_Sma_IdlePeriod.
    cbn [volatility_Atr_Ma trend_Ma_IdlePeriod trend_Sma_Period]. lia. }
  rewrite Ei in Ea.
  unfold volatility_ChandelierExit_Compute, volatility_ChandelierExit_IdlePeriod, helper_Add, helper_Subtract,
    helper_MultiplyBy, trend_NewMovingMaxWithPeriod, trend_NewMovingMinWithPeriod.
  cbn [volatility_ChandelierExit_Period volatility_ChandelierExit_Multiplier fst snd sem].
  cbn [sem] in Ea, Emax, Emin. rewrite Ea, Emax, Emin, !tab_s_skip, tab_map.
  replace (Z.to_nat p - 1 + Z.to_nat (volatility_Atr_IdlePeriod (volatility_NewAtrWithPeriod p)
                                       - trend_MovingMax_IdlePeriod (mk_trend_MovingMax p)))%nat
    with (Z.to_nat p)
    by (change (Z.to_nat (volatility_Atr_IdlePeriod (volatility_NewAtrWithPeriod (I:=R) (T:=R) p)) = Z.to_nat p) in Ei;
        unfold trend_MovingMax_IdlePeriod; cbn [trend_MovingMax_Period]; lia).
  replace (Z.to_nat p - 1 + Z.to_nat (volatility_Atr_IdlePeriod (volatility_NewAtrWithPeriod p)
                                       - trend_MovingMin_IdlePeriod (mk_trend_MovingMin p)))%nat
    with (Z.to_nat p)
    by (change (Z.to_nat (volatility_Atr_IdlePeriod (volatility_NewAtrWithPeriod (I:=R) (T:=R) p)) = Z.to_nat p) in Ei;
        unfold trend_MovingMin_IdlePeriod; cbn [trend_MovingMin_Period]; lia).
  rewrite !tab_op2. split; reflexivity.
Qed.

(* Period 2, Multiplier 3, highs = lows = closings = [1; 1; 3]: at position 2 the highest high of the window is 3, the SMA
   of the highs is 2; the ATR term is the same on both sides *)
Theorem ChandelierExit_refuted :
  exists (c : volatility_ChandelierExit (T:=R)) (hs ls cs : list R),
    (1 <= volatility_ChandelierExit_Period c)%Z /\
    nonzero_first (Z.to_nat (volatility_ChandelierExit_Period c)) hs /\
    nonzero_first (Z.to_nat (volatility_ChandelierExit_Period c)) ls /\
    length ls = length hs /\ length cs = length hs /\
    sem (fst (volatility_ChandelierExit_Compute (I:=R) c (EIn 0) (EIn 1) (EIn 2))) [hs; ls; cs]
    <> tab (Z.to_nat (volatility_ChandelierExit_IdlePeriod c)) (length hs) (ChandelierExit_long_doc c hs ls cs).
Proof.
  exists (mk_volatility_ChandelierExit 2 3), [1; 1; 3], [1; 1; 3], [1; 1; 3].
  assert (Hnz : nonzero_first (Z.to_nat 2) [1; 1; 3]).
  { unfold nonzero_first. change (Z.to_nat 2) with 2%nat. cbn [firstn]. repeat constructor; lra. }
  cbn [volatility_ChandelierExit_Period].
  split; [lia|]. split; [exact Hnz|]. split; [exact Hnz|]. split; [reflexivity|]. split; [reflexivity|].
  rewrite (proj1 (ChandelierExit_actual (mk_volatility_ChandelierExit 2 3) [1; 1; 3] [1; 1; 3] [1; 1; 3] 3
                    ltac:(cbn; lia) Hnz Hnz eq_refl eq_refl eq_refl)).
  unfold volatility_ChandelierExit_IdlePeriod, ChandelierExit_long_actual, ChandelierExit_long_doc.
  cbn [volatility_ChandelierExit_Period volatility_ChandelierExit_Multiplier length].
  change (Z.to_nat 2) with 2%nat. unfold tab. cbn [Nat.sub seq map].
  generalize (Atr_sma_doc 2 [1; 1; 3] [1; 1; 3] [1; 1; 3] 2). intros a.
  assert (W : wmax 2 [1; 1; 3] 2 = 3).
  { unfold wmax, window. cbn [Nat.add Nat.sub seq map Rlist_max fold_left]. unfold at_. cbn [nth].
    apply Rmax_right. lra. }
  assert (M : wmean 2 [1; 1; 3] 2 = 2).
  { unfold wmean, wsum, window. cbn [Nat.add Nat.sub seq map]. rewrite !Rsum_cons, Rsum_nil.
    unfold at_. cbn [nth INR]. lra. }
  rewrite W, M. intros H. injection H as H. lra.
Qed.

(* ------------------------------------------------------------------------------------------ *)
(* 13. momentum.StochasticRsi
                            RSI - Min(RSI)
       "Stochastic RSI = -------------------------"
                           Max(RSI) - Min(RSI)
   Min / Max: moving minimum / maximum of the RSI series over the period of the configured MovingMin / MovingMax (one
   period q for both, as NewStochasticRsiWithPeriod builds them).  MovingMin / MovingMax are the window minimum / maximum
   when the first q values they see are non-zero (the former zero-fill defect, fixed): here the first q RSI values. *)

Definition StochasticRsi_doc (p : Z) (q : nat) (cs : list R) (i : nat) : R :=
  (Rsi_doc p cs i - fmin q (Rsi_doc p cs) i) / (fmax q (Rsi_doc p cs) i - fmin q (Rsi_doc p cs) i).

Theorem StochasticRsi_documented (cfg : momentum_StochasticRsi) (cs : list R) :
  let p := trend_Rma_Period (momentum_Rsi_Rma (momentum_StochasticRsi_Rsi cfg)) in
  let q := trend_MovingMax_Period (momentum_StochasticRsi_Max cfg) in
  (1 <= p)%Z -> (1 <= q)%Z -> trend_MovingMin_Period (momentum_StochasticRsi_Min cfg) = q ->
  nonzero_first (Z.to_nat q) (tab (Z.to_nat p) (length cs) (Rsi_doc p cs)) ->
  sem (momentum_StochasticRsi_Compute (T:=R) cfg (EIn 0)) [cs]
  = tab (Z.to_nat (momentum_StochasticRsi_IdlePeriod cfg)) (length cs) (StochasticRsi_doc p (Z.to_nat q) cs).
Proof.
  destruct cfg as [[[p]] [q'] [q]].
  cbn [momentum_StochasticRsi_Rsi momentum_StochasticRsi_Min momentum_StochasticRsi_Max momentum_Rsi_Rma
       trend_Rma_Period trend_MovingMax_Period trend_MovingMin_Period].
  intros Hp Hq -> Hnz.
  pose proof (Rsi_documented (mk_momentum_Rsi (mk_trend_Rma p)) cs Hp) as Er.
  cbn [momentum_Rsi_Rma trend_Rma_Period] in Er.
  replace (Z.to_nat (momentum_Rsi_IdlePeriod (mk_momentum_Rsi (mk_trend_Rma p)))) with (Z.to_nat p) in Er
    by (unfold momentum_Rsi_IdlePeriod, trend_Rma_IdlePeriod; cbn [momentum_Rsi_Rma trend_Rma_Period]; lia).
  assert (Emax := max_on_tab q _ [cs] _ _ _ Hq Er Hnz).
  assert (Emin := min_on_tab q _ [cs] _ _ _ Hq Er Hnz).
  unfold momentum_StochasticRsi_Compute, momentum_StochasticRsi_IdlePeriod, momentum_Rsi_IdlePeriod, trend_Rma_IdlePeriod,
    trend_MovingMin_IdlePeriod, trend_MovingMax_IdlePeriod, helper_Divide, helper_Subtract.
  cbn [momentum_StochasticRsi_Rsi momentum_StochasticRsi_Min momentum_StochasticRsi_Max momentum_Rsi_Rma
       trend_Rma_Period trend_MovingMax_Period trend_MovingMin_Period].
  cbn [sem]. rewrite Er, Emax, Emin, tab_s_skip.
  replace (Z.to_nat p + Z.to_nat (q - 1))%nat with (Z.to_nat p + (Z.to_nat q - 1))%nat by lia.
  rewrite !tab_op2. f_equal. lia.
Qed.

(* ------------------------------------------------------------------------------------------ *)
(* 14. trend.Kdj
       "RSV = ((Closing - Min(Low, rPeriod)) / (Max(High, rPeriod) - Min(Low, rPeriod))) * 100
        K = Sma(RSV, kPeriod)
        D = Sma(K, dPeriod)
        J = (3 * K) - (2 * D)" *)

Definition Kdj_rsv (r : nat) (hs ls cs : list R) (i : nat) : R :=
  ((at_ cs i - wmin r ls i) / (wmax r hs i - wmin r ls i)) * 100.
Definition Kdj_K_doc (r k : nat) (hs ls cs : list R) : nat -> R := fmean k (Kdj_rsv r hs ls cs).
Definition Kdj_D_doc (r k d : nat) (hs ls cs : list R) : nat -> R := fmean d (Kdj_K_doc r k hs ls cs).
Definition Kdj_J_doc (r k d : nat) (hs ls cs : list R) (i : nat) : R :=
  3 * Kdj_K_doc r k hs ls cs i - 2 * Kdj_D_doc r k d hs ls cs i.

Lemma Kdj_all (cfg : trend_Kdj) (hs ls cs : list R) (n : nat) :
  let r := trend_MovingMax_Period (trend_Kdj_MovingMax cfg) in
  let k := trend_Sma_Period (trend_Kdj_Sma1 cfg) in
  let d := trend_Sma_Period (trend_Kdj_Sma2 cfg) in
  let out := trend_Kdj_Compute (T:=R) cfg (EIn 0) (EIn 1) (EIn 2) in
  let w := Z.to_nat (trend_Kdj_IdlePeriod cfg) in
  (1 <= r)%Z -> trend_MovingMin_Period (trend_Kdj_MovingMin cfg) = r -> (1 <= k)%Z -> (1 <= d)%Z ->
  nonzero_first (Z.to_nat r) hs -> nonzero_first (Z.to_nat r) ls ->
  length hs = n -> length ls = n -> length cs = n ->
  sem (fst (fst out)) [hs; ls; cs] = tab w n (Kdj_K_doc (Z.to_nat r) (Z.to_nat k) hs ls cs) /\
  sem (snd (fst out)) [hs; ls; cs] = tab w n (Kdj_D_doc (Z.to_nat r) (Z.to_nat k) (Z.to_nat d) hs ls cs) /\
  sem (snd out) [hs; ls; cs] = tab w n (Kdj_J_doc (Z.to_nat r) (Z.to_nat k) (Z.to_nat d) hs ls cs).
Proof.
  destruct cfg as [[r] [r'] [k] [d]].
  cbn [trend_Kdj_MovingMax trend_Kdj_MovingMin trend_Kdj_Sma1 trend_Kdj_Sma2 trend_MovingMax_Period trend_MovingMin_Period
       trend_Sma_Period].
  intros Hr -> Hk Hd Hnh Hnl Hh Hl Hc. set (env := [hs; ls; cs]).
  assert (Emax := moving_max_gen r (EIn 0) env Hr Hnh).
  assert (Emin := moving_min_gen r (EIn 1) env Hr Hnl).
  cbn [sem nth env] in Emax, Emin. rewrite Hh in Emax. rewrite Hl in Emin. fold env in Emax, Emin.
  unfold trend_Kdj_Compute, trend_Kdj_IdlePeriod.
  cbn [trend_Kdj_MovingMax trend_Kdj_MovingMin trend_Kdj_Sma1 trend_Kdj_Sma2 trend_MovingMax_Period trend_MovingMin_Period
       trend_Sma_Period fst snd].
  set (rsv := helper_MultiplyBy (helper_Divide (helper_Subtract (ESkip (r - 1) (EIn 2)) _) _) _).
  assert (Ersv : sem rsv env = tab (Z.to_nat r - 1) n (Kdj_rsv (Z.to_nat r) hs ls cs)).
  { subst rsv. unfold helper_MultiplyBy, helper_Divide, helper_Subtract. cbn [sem]. cbn [sem] in Emax, Emin.
    rewrite Emax, Emin. cbn [nth env]. rewrite (raw_s_skip _ cs n Hc).
    replace (Z.to_nat (r - 1)) with (Z.to_nat r - 1)%nat by lia.
    rewrite !tab_op2, tab_map. reflexivity. }
  assert (EK := sma_on_tab k rsv env _ _ _ Hk Ersv).
  assert (ED := sma_on_tab d _ env _ _ _ Hd EK).
  replace (Z.to_nat (r + k + d - 3)) with (Z.to_nat r - 1 + (Z.to_nat k - 1) + (Z.to_nat d - 1))%nat by lia.
  split; [|split].
  - change (sem (ESkip ?a ?b) ?v) with (s_skip a (sem b v)). rewrite EK, tab_s_skip. f_equal. lia.
  - exact ED.
  - unfold helper_Subtract, helper_MultiplyBy. cbn [sem]. cbn [sem] in EK, ED. rewrite ED, EK, tab_s_skip, !tab_map.
    replace (Z.to_nat r - 1 + (Z.to_nat k - 1) + Z.to_nat (d - 1))%nat
      with (Z.to_nat r - 1 + (Z.to_nat k - 1) + (Z.to_nat d - 1))%nat by lia.
    rewrite tab_op2. apply tab_fun_ext. intros i. unfold Kdj_J_doc, Kdj_D_doc, Kdj_K_doc. cbn [nsub nmul nofZ NumR]. ring.
Qed.

Section KdjTheorems.
  Variable cfg : trend_Kdj.
  Variables hs ls cs : list R.
  Variable n : nat.
  Let r := trend_MovingMax_Period (trend_Kdj_MovingMax cfg).
  Let k := trend_Sma_Period (trend_Kdj_Sma1 cfg).
  Let d := trend_Sma_Period (trend_Kdj_Sma2 cfg).
  Hypothesis Hr : (1 <= r)%Z.
  Hypothesis Hmin : trend_MovingMin_Period (trend_Kdj_MovingMin cfg) = r.
  Hypothesis Hk : (1 <= k)%Z.
  Hypothesis Hd : (1 <= d)%Z.
  Hypothesis Hnh : nonzero_first (Z.to_nat r) hs.
  Hypothesis Hnl : nonzero_first (Z.to_nat r) ls.
  Hypothesis Hh : length hs = n.
  Hypothesis Hl : length ls = n.
  Hypothesis Hc : length cs = n.
  Let out := trend_Kdj_Compute (T:=R) cfg (EIn 0) (EIn 1) (EIn 2).
  Let w := Z.to_nat (trend_Kdj_IdlePeriod cfg).

  Theorem Kdj_K_documented : sem (fst (fst out)) [hs; ls; cs] = tab w n (Kdj_K_doc (Z.to_nat r) (Z.to_nat k) hs ls cs).
  Proof. exact (proj1 (Kdj_all cfg hs ls cs n Hr Hmin Hk Hd Hnh Hnl Hh Hl Hc)). Qed.
  Theorem Kdj_D_documented :
    sem (snd (fst out)) [hs; ls; cs] = tab w n (Kdj_D_doc (Z.to_nat r) (Z.to_nat k) (Z.to_nat d) hs ls cs).
  Proof. exact (proj1 (proj2 (Kdj_all cfg hs ls cs n Hr Hmin Hk Hd Hnh Hnl Hh Hl Hc))). Qed.
  Theorem Kdj_J_documented :
    sem (snd out) [hs; ls; cs] = tab w n (Kdj_J_doc (Z.to_nat r) (Z.to_nat k) (Z.to_nat d) hs ls cs).
  Proof. exact (proj2 (proj2 (Kdj_all cfg hs ls cs n Hr Hmin Hk Hd Hnh Hnl Hh Hl Hc))). Qed.
End KdjTheorems.

(* ------------------------------------------------------------------------------------------ *)
(* 15. momentum.IchimokuCloud
       "Tenkan-sen (Conversion Line) = (9-Period High + 9-Period Low) / 2
        Kijun-sen (Base Line) = (26-Period High + 26-Period Low) / 2
        Senkou Span A (Leading Span A) = (Conversion Line + Base Line) / 2
        Senkou Span B (Leading Span B) = (52-Period High + 52-Period Low) / 2
        Chikou Span (Lagging Span) = Closing plotted 26 days in the past."
   (9, 26, 52, 26: defaults of the conversion / base / leading periods and of LaggingPeriod.)  Admissible: conversion <=
   base <= leading period, each MovingMin with the period of its MovingMax.  The first four lines are the documented
   formulas.  The lagging line is NOT a series over the input positions idle .. n-1: the code shifts the closings by
   LaggingPeriod (prepending zeros) and then skips the idle period, so it has LaggingPeriod more values than the other four
   outputs, and its value at position i is the closing of position i - LaggingPeriod (0 before). *)

Definition Ichimoku_line (p : nat) (hs ls : list R) (i : nat) : R := (wmax p hs i + wmin p ls i) / 2.
Definition Ichimoku_spanA_doc (pc pb : nat) (hs ls : list R) (i : nat) : R :=
  (Ichimoku_line pc hs ls i + Ichimoku_line pb hs ls i) / 2.
(* "Closing plotted LaggingPeriod days in the past": the point drawn at day i is the closing of day i + LaggingPeriod *)
Definition Ichimoku_lagging_doc (L : nat) (cs : list R) (i : nat) : R := at_ cs (i + L).
Definition Ichimoku_lagging_actual (L : nat) (cs : list R) (i : nat) : R := if Nat.ltb i L then 0 else at_ cs (i - L).

Lemma shift_tab (L : Z) (cs : list R) :
  s_shift L 0 cs = tab 0 (Z.to_nat L + length cs) (Ichimoku_lagging_actual (Z.to_nat L) cs).
Proof.
  unfold s_shift. apply (nth_ext _ _ 0 0).
  - rewrite app_length, repeat_length, tab_length. lia.
  - intros i Hi. rewrite app_length, repeat_length in Hi.
    change (nth i (tab 0 (Z.to_nat L + length cs) (Ichimoku_lagging_actual (Z.to_nat L) cs)) 0)
      with (at_ (tab 0 (Z.to_nat L + length cs) (Ichimoku_lagging_actual (Z.to_nat L) cs)) i).
    rewrite at_tab by lia. unfold Ichimoku_lagging_actual. cbn [Nat.add].
    destruct (Nat.ltb_spec i (Z.to_nat L)).
    + rewrite app_nth1 by (rewrite repeat_length; lia). apply nth_repeat.
    + rewrite app_nth2 by (rewrite repeat_length; lia). rewrite repeat_length. reflexivity.
Qed.

Section Ichimoku.
  Variable cfg : momentum_IchimokuCloud.
  Variables hs ls cs : list R.
  Variable n : nat.
  Let pc := trend_MovingMax_Period (momentum_IchimokuCloud_ConversionMax cfg).
  Let pb := trend_MovingMax_Period (momentum_IchimokuCloud_BaseMax cfg).
  Let pl := trend_MovingMax_Period (momentum_IchimokuCloud_LeadingMax cfg).
  Let L := momentum_IchimokuCloud_LaggingPeriod cfg.
  Hypothesis Hpc : (1 <= pc)%Z.
  Hypothesis Hpb : (pc <= pb)%Z.
  Hypothesis Hpl : (pb <= pl)%Z.
  Hypothesis Hminc : trend_MovingMin_Period (momentum_IchimokuCloud_ConversionMin cfg) = pc.
  Hypothesis Hminb : trend_MovingMin_Period (momentum_IchimokuCloud_BaseMin cfg) = pb.
  Hypothesis Hminl : trend_MovingMin_Period (momentum_IchimokuCloud_LeadingMin cfg) = pl.
  Hypothesis Hnh : nonzero_first (Z.to_nat pl) hs.
  Hypothesis Hnl : nonzero_first (Z.to_nat pl) ls.
  Hypothesis Hh : length hs = n.
  Hypothesis Hl : length ls = n.
  Hypothesis Hc : length cs = n.
  Let out := momentum_IchimokuCloud_Compute (T:=R) cfg (EIn 0) (EIn 1) (EIn 2).
  Let w := Z.to_nat (momentum_IchimokuCloud_IdlePeriod cfg).
  Let env := [hs; ls; cs].

  Lemma Ichimoku_line_tab (p : Z) : (1 <= p <= pl)%Z ->
    sem (helper_DivideBy (helper_Add (trend_MovingMax_Compute (mk_trend_MovingMax p) (EIn 0))
                                     (trend_MovingMin_Compute (mk_trend_MovingMin p) (EIn 1))) (nofZ 2)) env
    = tab (Z.to_nat p - 1) n (Ichimoku_line (Z.to_nat p) hs ls).
  Proof.
    intros Hp.
    assert (Emax := moving_max_gen p (EIn 0) env (proj1 Hp) (nonzero_first_le (Z.to_nat p) (Z.to_nat pl) hs ltac:(lia) Hnh)).
    assert (Emin := moving_min_gen p (EIn 1) env (proj1 Hp) (nonzero_first_le (Z.to_nat p) (Z.to_nat pl) ls ltac:(lia) Hnl)).
    cbn [sem nth env] in Emax, Emin. rewrite Hh in Emax. rewrite Hl in Emin. fold env in Emax, Emin.
    unfold helper_DivideBy, helper_Add. cbn [sem]. cbn [sem] in Emax, Emin.
    rewrite Emax, Emin, tab_op2, tab_map. reflexivity.
  Qed.

  Lemma Ichimoku_all :
    sem (fst (fst (fst (fst out)))) env = tab w n (Ichimoku_line (Z.to_nat pc) hs ls) /\
    sem (snd (fst (fst (fst out)))) env = tab w n (Ichimoku_line (Z.to_nat pb) hs ls) /\
    sem (snd (fst (fst out))) env = tab w n (Ichimoku_spanA_doc (Z.to_nat pc) (Z.to_nat pb) hs ls) /\
    sem (snd (fst out)) env = tab w n (Ichimoku_line (Z.to_nat pl) hs ls) /\
    sem (snd out) env = tab w (Z.to_nat L + n) (Ichimoku_lagging_actual (Z.to_nat L) cs).
  Proof.
    assert (Ec := Ichimoku_line_tab pc ltac:(lia)).
    assert (Eb := Ichimoku_line_tab pb ltac:(lia)).
    assert (El := Ichimoku_line_tab pl ltac:(lia)).
    subst out w. revert Ec Eb El. revert Hminc Hminb Hminl. subst pc pb pl L. 
    destruct cfg as [[pc] [pc'] [pb] [pb'] [pl] [pl'] L].
    cbn [momentum_IchimokuCloud_ConversionMax momentum_IchimokuCloud_ConversionMin momentum_IchimokuCloud_BaseMax
         momentum_IchimokuCloud_BaseMin momentum_IchimokuCloud_LeadingMax momentum_IchimokuCloud_LeadingMin
         momentum_IchimokuCloud_LaggingPeriod trend_MovingMax_Period trend_MovingMin_Period] in *.
    intros -> -> -> Ec Eb El.
    unfold momentum_IchimokuCloud_Compute, momentum_IchimokuCloud_IdlePeriod, trend_MovingMax_IdlePeriod.
    cbn [momentum_IchimokuCloud_ConversionMax momentum_IchimokuCloud_ConversionMin momentum_IchimokuCloud_BaseMax
         momentum_IchimokuCloud_BaseMin momentum_IchimokuCloud_LeadingMax momentum_IchimokuCloud_LeadingMin
         momentum_IchimokuCloud_LaggingPeriod trend_MovingMax_Period fst snd].
    set (conv := helper_DivideBy (helper_Add (trend_MovingMax_Compute (mk_trend_MovingMax pc) (EIn 0)) _) _) in *.
    set (base := helper_DivideBy (helper_Add (trend_MovingMax_Compute (mk_trend_MovingMax pb) (EIn 0)) _) _) in *.
    set (spanB := helper_DivideBy (helper_Add (trend_MovingMax_Compute (mk_trend_MovingMax pl) (EIn 0)) _) _) in *.
    repeat split.
    - change (sem (ESkip ?a (ESkip ?b ?c)) ?v) with (s_skip a (s_skip b (sem c v))).
      rewrite Ec, !tab_s_skip. f_equal. lia.
    - change (sem (ESkip ?a ?c) ?v) with (s_skip a (sem c v)). rewrite Eb, tab_s_skip. f_equal. lia.
    - unfold helper_DivideBy at 1. unfold helper_Add at 1.
      change (sem (ESkip ?a (EMap ?f (EOp2 ?g (ESkip ?b ?c) ?d))) ?v)
        with (s_skip a (map f (s_op2 g (s_skip b (sem c v)) (sem d v)))).
      rewrite Ec, Eb, tab_s_skip.
      replace (Z.to_nat pc - 1 + Z.to_nat (pb - 1 - (pc - 1)))%nat with (Z.to_nat pb - 1)%nat by lia.
      rewrite tab_op2, tab_map, tab_s_skip. f_equal. lia.
    - rewrite El. f_equal. lia.
    - change (sem (ESkip ?a (EShift ?b ?d ?c)) ?v) with (s_skip a (s_shift b d (sem c v))).
      cbn [sem nth env]. rewrite shift_tab, tab_s_skip, Hc. reflexivity.
  Qed.

  Theorem IchimokuCloud_conversion_documented :
    sem (fst (fst (fst (fst out)))) env = tab w n (Ichimoku_line (Z.to_nat pc) hs ls).
  Proof. exact (proj1 Ichimoku_all). Qed.
  Theorem IchimokuCloud_base_documented :
    sem (snd (fst (fst (fst out)))) env = tab w n (Ichimoku_line (Z.to_nat pb) hs ls).
  Proof. exact (proj1 (proj2 Ichimoku_all)). Qed.
  Theorem IchimokuCloud_leadingA_documented :
    sem (snd (fst (fst out))) env = tab w n (Ichimoku_spanA_doc (Z.to_nat pc) (Z.to_nat pb) hs ls).
  Proof. exact (proj1 (proj2 (proj2 Ichimoku_all))). Qed.
  Theorem IchimokuCloud_leadingB_documented :
    sem (snd (fst out)) env = tab w n (Ichimoku_line (Z.to_nat pl) hs ls).
  Proof. exact (proj1 (proj2 (proj2 (proj2 Ichimoku_all)))). Qed.
  Theorem IchimokuCloud_lagging_actual :
    sem (snd out) env = tab w (Z.to_nat L + n) (Ichimoku_lagging_actual (Z.to_nat L) cs).
  Proof. exact (proj2 (proj2 (proj2 (proj2 Ichimoku_all)))). Qed.

  (* whatever formula one reads into the doc comment: the lagging output is not a series over the positions idle .. n-1 *)
  Theorem IchimokuCloud_lagging_refuted_gen : (1 <= L)%Z -> (w < Z.to_nat L + n)%nat ->
    forall f : nat -> R, sem (snd out) env <> tab w n f.
  Proof.
    intros HL Hw f H. apply (f_equal (@length R)) in H.
    rewrite IchimokuCloud_lagging_actual, !tab_length in H. lia.
  Qed.
End Ichimoku.

(* the default configuration on 60 days of data: 35 lagging values next to 9 values of each other line *)
Theorem IchimokuCloud_lagging_refuted :
  exists (cfg : momentum_IchimokuCloud) (hs ls cs : list R),
    length hs = length cs /\ length ls = length cs /\
    nonzero_first 52 hs /\ nonzero_first 52 ls /\
    length (sem (snd (momentum_IchimokuCloud_Compute (T:=R) cfg (EIn 0) (EIn 1) (EIn 2))) [hs; ls; cs])
    <> (length cs - Z.to_nat (momentum_IchimokuCloud_IdlePeriod cfg))%nat.
Proof.
  exists momentum_NewIchimokuCloud, (repeat 1 60), (repeat 1 60), (repeat 1 60).
  assert (Hnz : nonzero_first 52 (repeat 1 60)).
  { unfold nonzero_first. apply Forall_forall. intros x Hx.
    assert (H : In x (firstn 60 (repeat 1 60))) by (apply (In_firstn_le x 52 60); [lia|exact Hx]).
    rewrite firstn_all2 in H by (rewrite repeat_length; lia).
    apply repeat_spec in H. lra. }
  split; [reflexivity|]. split; [reflexivity|]. split; [exact Hnz|]. split; [exact Hnz|].
  rewrite (IchimokuCloud_lagging_actual momentum_NewIchimokuCloud (repeat 1 60) (repeat 1 60) (repeat 1 60) 60);
    try (cbn; lia); try exact Hnz; try (apply repeat_length); try reflexivity.
  rewrite tab_length, repeat_length.
  unfold momentum_IchimokuCloud_IdlePeriod, trend_MovingMax_IdlePeriod, momentum_NewIchimokuCloud,
    trend_NewMovingMaxWithPeriod.
  cbn [momentum_IchimokuCloud_LeadingMax momentum_IchimokuCloud_LaggingPeriod trend_MovingMax_Period]. lia.
Qed.

(* ------------------------------------------------------------------------------------------ *)
(* 16. trend.Aroon: the code deviates from its documentation
       "Aroon Up = ((25 - Period Since Last 25 Period High) / 25) * 100
        Aroon Down = ((25 - Period Since Last 25 Period Low) / 25) * 100"          (25 is the default of Period)
   Documented: the number of periods since the highest high (lowest low) of the last Period positions occurred.
   The code applies helper.Since to the MovingMax (MovingMin) stream: it counts for how many consecutive outputs the
   moving maximum has kept its current VALUE (starting from 0 at the first output), not where in the window the high is;
   moreover it rounds the result to an integer (helper.RoundDigits(.., 0)).  Aroon has no IdlePeriod method; the values
   start at position Period-1. *)

(* helper.Since on a series m that starts at position w: the number of consecutive earlier positions (from w on) whose
   value equals the current one *)
Fixpoint run_length (m : nat -> R) (w i : nat) : nat :=
  match i with
  | O => O
  | S i' => if andb (Nat.leb w i') (Reqb (m i') (m (S i'))) then S (run_length m w i') else O
  end.

Lemma run_length_start (m : nat -> R) (w : nat) : run_length m w w = 0%nat.
Proof.
  destruct w as [|w]; [reflexivity|]. cbn [run_length].
  destruct (Nat.leb_spec (S w) w); [lia|reflexivity].
Qed.

Section Since.
  Variable step : bool * R * R -> R -> (bool * R * R) * R.
  Hypothesis Hstep : forall first last count x,
    step (first, last, count) x
    = if orb first (negb (Reqb last x)) then ((false, x, 0), 0) else ((first, last, count + 1), count + 1).

  Lemma since_run (m : nat -> R) (w : nat) : forall len i, (w <= i)%nat ->
    s_mapst step (false, m i, INR (run_length m w i)) (map m (seq (S i) len))
    = map (fun j => INR (run_length m w j)) (seq (S i) len).
  Proof.
    induction len as [|len IH]; intros i Hi; [reflexivity|].
    cbn [seq map s_mapst]. rewrite Hstep. cbn [orb run_length].
    destruct (Nat.leb_spec w i) as [_|]; [|lia]. cbn [andb].
    destruct (Reqb (m i) (m (S i))) eqn:E; cbn [negb].
    - apply Reqb_true in E. rewrite S_INR. f_equal. rewrite <- S_INR.
      replace (S (run_length m w i))
        with (run_length m w (S i)).
      2:{ cbn [run_length]. destruct (Nat.leb_spec w i) as [_|]; [|lia].
          rewrite E. destruct (Reqb (m (S i)) (m (S i))) eqn:E'; [reflexivity|].
          exfalso. assert (Reqb (m (S i)) (m (S i)) = true) by (apply Reqb_true; reflexivity). congruence. }
      rewrite E at 1. apply IH. lia.
    - change 0 with (INR 0). f_equal.
      replace 0%nat with (run_length m w (S i)) at 1.
      2:{ cbn [run_length]. destruct (Nat.leb_spec w i) as [_|]; [|lia]. rewrite E. reflexivity. }
      apply IH. lia.
  Qed.

  Lemma since_tab (m : nat -> R) (w n : nat) :
    s_mapst step (true, 0, 0) (tab w n m) = tab w n (fun i => INR (run_length m w i)).
  Proof.
    unfold tab. destruct (n - w)%nat as [|len]; [reflexivity|].
    cbn [seq map s_mapst]. rewrite Hstep. cbn [orb]. rewrite run_length_start. cbn [INR]. f_equal.
    change 0 with (INR 0) at 1. rewrite <- (run_length_start m w) at 1. apply since_run. lia.
  Qed.
End Since.

Lemma sem_since_tab {I} (e : expr I R) (env : list (list I)) (w n : nat) (m : nat -> R) :
  sem e env = tab w n m ->
  sem (helper_Since (T:=R) e) env = tab w n (fun i => INR (run_length m w i)).
Proof.
  intros He. unfold helper_Since. cbn [sem]. rewrite He. apply since_tab.
  intros first last count x. reflexivity.
Qed.

Lemma Rpow_model_0 (x : R) : Rpow_model x 0 = 1.
Proof.
  unfold Rpow_model. destruct (Req_EM_T 0 2) as [H|_]; [lra|]. destruct (Req_EM_T 0 (-1)) as [H|_]; [lra|].
  destruct (Req_EM_T 0 1) as [H|_]; [lra|]. destruct (Req_EM_T 0 0) as [_|H]; [reflexivity|lra].
Qed.

Lemma round_digit_0 (x : R) : helper_RoundDigit (T:=R) x 0 = Rround x.
Proof.
  unfold helper_RoundDigit. cbn [npow ndiv nmul nround nofZ NumR]. rewrite Rpow_model_0.
  rewrite Rmult_1_r. unfold Rdiv. rewrite Rinv_1, Rmult_1_r. reflexivity.
Qed.

Lemma Rround_IZR (z : Z) : (0 <= z)%Z -> Rround (IZR z) = IZR z.
Proof.
  intros Hz. unfold Rround. destruct (Rle_dec 0 (IZR z)) as [_|H]; [|exfalso; apply H; apply IZR_le; exact Hz].
  f_equal. unfold Int_part. rewrite <- (tech_up (IZR z + / 2) (z + 1)); [lia| |]; rewrite plus_IZR; lra.
Qed.

Definition Aroon_value (p : Z) (since : R) : R := ((IZR p - since) / IZR p) * 100.

(* the least d < fuel (counted from d) with test (i - d), or the bound when there is none *)
Fixpoint since_last (test : nat -> bool) (i fuel d : nat) : nat :=
  match fuel with
  | O => d
  | S f => if test (i - d)%nat then d else since_last test i f (S d)
  end.
Definition periods_since_high (P : nat) (hs : list R) (i : nat) : nat :=
  since_last (fun k => Reqb (at_ hs k) (wmax P hs i)) i P 0.
Definition periods_since_low (P : nat) (ls : list R) (i : nat) : nat :=
  since_last (fun k => Reqb (at_ ls k) (wmin P ls i)) i P 0.

Definition Aroon_up_doc (p : Z) (hs : list R) (i : nat) : R :=
  Aroon_value p (INR (periods_since_high (Z.to_nat p) hs i)).
Definition Aroon_down_doc (p : Z) (ls : list R) (i : nat) : R :=
  Aroon_value p (INR (periods_since_low (Z.to_nat p) ls i)).

Definition Aroon_up_actual (p : Z) (hs : list R) (i : nat) : R :=
  Rround (Aroon_value p (INR (run_length (wmax (Z.to_nat p) hs) (Z.to_nat p - 1) i))).
Definition Aroon_down_actual (p : Z) (ls : list R) (i : nat) : R :=
  Rround (Aroon_value p (INR (run_length (wmin (Z.to_nat p) ls) (Z.to_nat p - 1) i))).

Theorem Aroon_actual (a : trend_Aroon) (hs ls : list R) (n : nat) :
  let p := trend_Aroon_Period a in
  let out := trend_Aroon_Compute (T:=R) a (EIn 0) (EIn 1) in
  (1 <= p)%Z -> nonzero_first (Z.to_nat p) hs -> nonzero_first (Z.to_nat p) ls ->
  length hs = n -> length ls = n ->
  sem (fst out) [hs; ls] = tab (Z.to_nat p - 1) n (Aroon_up_actual p hs) /\
  sem (snd out) [hs; ls] = tab (Z.to_nat p - 1) n (Aroon_down_actual p ls).
Proof.
  destruct a as [p]. cbn [trend_Aroon_Period]. intros Hp Hnh Hnl Hh Hl. set (env := [hs; ls]).
  assert (Emax := moving_max_gen p (EIn 0) env Hp Hnh).
  assert (Emin := moving_min_gen p (EIn 1) env Hp Hnl).
  cbn [sem nth env] in Emax, Emin. rewrite Hh in Emax. rewrite Hl in Emin. fold env in Emax, Emin.
  apply sem_since_tab in Emax. apply sem_since_tab in Emin.
  unfold trend_Aroon_Compute, trend_NewMovingMaxWithPeriod, trend_NewMovingMinWithPeriod, helper_RoundDigits,
    helper_MultiplyBy, helper_DivideBy, helper_IncrementBy.
  cbn [trend_Aroon_Period fst snd].
  split.
  - change (sem (EMap ?f1 (EMap ?f2 (EMap ?f3 (EMap ?f4 (EMap ?f5 ?b))))) ?v)
      with (map f1 (map f2 (map f3 (map f4 (map f5 (sem b v)))))).
    rewrite Emax, !tab_map. apply tab_fun_ext. intros i. rewrite round_digit_0.
    unfold Aroon_up_actual, Aroon_value. cbn [nadd nmul ndiv nofZ NumR]. f_equal. unfold Rdiv. ring.
  - change (sem (EMap ?f1 (EMap ?f2 (EMap ?f3 (EMap ?f4 (EMap ?f5 ?b))))) ?v)
      with (map f1 (map f2 (map f3 (map f4 (map f5 (sem b v)))))).
    rewrite Emin, !tab_map. apply tab_fun_ext. intros i. rewrite round_digit_0.
    unfold Aroon_down_actual, Aroon_value. cbn [nadd nmul ndiv nofZ NumR]. f_equal. unfold Rdiv. ring.
Qed.

(* Period 2, highs [3; 1]: the only value is at position 1; the 2-period high is 3, one period ago: documented
   ((2 - 1) / 2) * 100 = 50.  The moving maximum has just produced its first value, Since yields 0: the code returns 100. *)
Theorem Aroon_refuted : exists (a : trend_Aroon) (hs ls : list R),
  (1 <= trend_Aroon_Period a)%Z /\
  nonzero_first (Z.to_nat (trend_Aroon_Period a)) hs /\ nonzero_first (Z.to_nat (trend_Aroon_Period a)) ls /\
  length ls = length hs /\
  sem (fst (trend_Aroon_Compute (T:=R) a (EIn 0) (EIn 1))) [hs; ls]
  <> tab (Z.to_nat (trend_Aroon_Period a) - 1) (length hs) (Aroon_up_doc (trend_Aroon_Period a) hs).
Proof.
  exists (mk_trend_Aroon 2), [3; 1], [3; 1].
  assert (Hnz : nonzero_first (Z.to_nat 2) [3; 1]).
  { unfold nonzero_first. change (Z.to_nat 2) with 2%nat. cbn [firstn]. repeat constructor; lra. }
  cbn [trend_Aroon_Period].
  split; [lia|]. split; [exact Hnz|]. split; [exact Hnz|]. split; [reflexivity|].
  rewrite (proj1 (Aroon_actual (mk_trend_Aroon 2) [3; 1] [3; 1] 2 ltac:(cbn; lia) Hnz Hnz eq_refl eq_refl)).
  cbn [trend_Aroon_Period length]. change (Z.to_nat 2) with 2%nat. unfold tab. cbn [Nat.sub seq map].
  unfold Aroon_up_actual, Aroon_up_doc, periods_since_high. change (Z.to_nat 2) with 2%nat.
  cbn [Nat.sub run_length Nat.leb andb INR since_last].
  assert (W : wmax 2 [3; 1] 1 = 3).
  { unfold wmax, window. cbn [Nat.add Nat.sub seq map Rlist_max fold_left]. unfold at_. cbn [nth].
    apply Rmax_left. lra. }
  rewrite W. unfold at_. cbn [nth].
  destruct (Reqb 1 3) eqn:E1; [apply Reqb_true in E1; lra|].
  destruct (Reqb 3 3) eqn:E2; [|assert (Reqb 3 3 = true) by (apply Reqb_true; reflexivity); congruence].
  unfold Aroon_value. cbn [INR].
  replace ((2 - 0) / 2 * 100) with (IZR 100) by lra. rewrite Rround_IZR by lia.
  intros H. injection H as H. lra.
Qed.

(* ------------------------------------------------------------------------------------------ *)
(* 17. trend.Mls
       "m = (period * sumXY - sumX * sumY) / (period * sumX2 - sumX * sumX)
        b = (sumY - m * sumX) / period"
   the sums over the last period positions. *)

Definition Mls_m_doc (p : Z) (xs ys : list R) (i : nat) : R :=
  let P := Z.to_nat p in
  (IZR p * fsum P (fun j => at_ xs j * at_ ys j) i - wsum P xs i * wsum P ys i)
  / (IZR p * fsum P (fun j => at_ xs j ^ 2) i - wsum P xs i * wsum P xs i).
Definition Mls_b_doc (p : Z) (xs ys : list R) (i : nat) : R :=
  (wsum (Z.to_nat p) ys i - Mls_m_doc p xs ys i * wsum (Z.to_nat p) xs i) / IZR p.

Lemma Mls_all_gen {I} (cfg : trend_Mls) (ex ey : expr I R) (env : list (list I)) (n : nat) :
  let p := trend_MovingSum_Period (trend_Mls_Sum cfg) in
  let out := trend_Mls_Compute (T:=R) cfg ex ey in
  let w := Z.to_nat (trend_Mls_IdlePeriod cfg) in
  (1 <= p)%Z -> length (sem ex env) = n -> length (sem ey env) = n ->
  sem (fst out) env = tab w n (Mls_m_doc p (sem ex env) (sem ey env)) /\
  sem (snd out) env = tab w n (Mls_b_doc p (sem ex env) (sem ey env)).
Proof.
  destruct cfg as [[p]]. cbn [trend_Mls_Sum trend_MovingSum_Period]. intros Hp Hx Hy.
  set (xs := sem ex env) in *. set (ys := sem ey env) in *.
  unfold trend_Mls_Compute, trend_Mls_IdlePeriod, trend_MovingSum_IdlePeriod.
  cbn [trend_Mls_Sum trend_MovingSum_Period fst snd].
  replace (Z.to_nat (p - 1)) with (0 + (Z.to_nat p - 1))%nat by lia.
  assert (Exy : sem (trend_MovingSum_Compute (mk_trend_MovingSum p) (EOp2 (fun a b : R => nmul a b) ex ey)) env
                = tab (0 + (Z.to_nat p - 1)) n (fsum (Z.to_nat p) (fun j => at_ xs j * at_ ys j))).
  { apply sum_on_tab; [exact Hp|]. cbn [sem]. fold xs ys. exact (raw_op2 _ xs ys n Hx Hy). }
  assert (Ex : sem (trend_MovingSum_Compute (mk_trend_MovingSum p) ex) env
               = tab (0 + (Z.to_nat p - 1)) n (wsum (Z.to_nat p) xs)).
  { apply (sum_on_tab p ex env 0 n (at_ xs) Hp). fold xs. apply xs_as_tab. exact Hx. }
  assert (Ey : sem (trend_MovingSum_Compute (mk_trend_MovingSum p) ey) env
               = tab (0 + (Z.to_nat p - 1)) n (wsum (Z.to_nat p) ys)).
  { apply (sum_on_tab p ey env 0 n (at_ ys) Hp). fold ys. apply xs_as_tab. exact Hy. }
  assert (Ex2 : sem (trend_MovingSum_Compute (mk_trend_MovingSum p) (helper_Pow ex (nofZ 2))) env
                = tab (0 + (Z.to_nat p - 1)) n (fsum (Z.to_nat p) (fun j => at_ xs j ^ 2))).
  { apply sum_on_tab; [exact Hp|]. unfold helper_Pow. cbn [sem]. fold xs. rewrite (raw_map _ xs n Hx).
    apply tab_fun_ext. intros i. cbn [npow nofZ NumR]. rewrite Rpow_model_2. simpl pow. ring. }
  unfold helper_Divide, helper_Subtract, helper_MultiplyBy, helper_Multiply, helper_DivideBy.
  cbn [sem]. cbn [sem] in Exy, Ex2. rewrite Exy, Ex, Ey, Ex2, !tab_map, !tab_op2, tab_map.
  split; apply tab_fun_ext; intros i; unfold Mls_b_doc, Mls_m_doc; cbn [nsub nmul ndiv nofZ NumR];
    rewrite !(Rmult_comm _ (IZR p)); reflexivity.
Qed.

Theorem Mls_m_documented (cfg : trend_Mls) (xs ys : list R) (n : nat) :
  let p := trend_MovingSum_Period (trend_Mls_Sum cfg) in
  (1 <= p)%Z -> length xs = n -> length ys = n ->
  sem (fst (trend_Mls_Compute (T:=R) cfg (EIn 0) (EIn 1))) [xs; ys]
  = tab (Z.to_nat (trend_Mls_IdlePeriod cfg)) n (Mls_m_doc p xs ys).
Proof. intros p Hp Hx Hy. exact (proj1 (Mls_all_gen cfg (EIn 0) (EIn 1) [xs; ys] n Hp Hx Hy)). Qed.
Theorem Mls_b_documented (cfg : trend_Mls) (xs ys : list R) (n : nat) :
  let p := trend_MovingSum_Period (trend_Mls_Sum cfg) in
  (1 <= p)%Z -> length xs = n -> length ys = n ->
  sem (snd (trend_Mls_Compute (T:=R) cfg (EIn 0) (EIn 1))) [xs; ys]
  = tab (Z.to_nat (trend_Mls_IdlePeriod cfg)) n (Mls_b_doc p xs ys).
Proof. intros p Hp Hx Hy. exact (proj2 (Mls_all_gen cfg (EIn 0) (EIn 1) [xs; ys] n Hp Hx Hy)). Qed.

(* ------------------------------------------------------------------------------------------ *)
(* 18. trend.Mlr      "y = mx + b"     with m, b the moving least squares slope and intercept *)

Definition Mlr_doc (p : Z) (xs ys : list R) (i : nat) : R := Mls_m_doc p xs ys i * at_ xs i + Mls_b_doc p xs ys i.

Theorem Mlr_documented (cfg : trend_Mlr) (xs ys : list R) (n : nat) :
  let p := trend_MovingSum_Period (trend_Mls_Sum (trend_Mlr_Mls cfg)) in
  (1 <= p)%Z -> length xs = n -> length ys = n ->
  sem (trend_Mlr_Compute (T:=R) cfg (EIn 0) (EIn 1)) [xs; ys]
  = tab (Z.to_nat (trend_Mlr_IdlePeriod cfg)) n (Mlr_doc p xs ys).
Proof.
  intros p Hp Hx Hy. subst p. destruct cfg as [mls]. cbn [trend_Mlr_Mls] in *.
  destruct (Mls_all_gen mls (EIn 0) (EIn 1) [xs; ys] n Hp Hx Hy) as [Em Eb].
  unfold trend_Mlr_Compute, trend_Mlr_IdlePeriod. cbn [trend_Mlr_Mls].
  destruct (trend_Mls_Compute mls (EIn 0) (EIn 1)) as [ms bs]. cbn [fst snd] in Em, Eb.
  unfold helper_Add, helper_Multiply. cbn [sem]. cbn [sem nth] in Em, Eb. rewrite Em, Eb. cbn [nth].
  rewrite (raw_s_skip _ xs n Hx), !tab_op2. reflexivity.
Qed.

(* ------------------------------------------------------------------------------------------ *)
(* helper.Change over a series that starts at position w *)

Lemma change_on_tab {I} (e : expr I R) (env : list (list I)) (k : Z) (w n : nat) (f : nat -> R) :
  sem e env = tab w n f ->
  sem (helper_Change (T:=R) e k) env = tab (w + Z.to_nat k) n (fun i => f i - f (i - Z.to_nat k)%nat).
Proof.
  intros He. unfold helper_Change, helper_Subtract. cbn [sem]. unfold s_buffered.
  rewrite He, tab_s_skip. apply tab_op2_late_l.
Qed.

Definition Rsign (x : R) : R := if Rltb 0 x then 1 else if Rltb x 0 then -1 else 0.

(* ------------------------------------------------------------------------------------------ *)
(* 19. volume.Mfi
       "Raw Money Flow = Typical Price * Volume
        Money Ratio = Positive Money Flow / Negative Money Flow
        Money Flow Index = 100 - (100 / (1 + Money Ratio))"
   The doc comment does not say what the positive / negative money flow is.  The code: the money flow of a position is its
   raw money flow signed by the direction of the change of the RAW MONEY FLOW from the previous position (the usual
   definition signs it by the change of the typical price); positive / negative money flow = the sum over the last Period
   positions of the positive money flows / of the negated negative money flows. *)

Definition Mfi_raw (hs ls cs vs : list R) (i : nat) : R := TypicalPrice_doc hs ls cs i * at_ vs i.
Definition Mfi_flow (hs ls cs vs : list R) (i : nat) : R :=
  Rsign (Mfi_raw hs ls cs vs i - Mfi_raw hs ls cs vs (i - 1)) * Mfi_raw hs ls cs vs i.
Definition Mfi_positive (hs ls cs vs : list R) (i : nat) : R :=
  if Rltb 0 (Mfi_flow hs ls cs vs i) then Mfi_flow hs ls cs vs i else 0.
Definition Mfi_negative (hs ls cs vs : list R) (i : nat) : R :=
  if Rltb (Mfi_flow hs ls cs vs i) 0 then - Mfi_flow hs ls cs vs i else 0.
Definition Mfi_doc (p : nat) (hs ls cs vs : list R) (i : nat) : R :=
  let ratio := fsum p (Mfi_positive hs ls cs vs) i / fsum p (Mfi_negative hs ls cs vs) i in
  100 - 100 / (1 + ratio).

Theorem Mfi_documented (cfg : volume_Mfi) (hs ls cs vs : list R) (n : nat) :
  let p := trend_MovingSum_Period (volume_Mfi_Sum cfg) in
  (1 <= p)%Z -> length hs = n -> length ls = n -> length cs = n -> length vs = n ->
  sem (volume_Mfi_Compute (T:=R) cfg (EIn 0) (EIn 1) (EIn 2) (EIn 3)) [hs; ls; cs; vs]
  = tab (Z.to_nat (volume_Mfi_IdlePeriod cfg)) n (Mfi_doc (Z.to_nat p) hs ls cs vs).
Proof.
  destruct cfg as [tp [p]]. cbn [volume_Mfi_Sum trend_MovingSum_Period]. intros Hp Hh Hl Hc Hv.
  set (env := [hs; ls; cs; vs]).
  unfold volume_Mfi_Compute, volume_Mfi_IdlePeriod, trend_MovingSum_IdlePeriod.
  cbn [volume_Mfi_Sum volume_Mfi_TypicalPrice trend_MovingSum_Period].
  set (raw := helper_Multiply (trend_TypicalPrice_Compute tp (EIn 0) (EIn 1) (EIn 2)) (EIn 3)).
  assert (Eraw : sem raw env = tab 0 n (Mfi_raw hs ls cs vs)).
  { subst raw. unfold helper_Multiply. cbn [sem].
    rewrite (typical_on_tab tp (EIn 0) (EIn 1) (EIn 2) env 0 n (at_ hs) (at_ ls) (at_ cs))
      by (cbn [sem nth env]; apply xs_as_tab; assumption).
    cbn [nth env]. rewrite (tab_raw_op2 _ _ vs n Hv). reflexivity. }
  set (flow := helper_Multiply (helper_Sign (helper_Change raw 1)) (ESkip 1 raw)).
  assert (Eflow : sem flow env = tab 1 n (Mfi_flow hs ls cs vs)).
  { subst flow. unfold helper_Multiply, helper_Sign.
    change (sem (EOp2 ?g (EMap ?f ?a) (ESkip ?k ?b)) ?v) with (s_op2 g (map f (sem a v)) (s_skip k (sem b v))).
    rewrite (change_on_tab raw env 1 0 n _ Eraw), Eraw, tab_s_skip, tab_map. change (0 + Z.to_nat 1)%nat with 1%nat.
    rewrite tab_op2. reflexivity. }
  assert (Epos : sem (trend_MovingSum_Compute (mk_trend_MovingSum p) (helper_KeepPositives flow)) env
                 = tab (1 + (Z.to_nat p - 1)) n (fsum (Z.to_nat p) (Mfi_positive hs ls cs vs))).
  { apply sum_on_tab; [exact Hp|]. unfold helper_KeepPositives.
    change (sem (EMap ?f ?a) ?v) with (map f (sem a v)). rewrite Eflow, tab_map. reflexivity. }
  assert (Eneg : sem (trend_MovingSum_Compute (mk_trend_MovingSum p)
                        (helper_MultiplyBy (helper_KeepNegatives flow) (nofZ (-1)))) env
                 = tab (1 + (Z.to_nat p - 1)) n (fsum (Z.to_nat p) (Mfi_negative hs ls cs vs))).
  { apply sum_on_tab; [exact Hp|]. unfold helper_KeepNegatives, helper_MultiplyBy.
    change (sem (EMap ?f (EMap ?g ?a)) ?v) with (map f (map g (sem a v))). rewrite Eflow, !tab_map.
    apply tab_fun_ext. intros i. unfold Mfi_negative. cbn [nltb nmul nofZ NumR].
    destruct (Rltb (Mfi_flow hs ls cs vs i) 0); ring. }
  unfold helper_IncrementBy, helper_MultiplyBy at 1, helper_Pow, helper_Divide.
  cbn [sem]. cbn [sem] in Epos, Eneg. rewrite Epos, Eneg, tab_op2, !tab_map.
  replace (Z.to_nat (p - 1 + 1)) with (1 + (Z.to_nat p - 1))%nat by lia.
  apply tab_fun_ext. intros i. unfold Mfi_doc. cbn [nadd nmul ndiv npow nofZ NumR]. rewrite Rpow_model_m1.
  set (ratio := fsum _ _ i / fsum _ _ i). replace (ratio + 1) with (1 + ratio) by ring.
  unfold Rdiv. ring.
Qed.

(* ------------------------------------------------------------------------------------------ *)
(* 20. volume.Nvi
       "If Volume is greather than Previous Volume:   NVI = Previous NVI
        Otherwise:   NVI = Previous NVI + (((Closing - Previous Closing) / Previous Closing) * Previous NVI)"
   NVI of position 0 is the configured Initial value (not reported: the idle period is 1). *)

Fixpoint Nvi_doc (init : R) (cs vs : list R) (i : nat) : R :=
  match i with
  | O => init
  | S i' =>
      let prev := Nvi_doc init cs vs i' in
      if Rltb (at_ vs i') (at_ vs (S i')) then prev
      else prev + ((at_ cs (S i') - at_ cs i') / at_ cs i') * prev
  end.

Lemma nvi_run (step : R -> R -> R -> R * R) (init : R) (cs vs : list R)
      (Hstep : forall s r v, step s r v = if Rleb v 0 then (s + r * s, s + r * s) else (s, s)) :
  forall len i,
    s_op2st step (Nvi_doc init cs vs i)
      (map (fun j => price_change cs j / at_ cs (j - 1)) (seq (S i) len))
      (map (price_change vs) (seq (S i) len))
    = map (Nvi_doc init cs vs) (seq (S i) len).
Proof.
  induction len as [|len IH]; intros i; [reflexivity|].
  cbn [seq map s_op2st]. rewrite Hstep.
  assert (E : (if Rleb (price_change vs (S i)) 0
               then (Nvi_doc init cs vs i + price_change cs (S i) / at_ cs (S i - 1) * Nvi_doc init cs vs i,
                     Nvi_doc init cs vs i + price_change cs (S i) / at_ cs (S i - 1) * Nvi_doc init cs vs i)
               else (Nvi_doc init cs vs i, Nvi_doc init cs vs i))
              = (Nvi_doc init cs vs (S i), Nvi_doc init cs vs (S i))).
  { cbn [Nvi_doc]. unfold price_change. replace (S i - 1)%nat with i by lia.
    destruct (Rleb (at_ vs (S i) - at_ vs i) 0) eqn:E1; destruct (Rltb (at_ vs i) (at_ vs (S i))) eqn:E2;
      try reflexivity.
    - apply Rleb_true in E1. apply Rltb_true in E2. lra.
    - apply Rleb_false in E1. apply Rltb_false in E2. lra. }
  rewrite E. f_equal. apply IH.
Qed.

Theorem Nvi_documented (cfg : volume_Nvi (T:=R)) (cs vs : list R) (n : nat) :
  length cs = n -> length vs = n ->
  sem (volume_Nvi_Compute cfg (EIn 0) (EIn 1)) [cs; vs]
  = tab (Z.to_nat (volume_Nvi_IdlePeriod cfg)) n (Nvi_doc (volume_Nvi_Initial cfg) cs vs).
Proof.
  intros Hc Hv. unfold volume_Nvi_Compute, volume_Nvi_IdlePeriod. change (Z.to_nat 1) with 1%nat.
  cbn [sem].
  assert (Er : sem (helper_ChangeRatio (T:=R) (EIn 0) 1) [cs; vs]
               = tab 1 n (fun j => price_change cs j / at_ cs (j - 1))).
  { unfold helper_ChangeRatio, helper_Divide.
    change (sem (EOp2 ?g ?a (EBuf ?k ?b)) ?v) with (s_op2 g (sem a v) (sem b v)).
    rewrite sem_change1. cbn [sem nth]. rewrite Hc, (tab_op2_lag _ 1 n _ cs Hc). reflexivity. }
  assert (Ev : sem (helper_Change (T:=R) (EIn 1) 1) [cs; vs] = tab 1 n (price_change vs)).
  { rewrite sem_change1. cbn [sem nth]. rewrite Hv. reflexivity. }
  rewrite Er, Ev. unfold tab.
  apply (nvi_run _ (volume_Nvi_Initial cfg) cs vs) with (i := 0%nat).
  intros s r v. reflexivity.
Qed.

(* ------------------------------------------------------------------------------------------ *)
(* 21. trend.Kama
       "Direction = Abs(Close - Previous Close Period Ago)
        Volatility = MovingSum(Period, Abs(Close - Previous Close))
        Efficiency Ratio (ER) = Direction / Volatility
        Smoothing Constant (SC) = (ER * (2/(Fast + 1) - 2/(Slow + 1)) + (2/(Slow + 1)))^2
        KAMA = Previous KAMA + SC * (Price - Previous KAMA)"
   The first "Previous KAMA" (not stated in the doc comment) is the closing of position Period-1; values are reported from
   position Period on. *)

Definition Kama_er (er : nat) (cs : list R) (i : nat) : R :=
  Rabs (at_ cs i - at_ cs (i - er)) / fsum er (fun j => Rabs (price_change cs j)) i.
Definition Kama_sc (k : trend_Kama) (cs : list R) (i : nat) : R :=
  (Kama_er (Z.to_nat (trend_Kama_ErPeriod k)) cs i
   * (2 / IZR (trend_Kama_FastScPeriod k + 1) - 2 / IZR (trend_Kama_SlowScPeriod k + 1))
   + 2 / IZR (trend_Kama_SlowScPeriod k + 1)) ^ 2.

Fixpoint Kama_rec (er : nat) (sc : nat -> R) (cs : list R) (i : nat) : R :=
  match i with
  | O => at_ cs (er - 1)
  | S i' => if Nat.leb er (S i')
            then Kama_rec er sc cs i' + sc (S i') * (at_ cs (S i') - Kama_rec er sc cs i')
            else at_ cs (er - 1)
  end.
Definition Kama_doc (k : trend_Kama) (cs : list R) : nat -> R :=
  Kama_rec (Z.to_nat (trend_Kama_ErPeriod k)) (Kama_sc k cs) cs.

Lemma Kama_rec_seed (er : nat) (sc : nat -> R) (cs : list R) (i : nat) : (i <= er - 1)%nat -> (1 <= er)%nat ->
  Kama_rec er sc cs i = at_ cs (er - 1).
Proof.
  intros Hi Her. destruct i as [|i]; [reflexivity|]. cbn [Kama_rec].
  destruct (Nat.leb_spec er (S i)); [lia|reflexivity].
Qed.

Lemma kama_run (er : nat) (sc : nat -> R) (cs : list R) : forall len i, (er - 1 <= i)%nat -> (1 <= er)%nat ->
  kama_loop (Kama_rec er sc cs i) (map (at_ cs) (seq (S i) len)) (map sc (seq (S i) len))
  = map (Kama_rec er sc cs) (seq (S i) len).
Proof.
  induction len as [|len IH]; intros i Hi Her; [reflexivity|].
  cbn [seq map kama_loop hd tl]. cbn [nadd nmul nsub NumR].
  assert (E : Kama_rec er sc cs i + sc (S i) * (at_ cs (S i) - Kama_rec er sc cs i) = Kama_rec er sc cs (S i)).
  { cbn [Kama_rec]. destruct (Nat.leb_spec er (S i)); [reflexivity|lia]. }
  rewrite E. f_equal. apply IH; lia.
Qed.

Theorem Kama_documented_gen {I} (k : trend_Kama) (e : expr I R) (env : list (list I)) :
  (1 <= trend_Kama_ErPeriod k)%Z ->
  sem (trend_Kama_Compute (T:=R) k e) env
  = tab (Z.to_nat (trend_Kama_IdlePeriod k)) (length (sem e env)) (Kama_doc k (sem e env)).
Proof.
  intros Her. set (cs := sem e env). set (n := length cs). set (er := trend_Kama_ErPeriod k) in *.
  set (ER := Z.to_nat er).
  assert (Ecs : sem e env = tab 0 n (at_ cs)) by (apply xs_as_tab; reflexivity).
  unfold trend_Kama_Compute, trend_Kama_IdlePeriod, trend_NewMovingSumWithPeriod. fold er.
  assert (Edir : sem (helper_Abs (helper_Change e er)) env
                 = tab ER n (fun i => Rabs (at_ cs i - at_ cs (i - ER)))).
  { unfold helper_Abs. change (sem (EMap ?f ?a) ?v) with (map f (sem a v)).
    rewrite (change_on_tab e env er 0 n _ Ecs), tab_map. reflexivity. }
  assert (Evol : sem (trend_MovingSum_Compute (mk_trend_MovingSum er) (helper_Abs (helper_Change e 1))) env
                 = tab ER n (fsum ER (fun j => Rabs (price_change cs j)))).
  { replace ER with (1 + (ER - 1))%nat at 1 by (unfold ER; lia). apply sum_on_tab; [exact Her|].
    unfold helper_Abs. change (sem (EMap ?f ?a) ?v) with (map f (sem a v)).
    rewrite sem_change1, tab_map. reflexivity. }
  set (scs := helper_Pow _ _).
  assert (Esc : sem scs env = tab ER n (Kama_sc k cs)).
  { subst scs. unfold helper_Pow, helper_IncrementBy, helper_MultiplyBy, helper_Divide.
    change (sem (EMap ?f1 (EMap ?f2 (EMap ?f3 (EOp2 ?g ?a ?b)))) ?v)
      with (map f1 (map f2 (map f3 (s_op2 g (sem a v) (sem b v))))).
    rewrite Edir, Evol, tab_op2, !tab_map. apply tab_fun_ext. intros i.
    unfold Kama_sc, Kama_er. fold er ER. cbn [nadd nsub nmul ndiv npow nofZ NumR]. rewrite Rpow_model_2.
    simpl pow. ring. }
  cbn [sem]. cbn [sem] in Esc. rewrite Esc. fold cs.
  rewrite (raw_s_skip _ cs n eq_refl).
  replace (Z.to_nat (er - 1)) with (ER - 1)%nat by (unfold ER; lia).
  unfold tab, Kama_doc. fold er ER.
  destruct (n - (ER - 1))%nat as [|m] eqn:Em.
  - replace (n - ER)%nat with 0%nat by lia. reflexivity.
  - cbn [seq map s_kama_tail]. replace (S (ER - 1)) with ER by (unfold ER; lia).
    replace m with (n - ER)%nat by lia.
    assert (G := kama_run ER (Kama_sc k cs) cs (n - ER) (ER - 1) ltac:(lia) ltac:(unfold ER; lia)).
    replace (S (ER - 1)) with ER in G by (unfold ER; lia).
    rewrite (Kama_rec_seed ER (Kama_sc k cs) cs (ER - 1)) in G by (unfold ER; lia).
    exact G.
Qed.

Theorem Kama_documented (k : trend_Kama) (cs : list R) :
  (1 <= trend_Kama_ErPeriod k)%Z ->
  sem (trend_Kama_Compute (T:=R) k (EIn 0)) [cs] = tab (Z.to_nat (trend_Kama_IdlePeriod k)) (length cs) (Kama_doc k cs).
Proof. exact (Kama_documented_gen k (EIn 0) [cs]). Qed.

(* ------------------------------------------------------------------------------------------ *)
(* 22. trend.Wma (the building block of Hma; not in the list of C01Trend)
       "WMA = ((Value1 * 1/N) + (Value2 * 2/N) + ...) / 2"
   Value1 .. ValueN the last N values, oldest first. *)

Definition fwma (p : Z) (f : nat -> R) (i : nat) : R :=
  Rsum (map (fun j => f (i + 1 - Z.to_nat p + j)%nat * INR (j + 1) / IZR p) (seq 0 (Z.to_nat p))) / 2.
Definition Wma_doc (p : Z) (xs : list R) : nat -> R := fwma p (at_ xs).

Fixpoint wlist (p i : Z) (l : list R) : R :=
  match l with
  | [] => 0
  | x :: l' => x * IZR (i + 1) / IZR p + wlist p (i + 1) l'
  end.

Lemma wma_sum_wlist (p : Z) : forall (l : list R) (i : Z) (s : R), wma_sum p i l s = s + wlist p i l.
Proof.
  induction l as [|x l IH]; intros i s; cbn [wma_sum wlist]; [lra|].
  rewrite IH. cbn [nadd nmul ndiv nofZ NumR]. lra.
Qed.

Lemma wlist_seq (p : Z) (g : nat -> R) : forall len a s,
  wlist p (Z.of_nat a) (map g (seq s len))
  = Rsum (map (fun j => g (s + j)%nat * INR (a + j + 1) / IZR p) (seq 0 len)).
Proof.
  induction len as [|len IH]; intros a s; [reflexivity|].
  cbn [seq map wlist]. rewrite Rsum_cons. f_equal.
  - rewrite Nat.add_0_r. rewrite INR_IZR_INZ. do 3 f_equal. lia.
  - replace (Z.of_nat a + 1)%Z with (Z.of_nat (S a)) by lia. rewrite IH.
    rewrite <- seq_shift, map_map. f_equal. apply map_ext. intros j. do 2 f_equal; [f_equal; lia|f_equal; lia].
Qed.

Lemma wma_loop_spec (p : Z) (xs : list R) : (1 <= p)%Z -> forall (l : list R) (k : nat),
  skipn k xs = l -> (k <= length xs)%nat ->
  s_mapst (wma_step p) (stdW (Z.to_nat p) xs k) l
  = map (fun i => if Nat.leb (Z.to_nat p) (S i) then Wma_doc p xs i else 0) (seq k (length xs - k)).
Proof.
  intros Hp. set (P := Z.to_nat p). induction l as [|x l IH]; intros k Hsk Hk.
  - assert (length (skipn k xs) = 0%nat) by (rewrite Hsk; reflexivity).
    rewrite skipn_length in H. replace (length xs - k)%nat with 0%nat by lia. reflexivity.
  - symmetry in Hsk. destruct (skipn_cons_inv 0 k xs _ _ Hsk) as (Hlt & Hx & Hl).
    change (nth k xs 0) with (at_ xs k) in Hx. subst x.
    replace (length xs - k)%nat with (S (length xs - S k)) by lia.
    cbn [s_mapst seq map]. unfold wma_step at 1, ring_push, ring_full. fold P.
    rewrite (proj1 (stdW_step P xs k ltac:(unfold P; lia))), stdW_length.
    destruct (Nat.eqb_spec (Nat.min (S k) P) P) as [E|E]; destruct (Nat.leb_spec P (S k)) as [E'|E']; try lia.
    + f_equal; [|apply IH; [auto|lia]].
      rewrite wma_sum_wlist. cbn [ndiv nzero nofZ NumR]. unfold Wma_doc, fwma. fold P. f_equal.
      unfold stdW. replace (Nat.min (S k) P) with P by lia.
      change 0%Z with (Z.of_nat 0). rewrite wlist_seq, Rplus_0_l.
      f_equal. apply map_ext. intros j. do 2 f_equal. f_equal. lia.
    + f_equal. apply IH; [auto|lia].
Qed.

Lemma Wma_list {I} (p : Z) (e : expr I R) (env : list (list I)) : (1 <= p)%Z ->
  sem (trend_Wma_Compute (T:=R) (mk_trend_Wma p) e) env
  = tab (Z.to_nat p - 1) (length (sem e env)) (Wma_doc p (sem e env)).
Proof.
  intros Hp. unfold trend_Wma_Compute, trend_Wma_IdlePeriod. cbn [trend_Wma_Period sem]. set (xs := sem e env).
  change (@nil R) with (stdW (Z.to_nat p) xs 0).
  rewrite (wma_loop_spec p xs Hp xs 0%nat eq_refl ltac:(lia)).
  change (map ?g (seq 0 (length xs - 0))) with (tab 0 (length xs) g).
  rewrite tab_s_skip. replace (0 + Z.to_nat (p - 1))%nat with (Z.to_nat p - 1)%nat by lia.
  apply tab_ext. intros i Hi. destruct (Nat.leb_spec (Z.to_nat p) (S i)); [reflexivity|lia].
Qed.

Lemma wma_on_tab {I} (p : Z) (e : expr I R) (env : list (list I)) (w n : nat) (f : nat -> R) :
  (1 <= p)%Z -> sem e env = tab w n f ->
  sem (trend_Wma_Compute (T:=R) (mk_trend_Wma p) e) env = tab (w + (Z.to_nat p - 1)) n (fwma p f).
Proof.
  intros Hp He. rewrite Wma_list by exact Hp.
  rewrite He, tab_length, C01Trend.tab_reindex. apply tab_ext. intros i Hi.
  unfold Wma_doc, fwma. do 2 f_equal. apply map_ext_in. intros j Hj. apply in_seq in Hj.
  rewrite at_tab by lia. do 3 f_equal. lia.
Qed.

Theorem Wma_documented (cfg : trend_Wma) (xs : list R) : (1 <= trend_Wma_Period cfg)%Z ->
  sem (trend_Wma_Compute (T:=R) cfg (EIn 0)) [xs]
  = tab (Z.to_nat (trend_Wma_IdlePeriod cfg)) (length xs) (Wma_doc (trend_Wma_Period cfg) xs).
Proof.
  destruct cfg as [p]. cbn [trend_Wma_Period]. intros Hp. rewrite Wma_list by exact Hp.
  unfold trend_Wma_IdlePeriod. cbn [trend_Wma_Period sem nth]. f_equal. lia.
Qed.

(* ------------------------------------------------------------------------------------------ *)
(* 23. trend.Hma
       "WMA1 = WMA(period/2 , values)
        WMA2 = WMA(period, values)
        WMA3 = WMA(sqrt(period), (2 * WMA1) - WMA2)
        HMA = WMA3"
   The configuration holds the three WMAs; NewHmaWithPeriod period builds them with the periods round(period/2), period,
   round(sqrt(period)).  Admissible: 1 <= period of wma1 <= period of wma2, 1 <= period of wma3. *)

Definition fhma (h : trend_Hma) (f : nat -> R) : nat -> R :=
  let p1 := trend_Wma_Period (trend_Hma_wma1 h) in
  let p2 := trend_Wma_Period (trend_Hma_wma2 h) in
  let p3 := trend_Wma_Period (trend_Hma_wma3 h) in
  fwma p3 (fun i => 2 * fwma p1 f i - fwma p2 f i).
Definition Hma_doc (h : trend_Hma) (xs : list R) : nat -> R := fhma h (at_ xs).

Definition Hma_admissible (h : trend_Hma) : Prop :=
  (1 <= trend_Wma_Period (trend_Hma_wma1 h) <= trend_Wma_Period (trend_Hma_wma2 h))%Z
  /\ (1 <= trend_Wma_Period (trend_Hma_wma3 h))%Z.

(* over a series that starts at position w *)
Lemma hma_on_tab {I} (h : trend_Hma) (e : expr I R) (env : list (list I)) (w n : nat) (f : nat -> R) :
  Hma_admissible h -> sem e env = tab w n f ->
  sem (trend_Hma_Compute (T:=R) h e) env = tab (w + Z.to_nat (trend_Hma_IdlePeriod h)) n (fhma h f).
Proof.
  destruct h as [[p1] [p2] [p3]]. unfold Hma_admissible, fhma.
  cbn [trend_Hma_wma1 trend_Hma_wma2 trend_Hma_wma3 trend_Wma_Period]. intros [H12 H3] He.
  unfold trend_Hma_Compute, trend_Hma_IdlePeriod, trend_Wma_IdlePeriod.
  cbn [trend_Hma_wma1 trend_Hma_wma2 trend_Hma_wma3 trend_Wma_Period].
  replace (w + Z.to_nat (p2 - 1 + (p3 - 1)))%nat with (w + (Z.to_nat p2 - 1) + (Z.to_nat p3 - 1))%nat by lia.
  apply wma_on_tab; [exact H3|].
  unfold helper_Subtract, helper_MultiplyBy. cbn [sem].
  rewrite (wma_on_tab p1 e env w n f) by (try exact He; lia).
  rewrite (wma_on_tab p2 e env w n f) by (try exact He; lia).
  rewrite tab_s_skip, tab_map.
  replace (w + (Z.to_nat p1 - 1) + Z.to_nat (p2 - 1 - (p1 - 1)))%nat with (w + (Z.to_nat p2 - 1))%nat by lia.
  rewrite tab_op2. apply tab_fun_ext. intros i. cbn [nsub nmul nofZ NumR]. ring.
Qed.

Theorem Hma_documented_gen {I} (h : trend_Hma) (e : expr I R) (env : list (list I)) :
  Hma_admissible h ->
  sem (trend_Hma_Compute (T:=R) h e) env
  = tab (Z.to_nat (trend_Hma_IdlePeriod h)) (length (sem e env)) (Hma_doc h (sem e env)).
Proof.
  intros Hh. exact (hma_on_tab h e env 0 (length (sem e env)) (at_ (sem e env)) Hh (xs_as_tab _ _ eq_refl)).
Qed.

Theorem Hma_documented (h : trend_Hma) (xs : list R) :
  Hma_admissible h ->
  sem (trend_Hma_Compute (T:=R) h (EIn 0)) [xs] = tab (Z.to_nat (trend_Hma_IdlePeriod h)) (length xs) (Hma_doc h xs).
Proof. exact (Hma_documented_gen h (EIn 0) [xs]). Qed.

(* the constructor yields admissible configurations *)
Lemma NewHmaWithPeriod_admissible (period : Z) : (1 <= period)%Z -> Hma_admissible (trend_NewHmaWithPeriod period).
Proof.
  intros Hp. unfold Hma_admissible, trend_NewHmaWithPeriod, trend_NewWmaWith.
  cbn [trend_Hma_wma1 trend_Hma_wma2 trend_Hma_wma3 trend_Wma_Period].
  unfold round_half, round_sqrt. rewrite Z.quot_div_nonneg by lia. split.
  - split; Z.div_mod_to_equations; lia.
  - cbv zeta. assert (0 < Z.sqrt period)%Z by (apply Z.sqrt_pos; lia).
    destruct (Z.ltb _ _); lia.
Qed.

(* ------------------------------------------------------------------------------------------ *)
(* 24. volatility.SuperTrend
       "BasicUpperBands = (High + Low) / 2 + Multiplier * ATR
        BasicLowerBands = (High + Low) / 2 - Multiplier * ATR
        FinalUpperBands = If (BasicUpperBand < PreviousFinalUpperBand) Or (PreviousClose > PreviousFinalUpperBand)
                          Then BasicUpperBand Else PreviousFinalUpperBand
        FinalLowerBands = If (BasicLowerBand > PreviousFinalLowerBand) Or (PreviousClose < PreviousFinalLowerBand)
                          Then BasicLowerBand Else PreviousFinalLowerBand
        SuperTrend = If upTrend Then If (Close <= FinalUpperBand) Then FinalUpperBand Else FinalLowerBand
                     Else If (Close >= FinalLowerBand) Then FinalLowerBand Else FinalUpperBand
        UpTrend = If (SuperTrend == FinalUpperBand) Then True Else False"
   a recurrence over (FinalUpperBand, FinalLowerBand, upTrend).  Not stated in the doc comment: at the first position (the
   idle period of the ATR) the final bands are the basic bands, the super trend is the lower band and upTrend is false.
   "SuperTrend == FinalUpperBand" is implemented as "the super trend was taken from the final upper band", which is the
   same whenever the two final bands differ ([SuperTrend_upTrend_is_equality]).
   The ATR is the configured volatility.Atr (any moving average of the true range; the constructors use HMA): the theorem
   is stated relative to the series A of its values, then instantiated with the SMA-based ATR of C01Other. *)

(* one position: basic bands bu bl, previous close pc, close c, previous (final upper, final lower, upTrend) *)
Definition ST_next (bu bl pc c : R) (s : R * R * bool) : (R * R * bool) * R :=
  let '(pfu, pfl, up) := s in
  let fu := if orb (Rltb bu pfu) (Rltb pfu pc) then bu else pfu in
  let fl := if orb (Rltb pfl bl) (Rltb pc pfl) then bl else pfl in
  if up then (if Rleb c fu then ((fu, fl, true), fu) else ((fu, fl, false), fl))
  else (if Rleb fl c then ((fu, fl, false), fl) else ((fu, fl, true), fu)).

Lemma SuperTrend_upTrend_is_equality (bu bl pc c : R) (s : R * R * bool) :
  let '((fu, fl, up'), st) := ST_next bu bl pc c s in
  fu <> fl -> up' = Reqb st fu.
Proof.
  destruct s as [[pfu pfl] up]. unfold ST_next.
  set (fu := if orb (Rltb bu pfu) (Rltb pfu pc) then bu else pfu).
  set (fl := if orb (Rltb pfl bl) (Rltb pc pfl) then bl else pfl).
  assert (T : Reqb fu fu = true) by (apply Reqb_true; reflexivity).
  assert (F : fu <> fl -> Reqb fl fu = false).
  { intros H. destruct (Reqb fl fu) eqn:E; [apply Reqb_true in E; congruence|reflexivity]. }
  destruct up; [destruct (Rleb c fu)|destruct (Rleb fl c)]; intros H; rewrite ?T, ?F by exact H; reflexivity.
Qed.

(* the state and the value at the absolute position i, for the series that start at position w *)
Fixpoint ST_full (w : nat) (bu bl : nat -> R) (cs : list R) (i : nat) : (R * R * bool) * R :=
  match i with
  | O => ((bu 0%nat, bl 0%nat, false), bl 0%nat)
  | S i' => if Nat.leb (S i') w then ((bu (S i'), bl (S i'), false), bl (S i'))
            else ST_next (bu (S i')) (bl (S i')) (at_ cs i') (at_ cs (S i')) (fst (ST_full w bu bl cs i'))
  end.

Lemma ST_full_init w bu bl cs : ST_full w bu bl cs w = ((bu w, bl w, false), bl w).
Proof. destruct w as [|w]; [reflexivity|]. cbn [ST_full]. rewrite Nat.leb_refl. reflexivity. Qed.

Lemma ST_full_step w bu bl cs i : (w <= i)%nat ->
  ST_full w bu bl cs (S i) = ST_next (bu (S i)) (bl (S i)) (at_ cs i) (at_ cs (S i)) (fst (ST_full w bu bl cs i)).
Proof. intros H. cbn [ST_full]. destruct (Nat.leb_spec (S i) w); [lia|reflexivity]. Qed.

Definition SuperTrend_bu (mult : R) (A : nat -> R) (hs ls : list R) (i : nat) : R := (at_ hs i + at_ ls i) / 2 + mult * A i.
Definition SuperTrend_bl (mult : R) (A : nat -> R) (hs ls : list R) (i : nat) : R := (at_ hs i + at_ ls i) / 2 - mult * A i.
Definition SuperTrend_doc (w : nat) (mult : R) (A : nat -> R) (hs ls cs : list R) (i : nat) : R :=
  snd (ST_full w (SuperTrend_bu mult A hs ls) (SuperTrend_bl mult A hs ls) cs i).

Section SuperTrendRun.
  Variable step : bool * bool * R * R * R -> R -> R -> R -> (bool * bool * R * R * R) * R.
  Hypothesis Hfirst : forall up pc pfu pfl m a c,
    step (true, up, pc, pfu, pfl) m a c = ((false, up, c, m + a, m - a), m - a).
  Hypothesis Hnext : forall up pc pfu pfl m a c,
    step (false, up, pc, pfu, pfl) m a c
    = let '((fu, fl, up'), st) := ST_next (m + a) (m - a) pc c (pfu, pfl, up) in ((false, up', c, fu, fl), st).
  Variables (w : nat) (med am : nat -> R) (cs : list R).
  Let bu i := med i + am i.
  Let bl i := med i - am i.

  Lemma st_run : forall len i, (w <= i)%nat ->
    s_op3st step (let '(fu, fl, up) := fst (ST_full w bu bl cs i) in (false, up, at_ cs i, fu, fl))
      (map med (seq (S i) len)) (map am (seq (S i) len)) (map (at_ cs) (seq (S i) len))
    = map (fun j => snd (ST_full w bu bl cs j)) (seq (S i) len).
  Proof.
    induction len as [|len IH]; intros i Hi; [reflexivity|].
    cbn [seq map s_op3st].
    destruct (fst (ST_full w bu bl cs i)) as [[pfu pfl] up] eqn:Es.
    rewrite Hnext.
    pose proof (IH (S i) ltac:(lia)) as IH'. rewrite (ST_full_step w bu bl cs i Hi), Es in IH'.
    rewrite (ST_full_step w bu bl cs i Hi), Es.
    change (med (S i) + am (S i)) with (bu (S i)). change (med (S i) - am (S i)) with (bl (S i)).
    set (r := ST_next (bu (S i)) (bl (S i)) (at_ cs i) (at_ cs (S i)) (pfu, pfl, up)) in *. clearbody r.
    destruct r as [[[fu fl] up'] st]. cbn [fst snd] in *. f_equal. exact IH'.
  Qed.

  Lemma st_tab (n : nat) :
    s_op3st step (true, false, 0, 0, 0) (tab w n med) (tab w n am) (tab w n (at_ cs))
    = tab w n (fun j => snd (ST_full w bu bl cs j)).
  Proof.
    unfold tab. destruct (n - w)%nat as [|len]; [reflexivity|].
    cbn [seq map s_op3st]. rewrite Hfirst, ST_full_init. cbn [snd]. f_equal.
    pose proof (st_run len w (le_n w)) as H. rewrite ST_full_init in H. cbn [fst] in H. exact H.
  Qed.
End SuperTrendRun.

Theorem SuperTrend_documented_gen (s : volatility_SuperTrend (I:=R) (T:=R)) (hs ls cs : list R) (n : nat)
        (A : nat -> R) :
  let w := Z.to_nat (volatility_SuperTrend_IdlePeriod s) in
  (0 <= volatility_SuperTrend_IdlePeriod s)%Z ->
  length hs = n -> length ls = n -> length cs = n ->
  sem (volatility_Atr_Compute (volatility_SuperTrend_Atr s) (EIn 0) (EIn 1) (EIn 2)) [hs; ls; cs] = tab w n A ->
  sem (volatility_SuperTrend_Compute s (EIn 0) (EIn 1) (EIn 2)) [hs; ls; cs]
  = tab w n (SuperTrend_doc w (volatility_SuperTrend_Multiplier s) A hs ls cs).
Proof.
  intros w Hw Hh Hl Hc Ha. subst w. destruct s as [atr mult].
  unfold volatility_SuperTrend_IdlePeriod in *. cbn [volatility_SuperTrend_Atr volatility_SuperTrend_Multiplier] in *.
  set (w := Z.to_nat (volatility_Atr_IdlePeriod atr)) in *.
  unfold volatility_SuperTrend_Compute. cbn [volatility_SuperTrend_Atr volatility_SuperTrend_Multiplier].
  unfold helper_DivideBy, helper_Add, helper_MultiplyBy.
  cbn [sem]. cbn [sem] in Ha. rewrite Ha. cbn [nth].
  rewrite (raw_op2 _ hs ls n Hh Hl), !tab_map, tab_s_skip, (raw_s_skip _ cs n Hc). fold w. cbn [Nat.add].
  rewrite (tab_fun_ext w n (fun i => nmul (A i) mult) (fun i => mult * A i))
    by (intros i; cbn [nmul NumR]; ring).
  unfold SuperTrend_doc, SuperTrend_bu, SuperTrend_bl.
  apply (st_tab _) with (med := fun i => (at_ hs i + at_ ls i) / 2) (am := fun i => mult * A i).
  - intros up pc pfu pfl m a c. reflexivity.
  - intros up pc pfu pfl m a c. unfold ST_next. unfold ngtb, ngeb. cbn [nadd nsub nltb nleb NumR].
    destruct (orb (Rltb (m + a) pfu) (Rltb pfu pc)); destruct (orb (Rltb pfl (m - a)) (Rltb pc pfl));
      destruct up; try (destruct (Rleb c (m + a))); try (destruct (Rleb c pfu));
      try (destruct (Rleb (m - a) c)); try (destruct (Rleb pfl c)); reflexivity.
Qed.

(* with the SMA-based ATR (volatility.NewAtrWithPeriod) *)
Theorem SuperTrend_sma_documented (p : Z) (mult : R) (hs ls cs : list R) (n : nat) :
  let s := mk_volatility_SuperTrend (volatility_NewAtrWithPeriod (I:=R) p) mult in
  let w := Z.to_nat (volatility_SuperTrend_IdlePeriod s) in
  (1 <= p)%Z -> length hs = n -> length ls = n -> length cs = n ->
  sem (volatility_SuperTrend_Compute s (EIn 0) (EIn 1) (EIn 2)) [hs; ls; cs]
  = tab w n (SuperTrend_doc w mult (Atr_sma_doc (Z.to_nat p) hs ls cs) hs ls cs).
Proof.
  intros s w Hp Hh Hl Hc.
  apply (SuperTrend_documented_gen s hs ls cs n (Atr_sma_doc (Z.to_nat p) hs ls cs)); try assumption.
  - subst s. unfold volatility_SuperTrend_IdlePeriod, volatility_Atr_IdlePeriod, volatility_NewAtrWithPeriod,
      volatility_NewAtrWithMa, trend_Sma_as_trend_Ma, trend_NewSmaWithPeriod, trend_Sma_IdlePeriod.
    cbn [volatility_SuperTrend_Atr volatility_Atr_Ma trend_Ma_IdlePeriod trend_Sma_Period]. lia.
  - exact (Atr_documented p hs ls cs n Hp Hh Hl Hc).
Qed.

(* with the HMA-based ATR of the constructors (volatility.NewSuperTrendWithPeriod): ATR = HMA(period) of the true range *)
Theorem SuperTrend_hma_documented (p : Z) (mult : R) (hs ls cs : list R) (n : nat) :
  let s := volatility_NewSuperTrendWithPeriod (I:=R) p mult in
  let w := Z.to_nat (volatility_SuperTrend_IdlePeriod s) in
  (1 <= p)%Z -> length hs = n -> length ls = n -> length cs = n ->
  sem (volatility_SuperTrend_Compute s (EIn 0) (EIn 1) (EIn 2)) [hs; ls; cs]
  = tab w n (SuperTrend_doc w mult (fhma (trend_NewHmaWithPeriod p) (TrueRange_doc hs ls cs)) hs ls cs).
Proof.
  intros s w Hp Hh Hl Hc.
  assert (Hadm := NewHmaWithPeriod_admissible p Hp).
  assert (Hidle : (0 <= trend_Hma_IdlePeriod (trend_NewHmaWithPeriod p))%Z).
  { destruct Hadm as [[H1 H2] H3]. unfold trend_Hma_IdlePeriod, trend_Wma_IdlePeriod. lia. }
  apply (SuperTrend_documented_gen s hs ls cs n); try assumption.
  - subst s. unfold volatility_NewSuperTrendWithPeriod, volatility_NewSuperTrendWithMa, volatility_NewAtrWithMa,
      volatility_SuperTrend_IdlePeriod, volatility_Atr_IdlePeriod, trend_Hma_as_trend_Ma.
    cbn [volatility_SuperTrend_Atr volatility_Atr_Ma trend_Ma_IdlePeriod]. lia.
  - subst s w. unfold volatility_NewSuperTrendWithPeriod, volatility_NewSuperTrendWithMa, volatility_NewAtrWithMa,
      volatility_SuperTrend_IdlePeriod, volatility_Atr_IdlePeriod, volatility_Atr_Compute, trend_Hma_as_trend_Ma.
    cbn [volatility_SuperTrend_Atr volatility_Atr_Ma trend_Ma_IdlePeriod trend_Ma_Compute].
    rewrite (hma_on_tab _ _ [hs; ls; cs] 1 n (TrueRange_doc hs ls cs) Hadm
               (sem_true_range (EIn 0) (EIn 1) (EIn 2) [hs; ls; cs] n Hh Hl Hc)).
    f_equal. lia.
Qed.

(* ------------------------------------------------------------------------------------------ *)
(* 25. volume.Fi: the code deviates from its documentation
       "FI = EMA(period, (Current - Previous) * Volume)"
   The code multiplies the stream of changes (which starts at position 1) with the volume stream read from its beginning:
   the change of position i meets the volume of position i-1. *)

Definition Fi_doc (c : trend_Ema (T:=R)) (cs vs : list R) : nat -> R :=
  fema 1 (eP c) (eS c) (fun j => price_change cs j * at_ vs j).
Definition Fi_actual_formula (c : trend_Ema (T:=R)) (cs vs : list R) : nat -> R :=
  fema 1 (eP c) (eS c) (fun j => price_change cs j * at_ vs (j - 1)).

Theorem Fi_actual (cfg : volume_Fi (T:=R)) (cs vs : list R) (n : nat) :
  (1 <= trend_Ema_Period (volume_Fi_Ema cfg))%Z -> length cs = n -> length vs = n ->
  sem (volume_Fi_Compute cfg (EIn 0) (EIn 1)) [cs; vs]
  = tab (Z.to_nat (volume_Fi_IdlePeriod cfg)) n (Fi_actual_formula (volume_Fi_Ema cfg) cs vs).
Proof.
  destruct cfg as [c]. cbn [volume_Fi_Ema]. intros Hp Hc Hv.
  unfold volume_Fi_Compute, volume_Fi_IdlePeriod, trend_Ema_IdlePeriod. cbn [volume_Fi_Ema].
  replace (Z.to_nat (trend_Ema_Period c - 1 + 1)) with (1 + (eP c - 1))%nat by (unfold eP; lia).
  apply ema_nested; [exact Hp|].
  unfold helper_Multiply. change (sem (EOp2 ?g ?a ?b) ?v) with (s_op2 g (sem a v) (sem b v)).
  rewrite sem_change1. cbn [sem nth]. rewrite Hc. apply (tab_op2_lag _ 1 n _ vs Hv).
Qed.

(* EMA of period 1 and smoothing 2 (the identity), closings [1; 2], volumes [1; 3]: the change at position 1 is 1; the code
   yields 1 * 1, the documentation 1 * 3 *)
Theorem Fi_refuted : exists (cfg : volume_Fi (T:=R)) (cs vs : list R),
  (1 <= trend_Ema_Period (volume_Fi_Ema cfg))%Z /\ length vs = length cs /\
  sem (volume_Fi_Compute cfg (EIn 0) (EIn 1)) [cs; vs]
  <> tab (Z.to_nat (volume_Fi_IdlePeriod cfg)) (length cs) (Fi_doc (volume_Fi_Ema cfg) cs vs).
Proof.
  exists (mk_volume_Fi (mk_trend_Ema 1 2)), [1; 2], [1; 3].
  split; [cbn; lia|]. split; [reflexivity|].
  rewrite (Fi_actual _ [1; 2] [1; 3] 2) by (cbn; try lia; reflexivity).
  unfold volume_Fi_IdlePeriod, trend_Ema_IdlePeriod, Fi_actual_formula, Fi_doc, fema, eP, eS.
  cbn [volume_Fi_Ema trend_Ema_Period trend_Ema_Smoothing length].
  change (Z.to_nat (1 - 1 + 1)) with 1%nat. change (Z.to_nat 1) with 1%nat.
  unfold tab. cbn [Nat.sub seq map Nat.add fseeded Nat.leb].
  unfold fmean, fsum. cbn [Nat.sub Nat.add seq map]. rewrite !Rsum_cons, !Rsum_nil.
  unfold price_change, at_. cbn [nth Nat.sub INR].
  intros H. injection H as H. lra.
Qed.

(* ------------------------------------------------------------------------------------------ *)
(* 26. volatility.Po
       "PL = Min(period, (high + MLS(period, x, high)))
        PH = Max(period, (low + MLS(period, x, low)))
        PO = 100 * (Closing - PL) / (PH - PL)"
   x: the day numbers 1, 2, 3, ...; MLS(period, x, y): the moving least squares slope ([Mls_m_doc]).  The moving minimum /
   maximum are taken over the series that start at position period-1; as for MovingMin / MovingMax themselves the first
   values they see must be non-zero. *)

Definition Po_x (n : nat) : list R := tab 0 n (fun i => INR (S i)).
Definition Po_pl_arg (p : Z) (hs : list R) (i : nat) : R := at_ hs i + Mls_m_doc p (Po_x (length hs)) hs i.
Definition Po_ph_arg (p : Z) (ls : list R) (i : nat) : R := at_ ls i + Mls_m_doc p (Po_x (length ls)) ls i.
Definition Po_doc (p : Z) (q : nat) (hs ls cs : list R) (i : nat) : R :=
  let PL := fmin q (Po_pl_arg p hs) i in
  let PH := fmax q (Po_ph_arg p ls) i in
  (at_ cs i - PL) / (PH - PL) * 100.

Lemma s_count_tab {O} : forall (l : list O) (k : nat),
  s_count (T:=R) (INR (S k)) l = map (fun i => INR (S i)) (seq k (length l)).
Proof.
  induction l as [|x l IH]; intros k; [reflexivity|].
  cbn [s_count length seq map]. f_equal. cbn [nadd nofZ NumR]. rewrite <- S_INR. apply IH.
Qed.

Theorem Po_documented (cfg : volatility_Po) (hs ls cs : list R) (n : nat) :
  let p := trend_MovingSum_Period (trend_Mls_Sum (volatility_Po_mls cfg)) in
  let q := trend_MovingMin_Period (volatility_Po_min cfg) in
  (1 <= p)%Z -> (1 <= q)%Z -> trend_MovingMax_Period (volatility_Po_max cfg) = q ->
  length hs = n -> length ls = n -> length cs = n ->
  nonzero_first (Z.to_nat q) (tab (Z.to_nat p - 1) n (Po_pl_arg p hs)) ->
  nonzero_first (Z.to_nat q) (tab (Z.to_nat p - 1) n (Po_ph_arg p ls)) ->
  sem (volatility_Po_Compute (T:=R) cfg (EIn 0) (EIn 1) (EIn 2)) [hs; ls; cs]
  = tab (Z.to_nat (volatility_Po_IdlePeriod cfg)) n (Po_doc p (Z.to_nat q) hs ls cs).
Proof.
  destruct cfg as [mls [q] [q']].
  cbn [volatility_Po_mls volatility_Po_min volatility_Po_max trend_MovingMin_Period trend_MovingMax_Period].
  intros Hp Hq -> Hh Hl Hc Hnl Hnh. set (env := [hs; ls; cs]). set (p := trend_MovingSum_Period (trend_Mls_Sum mls)) in *.
  set (x := ECount NumR (nofZ 1) (EIn 2) : expr R R).
  assert (Ex : sem x env = Po_x n).
  { subst x. cbn [sem nth env]. change (nofZ 1) with (INR 1). rewrite s_count_tab, Hc. unfold Po_x, tab.
    rewrite Nat.sub_0_r. reflexivity. }
  assert (Lx : length (sem x env) = n) by (rewrite Ex; unfold Po_x; rewrite tab_length; lia).
  destruct (Mls_all_gen mls x (EIn 0) env n Hp Lx Hh) as [EmH _].
  destruct (Mls_all_gen mls x (EIn 1) env n Hp Lx Hl) as [EmL _].
  rewrite Ex in EmH, EmL. cbn [sem nth env] in EmH, EmL. fold env in EmH, EmL.
  assert (Eidle : Z.to_nat (trend_Mls_IdlePeriod mls) = (Z.to_nat p - 1)%nat).
  { unfold trend_Mls_IdlePeriod, trend_MovingSum_IdlePeriod. fold p. lia. }
  rewrite Eidle in EmH, EmL.
  unfold volatility_Po_Compute, volatility_Po_IdlePeriod, trend_MovingMin_IdlePeriod.
  cbn [volatility_Po_mls volatility_Po_min volatility_Po_max trend_MovingMin_Period]. fold x.
  rewrite (surjective_pairing (trend_Mls_Compute mls x (EIn 0))).
  rewrite (surjective_pairing (trend_Mls_Compute mls x (EIn 1))).
  set (mH := fst (trend_Mls_Compute mls x (EIn 0))) in *. set (mL := fst (trend_Mls_Compute mls x (EIn 1))) in *.
  assert (Epl : sem (helper_Add (ESkip (trend_Mls_IdlePeriod mls) (EIn 0)) mH) env
                = tab (Z.to_nat p - 1) n (Po_pl_arg p hs)).
  { unfold helper_Add. cbn [sem]. rewrite EmH. cbn [nth env]. rewrite (raw_s_skip _ hs n Hh), Eidle, tab_op2.
    unfold Po_pl_arg. rewrite Hh. reflexivity. }
  assert (Eph : sem (helper_Add (ESkip (trend_Mls_IdlePeriod mls) (EIn 1)) mL) env
                = tab (Z.to_nat p - 1) n (Po_ph_arg p ls)).
  { unfold helper_Add. cbn [sem]. rewrite EmL. cbn [nth env]. rewrite (raw_s_skip _ ls n Hl), Eidle, tab_op2.
    unfold Po_ph_arg. rewrite Hl. reflexivity. }
  assert (Emin := min_on_tab q _ env _ _ _ Hq Epl Hnl).
  assert (Emax := max_on_tab q _ env _ _ _ Hq Eph Hnh).
  unfold helper_MultiplyBy, helper_Divide, helper_Subtract. cbn [sem]. cbn [sem] in Emin, Emax.
  rewrite Emin, Emax. cbn [nth env]. rewrite (raw_s_skip _ cs n Hc).
  replace (Z.to_nat (trend_Mls_IdlePeriod mls + (q - 1))) with (Z.to_nat p - 1 + (Z.to_nat q - 1))%nat
    by (unfold trend_Mls_IdlePeriod, trend_MovingSum_IdlePeriod; fold p; lia).
  rewrite !tab_op2, tab_map. reflexivity.
Qed.

(* ------------------------------------------------------------------------------------------ *)
(* Named projections of the tuple lemmas *)

Section KeltnerTheorems.
  Variable pa : Z.
  Variable c : trend_Ema (T:=R).
  Variables hs ls cs : list R.
  Variable n : nat.
  Hypothesis Hpa : (1 <= pa)%Z.
  Hypothesis Hpe : (1 <= trend_Ema_Period c <= pa + 1)%Z.
  Hypothesis Hh : length hs = n.
  Hypothesis Hl : length ls = n.
  Hypothesis Hc : length cs = n.
  Let cfg := mk_volatility_KeltnerChannel (volatility_NewAtrWithPeriod (I:=R) pa) c.
  Let out := volatility_KeltnerChannel_Compute cfg (EIn 0) (EIn 1) (EIn 2).
  Let w := Z.to_nat (volatility_KeltnerChannel_IdlePeriod cfg).

  Theorem KeltnerChannel_upper_documented :
    sem (fst (fst out)) [hs; ls; cs] = tab w n (Keltner_upper_doc (Z.to_nat pa) c hs ls cs).
  Proof. exact (proj1 (Keltner_all pa c hs ls cs n Hpa Hpe Hh Hl Hc)). Qed.
  Theorem KeltnerChannel_middle_documented :
    sem (snd (fst out)) [hs; ls; cs] = tab w n (Keltner_middle_doc c cs).
  Proof. exact (proj1 (proj2 (Keltner_all pa c hs ls cs n Hpa Hpe Hh Hl Hc))). Qed.
  Theorem KeltnerChannel_lower_documented :
    sem (snd out) [hs; ls; cs] = tab w n (Keltner_lower_doc (Z.to_nat pa) c hs ls cs).
  Proof. exact (proj2 (proj2 (Keltner_all pa c hs ls cs n Hpa Hpe Hh Hl Hc))). Qed.
End KeltnerTheorems.

Section AccelerationBandsTheorems.
  Variable cfg : volatility_AccelerationBands.
  Variables hs ls cs : list R.
  Variable n : nat.
  Hypothesis Hp : (1 <= volatility_AccelerationBands_Period cfg)%Z.
  Hypothesis Hh : length hs = n.
  Hypothesis Hl : length ls = n.
  Hypothesis Hc : length cs = n.
  Let out := volatility_AccelerationBands_Compute (T:=R) cfg (EIn 0) (EIn 1) (EIn 2).
  Let w := Z.to_nat (volatility_AccelerationBands_IdlePeriod cfg).
  Let P := Z.to_nat (volatility_AccelerationBands_Period cfg).

  Theorem AccelerationBands_upper_documented :
    sem (fst (fst out)) [hs; ls; cs] = tab w n (AccelerationBands_upper_doc P hs ls).
  Proof. exact (proj1 (AccelerationBands_all cfg hs ls cs n Hp Hh Hl Hc)). Qed.
  Theorem AccelerationBands_middle_documented :
    sem (snd (fst out)) [hs; ls; cs] = tab w n (AccelerationBands_middle_doc P cs).
  Proof. exact (proj1 (proj2 (AccelerationBands_all cfg hs ls cs n Hp Hh Hl Hc))). Qed.
  Theorem AccelerationBands_lower_documented :
    sem (snd out) [hs; ls; cs] = tab w n (AccelerationBands_lower_doc P hs ls).
  Proof. exact (proj2 (proj2 (AccelerationBands_all cfg hs ls cs n Hp Hh Hl Hc))). Qed.
End AccelerationBandsTheorems.

(* ------------------------------------------------------------------------------------------ *)
(* The pointwise reading: every "= tab idle n doc" statement above says that the output has n - idle values and that value
   number j is the documented formula at input position idle + j ([tab_pointwise]).  Three instances spelled out. *)

Corollary Rsi_documented_pointwise (cfg : momentum_Rsi) (cs : list R) :
  let p := trend_Rma_Period (momentum_Rsi_Rma cfg) in
  let idle := Z.to_nat (momentum_Rsi_IdlePeriod cfg) in
  let out := sem (momentum_Rsi_Compute (T:=R) cfg (EIn 0)) [cs] in
  (1 <= p)%Z ->
  length out = (length cs - idle)%nat /\ forall j d, (j < length out)%nat -> nth j out d = Rsi_doc p cs (idle + j).
Proof. intros p idle out Hp. apply tab_pointwise. exact (Rsi_documented cfg cs Hp). Qed.

Corollary BollingerBands_upper_documented_pointwise (cfg : volatility_BollingerBands) (xs : list R) :
  let P := Z.to_nat (volatility_BollingerBands_Period cfg) in
  let idle := Z.to_nat (volatility_BollingerBands_IdlePeriod cfg) in
  let out := sem (fst (fst (volatility_BollingerBands_Compute (T:=R) cfg (EIn 0)))) [xs] in
  (1 <= volatility_BollingerBands_Period cfg)%Z ->
  length out = (length xs - idle)%nat /\
  forall j d, (j < length out)%nat -> nth j out d = wmean P xs (idle + j) + 2 * MovingStd_doc P xs (idle + j).
Proof. intros P idle out Hp. apply (tab_pointwise out idle (length xs) (Bollinger_upper_doc P xs)).
  exact (BollingerBands_upper_documented cfg xs Hp). Qed.

Corollary Cmf_documented_pointwise (cfg : volume_Cmf) (hs ls cs vs : list R) (n : nat) :
  let idle := Z.to_nat (volume_Cmf_IdlePeriod cfg) in
  let out := sem (volume_Cmf_Compute (T:=R) cfg (EIn 0) (EIn 1) (EIn 2) (EIn 3)) [hs; ls; cs; vs] in
  (1 <= trend_MovingSum_Period (volume_Cmf_Sum cfg))%Z ->
  length hs = n -> length ls = n -> length cs = n -> length vs = n ->
  length out = (n - idle)%nat /\ forall j d, (j < length out)%nat -> nth j out d = Cmf_doc cfg hs ls cs vs (idle + j).
Proof. intros idle out Hp Hh Hl Hc Hv. apply tab_pointwise. exact (Cmf_documented cfg hs ls cs vs n Hp Hh Hl Hc Hv). Qed.

(* ========================================================================================== *)
(* Every theorem of this file depends on the axioms of the real numbers of the standard library only (checked with
   Print Assumptions for all of them); printed here: three representative documented formulas and the five findings. *)
Print Assumptions Rsi_documented.
Print Assumptions Kdj_J_documented.
Print Assumptions SuperTrend_hma_documented.
Print Assumptions Tsi_refuted.
Print Assumptions ChandelierExit_refuted.
Print Assumptions IchimokuCloud_lagging_refuted.
Print Assumptions Aroon_refuted.
Print Assumptions Fi_refuted.
