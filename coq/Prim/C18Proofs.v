(* Property C18 - unit independence: a scaling relation lifted through the dataflow expression language,
   and its instances (homogeneity of degree d) for generated indicators over the reals. *)
From Coq Require Import List ZArith Bool Lia Reals Lra.
Import ListNotations.
From Verif Require Import Base.Num Base.Stream Base.GenPrelude Gen.All.

Set Implicit Arguments.

(* ========================================================================================== *)
(* Part 1: the generic theorem *)

Section Generic.
(* [RI k] relates the elements of the k-th input series (so that different inputs - prices, volumes - may be
   scaled by different factors) *)
Context {I : Type} (RI : nat -> I -> I -> Prop).

Definition env_rel (env1 env2 : list (list I)) : Prop :=
  forall k, Forall2 (RI k) (nth k env1 []) (nth k env2 []).

(* [escal RA e]: every closure of e maps related arguments to related results (stateful closures preserve a
   state relation RS), inputs being related by RI and the results of e by RA. *)
Inductive escal : forall {A : Type}, (A -> A -> Prop) -> expr I A -> Prop :=
| sc_in : forall k, escal (RI k) (EIn k)
| sc_sub : forall A (RA RA' : A -> A -> Prop) (e : expr I A),
    escal RA e -> (forall a b, RA a b -> RA' a b) -> escal RA' e
| sc_map : forall A B (RA : A -> A -> Prop) (RB : B -> B -> Prop) (f : A -> B) e,
    escal RA e -> (forall a b, RA a b -> RB (f a) (f b)) -> escal RB (EMap f e)
| sc_mapst : forall A B S (RA : A -> A -> Prop) (RB : B -> B -> Prop) (RS : S -> S -> Prop)
    (s0 : S) (f : S -> A -> S * B) e,
    escal RA e -> RS s0 s0 ->
    (forall s t a b, RS s t -> RA a b -> RS (fst (f s a)) (fst (f t b)) /\ RB (snd (f s a)) (snd (f t b))) ->
    escal RB (EMapSt s0 f e)
| sc_skip : forall A (RA : A -> A -> Prop) k (e : expr I A), escal RA e -> escal RA (ESkip k e)
| sc_shift : forall A (RA : A -> A -> Prop) k fill (e : expr I A),
    escal RA e -> RA fill fill -> escal RA (EShift k fill e)
| sc_head : forall A (RA : A -> A -> Prop) k (e : expr I A), escal RA e -> escal RA (EHead k e)
| sc_first : forall A (RA : A -> A -> Prop) k (e : expr I A), escal RA e -> escal RA (EFirst k e)
| sc_buf : forall A (RA : A -> A -> Prop) k (e : expr I A), escal RA e -> escal RA (EBuf k e)
| sc_op2 : forall A B C (RA : A -> A -> Prop) (RB : B -> B -> Prop) (RC : C -> C -> Prop)
    (f : A -> B -> C) a b,
    escal RA a -> escal RB b ->
    (forall x x' y y', RA x x' -> RB y y' -> RC (f x y) (f x' y')) -> escal RC (EOp2 f a b)
| sc_op2st : forall A B C S (RA : A -> A -> Prop) (RB : B -> B -> Prop) (RC : C -> C -> Prop)
    (RS : S -> S -> Prop) (s0 : S) (f : S -> A -> B -> S * C) a b,
    escal RA a -> escal RB b -> RS s0 s0 ->
    (forall s t x x' y y', RS s t -> RA x x' -> RB y y' ->
        RS (fst (f s x y)) (fst (f t x' y')) /\ RC (snd (f s x y)) (snd (f t x' y'))) ->
    escal RC (EOp2St s0 f a b)
| sc_op3 : forall A B C D (RA : A -> A -> Prop) (RB : B -> B -> Prop) (RC : C -> C -> Prop)
    (RD : D -> D -> Prop) (f : A -> B -> C -> D) a b c,
    escal RA a -> escal RB b -> escal RC c ->
    (forall x x' y y' z z', RA x x' -> RB y y' -> RC z z' -> RD (f x y z) (f x' y' z')) ->
    escal RD (EOp3 f a b c)
| sc_op3st : forall A B C D S (RA : A -> A -> Prop) (RB : B -> B -> Prop) (RC : C -> C -> Prop)
    (RD : D -> D -> Prop) (RS : S -> S -> Prop) (s0 : S) (f : S -> A -> B -> C -> S * D) a b c,
    escal RA a -> escal RB b -> escal RC c -> RS s0 s0 ->
    (forall s t x x' y y' z z', RS s t -> RA x x' -> RB y y' -> RC z z' ->
        RS (fst (f s x y z)) (fst (f t x' y' z')) /\ RD (snd (f s x y z)) (snd (f t x' y' z'))) ->
    escal RD (EOp3St s0 f a b c)
| sc_count : forall T O (N : Num T) (RT : T -> T -> Prop) (RO : O -> O -> Prop) (from : T) (e : expr I O),
    escal RO e -> RT from from ->
    (forall x y, RT x y -> RT (nadd x (nofZ 1)) (nadd y (nofZ 1))) ->
    escal RT (ECount N from e)
| sc_seeded : forall T (RT : T -> T -> Prop) seed p (step : T -> T -> T) (e : expr I T),
    escal RT seed -> escal RT e ->
    (forall p q x y, RT p q -> RT x y -> RT (step p x) (step q y)) ->
    escal RT (ESeeded seed p step e)
| sc_kama : forall T (N : Num T) (RT RS : T -> T -> Prop) (cl scs : expr I T),
    escal RT cl -> escal RS scs -> RS nzero nzero ->
    (forall p q s t c d, RT p q -> RS s t -> RT c d ->
        RT (nadd p (nmul s (nsub c p))) (nadd q (nmul t (nsub d q)))) ->
    escal RT (EKamaTail N cl scs)
(* the moving-std loop is not built from closures: its premise is semantic; [moving_std_scale] below discharges it
   over the reals for RT = RO = scaling by k >= 0 *)
| sc_std : forall T (N : Num T) (RT RO : T -> T -> Prop) p (e : expr I T),
    escal RT e ->
    (forall l1 l2, Forall2 RT l1 l2 -> Forall2 RO (s_moving_std p l1) (s_moving_std p l2)) ->
    escal RO (EMovingStd N p e)
| sc_buyhold : forall A B (RA : A -> A -> Prop) (RB : B -> B -> Prop) (buy hold : A) (e : expr I B),
    escal RB e -> RA buy buy -> RA hold hold -> escal RA (EBuyHold buy hold e).

(* list lemmas *)
Lemma F2_skipn A (R : A -> A -> Prop) n : forall l1 l2, Forall2 R l1 l2 -> Forall2 R (skipn n l1) (skipn n l2).
Proof. induction n; intros l1 l2 H; simpl; auto. destruct H; auto. Qed.
Lemma F2_firstn A (R : A -> A -> Prop) n : forall l1 l2, Forall2 R l1 l2 -> Forall2 R (firstn n l1) (firstn n l2).
Proof. induction n; intros l1 l2 H; simpl; auto. destruct H; auto. Qed.
Lemma F2_repeat A (R : A -> A -> Prop) x y n : R x y -> Forall2 R (repeat x n) (repeat y n).
Proof. intros; induction n; simpl; auto. Qed.
Lemma F2_map A B (RA : A -> A -> Prop) (RB : B -> B -> Prop) (f g : A -> B) :
  (forall a b, RA a b -> RB (f a) (g b)) -> forall l1 l2, Forall2 RA l1 l2 -> Forall2 RB (map f l1) (map g l2).
Proof. intros Hf l1 l2 H; induction H; simpl; auto. Qed.
Lemma F2_impl A (R R' : A -> A -> Prop) : (forall a b, R a b -> R' a b) ->
  forall l1 l2, Forall2 R l1 l2 -> Forall2 R' l1 l2.
Proof. intros Hf l1 l2 H; induction H; auto. Qed.
Lemma F2_nth A (R : A -> A -> Prop) d1 d2 : R d1 d2 -> forall k l1 l2, Forall2 R l1 l2 -> R (nth k l1 d1) (nth k l2 d2).
Proof. intros Hd k; induction k; intros l1 l2 H; destruct H; simpl; auto. Qed.

Lemma F2_mapst A B S (RA : A -> A -> Prop) (RB : B -> B -> Prop) (RS : S -> S -> Prop) (f : S -> A -> S * B) :
  (forall s t a b, RS s t -> RA a b -> RS (fst (f s a)) (fst (f t b)) /\ RB (snd (f s a)) (snd (f t b))) ->
  forall l1 l2, Forall2 RA l1 l2 -> forall s t, RS s t -> Forall2 RB (s_mapst f s l1) (s_mapst f t l2).
Proof.
  intros Hf l1 l2 H; induction H; intros s t Hs; simpl; auto.
  destruct (Hf s t x y Hs H) as [H1 H2].
  destruct (f s x) as [s' o]; destruct (f t y) as [t' o']; simpl in *. constructor; auto.
Qed.

Lemma F2_op2 A B C (RA : A -> A -> Prop) (RB : B -> B -> Prop) (RC : C -> C -> Prop) (f : A -> B -> C) :
  (forall x x' y y', RA x x' -> RB y y' -> RC (f x y) (f x' y')) ->
  forall a a', Forall2 RA a a' -> forall b b', Forall2 RB b b' -> Forall2 RC (s_op2 f a b) (s_op2 f a' b').
Proof.
  intros Hf a a' Ha; induction Ha; intros b b' Hb; simpl; auto.
  destruct Hb; simpl; auto.
Qed.

Lemma F2_op2st A B C S (RA : A -> A -> Prop) (RB : B -> B -> Prop) (RC : C -> C -> Prop) (RS : S -> S -> Prop)
  (f : S -> A -> B -> S * C) :
  (forall s t x x' y y', RS s t -> RA x x' -> RB y y' ->
        RS (fst (f s x y)) (fst (f t x' y')) /\ RC (snd (f s x y)) (snd (f t x' y'))) ->
  forall a a', Forall2 RA a a' -> forall b b', Forall2 RB b b' -> forall s t, RS s t ->
  Forall2 RC (s_op2st f s a b) (s_op2st f t a' b').
Proof.
  intros Hf a a' Ha; induction Ha; intros b b' Hb s t Hs; simpl; auto.
  destruct Hb as [|u v b b' Huv Hb]; simpl; auto.
  destruct (Hf s t x y u v Hs H Huv) as [H1 H2].
  destruct (f s x u) as [s' o]; destruct (f t y v) as [t' o']; simpl in *. constructor; auto.
Qed.

Lemma F2_op3 A B C D (RA : A -> A -> Prop) (RB : B -> B -> Prop) (RC : C -> C -> Prop) (RD : D -> D -> Prop)
  (f : A -> B -> C -> D) :
  (forall x x' y y' z z', RA x x' -> RB y y' -> RC z z' -> RD (f x y z) (f x' y' z')) ->
  forall a a', Forall2 RA a a' -> forall b b', Forall2 RB b b' -> forall c c', Forall2 RC c c' ->
  Forall2 RD (s_op3 f a b c) (s_op3 f a' b' c').
Proof.
  intros Hf a a' Ha; induction Ha; intros b b' Hb c c' Hc; simpl; auto.
  destruct Hb; simpl; auto. destruct Hc; simpl; auto.
Qed.

Lemma F2_op3st A B C D S (RA : A -> A -> Prop) (RB : B -> B -> Prop) (RC : C -> C -> Prop) (RD : D -> D -> Prop)
  (RS : S -> S -> Prop) (f : S -> A -> B -> C -> S * D) :
  (forall s t x x' y y' z z', RS s t -> RA x x' -> RB y y' -> RC z z' ->
        RS (fst (f s x y z)) (fst (f t x' y' z')) /\ RD (snd (f s x y z)) (snd (f t x' y' z'))) ->
  forall a a', Forall2 RA a a' -> forall b b', Forall2 RB b b' -> forall c c', Forall2 RC c c' ->
  forall s t, RS s t -> Forall2 RD (s_op3st f s a b c) (s_op3st f t a' b' c').
Proof.
  intros Hf a a' Ha; induction Ha; intros b b' Hb c c' Hc s t Hs; simpl; auto.
  destruct Hb as [|u v b b' Huv Hb]; simpl; auto.
  destruct Hc as [|w z c c' Hwz Hc]; simpl; auto.
  destruct (Hf s t x y u v w z Hs H Huv Hwz) as [H1 H2].
  destruct (f s x u w) as [s' o]; destruct (f t y v z) as [t' o']; simpl in *. constructor; auto.
Qed.

Lemma F2_count T O (N : Num T) (RT : T -> T -> Prop) (RO : O -> O -> Prop) :
  (forall x y, RT x y -> RT (nadd x (nofZ 1)) (nadd y (nofZ 1))) ->
  forall l1 l2, Forall2 RO l1 l2 -> forall a b, RT a b -> Forall2 RT (s_count a l1) (s_count b l2).
Proof. intros Hf l1 l2 H; induction H; intros a b Hab; simpl; auto. Qed.

Lemma F2_kama_loop T (N : Num T) (RT RS : T -> T -> Prop) :
  RS nzero nzero ->
  (forall p q s t c d, RT p q -> RS s t -> RT c d ->
        RT (nadd p (nmul s (nsub c p))) (nadd q (nmul t (nsub d q)))) ->
  forall cl cl', Forall2 RT cl cl' -> forall scs scs', Forall2 RS scs scs' -> forall p q, RT p q ->
  Forall2 RT (kama_loop p cl scs) (kama_loop q cl' scs').
Proof.
  intros H0 Hf cl cl' H; induction H; intros scs scs' Hs p q Hpq; simpl; auto.
  constructor.
  - apply Hf; auto. destruct Hs; simpl; auto.
  - apply IHForall2.
    + destruct Hs; simpl; auto.
    + apply Hf; auto. destruct Hs; simpl; auto.
Qed.

Theorem escal_sound : forall A (RA : A -> A -> Prop) (e : expr I A), escal RA e ->
  forall env1 env2, env_rel env1 env2 -> Forall2 RA (sem e env1) (sem e env2).
Proof.
  intros A RA e H; induction H; intros env1 env2 Henv; simpl.
  - apply Henv.
  - eapply F2_impl; eauto.
  - eapply F2_map; eauto.
  - eapply F2_mapst; eauto.
  - apply F2_skipn; auto.
  - unfold s_shift. apply Forall2_app; auto. apply F2_repeat; auto.
  - apply F2_firstn; auto.
  - apply F2_firstn; auto.
  - unfold s_buffered; auto.
  - eapply F2_op2; eauto.
  - eapply F2_op2st; eauto.
  - eapply F2_op3; eauto.
  - eapply F2_op3st; eauto.
  - eapply F2_count; eauto.
  - unfold s_seeded_scan.
    specialize (IHescal1 _ _ Henv). specialize (IHescal2 _ _ Henv).
    destruct IHescal1 as [|b b' ? ? Hb _]; auto.
    constructor; auto. unfold s_scan.
    eapply F2_mapst with (RS := RT) (RA := RT); auto.
    + intros; simpl; auto.
    + apply F2_skipn; auto.
  - unfold s_kama_tail.
    specialize (IHescal1 _ _ Henv). specialize (IHescal2 _ _ Henv).
    destruct IHescal1; auto. eapply F2_kama_loop; eauto.
  - auto.
  - unfold s_buy_and_hold. specialize (IHescal _ _ Henv).
    destruct IHescal; auto. constructor; auto. eapply F2_map; eauto.
Qed.

End Generic.

(* all inputs related by the same relation *)
Lemma env_rel_uniform I (R : I -> I -> Prop) env1 env2 :
  Forall2 (Forall2 R) env1 env2 -> env_rel (fun _ => R) env1 env2.
Proof. intros H k. apply F2_nth; auto. Qed.

(* ========================================================================================== *)
(* Part 2: homogeneity of generated indicators over the reals *)

Local Open Scope R_scope.

(* [sc k]: the second value is k times the first.  With k = lambda ^ d: homogeneity of degree d. *)
Definition sc (k : R) (a b : R) : Prop := b = k * a.

Lemma F2_sc_map k : forall l1 l2, Forall2 (sc k) l1 l2 -> l2 = map (Rmult k) l1.
Proof. intros l1 l2 H; induction H; simpl; auto. unfold sc in H. subst; auto. Qed.
Lemma map_F2_sc k : forall l, Forall2 (sc k) l (map (Rmult k) l).
Proof. induction l; simpl; constructor; auto. reflexivity. Qed.
Lemma F2_eq A : forall l1 l2 : list A, Forall2 eq l1 l2 -> l2 = l1.
Proof. intros l1 l2 H; induction H; simpl; auto. subst; auto. Qed.

Ltac sc_arith :=
  unfold sc in *; simpl in *; subst; simpl; try (unfold Rdiv; ring).

Lemma Rltb_scale k a b : 0 < k -> Rltb (k * a) (k * b) = Rltb a b.
Proof.
  intros Hk. destruct (Rltb a b) eqn:E.
  - apply Rltb_true in E. apply Rltb_true. apply Rmult_lt_compat_l; auto.
  - apply Rltb_false in E. apply Rltb_false. apply Rmult_le_compat_l; lra.
Qed.
Lemma Rleb_scale k a b : 0 < k -> Rleb (k * a) (k * b) = Rleb a b.
Proof.
  intros Hk. destruct (Rleb a b) eqn:E.
  - apply Rleb_true in E. apply Rleb_true. apply Rmult_le_compat_l; lra.
  - apply Rleb_false in E. apply Rleb_false. apply Rmult_lt_compat_l; auto.
Qed.
Lemma Rltb_scale_0r k a : 0 < k -> Rltb (k * a) 0 = Rltb a 0.
Proof. intros Hk. rewrite <- (Rltb_scale a 0 Hk). now rewrite Rmult_0_r. Qed.
Lemma Rltb_scale_0l k a : 0 < k -> Rltb 0 (k * a) = Rltb 0 a.
Proof. intros Hk. rewrite <- (Rltb_scale 0 a Hk). now rewrite Rmult_0_r. Qed.
(* No side condition on the denominator: in Coq 8.16 [/ 0 = 0] (Rinv_0) and [Rinv_mult] is unconditional, so
   (k*a)/(k*0) = a/0 (= 0) as well; only k <> 0 is needed. *)
Lemma Rdiv_scale k a b : k <> 0 -> (k * a) / (k * b) = a / b.
Proof.
  intros Hk. unfold Rdiv. rewrite Rinv_mult. rewrite <- Rmult_assoc.
  replace (k * a * / k) with a by (field; auto). reflexivity.
Qed.

(* ---- the moving standard deviation loop (volatility/moving_std.go) is homogeneous of degree 1 for k >= 0:
        this discharges the premise of [sc_std] ---- *)
Lemma Rpow_model_2 x : Rpow_model x 2 = x * x.
Proof. unfold Rpow_model. destruct (Req_EM_T 2 2); auto. lra. Qed.

Lemma std_fold_scale k sma : forall win acc,
  fold_left (fun acc x => nadd acc (npow (nsub x (k * sma)) (nofZ 2))) (map (Rmult k) win) (k * k * acc)
  = k * k * fold_left (fun acc x => nadd acc (npow (nsub x sma) (nofZ 2))) win acc.
Proof.
  induction win; intros acc; simpl; auto.
  rewrite <- IHwin. f_equal. rewrite !Rpow_model_2. ring.
Qed.

Lemma std_loop_scale k p : 0 <= k -> forall l win sum,
  std_loop p (map (Rmult k) win) (k * sum) (map (Rmult k) l) = map (Rmult k) (std_loop p win sum l).
Proof.
  intros Hk. induction l; intros win sum; simpl; auto.
  rewrite map_length.
  set (full := Nat.eqb (length win) p).
  assert (Hw : (if full then tl (map (Rmult k) win) else map (Rmult k) win) ++ [k * a]
               = map (Rmult k) ((if full then tl win else win) ++ [a])).
  { rewrite map_app. simpl. destruct full; auto. destruct win; auto. }
  assert (Hs : k * sum - (if full then hd 0 (map (Rmult k) win) else 0) + k * a
               = k * (sum - (if full then hd 0 win else 0) + a)).
  { destruct full; [destruct win|]; simpl; ring. }
  rewrite Hw, Hs. rewrite map_length.
  destruct (Nat.eqb (length (_ ++ [a])) p); [|apply IHl].
  simpl. rewrite IHl. f_equal.
  set (win' := (if full then tl win else win) ++ [a]).
  set (sum' := sum - (if full then hd 0 win else 0) + a).
  replace (k * sum' / IZR (Z.of_nat p)) with (k * (sum' / IZR (Z.of_nat p))) by (unfold Rdiv; ring).
  replace 0 with (k * k * 0) at 1 by ring.
  rewrite std_fold_scale.
  match goal with |- sqrt (k * k * ?F / ?P) = _ =>
    replace (k * k * F / P) with (k * k * (F / P)) by (unfold Rdiv; ring) end.
  rewrite sqrt_mult_alt by (apply Rmult_le_pos; auto).
  rewrite sqrt_square; auto.
Qed.

Lemma moving_std_scale k p : 0 <= k -> forall l1 l2 : list R,
  Forall2 (sc k) l1 l2 -> Forall2 (sc k) (s_moving_std p l1) (s_moving_std p l2).
Proof.
  intros Hk l1 l2 H. apply F2_sc_map in H. subst l2. unfold s_moving_std.
  replace (@nzero R NumR) with (k * 0) at 2 by (simpl; ring).
  change (@nil R) with (map (Rmult k) []) at 2.
  rewrite std_loop_scale; auto. apply map_F2_sc.
Qed.

Section Instances.
Context {I : Type} (RI : nat -> I -> I -> Prop).
Notation escalI := (escal RI).

(* ---- building blocks (helper/*.go) ---- *)
Lemma sc_Subtract k (a b : expr I R) : escalI (sc k) a -> escalI (sc k) b -> escalI (sc k) (helper_Subtract a b).
Proof. intros. unfold helper_Subtract. eapply sc_op2; eauto. intros; sc_arith. Qed.
Lemma sc_Add k (a b : expr I R) : escalI (sc k) a -> escalI (sc k) b -> escalI (sc k) (helper_Add a b).
Proof. intros. unfold helper_Add. eapply sc_op2; eauto. intros; sc_arith. Qed.
Lemma sc_DivideBy k (a : expr I R) d : escalI (sc k) a -> escalI (sc k) (helper_DivideBy a d).
Proof. intros. unfold helper_DivideBy. eapply sc_map; eauto. intros; sc_arith. Qed.
Lemma sc_MultiplyBy k (a : expr I R) d : escalI (sc k) a -> escalI (sc k) (helper_MultiplyBy a d).
Proof. intros. unfold helper_MultiplyBy. eapply sc_map; eauto. intros; sc_arith. Qed.
Lemma sc_Divide k (a b : expr I R) : k <> 0 -> escalI (sc k) a -> escalI (sc k) b -> escalI eq (helper_Divide a b).
Proof.
  intros. unfold helper_Divide. eapply sc_op2; eauto. intros; sc_arith. symmetry; apply Rdiv_scale; auto.
Qed.
Lemma sc_Change k (c : expr I R) n : escalI (sc k) c -> escalI (sc k) (helper_Change c n).
Proof. intros. unfold helper_Change. apply sc_Subtract. apply sc_skip; auto. apply sc_buf; auto. Qed.
Lemma sc_KeepPositives k (c : expr I R) : 0 < k -> escalI (sc k) c -> escalI (sc k) (helper_KeepPositives c).
Proof.
  intros. unfold helper_KeepPositives. eapply sc_map; eauto. intros; sc_arith.
  unfold ngtb; simpl. rewrite Rltb_scale_0l; auto. destruct (Rltb 0 a); ring.
Qed.
Lemma sc_KeepNegatives k (c : expr I R) : 0 < k -> escalI (sc k) c -> escalI (sc k) (helper_KeepNegatives c).
Proof.
  intros. unfold helper_KeepNegatives. eapply sc_map; eauto. intros; sc_arith.
  rewrite Rltb_scale_0r; auto. destruct (Rltb a 0); ring.
Qed.
(* degree 0: anything preserves equality *)
Lemma eq_map A B (f : A -> B) (e : expr I A) : escalI eq e -> escalI eq (EMap f e).
Proof. intros. eapply sc_map; eauto. intros; subst; auto. Qed.
Lemma eq_op2 A B C (f : A -> B -> C) a b : escalI eq a -> escalI eq b -> escalI eq (EOp2 f a b).
Proof. intros. eapply sc_op2; eauto. intros; subst; auto. Qed.
Lemma eq_sc1 (e : expr I R) : escalI eq e -> escalI (sc 1) e.
Proof. intros. eapply sc_sub; eauto. intros; sc_arith. Qed.
Lemma sc1_eq (e : expr I R) : escalI (sc 1) e -> escalI eq e.
Proof. intros. eapply sc_sub; eauto. intros; sc_arith. Qed.

(* ---- primitives ---- *)
Lemma sc_MovingSum k m (c : expr I R) : escalI (sc k) c -> escalI (sc k) (trend_MovingSum_Compute m c).
Proof.
  intros. unfold trend_MovingSum_Compute. apply sc_skip.
  eapply sc_op2st with (RS := sc k) (RA := sc k) (RB := sc k); auto.
  - apply sc_shift; auto. sc_arith.
  - sc_arith.
  - intros; split; sc_arith.
Qed.
Lemma sc_Sma k s (c : expr I R) : escalI (sc k) c -> escalI (sc k) (trend_Sma_Compute s c).
Proof.
  intros. unfold trend_Sma_Compute. eapply sc_map. apply sc_MovingSum; eauto. intros; sc_arith.
Qed.
Lemma sc_Ema k e (c : expr I R) : escalI (sc k) c -> escalI (sc k) (trend_Ema_Compute e c).
Proof.
  intros. unfold trend_Ema_Compute. apply sc_seeded; auto.
  - apply sc_Sma. apply sc_head; auto.
  - intros; sc_arith.
Qed.
Lemma sc_Rma k r (c : expr I R) : escalI (sc k) c -> escalI (sc k) (trend_Rma_Compute r c).
Proof.
  intros. unfold trend_Rma_Compute. apply sc_seeded; auto.
  - apply sc_Sma. apply sc_head; auto.
  - intros; sc_arith.
Qed.

(* ---- composite indicators ---- *)
Lemma sc_TypicalPrice k t (h l c : expr I R) :
  escalI (sc k) h -> escalI (sc k) l -> escalI (sc k) c -> escalI (sc k) (trend_TypicalPrice_Compute t h l c).
Proof. intros. unfold trend_TypicalPrice_Compute. apply sc_DivideBy. repeat apply sc_Add; auto. Qed.

Lemma sc_Macd_fst k m (c : expr I R) : escalI (sc k) c -> escalI (sc k) (fst (trend_Macd_Compute m c)).
Proof.
  intros. unfold trend_Macd_Compute; simpl. apply sc_skip. apply sc_Subtract.
  - apply sc_skip. apply sc_Ema; auto.
  - apply sc_Ema; auto.
Qed.
Lemma sc_Macd_snd k m (c : expr I R) : escalI (sc k) c -> escalI (sc k) (snd (trend_Macd_Compute m c)).
Proof.
  intros. unfold trend_Macd_Compute; simpl. apply sc_Ema. apply sc_Subtract.
  - apply sc_skip. apply sc_Ema; auto.
  - apply sc_Ema; auto.
Qed.

Lemma sc_Qstick k q (o c : expr I R) :
  escalI (sc k) o -> escalI (sc k) c -> escalI (sc k) (momentum_Qstick_Compute q o c).
Proof. intros. unfold momentum_Qstick_Compute. apply sc_Sma. apply sc_Subtract; auto. Qed.

Lemma sc_Bop k b (o h l c : expr I R) : k <> 0 ->
  escalI (sc k) o -> escalI (sc k) h -> escalI (sc k) l -> escalI (sc k) c ->
  escalI eq (trend_Bop_Compute b o h l c).
Proof. intros. unfold trend_Bop_Compute. apply sc_Divide with (k := k); auto; apply sc_Subtract; auto. Qed.

Lemma sc_Mfm k m (h l c : expr I R) : k <> 0 ->
  escalI (sc k) h -> escalI (sc k) l -> escalI (sc k) c -> escalI eq (volume_Mfm_Compute m h l c).
Proof.
  intros. unfold volume_Mfm_Compute. apply sc_Divide with (k := k); auto; repeat apply sc_Subtract; auto.
Qed.

Lemma sc_Rsi k r (c : expr I R) : 0 < k -> escalI (sc k) c -> escalI eq (momentum_Rsi_Compute r c).
Proof.
  intros Hk H. unfold momentum_Rsi_Compute.
  unfold helper_IncrementBy, helper_Pow, helper_MultiplyBy. do 5 apply eq_map.
  apply sc_Divide with (k := k). lra.
  - apply sc_Rma. apply sc_KeepPositives; auto. apply sc_Change; auto.
  - apply sc_MultiplyBy. apply sc_Rma. apply sc_KeepNegatives; auto. apply sc_Change; auto.
Qed.

Lemma sc_Ppo_ppo k p (c : expr I R) : k <> 0 -> escalI (sc k) c ->
  escalI eq (fst (fst (momentum_Ppo_Compute p c))).
Proof.
  intros Hk H. unfold momentum_Ppo_Compute; simpl. apply sc_skip.
  unfold helper_MultiplyBy; apply eq_map. apply sc_Divide with (k := k); auto.
  - apply sc_Subtract. apply sc_skip. apply sc_Ema; auto. apply sc_Ema; auto.
  - apply sc_Ema; auto.
Qed.
Lemma sc_Ppo_signal k p (c : expr I R) : k <> 0 -> escalI (sc k) c ->
  escalI eq (snd (fst (momentum_Ppo_Compute p c))).
Proof.
  intros Hk H. unfold momentum_Ppo_Compute; simpl. apply sc1_eq. apply sc_Ema. apply eq_sc1.
  unfold helper_MultiplyBy; apply eq_map. apply sc_Divide with (k := k); auto.
  - apply sc_Subtract. apply sc_skip. apply sc_Ema; auto. apply sc_Ema; auto.
  - apply sc_Ema; auto.
Qed.
Lemma sc_Ppo_histogram k p (c : expr I R) : k <> 0 -> escalI (sc k) c ->
  escalI eq (snd (momentum_Ppo_Compute p c)).
Proof.
  intros Hk H.
  pose proof (sc_Ppo_ppo p Hk H) as H1. pose proof (sc_Ppo_signal p Hk H) as H2.
  unfold momentum_Ppo_Compute in *; simpl in *.
  unfold helper_Subtract at 1. apply eq_op2; auto.
Qed.

(* ---- further indicators (beyond the required list) ---- *)
Lemma sc_Abs k (c : expr I R) : 0 <= k -> escalI (sc k) c -> escalI (sc k) (helper_Abs c).
Proof.
  intros. unfold helper_Abs. eapply sc_map; eauto. intros; sc_arith.
  rewrite Rabs_mult. rewrite (Rabs_pos_eq k); auto.
Qed.
Lemma sc_Multiply k m (a b : expr I R) : escalI (sc k) a -> escalI (sc m) b -> escalI (sc (k * m)) (helper_Multiply a b).
Proof. intros. unfold helper_Multiply. eapply sc_op2; eauto. intros; sc_arith. Qed.
Lemma sc_Multiply_eq_l m (a b : expr I R) : escalI eq a -> escalI (sc m) b -> escalI (sc m) (helper_Multiply a b).
Proof. intros. unfold helper_Multiply. eapply sc_op2; eauto. intros; sc_arith. Qed.
(* numerator of degree k*m, denominator of degree m *)
Lemma sc_Divide2 k m (a b : expr I R) : m <> 0 ->
  escalI (sc (k * m)) a -> escalI (sc m) b -> escalI (sc k) (helper_Divide a b).
Proof.
  intros. unfold helper_Divide. eapply sc_op2; eauto. intros; sc_arith.
  unfold Rdiv. rewrite Rinv_mult.
  replace (k * m * x * (/ m * / y)) with ((m * / m) * (k * (x * / y))) by ring.
  rewrite Rinv_r; auto. ring.
Qed.
Lemma sc_MovingStd k m (c : expr I R) : 0 <= k -> escalI (sc k) c -> escalI (sc k) (volatility_MovingStd_Compute m c).
Proof.
  intros. unfold volatility_MovingStd_Compute. eapply sc_std; eauto. apply moving_std_scale; auto.
Qed.
Lemma sc_Smma k r (c : expr I R) : escalI (sc k) c -> escalI (sc k) (trend_Smma_Compute r c).
Proof.
  intros. unfold trend_Smma_Compute. apply sc_seeded; auto.
  - apply sc_Sma. apply sc_head; auto.
  - intros; sc_arith.
Qed.
Lemma sc_Dema k d (c : expr I R) : escalI (sc k) c -> escalI (sc k) (trend_Dema_Compute d c).
Proof.
  intros. unfold trend_Dema_Compute. apply sc_Subtract.
  - apply sc_buf. apply sc_MultiplyBy. apply sc_Ema; auto.
  - repeat apply sc_Ema; auto.
Qed.
Lemma sc_Tema k t (c : expr I R) : escalI (sc k) c -> escalI (sc k) (trend_Tema_Compute t c).
Proof.
  intros. unfold trend_Tema_Compute. apply sc_Add; [apply sc_Subtract|].
  - apply sc_MultiplyBy. repeat apply sc_skip. apply sc_Ema; auto.
  - apply sc_MultiplyBy. repeat apply sc_skip. repeat apply sc_Ema; auto.
  - repeat apply sc_Ema; auto.
Qed.
Lemma sc_Apo k a (c : expr I R) : escalI (sc k) c -> escalI (sc k) (trend_Apo_Compute a c).
Proof.
  intros. unfold trend_Apo_Compute. apply sc_Subtract; apply sc_Ema; apply sc_buf; auto.
Qed.
Lemma sc_WeightedClose k w (h l c : expr I R) :
  escalI (sc k) h -> escalI (sc k) l -> escalI (sc k) c -> escalI (sc k) (trend_WeightedClose_Compute w h l c).
Proof. intros. unfold trend_WeightedClose_Compute. eapply sc_op3; eauto. intros; sc_arith. Qed.
Lemma sc_AwesomeOscillator k a (h l : expr I R) :
  escalI (sc k) h -> escalI (sc k) l -> escalI (sc k) (momentum_AwesomeOscillator_Compute a h l).
Proof.
  intros. unfold momentum_AwesomeOscillator_Compute.
  assert (escalI (sc k) (helper_DivideBy (helper_Add h l) (nofZ 2))) by (apply sc_DivideBy; apply sc_Add; auto).
  apply sc_Subtract; [apply sc_skip|]; apply sc_Sma; auto.
Qed.
Lemma sc_Bollinger_upper k b (c : expr I R) : 0 <= k -> escalI (sc k) c ->
  escalI (sc k) (fst (fst (volatility_BollingerBands_Compute b c))).
Proof.
  intros. unfold volatility_BollingerBands_Compute; simpl. apply sc_Add.
  apply sc_Sma; auto. apply sc_MultiplyBy. apply sc_MovingStd; auto.
Qed.
Lemma sc_Bollinger_middle k b (c : expr I R) : escalI (sc k) c ->
  escalI (sc k) (snd (fst (volatility_BollingerBands_Compute b c))).
Proof. intros. unfold volatility_BollingerBands_Compute; simpl. apply sc_Sma; auto. Qed.
Lemma sc_Bollinger_lower k b (c : expr I R) : 0 <= k -> escalI (sc k) c ->
  escalI (sc k) (snd (volatility_BollingerBands_Compute b c)).
Proof.
  intros. unfold volatility_BollingerBands_Compute; simpl. apply sc_Subtract.
  apply sc_Sma; auto. apply sc_MultiplyBy. apply sc_MovingStd; auto.
Qed.
Lemma sc_Kama k cfg (c : expr I R) : 0 < k -> escalI (sc k) c -> escalI (sc k) (trend_Kama_Compute cfg c).
Proof.
  intros Hk H. unfold trend_Kama_Compute.
  eapply sc_kama with (RS := eq).
  - apply sc_skip; auto.
  - unfold helper_Pow, helper_IncrementBy, helper_MultiplyBy. do 3 apply eq_map.
    apply sc_Divide with (k := k). lra.
    + apply sc_Abs. lra. apply sc_Change; auto.
    + apply sc_MovingSum. apply sc_Abs. lra. apply sc_Change; auto.
  - reflexivity.
  - intros; sc_arith.
Qed.
(* price * volume over volume: degree 1 in the price unit, 0 in the volume unit *)
Lemma sc_Vwap l m cfg (c v : expr I R) : m <> 0 -> escalI (sc l) c -> escalI (sc m) v ->
  escalI (sc l) (volume_Vwap_Compute cfg c v).
Proof.
  intros. unfold volume_Vwap_Compute. apply sc_Divide2 with (m := m); auto; apply sc_MovingSum; auto.
  apply sc_Multiply; auto.
Qed.
Lemma sc_Vwma l m cfg (c v : expr I R) : m <> 0 -> escalI (sc l) c -> escalI (sc m) v ->
  escalI (sc l) (trend_Vwma_Compute cfg c v).
Proof.
  intros. unfold trend_Vwma_Compute. apply sc_Divide2 with (m := m); auto; apply sc_MovingSum; auto.
  apply sc_Multiply; auto.
Qed.
(* money flow volume / accumulation-distribution: degree 0 in the price unit, 1 in the volume unit *)
Lemma sc_Mfv l m cfg (h lo c v : expr I R) : l <> 0 ->
  escalI (sc l) h -> escalI (sc l) lo -> escalI (sc l) c -> escalI (sc m) v ->
  escalI (sc m) (volume_Mfv_Compute cfg h lo c v).
Proof.
  intros. unfold volume_Mfv_Compute. apply sc_Multiply_eq_l; auto. apply sc_Mfm with (k := l); auto.
Qed.
Lemma sc_Ad l m cfg (h lo c v : expr I R) : l <> 0 ->
  escalI (sc l) h -> escalI (sc l) lo -> escalI (sc l) c -> escalI (sc m) v ->
  escalI (sc m) (volume_Ad_Compute cfg h lo c v).
Proof.
  intros. unfold volume_Ad_Compute. eapply sc_mapst with (RS := sc m).
  - apply sc_Mfv with (l := l); eauto.
  - sc_arith.
  - intros; split; sc_arith.
Qed.

End Instances.

Ltac in_tac := match goal with |- escal ?RI _ (EIn ?k) => exact (sc_in RI k) end.

(* ---- final statements: one input series scaled by lambda ---- *)
Lemma hom_single (F : expr R R) k k' : escal (fun _ => sc k) (sc k') F ->
  forall xs, sem F [map (Rmult k) xs] = map (Rmult k') (sem F [xs]).
Proof.
  intros H xs. apply F2_sc_map. apply (escal_sound H). apply env_rel_uniform. constructor; auto. apply map_F2_sc.
Qed.
Lemma inv_single (F : expr R R) k : escal (fun _ => sc k) eq F ->
  forall xs, sem F [map (Rmult k) xs] = sem F [xs].
Proof.
  intros H xs. apply F2_eq. apply (escal_sound H). apply env_rel_uniform. constructor; auto. apply map_F2_sc.
Qed.

Theorem C18_Sma : forall cfg lambda xs, 0 < lambda ->
  sem (trend_Sma_Compute (T:=R) cfg (EIn 0)) [map (Rmult lambda) xs]
  = map (Rmult (lambda ^ 1)) (sem (trend_Sma_Compute (T:=R) cfg (EIn 0)) [xs]).
Proof. intros. rewrite pow_1. apply hom_single. apply sc_Sma. in_tac. Qed.
Theorem C18_Ema : forall cfg lambda xs, 0 < lambda ->
  sem (trend_Ema_Compute (T:=R) cfg (EIn 0)) [map (Rmult lambda) xs]
  = map (Rmult (lambda ^ 1)) (sem (trend_Ema_Compute (T:=R) cfg (EIn 0)) [xs]).
Proof. intros. rewrite pow_1. apply hom_single. apply sc_Ema. in_tac. Qed.
Theorem C18_Rma : forall cfg lambda xs, 0 < lambda ->
  sem (trend_Rma_Compute (T:=R) cfg (EIn 0)) [map (Rmult lambda) xs]
  = map (Rmult (lambda ^ 1)) (sem (trend_Rma_Compute (T:=R) cfg (EIn 0)) [xs]).
Proof. intros. rewrite pow_1. apply hom_single. apply sc_Rma. in_tac. Qed.
Theorem C18_MovingSum : forall cfg lambda xs, 0 < lambda ->
  sem (trend_MovingSum_Compute (T:=R) cfg (EIn 0)) [map (Rmult lambda) xs]
  = map (Rmult (lambda ^ 1)) (sem (trend_MovingSum_Compute (T:=R) cfg (EIn 0)) [xs]).
Proof. intros. rewrite pow_1. apply hom_single. apply sc_MovingSum. in_tac. Qed.
Theorem C18_Macd_macd : forall cfg lambda xs, 0 < lambda ->
  sem (fst (trend_Macd_Compute (T:=R) cfg (EIn 0))) [map (Rmult lambda) xs]
  = map (Rmult (lambda ^ 1)) (sem (fst (trend_Macd_Compute (T:=R) cfg (EIn 0))) [xs]).
Proof. intros. rewrite pow_1. apply hom_single. apply sc_Macd_fst. in_tac. Qed.
Theorem C18_Macd_signal : forall cfg lambda xs, 0 < lambda ->
  sem (snd (trend_Macd_Compute (T:=R) cfg (EIn 0))) [map (Rmult lambda) xs]
  = map (Rmult (lambda ^ 1)) (sem (snd (trend_Macd_Compute (T:=R) cfg (EIn 0))) [xs]).
Proof. intros. rewrite pow_1. apply hom_single. apply sc_Macd_snd. in_tac. Qed.
Theorem C18_Rsi : forall cfg lambda xs, 0 < lambda ->
  sem (momentum_Rsi_Compute (T:=R) cfg (EIn 0)) [map (Rmult lambda) xs]
  = sem (momentum_Rsi_Compute (T:=R) cfg (EIn 0)) [xs].
Proof. intros. apply inv_single. apply sc_Rsi with (k := lambda); auto. in_tac. Qed.
Theorem C18_Ppo_ppo : forall cfg lambda xs, 0 < lambda ->
  sem (fst (fst (momentum_Ppo_Compute (T:=R) cfg (EIn 0)))) [map (Rmult lambda) xs]
  = sem (fst (fst (momentum_Ppo_Compute (T:=R) cfg (EIn 0)))) [xs].
Proof. intros. apply inv_single. apply sc_Ppo_ppo with (k := lambda). lra. in_tac. Qed.
Theorem C18_Ppo_signal : forall cfg lambda xs, 0 < lambda ->
  sem (snd (fst (momentum_Ppo_Compute (T:=R) cfg (EIn 0)))) [map (Rmult lambda) xs]
  = sem (snd (fst (momentum_Ppo_Compute (T:=R) cfg (EIn 0)))) [xs].
Proof. intros. apply inv_single. apply sc_Ppo_signal with (k := lambda). lra. in_tac. Qed.
Theorem C18_Ppo_histogram : forall cfg lambda xs, 0 < lambda ->
  sem (snd (momentum_Ppo_Compute (T:=R) cfg (EIn 0))) [map (Rmult lambda) xs]
  = sem (snd (momentum_Ppo_Compute (T:=R) cfg (EIn 0))) [xs].
Proof. intros. apply inv_single. apply sc_Ppo_histogram with (k := lambda). lra. in_tac. Qed.

(* ---- several input series, all scaled by lambda ---- *)
Lemma F2_env_scale k : forall env : list (list R), Forall2 (Forall2 (sc k)) env (map (map (Rmult k)) env).
Proof. induction env; simpl; constructor; auto. apply map_F2_sc. Qed.
Lemma hom_multi (F : expr R R) k k' : escal (fun _ => sc k) (sc k') F ->
  forall env, sem F (map (map (Rmult k)) env) = map (Rmult k') (sem F env).
Proof. intros H env. apply F2_sc_map. apply (escal_sound H). apply env_rel_uniform. apply F2_env_scale. Qed.
Lemma inv_multi (F : expr R R) k : escal (fun _ => sc k) eq F ->
  forall env, sem F (map (map (Rmult k)) env) = sem F env.
Proof. intros H env. apply F2_eq. apply (escal_sound H). apply env_rel_uniform. apply F2_env_scale. Qed.

Theorem C18_TypicalPrice : forall cfg lambda hs ls cs, 0 < lambda ->
  sem (trend_TypicalPrice_Compute (T:=R) cfg (EIn 0) (EIn 1) (EIn 2))
      [map (Rmult lambda) hs; map (Rmult lambda) ls; map (Rmult lambda) cs]
  = map (Rmult (lambda ^ 1)) (sem (trend_TypicalPrice_Compute (T:=R) cfg (EIn 0) (EIn 1) (EIn 2)) [hs; ls; cs]).
Proof.
  intros. rewrite pow_1. apply (@hom_multi _ lambda lambda) with (env := [hs; ls; cs]).
  apply sc_TypicalPrice; in_tac.
Qed.
Theorem C18_Qstick : forall cfg lambda os cs, 0 < lambda ->
  sem (momentum_Qstick_Compute (T:=R) cfg (EIn 0) (EIn 1)) [map (Rmult lambda) os; map (Rmult lambda) cs]
  = map (Rmult (lambda ^ 1)) (sem (momentum_Qstick_Compute (T:=R) cfg (EIn 0) (EIn 1)) [os; cs]).
Proof.
  intros. rewrite pow_1. apply (@hom_multi _ lambda lambda) with (env := [os; cs]).
  apply sc_Qstick; in_tac.
Qed.
Theorem C18_Bop : forall cfg lambda os hs ls cs, 0 < lambda ->
  sem (trend_Bop_Compute (T:=R) cfg (EIn 0) (EIn 1) (EIn 2) (EIn 3))
      [map (Rmult lambda) os; map (Rmult lambda) hs; map (Rmult lambda) ls; map (Rmult lambda) cs]
  = sem (trend_Bop_Compute (T:=R) cfg (EIn 0) (EIn 1) (EIn 2) (EIn 3)) [os; hs; ls; cs].
Proof.
  intros. apply (@inv_multi _ lambda) with (env := [os; hs; ls; cs]).
  apply sc_Bop with (k := lambda); try in_tac. lra.
Qed.
Theorem C18_Mfm : forall cfg lambda hs ls cs, 0 < lambda ->
  sem (volume_Mfm_Compute (T:=R) cfg (EIn 0) (EIn 1) (EIn 2))
      [map (Rmult lambda) hs; map (Rmult lambda) ls; map (Rmult lambda) cs]
  = sem (volume_Mfm_Compute (T:=R) cfg (EIn 0) (EIn 1) (EIn 2)) [hs; ls; cs].
Proof.
  intros. apply (@inv_multi _ lambda) with (env := [hs; ls; cs]).
  apply sc_Mfm with (k := lambda); try in_tac. lra.
Qed.

(* ---- strategies: snapshots with prices scaled by lambda and volumes by mu ---- *)
Definition scale_snap (lambda mu : R) (s : asset_Snapshot (T:=R)) : asset_Snapshot (T:=R) :=
  mk_asset_Snapshot (asset_Snapshot_Date s)
    (lambda * asset_Snapshot_Open s) (lambda * asset_Snapshot_High s) (lambda * asset_Snapshot_Low s)
    (lambda * asset_Snapshot_Close s) (mu * asset_Snapshot_Volume s).
Definition snap_sc (lambda mu : R) (s1 s2 : asset_Snapshot (T:=R)) : Prop := s2 = scale_snap lambda mu s1.

Lemma map_F2_snap l m : forall ss, Forall2 (snap_sc l m) ss (map (scale_snap l m) ss).
Proof. induction ss; simpl; constructor; auto. reflexivity. Qed.

Lemma sc_Closings RI l m (e : expr (asset_Snapshot (T:=R)) (asset_Snapshot (T:=R))) :
  escal RI (snap_sc l m) e -> escal RI (sc l) (asset_SnapshotsAsClosings e).
Proof.
  intros. unfold asset_SnapshotsAsClosings. eapply sc_map; eauto.
  intros a b Hab. unfold snap_sc in Hab; subst. reflexivity.
Qed.

Lemma inv_strategy (F : expr (asset_Snapshot (T:=R)) Z) l m : escal (fun _ => snap_sc l m) eq F ->
  forall ss, sem F [map (scale_snap l m) ss] = sem F [ss].
Proof.
  intros H ss. apply F2_eq. apply (escal_sound H). apply env_rel_uniform. constructor; auto. apply map_F2_snap.
Qed.

Theorem C18_MacdStrategy : forall cfg lambda mu ss, 0 < lambda ->
  sem (strategy_trend_MacdStrategy_Compute (T:=R) cfg (EIn 0)) [map (scale_snap lambda mu) ss]
  = sem (strategy_trend_MacdStrategy_Compute (T:=R) cfg (EIn 0)) [ss].
Proof.
  intros cfg l m ss Hl. apply inv_strategy.
  assert (Hc : escal (fun _ => snap_sc l m) (sc l) (asset_SnapshotsAsClosings (EIn 0)))
    by (apply sc_Closings with (m := m); in_tac).
  pose proof (sc_Macd_fst (strategy_trend_MacdStrategy_Macd cfg) Hc) as H1.
  pose proof (sc_Macd_snd (strategy_trend_MacdStrategy_Macd cfg) Hc) as H2.
  unfold strategy_trend_MacdStrategy_Compute.
  destruct (trend_Macd_Compute (strategy_trend_MacdStrategy_Macd cfg) (asset_SnapshotsAsClosings (EIn 0))) as [macds signals].
  simpl in H1, H2. apply sc_shift; auto.
  eapply sc_op2; eauto.
  intros x x' y y' Hx Hy. unfold sc in Hx, Hy. subst. unfold ngtb. simpl.
  rewrite !Rltb_scale, Rltb_scale_0r, Rltb_scale_0l; auto.
Qed.

Theorem C18_RsiStrategy : forall cfg lambda mu ss, 0 < lambda ->
  sem (strategy_momentum_RsiStrategy_Compute (T:=R) cfg (EIn 0)) [map (scale_snap lambda mu) ss]
  = sem (strategy_momentum_RsiStrategy_Compute (T:=R) cfg (EIn 0)) [ss].
Proof.
  intros cfg l m ss Hl. apply inv_strategy.
  unfold strategy_momentum_RsiStrategy_Compute. apply sc_shift; auto.
  apply eq_map. apply sc_Rsi with (k := l); auto. apply sc_Closings with (m := m); in_tac.
Qed.


(* ---- further indicators (beyond the required list) ---- *)
Theorem C18_Smma : forall cfg lambda xs, 0 < lambda ->
  sem (trend_Smma_Compute (T:=R) cfg (EIn 0)) [map (Rmult lambda) xs]
  = map (Rmult (lambda ^ 1)) (sem (trend_Smma_Compute (T:=R) cfg (EIn 0)) [xs]).
Proof. intros. rewrite pow_1. apply hom_single. apply sc_Smma; in_tac. Qed.
Theorem C18_Dema : forall cfg lambda xs, 0 < lambda ->
  sem (trend_Dema_Compute (T:=R) cfg (EIn 0)) [map (Rmult lambda) xs]
  = map (Rmult (lambda ^ 1)) (sem (trend_Dema_Compute (T:=R) cfg (EIn 0)) [xs]).
Proof. intros. rewrite pow_1. apply hom_single. apply sc_Dema; in_tac. Qed.
Theorem C18_Tema : forall cfg lambda xs, 0 < lambda ->
  sem (trend_Tema_Compute (T:=R) cfg (EIn 0)) [map (Rmult lambda) xs]
  = map (Rmult (lambda ^ 1)) (sem (trend_Tema_Compute (T:=R) cfg (EIn 0)) [xs]).
Proof. intros. rewrite pow_1. apply hom_single. apply sc_Tema; in_tac. Qed.
Theorem C18_Apo : forall cfg lambda xs, 0 < lambda ->
  sem (trend_Apo_Compute (T:=R) cfg (EIn 0)) [map (Rmult lambda) xs]
  = map (Rmult (lambda ^ 1)) (sem (trend_Apo_Compute (T:=R) cfg (EIn 0)) [xs]).
Proof. intros. rewrite pow_1. apply hom_single. apply sc_Apo; in_tac. Qed.
Theorem C18_MovingStd : forall cfg lambda xs, 0 < lambda ->
  sem (volatility_MovingStd_Compute (T:=R) cfg (EIn 0)) [map (Rmult lambda) xs]
  = map (Rmult (lambda ^ 1)) (sem (volatility_MovingStd_Compute (T:=R) cfg (EIn 0)) [xs]).
Proof. intros. rewrite pow_1. apply hom_single. apply sc_MovingStd; try lra; in_tac. Qed.
Theorem C18_Kama : forall cfg lambda xs, 0 < lambda ->
  sem (trend_Kama_Compute (T:=R) cfg (EIn 0)) [map (Rmult lambda) xs]
  = map (Rmult (lambda ^ 1)) (sem (trend_Kama_Compute (T:=R) cfg (EIn 0)) [xs]).
Proof. intros. rewrite pow_1. apply hom_single. apply sc_Kama; try lra; in_tac. Qed.
Theorem C18_Bollinger_upper : forall cfg lambda xs, 0 < lambda ->
  sem (fst (fst (volatility_BollingerBands_Compute (T:=R) cfg (EIn 0)))) [map (Rmult lambda) xs]
  = map (Rmult (lambda ^ 1)) (sem (fst (fst (volatility_BollingerBands_Compute (T:=R) cfg (EIn 0)))) [xs]).
Proof. intros. rewrite pow_1. apply hom_single. apply sc_Bollinger_upper; try lra; in_tac. Qed.
Theorem C18_Bollinger_middle : forall cfg lambda xs, 0 < lambda ->
  sem (snd (fst (volatility_BollingerBands_Compute (T:=R) cfg (EIn 0)))) [map (Rmult lambda) xs]
  = map (Rmult (lambda ^ 1)) (sem (snd (fst (volatility_BollingerBands_Compute (T:=R) cfg (EIn 0)))) [xs]).
Proof. intros. rewrite pow_1. apply hom_single. apply sc_Bollinger_middle; in_tac. Qed.
Theorem C18_Bollinger_lower : forall cfg lambda xs, 0 < lambda ->
  sem (snd (volatility_BollingerBands_Compute (T:=R) cfg (EIn 0))) [map (Rmult lambda) xs]
  = map (Rmult (lambda ^ 1)) (sem (snd (volatility_BollingerBands_Compute (T:=R) cfg (EIn 0))) [xs]).
Proof. intros. rewrite pow_1. apply hom_single. apply sc_Bollinger_lower; try lra; in_tac. Qed.
Theorem C18_WeightedClose : forall cfg lambda hs ls cs, 0 < lambda ->
  sem (trend_WeightedClose_Compute (T:=R) cfg (EIn 0) (EIn 1) (EIn 2))
      [map (Rmult lambda) hs; map (Rmult lambda) ls; map (Rmult lambda) cs]
  = map (Rmult (lambda ^ 1)) (sem (trend_WeightedClose_Compute (T:=R) cfg (EIn 0) (EIn 1) (EIn 2)) [hs; ls; cs]).
Proof.
  intros. rewrite pow_1. apply (@hom_multi _ lambda lambda) with (env := [hs; ls; cs]).
  apply sc_WeightedClose; in_tac.
Qed.
Theorem C18_AwesomeOscillator : forall cfg lambda hs ls, 0 < lambda ->
  sem (momentum_AwesomeOscillator_Compute (T:=R) cfg (EIn 0) (EIn 1)) [map (Rmult lambda) hs; map (Rmult lambda) ls]
  = map (Rmult (lambda ^ 1)) (sem (momentum_AwesomeOscillator_Compute (T:=R) cfg (EIn 0) (EIn 1)) [hs; ls]).
Proof.
  intros. rewrite pow_1. apply (@hom_multi _ lambda lambda) with (env := [hs; ls]).
  apply sc_AwesomeOscillator; in_tac.
Qed.

(* ---- prices scaled by lambda AND volumes scaled by mu (inputs related by different factors) ---- *)
Ltac env_tac := intros k; do 6 (try destruct k as [|k]); simpl; auto using map_F2_sc.

Theorem C18_Vwap : forall cfg lambda mu cs vs, 0 < lambda -> 0 < mu ->
  sem (volume_Vwap_Compute (T:=R) cfg (EIn 0) (EIn 1)) [map (Rmult lambda) cs; map (Rmult mu) vs]
  = map (Rmult (lambda ^ 1)) (sem (volume_Vwap_Compute (T:=R) cfg (EIn 0) (EIn 1)) [cs; vs]).
Proof.
  intros cfg l m cs vs Hl Hm. rewrite pow_1. apply F2_sc_map.
  apply escal_sound with (RI := fun k => match k with O => sc l | _ => sc m end).
  - apply sc_Vwap with (m := m); try in_tac. lra.
  - env_tac.
Qed.
Theorem C18_Vwma : forall cfg lambda mu cs vs, 0 < lambda -> 0 < mu ->
  sem (trend_Vwma_Compute (T:=R) cfg (EIn 0) (EIn 1)) [map (Rmult lambda) cs; map (Rmult mu) vs]
  = map (Rmult (lambda ^ 1)) (sem (trend_Vwma_Compute (T:=R) cfg (EIn 0) (EIn 1)) [cs; vs]).
Proof.
  intros cfg l m cs vs Hl Hm. rewrite pow_1. apply F2_sc_map.
  apply escal_sound with (RI := fun k => match k with O => sc l | _ => sc m end).
  - apply sc_Vwma with (m := m); try in_tac. lra.
  - env_tac.
Qed.
Theorem C18_Mfv : forall cfg lambda mu hs ls cs vs, 0 < lambda -> 0 < mu ->
  sem (volume_Mfv_Compute (T:=R) cfg (EIn 0) (EIn 1) (EIn 2) (EIn 3))
      [map (Rmult lambda) hs; map (Rmult lambda) ls; map (Rmult lambda) cs; map (Rmult mu) vs]
  = map (Rmult (lambda ^ 0 * mu ^ 1)) (sem (volume_Mfv_Compute (T:=R) cfg (EIn 0) (EIn 1) (EIn 2) (EIn 3)) [hs; ls; cs; vs]).
Proof.
  intros cfg l m hs ls cs vs Hl Hm. replace (l ^ 0 * m ^ 1) with m by (simpl; ring). apply F2_sc_map.
  apply escal_sound with (RI := fun k => match k with 3%nat => sc m | _ => sc l end).
  - apply sc_Mfv with (l := l); try in_tac. lra.
  - env_tac.
Qed.
Theorem C18_Ad : forall cfg lambda mu hs ls cs vs, 0 < lambda -> 0 < mu ->
  sem (volume_Ad_Compute (T:=R) cfg (EIn 0) (EIn 1) (EIn 2) (EIn 3))
      [map (Rmult lambda) hs; map (Rmult lambda) ls; map (Rmult lambda) cs; map (Rmult mu) vs]
  = map (Rmult (lambda ^ 0 * mu ^ 1)) (sem (volume_Ad_Compute (T:=R) cfg (EIn 0) (EIn 1) (EIn 2) (EIn 3)) [hs; ls; cs; vs]).
Proof.
  intros cfg l m hs ls cs vs Hl Hm. replace (l ^ 0 * m ^ 1) with m by (simpl; ring). apply F2_sc_map.
  apply escal_sound with (RI := fun k => match k with 3%nat => sc m | _ => sc l end).
  - apply sc_Ad with (l := l); try in_tac. lra.
  - env_tac.
Qed.

(* ========================================================================================== *)
(* Part 3: a documented failure.  volume.Obv compares the closing PRICE with the running VOLUME sum (its
   captured variable `previous` holds the last OBV value, not the last closing), so rescaling the prices
   changes the result in a way no factor accounts for. *)

Lemma Rltb_t a b : a < b -> Rltb a b = true.
Proof. intros; now apply Rltb_true. Qed.
Lemma Rltb_f a b : b <= a -> Rltb a b = false.
Proof. intros; now apply Rltb_false. Qed.

Ltac eval_Rltb :=
  repeat (match goal with
          | H : context [Rltb ?a ?b] |- _ =>
              first [rewrite (@Rltb_t a b) in H by lra | rewrite (@Rltb_f a b) in H by lra]
          end; cbn in *).

Theorem obv_not_homogeneous :
  ~ (forall (lambda : R) (cs vs : list R), 0 < lambda -> exists k : R,
       sem (volume_Obv_Compute (T:=R) mk_volume_Obv (EIn 0) (EIn 1)) [map (Rmult lambda) cs; vs]
       = map (Rmult k) (sem (volume_Obv_Compute (T:=R) mk_volume_Obv (EIn 0) (EIn 1)) [cs; vs])).
Proof.
  intros H. destruct (H 2 [1; 2] [3; 1]) as [k Hk]; [lra|].
  unfold volume_Obv_Compute, ngtb in Hk. cbn in Hk. eval_Rltb.
  injection Hk as H1 H2. lra.
Qed.

Print Assumptions escal_sound.
Print Assumptions C18_Sma.
Print Assumptions C18_Rsi.
Print Assumptions C18_MacdStrategy.
Print Assumptions C18_RsiStrategy.
Print Assumptions C18_MovingStd.
Print Assumptions obv_not_homogeneous.
