(* C03: the two indicators of cinar/indicator that rely on explicit buffering to re-join a lagging branch (trend/dema.go,
   trend/apo.go), as pipelines over the helper processes.  An EMA is represented by its channel behaviour: it consumes
   `period` values before it emits its first one and then emits one value per value consumed, on a channel with the
   capacity of its input, which is what Skip(period-1) does (the values differ, the blocking behaviour does not).
   For every size in the stated grids one run of the network is evaluated by vm_compute and lifted by
   clean_run_means_never_deadlocks: for those sizes EVERY schedule ends with all processes halted.  The grids bound the
   sizes (periods, input length, input capacity), not the schedules. *)
From Coq Require Import List Arith Bool Lia.
Import ListNotations.
From Verif Require Import Kahn.Kahn Kahn.Helpers Kahn.HelpersProofs.

(* trend.Dema: ema1 := Duplicate(Ema1(c), 2); ema2 := Ema2(ema1[1]); Subtract(Buffered(MultiplyBy(ema1[0], 2), bufsize), ema2)
   channels: 0 input, 1 Ema1 out, 2/3 duplicate outs, 4 MultiplyBy out, 5 Buffered out, 6 Ema2 out, 7 result *)
Definition dema_desc (p1 p2 bufsize n k : nat) : desc :=
  mk_desc [NSource 0 (seq 1 n); NSkip 0 1 (p1 - 1); NDup 1 [2; 3]; NMap 2 4; NBuffered 4 5; NSkip 3 6 (p2 - 1); NOperate 5 6 7; NSink 7]
          [k; k; k; k; 0; bufsize; k; 0].

(* trend.Apo: c := Buffered(c, slow); cs := Duplicate(c, 2); Subtract(FastEma(cs[0]), SlowEma(cs[1]))
   channels: 0 input, 1 Buffered out (capacity slow), 2/3 duplicate outs (capacity slow), 4 fast EMA out, 5 slow EMA out, 6 result *)
Definition apo_desc (fast slow n k : nat) : desc :=
  mk_desc [NSource 0 (seq 1 n); NBuffered 0 1; NDup 1 [2; 3]; NSkip 2 4 (fast - 1); NSkip 3 5 (slow - 1); NOperate 4 5 6; NSink 6]
          [k; slow; slow; slow; slow; slow; 0].

Definition clean (d : desc) (fuel : nat) : bool :=
  wellformed d && caps_ok d && (let t := run fuel (build d) in terminalb t && no_leak t).

Definition grid4 (a b c d : list nat) : list (nat * nat * nat * nat) :=
  flat_map (fun x => flat_map (fun y => flat_map (fun z => map (fun w => (x, y, z, w)) d) c) b) a.

Definition dema_grid := grid4 [1; 2; 3; 5; 8] [1; 2; 3; 5; 8; 13] [0; 1; 2; 7; 20; 45] [0; 1; 4].
(* admissible configurations: the fast period does not exceed the slow one (Spec/Admissible.v) *)
Definition apo_grid := filter (fun '(f, s, _, _) => Nat.leb f s) (grid4 [1; 2; 3; 5; 8] [1; 2; 5; 8; 13] [0; 1; 2; 7; 20; 45] [0; 1; 4]).

Lemma dema_sweep : forallb (fun '(p1, p2, n, k) => clean (dema_desc p1 p2 p2 n k) 4000) dema_grid = true.
Proof. vm_compute. reflexivity. Qed.

Lemma apo_sweep : forallb (fun '(f, s, n, k) => clean (apo_desc f s n k) 4000) apo_grid = true.
Proof. vm_compute. reflexivity. Qed.

Lemma clean_all_schedules d fuel : clean d fuel = true ->
  forall l' t', exec (build d) l' t' -> terminal t' -> all_halted t' /\ ~ deadlocked t'.
Proof.
  unfold clean. intros H.
  apply andb_true_iff in H. destruct H as [H Hrun].
  apply andb_true_iff in H. destruct H as [Hwf _].
  apply andb_true_iff in Hrun. destruct Hrun as [Hterm Hleak].
  exact (proj1 (clean_run_means_never_deadlocks d fuel Hwf Hterm Hleak)).
Qed.

(* Dema with the buffer the code gives it (Ema2.Period), for every size of the grid and EVERY schedule *)
Theorem dema_never_deadlocks_on_grid : forall p1 p2 n k, In (p1, p2, n, k) dema_grid ->
  forall l' t', exec (build (dema_desc p1 p2 p2 n k)) l' t' -> terminal t' -> all_halted t' /\ ~ deadlocked t'.
Proof.
  intros p1 p2 n k Hin. apply (clean_all_schedules (dema_desc p1 p2 p2 n k) 4000).
  pose proof dema_sweep as S. rewrite forallb_forall in S. exact (S _ Hin).
Qed.

Theorem apo_never_deadlocks_on_grid : forall f s n k, In (f, s, n, k) apo_grid ->
  forall l' t', exec (build (apo_desc f s n k)) l' t' -> terminal t' -> all_halted t' /\ ~ deadlocked t'.
Proof.
  intros f s n k Hin. apply (clean_all_schedules (apo_desc f s n k) 4000).
  pose proof apo_sweep as S. rewrite forallb_forall in S. exact (S _ Hin).
Qed.

(* the buffer matters: sized from the other EMA (what seeded change C03-A does) Dema deadlocks, for every schedule *)
Example dema_wrong_buffer_deadlocks : deadlockedb (run 4000 (build (dema_desc 2 13 2 45 0))) = true.
Proof. vm_compute. reflexivity. Qed.

Theorem dema_wrong_buffer_always_deadlocks : forall l' t',
  exec (build (dema_desc 2 13 2 45 0)) l' t' -> terminal t' -> deadlocked t'.
Proof.
  intros l' t' E T.
  assert (Hwf : wellformed (dema_desc 2 13 2 45 0) = true) by (vm_compute; reflexivity).
  exact (proj1 (deadlocked_run_means_always_deadlocks (dema_desc 2 13 2 45 0) 4000 Hwf dema_wrong_buffer_deadlocks l' t' E T)).
Qed.

(* why admissibility asks for fast <= slow: the buffer is sized from the slow period, the lag comes from the fast one *)
Example apo_fast_slower_deadlocks : deadlockedb (run 4000 (build (apo_desc 8 1 20 0))) = true.
Proof. vm_compute. reflexivity. Qed.

Theorem apo_fast_slower_always_deadlocks : forall l' t',
  exec (build (apo_desc 8 1 20 0)) l' t' -> terminal t' -> deadlocked t'.
Proof.
  intros l' t' E T.
  assert (Hwf : wellformed (apo_desc 8 1 20 0) = true) by (vm_compute; reflexivity).
  exact (proj1 (deadlocked_run_means_always_deadlocks (apo_desc 8 1 20 0) 4000 Hwf apo_fast_slower_deadlocks l' t' E T)).
Qed.

Print Assumptions dema_never_deadlocks_on_grid.
Print Assumptions apo_never_deadlocks_on_grid.
Print Assumptions dema_wrong_buffer_always_deadlocks.
