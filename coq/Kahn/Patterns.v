(* C03: pipelines of whole indicators as networks. First the two indicators of cinar/indicator that rely on explicit buffering to re-join a lagging branch (trend/dema.go,
   trend/apo.go), as pipelines over the helper processes.  An EMA is represented by its channel behaviour: it consumes
   `period` values before it emits its first one and then emits one value per value consumed, on a channel with the
   capacity of its input, which is what Skip(period-1) does (the values differ, the blocking behaviour does not).
   For every size in the stated grids one run of the network is evaluated by vm_compute and lifted by
   clean_run_means_never_deadlocks: for those sizes EVERY schedule ends with all processes halted.  The grids bound the
   sizes (periods, input length, input capacity), not the schedules. *)
From Coq Require Import List Arith Bool Lia.
Import ListNotations.
From Verif Require Import Kahn.Kahn Kahn.Helpers Kahn.HelpersProofs.

(* trend.Dema: ema1 := Duplicate(Ema1(c), 2); ema2 := Ema2(ema1[1]); Subtract(Buffered(MultiplyBy(ema1[0], 2), bufsize), ema2)
   channels: 0 input, 1 Ema1 out, 2/3 duplicate outs, 4 MultiplyBy out, 5 Buffered out, 6 Ema2 out, 7 result *)
Definition dema_desc (p1 p2 bufsize n k : nat) : desc :=
  mk_desc [NSource 0 (seq 1 n); NSkip 0 1 (p1 - 1); NDup 1 [2; 3]; NMap 2 4; NBuffered 4 5; NSkip 3 6 (p2 - 1); NOperate 5 6 7; NSink 7]
          [k; k; k; k; 0; bufsize; k; 0].

(* trend.Apo: c := Buffered(c, slow); cs := Duplicate(c, 2); Subtract(FastEma(cs[0]), SlowEma(cs[1]))
   channels: 0 input, 1 Buffered out (capacity slow), 2/3 duplicate outs (capacity slow), 4 fast EMA out, 5 slow EMA out, 6 result *)
Definition apo_desc (fast slow n k : nat) : desc :=
  mk_desc [NSource 0 (seq 1 n); NBuffered 0 1; NDup 1 [2; 3]; NSkip 2 4 (fast - 1); NSkip 3 5 (slow - 1); NOperate 4 5 6; NSink 6]
          [k; slow; slow; slow; slow; slow; 0].

Definition clean (d : desc) (fuel : nat) : bool :=
  wellformed d && caps_ok d && (let t := run fuel (build d) in terminalb t && no_leak t).

Definition grid4 (a b c d : list nat) : list (nat * nat * nat * nat) :=
  flat_map (fun x => flat_map (fun y => flat_map (fun z => map (fun w => (x, y, z, w)) d) c) b) a.

Definition dema_grid := grid4 [1; 2; 3; 5; 8] [1; 2; 3; 5; 8; 13] [0; 1; 2; 7; 20; 45] [0; 1; 4].
(* admissible configurations: the fast period does not exceed the slow one (Spec/Admissible.v) *)
Definition apo_grid := filter (fun '(f, s, _, _) => Nat.leb f s) (grid4 [1; 2; 3; 5; 8] [1; 2; 5; 8; 13] [0; 1; 2; 7; 20; 45] [0; 1; 4]).

Lemma dema_sweep : forallb (fun '(p1, p2, n, k) => clean (dema_desc p1 p2 p2 n k) 4000) dema_grid = true.
Proof. vm_compute. reflexivity. Qed.

Lemma apo_sweep : forallb (fun '(f, s, n, k) => clean (apo_desc f s n k) 4000) apo_grid = true.
Proof. vm_compute. reflexivity. Qed.

Lemma clean_all_schedules d fuel : clean d fuel = true ->
  forall l' t', exec (build d) l' t' -> terminal t' -> all_halted t' /\ ~ deadlocked t'.
Proof.
  unfold clean. intros H.
  apply andb_true_iff in H. destruct H as [H Hrun].
  apply andb_true_iff in H. destruct H as [Hwf _].
  apply andb_true_iff in Hrun. destruct Hrun as [Hterm Hleak].
  exact (proj1 (clean_run_means_never_deadlocks d fuel Hwf Hterm Hleak)).
Qed.

(* Dema with the buffer the code gives it (Ema2.Period), for every size of the grid and EVERY schedule *)
Theorem dema_never_deadlocks_on_grid : forall p1 p2 n k, In (p1, p2, n, k) dema_grid ->
  forall l' t', exec (build (dema_desc p1 p2 p2 n k)) l' t' -> terminal t' -> all_halted t' /\ ~ deadlocked t'.
Proof.
  intros p1 p2 n k Hin. apply (clean_all_schedules (dema_desc p1 p2 p2 n k) 4000).
  pose proof dema_sweep as S. rewrite forallb_forall in S. exact (S _ Hin).
Qed.

Theorem apo_never_deadlocks_on_grid : forall f s n k, In (f, s, n, k) apo_grid ->
  forall l' t', exec (build (apo_desc f s n k)) l' t' -> terminal t' -> all_halted t' /\ ~ deadlocked t'.
Proof.
  intros f s n k Hin. apply (clean_all_schedules (apo_desc f s n k) 4000).
  pose proof apo_sweep as S. rewrite forallb_forall in S. exact (S _ Hin).
Qed.

(* the buffer matters: sized from the other EMA (what seeded change C03-A does) Dema deadlocks, for every schedule *)
Example dema_wrong_buffer_deadlocks : deadlockedb (run 4000 (build (dema_desc 2 13 2 45 0))) = true.
Proof. vm_compute. reflexivity. Qed.

Theorem dema_wrong_buffer_always_deadlocks : forall l' t',
  exec (build (dema_desc 2 13 2 45 0)) l' t' -> terminal t' -> deadlocked t'.
Proof.
  intros l' t' E T.
  assert (Hwf : wellformed (dema_desc 2 13 2 45 0) = true) by (vm_compute; reflexivity).
  exact (proj1 (deadlocked_run_means_always_deadlocks (dema_desc 2 13 2 45 0) 4000 Hwf dema_wrong_buffer_deadlocks l' t' E T)).
Qed.

(* why admissibility asks for fast <= slow: the buffer is sized from the slow period, the lag comes from the fast one *)
Example apo_fast_slower_deadlocks : deadlockedb (run 4000 (build (apo_desc 8 1 20 0))) = true.
Proof. vm_compute. reflexivity. Qed.

Theorem apo_fast_slower_always_deadlocks : forall l' t',
  exec (build (apo_desc 8 1 20 0)) l' t' -> terminal t' -> deadlocked t'.
Proof.
  intros l' t' E T.
  assert (Hwf : wellformed (apo_desc 8 1 20 0) = true) by (vm_compute; reflexivity).
  exact (proj1 (deadlocked_run_means_always_deadlocks (apo_desc 8 1 20 0) 4000 Hwf apo_fast_slower_deadlocks l' t' E T)).
Qed.

(* ---- pipelines that consist of helper calls only: exact networks ---- *)

(* trend.MovingSum: cs := Duplicate(c, 2); Skip(Operate(cs[0], Shift(cs[1], period, 0)), period-1).
   [base] is the first free channel id; uses base .. base+4; the result is channel base+4. Capacities follow from kin = cap(c). *)
Definition moving_sum_nodes (cin base p : nat) : list node :=
  [NDup cin [base; base + 1]; NShift (base + 1) (base + 2) p 0; NOperate base (base + 2) (base + 3); NSkip (base + 3) (base + 4) (p - 1)].
Definition moving_sum_caps (kin p : nat) : list nat := [kin; kin; kin + p; 0; 0].

(* volume.Vwap: vs := Duplicate(volumes, 2); Divide(Sum(Multiply(closings, vs[0])), Sum(vs[1]))
   channels: 0 closings, 1 volumes, 2/3 duplicate outs, 4 Multiply out, 5..9 first moving sum, 10..14 second moving sum, 15 result *)
Definition vwap_desc (p nc nv k : nat) : desc :=
  mk_desc ([NSource 0 (seq 1 nc); NSource 1 (seq 1 nv); NDup 1 [2; 3]; NOperate 0 2 4]
           ++ moving_sum_nodes 4 5 p ++ moving_sum_nodes 3 10 p ++ [NOperate 9 14 15; NSink 15])
          ([k; k; k; k; 0] ++ moving_sum_caps 0 p ++ moving_sum_caps k p ++ [0]).

(* volume.Mfm: Divide(Subtract(Subtract(c0, l0), Subtract(h0, c1)), Subtract(h1, l1)) over duplicated highs, lows, closings
   channels: 0 highs, 1 lows, 2 closings, 3/4 h0 h1, 5/6 l0 l1, 7/8 c0 c1, 9 c0-l0, 10 h0-c1, 11 their difference, 12 h1-l1, 13 result *)
Definition mfm_desc (nh nl nc k : nat) : desc :=
  mk_desc [NSource 0 (seq 1 nh); NSource 1 (seq 1 nl); NSource 2 (seq 1 nc); NDup 0 [3; 4]; NDup 1 [5; 6]; NDup 2 [7; 8];
           NOperate 7 5 9; NOperate 3 8 10; NOperate 9 10 11; NOperate 4 6 12; NOperate 11 12 13; NSink 13]
          [k; k; k; k; k; k; k; k; k; 0; 0; 0; 0; 0].

Definition grid3 (a b c : list nat) : list (nat * nat * nat) :=
  flat_map (fun x => flat_map (fun y => map (fun z => (x, y, z)) c) b) a.

Lemma vwap_sweep : forallb (fun '(p, n, k) => clean (vwap_desc p n n k) 6000) (grid3 [1; 2; 3; 5; 8; 14] [0; 1; 2; 7; 20; 45] [0; 1; 4]) = true.
Proof. vm_compute. reflexivity. Qed.
Lemma mfm_sweep : forallb (fun '(n, k) => clean (mfm_desc n n n k) 6000) (list_prod [0; 1; 2; 7; 20; 45; 80] [0; 1; 4; 16]) = true.
Proof. vm_compute. reflexivity. Qed.

(* equal input lengths: every schedule completes *)
Theorem vwap_never_deadlocks_on_grid : forall p n k, In (p, n, k) (grid3 [1; 2; 3; 5; 8; 14] [0; 1; 2; 7; 20; 45] [0; 1; 4]) ->
  forall l' t', exec (build (vwap_desc p n n k)) l' t' -> terminal t' -> all_halted t' /\ ~ deadlocked t'.
Proof.
  intros p n k Hin. apply (clean_all_schedules (vwap_desc p n n k) 6000).
  pose proof vwap_sweep as S. rewrite forallb_forall in S. exact (S _ Hin).
Qed.
Theorem mfm_never_deadlocks_on_grid : forall n k, In (n, k) (list_prod [0; 1; 2; 7; 20; 45; 80] [0; 1; 4; 16]) ->
  forall l' t', exec (build (mfm_desc n n n k)) l' t' -> terminal t' -> all_halted t' /\ ~ deadlocked t'.
Proof.
  intros n k Hin. apply (clean_all_schedules (mfm_desc n n n k) 6000).
  pose proof mfm_sweep as S. rewrite forallb_forall in S. exact (S _ Hin).
Qed.

(* unequal input lengths (the open C03 findings): a deadlock under every schedule *)
Example vwap_short_closings_deadlocks : deadlockedb (run 6000 (build (vwap_desc 3 5 20 0))) = true.
Proof. vm_compute. reflexivity. Qed.
Theorem vwap_unequal_inputs_always_deadlocks : forall l' t',
  exec (build (vwap_desc 3 5 20 0)) l' t' -> terminal t' -> deadlocked t'.
Proof.
  intros l' t' E T.
  assert (Hwf : wellformed (vwap_desc 3 5 20 0) = true) by (vm_compute; reflexivity).
  exact (proj1 (deadlocked_run_means_always_deadlocks (vwap_desc 3 5 20 0) 6000 Hwf vwap_short_closings_deadlocks l' t' E T)).
Qed.
Example mfm_short_lows_deadlocks : deadlockedb (run 6000 (build (mfm_desc 38 6 38 4))) = true.
Proof. vm_compute. reflexivity. Qed.
Theorem mfm_unequal_inputs_always_deadlocks : forall l' t',
  exec (build (mfm_desc 38 6 38 4)) l' t' -> terminal t' -> deadlocked t'.
Proof.
  intros l' t' E T.
  assert (Hwf : wellformed (mfm_desc 38 6 38 4) = true) by (vm_compute; reflexivity).
  exact (proj1 (deadlocked_run_means_always_deadlocks (mfm_desc 38 6 38 4) 6000 Hwf mfm_short_lows_deadlocks l' t' E T)).
Qed.

Print Assumptions dema_never_deadlocks_on_grid.
Print Assumptions apo_never_deadlocks_on_grid.
Print Assumptions dema_wrong_buffer_always_deadlocks.
Print Assumptions vwap_unequal_inputs_always_deadlocks.
Print Assumptions mfm_never_deadlocks_on_grid.
