(* ===================================================================== *)
(*  Parallel.v - parallel composition of two Kahn networks that share    *)
(*  nothing.  Coq 8.16, standard library only, no axioms.                 *)
(*                                                                       *)
(*  [par n1 n2] puts the processes and the channels of n1 and n2 side by  *)
(*  side; the processes of n2 are re-addressed ([shift_proc]) because     *)
(*  channel references are absolute indices.                              *)
(*                                                                       *)
(*  Invariant  : [closed_net n] - no process of n can ever mention a      *)
(*               channel index outside [chans n] (stated on Kahn.v's      *)
(*               [preach]); preserved by steps.  Only the LEFT component  *)
(*               has to be closed: a right process mentions shifted       *)
(*               indices only, so it can never reach a left channel, and  *)
(*               an out-of-range index of a right process is out of range *)
(*               in the composition too.                                  *)
(*  Theorems   : par_step_inv, par_step_left, par_step_right,             *)
(*               par_exec_inv (exact projections of the schedule),        *)
(*               par_exec, par_terminal, par_independent,                 *)
(*               par_determinate, par_solo, par_histories,                *)
(*               par_all_halted, par_deadlocked, left_of_par,             *)
(*               right_chans_par.                                         *)
(*  Example    : Module ParExample (two pipelines; a pipeline next to a   *)
(*               deadlocking net), by vm_compute, lifted to ALL           *)
(*               interleavings by par_solo.                               *)
(* ===================================================================== *)

From Coq Require Import List Arith Lia Bool Permutation.
Import ListNotations.
From Verif Require Import Kahn.Kahn.

Set Implicit Arguments.

(* --------------------------------------------------------------------- *)
(* 0. Point updates and concatenation                                     *)
(* --------------------------------------------------------------------- *)

Section UpdApp.
  Variable A : Type.

  Lemma upd_app_l : forall (l1 l2 : list A) i x,
    i < length l1 -> upd (l1 ++ l2) i x = upd l1 i x ++ l2.
  Proof.
    induction l1 as [|h t IH]; intros l2 i x H; simpl in *.
    - lia.
    - destruct i; simpl; auto. f_equal. apply IH. lia.
  Qed.

  Lemma upd_app_r : forall (l1 l2 : list A) i x,
    length l1 <= i -> upd (l1 ++ l2) i x = l1 ++ upd l2 (i - length l1) x.
  Proof.
    induction l1 as [|h t IH]; intros l2 i x H; simpl in *.
    - rewrite Nat.sub_0_r. reflexivity.
    - destruct i; [lia|]. simpl. f_equal. apply IH. lia.
  Qed.

  Lemma nth_error_lt : forall (l : list A) i x, nth_error l i = Some x -> i < length l.
  Proof. intros l i x H. apply nth_error_Some. congruence. Qed.

  Lemma skipn_app_exact : forall (l1 l2 : list A), skipn (length l1) (l1 ++ l2) = l2.
  Proof. induction l1; simpl; auto. Qed.

  Lemma firstn_app_exact : forall (l1 l2 : list A), firstn (length l1) (l1 ++ l2) = l1.
  Proof. induction l1; simpl; intros; auto. f_equal; auto. Qed.
End UpdApp.

(* --------------------------------------------------------------------- *)
(* 1. Shifting, composition, closedness                                   *)
(* --------------------------------------------------------------------- *)

Section Par.
  Variable V : Type.

  Definition shift_act (k : nat) (S : Type) (a : act V S) : act V S :=
    match a with
    | ARecv c f => ARecv (k + c) f
    | ASend c v s => ASend (k + c) v s
    | AClose c s => AClose (k + c) s
    | AHalt => AHalt
    end.

  Definition shift_proc (k : nat) (p : proc V) : proc V :=
    {| pS := pS p; pst := pst p; pnext := fun s => shift_act k (pnext p s) |}.

  Definition par (n1 n2 : net V) : net V :=
    mknet (procs n1 ++ map (shift_proc (length (chans n1))) (procs n2))
          (chans n1 ++ chans n2).

  (* Cutting a state of the composition back.  The left half needs no
     re-addressing.  For the right half only the channels are projected:
     un-shifting a process would need [fun s => unshift (shift (pnext p s))]
     to be EQUAL to [pnext p], i.e. functional extensionality; all results
     below therefore say "the composed state IS [par m1 m2]". *)
  Definition left_of (n1 n : net V) : net V :=
    mknet (firstn (length (procs n1)) (procs n)) (firstn (length (chans n1)) (chans n)).

  Definition right_chans (n1 n : net V) : list (chan V) :=
    skipn (length (chans n1)) (chans n).

  (* the schedule of each half, extracted from a schedule of the composition *)
  Definition lidx (m : nat) (l : list nat) : list nat :=
    filter (fun i => i <? m) l.
  Definition ridx (m : nat) (l : list nat) : list nat :=
    map (fun i => i - m) (filter (fun i => negb (i <? m)) l).

  (* closedness *)
  Definition act_lt (b : nat) (S : Type) (a : act V S) : Prop :=
    match a with
    | ARecv c _ => c < b
    | ASend c _ _ => c < b
    | AClose c _ => c < b
    | AHalt => True
    end.

  Definition proc_closed (b : nat) (p : proc V) : Prop :=
    forall s, preach p s -> act_lt b (pnext p s).

  Definition closed_net (n : net V) : Prop :=
    forall i p, nth_error (procs n) i = Some p -> proc_closed (length (chans n)) p.

  (* ------------------------------------------------------------------- *)
  (* 2. Local lemmas                                                      *)
  (* ------------------------------------------------------------------- *)

  Lemma shift_pset : forall k p s, shift_proc k (pset p s) = pset (shift_proc k p) s.
  Proof. reflexivity. Qed.

  Lemma pact_shift : forall k p, pact (shift_proc k p) = shift_act k (pact p).
  Proof. reflexivity. Qed.

  Lemma halted_shift : forall k p, halted (shift_proc k p) <-> halted p.
  Proof.
    intros k p. unfold halted. rewrite pact_shift.
    destruct (pact p); simpl; tauto.
  Qed.

  Lemma pdo_shift : forall k p c o p',
    pdo p c o p' -> pdo (shift_proc k p) (k + c) o (shift_proc k p').
  Proof.
    intros k p c o p' H. destruct H as [c v s E | c f o E | c s E]; rewrite shift_pset.
    - apply PDsend. rewrite pact_shift, E. reflexivity.
    - apply PDrecv. rewrite pact_shift, E. reflexivity.
    - apply PDclose. rewrite pact_shift, E. reflexivity.
  Qed.

  Lemma pdo_shift_inv : forall k p c o q',
    pdo (shift_proc k p) c o q' ->
    exists c0 p', c = k + c0 /\ pdo p c0 o p' /\ q' = shift_proc k p'.
  Proof.
    intros k p c o q' H.
    destruct H as [c v s E | c f o E | c s E]; rewrite pact_shift in E;
      destruct (pact p) as [c0 f0 | c0 v0 s0 | c0 s0 |] eqn:A; simpl in E;
      try discriminate; inversion E; subst.
    - exists c0. eexists. split; [reflexivity|]. split; [apply PDsend; exact A|reflexivity].
    - exists c0. eexists. split; [reflexivity|]. split; [apply PDrecv; exact A|reflexivity].
    - exists c0. eexists. split; [reflexivity|]. split; [apply PDclose; exact A|reflexivity].
  Qed.

  Lemma proc_closed_pdo : forall b p c o p',
    proc_closed b p -> pdo p c o p' -> proc_closed b p' /\ c < b.
  Proof.
    intros b p c o p' OK D.
    pose proof (OK _ (PR0 p)) as A. fold (pact p) in A.
    inversion D as [c0 v k E|c0 k r E|c0 k E]; subst;
      rewrite E in A; simpl in A; (split; [|exact A]);
      intros s Hs; apply (OK s); eapply preach_pset; eauto.
    - eapply PRsend; [apply PR0|exact E].
    - eapply PRrecv; [apply PR0|exact E].
    - eapply PRclose; [apply PR0|exact E].
  Qed.

  Lemma closed_net_upd : forall ps cs cs' i p',
    length cs' = length cs ->
    closed_net (mknet ps cs) -> proc_closed (length cs) p' ->
    closed_net (mknet (upd ps i p') cs').
  Proof.
    intros ps cs cs' i p' L OK Hp' x y Hx. simpl in *. rewrite L.
    rewrite nth_upd in Hx. destruct (Nat.eqb_spec x i).
    - subst x. destruct (nth_error ps i); inversion Hx; subst; auto.
    - apply (OK x y Hx).
  Qed.

  (* Closedness is an invariant. *)
  Lemma closed_net_step : forall n i n', closed_net n -> step n i n' -> closed_net n'.
  Proof.
    intros n i n' OK [l H].
    destruct H as [p c o p' ch ch' Hp Dp Hc Cp | p c v p' r s s' ch ch' Hp Dp Hs Ds Hc Cp];
      destruct n as [ps cs]; simpl in *.
    - apply closed_net_upd with (cs := cs); [apply upd_length|exact OK|].
      apply (proj1 (proc_closed_pdo (OK _ _ Hp) Dp)).
    - apply closed_net_upd with (cs := cs); [apply upd_length| |].
      + apply closed_net_upd with (cs := cs); [reflexivity|exact OK|].
        apply (proj1 (proc_closed_pdo (OK _ _ Hp) Dp)).
      + apply (proj1 (proc_closed_pdo (OK _ _ Hs) Ds)).
  Qed.

  Lemma closed_net_exec : forall n l n', closed_net n -> exec n l n' -> closed_net n'.
  Proof.
    intros n l n' OK E. induction E; auto. apply IHE. eapply closed_net_step; eauto.
  Qed.

  Lemma step_lengths : forall (n : net V) i n', step n i n' ->
    length (procs n') = length (procs n) /\ length (chans n') = length (chans n).
  Proof.
    intros n i n' [l H]. destruct H; simpl; rewrite ?upd_length; auto.
  Qed.

  Lemma exec_lengths : forall (n : net V) l n', exec n l n' ->
    length (procs n') = length (procs n) /\ length (chans n') = length (chans n).
  Proof.
    intros n l n' E. induction E; auto.
    destruct (step_lengths H) as [A B]. destruct IHE as [C D]. split; congruence.
  Qed.

  Lemma par_chans : forall n1 n2 : net V, chans (par n1 n2) = chans n1 ++ chans n2.
  Proof. reflexivity. Qed.

  Lemma par_procs_l : forall n1 n2 i, i < length (procs n1) ->
    nth_error (procs (par n1 n2)) i = nth_error (procs n1) i.
  Proof. intros. simpl. apply nth_error_app1. auto. Qed.

  Lemma par_procs_r : forall n1 n2 i, length (procs n1) <= i ->
    nth_error (procs (par n1 n2)) i =
    option_map (shift_proc (length (chans n1)))
               (nth_error (procs n2) (i - length (procs n1))).
  Proof. intros. simpl. rewrite nth_error_app2 by auto. apply nth_error_map. Qed.

  Lemma par_chans_l : forall n1 n2 c, c < length (chans n1) ->
    nth_error (chans (par n1 n2)) c = nth_error (chans n1) c.
  Proof. intros. simpl. apply nth_error_app1. auto. Qed.

  Lemma par_chans_r : forall n1 n2 c,
    nth_error (chans (par n1 n2)) (length (chans n1) + c) = nth_error (chans n2) c.
  Proof.
    intros. simpl. rewrite nth_error_app2 by lia. f_equal. lia.
  Qed.

  Lemma par_mk : forall (n1 n2 : net V) ps cs, length cs = length (chans n1) ->
    par (mknet ps cs) n2 =
    mknet (ps ++ map (shift_proc (length (chans n1))) (procs n2)) (cs ++ chans n2).
  Proof. intros n1 n2 ps cs H. unfold par. simpl. rewrite H. reflexivity. Qed.

  Lemma par_shifted_proc : forall n1 n2 i p, length (procs n1) <= i ->
    nth_error (procs (par n1 n2)) i = Some p ->
    exists p0, nth_error (procs n2) (i - length (procs n1)) = Some p0 /\
               p = shift_proc (length (chans n1)) p0.
  Proof.
    intros n1 n2 i p L H. rewrite par_procs_r in H by exact L.
    destruct (nth_error (procs n2) (i - length (procs n1))) as [p0|]; simpl in H;
      try discriminate.
    exists p0. split; auto. congruence.
  Qed.

  (* ------------------------------------------------------------------- *)
  (* 3. Steps of the composition are steps of exactly one component       *)
  (* ------------------------------------------------------------------- *)

  Lemma par_stepx_inv : forall n1 n2 i l n',
    closed_net n1 -> stepx (par n1 n2) i l n' ->
    (i < length (procs n1) /\
     exists m1, stepx n1 i l m1 /\ n' = par m1 n2) \/
    (length (procs n1) <= i /\
     exists m2, stepx n2 (i - length (procs n1))
                      (map (fun x => x - length (procs n1)) l) m2 /\
                n' = par n1 m2).
  Proof.
    intros n1 n2 i l n' C H.
    destruct H as [p c o p' ch ch' Hp Dp Hc Cp | p c v p' j q q' ch ch' Hp Dp Hq Dq Hc Cp].
    - (* one process *)
      destruct (lt_dec i (length (procs n1))) as [Li|Li].
      + left. split; [exact Li|].
        rewrite par_procs_l in Hp by exact Li.
        destruct (proc_closed_pdo (C _ _ Hp) Dp) as [_ Lc].
        rewrite par_chans_l in Hc by exact Lc.
        exists (mknet (upd (procs n1) i p') (upd (chans n1) c ch')). split.
        * eapply SOne; eauto.
        * rewrite par_mk with (n1 := n1) by apply upd_length. simpl.
          rewrite !upd_app_l by assumption. reflexivity.
      + right. assert (Li' : length (procs n1) <= i) by lia. split; [exact Li'|].
        destruct (par_shifted_proc n1 n2 Li' Hp) as [p0 [Hp0 Ep]]. subst p.
        destruct (pdo_shift_inv Dp) as [c0 [p0' [Ec [Dp0 Ep']]]]. subst c p'.
        rewrite par_chans_r in Hc.
        exists (mknet (upd (procs n2) (i - length (procs n1)) p0') (upd (chans n2) c0 ch')).
        split.
        * simpl map. eapply SOne; eauto.
        * unfold par. simpl.
          rewrite !upd_app_r by lia. rewrite map_upd.
          replace (length (chans n1) + c0 - length (chans n1)) with c0 by lia.
          reflexivity.
    - (* rendezvous *)
      destruct (lt_dec i (length (procs n1))) as [Li|Li];
        destruct (lt_dec j (length (procs n1))) as [Lj|Lj].
      + (* both left *)
        left. split; [exact Li|].
        rewrite par_procs_l in Hp by exact Li.
        rewrite par_procs_l in Hq by exact Lj.
        destruct (proc_closed_pdo (C _ _ Hp) Dp) as [_ Lc].
        rewrite par_chans_l in Hc by exact Lc.
        exists (mknet (upd (upd (procs n1) i p') j q') (upd (chans n1) c ch')). split.
        * eapply SRdv; eauto.
        * rewrite par_mk with (n1 := n1) by apply upd_length. simpl.
          rewrite (upd_app_l _ _ _ Li).
          rewrite upd_app_l by (rewrite upd_length; exact Lj).
          rewrite upd_app_l by exact Lc. reflexivity.
      + (* sender left, receiver right : impossible *)
        exfalso.
        rewrite par_procs_l in Hp by exact Li.
        destruct (proc_closed_pdo (C _ _ Hp) Dp) as [_ Lc].
        assert (Lj' : length (procs n1) <= j) by lia.
        destruct (par_shifted_proc n1 n2 Lj' Hq) as [q0 [Hq0 Eq]]. subst q.
        destruct (pdo_shift_inv Dq) as [c0 [q0' [Ec _]]]. lia.
      + (* sender right, receiver left : impossible *)
        exfalso.
        rewrite par_procs_l in Hq by exact Lj.
        destruct (proc_closed_pdo (C _ _ Hq) Dq) as [_ Lc].
        assert (Li' : length (procs n1) <= i) by lia.
        destruct (par_shifted_proc n1 n2 Li' Hp) as [p0 [Hp0 Ep]]. subst p.
        destruct (pdo_shift_inv Dp) as [c0 [p0' [Ec _]]]. lia.
      + (* both right *)
        right. assert (Li' : length (procs n1) <= i) by lia.
        assert (Lj' : length (procs n1) <= j) by lia. split; [exact Li'|].
        destruct (par_shifted_proc n1 n2 Li' Hp) as [p0 [Hp0 Ep]]. subst p.
        destruct (par_shifted_proc n1 n2 Lj' Hq) as [q0 [Hq0 Eq]]. subst q.
        destruct (pdo_shift_inv Dp) as [c0 [p0' [Ec [Dp0 Ep']]]]. subst c p'.
        destruct (pdo_shift_inv Dq) as [c1 [q0' [Ec [Dq0 Eq']]]]. subst q'.
        assert (c1 = c0) by lia. subst c1.
        rewrite par_chans_r in Hc.
        exists (mknet (upd (upd (procs n2) (i - length (procs n1)) p0')
                           (j - length (procs n1)) q0')
                      (upd (chans n2) c0 ch')).
        split.
        * simpl map. eapply SRdv; eauto.
        * unfold par. simpl.
          rewrite !upd_app_r by lia. rewrite !map_upd.
          replace (length (chans n1) + c0 - length (chans n1)) with c0 by lia.
          reflexivity.
  Qed.

  (* 1. A step of the composition is a step of exactly one component and
        leaves the other component untouched. *)
  Theorem par_step_inv : forall n1 n2 i n',
    closed_net n1 -> step (par n1 n2) i n' ->
    (i < length (procs n1) /\ exists m1, step n1 i m1 /\ n' = par m1 n2) \/
    (i >= length (procs n1) /\
     exists m2, step n2 (i - length (procs n1)) m2 /\ n' = par n1 m2).
  Proof.
    intros n1 n2 i n' C [l H].
    destruct (par_stepx_inv C H) as [[Li [m1 [S E]]]|[Li [m2 [S E]]]].
    - left. split; auto. exists m1. split; auto. exists l. exact S.
    - right. split; auto. exists m2. split; auto. eexists. exact S.
  Qed.

  Lemma par_stepx_left : forall n1 n2 i l m1,
    stepx n1 i l m1 -> stepx (par n1 n2) i l (par m1 n2).
  Proof.
    intros n1 n2 i l m1 H.
    destruct H as [p c o p' ch ch' Hp Dp Hc Cp | p c v p' j q q' ch ch' Hp Dp Hq Dq Hc Cp];
      pose proof (nth_error_lt _ _ Hp) as Li; pose proof (nth_error_lt _ _ Hc) as Lc;
      rewrite par_mk with (n1 := n1) by apply upd_length.
    - eapply stepx_eq.
      + eapply SOne with (p := p) (c := c) (o := o) (p' := p') (ch := ch) (ch' := ch'); auto.
        * rewrite par_procs_l by exact Li. exact Hp.
        * rewrite par_chans_l by exact Lc. exact Hc.
      + simpl. rewrite !upd_app_l by assumption. reflexivity.
    - pose proof (nth_error_lt _ _ Hq) as Lj.
      eapply stepx_eq.
      + eapply SRdv with (p := p) (c := c) (v := v) (p' := p') (j := j) (q := q) (q' := q')
                         (ch := ch) (ch' := ch'); auto.
        * rewrite par_procs_l by exact Li. exact Hp.
        * rewrite par_procs_l by exact Lj. exact Hq.
        * rewrite par_chans_l by exact Lc. exact Hc.
      + simpl. rewrite (upd_app_l _ _ _ Li).
        rewrite upd_app_l by (rewrite upd_length; exact Lj).
        rewrite upd_app_l by exact Lc. reflexivity.
  Qed.

  Lemma par_stepx_right : forall n1 n2 i l m2,
    stepx n2 i l m2 ->
    stepx (par n1 n2) (length (procs n1) + i)
          (map (fun x => length (procs n1) + x) l) (par n1 m2).
  Proof.
    intros n1 n2 i l m2 H.
    assert (P : forall x y, nth_error (procs n2) x = Some y ->
                nth_error (procs (par n1 n2)) (length (procs n1) + x) =
                Some (shift_proc (length (chans n1)) y)).
    { intros x y Hx. rewrite par_procs_r by lia.
      replace (length (procs n1) + x - length (procs n1)) with x by lia.
      rewrite Hx. reflexivity. }
    destruct H as [p c o p' ch ch' Hp Dp Hc Cp | p c v p' j q q' ch ch' Hp Dp Hq Dq Hc Cp];
      simpl map.
    - eapply stepx_eq.
      + eapply SOne with (c := length (chans n1) + c) (o := o) (ch := ch) (ch' := ch').
        * apply P. exact Hp.
        * apply pdo_shift. exact Dp.
        * rewrite par_chans_r. exact Hc.
        * exact Cp.
      + unfold par. simpl. rewrite !upd_app_r by lia. rewrite map_upd.
        replace (length (procs n1) + i - length (procs n1)) with i by lia.
        replace (length (chans n1) + c - length (chans n1)) with c by lia.
        reflexivity.
    - eapply stepx_eq.
      + eapply SRdv with (c := length (chans n1) + c) (v := v) (ch := ch) (ch' := ch').
        * apply P. exact Hp.
        * apply pdo_shift. exact Dp.
        * apply P. exact Hq.
        * apply pdo_shift. exact Dq.
        * rewrite par_chans_r. exact Hc.
        * exact Cp.
      + unfold par. simpl. rewrite !upd_app_r by lia. rewrite !map_upd.
        replace (length (procs n1) + i - length (procs n1)) with i by lia.
        replace (length (procs n1) + j - length (procs n1)) with j by lia.
        replace (length (chans n1) + c - length (chans n1)) with c by lia.
        reflexivity.
  Qed.

  (* 2. Conversely, a step of a component is a step of the composition. *)
  Theorem par_step_left : forall n1 n2 i m1,
    step n1 i m1 -> step (par n1 n2) i (par m1 n2).
  Proof. intros n1 n2 i m1 [l H]. exists l. apply par_stepx_left. exact H. Qed.

  Theorem par_step_right : forall n1 n2 i m2,
    step n2 i m2 -> step (par n1 n2) (length (procs n1) + i) (par n1 m2).
  Proof. intros n1 n2 i m2 [l H]. eexists. apply par_stepx_right. exact H. Qed.

  (* ------------------------------------------------------------------- *)
  (* 4. Executions                                                        *)
  (* ------------------------------------------------------------------- *)

  Lemma lidx_ridx_length : forall m l, length (lidx m l) + length (ridx m l) = length l.
  Proof.
    intros m l. unfold lidx, ridx. rewrite map_length.
    induction l as [|a l IH]; simpl; auto.
    destruct (a <? m); simpl; lia.
  Qed.

  Lemma par_exec_inv_aux : forall l m n1 n2 n',
    m = length (procs n1) -> closed_net n1 -> exec (par n1 n2) l n' ->
    exists m1 m2, n' = par m1 m2 /\ exec n1 (lidx m l) m1 /\ exec n2 (ridx m l) m2.
  Proof.
    induction l as [|a l IH]; intros m n1 n2 n' Hm C E.
    - inversion E; subst. exists n1, n2. repeat split; constructor.
    - inversion E as [|? ? x ? ? Sa Ex]; subst.
      destruct (par_step_inv C Sa) as [[La [m1 [S1 E1]]]|[La [m2 [S2 E2]]]]; subst x.
      + destruct (IH (length (procs n1)) m1 n2 n') as [m1' [m2' [En [X1 X2]]]]; auto.
        * symmetry. apply (step_lengths S1).
        * eapply closed_net_step; eauto.
        * exists m1', m2'. split; [exact En|].
          unfold lidx, ridx in *. simpl.
          destruct (Nat.ltb_spec a (length (procs n1))); try lia. simpl.
          split; [|exact X2]. econstructor; eauto.
      + destruct (IH (length (procs n1)) n1 m2 n') as [m1' [m2' [En [X1 X2]]]]; auto.
        exists m1', m2'. split; [exact En|].
        unfold lidx, ridx in *. simpl.
        destruct (Nat.ltb_spec a (length (procs n1))); try lia. simpl.
        split; [exact X1|]. econstructor; eauto.
  Qed.

  (* 3. Every execution of the composition is an interleaving of an execution
        of n1 and an execution of n2; their schedules are the two projections
        of the joint schedule (order preserved). *)
  Theorem par_exec_inv : forall n1 n2 l n',
    closed_net n1 -> exec (par n1 n2) l n' ->
    exists m1 m2, n' = par m1 m2 /\
                  exec n1 (lidx (length (procs n1)) l) m1 /\
                  exec n2 (ridx (length (procs n1)) l) m2.
  Proof. intros. eapply par_exec_inv_aux; eauto. Qed.

  Lemma par_exec_left : forall n1 n2 l m1,
    exec n1 l m1 -> exec (par n1 n2) l (par m1 n2).
  Proof.
    intros n1 n2 l m1 E. induction E.
    - constructor.
    - econstructor; [apply par_step_left; eauto|exact IHE].
  Qed.

  Lemma par_exec_right : forall n1 n2 l m2,
    exec n2 l m2 ->
    exec (par n1 n2) (map (fun x => length (procs n1) + x) l) (par n1 m2).
  Proof.
    intros n1 n2 l m2 E. induction E; simpl.
    - constructor.
    - econstructor; [apply par_step_right; eauto|exact IHE].
  Qed.

  (* Conversely, executions of the components can be run one after the other
     (hence, by [confluence], in any interleaving) in the composition. *)
  Theorem par_exec : forall n1 n2 l1 l2 m1 m2,
    exec n1 l1 m1 -> exec n2 l2 m2 ->
    exec (par n1 n2) (l1 ++ map (fun x => length (procs n1) + x) l2) (par m1 m2).
  Proof.
    intros n1 n2 l1 l2 m1 m2 E1 E2.
    eapply exec_app.
    - apply par_exec_left. exact E1.
    - rewrite <- (proj1 (exec_lengths E1)). apply par_exec_right. exact E2.
  Qed.

  (* ------------------------------------------------------------------- *)
  (* 5. Terminal states, independence, determinacy                        *)
  (* ------------------------------------------------------------------- *)

  (* 4. *)
  Theorem par_terminal : forall m1 m2,
    closed_net m1 -> (terminal (par m1 m2) <-> terminal m1 /\ terminal m2).
  Proof.
    intros m1 m2 C. split.
    - intros T. split; intros i x S.
      + eapply T. apply par_step_left. exact S.
      + eapply T. apply par_step_right. exact S.
    - intros [T1 T2] i x S.
      destruct (par_step_inv C S) as [[_ [y [Sy _]]]|[_ [y [Sy _]]]].
      + eapply T1; eauto.
      + eapply T2; eauto.
  Qed.

  (* this direction needs no closedness *)
  Lemma par_terminal_parts : forall m1 m2,
    terminal (par m1 m2) -> terminal m1 /\ terminal m2.
  Proof.
    intros m1 m2 T. split; intros i x S.
    - eapply T. apply par_step_left. exact S.
    - eapply T. apply par_step_right. exact S.
  Qed.

  (* 5. THE HEADLINE.  A maximal run of the composition is a maximal run of
        n1 and a maximal run of n2, side by side. *)
  Theorem par_independent : forall n1 n2 l n',
    closed_net n1 -> exec (par n1 n2) l n' -> terminal n' ->
    exists m1 m2, n' = par m1 m2 /\
      exec n1 (lidx (length (procs n1)) l) m1 /\ terminal m1 /\
      exec n2 (ridx (length (procs n1)) l) m2 /\ terminal m2.
  Proof.
    intros n1 n2 l n' C E T.
    destruct (par_exec_inv C E) as [m1 [m2 [En [E1 E2]]]]. subst n'.
    destruct (par_terminal_parts T) as [T1 T2].
    exists m1, m2. auto.
  Qed.

  (* What a maximal joint run delivers is what the components deliver when
     they are run ALONE - for every interleaving. *)
  Theorem par_solo : forall rd1 wr1 rd2 wr2 n1 n2 la t1 lb t2 l t,
    closed_net n1 -> wf rd1 wr1 n1 -> wf rd2 wr2 n2 ->
    exec n1 la t1 -> terminal t1 -> exec n2 lb t2 -> terminal t2 ->
    exec (par n1 n2) l t -> terminal t ->
    t = par t1 t2 /\
    Permutation (lidx (length (procs n1)) l) la /\
    Permutation (ridx (length (procs n1)) l) lb.
  Proof.
    intros rd1 wr1 rd2 wr2 n1 n2 la t1 lb t2 l t C W1 W2 Ea Ta Eb Tb E T.
    destruct (par_independent C E T) as [m1 [m2 [En [E1 [T1 [E2 T2]]]]]].
    destruct (determinacy W1 Ea Ta E1 T1) as [e1 P1].
    destruct (determinacy W2 Eb Tb E2 T2) as [e2 P2].
    subst. auto.
  Qed.

  Corollary par_histories : forall rd1 wr1 rd2 wr2 n1 n2 la t1 lb t2 l t,
    closed_net n1 -> wf rd1 wr1 n1 -> wf rd2 wr2 n2 ->
    exec n1 la t1 -> terminal t1 -> exec n2 lb t2 -> terminal t2 ->
    exec (par n1 n2) l t -> terminal t ->
    map (@sent V) (chans t) = map (@sent V) (chans t1) ++ map (@sent V) (chans t2).
  Proof.
    intros rd1 wr1 rd2 wr2 n1 n2 la t1 lb t2 l t C W1 W2 Ea Ta Eb Tb E T.
    destruct (par_solo C W1 W2 Ea Ta Eb Tb E T) as [e _]. subst t.
    simpl. apply map_app.
  Qed.

  (* Two maximal runs of the composition end in the same state, after the
     same number of steps. *)
  Theorem par_determinate : forall rd1 wr1 rd2 wr2 n1 n2 l t l' t',
    closed_net n1 -> wf rd1 wr1 n1 -> wf rd2 wr2 n2 ->
    exec (par n1 n2) l t -> terminal t ->
    exec (par n1 n2) l' t' -> terminal t' ->
    t' = t /\ length l' = length l.
  Proof.
    intros rd1 wr1 rd2 wr2 n1 n2 l t l' t' C W1 W2 E T E' T'.
    destruct (par_independent C E T) as [m1 [m2 [En [E1 [T1 [E2 T2]]]]]].
    destruct (par_solo C W1 W2 E1 T1 E2 T2 E' T') as [e [P1 P2]].
    split; [congruence|].
    apply Permutation_length in P1. apply Permutation_length in P2.
    rewrite <- (lidx_ridx_length (length (procs n1)) l).
    rewrite <- (lidx_ridx_length (length (procs n1)) l'). lia.
  Qed.

  (* ------------------------------------------------------------------- *)
  (* 6. Clean termination and deadlock                                    *)
  (* ------------------------------------------------------------------- *)

  Theorem par_all_halted : forall m1 m2,
    all_halted (par m1 m2) <-> all_halted m1 /\ all_halted m2.
  Proof.
    intros m1 m2. split.
    - intros A. split; intros i p Hp.
      + apply (A i p). rewrite par_procs_l by (eapply nth_error_lt; eauto). exact Hp.
      + apply (halted_shift (length (chans m1)) p).
        apply (A (length (procs m1) + i)). rewrite par_procs_r by lia.
        replace (length (procs m1) + i - length (procs m1)) with i by lia.
        rewrite Hp. reflexivity.
    - intros [A1 A2] i p Hp.
      destruct (lt_dec i (length (procs m1))) as [Li|Li].
      + rewrite par_procs_l in Hp by exact Li. eapply A1; eauto.
      + assert (Li' : length (procs m1) <= i) by lia.
        destruct (par_shifted_proc m1 m2 Li' Hp) as [p0 [Hp0 Ep]]. subst p.
        apply halted_shift. eapply A2; eauto.
  Qed.

  Theorem par_deadlocked : forall m1 m2,
    closed_net m1 ->
    (deadlocked (par m1 m2) <->
     terminal m1 /\ terminal m2 /\ (deadlocked m1 \/ deadlocked m2)).
  Proof.
    intros m1 m2 C. split.
    - intros [T [i [p [Hp Nh]]]].
      destruct (par_terminal_parts T) as [T1 T2].
      split; [exact T1|]. split; [exact T2|].
      destruct (lt_dec i (length (procs m1))) as [Li|Li].
      + left. split; [exact T1|]. exists i, p.
        rewrite par_procs_l in Hp by exact Li. auto.
      + right. split; [exact T2|].
        assert (Li' : length (procs m1) <= i) by lia.
        destruct (par_shifted_proc m1 m2 Li' Hp) as [p0 [Hp0 Ep]]. subst p.
        exists (i - length (procs m1)), p0. split; [exact Hp0|].
        intro Hh. apply Nh. apply halted_shift. exact Hh.
    - intros [T1 [T2 D]]. split.
      + apply par_terminal; auto.
      + destruct D as [[_ [i [p [Hp Nh]]]]|[_ [i [p [Hp Nh]]]]].
        * exists i, p. split; [|exact Nh].
          rewrite par_procs_l by (eapply nth_error_lt; eauto). exact Hp.
        * exists (length (procs m1) + i), (shift_proc (length (chans m1)) p). split.
          -- rewrite par_procs_r by lia.
             replace (length (procs m1) + i - length (procs m1)) with i by lia.
             rewrite Hp. reflexivity.
          -- intro Hh. apply Nh. apply (halted_shift (length (chans m1)) p). exact Hh.
  Qed.

  (* A deadlock of the composition is a deadlock of a component: the other
     component is not affected (it is terminal, possibly cleanly halted). *)
  Corollary par_deadlock_free : forall m1 m2,
    closed_net m1 -> ~ deadlocked m1 -> ~ deadlocked m2 -> ~ deadlocked (par m1 m2).
  Proof.
    intros m1 m2 C D1 D2 D. apply (par_deadlocked m2 C) in D. tauto.
  Qed.

  (* ------------------------------------------------------------------- *)
  (* 7. Projections                                                       *)
  (* ------------------------------------------------------------------- *)

  Lemma left_of_par : forall n1 m1 m2,
    length (procs m1) = length (procs n1) -> length (chans m1) = length (chans n1) ->
    left_of n1 (par m1 m2) = m1.
  Proof.
    intros n1 m1 m2 Hp Hc. unfold left_of. simpl. rewrite <- Hp, <- Hc.
    rewrite !firstn_app_exact. destruct m1; reflexivity.
  Qed.

  Lemma right_chans_par : forall n1 m1 m2,
    length (chans m1) = length (chans n1) ->
    right_chans n1 (par m1 m2) = chans m2.
  Proof.
    intros n1 m1 m2 Hc. unfold right_chans. simpl. rewrite <- Hc.
    apply skipn_app_exact.
  Qed.

  (* The projections of any state reachable from [par n1 n2] are reachable
     in the components, by the projected schedules. *)
  Corollary par_exec_projections : forall n1 n2 l n',
    closed_net n1 -> exec (par n1 n2) l n' ->
    exec n1 (lidx (length (procs n1)) l) (left_of n1 n') /\
    exists m2, exec n2 (ridx (length (procs n1)) l) m2 /\
               right_chans n1 n' = chans m2.
  Proof.
    intros n1 n2 l n' C E.
    destruct (par_exec_inv C E) as [m1 [m2 [En [E1 E2]]]]. subst n'.
    destruct (exec_lengths E1) as [Lp Lc].
    rewrite left_of_par by assumption. split; [exact E1|].
    exists m2. split; [exact E2|]. apply right_chans_par. exact Lc.
  Qed.

End Par.

(* --------------------------------------------------------------------- *)
(* 8. Examples, validated by computation and lifted to all interleavings  *)
(* --------------------------------------------------------------------- *)

Module ParExample.
  Import Example.

  Lemma pipeline_closed : forall k0 k1, closed_net (pipeline k0 k1).
  Proof.
    intros k0 k1 i p H.
    destruct i as [|[|[|i]]]; simpl in H; inversion H; subst; intros s _.
    - destruct s as [[|x r]|]; simpl; auto with arith.
    - destruct s; simpl; auto with arith.
    - destruct s as [a [|]]; simpl; auto with arith.
    - destruct i; discriminate.
  Qed.

  (* "two concurrent calls of Compute": the same pipeline, twice *)
  Definition two : net nat := par (pipeline 0 1) (pipeline 0 1).
  Definition final_two := run 200 two.

  Example two_terminal : terminalb final_two = true.
  Proof. vm_compute. reflexivity. Qed.

  Example two_halted : forallb (@haltedb nat) (procs final_two) = true.
  Proof. vm_compute. reflexivity. Qed.

  Example two_channels :
    chans final_two =
    [mkchan [] 0 true [1; 2; 3]; mkchan [] 1 true [2; 3; 4];
     mkchan [] 0 true [1; 2; 3]; mkchan [] 1 true [2; 3; 4]].
  Proof. vm_compute. reflexivity. Qed.

  Example two_is_final01_twice : chans final_two = chans final01 ++ chans final01.
  Proof. vm_compute. reflexivity. Qed.

  Example two_schedule_length : length (run_schedule 200 two) = 26.
  Proof. vm_compute. reflexivity. Qed.

  (* EVERY maximal execution of the two pipelines side by side - whatever the
     interleaving - is [final01] next to [final01]: 26 steps, every process
     halted, and both halves have transmitted exactly what a pipeline
     transmits when it runs alone. *)
  Theorem two_pipelines_independent : forall l t,
    exec two l t -> terminal t ->
    t = par final01 final01 /\ all_halted t /\ length l = 26 /\
    map (@sent nat) (chans t) = [[1; 2; 3]; [2; 3; 4]; [1; 2; 3]; [2; 3; 4]].
  Proof.
    intros l t E T.
    assert (C0 : closed_net (pipeline 0 1)) by apply pipeline_closed.
    assert (W0 : wf rd wr (pipeline 0 1)) by apply pipeline_wf.
    assert (E0 : exec (pipeline 0 1) (run_schedule 100 (pipeline 0 1)) final01)
      by apply run_exec.
    assert (T0 : terminal final01)
      by (apply terminalb_sound; exact pipeline01_terminal).
    destruct (@par_solo nat rd wr rd wr (pipeline 0 1) (pipeline 0 1)
                _ final01 _ final01 l t
                C0 W0 W0 E0 T0 E0 T0 E T) as [e [P1 P2]].
    split; [exact e|]. split; [|split].
    - subst t. apply par_all_halted.
      split; apply all_haltedb_sound; exact pipeline01_halted.
    - apply Permutation_length in P1. apply Permutation_length in P2.
      rewrite <- (lidx_ridx_length (length (procs (pipeline 0 1))) l).
      rewrite P1, P2, pipeline01_schedule. reflexivity.
    - subst t. rewrite par_chans, map_app, pipeline01_channels. reflexivity.
  Qed.

  (* a pipeline next to a network that deadlocks *)
  Definition mixed : net nat := par (pipeline 0 1) stuck_net.
  Definition final_mixed := run 200 mixed.
  Definition final_stuck := run 100 stuck_net.

  Example mixed_deadlocks : deadlockedb final_mixed = true.
  Proof. vm_compute. reflexivity. Qed.

  Example mixed_channels :
    chans final_mixed =
    [mkchan [] 0 true [1; 2; 3]; mkchan [] 1 true [2; 3; 4];
     mkchan [2] 1 false [1; 2]].
  Proof. vm_compute. reflexivity. Qed.

  Example mixed_left_halted :
    forallb (@haltedb nat) (procs (left_of (pipeline 0 1) final_mixed)) = true.
  Proof. vm_compute. reflexivity. Qed.

  Example stuck_channels : chans final_stuck = [mkchan [2] 1 false [1; 2]].
  Proof. vm_compute. reflexivity. Qed.

  (* Whatever the interleaving, the deadlock of the neighbour does not
     prevent the pipeline from delivering everything: the left half of every
     terminal state is [final01], cleanly halted. *)
  Theorem deadlocked_neighbour_harmless : forall l t,
    exec mixed l t -> terminal t ->
    t = par final01 final_stuck /\ deadlocked t /\
    left_of (pipeline 0 1) t = final01 /\ all_halted (left_of (pipeline 0 1) t) /\
    map (@sent nat) (chans t) = [[1; 2; 3]; [2; 3; 4]; [1; 2]].
  Proof.
    intros l t E T.
    assert (C0 : closed_net (pipeline 0 1)) by apply pipeline_closed.
    assert (W0 : wf rd wr (pipeline 0 1)) by apply pipeline_wf.
    assert (E0 : exec (pipeline 0 1) (run_schedule 100 (pipeline 0 1)) final01)
      by apply run_exec.
    assert (T0 : terminal final01)
      by (apply terminalb_sound; exact pipeline01_terminal).
    assert (E1 : exec stuck_net (run_schedule 100 stuck_net) final_stuck)
      by apply run_exec.
    assert (D1 : deadlocked final_stuck)
      by (apply deadlockedb_sound; exact stuck_deadlocks).
    assert (W1 : wf rd wr stuck_net) by (apply net_ok_wf; exact stuck_ok).
    destruct (@par_solo nat rd wr rd wr (pipeline 0 1) stuck_net
                _ final01 _ final_stuck l t
                C0 W0 W1 E0 T0 E1 (proj1 D1) E T) as [e _].
    assert (L : left_of (pipeline 0 1) t = final01).
    { subst t. apply left_of_par.
      - apply (exec_lengths E0).
      - apply (exec_lengths E0). }
    split; [exact e|]. split; [|split; [exact L|split]].
    - subst t. apply par_deadlocked.
      + eapply closed_net_exec; [exact C0|exact E0].
      + split; [exact T0|]. split; [exact (proj1 D1)|]. right. exact D1.
    - rewrite L. apply all_haltedb_sound. exact pipeline01_halted.
    - subst t. rewrite par_chans, map_app, pipeline01_channels, stuck_channels.
      reflexivity.
  Qed.

End ParExample.

Print Assumptions par_step_inv.
Print Assumptions par_step_left.
Print Assumptions par_step_right.
Print Assumptions par_exec_inv.
Print Assumptions par_exec.
Print Assumptions par_terminal.
Print Assumptions par_independent.
Print Assumptions par_solo.
Print Assumptions par_histories.
Print Assumptions par_determinate.
Print Assumptions par_all_halted.
Print Assumptions par_deadlocked.
Print Assumptions par_exec_projections.
Print Assumptions ParExample.two_pipelines_independent.
Print Assumptions ParExample.deadlocked_neighbour_harmless.
