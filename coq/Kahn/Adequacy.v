(* C03: operational adequacy of the channel helpers of Kahn/Helpers.v.
   Each helper PROCESS, run between a producer (NSource) and a reader (NSink), delivers exactly the LIST FUNCTION the Go
   documentation promises - for EVERY input list, EVERY channel capacity allowed by [caps_ok] and EVERY schedule - and
   leaves no process behind (Head excepted, whose leak is characterised exactly).
   Method: for each helper an explicit execution is built by induction on the input (one value is moved through a
   channel by [xfer], which is a rendezvous on a capacity-0 channel and a send followed by a receive otherwise), ending
   in an explicit terminal state; [determinacy] (through [build_wf]) then covers every other schedule.
   Standard library only, no axioms. *)
From Coq Require Import List Arith Bool Lia Permutation.
Import ListNotations.
From Verif Require Import Kahn.Kahn Kahn.Helpers Kahn.HelpersProofs.

(* --------------------------------------------------------------------- *)
(* 0. Building executions                                                  *)
(* --------------------------------------------------------------------- *)

Definition reach (a b : net nat) : Prop := exists l, exec a l b.

Lemma reach_refl : forall a, reach a a.
Proof. intros a. exists []. constructor. Qed.

Lemma reach_trans : forall a b c, reach a b -> reach b c -> reach a c.
Proof. intros a b c [l1 E1] [l2 E2]. exists (l1 ++ l2). eapply exec_app; eauto. Qed.

Lemma reach_step : forall a i b, step a i b -> reach a b.
Proof. intros a i b H. exists [i]. econstructor; eauto. constructor. Qed.

Lemma reach_eq : forall a b c, reach a b -> b = c -> reach a c.
Proof. intros; subst; auto. Qed.

(* One value travels from the sender [i] to the receiver [j] through the empty, open channel [c], whatever its
   capacity: a rendezvous (capacity 0), or a buffered send followed by a receive.  The channel is empty again. *)
Lemma xfer : forall (n : net nat) i j c p q v k1 kq ch,
  nth_error (procs n) i = Some p -> pact p = ASend c v k1 ->
  nth_error (procs n) j = Some q -> pact q = ARecv c kq ->
  nth_error (chans n) c = Some ch -> buf ch = [] -> closed ch = false ->
  reach n (mknet (upd (upd (procs n) i (pset p k1)) j (pset q (kq (Some v))))
                 (upd (chans n) c (mkchan [] (cap ch) false (sent ch ++ [v])))).
Proof.
  intros n i j c p q v k1 kq ch Hp Ap Hq Aq Hc B C.
  assert (ne : i <> j).
  { intro e. subst j. rewrite Hp in Hq. inversion Hq; subst q. rewrite Ap in Aq. discriminate. }
  destruct (cap ch) as [|m] eqn:K.
  - eapply reach_step with (i := i). apply step_iff_gostep.
    pose proof (@GRendezvous nat n i p c v k1 ch j q kq Hp Ap Hc C K B Hq Aq) as G.
    rewrite K, B, C in G. exact G.
  - eapply reach_trans.
    + eapply reach_step with (i := i). apply step_iff_gostep.
      eapply GSendBuffered; eauto. rewrite B, K. simpl. lia.
    + eapply reach_eq.
      * eapply reach_step with (i := j). apply step_iff_gostep.
        eapply GRecv with (p := q) (c := c) (k := kq) (v := v) (r := []); simpl.
        -- rewrite nth_upd_neq; auto.
        -- exact Aq.
        -- eapply nth_upd_eq; eauto.
        -- simpl. rewrite B. reflexivity.
      * simpl. rewrite upd_upd, K, C. reflexivity.
Qed.

Lemma do_close : forall (n : net nat) i c p k ch,
  nth_error (procs n) i = Some p -> pact p = AClose c k ->
  nth_error (chans n) c = Some ch -> closed ch = false ->
  reach n (mknet (upd (procs n) i (pset p k))
                 (upd (chans n) c (mkchan (buf ch) (cap ch) true (sent ch)))).
Proof.
  intros n i c p k ch Hp Ap Hc C.
  eapply reach_step with (i := i). apply step_iff_gostep. eapply GClose; eauto.
Qed.

Lemma do_eof : forall (n : net nat) i c p k ch,
  nth_error (procs n) i = Some p -> pact p = ARecv c k ->
  nth_error (chans n) c = Some ch -> buf ch = [] -> closed ch = true ->
  reach n (mknet (upd (procs n) i (pset p (k None))) (chans n)).
Proof.
  intros n i c p k ch Hp Ap Hc B C.
  eapply reach_eq.
  - eapply reach_step with (i := i). apply step_iff_gostep. eapply GRecvClosed; eauto.
  - rewrite (upd_same _ _ Hc). reflexivity.
Qed.

Ltac tidy := cbn [upd procs chans cap sent buf closed].
Ltac xf i j c := eapply reach_trans; [ eapply (@xfer _ i j c); reflexivity | tidy ].
Ltac cl i := eapply reach_trans; [ eapply (@do_close _ i); reflexivity | tidy ].
Ltac eo i := eapply reach_trans; [ eapply (@do_eof _ i); reflexivity | tidy ].

(* lifting one execution to every schedule *)
Lemma lift_reach : forall d t,
  wellformed d = true -> reach (build d) t -> terminal t ->
  forall l' t', exec (build d) l' t' -> terminal t' -> t' = t.
Proof.
  intros d t W [l E] T l' t' E' T'.
  apply (@determinacy nat (rd_of d) (wr_of d) (build d) l t l' t'); auto.
  apply build_wf; exact W.
Qed.

Lemma all_halted_not_deadlocked : forall (t : net nat), all_halted t -> ~ deadlocked t.
Proof. intros t A [_ [i [p [Hp Hh]]]]. apply Hh. eapply A; eauto. Qed.

(* process states *)
Definition src (c : nat) (s : option (list nat)) : P := pset (source c []) s.
Definition snk (c : nat) (acc : list nat) (fin : bool) : P := pset (sink c) (acc, fin).
Definition och (k : nat) (h : list nat) : chan nat := mkchan [] k false h.    (* open, empty *)
Definition cch (k : nat) (h : list nat) : chan nat := mkchan [] k true h.     (* closed, empty *)

(* --------------------------------------------------------------------- *)
(* 1, 2. Map and Buffered: source -> mapper f -> sink                      *)
(* --------------------------------------------------------------------- *)

Definition mp_net (f : nat -> nat) (s : option (list nat)) (m : mst) (acc : list nat) (fin : bool)
                  (c0 c1 : chan nat) : net nat :=
  mknet [src 0 s; pset (mapper f 0 1) m; snk 1 acc fin] [c0; c1].

Definition mp_final f k0 k1 h0 acc := mp_net f None MDone acc true (cch k0 h0) (cch k1 acc).

Lemma mp_loop : forall f k0 k1 r acc h0,
  reach (mp_net f (Some r) MWait acc false (och k0 h0) (och k1 acc))
        (mp_final f k0 k1 (h0 ++ r) (acc ++ map f r)).
Proof.
  intros f k0 k1 r. induction r as [|x r IH]; intros acc h0; unfold mp_net, mp_final, src, snk, och, cch in *.
  - simpl. rewrite !app_nil_r.
    cl 0. eo 1. cl 1. eo 2. apply reach_refl.
  - xf 0 1 0. xf 1 2 1.
    eapply reach_eq. { apply (IH (acc ++ [f x]) (h0 ++ [x])). }
    simpl. rewrite <- !app_assoc. reflexivity.
Qed.

(* what "adequate" means: at the end of EVERY maximal execution every process has halted, and the readers got [out] *)
Definition clean_outcome (d : desc) (t : net nat) (out : list (list nat)) : Prop :=
  all_halted t /\ ~ deadlocked t /\ received d t = out /\ sinks_done d t = true /\ no_leak t = true.

Lemma clean_lift : forall d t out,
  wellformed d = true -> reach (build d) t ->
  terminalb t = true -> no_leak t = true -> sinks_done d t = true -> received d t = out ->
  forall l' t', exec (build d) l' t' -> terminal t' -> clean_outcome d t' out.
Proof.
  intros d t out W R T L SD RC l' t' E' T'.
  assert (e : t' = t) by (eapply lift_reach; eauto using terminalb_sound). subst t'.
  assert (A : all_halted t) by (apply all_haltedb_sound; exact L).
  repeat split; auto. apply all_halted_not_deadlocked; exact A.
Qed.

Definition map_desc (xs : list nat) (k : nat) : desc := mk_desc [NSource 0 xs; NMap 0 1; NSink 1] [k; 0].
Definition buffered_desc (xs : list nat) (k b : nat) : desc := mk_desc [NSource 0 xs; NBuffered 0 1; NSink 1] [k; b].

(* 1. helper.Map: the reader gets [map f xs] (f := S), every capacity of the input, every schedule *)
Theorem map_adequate : forall xs k l' t',
  exec (build (map_desc xs k)) l' t' -> terminal t' ->
  clean_outcome (map_desc xs k) t' [map S xs].
Proof.
  intros xs k.
  apply (@clean_lift (map_desc xs k) (mp_final S k 0 xs (map S xs))); try reflexivity.
  apply (mp_loop S k 0 xs [] []).
Qed.

(* the capacities [k; 0] are the only ones the Go code allows here *)
Corollary map_adequate_caps : forall xs k0 k1 l' t',
  caps_ok (mk_desc [NSource 0 xs; NMap 0 1; NSink 1] [k0; k1]) = true ->
  exec (build (mk_desc [NSource 0 xs; NMap 0 1; NSink 1] [k0; k1])) l' t' -> terminal t' ->
  clean_outcome (mk_desc [NSource 0 xs; NMap 0 1; NSink 1] [k0; k1]) t' [map S xs].
Proof.
  intros xs k0 k1 l' t' C. unfold caps_ok, cap_at in C. simpl in C.
  rewrite andb_true_r in C. apply Nat.eqb_eq in C. subst k1. apply map_adequate.
Qed.

(* 2. helper.Buffered: the reader gets [xs], every capacity of the input and every buffer size *)
Theorem buffered_adequate : forall xs k b l' t',
  exec (build (buffered_desc xs k b)) l' t' -> terminal t' ->
  clean_outcome (buffered_desc xs k b) t' [xs].
Proof.
  intros xs k b.
  apply (@clean_lift (buffered_desc xs k b) (mp_final (fun v => v) k b xs xs)); try reflexivity.
  pose proof (mp_loop (fun v => v) k b xs [] []) as R. rewrite map_id in R. exact R.
Qed.

Lemma buffered_caps_ok : forall xs k b, caps_ok (buffered_desc xs k b) = true.
Proof. reflexivity. Qed.

(* --------------------------------------------------------------------- *)
(* 3. Skip: source -> skip c -> sink                                       *)
(* --------------------------------------------------------------------- *)

Definition sk_net (c : nat) (s : option (list nat)) (m : kst) (acc : list nat) (fin : bool)
                  (c0 c1 : chan nat) : net nat :=
  mknet [src 0 s; pset (skip 0 1 c) m; snk 1 acc fin] [c0; c1].

Definition sk_final c k0 k1 h0 acc := sk_net c None KDone acc true (cch k0 h0) (cch k1 acc).

(* the input is closed and drained: Skip closes its output, the reader sees it *)
Lemma sk_end : forall c k0 k1 acc h0,
  reach (sk_net c None (KSkip 0) acc false (cch k0 h0) (och k1 acc)) (sk_final c k0 k1 h0 acc).
Proof.
  intros. unfold sk_net, sk_final, src, snk, och, cch.
  eo 1. cl 1. eo 2. apply reach_refl.
Qed.

(* nothing left to skip: Pipe *)
Lemma sk_pipe : forall c k0 k1 r acc h0,
  reach (sk_net c (Some r) (KSkip 0) acc false (och k0 h0) (och k1 acc))
        (sk_final c k0 k1 (h0 ++ r) (acc ++ r)).
Proof.
  intros c k0 k1 r. induction r as [|x r IH]; intros acc h0.
  - rewrite !app_nil_r. eapply reach_trans; [|apply sk_end].
    unfold sk_net, src, snk, och, cch. cl 0. apply reach_refl.
  - eapply reach_trans; [|eapply reach_eq; [apply (IH (acc ++ [x]) (h0 ++ [x]))|]].
    + unfold sk_net, src, snk, och, cch. xf 0 1 0. xf 1 2 1. apply reach_refl.
    + rewrite <- !app_assoc. reflexivity.
Qed.

Lemma sk_loop : forall c k0 k1 n r acc h0,
  reach (sk_net c (Some r) (KSkip n) acc false (och k0 h0) (och k1 acc))
        (sk_final c k0 k1 (h0 ++ r) (acc ++ skipn n r)).
Proof.
  intros c k0 k1 n. induction n as [|n IH]; intros r acc h0.
  - apply sk_pipe.
  - destruct r as [|x r].
    + simpl. rewrite !app_nil_r. eapply reach_trans; [|apply sk_end].
      unfold sk_net, src, snk, och, cch. cl 0. eo 1. apply reach_refl.
    + eapply reach_trans; [|eapply reach_eq; [apply (IH r acc (h0 ++ [x]))|]].
      * unfold sk_net, src, snk, och, cch. xf 0 1 0. apply reach_refl.
      * simpl. rewrite <- !app_assoc. reflexivity.
Qed.

Definition skip_desc (xs : list nat) (c k : nat) : desc := mk_desc [NSource 0 xs; NSkip 0 1 c; NSink 1] [k; k].

(* helper.Skip: the reader gets [skipn c xs], also when c exceeds the length of the input *)
Theorem skip_adequate : forall xs c k l' t',
  exec (build (skip_desc xs c k)) l' t' -> terminal t' ->
  clean_outcome (skip_desc xs c k) t' [skipn c xs].
Proof.
  intros xs c k.
  apply (@clean_lift (skip_desc xs c k) (sk_final c k k xs (skipn c xs))); try reflexivity.
  apply (sk_loop c k k c xs [] []).
Qed.

Corollary skip_adequate_caps : forall xs c k0 k1 l' t',
  caps_ok (mk_desc [NSource 0 xs; NSkip 0 1 c; NSink 1] [k0; k1]) = true ->
  exec (build (mk_desc [NSource 0 xs; NSkip 0 1 c; NSink 1] [k0; k1])) l' t' -> terminal t' ->
  clean_outcome (mk_desc [NSource 0 xs; NSkip 0 1 c; NSink 1] [k0; k1]) t' [skipn c xs].
Proof.
  intros xs c k0 k1 l' t' C. unfold caps_ok, cap_at in C. simpl in C.
  rewrite andb_true_r in C. apply Nat.eqb_eq in C. subst k1. apply skip_adequate.
Qed.

(* --------------------------------------------------------------------- *)
(* 4. Shift: source -> shift c fill -> sink                                *)
(* --------------------------------------------------------------------- *)

Definition sh_net (c f : nat) (s : option (list nat)) (m : sst) (acc : list nat) (fin : bool)
                  (c0 c1 : chan nat) : net nat :=
  mknet [src 0 s; pset (shift 0 1 c f) m; snk 1 acc fin] [c0; c1].

Definition sh_final c f k0 k1 h0 acc := sh_net c f None SDone acc true (cch k0 h0) (cch k1 acc).

(* the [n] remaining fill values go to the reader *)
Lemma sh_fill : forall c f k0 k1 n r acc h0,
  reach (sh_net c f (Some r) (SFill n) acc false (och k0 h0) (och k1 acc))
        (sh_net c f (Some r) (SFill 0) (acc ++ repeat f n) false (och k0 h0) (och k1 (acc ++ repeat f n))).
Proof.
  intros c f k0 k1 n. induction n as [|n IH]; intros r acc h0.
  - simpl. rewrite app_nil_r. apply reach_refl.
  - eapply reach_trans; [|eapply reach_eq; [apply (IH r (acc ++ [f]) h0)|]].
    + unfold sh_net, src, snk, och, cch. xf 1 2 1. apply reach_refl.
    + simpl. rewrite <- !app_assoc. reflexivity.
Qed.

(* Pipe; [SFill 0] and [SWait] both wait for the next input *)
Lemma sh_pipe : forall c f k0 k1 r m acc h0, m = SFill 0 \/ m = SWait ->
  reach (sh_net c f (Some r) m acc false (och k0 h0) (och k1 acc))
        (sh_final c f k0 k1 (h0 ++ r) (acc ++ r)).
Proof.
  intros c f k0 k1 r. induction r as [|x r IH]; intros m acc h0 Hm.
  - rewrite !app_nil_r. unfold sh_net, sh_final, src, snk, och, cch.
    destruct Hm; subst m; (cl 0; eo 1; cl 1; eo 2; apply reach_refl).
  - eapply reach_trans; [|eapply reach_eq; [apply (IH SWait (acc ++ [x]) (h0 ++ [x])); auto|]].
    + unfold sh_net, src, snk, och, cch.
      destruct Hm; subst m; (xf 0 1 0; xf 1 2 1; apply reach_refl).
    + rewrite <- !app_assoc. reflexivity.
Qed.

Definition shift_desc (xs : list nat) (c f k : nat) : desc :=
  mk_desc [NSource 0 xs; NShift 0 1 c f; NSink 1] [k; k + c].

(* helper.Shift: the reader gets c fill values followed by the whole input *)
Theorem shift_adequate : forall xs c f k l' t',
  exec (build (shift_desc xs c f k)) l' t' -> terminal t' ->
  clean_outcome (shift_desc xs c f k) t' [repeat f c ++ xs].
Proof.
  intros xs c f k.
  apply (@clean_lift (shift_desc xs c f k) (sh_final c f k (k + c) xs (repeat f c ++ xs))); try reflexivity.
  eapply reach_trans.
  - apply (sh_fill c f k (k + c) c xs [] []).
  - apply (sh_pipe c f k (k + c) xs (SFill 0) (repeat f c) []). auto.
Qed.

Corollary shift_adequate_caps : forall xs c f k0 k1 l' t',
  caps_ok (mk_desc [NSource 0 xs; NShift 0 1 c f; NSink 1] [k0; k1]) = true ->
  exec (build (mk_desc [NSource 0 xs; NShift 0 1 c f; NSink 1] [k0; k1])) l' t' -> terminal t' ->
  clean_outcome (mk_desc [NSource 0 xs; NShift 0 1 c f; NSink 1] [k0; k1]) t' [repeat f c ++ xs].
Proof.
  intros xs c f k0 k1 l' t' C. unfold caps_ok, cap_at in C. simpl in C.
  rewrite andb_true_r in C. apply Nat.eqb_eq in C. subst k1. apply shift_adequate.
Qed.

(* --------------------------------------------------------------------- *)
(* 5. First and Head: source -> first/head c -> sink                       *)
(* --------------------------------------------------------------------- *)

Definition fh_net (dr : bool) (c : nat) (s : option (list nat)) (m : fst_) (acc : list nat) (fin : bool)
                  (c0 c1 : chan nat) : net nat :=
  mknet [src 0 s; pset (first_or_head dr 0 1 c) m; snk 1 acc fin] [c0; c1].

Definition fi_final c k0 k1 h0 acc := fh_net true c None FDone acc true (cch k0 h0) (cch k1 acc).

(* First has closed its output; it drains the rest of its input, so the producer can finish *)
Lemma fi_drain : forall c k0 k1 r acc h0,
  reach (fh_net true c (Some r) FDrain acc true (och k0 h0) (cch k1 acc))
        (fi_final c k0 k1 (h0 ++ r) acc).
Proof.
  intros c k0 k1 r. induction r as [|x r IH]; intros acc h0.
  - rewrite app_nil_r. unfold fh_net, fi_final, src, snk, och, cch. cl 0. eo 1. apply reach_refl.
  - eapply reach_trans; [|eapply reach_eq; [apply (IH acc (h0 ++ [x]))|]].
    + unfold fh_net, src, snk, och, cch. xf 0 1 0. apply reach_refl.
    + rewrite <- !app_assoc. reflexivity.
Qed.

Lemma fi_loop : forall c k0 k1 n r acc h0,
  reach (fh_net true c (Some r) (FRecv n) acc false (och k0 h0) (och k1 acc))
        (fi_final c k0 k1 (h0 ++ r) (acc ++ firstn n r)).
Proof.
  intros c k0 k1 n. induction n as [|n IH]; intros r acc h0.
  - simpl. rewrite app_nil_r. eapply reach_trans; [|apply fi_drain].
    unfold fh_net, src, snk, och, cch. cl 1. eo 2. apply reach_refl.
  - destruct r as [|x r].
    + simpl. rewrite !app_nil_r. unfold fh_net, fi_final, src, snk, och, cch.
      cl 0. eo 1. cl 1. eo 2. eo 1. apply reach_refl.
    + eapply reach_trans; [|eapply reach_eq; [apply (IH r (acc ++ [x]) (h0 ++ [x]))|]].
      * unfold fh_net, src, snk, och, cch. xf 0 1 0. xf 1 2 1. apply reach_refl.
      * simpl. rewrite <- !app_assoc. reflexivity.
Qed.

Definition first_desc (xs : list nat) (c k : nat) : desc := mk_desc [NSource 0 xs; NFirst 0 1 c; NSink 1] [k; k].

(* helper.First: the reader gets [firstn c xs]; First drains the rest: the producer is not left behind *)
Theorem first_adequate : forall xs c k l' t',
  exec (build (first_desc xs c k)) l' t' -> terminal t' ->
  clean_outcome (first_desc xs c k) t' [firstn c xs].
Proof.
  intros xs c k.
  apply (@clean_lift (first_desc xs c k) (fi_final c k k xs (firstn c xs))); try reflexivity.
  apply (fi_loop c k k c xs [] []).
Qed.

Corollary first_adequate_caps : forall xs c k0 k1 l' t',
  caps_ok (mk_desc [NSource 0 xs; NFirst 0 1 c; NSink 1] [k0; k1]) = true ->
  exec (build (mk_desc [NSource 0 xs; NFirst 0 1 c; NSink 1] [k0; k1])) l' t' -> terminal t' ->
  clean_outcome (mk_desc [NSource 0 xs; NFirst 0 1 c; NSink 1] [k0; k1]) t' [firstn c xs].
Proof.
  intros xs c k0 k1 l' t' C. unfold caps_ok, cap_at in C. simpl in C.
  rewrite andb_true_r in C. apply Nat.eqb_eq in C. subst k1. apply first_adequate.
Qed.

(* ---- Head: no final Drain ---- *)

Lemma do_send : forall (n : net nat) i c p v k ch,
  nth_error (procs n) i = Some p -> pact p = ASend c v k ->
  nth_error (chans n) c = Some ch -> closed ch = false -> length (buf ch) < cap ch ->
  reach n (mknet (upd (procs n) i (pset p k))
                 (upd (chans n) c (mkchan (buf ch ++ [v]) (cap ch) false (sent ch ++ [v])))).
Proof.
  intros n i c p v k ch Hp Ap Hc C L.
  eapply reach_eq.
  - eapply reach_step with (i := i). apply step_iff_gostep. eapply GSendBuffered; eauto.
  - rewrite C. reflexivity.
Qed.

(* Head and the reader are gone; the producer goes on as long as the input channel's buffer has room *)
Lemma hd_push : forall c k0 k1 m r b h acc,
  length b + length m <= k0 ->
  reach (fh_net false c (Some (m ++ r)) FDone acc true (mkchan b k0 false h) (cch k1 acc))
        (fh_net false c (Some r) FDone acc true (mkchan (b ++ m) k0 false (h ++ m)) (cch k1 acc)).
Proof.
  intros c k0 k1 m. induction m as [|x m IH]; intros r b h acc L.
  - simpl. rewrite !app_nil_r. apply reach_refl.
  - eapply reach_trans; [|eapply reach_eq; [apply (IH r (b ++ [x]) (h ++ [x]) acc)|]].
    + unfold fh_net, src, snk, och, cch.
      eapply reach_trans; [eapply (@do_send _ 0); try reflexivity|tidy; apply reach_refl].
      simpl in *. lia.
    + rewrite app_length. simpl in *. lia.
    + rewrite <- !app_assoc. reflexivity.
Qed.

(* where every run of source -> head n -> sink ends, [r] being the input and [acc] what the reader already has *)
Definition hd_final (c k0 k1 n : nat) (r acc h0 : list nat) : net nat :=
  let out := acc ++ firstn n r in
  let rest := skipn n r in
  if length rest <=? k0
  then fh_net false c None FDone out true (mkchan rest k0 true (h0 ++ r)) (cch k1 out)
  else fh_net false c (Some (skipn k0 rest)) FDone out true
              (mkchan (firstn k0 rest) k0 false (h0 ++ firstn n r ++ firstn k0 rest)) (cch k1 out).

Lemma hd_fill : forall c k0 k1 r acc h0,
  reach (fh_net false c (Some r) FDone acc true (och k0 h0) (cch k1 acc))
        (hd_final c k0 k1 0 r acc h0).
Proof.
  intros c k0 k1 r acc h0. unfold hd_final. simpl. rewrite app_nil_r.
  destruct (Nat.leb_spec (length r) k0) as [L|L].
  - eapply reach_trans.
    + pose proof (hd_push c k0 k1 r [] [] h0 acc) as Hp. rewrite app_nil_r in Hp. apply Hp. simpl. lia.
    + simpl. unfold fh_net, src, snk, och, cch. cl 0. apply reach_refl.
  - pose proof (hd_push c k0 k1 (firstn k0 r) (skipn k0 r) [] h0 acc) as Hp.
    rewrite firstn_skipn in Hp. apply Hp. rewrite firstn_length. simpl. lia.
Qed.

Lemma hd_loop : forall c k0 k1 n r acc h0,
  reach (fh_net false c (Some r) (FRecv n) acc false (och k0 h0) (och k1 acc))
        (hd_final c k0 k1 n r acc h0).
Proof.
  intros c k0 k1 n. induction n as [|n IH]; intros r acc h0.
  - eapply reach_trans; [|eapply reach_eq; [apply (hd_fill c k0 k1 r acc h0)|]].
    + unfold fh_net, src, snk, och, cch. cl 1. eo 2. apply reach_refl.
    + reflexivity.
  - destruct r as [|x r].
    + unfold hd_final. simpl. rewrite !app_nil_r. unfold fh_net, src, snk, och, cch.
      cl 0. eo 1. cl 1. eo 2. apply reach_refl.
    + eapply reach_trans; [|eapply reach_eq; [apply (IH r (acc ++ [x]) (h0 ++ [x]))|]].
      * unfold fh_net, src, snk, och, cch. xf 0 1 0. xf 1 2 1. apply reach_refl.
      * unfold hd_final. simpl. rewrite <- !app_assoc. reflexivity.
Qed.

(* the producer wants to send, the buffer is full, nobody will ever receive: nothing can move *)
Lemma hd_blocked_terminal : forall c k0 k1 y r b h out,
  length b = k0 ->
  terminal (fh_net false c (Some (y :: r)) FDone out true (mkchan b k0 false h) (cch k1 out)).
Proof.
  intros c k0 k1 y r b h out L i n' S. apply fire_complete in S. apply S. clear S.
  destruct i as [|[|[|i]]]; [|reflexivity|reflexivity|destruct i; reflexivity].
  unfold fire, fh_net. simpl. rewrite L, Nat.ltb_irrefl.
  destruct k0; [|reflexivity]. destruct b; [|discriminate]. reflexivity.
Qed.

Definition head_desc (xs : list nat) (c k : nat) : desc := mk_desc [NSource 0 xs; NHead 0 1 c; NSink 1] [k; k].

Lemma hd_final_terminal : forall c k0 k1 n r acc h0, terminal (hd_final c k0 k1 n r acc h0).
Proof.
  intros c k0 k1 n r acc h0. unfold hd_final.
  destruct (Nat.leb_spec (length (skipn n r)) k0) as [L|L].
  - apply terminalb_sound. reflexivity.
  - destruct (skipn k0 (skipn n r)) as [|y r'] eqn:E.
    + exfalso. apply (f_equal (@length nat)) in E. rewrite skipn_length in E. simpl in E. lia.
    + apply hd_blocked_terminal. rewrite firstn_length. lia.
Qed.

(* helper.Head: the reader gets [firstn c xs] and finishes, under every schedule.  What is left of the input,
   [skipn c xs], is never read: the producer puts the first k values of it into the buffer of its channel; if that
   is all of it (length xs <= c + k) the producer closes and everybody halts; otherwise (c + k < length xs) the
   producer stays blocked for ever on its next send - a leaked goroutine, under every schedule. *)
Theorem head_delivers_but_leaks : forall xs c k l' t',
  exec (build (head_desc xs c k)) l' t' -> terminal t' ->
  received (head_desc xs c k) t' = [firstn c xs] /\
  sinks_done (head_desc xs c k) t' = true /\
  map (@buf nat) (chans t') = [firstn k (skipn c xs); []] /\
  (length xs <= c + k -> all_halted t' /\ ~ deadlocked t' /\ no_leak t' = true) /\
  (c + k < length xs ->
     deadlocked t' /\ ~ all_halted t' /\ no_leak t' = false /\
     map (@haltedb nat) (procs t') = [false; true; true]).
Proof.
  intros xs c k l' t' E T.
  assert (e : t' = hd_final c k k c xs [] []).
  { eapply lift_reach; eauto.
    - reflexivity.
    - apply (hd_loop c k k c xs [] []).
    - apply hd_final_terminal. }
  subst t'. clear E. unfold hd_final in *. simpl app in *.
  pose proof (skipn_length c xs) as SL.
  destruct (Nat.leb_spec (length (skipn c xs)) k) as [L|L].
  - split; [reflexivity|]. split; [reflexivity|]. split.
    { simpl. rewrite firstn_all2; auto. }
    split; [|intros; exfalso; lia].
    intros _.
    assert (A : all_halted (fh_net false c None FDone (firstn c xs) true
                              (mkchan (skipn c xs) k true xs) (cch k (firstn c xs))))
      by (apply all_haltedb_sound; reflexivity).
    split; [exact A|]. split; [apply all_halted_not_deadlocked; exact A|reflexivity].
  - split; [reflexivity|]. split; [reflexivity|]. split; [reflexivity|].
    split; [intros; exfalso; lia|].
    intros _.
    destruct (skipn k (skipn c xs)) as [|y r'] eqn:Ey.
    { exfalso. apply (f_equal (@length nat)) in Ey. rewrite skipn_length in Ey. simpl in Ey. lia. }
    assert (D : deadlocked (fh_net false c (Some (y :: r')) FDone (firstn c xs) true
                              (mkchan (firstn k (skipn c xs)) k false (firstn c xs ++ firstn k (skipn c xs)))
                              (cch k (firstn c xs)))).
    { split.
      - exact T.
      - exists 0, (src 0 (Some (y :: r'))). split; [reflexivity|]. intros H. exact H. }
    split; [exact D|]. split; [|split; reflexivity].
    intros A. destruct D as [_ [i [p [Hp Hh]]]]. apply Hh. eapply A; eauto.
Qed.

Corollary head_delivers_but_leaks_caps : forall xs c k0 k1 l' t',
  caps_ok (mk_desc [NSource 0 xs; NHead 0 1 c; NSink 1] [k0; k1]) = true ->
  exec (build (mk_desc [NSource 0 xs; NHead 0 1 c; NSink 1] [k0; k1])) l' t' -> terminal t' ->
  received (mk_desc [NSource 0 xs; NHead 0 1 c; NSink 1] [k0; k1]) t' = [firstn c xs] /\
  sinks_done (mk_desc [NSource 0 xs; NHead 0 1 c; NSink 1] [k0; k1]) t' = true /\
  (length xs <= c + k0 -> all_halted t') /\
  (c + k0 < length xs -> deadlocked t').
Proof.
  intros xs c k0 k1 l' t' C E T. unfold caps_ok, cap_at in C. simpl in C.
  rewrite andb_true_r in C. apply Nat.eqb_eq in C. subst k1.
  destruct (head_delivers_but_leaks xs c k0 l' t' E T) as [R [SD [_ [A D]]]].
  split; [exact R|]. split; [exact SD|]. split; intros H; [apply A|apply D]; exact H.
Qed.

(* --------------------------------------------------------------------- *)
(* 6. Duplicate: source -> duplicate -> two sinks                          *)
(* --------------------------------------------------------------------- *)

Definition dp_net (s : option (list nat)) (m : dst) (a1 : list nat) (f1 : bool) (a2 : list nat) (f2 : bool)
                  (c0 c1 c2 : chan nat) : net nat :=
  mknet [src 0 s; pset (duplicate 0 [1; 2]) m; snk 1 a1 f1; snk 2 a2 f2] [c0; c1; c2].

Definition dp_final k0 k1 k2 h0 a1 a2 :=
  dp_net None (DClose []) a1 true a2 true (cch k0 h0) (cch k1 a1) (cch k2 a2).

(* [DWait] and [DSend v []] both wait for the next input *)
Lemma dp_loop : forall k0 k1 k2 r m a1 a2 h0, (m = DWait \/ exists v, m = DSend v []) ->
  reach (dp_net (Some r) m a1 false a2 false (och k0 h0) (och k1 a1) (och k2 a2))
        (dp_final k0 k1 k2 (h0 ++ r) (a1 ++ r) (a2 ++ r)).
Proof.
  intros k0 k1 k2 r. induction r as [|x r IH]; intros m a1 a2 h0 Hm.
  - rewrite !app_nil_r. unfold dp_net, dp_final, src, snk, och, cch.
    destruct Hm as [e|[v e]]; subst m; (cl 0; eo 1; cl 1; cl 1; eo 2; eo 3; apply reach_refl).
  - eapply reach_trans;
      [|eapply reach_eq; [apply (IH (DSend x []) (a1 ++ [x]) (a2 ++ [x]) (h0 ++ [x])); eauto|]].
    + unfold dp_net, src, snk, och, cch.
      destruct Hm as [e|[v e]]; subst m; (xf 0 1 0; xf 1 2 1; xf 1 3 2; apply reach_refl).
    + rewrite <- !app_assoc. reflexivity.
Qed.

Definition dup_desc (xs : list nat) (k : nat) : desc :=
  mk_desc [NSource 0 xs; NDup 0 [1; 2]; NSink 1; NSink 2] [k; k; k].

(* helper.Duplicate: both readers get the whole input *)
Theorem duplicate_adequate : forall xs k l' t',
  exec (build (dup_desc xs k)) l' t' -> terminal t' ->
  clean_outcome (dup_desc xs k) t' [xs; xs].
Proof.
  intros xs k.
  apply (@clean_lift (dup_desc xs k) (dp_final k k k xs xs xs)); try reflexivity.
  apply (dp_loop k k k xs DWait [] [] []). auto.
Qed.

Corollary duplicate_adequate_caps : forall xs k0 k1 k2 l' t',
  caps_ok (mk_desc [NSource 0 xs; NDup 0 [1; 2]; NSink 1; NSink 2] [k0; k1; k2]) = true ->
  exec (build (mk_desc [NSource 0 xs; NDup 0 [1; 2]; NSink 1; NSink 2] [k0; k1; k2])) l' t' -> terminal t' ->
  clean_outcome (mk_desc [NSource 0 xs; NDup 0 [1; 2]; NSink 1; NSink 2] [k0; k1; k2]) t' [xs; xs].
Proof.
  intros xs k0 k1 k2 l' t' C. unfold caps_ok, cap_at in C. simpl in C.
  rewrite !andb_true_r in C. apply andb_true_iff in C. destruct C as [C1 C2].
  apply Nat.eqb_eq in C1. apply Nat.eqb_eq in C2. subst k1 k2. apply duplicate_adequate.
Qed.

(* --------------------------------------------------------------------- *)
(* 7. Operate: two independent sources -> operate -> sink                  *)
(* --------------------------------------------------------------------- *)

(* a producer and its (empty) channel: still sending, or finished and closed *)
Definition sch (k : nat) (s : option (list nat)) (h : list nat) : chan nat :=
  mkchan [] k (match s with None => true | Some _ => false end) h.
Definition rem (s : option (list nat)) : list nat := match s with Some r => r | None => [] end.

Definition op_net (s0 s1 : option (list nat)) (m : ost) (acc : list nat) (fin : bool)
                  (c0 c1 c2 : chan nat) : net nat :=
  mknet [src 0 s0; src 1 s1; pset (operate 0 1 2) m; snk 2 acc fin] [c0; c1; c2].

Definition op_final k0 k1 k2 h0 h1 acc :=
  op_net None None ODone acc true (cch k0 h0) (cch k1 h1) (cch k2 acc).

Lemma op_drain1_some : forall k0 k1 k2 r h0 h1 acc,
  reach (op_net None (Some r) (ODrain 1) acc false (cch k0 h0) (och k1 h1) (och k2 acc))
        (op_final k0 k1 k2 h0 (h1 ++ r) acc).
Proof.
  intros k0 k1 k2 r. induction r as [|x r IH]; intros h0 h1 acc.
  - rewrite app_nil_r. unfold op_net, op_final, src, snk, och, cch.
    cl 1. eo 2. cl 2. eo 3. apply reach_refl.
  - eapply reach_trans; [|eapply reach_eq; [apply (IH h0 (h1 ++ [x]) acc)|]].
    + unfold op_net, src, snk, och, cch. xf 1 2 1. apply reach_refl.
    + rewrite <- !app_assoc. reflexivity.
Qed.

Lemma op_drain1 : forall k0 k1 k2 s1 h0 h1 acc,
  reach (op_net None s1 (ODrain 1) acc false (cch k0 h0) (sch k1 s1 h1) (och k2 acc))
        (op_final k0 k1 k2 h0 (h1 ++ rem s1) acc).
Proof.
  intros k0 k1 k2 [r|] h0 h1 acc.
  - apply op_drain1_some.
  - simpl. rewrite app_nil_r. unfold op_net, op_final, src, snk, och, cch, sch.
    eo 2. cl 2. eo 3. apply reach_refl.
Qed.

Lemma op_drain0_some : forall k0 k1 k2 r h0 h1 acc,
  reach (op_net (Some r) None (ODrain 0) acc false (och k0 h0) (cch k1 h1) (och k2 acc))
        (op_final k0 k1 k2 (h0 ++ r) h1 acc).
Proof.
  intros k0 k1 k2 r. induction r as [|x r IH]; intros h0 h1 acc.
  - rewrite app_nil_r. unfold op_net, op_final, src, snk, och, cch.
    cl 0. eo 2. cl 2. eo 3. apply reach_refl.
  - eapply reach_trans; [|eapply reach_eq; [apply (IH (h0 ++ [x]) h1 acc)|]].
    + unfold op_net, src, snk, och, cch. xf 0 2 0. apply reach_refl.
    + rewrite <- !app_assoc. reflexivity.
Qed.

Definition zip_plus (xs ys : list nat) : list nat := map (fun p => fst p + snd p) (combine xs ys).

Lemma op_loop : forall k0 k1 k2 xs ys acc h0 h1,
  reach (op_net (Some xs) (Some ys) ORecvA acc false (och k0 h0) (och k1 h1) (och k2 acc))
        (op_final k0 k1 k2 (h0 ++ xs) (h1 ++ ys) (acc ++ zip_plus xs ys)).
Proof.
  intros k0 k1 k2 xs. induction xs as [|x xs IH]; intros ys acc h0 h1.
  - unfold zip_plus. simpl. rewrite !app_nil_r.
    eapply reach_trans; [|apply (op_drain1 k0 k1 k2 (Some ys) h0 h1 acc)].
    unfold op_net, src, snk, och, cch, sch. cl 0. eo 2. apply reach_refl.
  - destruct ys as [|y ys].
    + unfold zip_plus. simpl. rewrite !app_nil_r.
      eapply reach_trans; [|eapply reach_eq; [apply (op_drain0_some k0 k1 k2 xs (h0 ++ [x]) h1 acc)|]].
      * unfold op_net, src, snk, och, cch. xf 0 2 0. cl 1. eo 2. apply reach_refl.
      * rewrite <- !app_assoc. reflexivity.
    + eapply reach_trans;
        [|eapply reach_eq; [apply (IH ys (acc ++ [x + y]) (h0 ++ [x]) (h1 ++ [y]))|]].
      * unfold op_net, src, snk, och, cch. xf 0 2 0. xf 1 2 1. xf 2 3 2. apply reach_refl.
      * unfold zip_plus. simpl. rewrite <- !app_assoc. reflexivity.
Qed.

Definition operate_desc (xs ys : list nat) (k1 k2 : nat) : desc :=
  mk_desc [NSource 0 xs; NSource 1 ys; NOperate 0 1 2; NSink 2] [k1; k2; 0].

(* helper.Operate: the reader gets the pointwise sums up to the shorter input; Operate drains the longer one, so
   that both producers finish - for ALL xs, ys (unequal lengths included) *)
Theorem operate_adequate : forall xs ys k1 k2 l' t',
  exec (build (operate_desc xs ys k1 k2)) l' t' -> terminal t' ->
  clean_outcome (operate_desc xs ys k1 k2) t' [map (fun p => fst p + snd p) (combine xs ys)].
Proof.
  intros xs ys k1 k2.
  apply (@clean_lift (operate_desc xs ys k1 k2) (op_final k1 k2 0 xs ys (zip_plus xs ys))); try reflexivity.
  apply (op_loop k1 k2 0 xs ys [] [] []).
Qed.

Corollary operate_adequate_caps : forall xs ys k0 k1 k2 l' t',
  caps_ok (mk_desc [NSource 0 xs; NSource 1 ys; NOperate 0 1 2; NSink 2] [k0; k1; k2]) = true ->
  exec (build (mk_desc [NSource 0 xs; NSource 1 ys; NOperate 0 1 2; NSink 2] [k0; k1; k2])) l' t' -> terminal t' ->
  clean_outcome (mk_desc [NSource 0 xs; NSource 1 ys; NOperate 0 1 2; NSink 2] [k0; k1; k2]) t'
                [map (fun p => fst p + snd p) (combine xs ys)].
Proof.
  intros xs ys k0 k1 k2 l' t' C. unfold caps_ok, cap_at in C. simpl in C.
  rewrite andb_true_r in C. apply Nat.eqb_eq in C. subst k2. apply operate_adequate.
Qed.

(* --------------------------------------------------------------------- *)
(* 8. Operate3: three independent sources -> operate3 -> sink              *)
(* --------------------------------------------------------------------- *)

Definition o3_net (s0 s1 s2 : option (list nat)) (m : o3st) (acc : list nat) (fin : bool)
                  (c0 c1 c2 c3 : chan nat) : net nat :=
  mknet [src 0 s0; src 1 s1; src 2 s2; pset (operate3 0 1 2 3) m; snk 3 acc fin] [c0; c1; c2; c3].

Definition o3_final k0 k1 k2 k3 h0 h1 h2 acc :=
  o3_net None None None O3Done acc true (cch k0 h0) (cch k1 h1) (cch k2 h2) (cch k3 acc).

(* the sequential drains: first input, then second, then third; each producer is either still sending or done *)
Lemma o3_drainC_some : forall k0 k1 k2 k3 r h0 h1 h2 acc,
  reach (o3_net None None (Some r) O3DrainC acc false (cch k0 h0) (cch k1 h1) (och k2 h2) (och k3 acc))
        (o3_final k0 k1 k2 k3 h0 h1 (h2 ++ r) acc).
Proof.
  intros k0 k1 k2 k3 r. induction r as [|x r IH]; intros h0 h1 h2 acc.
  - rewrite app_nil_r. unfold o3_net, o3_final, src, snk, och, cch.
    cl 2. eo 3. cl 3. eo 4. apply reach_refl.
  - eapply reach_trans; [|eapply reach_eq; [apply (IH h0 h1 (h2 ++ [x]) acc)|]].
    + unfold o3_net, src, snk, och, cch. xf 2 3 2. apply reach_refl.
    + rewrite <- !app_assoc. reflexivity.
Qed.

Lemma o3_drainC : forall k0 k1 k2 k3 s2 h0 h1 h2 acc,
  reach (o3_net None None s2 O3DrainC acc false (cch k0 h0) (cch k1 h1) (sch k2 s2 h2) (och k3 acc))
        (o3_final k0 k1 k2 k3 h0 h1 (h2 ++ rem s2) acc).
Proof.
  intros k0 k1 k2 k3 [r|] h0 h1 h2 acc.
  - apply o3_drainC_some.
  - simpl. rewrite app_nil_r. unfold o3_net, o3_final, src, snk, och, cch, sch.
    eo 3. cl 3. eo 4. apply reach_refl.
Qed.

Lemma o3_drainB_some : forall k0 k1 k2 k3 r s2 h0 h1 h2 acc,
  reach (o3_net None (Some r) s2 O3DrainB acc false (cch k0 h0) (och k1 h1) (sch k2 s2 h2) (och k3 acc))
        (o3_final k0 k1 k2 k3 h0 (h1 ++ r) (h2 ++ rem s2) acc).
Proof.
  intros k0 k1 k2 k3 r. induction r as [|x r IH]; intros s2 h0 h1 h2 acc.
  - rewrite app_nil_r. eapply reach_trans; [|apply o3_drainC].
    unfold o3_net, src, snk, och, cch. cl 1. eo 3. apply reach_refl.
  - eapply reach_trans; [|eapply reach_eq; [apply (IH s2 h0 (h1 ++ [x]) h2 acc)|]].
    + unfold o3_net, src, snk, och, cch. xf 1 3 1. apply reach_refl.
    + rewrite <- !app_assoc. reflexivity.
Qed.

Lemma o3_drainB : forall k0 k1 k2 k3 s1 s2 h0 h1 h2 acc,
  reach (o3_net None s1 s2 O3DrainB acc false (cch k0 h0) (sch k1 s1 h1) (sch k2 s2 h2) (och k3 acc))
        (o3_final k0 k1 k2 k3 h0 (h1 ++ rem s1) (h2 ++ rem s2) acc).
Proof.
  intros k0 k1 k2 k3 [r|] s2 h0 h1 h2 acc.
  - apply o3_drainB_some.
  - simpl. rewrite app_nil_r. eapply reach_trans; [|apply o3_drainC].
    unfold o3_net, src, snk, och, cch, sch. eo 3. apply reach_refl.
Qed.

Lemma o3_drainA_some : forall k0 k1 k2 k3 r s1 s2 h0 h1 h2 acc,
  reach (o3_net (Some r) s1 s2 O3DrainA acc false (och k0 h0) (sch k1 s1 h1) (sch k2 s2 h2) (och k3 acc))
        (o3_final k0 k1 k2 k3 (h0 ++ r) (h1 ++ rem s1) (h2 ++ rem s2) acc).
Proof.
  intros k0 k1 k2 k3 r. induction r as [|x r IH]; intros s1 s2 h0 h1 h2 acc.
  - rewrite app_nil_r. eapply reach_trans; [|apply o3_drainB].
    unfold o3_net, src, snk, och, cch. cl 0. eo 3. apply reach_refl.
  - eapply reach_trans; [|eapply reach_eq; [apply (IH s1 s2 (h0 ++ [x]) h1 h2 acc)|]].
    + unfold o3_net, src, snk, och, cch. xf 0 3 0. apply reach_refl.
    + rewrite <- !app_assoc. reflexivity.
Qed.

Definition zip3_plus (xs ys zs : list nat) : list nat :=
  map (fun p => fst (fst p) + snd (fst p) + snd p) (combine (combine xs ys) zs).

Lemma o3_loop : forall k0 k1 k2 k3 xs ys zs acc h0 h1 h2,
  reach (o3_net (Some xs) (Some ys) (Some zs) O3A acc false (och k0 h0) (och k1 h1) (och k2 h2) (och k3 acc))
        (o3_final k0 k1 k2 k3 (h0 ++ xs) (h1 ++ ys) (h2 ++ zs) (acc ++ zip3_plus xs ys zs)).
Proof.
  intros k0 k1 k2 k3 xs. induction xs as [|x xs IH]; intros ys zs acc h0 h1 h2.
  - unfold zip3_plus. simpl. rewrite !app_nil_r.
    (* first input exhausted: it closes, Operate3 sees it, drains b then c *)
    eapply reach_trans; [|apply (o3_drainB k0 k1 k2 k3 (Some ys) (Some zs) h0 h1 h2 acc)].
    unfold o3_net, src, snk, och, cch, sch. cl 0. eo 3. eo 3. apply reach_refl.
  - destruct ys as [|y ys].
    + unfold zip3_plus. simpl. rewrite !app_nil_r.
      eapply reach_trans;
        [|eapply reach_eq; [apply (o3_drainA_some k0 k1 k2 k3 xs None (Some zs) (h0 ++ [x]) h1 h2 acc)|]].
      * unfold o3_net, src, snk, och, cch, sch. xf 0 3 0. cl 1. eo 3. apply reach_refl.
      * simpl. rewrite <- !app_assoc, !app_nil_r. reflexivity.
    + destruct zs as [|z zs].
      * unfold zip3_plus. simpl. rewrite !app_nil_r.
        eapply reach_trans;
          [|eapply reach_eq;
             [apply (o3_drainA_some k0 k1 k2 k3 xs (Some ys) None (h0 ++ [x]) (h1 ++ [y]) h2 acc)|]].
        -- unfold o3_net, src, snk, och, cch, sch. xf 0 3 0. xf 1 3 1. cl 2. eo 3. apply reach_refl.
        -- simpl. rewrite <- !app_assoc, !app_nil_r. reflexivity.
      * eapply reach_trans;
          [|eapply reach_eq;
             [apply (IH ys zs (acc ++ [x + y + z]) (h0 ++ [x]) (h1 ++ [y]) (h2 ++ [z]))|]].
        -- unfold o3_net, src, snk, och, cch. xf 0 3 0. xf 1 3 1. xf 2 3 2. xf 3 4 3. apply reach_refl.
        -- unfold zip3_plus. simpl. rewrite <- !app_assoc. reflexivity.
Qed.

Definition operate3_desc (xs ys zs : list nat) (k1 k2 k3 : nat) : desc :=
  mk_desc [NSource 0 xs; NSource 1 ys; NSource 2 zs; NOperate3 0 1 2 3; NSink 3] [k1; k2; k3; 0].

(* helper.Operate3 fed by three INDEPENDENT producers: pointwise sums up to the shortest input, the sequential
   drains let every producer finish (contrast [operate3_sequential_drain_deadlocks], where two inputs come from one
   Duplicate) *)
Theorem operate3_adequate : forall xs ys zs k1 k2 k3 l' t',
  exec (build (operate3_desc xs ys zs k1 k2 k3)) l' t' -> terminal t' ->
  clean_outcome (operate3_desc xs ys zs k1 k2 k3) t'
    [map (fun p => fst (fst p) + snd (fst p) + snd p) (combine (combine xs ys) zs)].
Proof.
  intros xs ys zs k1 k2 k3.
  apply (@clean_lift (operate3_desc xs ys zs k1 k2 k3)
           (o3_final k1 k2 k3 0 xs ys zs (zip3_plus xs ys zs))); try reflexivity.
  apply (o3_loop k1 k2 k3 0 xs ys zs [] [] [] []).
Qed.

(* --------------------------------------------------------------------- *)
(* 9. Two stages chained: source -> skip c -> map -> sink                  *)
(* --------------------------------------------------------------------- *)

Definition sm_net (c : nat) (s : option (list nat)) (m1 : kst) (m2 : mst) (acc : list nat) (fin : bool)
                  (c0 c1 c2 : chan nat) : net nat :=
  mknet [src 0 s; pset (skip 0 1 c) m1; pset (mapper S 1 2) m2; snk 2 acc fin] [c0; c1; c2].

Definition sm_final c k0 k1 k2 h0 h1 acc :=
  sm_net c None KDone MDone acc true (cch k0 h0) (cch k1 h1) (cch k2 acc).

Lemma sm_end : forall c k0 k1 k2 acc h0 h1,
  reach (sm_net c None (KSkip 0) MWait acc false (cch k0 h0) (och k1 h1) (och k2 acc))
        (sm_final c k0 k1 k2 h0 h1 acc).
Proof.
  intros. unfold sm_net, sm_final, src, snk, och, cch.
  eo 1. cl 1. eo 2. cl 2. eo 3. apply reach_refl.
Qed.

Lemma sm_pipe : forall c k0 k1 k2 r acc h0 h1,
  reach (sm_net c (Some r) (KSkip 0) MWait acc false (och k0 h0) (och k1 h1) (och k2 acc))
        (sm_final c k0 k1 k2 (h0 ++ r) (h1 ++ r) (acc ++ map S r)).
Proof.
  intros c k0 k1 k2 r. induction r as [|x r IH]; intros acc h0 h1.
  - simpl. rewrite !app_nil_r. eapply reach_trans; [|apply sm_end].
    unfold sm_net, src, snk, och, cch. cl 0. apply reach_refl.
  - eapply reach_trans; [|eapply reach_eq; [apply (IH (acc ++ [S x]) (h0 ++ [x]) (h1 ++ [x]))|]].
    + unfold sm_net, src, snk, och, cch. xf 0 1 0. xf 1 2 1. xf 2 3 2. apply reach_refl.
    + simpl. rewrite <- !app_assoc. reflexivity.
Qed.

Lemma sm_loop : forall c k0 k1 k2 n r acc h0 h1,
  reach (sm_net c (Some r) (KSkip n) MWait acc false (och k0 h0) (och k1 h1) (och k2 acc))
        (sm_final c k0 k1 k2 (h0 ++ r) (h1 ++ skipn n r) (acc ++ map S (skipn n r))).
Proof.
  intros c k0 k1 k2 n. induction n as [|n IH]; intros r acc h0 h1.
  - apply sm_pipe.
  - destruct r as [|x r].
    + simpl. rewrite !app_nil_r. eapply reach_trans; [|apply sm_end].
      unfold sm_net, src, snk, och, cch. cl 0. eo 1. apply reach_refl.
    + eapply reach_trans; [|eapply reach_eq; [apply (IH r acc (h0 ++ [x]) h1)|]].
      * unfold sm_net, src, snk, och, cch. xf 0 1 0. apply reach_refl.
      * simpl. rewrite <- !app_assoc. reflexivity.
Qed.

Definition skip_map_desc (xs : list nat) (c k : nat) : desc :=
  mk_desc [NSource 0 xs; NSkip 0 1 c; NMap 1 2; NSink 2] [k; k; 0].

Lemma skip_map_caps_ok : forall xs c k, caps_ok (skip_map_desc xs c k) = true.
Proof. intros. unfold caps_ok, cap_at. simpl. rewrite Nat.eqb_refl. reflexivity. Qed.

(* Map after Skip: the composition of the two list functions *)
Theorem skip_then_map_adequate : forall xs c k l' t',
  exec (build (skip_map_desc xs c k)) l' t' -> terminal t' ->
  clean_outcome (skip_map_desc xs c k) t' [map S (skipn c xs)].
Proof.
  intros xs c k.
  apply (@clean_lift (skip_map_desc xs c k) (sm_final c k k 0 xs (skipn c xs) (map S (skipn c xs))));
    try reflexivity.
  apply (sm_loop c k k 0 c xs [] [] []).
Qed.

(* --------------------------------------------------------------------- *)
(* The descriptions obey the capacity rules of the Go code                 *)
(* --------------------------------------------------------------------- *)

Lemma map_caps_ok : forall xs k, caps_ok (map_desc xs k) = true.
Proof. reflexivity. Qed.
Lemma skip_caps_ok : forall xs c k, caps_ok (skip_desc xs c k) = true.
Proof. intros. unfold caps_ok, cap_at. simpl. rewrite Nat.eqb_refl. reflexivity. Qed.
Lemma shift_caps_ok : forall xs c f k, caps_ok (shift_desc xs c f k) = true.
Proof. intros. unfold caps_ok, cap_at. simpl. rewrite Nat.eqb_refl. reflexivity. Qed.
Lemma first_caps_ok : forall xs c k, caps_ok (first_desc xs c k) = true.
Proof. intros. unfold caps_ok, cap_at. simpl. rewrite Nat.eqb_refl. reflexivity. Qed.
Lemma head_caps_ok : forall xs c k, caps_ok (head_desc xs c k) = true.
Proof. intros. unfold caps_ok, cap_at. simpl. rewrite Nat.eqb_refl. reflexivity. Qed.
Lemma dup_caps_ok : forall xs k, caps_ok (dup_desc xs k) = true.
Proof. intros. unfold caps_ok, cap_at. simpl. rewrite Nat.eqb_refl. reflexivity. Qed.
Lemma operate_caps_ok : forall xs ys k1 k2, caps_ok (operate_desc xs ys k1 k2) = true.
Proof. reflexivity. Qed.
Lemma operate3_caps_ok : forall xs ys zs k1 k2 k3, caps_ok (operate3_desc xs ys zs k1 k2 k3) = true.
Proof. reflexivity. Qed.

Print Assumptions map_adequate.
Print Assumptions map_adequate_caps.
Print Assumptions buffered_adequate.
Print Assumptions skip_adequate.
Print Assumptions skip_adequate_caps.
Print Assumptions shift_adequate.
Print Assumptions shift_adequate_caps.
Print Assumptions first_adequate.
Print Assumptions first_adequate_caps.
Print Assumptions head_delivers_but_leaks.
Print Assumptions head_delivers_but_leaks_caps.
Print Assumptions duplicate_adequate.
Print Assumptions duplicate_adequate_caps.
Print Assumptions operate_adequate.
Print Assumptions operate_adequate_caps.
Print Assumptions operate3_adequate.
Print Assumptions skip_then_map_adequate.

(* --------------------------------------------------------------------- *)
(* The theorems above are not vacuous: a maximal execution exists, and    *)
(* no schedule runs for ever                                               *)
(* --------------------------------------------------------------------- *)

Definition always_terminates (d : desc) : Prop :=
  (exists l t, exec (build d) l t /\ terminal t) /\
  (forall (st : nat -> net nat) (sch : nat -> nat),
     st 0 = build d -> (forall k, step (st k) (sch k) (st (S k))) -> False).

Lemma terminates_lift : forall d t,
  wellformed d = true -> reach (build d) t -> terminal t -> always_terminates d.
Proof.
  intros d t W [l E] T. split.
  - exists l, t. auto.
  - apply (@no_infinite_execution nat (rd_of d) (wr_of d) (build d) l t); auto.
    apply build_wf; exact W.
Qed.

Lemma map_terminates : forall xs k, always_terminates (map_desc xs k).
Proof.
  intros. eapply terminates_lift; [reflexivity|apply (mp_loop S k 0 xs [] [])|apply terminalb_sound; reflexivity].
Qed.
Lemma buffered_terminates : forall xs k b, always_terminates (buffered_desc xs k b).
Proof.
  intros. eapply terminates_lift;
    [reflexivity|apply (mp_loop (fun v => v) k b xs [] [])|apply terminalb_sound; reflexivity].
Qed.
Lemma skip_terminates : forall xs c k, always_terminates (skip_desc xs c k).
Proof.
  intros. eapply terminates_lift; [reflexivity|apply (sk_loop c k k c xs [] [])|apply terminalb_sound; reflexivity].
Qed.
Lemma shift_terminates : forall xs c f k, always_terminates (shift_desc xs c f k).
Proof.
  intros. apply (@terminates_lift _ (sh_final c f k (k + c) xs (repeat f c ++ xs)));
    [reflexivity| |apply terminalb_sound; reflexivity].
  eapply reach_trans; [apply (sh_fill c f k (k + c) c xs [] [])|].
  apply (sh_pipe c f k (k + c) xs (SFill 0) (repeat f c) []). auto.
Qed.
Lemma first_terminates : forall xs c k, always_terminates (first_desc xs c k).
Proof.
  intros. eapply terminates_lift; [reflexivity|apply (fi_loop c k k c xs [] [])|apply terminalb_sound; reflexivity].
Qed.
Lemma head_terminates : forall xs c k, always_terminates (head_desc xs c k).
Proof.
  intros. eapply terminates_lift; [reflexivity|apply (hd_loop c k k c xs [] [])|apply hd_final_terminal].
Qed.
Lemma dup_terminates : forall xs k, always_terminates (dup_desc xs k).
Proof.
  intros. eapply terminates_lift;
    [reflexivity|apply (dp_loop k k k xs DWait [] [] []); auto|apply terminalb_sound; reflexivity].
Qed.
Lemma operate_terminates : forall xs ys k1 k2, always_terminates (operate_desc xs ys k1 k2).
Proof.
  intros. eapply terminates_lift;
    [reflexivity|apply (op_loop k1 k2 0 xs ys [] [] [])|apply terminalb_sound; reflexivity].
Qed.
Lemma operate3_terminates : forall xs ys zs k1 k2 k3, always_terminates (operate3_desc xs ys zs k1 k2 k3).
Proof.
  intros. eapply terminates_lift;
    [reflexivity|apply (o3_loop k1 k2 k3 0 xs ys zs [] [] [] [])|apply terminalb_sound; reflexivity].
Qed.
Lemma skip_map_terminates : forall xs c k, always_terminates (skip_map_desc xs c k).
Proof.
  intros. eapply terminates_lift;
    [reflexivity|apply (sm_loop c k k 0 c xs [] [] [])|apply terminalb_sound; reflexivity].
Qed.

Theorem helpers_always_terminate :
  (forall xs k, always_terminates (map_desc xs k)) /\
  (forall xs k b, always_terminates (buffered_desc xs k b)) /\
  (forall xs c k, always_terminates (skip_desc xs c k)) /\
  (forall xs c f k, always_terminates (shift_desc xs c f k)) /\
  (forall xs c k, always_terminates (first_desc xs c k)) /\
  (forall xs c k, always_terminates (head_desc xs c k)) /\
  (forall xs k, always_terminates (dup_desc xs k)) /\
  (forall xs ys k1 k2, always_terminates (operate_desc xs ys k1 k2)) /\
  (forall xs ys zs k1 k2 k3, always_terminates (operate3_desc xs ys zs k1 k2 k3)) /\
  (forall xs c k, always_terminates (skip_map_desc xs c k)).
Proof.
  exact (conj map_terminates (conj buffered_terminates (conj skip_terminates (conj shift_terminates
        (conj first_terminates (conj head_terminates (conj dup_terminates (conj operate_terminates
        (conj operate3_terminates skip_map_terminates))))))))).
Qed.

Print Assumptions helpers_always_terminate.
