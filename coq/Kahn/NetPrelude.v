(* C03: a builder for pipeline descriptions (Kahn/Helpers.v), used by the network definitions the translator generates
   from the Go sources (coq/Gen/All.v, "*_net"): every call of a channel helper adds the node of that helper's goroutine
   and the channel it makes, with the capacity the Go code gives it.  Channels are numbers; a Go function that takes and
   returns channels becomes a function from channel numbers to a builder action returning channel numbers. *)
From Coq Require Import List Arith ZArith Bool.
Import ListNotations.
From Verif Require Import Kahn.Kahn Kahn.Helpers.

Record nb := mk_nb { nb_nodes : list node; nb_caps : list nat }.
Definition M (A : Type) : Type := nb -> A * nb.
Definition ret {A} (x : A) : M A := fun s => (x, s).
Definition bind {A B} (m : M A) (f : A -> M B) : M B := fun s => let (x, s') := m s in f x s'.

Definition fresh (cap : nat) : M nat := fun s => (List.length (nb_caps s), mk_nb (nb_nodes s) (nb_caps s ++ [cap])).
Definition emit (nd : node) : M unit := fun s => (tt, mk_nb (nb_nodes s ++ [nd]) (nb_caps s)).
Definition cap_of (c : nat) : M nat := fun s => (nth c (nb_caps s) 0, s).

Definition zn (z : Z) : nat := Z.to_nat z.

(* make(chan T): Map, Apply, MapWithPrevious, Count and every helper written with them *)
Definition n_map (c : nat) : M nat := bind (fresh 0) (fun o => bind (emit (NMap c o)) (fun _ => ret o)).
(* helper.Operate / Operate3: make(chan R) *)
Definition n_operate (a b : nat) : M nat := bind (fresh 0) (fun o => bind (emit (NOperate a b o)) (fun _ => ret o)).
Definition n_operate3 (a b c : nat) : M nat := bind (fresh 0) (fun o => bind (emit (NOperate3 a b c o)) (fun _ => ret o)).
(* helper.Duplicate: count channels of capacity cap(input) *)
Fixpoint fresh_n (n cap : nat) : M (list nat) :=
  match n with O => ret [] | S n' => bind (fresh cap) (fun o => bind (fresh_n n' cap) (fun r => ret (o :: r))) end.
Definition n_duplicate (c : nat) (count : Z) : M (list nat) :=
  bind (cap_of c) (fun k => bind (fresh_n (zn count) k) (fun outs => bind (emit (NDup c outs)) (fun _ => ret outs))).
(* helper.Skip / First / Head: make(chan T, cap(c)) *)
Definition n_skip (c : nat) (count : Z) : M nat :=
  bind (cap_of c) (fun k => bind (fresh k) (fun o => bind (emit (NSkip c o (zn count))) (fun _ => ret o))).
Definition n_first (c : nat) (count : Z) : M nat :=
  bind (cap_of c) (fun k => bind (fresh k) (fun o => bind (emit (NFirst c o (zn count))) (fun _ => ret o))).
Definition n_head (c : nat) (count : Z) : M nat :=
  bind (cap_of c) (fun k => bind (fresh k) (fun o => bind (emit (NHead c o (zn count))) (fun _ => ret o))).
(* helper.Shift: make(chan T, cap(c)+count) *)
Definition n_shift (c : nat) (count : Z) : M nat :=
  bind (cap_of c) (fun k => bind (fresh (k + zn count)) (fun o => bind (emit (NShift c o (zn count) 0)) (fun _ => ret o))).
(* helper.Buffered: make(chan T, size); go Pipe *)
Definition n_buffered (c : nat) (size : Z) : M nat := bind (fresh (zn size)) (fun o => bind (emit (NBuffered c o)) (fun _ => ret o)).
(* go helper.Drain(c) *)
Definition n_drain (c : nat) : M unit := emit (NSink c).
(* a goroutine that consumes [lag] values before it emits its first one and then emits one value per value consumed, on a
   channel of capacity cap(c): the channel behaviour of the EMA/RMA/SMMA seed loop, the moving standard deviation, the WMA ring *)
Definition n_lagging (c : nat) (lag : Z) : M nat := n_skip c lag.

Fixpoint set_nth_nat (i : nat) (x : nat) (l : list nat) : list nat :=
  match l, i with
  | [], _ => []
  | _ :: r, O => x :: r
  | y :: r, S i' => y :: set_nth_nat i' x r
  end.
Definition chan_at (l : list nat) (i : Z) : nat := nth (zn i) l 0.

(* the description of a whole call: one producer per input (capacity [kin], [lens] values each), one reader per output *)
Fixpoint add_sources (kin : nat) (lens : list nat) : M (list nat) :=
  match lens with
  | [] => ret []
  | n :: r => bind (fresh kin) (fun c => bind (emit (NSource c (seq 1 n))) (fun _ => bind (add_sources kin r) (fun cs => ret (c :: cs))))
  end.
Fixpoint add_sinks (outs : list nat) : M unit :=
  match outs with [] => ret tt | o :: r => bind (emit (NSink o)) (fun _ => add_sinks r) end.

Definition desc_of (kin : nat) (lens : list nat) (body : list nat -> M (list nat)) : desc :=
  let '(_, s) := bind (add_sources kin lens) (fun ins => bind (body ins) add_sinks) (mk_nb [] []) in
  mk_desc (nb_nodes s) (nb_caps s).
