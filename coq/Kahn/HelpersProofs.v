(* C03: proofs about the channel helpers of Kahn/Helpers.v.
   1. every wellformed description denotes a network that satisfies the local ownership condition [net_ok] of Kahn.v,
      hence is well-formed ([wf]) and falls under the determinacy theorem;
   2. the lifting theorem: ONE terminating run of the round-robin scheduler decides the outcome of EVERY schedule
      (same final state, same histories, same observations, same number of steps), with its corollaries for clean
      termination, deadlock and boundedness;
   3. the concrete patterns of the Go code (diamond with / without buffer, Operate draining, Head leaking its producer,
      First not leaking, Operate3's sequential drain), each established by one computed run and lifted to all schedules;
   4. a parametric family: source -> sink completes for every input and every capacity.
   Standard library only, no axioms. *)
From Coq Require Import List Arith Bool Lia Permutation.
Import ListNotations.
From Verif Require Import Kahn.Kahn Kahn.Helpers.

(* --------------------------------------------------------------------- *)
(* 1. build d satisfies net_ok                                             *)
(* --------------------------------------------------------------------- *)

(* the action only touches channels the node declares in the matching role *)
Definition act_in (nd : node) (S : Type) (a : act nat S) : Prop :=
  match a with
  | ARecv c _ => In c (reads nd)
  | ASend c _ _ => In c (writes nd)
  | AClose c _ => In c (writes nd)
  | AHalt => True
  end.
Arguments act_in nd [S] a.

(* invariants of the reachable local states *)
Lemma preach_inv : forall (p : proc nat) (Inv : pS p -> Prop),
  Inv (pst p) ->
  (forall s, Inv s -> match pnext p s with
                      | ARecv _ k => forall o, Inv (k o)
                      | ASend _ _ k => Inv k
                      | AClose _ k => Inv k
                      | AHalt => True
                      end) ->
  forall s, preach p s -> Inv s.
Proof.
  intros p Inv H0 HS s H.
  induction H as [|s c k o Hs IH E|s c v k Hs IH E|s c k Hs IH E].
  - exact H0.
  - specialize (HS s IH). rewrite E in HS. apply HS.
  - specialize (HS s IH). rewrite E in HS. apply HS.
  - specialize (HS s IH). rewrite E in HS. apply HS.
Qed.

Definition dup_inv (couts : list nat) (s : dst) : Prop :=
  match s with
  | DWait | DDone => True
  | DSend _ r => incl r couts
  | DClose r => incl r couts
  end.

Lemma incl_rev_self : forall (l : list nat), incl (rev l) l.
Proof. intros l x Hx. apply in_rev. exact Hx. Qed.

Lemma incl_tail : forall (a : nat) (r l : list nat), incl (a :: r) l -> incl r l.
Proof. intros a r l H x Hx. apply H. right. exact Hx. Qed.

(* Duplicate only ever has a suffix of its outputs (or of their reversal) left to serve *)
Lemma duplicate_reach_inv : forall cin couts (s : dst),
  preach (duplicate cin couts) s -> dup_inv couts s.
Proof.
  intros cin couts.
  apply (@preach_inv (duplicate cin couts) (dup_inv couts)).
  - exact I.
  - intros s Inv. destruct s as [|v [|c0 r]|[|c0 r]|]; simpl in *; auto.
    + intros [w|]; simpl; [apply incl_refl|apply incl_rev_self].
    + intros [w|]; simpl; [apply incl_refl|apply incl_rev_self].
    + eapply incl_tail; eauto.
    + eapply incl_tail; eauto.
Qed.

(* Operate only ever drains one of its two inputs *)
Definition op_inv (ca cb : nat) (s : ost) : Prop :=
  match s with ODrain c => c = ca \/ c = cb | _ => True end.

Lemma operate_reach_inv : forall ca cb cout (s : ost),
  preach (operate ca cb cout) s -> op_inv ca cb s.
Proof.
  intros ca cb cout.
  apply (@preach_inv (operate ca cb cout) (op_inv ca cb)).
  - exact I.
  - intros s Inv. destruct s; simpl in *; auto.
    + intros [w|]; simpl; auto.
    + intros [w|]; simpl; auto.
    + intros [w|]; simpl; auto.
Qed.

Lemma node_local : forall nd (s : pS (proc_of nd)),
  preach (proc_of nd) s -> act_in nd (pnext (proc_of nd) s).
Proof.
  intros nd. destruct nd as [out xs|i o|i o|i os|a b o|a b c o|i o k|i o k f|i o k|i o k|i]; simpl.
  - intros s _. destruct s as [[|x r]|]; simpl; auto.
  - intros s _. destruct s; simpl; auto.
  - intros s _. destruct s; simpl; auto.
  - intros s Hs. pose proof (duplicate_reach_inv _ _ _ Hs) as Inv.
    destruct s as [|v [|c0 r]|[|c0 r]|]; simpl in *; auto; apply Inv; left; reflexivity.
  - intros s Hs. pose proof (operate_reach_inv _ _ _ _ Hs) as Inv.
    destruct s; simpl in *; auto. destruct Inv as [e|e]; subst; auto.
  - intros s _. destruct s; simpl; auto.
  - intros s _. destruct s as [[|n]| | |]; simpl; auto.
  - intros s _. destruct s as [[|n]| | | |]; simpl; auto.
  - intros s _. destruct s as [[|n]| | | |]; simpl; auto.
  - intros s _. destruct s as [[|n]| | | |]; simpl; auto.
  - intros s _. destruct s as [acc [|]]; simpl; auto.
Qed.

(* enumeration used by [wellformed] *)
Lemma in_combine_seq : forall (A : Type) (l : list A) b i x,
  nth_error l i = Some x -> In (b + i, x) (combine (seq b (length l)) l).
Proof.
  induction l as [|a l IH]; intros b i x H.
  - destruct i; discriminate.
  - destruct i as [|i]; simpl in *.
    + inversion H; subst. left. f_equal. lia.
    + right. replace (b + S i) with (S b + i) by lia. apply IH. exact H.
Qed.

Lemma wellformed_node : forall d i nd,
  wellformed d = true -> nth_error (nodes d) i = Some nd ->
  (forall c, In c (reads nd) -> rd_of d c = i /\ c < length (caps d)) /\
  (forall c, In c (writes nd) -> wr_of d c = i /\ c < length (caps d)).
Proof.
  intros d i nd W H. unfold wellformed in W. rewrite forallb_forall in W.
  pose proof (in_combine_seq _ (nodes d) 0 i nd H) as I0. simpl in I0.
  specialize (W _ I0). simpl in W.
  apply andb_true_iff in W. destruct W as [WR WW].
  rewrite forallb_forall in WR, WW.
  split; intros c Hc.
  - specialize (WR c Hc). apply andb_true_iff in WR. destruct WR as [E L].
    apply Nat.eqb_eq in E. apply Nat.ltb_lt in L. auto.
  - specialize (WW c Hc). apply andb_true_iff in WW. destruct WW as [E L].
    apply Nat.eqb_eq in E. apply Nat.ltb_lt in L. auto.
Qed.

Lemma nth_error_map_inv : forall (A B : Type) (f : A -> B) l i y,
  nth_error (map f l) i = Some y -> exists x, nth_error l i = Some x /\ y = f x.
Proof.
  intros A B f l i y H. rewrite nth_error_map in H.
  destruct (nth_error l i) as [x|]; simpl in H; inversion H. eauto.
Qed.

Theorem build_net_ok : forall d, wellformed d = true -> net_ok (rd_of d) (wr_of d) (build d).
Proof.
  intros d W i p Hp. unfold build in Hp. simpl in Hp.
  apply nth_error_map_inv in Hp. destruct Hp as [nd [Hn e]]. subst p.
  destruct (wellformed_node d i nd W Hn) as [HR HW].
  intros s Hs. pose proof (node_local nd s Hs) as L.
  destruct (pnext (proc_of nd) s) as [c k|c v k|c k|]; simpl in *; auto.
  - apply HR; auto.
  - apply HW; auto.
  - apply HW; auto.
Qed.

Theorem build_wf : forall d, wellformed d = true -> wf (rd_of d) (wr_of d) (build d).
Proof. intros d W. apply net_ok_wf. apply build_net_ok. exact W. Qed.

(* --------------------------------------------------------------------- *)
(* 2. One run decides every schedule                                       *)
(* --------------------------------------------------------------------- *)

(* If the round-robin scheduler reaches a terminal state [t] of [build d], then EVERY maximal execution of
   [build d], whatever its schedule, ends in that very state: same processes, same channel contents and
   histories, same observations; and it has the same length (it is a permutation of the scheduler's trace). *)
Theorem one_run_decides_every_schedule : forall d fuel,
  wellformed d = true ->
  terminalb (run fuel (build d)) = true ->
  forall l' t', exec (build d) l' t' -> terminal t' ->
    t' = run fuel (build d) /\
    Permutation l' (run_schedule fuel (build d)) /\
    length l' = length (run_schedule fuel (build d)) /\
    chans t' = chans (run fuel (build d)) /\
    map (@sent nat) (chans t') = map (@sent nat) (chans (run fuel (build d))) /\
    received d t' = received d (run fuel (build d)) /\
    sinks_done d t' = sinks_done d (run fuel (build d)) /\
    no_leak t' = no_leak (run fuel (build d)).
Proof.
  intros d fuel W T l' t' E T'.
  destruct (@determinacy nat (rd_of d) (wr_of d) (build d) (run_schedule fuel (build d))
              (run fuel (build d)) l' t') as [e P]; auto.
  - apply build_wf; exact W.
  - apply run_exec.
  - apply terminalb_sound; exact T.
  - subst t'. repeat split; auto. apply Permutation_length; exact P.
Qed.

(* every partial execution can be completed to the state the scheduler found, and is a prefix of its histories *)
Theorem every_execution_extends_to_the_run : forall d fuel,
  wellformed d = true ->
  terminalb (run fuel (build d)) = true ->
  forall l' n', exec (build d) l' n' ->
    (exists l'', exec n' l'' (run fuel (build d)) /\ Permutation (l' ++ l'') (run_schedule fuel (build d))) /\
    length l' <= length (run_schedule fuel (build d)) /\
    hist_le n' (run fuel (build d)).
Proof.
  intros d fuel W T l' n' E.
  pose proof (build_wf d W) as WF.
  pose proof (run_exec fuel (build d)) as R.
  pose proof (terminalb_sound T) as TT.
  split; [|split].
  - eapply confluence; eauto.
  - eapply exec_bounded; eauto.
  - eapply history_prefix; eauto.
Qed.

Theorem every_execution_bounded : forall d fuel,
  wellformed d = true ->
  terminalb (run fuel (build d)) = true ->
  forall l' n', exec (build d) l' n' -> length l' <= length (run_schedule fuel (build d)).
Proof.
  intros d fuel W T l' n' E.
  apply (every_execution_extends_to_the_run d fuel W T l' n' E).
Qed.

Theorem no_infinite_execution_of_build : forall d fuel,
  wellformed d = true ->
  terminalb (run fuel (build d)) = true ->
  forall (st : nat -> net nat) (sch : nat -> nat),
    st 0 = build d -> (forall k, step (st k) (sch k) (st (S k))) -> False.
Proof.
  intros d fuel W T.
  apply (@no_infinite_execution nat (rd_of d) (wr_of d) (build d) (run_schedule fuel (build d))
           (run fuel (build d))).
  - apply build_wf; exact W.
  - apply run_exec.
  - apply terminalb_sound; exact T.
Qed.

Lemma deadlocked_terminal : forall (n : net nat), deadlocked n -> terminal n.
Proof. intros n [T _]. exact T. Qed.

(* A clean scheduler run (terminal, every process halted) means: every maximal execution ends with every process
   halted, and no execution whatsoever reaches a deadlocked state. *)
Theorem clean_run_means_never_deadlocks : forall d fuel,
  wellformed d = true ->
  terminalb (run fuel (build d)) = true ->
  no_leak (run fuel (build d)) = true ->
  (forall l' t', exec (build d) l' t' -> terminal t' -> all_halted t' /\ ~ deadlocked t') /\
  (forall l' n', exec (build d) l' n' -> ~ deadlocked n').
Proof.
  intros d fuel W T L.
  assert (A : forall l' t', exec (build d) l' t' -> terminal t' -> all_halted t' /\ ~ deadlocked t').
  { intros l' t' E T'.
    apply (@clean_termination_determinate nat (rd_of d) (wr_of d) (build d)
             (run_schedule fuel (build d)) (run fuel (build d)) l' t'); auto.
    - apply build_wf; exact W.
    - apply run_exec.
    - apply terminalb_sound; exact T.
    - apply all_haltedb_sound. exact L. }
  split; [exact A|].
  intros l' n' E D. destruct (A l' n' E (deadlocked_terminal n' D)) as [_ ND]. exact (ND D).
Qed.

(* A deadlocked scheduler run means: every maximal execution is deadlocked (no schedule avoids it), and no
   execution ends with every process halted. *)
Theorem deadlocked_run_means_always_deadlocks : forall d fuel,
  wellformed d = true ->
  deadlockedb (run fuel (build d)) = true ->
  forall l' t', exec (build d) l' t' -> terminal t' ->
    deadlocked t' /\ t' = run fuel (build d) /\ ~ all_halted t'.
Proof.
  intros d fuel W D l' t' E T'.
  pose proof (deadlockedb_sound _ D) as DD.
  assert (Dt : deadlocked t').
  { apply (@deadlock_determinate nat (rd_of d) (wr_of d) (build d)
             (run_schedule fuel (build d)) (run fuel (build d)) l' t'); auto.
    - apply build_wf; exact W.
    - apply run_exec. }
  split; [exact Dt|]. split.
  - unfold deadlockedb in D. apply andb_true_iff in D. destruct D as [T _].
    apply (one_run_decides_every_schedule d fuel W T l' t' E T').
  - intros A. destruct Dt as [_ [i [p [Hp Hh]]]]. apply Hh. eapply A; eauto.
Qed.

(* --------------------------------------------------------------------- *)
(* 3. The concrete patterns, for ALL schedules                             *)
(* --------------------------------------------------------------------- *)

(* what an observer sees at the end of any maximal execution *)
Definition outcome (d : desc) (t : net nat) : list bool * bool * list (list nat) * list (list nat) :=
  (map (@haltedb nat) (procs t), sinks_done d t, received d t, map (@sent nat) (chans t)).

(* clean termination, lifted *)
Lemma lift_clean : forall d fuel o n,
  wellformed d = true ->
  terminalb (run fuel (build d)) = true ->
  no_leak (run fuel (build d)) = true ->
  outcome d (run fuel (build d)) = o ->
  length (run_schedule fuel (build d)) = n ->
  forall l' t', exec (build d) l' t' -> terminal t' ->
    all_halted t' /\ ~ deadlocked t' /\ outcome d t' = o /\ length l' = n.
Proof.
  intros d fuel o n W T L O N l' t' E T'.
  destruct (clean_run_means_never_deadlocks d fuel W T L) as [A _].
  destruct (A l' t' E T') as [AH ND].
  destruct (one_run_decides_every_schedule d fuel W T l' t' E T') as [e [_ [Len _]]].
  subst t'. split; [exact AH|]. split; [exact ND|]. split; [exact O|]. rewrite Len. exact N.
Qed.

(* deadlock, lifted *)
Lemma lift_deadlock : forall d fuel o n,
  wellformed d = true ->
  deadlockedb (run fuel (build d)) = true ->
  outcome d (run fuel (build d)) = o ->
  length (run_schedule fuel (build d)) = n ->
  forall l' t', exec (build d) l' t' -> terminal t' ->
    deadlocked t' /\ ~ all_halted t' /\ outcome d t' = o /\ length l' = n.
Proof.
  intros d fuel o n W D O N l' t' E T'.
  destruct (deadlocked_run_means_always_deadlocks d fuel W D l' t' E T') as [DD [e NA]].
  assert (T : terminalb (run fuel (build d)) = true).
  { unfold deadlockedb in D. apply andb_true_iff in D. apply D. }
  destruct (one_run_decides_every_schedule d fuel W T l' t' E T') as [_ [_ [Len _]]].
  subst t'. split; [exact DD|]. split; [exact NA|]. split; [exact O|]. rewrite Len. exact N.
Qed.

(* ---- a. the diamond hazard: Duplicate, one branch lags by 3 (Skip 3), both re-joined by Operate, no buffer ---- *)
(* channels: 0 source->dup; 1, 2 dup outputs; 3 skip output; 4 operate output *)
Definition diamond_nobuf : desc :=
  mk_desc [NSource 0 [1;2;3;4;5;6]; NDup 0 [1;2]; NSkip 1 3 3; NOperate 3 2 4; NSink 4] [0;0;0;0;0].

Example diamond_nobuf_wellformed : wellformed diamond_nobuf = true.
Proof. vm_compute; reflexivity. Qed.
Example diamond_nobuf_caps_ok : caps_ok diamond_nobuf = true.
Proof. vm_compute; reflexivity. Qed.

(* Every schedule deadlocks after exactly 2 steps: the source hands 1 to Duplicate, Duplicate hands it to Skip
   (which discards it); then Duplicate blocks sending on channel 2, which Operate will only read after it has got a
   value from channel 3, which Skip only feeds after 3 more values from Duplicate.  Nobody has halted, the sink
   got nothing. *)
Theorem diamond_without_buffer_deadlocks : forall l' t',
  exec (build diamond_nobuf) l' t' -> terminal t' ->
  deadlocked t' /\ ~ all_halted t' /\
  outcome diamond_nobuf t' =
    ([false; false; false; false; false], false, [[]], [[1]; [1]; []; []; []]) /\
  length l' = 2.
Proof.
  apply (lift_deadlock diamond_nobuf 200).
  - exact diamond_nobuf_wellformed.
  - vm_compute; reflexivity.
  - vm_compute; reflexivity.
  - vm_compute; reflexivity.
Qed.

(* the hazard does not depend on the order of Operate's operands ... *)
Definition diamond_nobuf_swapped : desc :=
  mk_desc [NSource 0 [1;2;3;4;5;6]; NDup 0 [1;2]; NSkip 1 3 3; NOperate 2 3 4; NSink 4] [0;0;0;0;0].
Example diamond_nobuf_swapped_wellformed : wellformed diamond_nobuf_swapped = true.
Proof. vm_compute; reflexivity. Qed.
Example diamond_nobuf_swapped_caps_ok : caps_ok diamond_nobuf_swapped = true.
Proof. vm_compute; reflexivity. Qed.
Theorem diamond_without_buffer_swapped_deadlocks : forall l' t',
  exec (build diamond_nobuf_swapped) l' t' -> terminal t' ->
  deadlocked t' /\ ~ all_halted t' /\
  outcome diamond_nobuf_swapped t' =
    ([false; false; false; false; false], false, [[]], [[1; 2]; [1; 2]; [1]; []; []]) /\
  length l' = 5.
Proof.
  apply (lift_deadlock diamond_nobuf_swapped 200).
  - exact diamond_nobuf_swapped_wellformed.
  - vm_compute; reflexivity.
  - vm_compute; reflexivity.
  - vm_compute; reflexivity.
Qed.

(* ... nor on the order of Duplicate's outputs *)
Definition diamond_nobuf_dup21 : desc :=
  mk_desc [NSource 0 [1;2;3;4;5;6]; NDup 0 [2;1]; NSkip 1 3 3; NOperate 3 2 4; NSink 4] [0;0;0;0;0].
Example diamond_nobuf_dup21_wellformed : wellformed diamond_nobuf_dup21 = true.
Proof. vm_compute; reflexivity. Qed.
Example diamond_nobuf_dup21_caps_ok : caps_ok diamond_nobuf_dup21 = true.
Proof. vm_compute; reflexivity. Qed.
Theorem diamond_without_buffer_dup21_deadlocks : forall l' t',
  exec (build diamond_nobuf_dup21) l' t' -> terminal t' ->
  deadlocked t' /\ ~ all_halted t' /\
  outcome diamond_nobuf_dup21 t' =
    ([false; false; false; false; false], false, [[]], [[1]; []; []; []; []]) /\
  length l' = 1.
Proof.
  apply (lift_deadlock diamond_nobuf_dup21 200).
  - exact diamond_nobuf_dup21_wellformed.
  - vm_compute; reflexivity.
  - vm_compute; reflexivity.
  - vm_compute; reflexivity.
Qed.

(* ---- b. the same diamond with Buffered(lag) on the non-lagging branch (new channel 5) ---- *)
Definition diamond_buf (k : nat) : desc :=
  mk_desc [NSource 0 [1;2;3;4;5;6]; NDup 0 [1;2]; NSkip 1 3 3; NBuffered 2 5; NOperate 3 5 4; NSink 4]
          [0;0;0;0;0;k].

Example diamond_buf_wellformed : wellformed (diamond_buf 3) = true.
Proof. vm_compute; reflexivity. Qed.
Example diamond_buf_caps_ok : caps_ok (diamond_buf 3) = true.
Proof. vm_compute; reflexivity. Qed.

(* Every schedule ends with all six processes halted after exactly 48 steps; the sink receives
   [4+1; 5+2; 6+3]: the lagging branch (4,5,6) added to the first three values of the direct branch; Operate
   drains the remaining 4,5,6 of the direct branch. *)
Theorem diamond_with_buffer_completes : forall l' t',
  exec (build (diamond_buf 3)) l' t' -> terminal t' ->
  all_halted t' /\ ~ deadlocked t' /\
  outcome (diamond_buf 3) t' =
    ([true; true; true; true; true; true], true, [[5; 7; 9]],
     [[1;2;3;4;5;6]; [1;2;3;4;5;6]; [1;2;3;4;5;6]; [4;5;6]; [5;7;9]; [1;2;3;4;5;6]]) /\
  length l' = 48.
Proof.
  apply (lift_clean (diamond_buf 3) 200).
  - exact diamond_buf_wellformed.
  - vm_compute; reflexivity.
  - vm_compute; reflexivity.
  - vm_compute; reflexivity.
  - vm_compute; reflexivity.
Qed.

Corollary diamond_with_buffer_received : forall l' t',
  exec (build (diamond_buf 3)) l' t' -> terminal t' ->
  all_halted t' /\ received (diamond_buf 3) t' = [[5; 7; 9]].
Proof.
  intros l' t' E T. destruct (diamond_with_buffer_completes l' t' E T) as [A [_ [O _]]].
  split; [exact A|]. unfold outcome in O. inversion O; reflexivity.
Qed.

(* The exact threshold in this model: Buffered's own goroutine holds one more value, so capacity lag - 1 = 2 still
   completes, while capacity 1 deadlocks. *)
Theorem diamond_with_buffer2_completes : forall l' t',
  exec (build (diamond_buf 2)) l' t' -> terminal t' ->
  all_halted t' /\ ~ deadlocked t' /\
  outcome (diamond_buf 2) t' =
    ([true; true; true; true; true; true], true, [[5; 7; 9]],
     [[1;2;3;4;5;6]; [1;2;3;4;5;6]; [1;2;3;4;5;6]; [4;5;6]; [5;7;9]; [1;2;3;4;5;6]]) /\
  length l' = 48.
Proof.
  apply (lift_clean (diamond_buf 2) 200); vm_compute; reflexivity.
Qed.

Theorem diamond_with_buffer1_deadlocks : forall l' t',
  exec (build (diamond_buf 1)) l' t' -> terminal t' ->
  deadlocked t' /\ ~ all_halted t' /\
  outcome (diamond_buf 1) t' =
    ([false; false; false; false; false; false], false, [[]], [[1;2;3]; [1;2;3]; [1;2]; []; []; [1]]) /\
  length l' = 9.
Proof.
  apply (lift_deadlock (diamond_buf 1) 200); vm_compute; reflexivity.
Qed.

(* ---- c. Operate drains the longer input: nobody is left blocked ---- *)
Definition operate_uneven : desc :=
  mk_desc [NSource 0 [1;2;3;4;5]; NSource 1 [10;20]; NOperate 0 1 2; NSink 2] [0;0;0].
Example operate_uneven_wellformed : wellformed operate_uneven = true.
Proof. vm_compute; reflexivity. Qed.
Example operate_uneven_caps_ok : caps_ok operate_uneven = true.
Proof. vm_compute; reflexivity. Qed.

Theorem operate_drains_longer_input : forall l' t',
  exec (build operate_uneven) l' t' -> terminal t' ->
  all_halted t' /\ ~ deadlocked t' /\
  outcome operate_uneven t' =
    ([true; true; true; true], true, [[11; 22]], [[1;2;3;4;5]; [10;20]; [11;22]]) /\
  length l' = 15.
Proof.
  apply (lift_clean operate_uneven 200); vm_compute; reflexivity.
Qed.

(* ---- d. Head leaks its producer; First does not ---- *)
Definition head_pipeline : desc := mk_desc [NSource 0 [1;2;3;4;5]; NHead 0 1 2; NSink 1] [0;0].
Definition first_pipeline : desc := mk_desc [NSource 0 [1;2;3;4;5]; NFirst 0 1 2; NSink 1] [0;0].
Example head_pipeline_wellformed : wellformed head_pipeline = true.
Proof. vm_compute; reflexivity. Qed.
Example head_pipeline_caps_ok : caps_ok head_pipeline = true.
Proof. vm_compute; reflexivity. Qed.
Example first_pipeline_wellformed : wellformed first_pipeline = true.
Proof. vm_compute; reflexivity. Qed.
Example first_pipeline_caps_ok : caps_ok first_pipeline = true.
Proof. vm_compute; reflexivity. Qed.

(* The sink finishes with [1;2] and Head halts, but the source (process 0) stays blocked for ever on its third
   send: a leaked goroutine, under every schedule. *)
Theorem head_leaks_its_producer : forall l' t',
  exec (build head_pipeline) l' t' -> terminal t' ->
  deadlocked t' /\ ~ all_halted t' /\
  outcome head_pipeline t' = ([false; true; true], true, [[1; 2]], [[1; 2]; [1; 2]]) /\
  length l' = 6.
Proof.
  apply (lift_deadlock head_pipeline 200); vm_compute; reflexivity.
Qed.

Corollary head_sink_done_but_leaks : forall l' t',
  exec (build head_pipeline) l' t' -> terminal t' ->
  sinks_done head_pipeline t' = true /\ no_leak t' = false /\ deadlocked t'.
Proof.
  intros l' t' E T. destruct (head_leaks_its_producer l' t' E T) as [D [_ [O _]]].
  unfold outcome in O. inversion O as [[H1 H2 H3 H4]]. split; [reflexivity|]. split; [|exact D].
  destruct (no_leak t') eqn:NL; [exfalso|reflexivity].
  unfold no_leak in NL. rewrite forallb_forall in NL.
  destruct D as [_ [i [p [Hp Hh]]]]. apply Hh. apply haltedb_halted. apply NL.
  eapply nth_error_In; eauto.
Qed.

Theorem first_does_not_leak : forall l' t',
  exec (build first_pipeline) l' t' -> terminal t' ->
  all_halted t' /\ ~ deadlocked t' /\
  outcome first_pipeline t' = ([true; true; true], true, [[1; 2]], [[1;2;3;4;5]; [1; 2]]) /\
  length l' = 11.
Proof.
  apply (lift_clean first_pipeline 200); vm_compute; reflexivity.
Qed.

(* ---- e. Operate3's sequential drain after Duplicate ---- *)
Definition operate3_after_dup : desc :=
  mk_desc [NSource 0 [1;2;3;4]; NDup 0 [1;2]; NSource 3 [7]; NOperate3 1 2 3 4; NSink 4] [0;0;0;0;0].
Example operate3_after_dup_wellformed : wellformed operate3_after_dup = true.
Proof. vm_compute; reflexivity. Qed.
Example operate3_after_dup_caps_ok : caps_ok operate3_after_dup = true.
Proof. vm_compute; reflexivity. Qed.

(* The third input ends after one value: the sink gets 1+1+7 = 9, then Operate3 starts draining channel 1 to its
   end; it takes 3 from channel 1, but Duplicate is then blocked sending 3 on channel 2, which Operate3 will only
   drain after channel 1 is closed, which only Duplicate can do.  Only the short source (process 2) halts. *)
Theorem operate3_sequential_drain_deadlocks : forall l' t',
  exec (build operate3_after_dup) l' t' -> terminal t' ->
  deadlocked t' /\ ~ all_halted t' /\
  outcome operate3_after_dup t' =
    ([false; false; true; false; false], false, [[9]], [[1;2;3]; [1;2;3]; [1;2]; [7]; [9]]) /\
  length l' = 12.
Proof.
  apply (lift_deadlock operate3_after_dup 200); vm_compute; reflexivity.
Qed.

(* --------------------------------------------------------------------- *)
(* 4. A parametric family: source -> sink, every input, every capacity     *)
(* --------------------------------------------------------------------- *)

Definition ss_desc (xs : list nat) (k : nat) : desc := mk_desc [NSource 0 xs; NSink 0] [k].

(* the source has [r] left to send, the sink has received [acc], the channel is empty *)
Definition ss_run (k : nat) (r acc : list nat) : net nat :=
  mknet [source 0 r; pset (sink 0) (acc, false)] [mkchan [] k false acc].
(* both processes finished, the channel closed and empty, its history is [acc] *)
Definition ss_final (k : nat) (acc : list nat) : net nat :=
  mknet [pset (source 0 []) None; pset (sink 0) (acc, true)] [mkchan [] k true acc].

Definition ss_steps (k : nat) : nat := match k with 0 => 1 | S _ => 2 end.

Lemma ss_desc_wellformed : forall xs k, wellformed (ss_desc xs k) = true.
Proof. intros xs k. reflexivity. Qed.

Lemma ss_build : forall xs k, build (ss_desc xs k) = ss_run k xs [].
Proof. intros xs k. reflexivity. Qed.

(* one element travels from the source to the sink: a rendezvous (capacity 0), or a buffered send then a receive *)
Lemma ss_one : forall k x r acc,
  exists l, exec (ss_run k (x :: r) acc) l (ss_run k r (acc ++ [x])) /\ length l = ss_steps k.
Proof.
  intros k x r acc. destruct k as [|k].
  - exists [0]. split; [|reflexivity].
    eapply ECons; [|apply ENil]. apply fire_sound. reflexivity.
  - exists [0; 1]. split; [|reflexivity].
    eapply ECons with (n1 := mknet [source 0 r; pset (sink 0) (acc, false)]
                                   [mkchan [x] (S k) false (acc ++ [x])]).
    { apply fire_sound. reflexivity. }
    eapply ECons; [|apply ENil]. apply fire_sound. reflexivity.
Qed.

(* the end: the source closes the channel, the sink sees the closure *)
Lemma ss_end : forall k acc, exec (ss_run k [] acc) [0; 1] (ss_final k acc).
Proof.
  intros k acc.
  eapply ECons with (n1 := mknet [pset (source 0 []) None; pset (sink 0) (acc, false)]
                                 [mkchan [] k true acc]).
  { apply fire_sound. reflexivity. }
  eapply ECons; [|apply ENil]. apply fire_sound. reflexivity.
Qed.

Lemma ss_exec : forall k r acc,
  exists l, exec (ss_run k r acc) l (ss_final k (acc ++ r)) /\ length l = ss_steps k * length r + 2.
Proof.
  intros k r. induction r as [|x r IH]; intros acc.
  - exists [0; 1]. rewrite app_nil_r. split; [apply ss_end|simpl; lia].
  - destruct (ss_one k x r acc) as [l1 [E1 L1]].
    destruct (IH (acc ++ [x])) as [l2 [E2 L2]].
    exists (l1 ++ l2). split.
    + replace (acc ++ x :: r) with ((acc ++ [x]) ++ r) by (rewrite <- app_assoc; reflexivity).
      eapply exec_app; eauto.
    + rewrite app_length, L1, L2. simpl. lia.
Qed.

Lemma ss_final_terminal : forall k acc, terminal (ss_final k acc).
Proof. intros k acc. apply terminalb_sound. reflexivity. Qed.

Lemma ss_final_all_halted : forall k acc, all_halted (ss_final k acc).
Proof. intros k acc. apply all_haltedb_sound. reflexivity. Qed.

(* For every input [xs] and every capacity [k], EVERY maximal execution of source -> sink ends with both
   processes halted, the channel closed and empty, and the sink having received exactly [xs]; it takes
   length xs + 2 steps on a rendezvous channel and 2 * length xs + 2 steps on a buffered one. *)
Theorem source_sink_completes : forall xs k l' t',
  exec (build (ss_desc xs k)) l' t' -> terminal t' ->
  t' = ss_final k xs /\
  all_halted t' /\ ~ deadlocked t' /\
  received (ss_desc xs k) t' = [xs] /\
  sinks_done (ss_desc xs k) t' = true /\ no_leak t' = true /\
  length l' = ss_steps k * length xs + 2.
Proof.
  intros xs k l' t' E T'.
  destruct (ss_exec k xs []) as [l [El Ll]]. simpl in El.
  rewrite <- ss_build in El.
  destruct (@determinacy nat (rd_of (ss_desc xs k)) (wr_of (ss_desc xs k)) (build (ss_desc xs k))
              l (ss_final k xs) l' t') as [e P]; auto.
  - apply build_wf. apply ss_desc_wellformed.
  - apply ss_final_terminal.
  - subst t'. split; [reflexivity|]. split; [apply ss_final_all_halted|]. split.
    + intros [_ [i [p [Hp Hh]]]]. apply Hh. eapply ss_final_all_halted; eauto.
    + split; [reflexivity|]. split; [reflexivity|]. split; [reflexivity|].
      apply Permutation_length in P. rewrite P. exact Ll.
Qed.

(* no execution of source -> sink is longer than that, and none is infinite *)
Theorem source_sink_bounded : forall xs k l' n',
  exec (build (ss_desc xs k)) l' n' -> length l' <= ss_steps k * length xs + 2.
Proof.
  intros xs k l' n' E.
  destruct (ss_exec k xs []) as [l [El Ll]]. simpl in El. rewrite <- ss_build in El.
  rewrite <- Ll.
  apply (@exec_bounded nat (rd_of (ss_desc xs k)) (wr_of (ss_desc xs k)) (build (ss_desc xs k))
           l (ss_final k xs) l' n'); auto.
  - apply build_wf. apply ss_desc_wellformed.
  - apply ss_final_terminal.
Qed.

Print Assumptions build_net_ok.
Print Assumptions build_wf.
Print Assumptions one_run_decides_every_schedule.
Print Assumptions every_execution_extends_to_the_run.
Print Assumptions every_execution_bounded.
Print Assumptions no_infinite_execution_of_build.
Print Assumptions clean_run_means_never_deadlocks.
Print Assumptions deadlocked_run_means_always_deadlocks.
Print Assumptions diamond_without_buffer_deadlocks.
Print Assumptions diamond_without_buffer_swapped_deadlocks.
Print Assumptions diamond_without_buffer_dup21_deadlocks.
Print Assumptions diamond_with_buffer_completes.
Print Assumptions diamond_with_buffer_received.
Print Assumptions diamond_with_buffer2_completes.
Print Assumptions diamond_with_buffer1_deadlocks.
Print Assumptions operate_drains_longer_input.
Print Assumptions head_leaks_its_producer.
Print Assumptions head_sink_done_but_leaks.
Print Assumptions first_does_not_leak.
Print Assumptions operate3_sequential_drain_deadlocks.
Print Assumptions source_sink_completes.
Print Assumptions source_sink_bounded.
