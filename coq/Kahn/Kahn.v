(* ===================================================================== *)
(*  Kahn.v - a Kahn-process-network calculus with bounded (and            *)
(*  rendezvous) channels, Go blocking semantics, and its determinacy      *)
(*  theorem (property C03).  Coq 8.16, standard library only, no axioms.  *)
(*                                                                       *)
(*  Model      : act, proc, chan, net, pdo (process side of an operation),*)
(*               cdo (channel side), stepx / step, exec, terminal,        *)
(*               deadlocked, all_halted, owner / owns / wf.               *)
(*               [gostep] restates the step relation rule by rule and     *)
(*               [step_iff_gostep] proves the two presentations equal.    *)
(*  Theorems   : stepx_diamond, step_diamond (disjoint involvement +      *)
(*               commutation, rendezvous included), stepx_det / step_det, *)
(*               confluence, exec_bounded, determinacy,                   *)
(*               no_infinite_execution, deadlock_determinate,             *)
(*               clean_termination_determinate,                           *)
(*               final_channels_determinate, history_prefix,              *)
(*               net_ok_wf (local per-process condition implies wf),      *)
(*               step_within_cap, ghost_irrelevant,                       *)
(*               fire_sound, fire_complete, terminalb_sound, run_exec.    *)
(*  Example    : Module Example (source -> map -> sink, capacities 0/1,   *)
(*               and a deadlocking net), validated by vm_compute and      *)
(*               lifted to ALL schedules through [determinacy].           *)
(* ===================================================================== *)

From Coq Require Import List Arith Lia Bool Permutation.
Import ListNotations.

Set Implicit Arguments.

(* --------------------------------------------------------------------- *)
(* 0. Point updates of lists                                              *)
(* --------------------------------------------------------------------- *)

Section Upd.
  Variable A : Type.

  Fixpoint upd (l : list A) (i : nat) (x : A) : list A :=
    match l, i with
    | [], _ => []
    | _ :: t, 0 => x :: t
    | h :: t, S i => h :: upd t i x
    end.

  Lemma upd_length : forall l i x, length (upd l i x) = length l.
  Proof. induction l; destruct i; simpl; auto. Qed.

  Lemma nth_upd : forall l i x k,
    nth_error (upd l i x) k =
    if Nat.eqb k i
    then match nth_error l k with Some _ => Some x | None => None end
    else nth_error l k.
  Proof.
    induction l; intros i x k.
    - simpl. destruct (Nat.eqb k i); destruct k; reflexivity.
    - destruct i, k; simpl; auto.
  Qed.

  Lemma nth_upd_eq : forall l i x y,
    nth_error l i = Some y -> nth_error (upd l i x) i = Some x.
  Proof. intros. rewrite nth_upd, Nat.eqb_refl, H. reflexivity. Qed.

  Lemma nth_upd_neq : forall l i x k,
    k <> i -> nth_error (upd l i x) k = nth_error l k.
  Proof.
    intros. rewrite nth_upd. destruct (Nat.eqb_spec k i); congruence.
  Qed.

  Lemma list_ext : forall (l1 l2 : list A),
    (forall k, nth_error l1 k = nth_error l2 k) -> l1 = l2.
  Proof.
    induction l1; destruct l2; intros H; auto.
    - specialize (H 0); discriminate.
    - specialize (H 0); discriminate.
    - f_equal.
      + specialize (H 0). simpl in H. congruence.
      + apply IHl1. intro k. apply (H (S k)).
  Qed.

  Lemma upd_comm : forall l i j x y, i <> j ->
    upd (upd l i x) j y = upd (upd l j y) i x.
  Proof.
    intros. apply list_ext. intro k. rewrite !nth_upd.
    destruct (Nat.eqb_spec k i), (Nat.eqb_spec k j); subst; try lia; auto.
  Qed.

  Lemma upd_upd : forall l i x y, upd (upd l i x) i y = upd l i y.
  Proof.
    intros. apply list_ext. intro k. rewrite !nth_upd.
    destruct (Nat.eqb_spec k i); auto. destruct (nth_error l k); auto.
  Qed.

  Lemma upd_same : forall l i x, nth_error l i = Some x -> upd l i x = l.
  Proof.
    intros. apply list_ext. intro k. rewrite nth_upd.
    destruct (Nat.eqb_spec k i); subst; auto. rewrite H; auto.
  Qed.
End Upd.

(* --------------------------------------------------------------------- *)
(* 1. The model                                                           *)
(* --------------------------------------------------------------------- *)

Section Kahn.
  Variable V : Type.

  (* One action of a sequential process; [S] is the type of its local states.
     [ARecv c k]: blocking receive on channel c, continue with [k (Some v)]
     or with [k None] when the channel is closed and drained (Go: v, ok := <-c).
     [ASend c v k]: blocking send. [AClose c k]: close(c). [AHalt]: finished. *)
  Inductive act (S : Type) : Type :=
  | ARecv (c : nat) (k : option V -> S)
  | ASend (c : nat) (v : V) (k : S)
  | AClose (c : nat) (k : S)
  | AHalt.
  Arguments AHalt {S}.

  Record proc := { pS : Type; pst : pS; pnext : pS -> act pS }.

  (* [sent] is a GHOST history (all values ever sent on the channel, whether
     buffered or handed over by rendezvous); no rule reads it. *)
  Record chan := mkchan { buf : list V; cap : nat; closed : bool; sent : list V }.

  Record net := mknet { procs : list proc; chans : list chan }.

  Definition pact (p : proc) : act (pS p) := pnext p (pst p).
  Definition pset (p : proc) (s : pS p) : proc :=
    {| pS := pS p; pst := s; pnext := pnext p |}.

  (* What a process offers to do on a channel. *)
  Inductive pop := OSend (v : V) | ORecv (o : option V) | OClose.
  Definition isw (o : pop) : bool :=
    match o with ORecv _ => false | _ => true end.

  (* [pdo p c o p']: process p, at its current action, can perform the
     channel operation o on channel c and becomes p'. *)
  Inductive pdo (p : proc) : nat -> pop -> proc -> Prop :=
  | PDsend c v k : pact p = ASend c v k -> pdo p c (OSend v) (pset p k)
  | PDrecv c k o : pact p = ARecv c k -> pdo p c (ORecv o) (pset p (k o))
  | PDclose c k : pact p = AClose c k -> pdo p c OClose (pset p k).

  (* Channel-side operations. [CRdv] is the channel side of a rendezvous. *)
  Inductive cop := CSend (v : V) | CRdv (v : V) | CRecv (o : option V) | CClose.
  Definition cop_of (o : pop) : cop :=
    match o with OSend v => CSend v | ORecv r => CRecv r | OClose => CClose end.

  Inductive cdo (ch : chan) : cop -> chan -> Prop :=
  | CDsend v : closed ch = false -> length (buf ch) < cap ch ->
      cdo ch (CSend v) (mkchan (buf ch ++ [v]) (cap ch) (closed ch) (sent ch ++ [v]))
  | CDrdv v : closed ch = false -> cap ch = 0 -> buf ch = [] ->
      cdo ch (CRdv v) (mkchan (buf ch) (cap ch) (closed ch) (sent ch ++ [v]))
  | CDrecv v r : buf ch = v :: r ->
      cdo ch (CRecv (Some v)) (mkchan r (cap ch) (closed ch) (sent ch))
  | CDeof : buf ch = [] -> closed ch = true ->
      cdo ch (CRecv None) ch
  | CDclose : closed ch = false ->
      cdo ch CClose (mkchan (buf ch) (cap ch) true (sent ch)).

  (* [stepx n i l n']: process i initiates one step; l = processes involved. *)
  Inductive stepx (n : net) (i : nat) : list nat -> net -> Prop :=
  | SOne p c o p' ch ch' :
      nth_error (procs n) i = Some p -> pdo p c o p' ->
      nth_error (chans n) c = Some ch -> cdo ch (cop_of o) ch' ->
      stepx n i [i] (mknet (upd (procs n) i p') (upd (chans n) c ch'))
  | SRdv p c v p' j q q' ch ch' :
      nth_error (procs n) i = Some p -> pdo p c (OSend v) p' ->
      nth_error (procs n) j = Some q -> pdo q c (ORecv (Some v)) q' ->
      nth_error (chans n) c = Some ch -> cdo ch (CRdv v) ch' ->
      stepx n i [i; j]
            (mknet (upd (upd (procs n) i p') j q') (upd (chans n) c ch')).

  Definition step (n : net) (i : nat) (n' : net) : Prop :=
    exists l, stepx n i l n'.

  Inductive exec : net -> list nat -> net -> Prop :=
  | ENil n : exec n [] n
  | ECons n i n1 l n2 : step n i n1 -> exec n1 l n2 -> exec n (i :: l) n2.

  Definition terminal (n : net) : Prop := forall i n', ~ step n i n'.

  Definition halted (p : proc) : Prop :=
    match pact p with AHalt => True | _ => False end.

  Definition deadlocked (n : net) : Prop :=
    terminal n /\ exists i p, nth_error (procs n) i = Some p /\ ~ halted p.

  Definition all_halted (n : net) : Prop :=
    forall i p, nth_error (procs n) i = Some p -> halted p.

  (* ------------------------------------------------------------------- *)
  (* Ownership / well-formedness                                          *)
  (* ------------------------------------------------------------------- *)

  Variables rd wr : nat -> nat.

  Definition owner (c : nat) (o : pop) : nat := if isw o then wr c else rd c.

  Definition owns (n : net) : Prop :=
    forall i p c o p', nth_error (procs n) i = Some p -> pdo p c o p' ->
                       owner c o = i.

  Definition wf (n : net) : Prop := forall l n', exec n l n' -> owns n'.

  (* ------------------------------------------------------------------- *)
  (* 2. Local lemmas about processes and channels                         *)
  (* ------------------------------------------------------------------- *)

  Lemma pdo_chan : forall p c o p1 c' o' p2,
    pdo p c o p1 -> pdo p c' o' p2 -> c = c' /\ isw o = isw o'.
  Proof.
    intros p c o p1 c' o' p2 H1 H2.
    inversion H1; inversion H2; subst; simpl; split; congruence.
  Qed.

  Lemma pdo_det : forall p c o p1 c' p2,
    pdo p c o p1 -> pdo p c' o p2 -> p1 = p2.
  Proof.
    intros p c o p1 c' p2 H1 H2.
    inversion H1; subst; inversion H2; subst; f_equal; congruence.
  Qed.

  Lemma pdo_send_val : forall p c v p1 c' v' p2,
    pdo p c (OSend v) p1 -> pdo p c' (OSend v') p2 -> v = v'.
  Proof.
    intros p c v p1 c' v' p2 H1 H2.
    inversion H1; subst; inversion H2; subst; congruence.
  Qed.

  Lemma cdo_det : forall ch o a b, cdo ch o a -> cdo ch o b -> a = b.
  Proof.
    intros ch o a b H1 H2.
    inversion H1; subst; inversion H2; subst; try congruence.
  Qed.

  Lemma cdo_recv_det : forall ch o o' a b,
    cdo ch (CRecv o) a -> cdo ch (CRecv o') b -> o = o'.
  Proof.
    intros ch o o' a b H1 H2.
    inversion H1; subst; inversion H2; subst; congruence.
  Qed.

  Lemma cdo_rdv_recv : forall ch v o a b,
    cdo ch (CRdv v) a -> cdo ch (CRecv o) b -> False.
  Proof.
    intros ch v o a b H1 H2.
    inversion H1; subst; inversion H2; subst; congruence.
  Qed.

  (* A writer-side operation and a reader-side operation on the same channel
     commute (FIFO: enqueue at the back, dequeue at the front). *)
  Lemma cdo_comm : forall ch o o' a b,
    isw o = true -> isw o' = false ->
    cdo ch (cop_of o) a -> cdo ch (cop_of o') b ->
    exists d, cdo a (cop_of o') d /\ cdo b (cop_of o) d.
  Proof.
    intros ch o o' a b W R H1 H2.
    destruct o as [v| |]; try discriminate; destruct o' as [| r |]; try discriminate;
      simpl in *; destruct ch as [bf cp cl sn];
      inversion H1; subst; inversion H2; subst; simpl in *; subst.
    - (* send / recv Some *)
      eexists. split.
      + apply (@CDrecv (mkchan ((v0 :: r0) ++ [v]) cp false (sn ++ [v])) v0 (r0 ++ [v])).
        reflexivity.
      + apply (@CDsend (mkchan r0 cp false sn) v); simpl in *; auto; lia.
    - (* send / eof : impossible *) congruence.
    - (* close / recv Some *)
      eexists. split.
      + apply (@CDrecv (mkchan (v :: r0) cp true sn) v r0). reflexivity.
      + apply (@CDclose (mkchan r0 cp false sn)). reflexivity.
    - congruence.
  Qed.

  (* ------------------------------------------------------------------- *)
  (* 3. The diamond                                                       *)
  (* ------------------------------------------------------------------- *)

  Lemma stepx_eq : forall n i l m m', stepx n i l m -> m = m' -> stepx n i l m'.
  Proof. intros; subst; auto. Qed.

  Ltac upd_eq :=
    apply list_ext; intro; rewrite ?nth_upd;
    repeat match goal with
           | |- context[Nat.eqb ?a ?b] => destruct (Nat.eqb_spec a b); subst
           end;
    try reflexivity; try lia; try congruence;
    repeat match goal with
           | |- context[nth_error ?l ?k] => destruct (nth_error l k)
           end; try reflexivity.

  Ltac nth_solve :=
    simpl; repeat (rewrite nth_upd_neq by (auto; lia)); eauto using nth_upd_eq.

  Lemma diamond_one_one : forall n i j p c o p' ch ch' q c2 o2 q' ch2 ch2',
    owns n -> i <> j ->
    nth_error (procs n) i = Some p -> pdo p c o p' ->
    nth_error (chans n) c = Some ch -> cdo ch (cop_of o) ch' ->
    nth_error (procs n) j = Some q -> pdo q c2 o2 q' ->
    nth_error (chans n) c2 = Some ch2 -> cdo ch2 (cop_of o2) ch2' ->
    exists d,
      stepx (mknet (upd (procs n) i p') (upd (chans n) c ch')) j [j] d /\
      stepx (mknet (upd (procs n) j q') (upd (chans n) c2 ch2')) i [i] d.
  Proof.
    intros n i j p c o p' ch ch' q c2 o2 q' ch2 ch2' O ne Hp Dp Hc Cp Hq Dq Hc2 Cq.
    pose proof (O _ _ _ _ _ Hp Dp) as Oi.
    pose proof (O _ _ _ _ _ Hq Dq) as Oj.
    destruct (Nat.eq_dec c c2) as [e|nc].
    - subst c2. assert (ch2 = ch) by congruence. subst ch2.
      unfold owner in *.
      destruct (isw o) eqn:Wo, (isw o2) eqn:Wo2; try (exfalso; lia).
      + destruct (cdo_comm _ _ Wo Wo2 Cp Cq) as [d [D1 D2]].
        exists (mknet (upd (upd (procs n) i p') j q') (upd (chans n) c d)). split.
        * eapply stepx_eq.
          { eapply SOne with (p := q) (c := c) (o := o2) (p' := q') (ch := ch') (ch' := d);
              nth_solve. }
          simpl. f_equal. apply upd_upd.
        * eapply stepx_eq.
          { eapply SOne with (p := p) (c := c) (o := o) (p' := p') (ch := ch2') (ch' := d);
              nth_solve. }
          simpl. f_equal. apply upd_comm; auto. apply upd_upd.
      + destruct (cdo_comm _ _ Wo2 Wo Cq Cp) as [d [D1 D2]].
        exists (mknet (upd (upd (procs n) i p') j q') (upd (chans n) c d)). split.
        * eapply stepx_eq.
          { eapply SOne with (p := q) (c := c) (o := o2) (p' := q') (ch := ch') (ch' := d);
              nth_solve. }
          simpl. f_equal. apply upd_upd.
        * eapply stepx_eq.
          { eapply SOne with (p := p) (c := c) (o := o) (p' := p') (ch := ch2') (ch' := d);
              nth_solve. }
          simpl. f_equal. apply upd_comm; auto. apply upd_upd.
    - exists (mknet (upd (upd (procs n) i p') j q') (upd (upd (chans n) c ch') c2 ch2')).
      split.
      + eapply stepx_eq.
        { eapply SOne with (p := q) (c := c2) (o := o2) (p' := q') (ch := ch2) (ch' := ch2');
            nth_solve. }
        reflexivity.
      + eapply stepx_eq.
        { eapply SOne with (p := p) (c := c) (o := o) (p' := p') (ch := ch) (ch' := ch');
            nth_solve. }
        simpl. f_equal; apply upd_comm; auto.
  Qed.

  (* In a rendezvous the two partners are different processes. *)
  Lemma rdv_partner_neq : forall n i j p q c c' v w p' q',
    nth_error (procs n) i = Some p -> pdo p c (OSend v) p' ->
    nth_error (procs n) j = Some q -> pdo q c' (ORecv w) q' -> i <> j.
  Proof.
    intros n i j p q c c' v w p' q' Hp Dp Hq Dq e. subst j.
    assert (q = p) by congruence. subst q.
    destruct (pdo_chan Dp Dq) as [_ W]. discriminate.
  Qed.

  Lemma diamond_one_rdv : forall n i j p c o p' ch ch' q c2 v q' r s s' ch2 ch2',
    owns n -> i <> j ->
    nth_error (procs n) i = Some p -> pdo p c o p' ->
    nth_error (chans n) c = Some ch -> cdo ch (cop_of o) ch' ->
    nth_error (procs n) j = Some q -> pdo q c2 (OSend v) q' ->
    nth_error (procs n) r = Some s -> pdo s c2 (ORecv (Some v)) s' ->
    nth_error (chans n) c2 = Some ch2 -> cdo ch2 (CRdv v) ch2' ->
    i <> r /\ c <> c2 /\
    exists d,
      stepx (mknet (upd (procs n) i p') (upd (chans n) c ch')) j [j; r] d /\
      stepx (mknet (upd (upd (procs n) j q') r s') (upd (chans n) c2 ch2')) i [i] d.
  Proof.
    intros n i j p c o p' ch ch' q c2 v q' r s s' ch2 ch2'
           O ne Hp Dp Hc Cp Hq Dq Hs Ds Hc2 Cq.
    pose proof (O _ _ _ _ _ Hp Dp) as Oi.
    pose proof (O _ _ _ _ _ Hq Dq) as Oj.
    pose proof (O _ _ _ _ _ Hs Ds) as Or.
    pose proof (rdv_partner_neq n Hq Dq Hs Ds) as njr.
    unfold owner in *; simpl in Oj, Or.
    assert (nir : i <> r).
    { intro e. subst r. assert (s = p) by congruence. subst s.
      destruct (pdo_chan Dp Ds) as [ec W]. subst c2.
      assert (ch2 = ch) by congruence. subst ch2.
      destruct o; try discriminate. simpl in Cp.
      eapply cdo_rdv_recv; eauto. }
    assert (nc : c <> c2).
    { intro e. subst c2. destruct (isw o); lia. }
    split; [exact nir|]. split; [exact nc|].
    exists (mknet (upd (upd (upd (procs n) i p') j q') r s')
                  (upd (upd (chans n) c ch') c2 ch2')).
    split.
    - eapply stepx_eq.
      { eapply SRdv with (p := q) (c := c2) (v := v) (p' := q') (j := r) (q := s) (q' := s')
                         (ch := ch2) (ch' := ch2'); nth_solve. }
      reflexivity.
    - eapply stepx_eq.
      { eapply SOne with (p := p) (c := c) (o := o) (p' := p') (ch := ch) (ch' := ch');
          nth_solve. }
      simpl. f_equal.
      + upd_eq.
      + apply upd_comm; auto.
  Qed.

  Lemma diamond_rdv_rdv : forall n i j p c v p' r s s' ch ch' q c2 v2 q' r2 s2 s2' ch2 ch2',
    owns n -> i <> j ->
    nth_error (procs n) i = Some p -> pdo p c (OSend v) p' ->
    nth_error (procs n) r = Some s -> pdo s c (ORecv (Some v)) s' ->
    nth_error (chans n) c = Some ch -> cdo ch (CRdv v) ch' ->
    nth_error (procs n) j = Some q -> pdo q c2 (OSend v2) q' ->
    nth_error (procs n) r2 = Some s2 -> pdo s2 c2 (ORecv (Some v2)) s2' ->
    nth_error (chans n) c2 = Some ch2 -> cdo ch2 (CRdv v2) ch2' ->
    (i <> r2 /\ r <> j /\ r <> r2 /\ c <> c2) /\
    exists d,
      stepx (mknet (upd (upd (procs n) i p') r s') (upd (chans n) c ch')) j [j; r2] d /\
      stepx (mknet (upd (upd (procs n) j q') r2 s2') (upd (chans n) c2 ch2')) i [i; r] d.
  Proof.
    intros n i j p c v p' r s s' ch ch' q c2 v2 q' r2 s2 s2' ch2 ch2'
           O ne Hp Dp Hs Ds Hc Cp Hq Dq Hs2 Ds2 Hc2 Cq.
    pose proof (O _ _ _ _ _ Hp Dp) as Oi.
    pose proof (O _ _ _ _ _ Hq Dq) as Oj.
    pose proof (O _ _ _ _ _ Hs Ds) as Or.
    pose proof (O _ _ _ _ _ Hs2 Ds2) as Or2.
    pose proof (rdv_partner_neq n Hp Dp Hs Ds) as n1.
    pose proof (rdv_partner_neq n Hq Dq Hs2 Ds2) as n2.
    pose proof (rdv_partner_neq n Hp Dp Hs2 Ds2) as n3.
    pose proof (rdv_partner_neq n Hq Dq Hs Ds) as n4.
    unfold owner in *; simpl in Oi, Oj, Or, Or2.
    assert (nc : c <> c2) by (intro; subst; lia).
    assert (nr : r <> r2).
    { intro e. subst r2. assert (s2 = s) by congruence. subst s2.
      destruct (pdo_chan Ds Ds2). auto. }
    split. { repeat split; auto. }
    exists (mknet (upd (upd (upd (upd (procs n) i p') r s') j q') r2 s2')
                  (upd (upd (chans n) c ch') c2 ch2')).
    split.
    - eapply stepx_eq.
      { eapply SRdv with (p := q) (c := c2) (v := v2) (p' := q') (j := r2) (q := s2) (q' := s2')
                         (ch := ch2) (ch' := ch2'); nth_solve. }
      reflexivity.
    - eapply stepx_eq.
      { eapply SRdv with (p := p) (c := c) (v := v) (p' := p') (j := r) (q := s) (q' := s')
                         (ch := ch) (ch' := ch'); nth_solve. }
      simpl. f_equal.
      + upd_eq.
      + apply upd_comm; auto.
  Qed.

  (* Two enabled steps initiated by different processes of a net satisfying
     the ownership discipline involve DISJOINT sets of processes, and commute. *)
  Theorem stepx_diamond : forall n i j li lj a b,
    owns n -> i <> j -> stepx n i li a -> stepx n j lj b ->
    (forall x, In x li -> In x lj -> False) /\
    exists d, stepx a j lj d /\ stepx b i li d.
  Proof.
    intros n i j li lj a b O ne Hi Hj.
    destruct Hi as [p c o p' ch ch' Hp Dp Hc Cp | p c v p' r s s' ch ch' Hp Dp Hs Ds Hc Cp];
    destruct Hj as [q c2 o2 q' ch2 ch2' Hq Dq Hc2 Cq
                   | q c2 v2 q' r2 s2 s2' ch2 ch2' Hq Dq Hs2 Ds2 Hc2 Cq].
    - split.
      + simpl; intros x [?|[]] [?|[]]; lia.
      + eapply diamond_one_one; eauto.
    - destruct (@diamond_one_rdv n i j p c o p' ch ch' q c2 v2 q' r2 s2 s2' ch2 ch2'
                  O ne Hp Dp Hc Cp Hq Dq Hs2 Ds2 Hc2 Cq)
        as [n1 [n2 D]].
      split; [|exact D].
      simpl; intros x [?|[]] [?|[?|[]]]; lia.
    - assert (ne' : j <> i) by auto.
      destruct (@diamond_one_rdv n j i q c2 o2 q' ch2 ch2' p c v p' r s s' ch ch'
                  O ne' Hq Dq Hc2 Cq Hp Dp Hs Ds Hc Cp)
        as [n1 [n2 [d [D1 D2]]]].
      split; [|exists d; split; assumption].
      simpl; intros x [?|[?|[]]] [?|[]]; lia.
    - destruct (@diamond_rdv_rdv n i j p c v p' r s s' ch ch' q c2 v2 q' r2 s2 s2' ch2 ch2'
                  O ne Hp Dp Hs Ds Hc Cp Hq Dq Hs2 Ds2 Hc2 Cq)
        as [[n1 [n2 [n3 n4]]] D].
      split; [|exact D].
      simpl; intros x [?|[?|[]]] [?|[?|[]]]; lia.
  Qed.

  Theorem step_diamond : forall n i j a b,
    owns n -> i <> j -> step n i a -> step n j b ->
    exists d, step a j d /\ step b i d.
  Proof.
    intros n i j a b O ne [li Hi] [lj Hj].
    destruct (stepx_diamond O ne Hi Hj) as [_ [d [D1 D2]]].
    exists d; split; eexists; eauto.
  Qed.

  (* ------------------------------------------------------------------- *)
  (* 4. A step is determined by the process that initiates it             *)
  (* ------------------------------------------------------------------- *)

  Lemma pdo_close_send : forall p c p1 c' v p2,
    pdo p c OClose p1 -> pdo p c' (OSend v) p2 -> False.
  Proof.
    intros p c p1 c' v p2 H1 H2. inversion H1; inversion H2; congruence.
  Qed.

  Lemma cdo_send_rdv : forall ch v w a b,
    cdo ch (CSend v) a -> cdo ch (CRdv w) b -> False.
  Proof.
    intros ch v w a b H1 H2. inversion H1; inversion H2; lia.
  Qed.

  Theorem stepx_det : forall n i l1 l2 a b,
    owns n -> stepx n i l1 a -> stepx n i l2 b -> l1 = l2 /\ a = b.
  Proof.
    intros n i l1 l2 a b O H1 H2.
    destruct H1 as [p c o p' ch ch' Hp Dp Hc Cp | p c v p' r s s' ch ch' Hp Dp Hs Ds Hc Cp];
    destruct H2 as [q c2 o2 q' ch2 ch2' Hq Dq Hc2 Cq
                   | q c2 v2 q' r2 s2 s2' ch2 ch2' Hq Dq Hs2 Ds2 Hc2 Cq];
    assert (q = p) by congruence; subst q;
    destruct (pdo_chan Dp Dq) as [ec W]; subst c2;
    assert (ch2 = ch) by congruence; subst ch2.
    - assert (o2 = o).
      { destruct o, o2; try discriminate; simpl in *;
          try (exfalso; eapply pdo_close_send; eauto; fail).
        - f_equal. symmetry. eapply pdo_send_val; eauto.
        - f_equal. eapply cdo_recv_det; eauto.
        - reflexivity. }
      subst o2.
      rewrite (pdo_det Dp Dq), (cdo_det Cp Cq). auto.
    - exfalso. destruct o; try discriminate; simpl in *.
      + eapply cdo_send_rdv; eauto.
      + eapply pdo_close_send; eauto.
    - exfalso. destruct o2; try discriminate; simpl in *.
      + eapply cdo_send_rdv; eauto.
      + eapply pdo_close_send; eauto.
    - assert (v2 = v) by (symmetry; eapply pdo_send_val; eauto). subst v2.
      pose proof (O _ _ _ _ _ Hs Ds) as Or.
      pose proof (O _ _ _ _ _ Hs2 Ds2) as Or2.
      assert (r2 = r) by congruence. clear Or Or2. subst r2.
      assert (s2 = s) by congruence. subst s2.
      rewrite (pdo_det Dp Dq), (pdo_det Ds Ds2), (cdo_det Cp Cq). auto.
  Qed.

  Theorem step_det : forall n i a b,
    owns n -> step n i a -> step n i b -> a = b.
  Proof.
    intros n i a b O [l1 H1] [l2 H2]. eapply stepx_det; eauto.
  Qed.

  (* ------------------------------------------------------------------- *)
  (* 5. Executions, confluence and determinacy                            *)
  (* ------------------------------------------------------------------- *)

  Lemma exec_app : forall a l1 b l2 c,
    exec a l1 b -> exec b l2 c -> exec a (l1 ++ l2) c.
  Proof.
    induction 1; intros; simpl; auto. econstructor; eauto.
  Qed.

  Lemma wf_owns : forall n, wf n -> owns n.
  Proof. intros n W. apply (W [] n). constructor. Qed.

  Lemma wf_step : forall n i n', wf n -> step n i n' -> wf n'.
  Proof.
    intros n i n' W S l m E. apply (W (i :: l) m). econstructor; eauto.
  Qed.

  Lemma wf_exec : forall n l n', wf n -> exec n l n' -> wf n'.
  Proof.
    intros n l n' W E l2 m E2. apply (W (l ++ l2) m). eapply exec_app; eauto.
  Qed.

  Lemma confluence_aux : forall k n l t,
    length l = k -> wf n -> exec n l t -> terminal t ->
    forall l' n', exec n l' n' ->
    exists l'', exec n' l'' t /\ Permutation (l' ++ l'') l.
  Proof.
    induction k; intros n l t Len W E T l' n' E'.
    - destruct l; try discriminate. inversion E; subst.
      destruct l' as [|j l1'].
      + inversion E'; subst. exists []. split; [constructor|constructor].
      + inversion E'; subst. exfalso. eapply T; eauto.
    - destruct l as [|i l1]; try discriminate. simpl in Len.
      inversion E as [|? ? a ? ? Si Ea]; subst.
      destruct l' as [|j l1'].
      + inversion E'; subst. exists (i :: l1). split; auto.
      + inversion E' as [|? ? b ? ? Sj Eb]; subst.
        destruct (Nat.eq_dec i j) as [e|ne].
        * subst j. assert (b = a) by (eapply step_det; eauto using wf_owns). subst b.
          destruct (IHk a l1 t) with (l' := l1') (n' := n') as [l2 [E2 P2]];
            eauto using wf_step.
          exists l2. split; auto. simpl. constructor. exact P2.
        * destruct (@step_diamond n i j a b) as [d [D1 D2]]; eauto using wf_owns.
          destruct (IHk a l1 t) with (l' := [j]) (n' := d) as [l2 [E2 P2]];
            eauto using wf_step.
          { econstructor; eauto. constructor. }
          assert (Lb : length (i :: l2) = k).
          { apply Permutation_length in P2. simpl in *. lia. }
          destruct (IHk b (i :: l2) t) with (l' := l1') (n' := n') as [l3 [E3 P3]];
            eauto using wf_step.
          { econstructor; eauto. }
          exists l3. split; auto. simpl.
          eapply perm_trans. { apply perm_skip. exact P3. }
          eapply perm_trans. { apply perm_swap. }
          apply perm_skip. exact P2.
  Qed.

  (* CONFLUENCE towards a terminal state: if some schedule l drives n to a
     terminal state t, then ANY partial execution l' from n can be completed
     to t, and the completed schedule is a permutation of l (every process
     performs the same number of steps whatever the schedule). *)
  Theorem confluence : forall n l t l' n',
    wf n -> exec n l t -> terminal t -> exec n l' n' ->
    exists l'', exec n' l'' t /\ Permutation (l' ++ l'') l.
  Proof.
    intros. eapply confluence_aux; eauto.
  Qed.

  (* Every execution is at most as long as a terminating one. *)
  Corollary exec_bounded : forall n l t l' n',
    wf n -> exec n l t -> terminal t -> exec n l' n' -> length l' <= length l.
  Proof.
    intros n l t l' n' W E T E'.
    destruct (confluence W E T E') as [l2 [_ P]].
    apply Permutation_length in P. rewrite app_length in P. lia.
  Qed.

  (* DETERMINACY: every maximal execution ends in exactly the same state,
     after the same number of steps of each process. *)
  Theorem determinacy : forall n l t l' t',
    wf n -> exec n l t -> terminal t -> exec n l' t' -> terminal t' ->
    t' = t /\ Permutation l' l.
  Proof.
    intros n l t l' t' W E T E' T'.
    destruct (confluence W E T E') as [l2 [E2 P]].
    destruct l2 as [|j l2].
    - inversion E2; subst. rewrite app_nil_r in P. auto.
    - inversion E2; subst. exfalso. eapply T'; eauto.
  Qed.

  (* Termination is schedule independent: if one schedule terminates, there
     is no infinite execution at all. *)
  Corollary no_infinite_execution : forall n l t,
    wf n -> exec n l t -> terminal t ->
    forall (st : nat -> net) (sch : nat -> nat),
      st 0 = n -> (forall k, step (st k) (sch k) (st (S k))) -> False.
  Proof.
    intros n l t W E T st sch H0 HS.
    assert (P : forall k, exec (st 0) (map sch (seq 0 k)) (st k)).
    { induction k.
      - constructor.
      - rewrite seq_S, map_app. eapply exec_app; eauto. simpl.
        econstructor; eauto. constructor. }
    specialize (P (S (length l))). rewrite H0 in P.
    pose proof (exec_bounded W E T P) as B.
    rewrite map_length, seq_length in B. lia.
  Qed.

  (* Deadlock is schedule independent. *)
  Corollary deadlock_determinate : forall n l t l' t',
    wf n -> exec n l t -> deadlocked t -> exec n l' t' -> terminal t' ->
    deadlocked t'.
  Proof.
    intros n l t l' t' W E D E' T'.
    destruct (determinacy W E (proj1 D) E' T') as [e _]. subst. exact D.
  Qed.

  Corollary clean_termination_determinate : forall n l t l' t',
    wf n -> exec n l t -> terminal t -> all_halted t -> exec n l' t' -> terminal t' ->
    all_halted t' /\ ~ deadlocked t'.
  Proof.
    intros n l t l' t' W E T A E' T'.
    destruct (determinacy W E T E' T') as [e _]. subst. split; auto.
    intros [_ [i [p [Hp Hh]]]]. apply Hh. eapply A; eauto.
  Qed.

  (* Final channel contents, closure flags and complete transmission
     histories are schedule independent. *)
  Corollary final_channels_determinate : forall n l t l' t',
    wf n -> exec n l t -> terminal t -> exec n l' t' -> terminal t' ->
    chans t' = chans t.
  Proof.
    intros n l t l' t' W E T E' T'.
    destruct (determinacy W E T E' T') as [e _]. subst. reflexivity.
  Qed.

  (* Histories only grow, by appending. *)
  Definition hist_le (n n' : net) : Prop :=
    forall c ch, nth_error (chans n) c = Some ch ->
    exists ch' sfx, nth_error (chans n') c = Some ch' /\ sent ch' = sent ch ++ sfx.

  Lemma cdo_sent : forall ch o ch', cdo ch o ch' -> exists sfx, sent ch' = sent ch ++ sfx.
  Proof.
    intros ch o ch' H. inversion H; subst; simpl; eauto.
    - exists []. rewrite app_nil_r; auto.
    - exists []. rewrite app_nil_r; auto.
    - exists []. rewrite app_nil_r; auto.
  Qed.

  Lemma upd_hist_le : forall n ps c ch ch' sfx,
    nth_error (chans n) c = Some ch -> sent ch' = sent ch ++ sfx ->
    hist_le n (mknet ps (upd (chans n) c ch')).
  Proof.
    intros n ps c ch ch' sfx Hc Hs c0 ch0 H0. simpl.
    destruct (Nat.eq_dec c0 c) as [e|ne].
    - subst c0. assert (ch0 = ch) by congruence. subst ch0.
      exists ch', sfx. split; auto. eapply nth_upd_eq; eauto.
    - exists ch0, []. rewrite nth_upd_neq by auto. rewrite app_nil_r. auto.
  Qed.

  Lemma step_hist_le : forall n i n', step n i n' -> hist_le n n'.
  Proof.
    intros n i n' [l H].
    destruct H as [p c o p' ch ch' Hp Dp Hc Cp | p c v p' r s s' ch ch' Hp Dp Hs Ds Hc Cp];
      destruct (cdo_sent Cp) as [sfx Hsfx]; eapply upd_hist_le; eauto.
  Qed.

  Lemma exec_hist_le : forall n l n', exec n l n' -> hist_le n n'.
  Proof.
    induction 1.
    - intros c ch H. exists ch, []. rewrite app_nil_r. auto.
    - intros c ch Hc. destruct (step_hist_le H _ Hc) as [ch1 [s1 [H1 E1]]].
      destruct (IHexec _ _ H1) as [ch2 [s2 [H2 E2]]].
      exists ch2, (s1 ++ s2). split; auto. rewrite E2, E1, app_assoc. auto.
  Qed.

  (* Kahn's principle: whatever the schedule, at any moment the sequence of
     values transmitted so far on each channel is a prefix of THE sequence
     transmitted in the (unique) final state. *)
  Corollary history_prefix : forall n l t l' n',
    wf n -> exec n l t -> terminal t -> exec n l' n' -> hist_le n' t.
  Proof.
    intros n l t l' n' W E T E'.
    destruct (confluence W E T E') as [l2 [E2 _]].
    eapply exec_hist_le; eauto.
  Qed.

  (* ------------------------------------------------------------------- *)
  (* 6. The step relation, spelled out rule by rule (Go semantics)        *)
  (* ------------------------------------------------------------------- *)

  Inductive gostep (n : net) (i : nat) : net -> Prop :=
  | GSendBuffered p c v k ch :
      nth_error (procs n) i = Some p -> pact p = ASend c v k ->
      nth_error (chans n) c = Some ch ->
      closed ch = false -> length (buf ch) < cap ch ->
      gostep n i (mknet (upd (procs n) i (pset p k))
                        (upd (chans n) c
                             (mkchan (buf ch ++ [v]) (cap ch) (closed ch) (sent ch ++ [v]))))
  | GRendezvous p c v k ch j q kq :
      nth_error (procs n) i = Some p -> pact p = ASend c v k ->
      nth_error (chans n) c = Some ch ->
      closed ch = false -> cap ch = 0 -> buf ch = [] ->
      nth_error (procs n) j = Some q -> pact q = ARecv c kq ->
      gostep n i (mknet (upd (upd (procs n) i (pset p k)) j (pset q (kq (Some v))))
                        (upd (chans n) c
                             (mkchan (buf ch) (cap ch) (closed ch) (sent ch ++ [v]))))
  | GRecv p c k ch v r :
      nth_error (procs n) i = Some p -> pact p = ARecv c k ->
      nth_error (chans n) c = Some ch -> buf ch = v :: r ->
      gostep n i (mknet (upd (procs n) i (pset p (k (Some v))))
                        (upd (chans n) c (mkchan r (cap ch) (closed ch) (sent ch))))
  | GRecvClosed p c k ch :
      nth_error (procs n) i = Some p -> pact p = ARecv c k ->
      nth_error (chans n) c = Some ch -> buf ch = [] -> closed ch = true ->
      gostep n i (mknet (upd (procs n) i (pset p (k None))) (upd (chans n) c ch))
  | GClose p c k ch :
      nth_error (procs n) i = Some p -> pact p = AClose c k ->
      nth_error (chans n) c = Some ch -> closed ch = false ->
      gostep n i (mknet (upd (procs n) i (pset p k))
                        (upd (chans n) c (mkchan (buf ch) (cap ch) true (sent ch)))).

  Theorem step_iff_gostep : forall n i n', step n i n' <-> gostep n i n'.
  Proof.
    intros n i n'. split.
    - intros [l H].
      destruct H as [p c o p' ch ch' Hp Dp Hc Cp | p c v p' r s s' ch ch' Hp Dp Hs Ds Hc Cp].
      + inversion Dp; subst; simpl in Cp; inversion Cp; subst.
        * eapply GSendBuffered; eauto.
        * eapply GRecv; eauto.
        * eapply GRecvClosed; eauto.
        * eapply GClose; eauto.
      + inversion Dp; subst. inversion Ds; subst. inversion Cp; subst.
        eapply GRendezvous; eauto.
    - intros H. destruct H.
      + exists [i]. eapply SOne with (o := OSend v); eauto.
        * constructor; eauto.
        * simpl. constructor; auto.
      + exists [i; j]. eapply SRdv; eauto.
        * constructor; eauto.
        * constructor; eauto.
        * constructor; auto.
      + exists [i]. eapply SOne with (o := ORecv (Some v)); eauto.
        * constructor; eauto.
        * simpl. constructor; auto.
      + exists [i]. eapply SOne with (o := ORecv None); eauto.
        * constructor; eauto.
        * simpl. constructor; auto.
      + exists [i]. eapply SOne with (o := OClose); eauto.
        * constructor; eauto.
        * simpl. constructor; auto.
  Qed.

  (* ------------------------------------------------------------------- *)
  (* 7. A local (per process) sufficient condition for well-formedness    *)
  (* ------------------------------------------------------------------- *)

  (* Local states a process may ever reach, whatever it receives. *)
  Inductive preach (p : proc) : pS p -> Prop :=
  | PR0 : preach p (pst p)
  | PRrecv s c k o : preach p s -> pnext p s = ARecv c k -> preach p (k o)
  | PRsend s c v k : preach p s -> pnext p s = ASend c v k -> preach p k
  | PRclose s c k : preach p s -> pnext p s = AClose c k -> preach p k.

  Definition act_ok (i : nat) (S : Type) (a : act S) : Prop :=
    match a with
    | ARecv c _ => rd c = i
    | ASend c _ _ => wr c = i
    | AClose c _ => wr c = i
    | AHalt => True
    end.

  (* Process number i only ever receives from channels it reads and only
     ever sends to / closes channels it writes. *)
  Definition proc_ok (i : nat) (p : proc) : Prop :=
    forall s, preach p s -> act_ok i (pnext p s).

  Definition net_ok (n : net) : Prop :=
    forall i p, nth_error (procs n) i = Some p -> proc_ok i p.

  Lemma preach_pset : forall p k, preach p k ->
    forall s, preach (pset p k) s -> preach p s.
  Proof.
    intros p k Hk s H. induction H.
    - exact Hk.
    - eapply PRrecv; eauto.
    - eapply PRsend; eauto.
    - eapply PRclose; eauto.
  Qed.

  Lemma proc_ok_pdo : forall i p c o p',
    proc_ok i p -> pdo p c o p' -> proc_ok i p' /\ owner c o = i.
  Proof.
    intros i p c o p' OK D.
    pose proof (OK _ (PR0 p)) as A. fold (pact p) in A.
    inversion D as [c0 v k E|c0 k r E|c0 k E]; subst;
      rewrite E in A; simpl in A; (split; [|exact A]);
      intros s Hs; apply (OK s); eapply preach_pset; eauto.
    - eapply PRsend; [apply PR0|exact E].
    - eapply PRrecv; [apply PR0|exact E].
    - eapply PRclose; [apply PR0|exact E].
  Qed.

  Lemma net_ok_owns : forall n, net_ok n -> owns n.
  Proof.
    intros n OK i p c o p' Hp D. eapply proc_ok_pdo; eauto.
  Qed.

  Lemma net_ok_upd : forall ps cs cs' i p',
    net_ok (mknet ps cs) -> proc_ok i p' -> net_ok (mknet (upd ps i p') cs').
  Proof.
    intros ps cs cs' i p' OK Hp' x y Hx. simpl in Hx. rewrite nth_upd in Hx.
    destruct (Nat.eqb_spec x i).
    - subst x. destruct (nth_error ps i); inversion Hx; subst; auto.
    - eapply OK; eauto.
  Qed.

  Lemma net_ok_step : forall n i n', net_ok n -> step n i n' -> net_ok n'.
  Proof.
    intros n i n' OK [l H].
    destruct H as [p c o p' ch ch' Hp Dp Hc Cp | p c v p' r s s' ch ch' Hp Dp Hs Ds Hc Cp].
    - destruct n as [ps cs]. eapply net_ok_upd; eauto.
      eapply proc_ok_pdo; eauto.
    - destruct n as [ps cs]. simpl in *.
      eapply net_ok_upd with (cs := cs).
      + eapply net_ok_upd; eauto. eapply proc_ok_pdo; eauto.
      + eapply proc_ok_pdo; eauto.
  Qed.

  Theorem net_ok_wf : forall n, net_ok n -> wf n.
  Proof.
    intros n OK l n' E. apply net_ok_owns.
    induction E; auto. apply IHE. eapply net_ok_step; eauto.
  Qed.

  (* ------------------------------------------------------------------- *)
  (* 7b. Sanity lemmas about the model                                    *)
  (* ------------------------------------------------------------------- *)

  (* The ownership invariant, spelled out on the current actions. *)
  Lemma owns_spelled_out : forall n,
    owns n <->
    (forall i p, nth_error (procs n) i = Some p ->
       match pact p with
       | ARecv c _ => rd c = i
       | ASend c _ _ => wr c = i
       | AClose c _ => wr c = i
       | AHalt => True
       end).
  Proof.
    intros n. split.
    - intros O i p Hp. destruct (pact p) as [c k|c v k|c k|] eqn:A; auto.
      + apply (O i p c (ORecv None) (pset p (k None)) Hp). constructor; auto.
      + apply (O i p c (OSend v) (pset p k) Hp). constructor; auto.
      + apply (O i p c OClose (pset p k) Hp). constructor; auto.
    - intros H i p c o p' Hp D. specialize (H i p Hp).
      inversion D as [c0 v k E|c0 k r E|c0 k E]; subst; rewrite E in H; exact H.
  Qed.

  Corollary step_diamond_wf : forall n i j a b,
    wf n -> i <> j -> step n i a -> step n j b ->
    exists d, step a j d /\ step b i d.
  Proof. intros. eapply step_diamond; eauto using wf_owns. Qed.

  (* Buffers never exceed the capacity; capacities never change. *)
  Definition within_cap (n : net) : Prop :=
    forall c ch, nth_error (chans n) c = Some ch -> length (buf ch) <= cap ch.

  Lemma cdo_cap : forall ch o ch', cdo ch o ch' ->
    cap ch' = cap ch /\ (length (buf ch) <= cap ch -> length (buf ch') <= cap ch').
  Proof.
    intros ch o ch' H. inversion H; subst; simpl; split; auto; intros.
    - rewrite app_length. simpl. lia.
    - rewrite H0 in *. simpl in *. lia.
  Qed.

  Lemma step_within_cap : forall n i n', within_cap n -> step n i n' -> within_cap n'.
  Proof.
    intros n i n' B [l H].
    destruct H as [p c o p' ch ch' Hp Dp Hc Cp | p c v p' r s s' ch ch' Hp Dp Hs Ds Hc Cp];
      intros c0 ch0 H0; simpl in H0; rewrite nth_upd in H0;
      (destruct (Nat.eqb_spec c0 c);
       [ subst c0; rewrite Hc in H0; inversion H0; subst;
         apply (cdo_cap Cp); eapply B; eauto
       | eapply B; eauto ]).
  Qed.

  (* The field [sent] is a ghost: erasing it gives a bisimilar net. *)
  Definition erase (ch : chan) : chan := mkchan (buf ch) (cap ch) (closed ch) [].
  Definition erase_net (n : net) : net := mknet (procs n) (map erase (chans n)).

  Lemma map_upd : forall (A B : Type) (f : A -> B) l i x,
    map f (upd l i x) = upd (map f l) i (f x).
  Proof. induction l; destruct i; simpl; intros; f_equal; auto. Qed.

  Lemma cdo_ghost : forall ch e o ch',
    erase ch = erase e -> cdo ch o ch' ->
    exists e', cdo e o e' /\ erase ch' = erase e'.
  Proof.
    intros ch e o ch' E H.
    destruct ch as [b1 k1 c1 s1], e as [b2 k2 c2 s2].
    unfold erase in E; simpl in E. inversion E; subst.
    inversion H; subst; simpl in *.
    - eexists. split. apply (@CDsend (mkchan b2 k2 c2 s2) v); auto. reflexivity.
    - eexists. split. apply (@CDrdv (mkchan b2 k2 c2 s2) v); auto. reflexivity.
    - eexists. split. apply (@CDrecv (mkchan b2 k2 c2 s2) v r); auto. reflexivity.
    - eexists. split. apply (@CDeof (mkchan b2 k2 c2 s2)); auto. reflexivity.
    - eexists. split. apply (@CDclose (mkchan b2 k2 c2 s2)); auto. reflexivity.
  Qed.

  (* Two nets that differ only in the ghost histories have the same steps,
     leading to nets that again differ only in the ghost histories. *)
  Theorem ghost_irrelevant : forall n m i l n',
    erase_net n = erase_net m -> stepx n i l n' ->
    exists m', stepx m i l m' /\ erase_net n' = erase_net m'.
  Proof.
    intros n m i l n' E H. unfold erase_net in E. inversion E as [[Ep Ec]].
    assert (L : forall c ch, nth_error (chans n) c = Some ch ->
                exists e, nth_error (chans m) c = Some e /\ erase ch = erase e).
    { intros c ch Hc. pose proof (map_nth_error erase _ _ Hc) as M.
      rewrite Ec, nth_error_map in M.
      destruct (nth_error (chans m) c) as [e|]; try discriminate.
      exists e. split; auto. simpl in M. congruence. }
    destruct H as [p c o p' ch ch' Hp Dp Hc Cp | p c v p' r s s' ch ch' Hp Dp Hs Ds Hc Cp];
      destruct (L _ _ Hc) as [e [He Ee]];
      destruct (@cdo_ghost ch e _ ch' Ee Cp) as [e' [Ce Ee']];
      rewrite Ep in *.
    - eexists. split. eapply SOne; eauto.
      unfold erase_net; simpl. rewrite !map_upd, Ec, Ee'. reflexivity.
    - eexists. split. eapply SRdv; eauto.
      unfold erase_net; simpl. rewrite !map_upd, Ec, Ee'. reflexivity.
  Qed.

  (* ------------------------------------------------------------------- *)
  (* 8. An executable step function and a round-robin scheduler           *)
  (* ------------------------------------------------------------------- *)

  Definition recv_cont (q : proc) (c : nat) (o : option V) : option proc :=
    match pact q with
    | ARecv c' k => if Nat.eqb c' c then Some (pset q (k o)) else None
    | _ => None
    end.

  (* first process (numbered from b) positioned at a receive on c *)
  Fixpoint find_partner (ps : list proc) (c : nat) (o : option V) (b : nat)
    : option (nat * proc) :=
    match ps with
    | [] => None
    | q :: t => match recv_cont q c o with
                | Some q' => Some (b, q')
                | None => find_partner t c o (S b)
                end
    end.

  Definition fire (n : net) (i : nat) : option net :=
    match nth_error (procs n) i with
    | None => None
    | Some p =>
      match pact p with
      | AHalt => None
      | ASend c v k =>
        match nth_error (chans n) c with
        | None => None
        | Some ch =>
          if closed ch then None
          else if Nat.ltb (length (buf ch)) (cap ch)
          then Some (mknet (upd (procs n) i (pset p k))
                           (upd (chans n) c
                                (mkchan (buf ch ++ [v]) (cap ch) (closed ch) (sent ch ++ [v]))))
          else match cap ch, buf ch with
               | 0, [] =>
                 match find_partner (procs n) c (Some v) 0 with
                 | Some (j, q') =>
                   Some (mknet (upd (upd (procs n) i (pset p k)) j q')
                               (upd (chans n) c
                                    (mkchan (buf ch) (cap ch) (closed ch) (sent ch ++ [v]))))
                 | None => None
                 end
               | _, _ => None
               end
        end
      | ARecv c k =>
        match nth_error (chans n) c with
        | None => None
        | Some ch =>
          match buf ch with
          | v :: r => Some (mknet (upd (procs n) i (pset p (k (Some v))))
                                  (upd (chans n) c (mkchan r (cap ch) (closed ch) (sent ch))))
          | [] => if closed ch
                  then Some (mknet (upd (procs n) i (pset p (k None))) (upd (chans n) c ch))
                  else None
          end
        end
      | AClose c k =>
        match nth_error (chans n) c with
        | None => None
        | Some ch =>
          if closed ch then None
          else Some (mknet (upd (procs n) i (pset p k))
                           (upd (chans n) c (mkchan (buf ch) (cap ch) true (sent ch))))
        end
      end
    end.

  Lemma find_partner_sound : forall ps c o b j q',
    find_partner ps c o b = Some (j, q') ->
    exists j0 q kq, j = b + j0 /\ nth_error ps j0 = Some q /\
                    pact q = ARecv c kq /\ q' = pset q (kq o).
  Proof.
    induction ps as [|q t IH]; intros c o b j q' H; simpl in H; try discriminate.
    destruct (recv_cont q c o) as [q1|] eqn:R.
    - inversion H; subst. exists 0, q. unfold recv_cont in R.
      destruct (pact q) as [c' k| | |] eqn:A; try discriminate.
      destruct (Nat.eqb_spec c' c); try discriminate. subst c'. inversion R; subst.
      exists k. repeat split; auto.
    - destruct (IH _ _ _ _ _ H) as [j0 [q0 [kq [E [N [A Q]]]]]].
      exists (S j0), q0, kq. repeat split; auto. lia.
  Qed.

  Lemma find_partner_complete : forall ps c o b j q kq,
    nth_error ps j = Some q -> pact q = ARecv c kq ->
    find_partner ps c o b <> None.
  Proof.
    induction ps as [|q0 t IH]; intros c o b j q kq N A.
    - destruct j; discriminate.
    - simpl. destruct (recv_cont q0 c o) eqn:R; try discriminate.
      destruct j as [|j]; simpl in N.
      + inversion N; subst. unfold recv_cont in R. rewrite A, Nat.eqb_refl in R.
        discriminate.
      + eapply IH; eauto.
  Qed.

  Theorem fire_sound : forall n i n', fire n i = Some n' -> step n i n'.
  Proof.
    intros n i n' H. apply step_iff_gostep. unfold fire in H.
    destruct (nth_error (procs n) i) as [p|] eqn:Hp; try discriminate.
    destruct (pact p) as [c k|c v k|c k|] eqn:A; try discriminate;
      destruct (nth_error (chans n) c) as [ch|] eqn:Hc; try discriminate.
    - destruct (buf ch) as [|v r] eqn:B.
      + destruct (closed ch) eqn:C; try discriminate. inversion H; subst.
        eapply GRecvClosed; eauto.
      + inversion H; subst. eapply GRecv; eauto.
    - destruct (closed ch) eqn:C; try discriminate.
      destruct (Nat.ltb_spec (length (buf ch)) (cap ch)).
      + inversion H; subst. rewrite <- C. eapply GSendBuffered; eauto.
      + destruct (cap ch) eqn:K; try discriminate.
        destruct (buf ch) eqn:B; try discriminate.
        destruct (find_partner (procs n) c (Some v) 0) as [[j q']|] eqn:F; try discriminate.
        inversion H; subst.
        destruct (find_partner_sound _ _ _ _ F) as [j0 [q [kq [E [N [Aq Q]]]]]].
        simpl in E. subst j0 q'.
        pose proof (@GRendezvous n i p c v k ch j q kq Hp A Hc C K B N Aq) as G.
        rewrite K, B, C in G. exact G.
    - destruct (closed ch) eqn:C; try discriminate. inversion H; subst.
      eapply GClose; eauto.
  Qed.

  Theorem fire_complete : forall n i n', step n i n' -> fire n i <> None.
  Proof.
    intros n i n' H. apply step_iff_gostep in H. unfold fire.
    destruct H as [p c v k ch Hp A Hc C L | p c v k ch j q kq Hp A Hc C K B Hq Aq
                  | p c k ch v r Hp A Hc B | p c k ch Hp A Hc B C | p c k ch Hp A Hc C];
      rewrite Hp, A, Hc.
    - rewrite C. destruct (Nat.ltb_spec (length (buf ch)) (cap ch)); try lia. discriminate.
    - rewrite C, K, B. simpl.
      pose proof (find_partner_complete (procs n) (Some v) 0 _ Hq Aq) as F.
      destruct (find_partner (procs n) c (Some v) 0) as [[j' q']|]; congruence.
    - rewrite B. discriminate.
    - rewrite B, C. discriminate.
    - rewrite C. discriminate.
  Qed.

  Definition terminalb (n : net) : bool :=
    forallb (fun i => match fire n i with None => true | Some _ => false end)
            (seq 0 (length (procs n))).

  Lemma terminalb_sound : forall n, terminalb n = true -> terminal n.
  Proof.
    intros n H i n' S. pose proof (fire_complete S) as F.
    assert (Li : i < length (procs n)).
    { apply nth_error_Some. destruct S as [l S]. destruct S; congruence. }
    unfold terminalb in H. rewrite forallb_forall in H.
    specialize (H i). rewrite in_seq in H.
    destruct (fire n i); try congruence. assert (false = true) by (apply H; lia).
    discriminate.
  Qed.

  Definition haltedb (p : proc) : bool :=
    match pact p with AHalt => true | _ => false end.

  Lemma haltedb_halted : forall p, haltedb p = true <-> halted p.
  Proof.
    intros p. unfold haltedb, halted. destruct (pact p); split; auto; try discriminate;
      intros [].
  Qed.

  (* one round: try every process of [is] once, in order *)
  Fixpoint sweep (n : net) (is : list nat) : net * list nat :=
    match is with
    | [] => (n, [])
    | i :: r => match fire n i with
                | Some n' => let (m, tr) := sweep n' r in (m, i :: tr)
                | None => sweep n r
                end
    end.

  Fixpoint runT (fuel : nat) (n : net) : net * list nat :=
    match fuel with
    | 0 => (n, [])
    | S f => let (n', tr) := sweep n (seq 0 (length (procs n))) in
             match tr with
             | [] => (n', [])
             | _ => let (m, tr') := runT f n' in (m, tr ++ tr')
             end
    end.

  Definition run (fuel : nat) (n : net) : net := fst (runT fuel n).
  Definition run_schedule (fuel : nat) (n : net) : list nat := snd (runT fuel n).

  Lemma sweep_exec : forall is n, exec n (snd (sweep n is)) (fst (sweep n is)).
  Proof.
    induction is as [|i r IH]; intros n; simpl.
    - constructor.
    - destruct (fire n i) as [n'|] eqn:F.
      + specialize (IH n'). destruct (sweep n' r) as [m tr]. simpl in *.
        econstructor; eauto. apply fire_sound; auto.
      + apply IH.
  Qed.

  Theorem run_exec : forall fuel n, exec n (run_schedule fuel n) (run fuel n).
  Proof.
    unfold run, run_schedule.
    induction fuel as [|f IH]; intros n; simpl.
    - constructor.
    - pose proof (sweep_exec (seq 0 (length (procs n))) n) as E.
      destruct (sweep n (seq 0 (length (procs n)))) as [n' tr]. simpl in E.
      destruct tr as [|i tr].
      + exact E.
      + specialize (IH n'). destruct (runT f n') as [m tr']. simpl in *.
        change (i :: tr ++ tr') with ((i :: tr) ++ tr').
        eapply exec_app; eauto.
  Qed.

  Definition deadlockedb (n : net) : bool :=
    terminalb n && existsb (fun p => negb (haltedb p)) (procs n).

  Lemma deadlockedb_sound : forall n, deadlockedb n = true -> deadlocked n.
  Proof.
    intros n H. unfold deadlockedb in H. apply andb_true_iff in H. destruct H as [T E].
    split. { apply terminalb_sound; auto. }
    apply existsb_exists in E. destruct E as [p [I Hp]].
    apply In_nth_error in I. destruct I as [i Hi]. exists i, p. split; auto.
    intro Hh. apply haltedb_halted in Hh. rewrite Hh in Hp. discriminate.
  Qed.

  Lemma all_haltedb_sound : forall n,
    forallb haltedb (procs n) = true -> all_halted n.
  Proof.
    intros n H i p Hp. rewrite forallb_forall in H. apply haltedb_halted. apply H.
    eapply nth_error_In; eauto.
  Qed.

End Kahn.

Arguments ARecv {V S}.
Arguments ASend {V S}.
Arguments AClose {V S}.
Arguments AHalt {V S}.

(* --------------------------------------------------------------------- *)
(* 9. Example: source -> map -> sink, validated by computation            *)
(* --------------------------------------------------------------------- *)

Module Example.

  (* sends the elements of xs on channel c, then closes it *)
  Definition source (c : nat) (xs : list nat) : proc nat :=
    {| pS := option (list nat);
       pst := Some xs;
       pnext := fun s => match s with
                         | Some (x :: r) => ASend c x (Some r)
                         | Some [] => AClose c None
                         | None => AHalt
                         end |}.

  Inductive mst := MWait | MHave (v : nat) | MClosing | MDone.

  (* for v := range cin { cout <- f v }; close(cout) *)
  Definition mapper (f : nat -> nat) (cin cout : nat) : proc nat :=
    {| pS := mst;
       pst := MWait;
       pnext := fun s => match s with
                         | MWait => ARecv cin (fun o => match o with
                                                        | Some v => MHave (f v)
                                                        | None => MClosing
                                                        end)
                         | MHave v => ASend cout v MWait
                         | MClosing => AClose cout MDone
                         | MDone => AHalt
                         end |}.

  (* drains channel c, accumulating what it receives *)
  Definition sink (c : nat) : proc nat :=
    {| pS := list nat * bool;
       pst := ([], false);
       pnext := fun s => if snd s then AHalt
                         else ARecv c (fun o => match o with
                                                | Some v => (fst s ++ [v], false)
                                                | None => (fst s, true)
                                                end) |}.

  (* reads a single value, then stops (used for the deadlock example) *)
  Definition once (c : nat) : proc nat :=
    {| pS := bool;
       pst := false;
       pnext := fun s => if s then AHalt else ARecv c (fun _ => true) |}.

  Definition newchan (k : nat) : chan nat := mkchan [] k false [].

  Definition pipeline (k0 k1 : nat) : net nat :=
    mknet [source 0 [1; 2; 3]; mapper S 0 1; sink 1] [newchan k0; newchan k1].

  (* channel c is written by process c and read by process c+1 *)
  Definition rd (c : nat) : nat := S c.
  Definition wr (c : nat) : nat := c.

  Lemma pipeline_ok : forall k0 k1, net_ok rd wr (pipeline k0 k1).
  Proof.
    intros k0 k1 i p H.
    destruct i as [|[|[|i]]]; simpl in H; inversion H; subst; intros s _.
    - destruct s as [[|x r]|]; simpl; auto.
    - destruct s; simpl; auto.
    - destruct s as [a [|]]; simpl; auto.
    - destruct i; discriminate.
  Qed.

  Lemma pipeline_wf : forall k0 k1, wf rd wr (pipeline k0 k1).
  Proof. intros. apply net_ok_wf. apply pipeline_ok. Qed.

  (* rendezvous channel followed by a one-slot channel *)
  Definition final01 := run 100 (pipeline 0 1).

  Example pipeline01_terminal : terminalb final01 = true.
  Proof. vm_compute. reflexivity. Qed.

  Example pipeline01_halted : forallb (@haltedb nat) (procs final01) = true.
  Proof. vm_compute. reflexivity. Qed.

  Example pipeline01_channels :
    chans final01 = [mkchan [] 0 true [1; 2; 3]; mkchan [] 1 true [2; 3; 4]].
  Proof. vm_compute. reflexivity. Qed.

  Example pipeline01_schedule :
    run_schedule 100 (pipeline 0 1) = [0; 1; 2; 0; 1; 2; 0; 1; 2; 0; 1; 1; 2].
  Proof. vm_compute. reflexivity. Qed.

  (* Hence, by the determinacy theorem, EVERY maximal execution of this
     pipeline - whatever the schedule - ends in that very state, with all
     processes halted, after exactly 13 steps. *)
  Theorem pipeline01_determinate : forall l' t',
    exec (pipeline 0 1) l' t' -> terminal t' ->
    t' = final01 /\ all_halted t' /\ length l' = 13 /\
    map (@sent nat) (chans t') = [[1; 2; 3]; [2; 3; 4]].
  Proof.
    intros l' t' E T.
    destruct (@determinacy nat rd wr (pipeline 0 1) (run_schedule 100 (pipeline 0 1))
                final01 l' t') as [e P]; auto.
    - apply pipeline_wf.
    - apply run_exec.
    - apply terminalb_sound. exact pipeline01_terminal.
    - subst t'. split; [reflexivity|]. split.
      + apply all_haltedb_sound. exact pipeline01_halted.
      + split.
        * apply Permutation_length in P. rewrite P, pipeline01_schedule. reflexivity.
        * rewrite pipeline01_channels. reflexivity.
  Qed.

  (* Other capacity assignments: same values transmitted. *)
  Example pipeline_caps :
    forallb (fun k : nat * nat =>
               let t := run 100 (pipeline (fst k) (snd k)) in
               terminalb t && forallb (@haltedb nat) (procs t) &&
               match map (@sent nat) (chans t), map (@buf nat) (chans t) with
               | [[1; 2; 3]; [2; 3; 4]], [[]; []] => true
               | _, _ => false
               end)
            [(0, 0); (0, 1); (1, 0); (1, 1); (2, 3); (5, 0)] = true.
  Proof. vm_compute. reflexivity. Qed.

  (* A deadlocking network: the consumer reads only one of three values sent
     through a one-slot channel.  The deadlock is reached by the scheduler,
     hence (determinacy) by every schedule. *)
  Definition stuck_net : net nat :=
    mknet [source 0 [1; 2; 3]; once 0] [newchan 1].

  Lemma stuck_ok : net_ok rd wr stuck_net.
  Proof.
    intros i p H.
    destruct i as [|[|i]]; simpl in H; inversion H; subst; intros s _.
    - destruct s as [[|x r]|]; simpl; auto.
    - destruct s; simpl; auto.
    - destruct i; discriminate.
  Qed.

  Example stuck_deadlocks : deadlockedb (run 100 stuck_net) = true.
  Proof. vm_compute. reflexivity. Qed.

  Theorem stuck_always_deadlocks : forall l' t',
    exec stuck_net l' t' -> terminal t' -> deadlocked t'.
  Proof.
    intros l' t' E T.
    apply (@deadlock_determinate nat rd wr stuck_net (run_schedule 100 stuck_net)
             (run 100 stuck_net) l' t'); auto.
    - apply net_ok_wf. apply stuck_ok.
    - apply run_exec.
    - apply deadlockedb_sound. exact stuck_deadlocks.
  Qed.

End Example.

Print Assumptions Example.pipeline01_determinate.
Print Assumptions Example.stuck_always_deadlocks.
Print Assumptions confluence.
