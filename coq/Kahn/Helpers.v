(* C03: the channel helpers of cinar/indicator as processes of the Kahn calculus (Kahn/Kahn.v), a small description
   language for pipelines built from them, and the network a description denotes.  Each process mirrors the goroutine of
   the Go helper statement by statement (blocking receive / send / close, nothing else); channel capacities follow the
   rules of the Go code (cap(input) propagated, Shift adds its count, Map/Operate are unbuffered, Buffered has its size).
   Values are natural numbers: the helpers are parametric in the element type and never inspect a value.
   Definitions only. *)
From Coq Require Import List Arith Bool Lia.
Import ListNotations.
From Verif Require Import Kahn.Kahn.

Definition P := proc nat.

(* helper.SliceToChan / a producer: for _, n := range slice { c <- n }; close(c) *)
Definition source (c : nat) (xs : list nat) : P :=
  {| pS := option (list nat); pst := Some xs;
     pnext := fun s => match s with
                       | Some (x :: r) => ASend c x (Some r)
                       | Some [] => AClose c None
                       | None => AHalt
                       end |}.

(* a reader that keeps what it receives (helper.ChanToSlice), or throws it away (helper.Drain) *)
Definition sink (c : nat) : P :=
  {| pS := list nat * bool; pst := ([], false);
     pnext := fun s => if snd s then AHalt
                       else ARecv c (fun o => match o with Some v => (fst s ++ [v], false) | None => (fst s, true) end) |}.

(* helper.Map (f := S), helper.Pipe / helper.Buffered's goroutine (f := id): for n := range cin { cout <- f n }; close(cout) *)
Inductive mst := MWait | MHave (v : nat) | MClosing | MDone.
Definition mapper (f : nat -> nat) (cin cout : nat) : P :=
  {| pS := mst; pst := MWait;
     pnext := fun s => match s with
                       | MWait => ARecv cin (fun o => match o with Some v => MHave (f v) | None => MClosing end)
                       | MHave v => ASend cout v MWait
                       | MClosing => AClose cout MDone
                       | MDone => AHalt
                       end |}.

(* helper.Duplicate: for n := range input { for _, o := range outputs { o <- n } }; deferred closes run last-registered first *)
Inductive dst := DWait | DSend (v : nat) (rest : list nat) | DClose (rest : list nat) | DDone.
Definition duplicate (cin : nat) (couts : list nat) : P :=
  {| pS := dst; pst := DWait;
     pnext := fun s => match s with
                       | DWait => ARecv cin (fun o => match o with Some v => DSend v couts | None => DClose (rev couts) end)
                       | DSend v (c :: r) => ASend c v (DSend v r)
                       | DSend v [] => ARecv cin (fun o => match o with Some v' => DSend v' couts | None => DClose (rev couts) end)
                       | DClose (c :: r) => AClose c (DClose r)
                       | DClose [] => AHalt
                       | DDone => AHalt
                       end |}.

(* helper.Operate (o := plus): an, ok := <-ac; if !ok { Drain(bc); break }; bn, ok := <-bc; if !ok { Drain(ac); break }; oc <- o(an, bn) *)
Inductive ost := ORecvA | ORecvB (a : nat) | OSendR (v : nat) | ODrain (c : nat) | OClosing | ODone.
Definition operate (ca cb cout : nat) : P :=
  {| pS := ost; pst := ORecvA;
     pnext := fun s => match s with
                       | ORecvA => ARecv ca (fun o => match o with Some a => ORecvB a | None => ODrain cb end)
                       | ORecvB a => ARecv cb (fun o => match o with Some b => OSendR (a + b) | None => ODrain ca end)
                       | OSendR v => ASend cout v ORecvA
                       | ODrain c => ARecv c (fun o => match o with Some _ => ODrain c | None => OClosing end)
                       | OClosing => AClose cout ODone
                       | ODone => AHalt
                       end |}.

(* helper.Operate3 (o := a + b + c): the loop breaks at the first closed input; then Drain(ac); Drain(bc); Drain(cc) in this order; close(rc) *)
Inductive o3st := O3A | O3B (a : nat) | O3C (ab : nat) | O3Send (v : nat) | O3DrainA | O3DrainB | O3DrainC | O3Closing | O3Done.
Definition operate3 (ca cb cc cout : nat) : P :=
  {| pS := o3st; pst := O3A;
     pnext := fun s => match s with
                       | O3A => ARecv ca (fun o => match o with Some a => O3B a | None => O3DrainA end)
                       | O3B a => ARecv cb (fun o => match o with Some b => O3C (a + b) | None => O3DrainA end)
                       | O3C ab => ARecv cc (fun o => match o with Some c => O3Send (ab + c) | None => O3DrainA end)
                       | O3Send v => ASend cout v O3A
                       | O3DrainA => ARecv ca (fun o => match o with Some _ => O3DrainA | None => O3DrainB end)
                       | O3DrainB => ARecv cb (fun o => match o with Some _ => O3DrainB | None => O3DrainC end)
                       | O3DrainC => ARecv cc (fun o => match o with Some _ => O3DrainC | None => O3Closing end)
                       | O3Closing => AClose cout O3Done
                       | O3Done => AHalt
                       end |}.

(* helper.Skip: for i := 0; i < count; i++ { _, ok := <-c; if !ok { break } }; Pipe(c, result) *)
Inductive kst := KSkip (n : nat) | KHave (v : nat) | KClosing | KDone.
Definition skip (cin cout count : nat) : P :=
  {| pS := kst; pst := KSkip count;
     pnext := fun s => match s with
                       | KSkip (S n) => ARecv cin (fun o => match o with Some _ => KSkip n | None => KSkip 0 end)
                       | KSkip 0 => ARecv cin (fun o => match o with Some v => KHave v | None => KClosing end)
                       | KHave v => ASend cout v (KSkip 0)
                       | KClosing => AClose cout KDone
                       | KDone => AHalt
                       end |}.

(* helper.Shift: for i := 0; i < count; i++ { result <- fill }; Pipe(c, result) *)
Inductive sst := SFill (n : nat) | SWait | SHave (v : nat) | SClosing | SDone.
Definition shift (cin cout count fill : nat) : P :=
  {| pS := sst; pst := SFill count;
     pnext := fun s => match s with
                       | SFill (S n) => ASend cout fill (SFill n)
                       | SFill 0 | SWait => ARecv cin (fun o => match o with Some v => SHave v | None => SClosing end)
                       | SHave v => ASend cout v SWait
                       | SClosing => AClose cout SDone
                       | SDone => AHalt
                       end |}.

(* helper.First: for i < count { n, ok := <-c; if !ok { break }; result <- n }; close(result); Drain(c)
   helper.Head: the same without the final Drain *)
Inductive fst_ := FRecv (n : nat) | FSend (n v : nat) | FClosing | FDrain | FDone.
Definition first_or_head (drains : bool) (cin cout count : nat) : P :=
  {| pS := fst_; pst := FRecv count;
     pnext := fun s => match s with
                       | FRecv (S n) => ARecv cin (fun o => match o with Some v => FSend n v | None => FClosing end)
                       | FRecv 0 => AClose cout (if drains then FDrain else FDone)
                       | FSend n v => ASend cout v (FRecv n)
                       | FClosing => AClose cout (if drains then FDrain else FDone)
                       | FDrain => ARecv cin (fun o => match o with Some _ => FDrain | None => FDone end)
                       | FDone => AHalt
                       end |}.

(* ---- pipeline descriptions ---- *)
Inductive node :=
| NSource (out : nat) (xs : list nat)
| NMap (inp out : nat)
| NBuffered (inp out : nat)              (* the capacity of [out] is Buffered's size *)
| NDup (inp : nat) (outs : list nat)
| NOperate (a b out : nat)
| NOperate3 (a b c out : nat)
| NSkip (inp out count : nat)
| NShift (inp out count fill : nat)
| NFirst (inp out count : nat)
| NHead (inp out count : nat)
| NSink (inp : nat).

Record desc := mk_desc { nodes : list node; caps : list nat }.    (* caps: capacity of channel 0, 1, ... *)

Definition proc_of (nd : node) : P :=
  match nd with
  | NSource out xs => source out xs
  | NMap i o => mapper S i o
  | NBuffered i o => mapper (fun v => v) i o
  | NDup i os => duplicate i os
  | NOperate a b o => operate a b o
  | NOperate3 a b c o => operate3 a b c o
  | NSkip i o k => skip i o k
  | NShift i o k f => shift i o k f
  | NFirst i o k => first_or_head true i o k
  | NHead i o k => first_or_head false i o k
  | NSink i => sink i
  end.

Definition build (d : desc) : net nat :=
  mknet (map proc_of (nodes d)) (map (fun k => mkchan [] k false []) (caps d)).

Definition reads (nd : node) : list nat :=
  match nd with
  | NSource _ _ => []
  | NMap i _ | NBuffered i _ | NDup i _ | NSkip i _ _ | NShift i _ _ _ | NFirst i _ _ | NHead i _ _ | NSink i => [i]
  | NOperate a b _ => [a; b]
  | NOperate3 a b c _ => [a; b; c]
  end.
Definition writes (nd : node) : list nat :=
  match nd with
  | NSource o _ | NMap _ o | NBuffered _ o | NOperate _ _ o | NOperate3 _ _ _ o | NSkip _ o _ | NShift _ o _ _ | NFirst _ o _ | NHead _ o _ => [o]
  | NDup _ os => os
  | NSink _ => []
  end.

(* the node that reads / writes a channel: the first one that mentions it in that role *)
Fixpoint find_idx (f : node -> bool) (l : list node) (b : nat) : nat :=
  match l with [] => b | nd :: r => if f nd then b else find_idx f r (S b) end.
Definition rd_of (d : desc) (c : nat) : nat := find_idx (fun nd => existsb (Nat.eqb c) (reads nd)) (nodes d) 0.
Definition wr_of (d : desc) (c : nat) : nat := find_idx (fun nd => existsb (Nat.eqb c) (writes nd)) (nodes d) 0.

(* every channel a node reads (writes) has that node as its one reader (writer), and exists *)
Definition wellformed (d : desc) : bool :=
  forallb (fun ind => let '(i, nd) := ind in
             forallb (fun c => Nat.eqb (rd_of d c) i && Nat.ltb c (length (caps d))) (reads nd)
             && forallb (fun c => Nat.eqb (wr_of d c) i && Nat.ltb c (length (caps d))) (writes nd))
          (combine (seq 0 (length (nodes d))) (nodes d)).

(* capacities obey the rules of the Go code (sources: the caller's choice) *)
Definition cap_at (d : desc) (c : nat) : nat := nth c (caps d) 0.
Definition caps_ok (d : desc) : bool :=
  forallb (fun nd => match nd with
                     | NSource _ _ | NSink _ | NBuffered _ _ => true
                     | NMap _ o | NOperate _ _ o | NOperate3 _ _ _ o => Nat.eqb (cap_at d o) 0
                     | NDup i os => forallb (fun o => Nat.eqb (cap_at d o) (cap_at d i)) os
                     | NSkip i o _ | NFirst i o _ | NHead i o _ => Nat.eqb (cap_at d o) (cap_at d i)
                     | NShift i o k _ => Nat.eqb (cap_at d o) (cap_at d i + k)
                     end) (nodes d).

(* what an independent observer of a finished run sees *)
Definition sinks_done (d : desc) (t : net nat) : bool :=
  forallb (fun ip => match fst ip with NSink _ => haltedb (snd ip) | _ => true end) (combine (nodes d) (procs t)).
Definition no_leak (t : net nat) : bool := forallb (@haltedb nat) (procs t).
Definition received (d : desc) (t : net nat) : list (list nat) :=
  flat_map (fun nd => match nd with NSink c => [match nth_error (chans t) c with Some ch => sent ch | None => [] end] | _ => [] end) (nodes d).
