(* Property C10 - repositories behave as a map from asset name to ordered snapshots.  Theorems only; proofs in Repo/Repo.v.
   The in-memory repository has the code shape of the specification itself (a Go map from name to slice); the file-system
   repository (files that are missing, zero-byte, or header + rows; AppendOrWriteToCsvFile / ReadFromCsvFile) refines it for every
   operation history; the SQL repository is covered by the correspondence over a conforming in-memory driver.  CSV encoding of a
   snapshot is a hypothesis here (proved/checked under C11). *)
From Coq Require Import List ZArith Bool.
Import ListNotations.
From Verif Require Import Repo.Repo.

Theorem C10_file_system_refines_the_map : forall S (date : S -> Z) (h : list (op (S:=S))) (m : fs (S:=S)),
  run (fs_step date) m h = run (spec_step date) (abs_fs m) h.
Proof. exact @fs_refines_spec. Qed.
Theorem C10_append_visible : forall S (date : S -> Z) (m : spec (S:=S)) k l,
  snd (spec_step date (fst (spec_step date m (OAppend k l))) (OGet k)) =
  RVals (match lookup k m with Some old => old ++ l | None => l end).
Proof. exact @append_then_get. Qed.
Theorem C10_append_local : forall S (date : S -> Z) (m : spec (S:=S)) k k' l, k <> k' ->
  snd (spec_step date (fst (spec_step date m (OAppend k l))) (OGet k')) = snd (spec_step date m (OGet k')).
Proof. exact @append_other_untouched. Qed.
Theorem C10_get_since : forall S (date : S -> Z) (m : spec (S:=S)) k d l, lookup k m = Some l ->
  snd (spec_step date m (OGetSince k d)) = RVals (filter (fun s => Z.leb d (date s)) l).
Proof. exact @get_since_is_filter. Qed.
Theorem C10_last_date : forall S (date : S -> Z) (m : spec (S:=S)) k l s, lookup k m = Some (l ++ [s]) ->
  snd (spec_step date m (OLastDate k)) = RDate (date s).
Proof. exact @last_date_is_last. Qed.
Theorem C10_unknown_asset_errors : forall S (date : S -> Z) (m : spec (S:=S)) k d, lookup k m = None ->
  snd (spec_step date m (OGet k)) = RErr /\ snd (spec_step date m (OGetSince k d)) = RErr /\ snd (spec_step date m (OLastDate k)) = RErr.
Proof. exact @unknown_asset_errors. Qed.
Theorem C10_empty_asset_last_date_errors : forall S (date : S -> Z) (m : spec (S:=S)) k, lookup k m = Some [] ->
  snd (spec_step date m (OLastDate k)) = RErr.
Proof. exact @empty_asset_last_date_errors. Qed.
Theorem C10_assets_are_the_appended_names : forall S (date : S -> Z) (h : list (op (S:=S))) k,
  In k (keys (final (spec_step date) [] h)) <-> exists l, In (OAppend k l) h.
Proof. exact @assets_are_appended_names. Qed.

Print Assumptions C10_file_system_refines_the_map.
Print Assumptions C10_append_visible.
Print Assumptions C10_get_since.
Print Assumptions C10_last_date.
Print Assumptions C10_unknown_asset_errors.
Print Assumptions C10_assets_are_the_appended_names.
