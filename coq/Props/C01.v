(* placeholder: C01 theorems under construction *)
From Coq Require Import List.
