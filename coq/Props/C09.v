(* C09: an indicator or strategy value holds configuration only.
   1. Regenerated fact (Gen/Effects.v, from the Go sources on every run): no method of any type of the indicator and strategy
      packages assigns memory reachable from its receiver (directly, through an alias, or by calling a receiver-writing method
      such as Ring.Put / Bst.Insert on one of its fields), nor a package-level variable.
   2. What that buys, for any call that may otherwise be an arbitrary state transformer on the instance: a sequence of calls on one
      instance, and any interleaving of whole calls made by several clients, return what calls on fresh instances return, and the
      instance ends as it began.
   The regenerated model (Gen/All.v) has this shape by construction: Compute / Report are functions of the configuration record.
   Interleavings below the granularity of a call are not modelled here: once no call writes the instance or a global, two calls
   share no mutable memory (the pipelines they build are disjoint Kahn networks, C03); the harness runs concurrent calls on one
   instance under the race detector. *)
From Coq Require Import List String Arith Lia.
Import ListNotations.
From Verif Require Import Gen.Effects.

Theorem C09_no_method_writes_its_instance : receiver_writes = [].
Proof. reflexivity. Qed.

(* not vacuous: the analysis saw the methods *)
Theorem C09_methods_were_analysed : 200 <= methods_analysed.
Proof. unfold methods_analysed. repeat constructor. Qed.

Section Instance.
Context {C In Out : Type}.
Variable call : C -> In -> C * Out.              (* one Compute/Report call: new instance state and result *)

Definition config_only : Prop := forall c x, fst (call c x) = c.
Definition fresh (c : C) (x : In) : Out := snd (call c x).

(* calls one after another on the same instance *)
Fixpoint calls (c : C) (xs : list In) : list Out * C :=
  match xs with
  | [] => ([], c)
  | x :: r => let (c', o) := call c x in let (os, c'') := calls c' r in (o :: os, c'')
  end.

Theorem C09_reuse_equals_fresh : config_only -> forall c xs, calls c xs = (map (fresh c) xs, c).
Proof.
  intros H c xs. induction xs as [|x r IH]; [reflexivity|].
  cbn [calls map]. destruct (call c x) as [c' o] eqn:E.
  assert (c' = c) by (specialize (H c x); rewrite E in H; exact H). subst c'.
  rewrite IH. unfold fresh. rewrite E. reflexivity.
Qed.

(* several clients, whole calls interleaved in any order: every client sees the results of fresh instances *)
Definition results_of (client : nat) (log : list (nat * Out)) : list Out :=
  map snd (filter (fun e => Nat.eqb (fst e) client) log).
Fixpoint run (c : C) (sched : list (nat * In)) : list (nat * Out) * C :=
  match sched with
  | [] => ([], c)
  | (k, x) :: r => let (c', o) := call c x in let (log, c'') := run c' r in ((k, o) :: log, c'')
  end.
Definition inputs_of (client : nat) (sched : list (nat * In)) : list In :=
  map snd (filter (fun e => Nat.eqb (fst e) client) sched).

Theorem C09_interleaved_calls_equal_fresh : config_only -> forall c sched client,
  results_of client (fst (run c sched)) = map (fresh c) (inputs_of client sched) /\ snd (run c sched) = c.
Proof.
  intros H c sched client. induction sched as [|[k x] r [IH1 IH2]]; [split; reflexivity|].
  cbn [run]. destruct (call c x) as [c' o] eqn:E.
  assert (c' = c) by (specialize (H c x); rewrite E in H; exact H). subst c'.
  destruct (run c r) as [log c''] eqn:R. cbn [fst snd] in *.
  unfold results_of, inputs_of in *. cbn [filter fst].
  destruct (Nat.eqb k client); cbn [map snd]; [|split; assumption].
  split; [|assumption]. rewrite IH1. unfold fresh. rewrite E. reflexivity.
Qed.

(* the hypothesis matters: a call that remembers something is observable on reuse *)
End Instance.

Example C09_stateful_instance_is_observable :
  exists (call : nat -> nat -> nat * nat), ~ config_only call /\ fst (calls call 0 [1; 1]) <> map (fresh call 0) [1; 1].
Proof.
  exists (fun c x => (c + x, c + x)). split.
  - intros H. specialize (H 0 1). discriminate H.
  - cbv. discriminate.
Qed.

Print Assumptions C09_no_method_writes_its_instance.
Print Assumptions C09_reuse_equals_fresh.
Print Assumptions C09_interleaved_calls_equal_fresh.
