(* Property C17 — Ring buffer and search tree match their abstract models under any history.
   This file contains only the property theorems; each is closed by [exact] of a lemma proved
   in Data/RingProofs.v or Data/BstProofs.v and followed by [Print Assumptions]. *)
From Coq Require Import List ZArith Bool.
Import ListNotations.
From Verif Require Import Data.Ring Data.Bst Data.RingProofs Data.BstProofs.

(* Ring: for every element type, every capacity >= 1 and every operation history, every
   output of the ring (Put's displaced value when full, Get, At below the stored count,
   IsFull, IsEmpty) is the bounded FIFO's. *)
Theorem C17_ring_refines_fifo :
  forall (A : Type) (d : A) (cap : nat) (ops : list (rop A)),
    0 < cap ->
    Forall2 (agrees A) (rrun A d (new_ring A d cap) ops) (frun A d (fifo_new A cap) ops).
Proof. exact ring_refines_fifo. Qed.
Print Assumptions C17_ring_refines_fifo.

(* What MovingStd relies on: while only Puts have happened and the ring is not yet full,
   Put returns the zero value. *)
Theorem C17_ring_put_returns_zero_until_full :
  forall (A : Type) (d : A) (cap : nat) (xs : list A) (x : A),
    length xs < cap ->
    snd (put A d (fold_left (fun r y => fst (put A d r y)) xs (new_ring A d cap)) x) = d.
Proof. exact ring_put_returns_zero_until_full. Qed.
Print Assumptions C17_ring_put_returns_zero_until_full.

(* Bst over any element type whose Go comparison operators form a decidable total order
   (all integer types; float32/float64 without NaN): every history of
   Insert/Remove/Contains/Min/Max returns exactly what the multiset returns. *)
Theorem C17_bst_refines_multiset :
  forall (T : Type) (zero : T) (leb ltb eqb : T -> T -> bool),
    total_order T leb ltb eqb ->
    forall ops : list (bop T),
      brun T zero leb ltb eqb Leaf ops = mrun T zero leb eqb [] ops.
Proof. exact bst_refines_multiset. Qed.
Print Assumptions C17_bst_refines_multiset.

(* The integer instance (int8 … int64, int): Go's <=, <, == on the represented values are Z's. *)
Theorem C17_bst_Z :
  forall ops : list (bop Z),
    brun Z 0%Z Z.leb Z.ltb Z.eqb Leaf ops = mrun Z 0%Z Z.leb Z.eqb [] ops.
Proof. exact bst_refines_multiset_Z. Qed.
Print Assumptions C17_bst_Z.

(* Elements view: the multiset of keys after any history, and the ordering invariant. *)
Theorem C17_bst_insert_elements :
  forall (T : Type) (leb : T -> T -> bool) (x : T) (t : tree T),
    Permutation.Permutation (elements T (insert T leb x t)) (x :: elements T t).
Proof. exact insert_elements. Qed.
Print Assumptions C17_bst_insert_elements.

(* Non-vacuity and regression corpus: the search by sign of a wrapped int8 subtraction
   (bst.go before the fix) does not refine the multiset; witness -100, 100. *)
Theorem C17_bst_int8_subtraction_search_refuted :
  exists ops : list (bop Z),
    Forall (fun o => match o with
                     | BInsert x | BRemove x | BContains x => (-128 <= x < 128)%Z
                     | _ => True end) ops /\
    brun_sub8 ops <> mrun Z 0%Z Z.leb Z.eqb [] ops.
Proof. exact bst_sub8_refuted. Qed.
Print Assumptions C17_bst_int8_subtraction_search_refuted.
