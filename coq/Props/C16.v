(* Property C16 - stream helpers equal their slice models.  The slice models are the list functions of coq/Base/Stream.v
   (s_skip, s_shift, s_op2, ...) and the regenerated arithmetic wrappers of Gen/All.v; the correspondence run ties every Go helper
   to its model on all lengths 0..12 and parameters 0..6.  The theorems here say what those models compute, for every length
   (empty inputs and inputs shorter than the parameter included) and every parameter in the helper's domain.  Proofs: Base/HelperLaws.v.
   Not proved here: that the goroutine of each helper, under every schedule, realises its model (operational adequacy) -
   see DESIGN.md section C16/C03; the correspondence observes it, including that longer inputs are consumed to the end. *)
From Coq Require Import List ZArith Bool Lia.
Import ListNotations.
From Verif Require Import Base.Num Base.Stream Base.StreamProofs Base.GenPrelude Base.HelperModels Base.HelperLaws Gen.All.

Theorem C16_map_filter_are_the_list_functions : forall A B (f : A -> B) (p : A -> bool) (l : list A) I (e : expr I A) env,
  s_filter p l = filter p l /\ sem (EMap f e) env = map f (sem e env).
Proof. intros; split; reflexivity. Qed.
Theorem C16_skip : forall A (k : Z) (l : list A) i d,
  nth i (s_skip k l) d = nth (i + Z.to_nat k) l d /\ length (s_skip k l) = (length l - Z.to_nat k)%nat.
Proof. intros; split; [apply skip_nth | apply s_skip_length]. Qed.
Theorem C16_head_first : forall A (k : Z) (l : list A), s_head k l = firstn (Z.to_nat k) l /\ s_first k l = firstn (Z.to_nat k) l.
Proof. exact @head_is_firstn. Qed.
Theorem C16_last : forall A (k : Z) (l : list A),
  length (s_last k l) = Nat.min (Z.to_nat k) (length l) /\ firstn (length l - Z.to_nat k) l ++ s_last k l = l.
Proof. exact @last_is_suffix. Qed.
Theorem C16_shift : forall A (k : Z) (fill : A) (l : list A),
  s_shift k fill l = repeat fill (Z.to_nat k) ++ l /\ length (s_shift k fill l) = (Z.to_nat k + length l)%nat.
Proof. exact @shift_is_prepend. Qed.
Theorem C16_buffered_pipe : forall A (k : Z) (l : list A), s_buffered k l = l /\ s_pipe l = l.
Proof. exact @buffered_is_id. Qed.
Theorem C16_echo : forall A (d : A) (last count : Z) (l : list A), (Z.to_nat last <= length l)%nat ->
  s_echo d last count l = l ++ concat (repeat (s_last last l) (Z.to_nat count)).
Proof. exact @echo_full. Qed.
Theorem C16_operate : forall A B C (f : A -> B -> C) (a : list A) (b : list B),
  length (s_op2 f a b) = Nat.min (length a) (length b) /\
  forall i da db dc, (i < length a)%nat -> (i < length b)%nat -> nth i (s_op2 f a b) dc = f (nth i a da) (nth i b db).
Proof. exact @operate_law. Qed.
Theorem C16_operate3 : forall A B C D (f : A -> B -> C -> D) (a : list A) (b : list B) (c : list C),
  length (s_op3 f a b c) = Nat.min (length a) (Nat.min (length b) (length c)) /\
  forall i da db dc dd, (i < length a)%nat -> (i < length b)%nat -> (i < length c)%nat ->
    nth i (s_op3 f a b c) dd = f (nth i a da) (nth i b db) (nth i c dc).
Proof. exact @operate3_law. Qed.
Theorem C16_map_with_previous : forall A B (f : B -> A -> B) (prev : B) (l : list A) i d,
  (i < length l)%nat -> nth i (s_scan f prev l) d = fold_left f (firstn (S i) l) prev.
Proof. exact @scan_law. Qed.
Theorem C16_count : forall T (N : Num T) O (from : T) (l : list O) i d,
  (i < length l)%nat -> nth i (s_count from l) d = iter_add1 from i.
Proof. exact @count_law. Qed.
Theorem C16_change : forall I T (N : Num T) (e : expr I T) (k : Z) env, (0 <= k)%Z ->
  let l := sem e env in
  length (sem (helper_Change e k) env) = (length l - Z.to_nat k)%nat /\
  forall i d, (i + Z.to_nat k < length l)%nat ->
    nth i (sem (helper_Change e k) env) d = nsub (nth (i + Z.to_nat k) l d) (nth i l d).
Proof. exact @change_law. Qed.
Theorem C16_change_ratio : forall I T (N : Num T) (e : expr I T) (k : Z) env, (0 <= k)%Z ->
  let l := sem e env in
  length (sem (helper_ChangeRatio e k) env) = (length l - Z.to_nat k)%nat /\
  forall i d, (i + Z.to_nat k < length l)%nat ->
    nth i (sem (helper_ChangeRatio e k) env) d = ndiv (nsub (nth (i + Z.to_nat k) l d) (nth i l d)) (nth i l d).
Proof. exact @change_ratio_law. Qed.
Theorem C16_change_percent : forall I T (N : Num T) (e : expr I T) (k : Z) env,
  sem (helper_ChangePercent e k) env = map (fun x => nmul x (nofZ 100)) (sem (helper_ChangeRatio e k) env).
Proof. exact @change_percent_law. Qed.
Theorem C16_sync_period : forall I A (common period : Z) (e : expr I A) env,
  sem (helper_SyncPeriod common period e) env = skipn (Z.to_nat (common - period)) (sem e env).
Proof. intros. apply sync_period_law. Qed.
Theorem C16_since : forall I T (N : Num T) (neqb_spec : forall a b : T, neqb a b = true <-> a = b)
    (T_dec : forall a b : T, {a = b} + {a <> b}) (e : expr I T) env,
  sem (helper_Since e) env =
  (fix go (rp : list T) (l : list T) : list T :=
     match l with [] => [] | x :: l' => nat_to_T (run_before T_dec x rp) :: go (x :: rp) l' end) [] (sem e env).
Proof. exact @since_law. Qed.

(* the helpers the translator regenerates from source denote exactly the hand-written slice models *)
Theorem C16_generated_helpers_are_the_slice_models : forall I T (N : Num T) (e e' : expr I T) (k : Z) (x : T) env,
  sem (helper_Change e k) env = s_change k (sem e env) /\
  sem (helper_ChangeRatio e k) env = s_change_ratio k (sem e env) /\
  sem (helper_ChangePercent e k) env = s_change_percent k (sem e env) /\
  sem (helper_Abs e) env = map nabs (sem e env) /\
  sem (helper_Add e e') env = s_op2 nadd (sem e env) (sem e' env) /\
  sem (helper_Subtract e e') env = s_op2 nsub (sem e env) (sem e' env) /\
  sem (helper_Multiply e e') env = s_op2 nmul (sem e env) (sem e' env) /\
  sem (helper_Divide e e') env = s_op2 ndiv (sem e env) (sem e' env) /\
  sem (helper_MultiplyBy e x) env = map (fun n => nmul n x) (sem e env) /\
  sem (helper_DivideBy e x) env = map (fun n => ndiv n x) (sem e env) /\
  sem (helper_IncrementBy e x) env = map (fun n => nadd n x) (sem e env) /\
  sem (helper_DecrementBy e x) env = map (fun n => nsub n x) (sem e env) /\
  sem (helper_Pow e x) env = map (fun n => npow n x) (sem e env) /\
  sem (helper_Sqrt e) env = map nsqrt (sem e env) /\
  sem (helper_Sign e) env = s_sign (sem e env) /\
  sem (helper_KeepPositives e) env = s_keep_positives (sem e env) /\
  sem (helper_KeepNegatives e) env = s_keep_negatives (sem e env) /\
  sem (helper_RoundDigits e k) env = s_round_digits k (sem e env).
Proof. exact @generated_helpers_are_the_slice_models. Qed.
Theorem C16_generated_since_is_the_slice_model : forall I T (N : Num T) (e : expr I T) env,
  sem (helper_Since e) env = s_since neqb (sem e env).
Proof. exact @since_generated_is_slice_model. Qed.

Print Assumptions C16_generated_helpers_are_the_slice_models.
Print Assumptions C16_generated_since_is_the_slice_model.
Print Assumptions C16_skip.
Print Assumptions C16_last.
Print Assumptions C16_shift.
Print Assumptions C16_echo.
Print Assumptions C16_operate.
Print Assumptions C16_operate3.
Print Assumptions C16_map_with_previous.
Print Assumptions C16_count.
Print Assumptions C16_change.
Print Assumptions C16_change_ratio.
Print Assumptions C16_sync_period.
Print Assumptions C16_since.
