(* Property C19 - malformed external data never panics, hangs or leaks.  Theorems about the model of the CSV glue (Codec/Glue.v; proofs there);
   bytes -> parser events is the standard library's (encoding/csv, encoding/json, net/http) and is exercised, not modelled. *)
From Coq Require Import List ZArith Bool String.
Import ListNotations.
From Verif Require Import Codec.Csv Codec.Glue.

Theorem C19_csv_reader_never_panics : forall (has_header : bool) (headers : list string) (evs : list ev),
  snd (csv_glue true has_header headers evs) = Closed.
Proof. exact glue_never_panics. Qed.
Theorem C19_csv_reader_delivers_the_wellformed_prefix : forall (b : bool) cols (good : list (list string)) (rest : list ev),
  Forall (fun r => pick cols r <> None) good ->
  (match rest with [] => True | EErr :: _ => True | ERec r :: _ => pick cols r = None end) ->
  fst (deliver b cols (map ERec good ++ rest)) = map (fun r => match pick cols r with Some row => row | None => [] end) good.
Proof. exact glue_delivers_wellformed_prefix. Qed.
(* before the fix commit (no bounds check): safe with a header row thanks to encoding/csv's equal-field-count rule, unsafe without one *)
Theorem C19_unchecked_with_header_is_safe : forall (headers fh : list string) (evs : list ev),
  Forall (fun e => match e with ERec r => List.length r = List.length fh | EErr => True end) evs ->
  snd (csv_glue false true headers (ERec fh :: evs)) = Closed.
Proof. exact glue_with_header_never_panics_unchecked. Qed.
Theorem C19_unchecked_without_header_refuted :
  snd (csv_glue false false ["A"; "B"; "C"]%string [ERec ["x"]%string]) = Panicked.
Proof. exact glue_no_header_short_record_panics_unchecked. Qed.

Print Assumptions C19_csv_reader_never_panics.
Print Assumptions C19_csv_reader_delivers_the_wellformed_prefix.
Print Assumptions C19_unchecked_with_header_is_safe.
Print Assumptions C19_unchecked_without_header_refuted.
