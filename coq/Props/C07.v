(* Property C07 - compound and decorator strategies combine sub-recommendations as specified.  Theorems only; proofs in
   Strat/Combinators.v.  The statements are about the regenerated definitions of Gen/All.v (strategy_AndStrategy_Compute, ...),
   for arbitrary wrapped strategies (any action streams, any lengths) and, for the decorators, real-valued closing prices. *)
From Coq Require Import List ZArith Bool Reals.
Import ListNotations.
From Verif Require Import Base.Num Base.Stream Base.GenPrelude Gen.All Strat.StratOk Strat.StratWrap Strat.Outcome Strat.Combinators.

Section C07.
Context {T : Type} {N : Num T}.
Notation snap := (asset_Snapshot (T:=T)).
Notation strat := (strategy_Strategy (I:=snap) (T:=T)).

(* And / Or / Majority: a decision on the tally of the standing (denormalised) recommendations, position by position *)
Theorem C07_and_is_vote : forall (a : strategy_AndStrategy (I:=snap) (T:=T)) s0 rest e env,
  strategy_AndStrategy_Strategies a = s0 :: rest ->
  sem (strategy_AndStrategy_Compute a e) env = map (and_rule (Z.of_nat (length (s0 :: rest)))) (tallies (standing (s0 :: rest) e env)).
Proof. exact and_is_vote. Qed.
Theorem C07_or_is_vote : forall (a : strategy_OrStrategy (I:=snap) (T:=T)) s0 rest e env,
  strategy_OrStrategy_Strategies a = s0 :: rest ->
  sem (strategy_OrStrategy_Compute a e) env = map or_rule (tallies (standing (s0 :: rest) e env)).
Proof. exact or_is_vote. Qed.
Theorem C07_majority_is_vote : forall (a : strategy_MajorityStrategy (I:=snap) (T:=T)) s0 rest e env,
  strategy_MajorityStrategy_Strategies a = s0 :: rest ->
  sem (strategy_MajorityStrategy_Compute a e) env = map majority_rule (tallies (standing (s0 :: rest) e env)).
Proof. exact majority_is_vote. Qed.
Theorem C07_split_is_zip : forall (s : strategy_SplitStrategy (I:=snap) (T:=T)) e env,
  sem (strategy_SplitStrategy_Compute s e) env =
  s_op2 split_rule (sem (strategy_Strategy_Compute (strategy_SplitStrategy_BuyStrategy s) e) env)
                   (sem (strategy_Strategy_Compute (strategy_SplitStrategy_SellStrategy s) e) env).
Proof. exact split_is_zip. Qed.
Theorem C07_macd_rsi_is_zip : forall (m : strategy_compound_MacdRsiStrategy (T:=T)) (e : expr snap snap) env,
  sem (strategy_compound_MacdRsiStrategy_Compute m e) env =
  s_op2 (fun a b => if Z.eqb a b then a else 0%Z)
        (denormalize_l (sem (strategy_trend_MacdStrategy_Compute (strategy_compound_MacdRsiStrategy_MacdStrategy m) e) env))
        (denormalize_l (sem (strategy_momentum_RsiStrategy_Compute (strategy_compound_MacdRsiStrategy_RsiStrategy m) e) env)).
Proof. exact macd_rsi_is_zip. Qed.
Theorem C07_inverse_is_map : forall (i : strategy_decorator_InverseStrategy (I:=snap) (T:=T)) e env,
  sem (strategy_decorator_InverseStrategy_Compute i e) env =
  map inverse_rule (sem (strategy_Strategy_Compute (strategy_decorator_InverseStrategy_InnerStrategy i) e) env).
Proof. exact inverse_is_map. Qed.
End C07.

(* what the tallies and the rules mean *)
Theorem C07_tally_is_columnwise : forall l0 rest j d,
  Forall (fun l => (j < length l)%nat) (l0 :: rest) -> nth j (tallies (l0 :: rest)) d = tally_col (column j (l0 :: rest)).
Proof. exact tallies_nth. Qed.
Theorem C07_vote_length_is_shortest : forall l0 rest, length (tallies (l0 :: rest)) = list_min (length l0) (map (@length Z) rest).
Proof. exact tallies_length_min. Qed.
Theorem C07_and_rule : forall col, col <> [] ->
  (and_rule (Z.of_nat (length col)) (tally_col col) = (-1)%Z <-> Forall (eq (-1)%Z) col) /\
  (and_rule (Z.of_nat (length col)) (tally_col col) = 1%Z <-> Forall (eq 1%Z) col).
Proof. exact and_rule_spec. Qed.
Theorem C07_or_rule : forall col,
  (or_rule (tally_col col) = (-1)%Z <-> (In (-1)%Z col /\ ~ In 1%Z col)) /\
  (or_rule (tally_col col) = 1%Z <-> (In 1%Z col /\ ~ In (-1)%Z col)).
Proof. exact or_rule_spec. Qed.
Theorem C07_majority_rule : forall col,
  let sells := Z.of_nat (count_occ Z.eq_dec col (-1)%Z) in
  let buys := Z.of_nat (count_occ Z.eq_dec col 1%Z) in
  let holds := (Z.of_nat (length col) - sells - buys)%Z in
  (majority_rule (tally_col col) = (-1)%Z <-> (sells > buys /\ sells > holds)%Z) /\
  (majority_rule (tally_col col) = 1%Z <-> (~ (sells > buys /\ sells > holds) /\ buys > sells /\ buys > holds)%Z).
Proof. exact majority_rule_spec. Qed.
Theorem C07_split_rule : forall b s,
  (split_rule b s = 1%Z <-> (b = 1%Z /\ s <> (-1)%Z)) /\ (split_rule b s = (-1)%Z <-> (s = (-1)%Z /\ b <> 1%Z)).
Proof. exact split_rule_spec. Qed.
Theorem C07_inverse_swaps : forall a, is_act a -> inverse_rule a = (- a)%Z /\ inverse_rule (inverse_rule a) = a.
Proof. intros a H. split; [apply inverse_rule_spec | apply inverse_involutive]; exact H. Qed.

(* decorators, over the reals *)
Theorem C07_noloss_tie : forall (d : strategy_decorator_NoLossStrategy (I:=asset_Snapshot (T:=R)) (T:=R)) e env,
  sem (strategy_decorator_NoLossStrategy_Compute d e) env =
  noloss_l (sem (strategy_Strategy_Compute (strategy_decorator_NoLossStrategy_InnertStrategy d) e) env)
           (map (@asset_Snapshot_Close R) (sem e env)).
Proof. exact noloss_is_generated. Qed.
Theorem C07_stoploss_tie : forall (d : strategy_decorator_StopLossStrategy (I:=asset_Snapshot (T:=R)) (T:=R)) e env,
  sem (strategy_decorator_StopLossStrategy_Compute d e) env =
  stoploss_l (strategy_decorator_StopLossStrategy_Percentage d)
             (sem (strategy_Strategy_Compute (strategy_decorator_StopLossStrategy_InnertStrategy d) e) env)
             (map (@asset_Snapshot_Close R) (sem e env)).
Proof. exact stoploss_is_generated. Qed.
Theorem C07_noloss_is_spec : forall acts closes,
  Forall (fun c => (0 < c)%R) closes -> noloss_l acts closes = noloss_spec None acts closes.
Proof. exact noloss_refines. Qed.
Theorem C07_noloss_never_sells_at_a_loss : forall acts closes,
  Forall (fun c => (0 < c)%R) closes -> noloss_safe None (noloss_l acts closes) closes.
Proof. exact noloss_safety. Qed.
Theorem C07_stoploss_is_spec : forall pct acts closes,
  (pct < 1)%R -> Forall (fun c => (0 < c)%R) closes -> stoploss_l pct acts closes = stoploss_spec pct None acts closes.
Proof. exact stoploss_refines. Qed.

Print Assumptions C07_and_is_vote.
Print Assumptions C07_or_is_vote.
Print Assumptions C07_majority_is_vote.
Print Assumptions C07_split_is_zip.
Print Assumptions C07_macd_rsi_is_zip.
Print Assumptions C07_inverse_is_map.
Print Assumptions C07_tally_is_columnwise.
Print Assumptions C07_vote_length_is_shortest.
Print Assumptions C07_and_rule.
Print Assumptions C07_or_rule.
Print Assumptions C07_majority_rule.
Print Assumptions C07_split_rule.
Print Assumptions C07_inverse_swaps.
Print Assumptions C07_noloss_tie.
Print Assumptions C07_stoploss_tie.
Print Assumptions C07_noloss_is_spec.
Print Assumptions C07_noloss_never_sells_at_a_loss.
Print Assumptions C07_stoploss_is_spec.
