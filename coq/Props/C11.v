(* Property C11 - CSV and JSON codecs round-trip.  Theorems only; proofs in Codec/Csv.v.  Record level: cells are encoded and decoded by an
   abstract per-field codec with the round-trip hypothesis dec (enc v) = Some v (Go's strconv / time formats; exercised by the correspondence on
   every supported kind and adversarial values); the byte-level CSV grammar is encoding/csv's. *)
From Coq Require Import List ZArith Bool String.
Import ListNotations.
From Verif Require Import Codec.Csv.

Theorem C11_rows_written_and_read_back_are_identical :
  forall V (enc : nat -> V -> string) (dec : nat -> string -> option V), (forall i v, dec i (enc i v) = Some v) ->
  forall (headers : list string) (dflt : V) (rows : list (list V)),
  NoDup headers -> Forall (fun r => List.length r = List.length headers) rows ->
  read_records dec headers dflt (write_records enc headers rows) = rows.
Proof. exact @read_write_id. Qed.

Theorem C11_reading_maps_columns_by_header_name :
  forall V (dec : nat -> string -> option V) (headers : list string) (dflt : V) (fh1 fh2 : list string) (recs1 recs2 : list (list string)),
  Forall2 (fun r1 r2 => Forall2 (same_cell r1 r2) (map (column_of fh1) headers) (map (column_of fh2) headers)) recs1 recs2 ->
  read_records dec headers dflt (fh1 :: recs1) = read_records dec headers dflt (fh2 :: recs2).
Proof. exact @read_any_column_order. Qed.

Theorem C11_missing_column_keeps_zero_value :
  forall V (dec : nat -> string -> option V) (dflt : V) (rec : list string) (cols : list (option nat)) i r j,
  decode_fields dec i cols dflt rec = Some r -> nth_error cols j = Some None -> nth_error r j = Some dflt.
Proof. exact @missing_column_keeps_default. Qed.

Theorem C11_write_replaces : forall B (old new : list B), write_file old new = new.
Proof. exact @write_replaces. Qed.
Theorem C11_append_keeps_and_adds : forall B (old new : list B),
  firstn (List.length old) (append_file old new) = old /\ skipn (List.length old) (append_file old new) = new.
Proof. exact @append_keeps_and_adds. Qed.
Theorem C11_json_array_roundtrip : forall E (l : list E), from_json (to_json l) = l.
Proof. exact @json_roundtrip. Qed.

Print Assumptions C11_rows_written_and_read_back_are_identical.
Print Assumptions C11_reading_maps_columns_by_header_name.
Print Assumptions C11_missing_column_keeps_zero_value.
Print Assumptions C11_write_replaces.
Print Assumptions C11_append_keeps_and_adds.
Print Assumptions C11_json_array_roundtrip.
