(* Property C05 for the combinators and decorators of the regenerated model: And, Or, Majority (k >= 1 wrapped
   strategies), Split, MACD-RSI, Inverse, No-Loss, Stop-Loss keep the one-action-per-snapshot / Hold-through-warm-up
   contract whenever the wrapped strategies keep it; the warm-up of a vote or a zip is the smallest wrapped warm-up,
   that of a decorator is the inner one.  Stated for arbitrary wrapped strategies, so nesting is by instantiation. *)
From Coq Require Import ZArith List Bool Lia.
Import ListNotations.
From Verif Require Import Base.Num Base.Stream Base.StreamProofs Base.GenPrelude Gen.All Spec.Admissible Gen.AdmStrat
  Strat.StratOk Strat.StratWrap Props.C05.
Local Open Scope Z_scope.

Section C05Wrap.
Context {T : Type} {N : Num T}.
Notation snap := (asset_Snapshot (T:=T)).
Notation strat := (strategy_Strategy (I:=snap) (T:=T)).

Definition sok (s : strat) (w : nat) : Prop := strat_ok (strategy_Strategy_Compute s) w.

Lemma denorm_lok n w l : lok n w l -> lok n w (s_mapst (fun last a => if zneb a 0 && zneb a last then (a, a) else (last, last)) 0 l).
Proof.
  apply (lok_mapst is_action).
  - reflexivity.
  - apply is_action_0.
  - intros s a Hs Ha. destruct (zneb a 0 && zneb a s); cbn; split; assumption.
Qed.

Lemma sources_lok (rest : list strat) (wr : list nat) (e : expr snap snap) env :
  Forall2 sok rest wr ->
  Forall2 (lok (length (sem e env))) wr (map (fun s => sem s env) (strategy_ActionSources rest e)).
Proof.
  induction 1 as [|s w rest wr Hs _ IH]; cbn; constructor; [|exact IH].
  apply denorm_lok. apply strat_ok_lok. exact Hs.
Qed.

Ltac vote_proof Hss Hs0 Hr :=
  apply strat_ok_lok; intros e env;
  cbv beta delta [strategy_AndStrategy_Compute strategy_OrStrategy_Compute strategy_MajorityStrategy_Compute]; cbv zeta;
  rewrite Hss; cbn [sem]; rewrite sem_count_actions by (cbn; discriminate);
  cbn [strategy_ActionSources map];
  apply lok_vote;
  [ apply denorm_lok; apply strat_ok_lok; exact Hs0
  | apply sources_lok; exact Hr
  | rewrite map_length; unfold strategy_ActionSources; rewrite map_length
  | intros [[b h] s]; repeat match goal with |- context [if ?c then _ else _] => destruct c end; auto with actdb ].

Theorem C05_And (a : strategy_AndStrategy (I:=snap) (T:=T)) s0 rest w0 wr :
  strategy_AndStrategy_Strategies a = s0 :: rest -> sok s0 w0 -> Forall2 sok rest wr ->
  strat_ok (strategy_AndStrategy_Compute a) (list_min w0 wr).
Proof.
  intros Hss Hs0 Hr. vote_proof Hss Hs0 Hr.
  unfold hold_tally. cbn [length]. 
  replace (0 =? Z.of_nat (S (length rest))) with false by (symmetry; apply Z.eqb_neq; lia). reflexivity.
Qed.

Theorem C05_Or (a : strategy_OrStrategy (I:=snap) (T:=T)) s0 rest w0 wr :
  strategy_OrStrategy_Strategies a = s0 :: rest -> sok s0 w0 -> Forall2 sok rest wr ->
  strat_ok (strategy_OrStrategy_Compute a) (list_min w0 wr).
Proof.
  intros Hss Hs0 Hr. vote_proof Hss Hs0 Hr. reflexivity.
Qed.

Theorem C05_Majority (a : strategy_MajorityStrategy (I:=snap) (T:=T)) s0 rest w0 wr :
  strategy_MajorityStrategy_Strategies a = s0 :: rest -> sok s0 w0 -> Forall2 sok rest wr ->
  strat_ok (strategy_MajorityStrategy_Compute a) (list_min w0 wr).
Proof.
  intros Hss Hs0 Hr. vote_proof Hss Hs0 Hr. reflexivity.
Qed.

Theorem C05_Split (s : strategy_SplitStrategy (I:=snap) (T:=T)) wb ws :
  sok (strategy_SplitStrategy_BuyStrategy s) wb -> sok (strategy_SplitStrategy_SellStrategy s) ws ->
  strat_ok (strategy_SplitStrategy_Compute s) (Nat.min wb ws).
Proof.
  intros Hb Hs. apply strat_ok_lok; intros e env. unfold strategy_SplitStrategy_Compute. cbn [sem].
  apply lok_op2; [reflexivity | | apply strat_ok_lok; exact Hb | apply strat_ok_lok; exact Hs].
  intros x y _ _. repeat match goal with |- context [if ?c then _ else _] => destruct c end; auto with actdb.
Qed.

Theorem C05_MacdRsi (m : strategy_compound_MacdRsiStrategy (T:=T)) :
  adm_strategy_compound_MacdRsiStrategy (I:=snap) (T:=T) m = true ->
  strat_ok (strategy_compound_MacdRsiStrategy_Compute (I:=snap) m)
    (Nat.min (Z.to_nat (warm_of (strategy_trend_MacdStrategy_Compute (I:=snap) (strategy_compound_MacdRsiStrategy_MacdStrategy m))))
             (Z.to_nat (warm_of (strategy_momentum_RsiStrategy_Compute (I:=snap) (strategy_compound_MacdRsiStrategy_RsiStrategy m))))).
Proof.
  intros Hadm. unfold adm_strategy_compound_MacdRsiStrategy in Hadm.
  apply andb_prop in Hadm. destruct Hadm as [Hadm Hr]. apply andb_prop in Hadm. destruct Hadm as [_ Hm].
  apply strat_ok_lok; intros e env. unfold strategy_compound_MacdRsiStrategy_Compute. cbv zeta. cbn [sem].
  apply lok_op2.
  - reflexivity.
  - intros x y Hx _. destruct (x =? y); [exact Hx | apply is_action_0].
  - apply denorm_lok. apply strat_ok_lok. apply C05_strategy_trend_MacdStrategy. exact Hm.
  - apply denorm_lok. apply strat_ok_lok. apply C05_strategy_momentum_RsiStrategy. exact Hr.
Qed.

Theorem C05_Inverse (i : strategy_decorator_InverseStrategy (I:=snap) (T:=T)) w :
  sok (strategy_decorator_InverseStrategy_InnerStrategy i) w ->
  strat_ok (strategy_decorator_InverseStrategy_Compute i) w.
Proof.
  intros Hi. apply strat_ok_lok; intros e env. unfold strategy_decorator_InverseStrategy_Compute. cbn [sem].
  apply lok_map; [reflexivity | | apply strat_ok_lok; exact Hi].
  intros a. repeat match goal with |- context [if ?c then _ else _] => destruct c end; auto with actdb.
Qed.

Lemma closings_length (e : expr snap snap) env : length (sem (asset_SnapshotsAsClosings e) env) = length (sem e env).
Proof. unfold asset_SnapshotsAsClosings. cbn [sem]. apply map_length. Qed.

(* No-Loss and Stop-Loss start "not invested" (state = the number 0) and stay there, emitting Hold, while the
   inner strategy says Hold.  [neqb z z = true] for the number zero holds in both instances (0 = 0 in R and in binary64). *)
Theorem C05_NoLoss (d : strategy_decorator_NoLossStrategy (I:=snap) (T:=T)) w :
  sok (strategy_decorator_NoLossStrategy_InnertStrategy d) w ->
  strat_ok (strategy_decorator_NoLossStrategy_Compute d) w.
Proof.
  intros Hi. apply strat_ok_lok; intros e env. unfold strategy_decorator_NoLossStrategy_Compute. cbv zeta. cbn [sem].
  apply lok_op2st_closings; [ | | apply closings_length | apply strat_ok_lok; exact Hi].
  - intros y. reflexivity.
  - intros s x y. repeat match goal with |- context [if ?c then _ else _] => destruct c end; cbn [snd]; auto with actdb.
Qed.

Theorem C05_StopLoss (d : strategy_decorator_StopLossStrategy (I:=snap) (T:=T)) w :
  nneb (nofZ 0) (nofZ 0) = false ->
  sok (strategy_decorator_StopLossStrategy_InnertStrategy d) w ->
  strat_ok (strategy_decorator_StopLossStrategy_Compute d) w.
Proof.
  intros Hz Hi. apply strat_ok_lok; intros e env. unfold strategy_decorator_StopLossStrategy_Compute. cbv zeta. cbn [sem].
  apply lok_op2st_closings; [ | | apply closings_length | apply strat_ok_lok; exact Hi].
  - intros y. cbn [Z.eqb andb]. rewrite Hz. reflexivity.
  - intros s x y. repeat match goal with |- context [if ?c then _ else _] => destruct c end; cbn [snd]; auto with actdb.
Qed.
End C05Wrap.

Print Assumptions C05_And.
Print Assumptions C05_Or.
Print Assumptions C05_Majority.
Print Assumptions C05_Split.
Print Assumptions C05_MacdRsi.
Print Assumptions C05_Inverse.
Print Assumptions C05_NoLoss.
Print Assumptions C05_StopLoss.
