(* Property C14 for the reports of the combinators and decorators of the regenerated model: when the wrapped strategy
   (the wrapper itself, through the C05 closure theorems) emits exactly one action per snapshot - i.e. for n >= warm-up -
   the date axis and the Close, annotation and Outcome columns all have exactly n values. *)
From Coq Require Import ZArith List Bool Lia String.
Import ListNotations.
From Verif Require Import Base.Num Base.Stream Base.StreamProofs Base.GenPrelude Gen.All Spec.Admissible Gen.AdmStrat
  Strat.StratOk Strat.StratWrap Props.C05 Props.C05Wrap.
Local Open Scope Z_scope.

Section C14Wrap.
Context {T : Type} {N : Num T}.
Notation snap := (asset_Snapshot (T:=T)).
Notation strat := (strategy_Strategy (I:=snap) (T:=T)).

Definition col_len (env : list (list snap)) (c : column snap T) : nat :=
  match c with ColNum _ e => List.length (sem e env) | ColAnn _ e => List.length (sem e env) end.

(* the report every wrapper builds: dates, Close, annotations of the normalised actions, 100 x outcome *)
Definition std_report (F : expr snap snap -> expr snap Z) (e : expr snap snap) : report snap T :=
  let dates := asset_SnapshotsAsDates e in
  let closings := asset_SnapshotsAsClosings e in
  let '(actions, outcomes) := strategy_ComputeWithOutcome (mk_strategy_Strategy F) e in
  let annotations := strategy_ActionsToAnnotations actions in
  let outcomes := helper_MultiplyBy outcomes (nofZ 100) in
  report_add_num (report_add_ann (report_add_num (mk_report dates) "Close"%string closings) annotations) "Outcome"%string outcomes.

Lemma std_report_rows (F : expr snap snap -> expr snap Z) (w : nat) (e : expr snap snap) env :
  strat_ok F w -> (w <= List.length (sem e env))%nat ->
  Forall (fun c => col_len env c = List.length (sem (rp_dates (std_report F e)) env)) (rp_cols (std_report F e)).
Proof.
  intros Hok Hw. specialize (Hok e env). cbv zeta in Hok. destruct Hok as [_ [Hn _]]. destruct (Hn Hw) as [Hlen _].
  unfold std_report, strategy_ComputeWithOutcome. cbn.
  repeat constructor; cbn [col_len sem]; unfold strategy_ActionsToAnnotations, strategy_NormalizeActions, strategy_Outcome, helper_MultiplyBy,
    asset_SnapshotsAsClosings, asset_SnapshotsAsDates; cbn [sem];
    rewrite ?map_length, ?s_mapst_length, ?s_op2st_length, ?map_length, ?Hlen; lia.
Qed.

Theorem C14_And (a : strategy_AndStrategy (I:=snap) (T:=T)) e : strategy_AndStrategy_Report a e = std_report (strategy_AndStrategy_Compute a) e.
Proof. reflexivity. Qed.
Theorem C14_Or (a : strategy_OrStrategy (I:=snap) (T:=T)) e : strategy_OrStrategy_Report a e = std_report (strategy_OrStrategy_Compute a) e.
Proof. reflexivity. Qed.
Theorem C14_Majority (a : strategy_MajorityStrategy (I:=snap) (T:=T)) e : strategy_MajorityStrategy_Report a e = std_report (strategy_MajorityStrategy_Compute a) e.
Proof. reflexivity. Qed.
Theorem C14_Split (a : strategy_SplitStrategy (I:=snap) (T:=T)) e : strategy_SplitStrategy_Report a e = std_report (strategy_SplitStrategy_Compute a) e.
Proof. reflexivity. Qed.
Theorem C14_Inverse (a : strategy_decorator_InverseStrategy (I:=snap) (T:=T)) e : strategy_decorator_InverseStrategy_Report a e = std_report (strategy_decorator_InverseStrategy_Compute a) e.
Proof. reflexivity. Qed.
Theorem C14_NoLoss (a : strategy_decorator_NoLossStrategy (I:=snap) (T:=T)) e : strategy_decorator_NoLossStrategy_Report a e = std_report (strategy_decorator_NoLossStrategy_Compute a) e.
Proof. reflexivity. Qed.
Theorem C14_StopLoss (a : strategy_decorator_StopLossStrategy (I:=snap) (T:=T)) e : strategy_decorator_StopLossStrategy_Report a e = std_report (strategy_decorator_StopLossStrategy_Compute a) e.
Proof. reflexivity. Qed.
Theorem C14_BuyAndHold (a : strategy_BuyAndHoldStrategy) e : strategy_BuyAndHoldStrategy_Report (T:=T) a e = std_report (strategy_BuyAndHoldStrategy_Compute a) e.
Proof. reflexivity. Qed.

(* rows also carry the right content: Close column = the closings, annotation column = annotations of the normalised
   actions, Outcome column = 100 x Outcome(closings, actions) - by definition of std_report; stated for the record *)
Theorem C14_std_report_content (F : expr snap snap -> expr snap Z) (e : expr snap snap) :
  rp_dates (std_report F e) = asset_SnapshotsAsDates e /\
  rp_cols (std_report F e) =
    [ ColNum "Close"%string (asset_SnapshotsAsClosings e);
      ColAnn T (strategy_ActionsToAnnotations (F e));
      ColNum "Outcome"%string (helper_MultiplyBy (strategy_Outcome (asset_SnapshotsAsClosings e) (F e)) (nofZ 100)) ].
Proof. split; reflexivity. Qed.
End C14Wrap.

Print Assumptions std_report_rows.
Print Assumptions C14_And.
Print Assumptions C14_Or.
Print Assumptions C14_Majority.
Print Assumptions C14_Split.
Print Assumptions C14_Inverse.
Print Assumptions C14_NoLoss.
Print Assumptions C14_StopLoss.
Print Assumptions C14_BuyAndHold.
Print Assumptions C14_std_report_content.
