(* Property C08 - Outcome is a faithful all-in/all-out portfolio simulation; algebra of NormalizeActions,
   DenormalizeActions and CountTransactions.  Theorems only; proofs in Strat/Outcome.v.  All statements are about the
   regenerated definitions (strategy_Outcome, strategy_NormalizeActions, ... of Gen/All.v), whose list denotations are
   definitionally outcome_l / normalize_l / denormalize_l / count_tx (theorems C08_tie_...). Values range over the reals. *)
From Coq Require Import List ZArith Bool Reals.
Import ListNotations.
From Verif Require Import Base.Num Base.Stream Base.GenPrelude Gen.All Strat.Outcome.

Theorem C08_tie_outcome : forall I (ev : expr I R) (ea : expr I Z) env,
  sem (strategy_Outcome (T:=R) ev ea) env = outcome_l (sem ev env) (sem ea env).
Proof. exact @outcome_l_is_generated. Qed.
Theorem C08_tie_normalize : forall I (e : expr I Z) env, sem (strategy_NormalizeActions e) env = normalize_l (sem e env).
Proof. exact @normalize_l_is_generated. Qed.
Theorem C08_tie_denormalize : forall I (e : expr I Z) env, sem (strategy_DenormalizeActions e) env = denormalize_l (sem e env).
Proof. exact @denormalize_l_is_generated. Qed.
Theorem C08_tie_count : forall I (e : expr I Z) env, sem (strategy_CountTransactions e) env = count_tx (sem e env).
Proof. exact @count_tx_is_generated. Qed.

(* the outcome stream is the relative gain of a portfolio that starts with one unit of cash, converts all cash on a Buy while
   in cash, converts everything back on a Sell while invested, and ignores every other action *)
Theorem C08_outcome_is_portfolio : forall vals acts,
  Forall (fun v => (0 < v)%R) vals -> outcome_l vals acts = portfolio (Cash 1) vals acts.
Proof. exact outcome_refines_portfolio. Qed.

Theorem C08_one_entry_per_pair : forall vals acts, length (outcome_l vals acts) = Nat.min (length vals) (length acts).
Proof. exact outcome_length. Qed.

Theorem C08_never_below_minus_100_percent : forall vals acts,
  Forall (fun v => (0 < v)%R) vals -> Forall (fun o => (-1 <= o)%R) (outcome_l vals acts).
Proof. exact outcome_ge_m1. Qed.

Theorem C08_zero_until_first_buy : forall vals acts k,
  Forall (fun v => (0 < v)%R) vals -> Forall (fun a => a <> 1%Z) (firstn k acts) ->
  Forall (fun o => o = 0%R) (firstn k (outcome_l vals acts)).
Proof. exact outcome_zero_before_first_buy. Qed.

Theorem C08_buy_and_hold : forall v0 vals,
  (0 < v0)%R -> Forall (fun v => (0 < v)%R) vals ->
  outcome_l (v0 :: vals) (1%Z :: repeat 0%Z (length vals)) = map (fun v => (v / v0 - 1)%R) (v0 :: vals).
Proof. exact outcome_buy_and_hold. Qed.

Theorem C08_exactly_one_of_balance_and_shares : forall vals acts,
  Forall (fun v => (0 < v)%R) vals ->
  forall k, exists s, pwf s /\
    fold_left (fun st va => fst (ostep st (fst va) (snd va))) (firstn k (combine vals acts)) (1%R, 0%R) = conc s.
Proof. exact outcome_state_one_sided. Qed.

Theorem C08_redundant_actions_ignored : forall vals acts,
  Forall (fun v => (0 < v)%R) vals -> Forall is_act acts -> outcome_l vals acts = outcome_l vals (normalize_l acts).
Proof. exact outcome_normalize. Qed.

Theorem C08_normalised_alternate_from_buy : forall acts, Forall is_act acts -> alternates 1 (normalize_l acts).
Proof. exact normalize_alternates. Qed.

Theorem C08_normalize_denormalize_identity : forall l,
  alternates 1 l -> Forall is_act l -> normalize_l (denormalize_l l) = l.
Proof. exact normalize_denormalize_id. Qed.

Theorem C08_count_transactions : forall l i, (i < length l)%nat ->
  nth i (count_tx l) 0%Z = Z.of_nat (length (filter (fun a => zneb a 0) (firstn (S i) l))).
Proof. exact count_tx_spec. Qed.

(* non-vacuity: the hypotheses are met by ordinary data *)
Example C08_example : Forall (fun v => (0 < v)%R) [10; 12; 9]%R /\ Forall is_act [1; 0; -1]%Z /\ alternates 1 [1; 0; -1]%Z.
Proof.
  split; [|split].
  - repeat (constructor; [apply IZR_lt; reflexivity|]). constructor.
  - repeat (constructor; [unfold is_act; intuition|]). constructor.
  - cbn. auto.
Qed.

Print Assumptions C08_outcome_is_portfolio.
Print Assumptions C08_one_entry_per_pair.
Print Assumptions C08_never_below_minus_100_percent.
Print Assumptions C08_zero_until_first_buy.
Print Assumptions C08_buy_and_hold.
Print Assumptions C08_exactly_one_of_balance_and_shares.
Print Assumptions C08_redundant_actions_ignored.
Print Assumptions C08_normalised_alternate_from_buy.
Print Assumptions C08_normalize_denormalize_identity.
Print Assumptions C08_count_transactions.
