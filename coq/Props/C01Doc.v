(* Property C01, part 2 - documented formulas.  Theorems only (proofs in Prim/*.v), over the reals, about the regenerated
   definitions; n = input length, values reported at positions warm-up .. n-1 (tab). *)
From Coq Require Import List ZArith Bool Reals.
Import ListNotations.
From Verif Require Import Base.Num Base.Stream Base.GenPrelude Gen.All Spec.Window
  Prim.MovingSumProofs Prim.SeededProofs Prim.MovingMaxProofs.

Theorem C01_MovingSum : forall I (p : Z) (e : expr I R) env, (1 <= p)%Z ->
  sem (trend_MovingSum_Compute (T:=R) (mk_trend_MovingSum p) e) env
  = tab (Z.to_nat p - 1) (length (sem e env)) (wsum (Z.to_nat p) (sem e env)).
Proof. exact @moving_sum_is_window_sum_expr. Qed.
Theorem C01_Sma : forall I (p : Z) (e : expr I R) env, (1 <= p)%Z ->
  sem (trend_Sma_Compute (T:=R) (mk_trend_Sma p) e) env
  = tab (Z.to_nat p - 1) (length (sem e env)) (wmean (Z.to_nat p) (sem e env)).
Proof. exact @sma_is_window_mean_expr. Qed.
Theorem C01_Ema : forall (p : Z) (smoothing : R) I (e : expr I R) env, (1 <= p)%Z ->
  sem (trend_Ema_Compute (T:=R) (mk_trend_Ema p smoothing) e) env
  = tab (Z.to_nat p - 1) (length (sem e env)) (ema_doc (Z.to_nat p) smoothing (sem e env)).
Proof. exact ema_is_documented_gen. Qed.
Theorem C01_Rma : forall (p : Z) I (e : expr I R) env, (1 <= p)%Z ->
  sem (trend_Rma_Compute (T:=R) (mk_trend_Rma p) e) env
  = tab (Z.to_nat p - 1) (length (sem e env)) (seeded_rec (Z.to_nat p) (fun before n => (before * (IZR p - 1) + n) / IZR p)%R (sem e env)).
Proof. exact rma_is_documented_gen. Qed.
Theorem C01_Smma : forall (p : Z) I (e : expr I R) env, (1 <= p)%Z ->
  sem (trend_Smma_Compute (T:=R) (mk_trend_Smma p) e) env
  = tab (Z.to_nat p - 1) (length (sem e env)) (seeded_rec (Z.to_nat p) (fun before n => (before * (IZR p - 1) + n) / IZR p)%R (sem e env)).
Proof. exact smma_is_documented_gen. Qed.
Theorem C01_MovingMax : forall (p : Z) (xs : list R), (1 <= p)%Z -> Forall (fun x => x <> 0%R) (firstn (Z.to_nat p) xs) ->
  sem (trend_MovingMax_Compute (T:=R) (I:=R) (mk_trend_MovingMax p) (EIn 0)) [xs] = tab (Z.to_nat p - 1) (length xs) (wmax (Z.to_nat p) xs).
Proof. exact moving_max_is_window_max. Qed.
Theorem C01_MovingMin : forall (p : Z) (xs : list R), (1 <= p)%Z -> Forall (fun x => x <> 0%R) (firstn (Z.to_nat p) xs) ->
  sem (trend_MovingMin_Compute (T:=R) (I:=R) (mk_trend_MovingMin p) (EIn 0)) [xs] = tab (Z.to_nat p - 1) (length xs) (wmin (Z.to_nat p) xs).
Proof. exact moving_min_is_window_min. Qed.
(* for all inputs: the non-zero hypothesis above was needed by the earlier code (it removed the Shift's fill value 0 from
   the tree during warm-up, deleting a genuine 0); the code now counts the warm-up steps.  Statements above kept for users. *)
Theorem C01_MovingMax_all : forall (p : Z) (xs : list R), (1 <= p)%Z ->
  sem (trend_MovingMax_Compute (T:=R) (I:=R) (mk_trend_MovingMax p) (EIn 0)) [xs] = tab (Z.to_nat p - 1) (length xs) (wmax (Z.to_nat p) xs).
Proof. exact moving_max_is_window_max_all. Qed.
Theorem C01_MovingMin_all : forall (p : Z) (xs : list R), (1 <= p)%Z ->
  sem (trend_MovingMin_Compute (T:=R) (I:=R) (mk_trend_MovingMin p) (EIn 0)) [xs] = tab (Z.to_nat p - 1) (length xs) (wmin (Z.to_nat p) xs).
Proof. exact moving_min_is_window_min_all. Qed.

Print Assumptions C01_MovingSum.
Print Assumptions C01_Sma.
Print Assumptions C01_Ema.
Print Assumptions C01_Rma.
Print Assumptions C01_Smma.
Print Assumptions C01_MovingMax.
Print Assumptions C01_MovingMin.
Print Assumptions C01_MovingMax_all.
Print Assumptions C01_MovingMin_all.
