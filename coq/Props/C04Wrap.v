(* Property C04 for the combinators and decorators of the regenerated model: no look-ahead is preserved by And, Or,
   Majority, Split, MACD-RSI, Inverse, No-Loss and Stop-Loss over arbitrary wrapped strategies without look-ahead
   (mono0: the actions on a prefix of the snapshots are a prefix of the actions on all of them); with the C05 contract
   the actions on the first m >= warm-up snapshots are exactly the first m actions (wrap_exact). *)
From Coq Require Import ZArith List Bool Lia.
Import ListNotations.
From Verif Require Import Base.Num Base.Stream Base.StreamProofs Base.GenPrelude Base.Causal Gen.All Spec.Admissible Gen.AdmStrat
  Strat.StratOk Strat.StratWrap Props.C05 Props.C05Wrap Props.C04.
Local Open Scope Z_scope.

Section C04Wrap.
Context {T : Type} {N : Num T}.
Notation snap := (asset_Snapshot (T:=T)).
Notation strat := (strategy_Strategy (I:=snap) (T:=T)).

Definition smono (s : strat) : Prop := mono0 (strategy_Strategy_Compute s).

Lemma fold_tally_prefix (rest1 rest2 : list (list Z)) :
  Forall2 prefix rest1 rest2 -> forall acc1 acc2, prefix acc1 acc2 ->
  prefix (fold_left (fun acc l => s_op2 tally_add acc l) rest1 acc1)
         (fold_left (fun acc l => s_op2 tally_add acc l) rest2 acc2).
Proof.
  induction 1 as [|l1 l2 r1 r2 Hl _ IH]; intros acc1 acc2 Hacc; cbn [fold_left]; [exact Hacc|].
  apply IH. apply s_op2_prefix; assumption.
Qed.

Lemma sources_prefix (ss : list strat) (l1 l2 : list snap) :
  Forall smono ss -> prefix l1 l2 ->
  Forall2 prefix (map (fun s => sem s [l1]) (strategy_ActionSources ss (EIn 0)))
                 (map (fun s => sem s [l2]) (strategy_ActionSources ss (EIn 0))).
Proof.
  intros Hs Hp. induction Hs as [|s ss Hs _ IH]; cbn; constructor; [|exact IH].
  apply s_mapst_prefix. apply Hs. exact Hp.
Qed.

Lemma vote_mono0 (g : Z * Z * Z -> Z) (ss : list strat) (d : expr snap (Z * Z * Z)) :
  ss <> [] -> Forall smono ss ->
  mono0 (fun e => EMap g (count_actions (I:=snap) d (strategy_ActionSources ss e))).
Proof.
  intros Hne Hs l1 l2 Hp. cbn [sem].
  assert (Hsrc : strategy_ActionSources ss (EIn 0) <> []) by (destruct ss; [congruence | cbn; discriminate]).
  rewrite !sem_count_actions by exact Hsrc.
  apply prefix_map.
  pose proof (sources_prefix ss l1 l2 Hs Hp) as H2.
  destruct ss as [|s0 rest]; [congruence|]. cbn [strategy_ActionSources map] in *.
  inversion H2; subst. cbn [tallies]. apply fold_tally_prefix; [assumption | apply prefix_map; assumption].
Qed.

Theorem C04_And (a : strategy_AndStrategy (I:=snap) (T:=T)) :
  strategy_AndStrategy_Strategies a <> [] -> Forall smono (strategy_AndStrategy_Strategies a) ->
  mono0 (strategy_AndStrategy_Compute a).
Proof. intros Hne Hs. unfold strategy_AndStrategy_Compute. cbv zeta. apply vote_mono0; assumption. Qed.

Theorem C04_Or (a : strategy_OrStrategy (I:=snap) (T:=T)) :
  strategy_OrStrategy_Strategies a <> [] -> Forall smono (strategy_OrStrategy_Strategies a) ->
  mono0 (strategy_OrStrategy_Compute a).
Proof. intros Hne Hs. unfold strategy_OrStrategy_Compute. cbv zeta. apply vote_mono0; assumption. Qed.

Theorem C04_Majority (a : strategy_MajorityStrategy (I:=snap) (T:=T)) :
  strategy_MajorityStrategy_Strategies a <> [] -> Forall smono (strategy_MajorityStrategy_Strategies a) ->
  mono0 (strategy_MajorityStrategy_Compute a).
Proof. intros Hne Hs. unfold strategy_MajorityStrategy_Compute. cbv zeta. apply vote_mono0; assumption. Qed.

Theorem C04_Split (s : strategy_SplitStrategy (I:=snap) (T:=T)) :
  smono (strategy_SplitStrategy_BuyStrategy s) -> smono (strategy_SplitStrategy_SellStrategy s) ->
  mono0 (strategy_SplitStrategy_Compute s).
Proof.
  intros Hb Hs l1 l2 Hp. unfold strategy_SplitStrategy_Compute. cbn [sem].
  apply s_op2_prefix; [apply Hb | apply Hs]; exact Hp.
Qed.

Theorem C04_MacdRsi (m : strategy_compound_MacdRsiStrategy (T:=T)) :
  adm_strategy_compound_MacdRsiStrategy (I:=snap) (T:=T) m = true ->
  mono0 (strategy_compound_MacdRsiStrategy_Compute (I:=snap) m).
Proof.
  intros Hadm. unfold adm_strategy_compound_MacdRsiStrategy in Hadm.
  apply andb_prop in Hadm. destruct Hadm as [Hadm Hr]. apply andb_prop in Hadm. destruct Hadm as [_ Hm].
  intros l1 l2 Hp. unfold strategy_compound_MacdRsiStrategy_Compute. cbv zeta. cbn [sem].
  apply s_op2_prefix; apply s_mapst_prefix.
  - apply (C04_strategy_trend_MacdStrategy (T:=T) _ Hm). exact Hp.
  - apply (C04_strategy_momentum_RsiStrategy (T:=T) _ Hr). exact Hp.
Qed.

Theorem C04_Inverse (i : strategy_decorator_InverseStrategy (I:=snap) (T:=T)) :
  smono (strategy_decorator_InverseStrategy_InnerStrategy i) -> mono0 (strategy_decorator_InverseStrategy_Compute i).
Proof.
  intros Hi l1 l2 Hp. unfold strategy_decorator_InverseStrategy_Compute. cbn [sem]. apply prefix_map. apply Hi. exact Hp.
Qed.

Theorem C04_NoLoss (d : strategy_decorator_NoLossStrategy (I:=snap) (T:=T)) :
  smono (strategy_decorator_NoLossStrategy_InnertStrategy d) -> mono0 (strategy_decorator_NoLossStrategy_Compute d).
Proof.
  intros Hi l1 l2 Hp. unfold strategy_decorator_NoLossStrategy_Compute. cbv zeta. cbn [sem nth].
  apply s_op2st_prefix; [apply Hi; exact Hp | apply prefix_map; exact Hp].
Qed.

Theorem C04_StopLoss (d : strategy_decorator_StopLossStrategy (I:=snap) (T:=T)) :
  smono (strategy_decorator_StopLossStrategy_InnertStrategy d) -> mono0 (strategy_decorator_StopLossStrategy_Compute d).
Proof.
  intros Hi l1 l2 Hp. unfold strategy_decorator_StopLossStrategy_Compute. cbv zeta. cbn [sem nth].
  apply s_op2st_prefix; [apply Hi; exact Hp | apply prefix_map; exact Hp].
Qed.

(* with the C05 contract: exactly the first m actions once m >= warm-up *)
Theorem C04_wrap_exact (F : expr snap snap -> expr snap Z) (w : nat) (snaps : list snap) (m : nat) :
  mono0 F -> strat_ok F w -> (w <= m)%nat -> (m <= length snaps)%nat ->
  sem (F (EIn 0)) [firstn m snaps] = firstn m (sem (F (EIn 0)) [snaps]).
Proof.
  intros Hm Hok Hw Hle. apply mono0_exact; [exact Hm|].
  specialize (Hok (EIn 0) [firstn m snaps]). cbv zeta in Hok. cbn [sem nth] in Hok.
  rewrite firstn_length, Nat.min_l in Hok by exact Hle. destruct Hok as [_ [Hok _]]. apply Hok. exact Hw.
Qed.

(* changing snapshots after position m never changes the first m actions *)
Theorem C04_suffix_irrelevant (F : expr snap snap -> expr snap Z) (w : nat) (s1 s2 : list snap) (m : nat) :
  mono0 F -> strat_ok F w -> (w <= m)%nat -> (m <= length s1)%nat -> (m <= length s2)%nat ->
  firstn m s1 = firstn m s2 ->
  firstn m (sem (F (EIn 0)) [s1]) = firstn m (sem (F (EIn 0)) [s2]).
Proof.
  intros Hm Hok Hw H1 H2 Heq.
  rewrite <- (C04_wrap_exact F w s1 m Hm Hok Hw H1), <- (C04_wrap_exact F w s2 m Hm Hok Hw H2), Heq. reflexivity.
Qed.
End C04Wrap.

Print Assumptions C04_And.
Print Assumptions C04_Or.
Print Assumptions C04_Majority.
Print Assumptions C04_Split.
Print Assumptions C04_MacdRsi.
Print Assumptions C04_Inverse.
Print Assumptions C04_NoLoss.
Print Assumptions C04_StopLoss.
Print Assumptions C04_wrap_exact.
Print Assumptions C04_suffix_irrelevant.
