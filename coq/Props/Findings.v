(* Open known findings (known_findings.json): where a property is false of the faithful model, the
   refutation is a theorem with a concrete witness; replayed on the implementation by the harness. *)
From Coq Require Import ZArith List Bool Lia.
Import ListNotations.
From Coq Require Import Floats.
From Verif Require Import Base.Num Base.Stream Base.GenPrelude Gen.All Spec.Admissible Spec.StrategyDoc.
Local Open Scope Z_scope.

(* C02: the Ichimoku lagging span has LaggingPeriod more values than n - idle (and than its siblings). *)
Theorem C02_IchimokuCloud_lagging_refuted :
  exists (cfg : momentum_IchimokuCloud) (n : nat),
    adm_momentum_IchimokuCloud cfg = true /\
    forall (T : Type) (N : Num T),
      let '(_, _, _, d, lag) := momentum_IchimokuCloud_Compute (I:=T) cfg (EIn 0) (EIn 1) (EIn 2) in
      elen d [n; n; n] = (n - Z.to_nat (momentum_IchimokuCloud_IdlePeriod cfg))%nat /\
      elen lag [n; n; n] <> (n - Z.to_nat (momentum_IchimokuCloud_IdlePeriod cfg))%nat.
Proof.
  exists momentum_NewIchimokuCloud, 60%nat. split; [reflexivity|].
  intros T N. vm_compute. split; [reflexivity | discriminate].
Qed.
Print Assumptions C02_IchimokuCloud_lagging_refuted.

(* C05: Alligator and SMMA strategies shift their actions by commonPeriod while their streams lag commonPeriod - 1:
   n snapshots (n >= warm-up) yield n + 1 actions, every recommendation one position late. *)
Theorem C05_AlligatorStrategy_refuted :
  exists (n : nat),
    forall (T : Type) (N : Num T),
      let a := strategy_trend_AlligatorStrategy_Compute (I:=asset_Snapshot (T:=T)) strategy_trend_NewAlligatorStrategy (EIn 0) in
      (Z.to_nat (eshift_of a) <= n)%nat /\ elen a [n] = S n.
Proof. exists 30%nat. intros T N. vm_compute. split; [|reflexivity]. repeat constructor. Qed.

Theorem C05_SmmaStrategy_refuted :
  exists (n : nat),
    forall (T : Type) (N : Num T),
      let a := strategy_trend_SmmaStrategy_Compute (I:=asset_Snapshot (T:=T)) strategy_trend_NewSmmaStrategy (EIn 0) in
      (Z.to_nat (eshift_of a) <= n)%nat /\ elen a [n] = S n.
Proof. exists 60%nat. intros T N. vm_compute. split; [|reflexivity]. repeat constructor. Qed.
Print Assumptions C05_AlligatorStrategy_refuted.
Print Assumptions C05_SmmaStrategy_refuted.

(* C14: in the Alligator and SMMA strategy reports the indicator and annotation columns carry one value more than there are date rows. *)
Definition col_elen_ {I T} (c : column I T) (ns : list nat) : nat := match c with ColNum _ e => elen e ns | ColAnn _ e => elen e ns end.

Theorem C14_AlligatorStrategy_refuted :
  exists (n : nat), forall (T : Type) (N : Num T),
    let r := strategy_trend_AlligatorStrategy_Report (I:=asset_Snapshot (T:=T)) strategy_trend_NewAlligatorStrategy (EIn 0) in
    exists c, In c (rp_cols r) /\ col_elen_ c [n] = S (elen (rp_dates r) [n]).
Proof. exists 40%nat. intros T N. eexists. split; [right; left; reflexivity|]. vm_compute. reflexivity. Qed.

Theorem C14_SmmaStrategy_refuted :
  exists (n : nat), forall (T : Type) (N : Num T),
    let r := strategy_trend_SmmaStrategy_Report (I:=asset_Snapshot (T:=T)) strategy_trend_NewSmmaStrategy (EIn 0) in
    exists c, In c (rp_cols r) /\ col_elen_ c [n] = S (elen (rp_dates r) [n]).
Proof. exists 80%nat. intros T N. eexists. split; [right; left; reflexivity|]. vm_compute. reflexivity. Qed.
Print Assumptions C14_AlligatorStrategy_refuted.
Print Assumptions C14_SmmaStrategy_refuted.

(* C06: the CCI strategy computes the CCI of (high, high, high) instead of (high, low, close): on snapshots whose low and
   close differ from the high its actions differ from the documented ones (binary64 instance, default configuration). *)
Definition cci_witness : list (asset_Snapshot (T:=float)) :=
  map (fun k => mk_asset_Snapshot k 50%float 100%float 1%float (if Z.eqb k 75 then 95 else 10)%float 100%float)
      (map Z.of_nat (seq 1 80)).

Theorem C06_CciStrategy_refuted :
  sem (strategy_trend_CciStrategy_Compute (I:=asset_Snapshot (T:=float)) strategy_trend_NewCciStrategy (EIn 0)) [cci_witness]
  <> sem (doc_strategy_trend_CciStrategy_Compute (I:=asset_Snapshot (T:=float)) strategy_trend_NewCciStrategy (EIn 0)) [cci_witness].
Proof. vm_compute. discriminate. Qed.
Print Assumptions C06_CciStrategy_refuted.
