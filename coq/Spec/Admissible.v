(* Admissible configurations (hand-written from the documentation; independent of the Compute
   bodies): every period is >= 1 (generated [X_periods_ok]) plus the documented ordering
   constraints (fast <= slow, paired moving min/max windows of equal size, ...), and the warm-up
   implied by the formula for the four indicator types that declare no IdlePeriod method. *)
From Coq Require Import ZArith Bool List.
From Verif Require Import Base.Num Base.Stream Base.GenPrelude Gen.All.
Local Open Scope Z_scope.

Section Adm.
  Context {I T : Type} {N : Num T}.

  Definition adm_trend_Macd (c : trend_Macd (T:=T)) : bool :=
    trend_Macd_periods_ok c && (trend_Ema_Period (trend_Macd_Ema1 c) <=? trend_Ema_Period (trend_Macd_Ema2 c)).
  Definition adm_trend_Apo (c : trend_Apo (T:=T)) : bool :=
    trend_Apo_periods_ok c && (trend_Apo_FastPeriod c <=? trend_Apo_SlowPeriod c).
  (* the three windows of an HMA come from one period (NewHmaWithPeriod): round(p/2) <= p *)
  Definition adm_trend_Hma (c : trend_Hma) : bool :=
    trend_Hma_periods_ok c && (trend_Wma_Period (trend_Hma_wma1 c) <=? trend_Wma_Period (trend_Hma_wma2 c)).
  Definition adm_trend_Kdj (c : trend_Kdj) : bool :=
    trend_Kdj_periods_ok c && (trend_MovingMax_Period (trend_Kdj_MovingMax c) =? trend_MovingMin_Period (trend_Kdj_MovingMin c)).
  Definition adm_momentum_AwesomeOscillator (c : momentum_AwesomeOscillator) : bool :=
    momentum_AwesomeOscillator_periods_ok c &&
    (trend_Sma_Period (momentum_AwesomeOscillator_ShortSma c) <=? trend_Sma_Period (momentum_AwesomeOscillator_LongSma c)).
  Definition adm_momentum_ChaikinOscillator (c : momentum_ChaikinOscillator (T:=T)) : bool :=
    momentum_ChaikinOscillator_periods_ok c &&
    (trend_Ema_Period (momentum_ChaikinOscillator_ShortEma c) <=? trend_Ema_Period (momentum_ChaikinOscillator_LongEma c)).
  Definition adm_momentum_Ppo (c : momentum_Ppo (T:=T)) : bool :=
    momentum_Ppo_periods_ok c && (trend_Ema_Period (momentum_Ppo_ShortEma c) <=? trend_Ema_Period (momentum_Ppo_LongEma c)).
  Definition adm_momentum_Pvo (c : momentum_Pvo (T:=T)) : bool :=
    momentum_Pvo_periods_ok c && (trend_Ema_Period (momentum_Pvo_ShortEma c) <=? trend_Ema_Period (momentum_Pvo_LongEma c)).
  Definition adm_momentum_IchimokuCloud (c : momentum_IchimokuCloud) : bool :=
    momentum_IchimokuCloud_periods_ok c &&
    (trend_MovingMax_Period (momentum_IchimokuCloud_ConversionMax c) =? trend_MovingMin_Period (momentum_IchimokuCloud_ConversionMin c)) &&
    (trend_MovingMax_Period (momentum_IchimokuCloud_BaseMax c) =? trend_MovingMin_Period (momentum_IchimokuCloud_BaseMin c)) &&
    (trend_MovingMax_Period (momentum_IchimokuCloud_LeadingMax c) =? trend_MovingMin_Period (momentum_IchimokuCloud_LeadingMin c)) &&
    (trend_MovingMax_Period (momentum_IchimokuCloud_ConversionMax c) <=? trend_MovingMax_Period (momentum_IchimokuCloud_BaseMax c)) &&
    (trend_MovingMax_Period (momentum_IchimokuCloud_BaseMax c) <=? trend_MovingMax_Period (momentum_IchimokuCloud_LeadingMax c)).
  Definition adm_momentum_StochasticOscillator (c : momentum_StochasticOscillator) : bool :=
    momentum_StochasticOscillator_periods_ok c &&
    (trend_MovingMax_Period (momentum_StochasticOscillator_Max c) =? trend_MovingMin_Period (momentum_StochasticOscillator_Min c)).
  Definition adm_momentum_StochasticRsi (c : momentum_StochasticRsi) : bool :=
    momentum_StochasticRsi_periods_ok c &&
    (trend_MovingMax_Period (momentum_StochasticRsi_Max c) =? trend_MovingMin_Period (momentum_StochasticRsi_Min c)).
  Definition adm_momentum_WilliamsR (c : momentum_WilliamsR) : bool :=
    momentum_WilliamsR_periods_ok c &&
    (trend_MovingMax_Period (momentum_WilliamsR_Max c) =? trend_MovingMin_Period (momentum_WilliamsR_Min c)).
  Definition adm_volatility_DonchianChannel (c : volatility_DonchianChannel) : bool :=
    volatility_DonchianChannel_periods_ok c &&
    (trend_MovingMax_Period (volatility_DonchianChannel_Max c) =? trend_MovingMin_Period (volatility_DonchianChannel_Min c)).
  Definition adm_volatility_KeltnerChannel (c : volatility_KeltnerChannel (I:=I) (T:=T)) : bool :=
    volatility_KeltnerChannel_periods_ok c &&
    (trend_Ema_IdlePeriod (volatility_KeltnerChannel_Ema c) <=? volatility_Atr_IdlePeriod (volatility_KeltnerChannel_Atr c)).

  (* NewPoWithPeriod gives the three windows one period *)
  Definition adm_volatility_Po (c : volatility_Po) : bool :=
    volatility_Po_periods_ok c &&
    (trend_MovingMin_Period (volatility_Po_min c) =? trend_MovingMax_Period (volatility_Po_max c)).

  (* warm-up implied by the formula where the type has no IdlePeriod method *)
  Definition idle_trend_Apo (c : trend_Apo (T:=T)) : Z := trend_Apo_SlowPeriod c - 1.
  Definition idle_trend_Aroon (c : trend_Aroon) : Z := trend_Aroon_Period c - 1.
  Definition idle_trend_Bop (c : trend_Bop) : Z := 0.
  Definition idle_trend_TypicalPrice (c : trend_TypicalPrice) : Z := 0.
End Adm.
